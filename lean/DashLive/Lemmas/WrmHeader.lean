import DashLive.Model.WrmHeader
import DashLive.Lemmas.ClearKey
/-!
Helper lemmas for the WRMHEADER part of C11 (`Model/WrmHeader.lean`): escape /
unescape, the base64 filter, the `>\s+<` transducer, the tokenizer and the attribute
reader on texts made of literal pieces and "holes" (rendered values).  Core tactics only.
-/
set_option linter.unusedSimpArgs false
namespace DashLive.WrmHeader
open DashLive.PlayReady (Bytes)

/-! ### escape / unescape -/

theorem unescape_escape (t : Text) : unescape (escape t) = t := by
  induction t with
  | nil => simp [escape, unescape]
  | cons c cs ih =>
    have hcons : escape (c :: cs) = escapeChar c ++ escape cs := by simp [escape]
    rw [hcons]
    unfold escapeChar
    by_cases h1 : c = 38
    · subst h1; simp [unescape, ih]
    · by_cases h2 : c = 60
      · subst h2; simp [unescape, ih]
      · by_cases h3 : c = 62
        · subst h3; simp [unescape, ih]
        · by_cases h4 : c = 34
          · subst h4; simp [unescape, ih]
          · by_cases h5 : c = 39
            · subst h5; simp [unescape, ih]
            · simp only [h1, h2, h3, h4, h5, if_false, List.cons_append, List.nil_append]
              rw [unescape]
              · rw [ih]
              all_goals (intros; simp_all)

/-- characters of an escaped text -/
def Plain (c : Nat) : Prop := c ≠ 60 ∧ c ≠ 62 ∧ c ≠ 34 ∧ c ≠ 39

theorem escapeChar_plain (c x : Nat) (hx : x ∈ escapeChar c) : Plain x := by
  unfold escapeChar at hx
  unfold Plain
  split at hx
  · simp at hx; omega
  · split at hx
    · simp at hx; omega
    · split at hx
      · simp at hx; omega
      · split at hx
        · simp at hx; omega
        · split at hx
          · simp at hx; omega
          · simp at hx; omega

theorem escape_plain (t : Text) : ∀ x ∈ escape t, Plain x := by
  intro x hx
  simp only [escape, List.mem_flatMap] at hx
  obtain ⟨c, _, hc⟩ := hx
  exact escapeChar_plain c x hc

def notCrLf (c : Nat) : Bool := c != 10 && c != 13

theorem cleanup_def (t : Text) : cleanup t = squeeze (t.filter notCrLf) := rfl

/-- the escaped text is whitespace exactly where the text is -/
theorem escape_all_ws (t : Text) : (escape t).all isWs = t.all isWs := by
  induction t with
  | nil => rfl
  | cons c cs ih =>
    have hcons : escape (c :: cs) = escapeChar c ++ escape cs := by simp [escape]
    rw [hcons, List.all_append, ih, List.all_cons]
    congr 1
    unfold escapeChar
    by_cases h1 : c = 38
    · subst h1; decide
    · by_cases h2 : c = 60
      · subst h2; decide
      · by_cases h3 : c = 62
        · subst h3; decide
        · by_cases h4 : c = 34
          · subst h4; decide
          · by_cases h5 : c = 39
            · subst h5; decide
            · simp [h1, h2, h3, h4, h5]

theorem escape_eq_nil (t : Text) : escape t = [] ↔ t = [] := by
  constructor
  · intro h
    cases t with
    | nil => rfl
    | cons c cs =>
      have hcons : escape (c :: cs) = escapeChar c ++ escape cs := by simp [escape]
      rw [hcons] at h
      have : escapeChar c ≠ [] := by
        unfold escapeChar
        by_cases h1 : c = 38 <;> by_cases h2 : c = 60 <;> by_cases h3 : c = 62 <;> by_cases h4 : c = 34 <;>
          by_cases h5 : c = 39 <;> simp [h1, h2, h3, h4, h5]
      simp [this] at h
  · intro h; subst h; rfl

theorem escape_filter (t : Text) (h : ∀ c ∈ t, c ≠ 10 ∧ c ≠ 13) : (escape t).filter notCrLf = escape t := by
  apply List.filter_eq_self.mpr
  intro x hx
  simp only [escape, List.mem_flatMap] at hx
  obtain ⟨c, hc, hxc⟩ := hx
  have := h c hc
  unfold escapeChar at hxc
  unfold notCrLf
  repeat' split at hxc
  all_goals (simp at hxc; simp; omega)

/-! ### base64 filter -/

theorem b64dec_b64 (b : Bytes) : b64dec (b64 b) = some b := by
  unfold b64dec b64 ClearKey.b64encode
  have hlen := ClearKey.encBody_length b
  have hp : ClearKey.padOf b.length = [] ∨ ClearKey.padOf b.length = [61] ∨ ClearKey.padOf b.length = [61, 61] := by
    unfold ClearKey.padOf; split
    · right; right; rfl
    · split
      · right; left; rfl
      · left; rfl
  have hl : ((ClearKey.encBody b).length + (ClearKey.padOf b.length).length) % 4 = 0 := by
    rw [hlen]; unfold ClearKey.padOf
    by_cases h0 : b.length % 3 = 0
    · have h1 : ¬ b.length % 3 = 1 := by omega
      have h2 : ¬ b.length % 3 = 2 := by omega
      simp [h0, h1, h2]
    · by_cases h1 : b.length % 3 = 1
      · simp [h0, h1]; omega
      · have h2 : b.length % 3 = 2 := by omega
        simp [h0, h1, h2]; omega
  rw [ClearKey.b64decode_padded b _ hp hl]

/-- the characters `b64encode` produces: alphabet or `=` – never whitespace, `<`, `>`, `"`, CR, LF -/
theorem b64_chars (b : Bytes) : ∀ c ∈ b64 b,
    isWs c = false ∧ c ≠ 60 ∧ c ≠ 62 ∧ c ≠ 34 ∧ c ≠ 10 ∧ c ≠ 13 ∧ c ≠ 32 := by
  intro c hc
  unfold b64 ClearKey.b64encode at hc
  rcases List.mem_append.mp hc with h | h
  · obtain ⟨n, _, rfl⟩ := ClearKey.encBody_std b c h
    have := ClearKey.stdChar_range n
    refine ⟨?_, by omega, by omega, by omega, by omega, by omega, by omega⟩
    unfold isWs; simp; omega
  · have : c = 61 := by
      unfold ClearKey.padOf at h
      split at h
      · simp at h; exact h
      · split at h
        · simp at h; exact h
        · simp at h
    subst this; decide

/-! ### the `>\s+<` transducer -/

theorem sqRun_append (st : Option Text) (a b : Text) :
    sqRun st (a ++ b) = ((sqRun st a).1 ++ (sqRun (sqRun st a).2 b).1, (sqRun (sqRun st a).2 b).2) := by
  induction a generalizing st with
  | nil => simp [sqRun]
  | cons c cs ih => simp [sqRun, ih, List.append_assoc]

/-- not after a `>`: text without `>` passes unchanged -/
theorem sqRun_none_plain (d : Text) (h : ∀ c ∈ d, c ≠ 62) : sqRun none d = (d, none) := by
  induction d with
  | nil => rfl
  | cons c cs ih =>
    have hc : c ≠ 62 := h c (by simp)
    simp [sqRun, sqStep, hc, ih (fun x hx => h x (by simp [hx]))]

/-- after a `>` and whitespace `w`: text without `<` `>` that is not all whitespace flushes `w` -/
theorem sqRun_some_nonblank (w d : Text) (h : ∀ c ∈ d, c ≠ 62 ∧ c ≠ 60) (hb : d.all isWs = false) :
    sqRun (some w) d = (w ++ d, none) := by
  induction d generalizing w with
  | nil => simp at hb
  | cons c cs ih =>
    have hc := h c (by simp)
    by_cases hw : isWs c = true
    · have hb' : cs.all isWs = false := by simpa [hw] using hb
      simp [sqRun, sqStep, hw, ih (w ++ [c]) (fun x hx => h x (by simp [hx])) hb']
    · have hw' : isWs c = false := by simpa using hw
      have := sqRun_none_plain cs (fun x hx => (h x (by simp [hx])).1)
      simp [sqRun, sqStep, hw', hc.1, hc.2, this]

/-- after a `>`: whitespace is held back -/
theorem sqRun_some_blank (w d : Text) (hb : d.all isWs = true) :
    sqRun (some w) d = ([], some (w ++ d)) := by
  induction d generalizing w with
  | nil => simp [sqRun]
  | cons c cs ih =>
    simp only [List.all_cons, Bool.and_eq_true] at hb
    simp [sqRun, sqStep, hb.1, ih (w ++ [c]) hb.2]

/-- text whose first non-whitespace character is `<` -/
def leadsLt (t : Text) : Bool :=
  match t.dropWhile isWs with
  | 60 :: _ => true
  | _ => false

/-- held-back whitespace in front of `<` is dropped whatever it was -/
theorem sqRun_some_leadsLt (w t : Text) (h : leadsLt t = true) :
    sqRun (some w) t = sqRun (some []) t := by
  induction t generalizing w with
  | nil => simp [leadsLt] at h
  | cons c cs ih =>
    by_cases hw : isWs c = true
    · have h' : leadsLt cs = true := by simpa [leadsLt, List.dropWhile, hw] using h
      simp only [sqRun, sqStep, hw, if_true]
      rw [ih (w ++ [c]) h', ih ([] ++ [c]) h']
    · have hw' : isWs c = false := by simpa using hw
      have hc : c = 60 := by
        by_cases hc : c = 60
        · exact hc
        · exfalso
          simp only [leadsLt, List.dropWhile, hw'] at h
          split at h
          · rename_i heq
            simp only [List.cons.injEq] at heq
            exact hc heq.1
          · simp at h
      subst hc
      simp [sqRun, sqStep, hw']

/-! ### tokenizer -/

theorem tkRun_append (st : TkSt) (a b : Text) :
    tkRun st (a ++ b) = ((tkRun st a).1 ++ (tkRun (tkRun st a).2 b).1, (tkRun (tkRun st a).2 b).2) := by
  induction a generalizing st with
  | nil => simp [tkRun]
  | cons c cs ih => simp [tkRun, ih, List.append_assoc]

theorem tkRun_inTag (buf d : Text) (h : ∀ c ∈ d, c ≠ 62) : tkRun (.inTag buf) d = ([], .inTag (buf ++ d)) := by
  induction d generalizing buf with
  | nil => simp [tkRun]
  | cons c cs ih =>
    have hc : c ≠ 62 := h c (by simp)
    simp [tkRun, tkStep, hc, ih (buf ++ [c]) (fun x hx => h x (by simp [hx]))]

theorem tkRun_inText (buf d : Text) (h : ∀ c ∈ d, c ≠ 60) : tkRun (.inText buf) d = ([], .inText (buf ++ d)) := by
  induction d generalizing buf with
  | nil => simp [tkRun]
  | cons c cs ih =>
    have hc : c ≠ 60 := h c (by simp)
    simp [tkRun, tkStep, hc, ih (buf ++ [c]) (fun x hx => h x (by simp [hx]))]

theorem tkRun_idle_text (d : Text) (h : ∀ c ∈ d, c ≠ 60) (hne : d ≠ []) : tkRun .idle d = ([], .inText d) := by
  cases d with
  | nil => exact absurd rfl hne
  | cons c cs =>
    have hc : c ≠ 60 := h c (by simp)
    simp [tkRun, tkStep, hc, tkRun_inText [c] cs (fun x hx => h x (by simp [hx]))]

/-! ### attribute reader -/

theorem atRun_append (st : AtSt) (a b : Text) :
    atRun st (a ++ b) = ((atRun st a).1 ++ (atRun (atRun st a).2 b).1, (atRun (atRun st a).2 b).2) := by
  induction a generalizing st with
  | nil => simp [atRun]
  | cons c cs ih => simp [atRun, ih, List.append_assoc]

theorem atRun_val (n buf d : Text) (h : ∀ c ∈ d, c ≠ 34) : atRun (.val n buf) d = ([], .val n (buf ++ d)) := by
  induction d generalizing buf with
  | nil => simp [atRun]
  | cons c cs ih =>
    have hc : c ≠ 34 := h c (by simp)
    simp [atRun, atStep, hc, ih (buf ++ [c]) (fun x hx => h x (by simp [hx]))]

theorem takeWhile_append_stop {p : Nat → Bool} (a b : Text) (h : ∃ x ∈ a, p x = false) :
    (a ++ b).takeWhile p = a.takeWhile p := by
  induction a with
  | nil => simp at h
  | cons c cs ih =>
    by_cases hc : p c = true
    · simp only [List.cons_append, List.takeWhile_cons, hc, if_true]
      obtain ⟨x, hx, hpx⟩ := h
      rcases List.mem_cons.mp hx with rfl | hx
      · simp [hc] at hpx
      · rw [ih ⟨x, hx, hpx⟩]
    · simp [hc]

theorem dropWhile_append_stop {p : Nat → Bool} (a b : Text) (h : ∃ x ∈ a, p x = false) :
    (a ++ b).dropWhile p = a.dropWhile p ++ b := by
  induction a with
  | nil => simp at h
  | cons c cs ih =>
    by_cases hc : p c = true
    · simp only [List.cons_append, List.dropWhile_cons, hc, if_true]
      obtain ⟨x, hx, hpx⟩ := h
      rcases List.mem_cons.mp hx with rfl | hx
      · simp [hc] at hpx
      · rw [ih ⟨x, hx, hpx⟩]
    · simp [hc]
/-! ### squeeze then tokenize, as one machine -/

abbrev PSt := Option Text × TkSt

/-- feed text through the `>\s+<` transducer and its output through the tokenizer -/
def pipe (st : PSt) (t : Text) : List Tok × PSt :=
  let r := sqRun st.1 t
  let k := tkRun st.2 r.1
  (k.1, (r.2, k.2))

theorem pipe_append (st : PSt) (a b : Text) :
    pipe st (a ++ b) = ((pipe st a).1 ++ (pipe (pipe st a).2 b).1, (pipe (pipe st a).2 b).2) := by
  simp [pipe, sqRun_append, tkRun_append]

theorem pipe_nil (st : PSt) : pipe st [] = ([], st) := by
  simp [pipe, sqRun, tkRun]

/-- a hole inside a tag (attribute value): absorbed into the tag buffer -/
theorem pipe_attr_hole (buf h : Text) (hh : ∀ c ∈ h, c ≠ 62) :
    pipe (none, .inTag buf) h = ([], (none, .inTag (buf ++ h))) := by
  simp [pipe, sqRun_none_plain h hh, tkRun_inTag buf h hh]

/-- what a hole between `>` and `<` contributes: nothing when empty, else one text token -/
def optText (h : Text) : List Tok := if h = [] then [] else [.text h]

/-- a hole that is the text content of an element (`>`hole`<`): empty, or plain and not blank -/
def TextHole (h : Text) : Prop := h = [] ∨ ((∀ c ∈ h, c ≠ 62 ∧ c ≠ 60) ∧ h.all isWs = false)

/-- element text followed by the `<` of the closing tag -/
theorem pipe_text_hole (h T : Text) (hh : TextHole h) :
    pipe (some [], .idle) (h ++ 60 :: T)
      = (optText h ++ (pipe (none, .inTag []) T).1, (pipe (none, .inTag []) T).2) := by
  rcases hh with rfl | ⟨hp, hb⟩
  · simp [pipe, sqRun, sqStep, tkRun, tkStep, optText, isWs, tkRun_append]
  · have hne : h ≠ [] := by intro h0; subst h0; simp at hb
    rw [pipe_append]
    have h1 : pipe (some [], .idle) h = ([], (none, .inText h)) := by
      simp [pipe, sqRun_some_nonblank [] h hp hb, tkRun_idle_text h (fun c hc => (hp c hc).2) hne]
    rw [h1]
    simp [pipe, sqRun, sqStep, tkRun, tkStep, optText, hne, tkRun_append]

/-- a literal inside a tag that does not close it -/
theorem pipe_tag_lit (buf B : Text) (hs : (sqRun none B).2 = none) (hn : ∀ c ∈ (sqRun none B).1, c ≠ 62) :
    pipe (none, .inTag buf) B = ([], (none, .inTag (buf ++ (sqRun none B).1))) := by
  simp [pipe, hs, tkRun_inTag buf _ hn]

/-- a literal that closes the tag: `pre` `>` `post` -/
theorem pipe_tag_close (buf C pre post : Text) (hc : (sqRun none C).1 = pre ++ 62 :: post)
    (hn : ∀ c ∈ pre, c ≠ 62) :
    pipe (none, .inTag buf) C
      = (.tag (buf ++ pre) :: (tkRun .idle post).1, ((sqRun none C).2, (tkRun .idle post).2)) := by
  simp [pipe, hc, tkRun_append, tkRun_inTag buf pre hn, tkRun, tkStep]

/-- a literal that starts a tag after held-back whitespace -/
theorem pipe_tag_open (w A : Text) (hl : leadsLt A = true) :
    pipe (some w, .idle) A = pipe (some [], .idle) A := by
  simp [pipe, sqRun_some_leadsLt w A hl]
/-- a value hole followed by its closing quote and the next literal -/
theorem atRun_val_close (n h rest : Text) (hh : ∀ c ∈ h, c ≠ 34) :
    atRun (.val n []) (h ++ 34 :: rest) = ((n, h) :: (atRun .skip rest).1, (atRun .skip rest).2) := by
  rw [atRun_append, atRun_val n [] h hh]
  simp [atRun, atStep]

/-- attributes of a tag body `a0 h1 "b1 h2 "c1` where `a0` ends inside the opening quote of the
first hole's attribute and `b1` inside that of the second -/
theorem attrs_two_holes (a0 b1 c1 h1 h2 n1 n2 : Text) (E0 : List (Text × Text))
    (hsp : ∃ x ∈ a0, (x != 32) = false)
    (ha : atRun .skip (a0.dropWhile (· != 32)) = (E0, .val n1 []))
    (hb : atRun .skip b1 = ([], .val n2 []))
    (hc : (atRun .skip c1).1 = [])
    (hh1 : ∀ c ∈ h1, c ≠ 34) (hh2 : ∀ c ∈ h2, c ≠ 34) :
    attrs (a0 ++ h1 ++ (34 :: b1) ++ h2 ++ (34 :: c1)) = E0 ++ [(n1, h1), (n2, h2)] ∧
    tagName (a0 ++ h1 ++ (34 :: b1) ++ h2 ++ (34 :: c1)) = tagName a0 := by
  constructor
  · unfold attrs
    have : a0 ++ h1 ++ (34 :: b1) ++ h2 ++ (34 :: c1) = a0 ++ (h1 ++ 34 :: (b1 ++ (h2 ++ 34 :: c1))) := by simp
    rw [this, dropWhile_append_stop a0 _ hsp, atRun_append, ha]
    simp only
    rw [atRun_val_close n1 h1 _ hh1, atRun_append, hb]
    simp only
    rw [atRun_val_close n2 h2 _ hh2, hc]
    simp
  · unfold tagName
    have : a0 ++ h1 ++ (34 :: b1) ++ h2 ++ (34 :: c1) = a0 ++ (h1 ++ 34 :: (b1 ++ (h2 ++ 34 :: c1))) := by simp
    rw [this, takeWhile_append_stop a0 _ hsp]

/-- three holes: `a0 h0 "a1 h1 "b1 h2 "c1` -/
theorem attrs_three_holes (a0 a1 b1 c1 h0 h1 h2 n0 n1 n2 : Text) (E0 : List (Text × Text))
    (hsp : ∃ x ∈ a0, (x != 32) = false)
    (ha0 : atRun .skip (a0.dropWhile (· != 32)) = (E0, .val n0 []))
    (ha1 : atRun .skip a1 = ([], .val n1 []))
    (hb : atRun .skip b1 = ([], .val n2 []))
    (hc : (atRun .skip c1).1 = [])
    (hh0 : ∀ c ∈ h0, c ≠ 34) (hh1 : ∀ c ∈ h1, c ≠ 34) (hh2 : ∀ c ∈ h2, c ≠ 34) :
    attrs (a0 ++ h0 ++ (34 :: a1) ++ h1 ++ (34 :: b1) ++ h2 ++ (34 :: c1))
      = E0 ++ [(n0, h0), (n1, h1), (n2, h2)] ∧
    tagName (a0 ++ h0 ++ (34 :: a1) ++ h1 ++ (34 :: b1) ++ h2 ++ (34 :: c1)) = tagName a0 := by
  have hre : a0 ++ h0 ++ (34 :: a1) ++ h1 ++ (34 :: b1) ++ h2 ++ (34 :: c1)
      = a0 ++ (h0 ++ 34 :: (a1 ++ (h1 ++ 34 :: (b1 ++ (h2 ++ 34 :: c1))))) := by simp
  constructor
  · unfold attrs
    rw [hre, dropWhile_append_stop a0 _ hsp, atRun_append, ha0]
    simp only
    rw [atRun_val_close n0 h0 _ hh0, atRun_append, ha1]
    simp only
    rw [atRun_val_close n1 h1 _ hh1, atRun_append, hb]
    simp only
    rw [atRun_val_close n2 h2 _ hh2, hc]
    simp
  · unfold tagName
    rw [hre, takeWhile_append_stop a0 _ hsp]


/-! ### documents made of literal pieces and holes -/

def fl (t : Text) : Text := t.filter notCrLf

/-- literal of the `i`-th top-level segment -/
def litAt (tmpl : List Seg) (i : Nat) : Text :=
  match tmpl[i]? with
  | some (.atom (.lit t)) => t
  | _ => []

/-- literal `j` of the loop / if body at top-level position `i` -/
def bodyLit (tmpl : List Seg) (i j : Nat) : Text :=
  match tmpl[i]? with
  | some (.forKids body) | some (.forCustom body) | some (.ifChecksum body _) =>
    (match body[j]? with
     | some (.lit t) => t
     | _ => [])
  | _ => []

def customBody (tmpl : List Seg) (i : Nat) : List Atom :=
  match tmpl[i]? with
  | some (.forCustom body) => body
  | _ => []

theorem fl_append (a b : Text) : fl (a ++ b) = fl a ++ fl b := by simp [fl]

theorem fl_b64 (b : Bytes) : fl (b64 b) = b64 b := by
  apply List.filter_eq_self.mpr
  intro c hc
  have := b64_chars b c hc
  simp [notCrLf]; omega

theorem tokenize_cleanup (t : Text) (toks : List Tok)
    (h : pipe (none, .idle) (fl t) = (toks, (some [], .idle))) : tokenize (cleanup t) = toks := by
  simp only [pipe] at h
  have h1 : (tkRun .idle (sqRun none (fl t)).1).1 = toks := by rw [← (Prod.mk.inj h).1]
  have h2 : (sqRun none (fl t)).2 = some [] := (Prod.mk.inj (Prod.mk.inj h).2).1
  have h3 : (tkRun .idle (sqRun none (fl t)).1).2 = .idle := (Prod.mk.inj (Prod.mk.inj h).2).2
  simp [tokenize, cleanup_def, squeeze, fl, h2] at *
  simp [h1, h3]

/-- a loop of tag pieces between tags -/
theorem pipe_loop {α} (body : α → Text) (toks : α → List Tok) (wc : Text)
    (hiter : ∀ (x : α) (w : Text), w.all isWs = true → pipe (some w, .idle) (body x) = (toks x, (some wc, .idle)))
    (hwc : wc.all isWs = true) :
    ∀ (l : List α) (w : Text), w.all isWs = true →
      ∃ w', w'.all isWs = true ∧ pipe (some w, .idle) (l.flatMap body) = (l.flatMap toks, (some w', .idle)) := by
  intro l
  induction l with
  | nil => intro w hw; exact ⟨w, hw, by simp [pipe_nil]⟩
  | cons x xs ih =>
    intro w hw
    obtain ⟨w', hw', h'⟩ := ih wc hwc
    refine ⟨w', hw', ?_⟩
    simp only [List.flatMap_cons]
    rw [pipe_append, hiter x w hw]
    simp [h']

/-- the licence URL after `format`: no CR / LF (they are stripped by the clean-up) and not
made of whitespace only (`>\s+<` would delete it) -/
def LaOk (la : Text) : Prop := (∀ c ∈ la, c ≠ 10 ∧ c ≠ 13) ∧ (la = [] ∨ la.all isWs = false)

theorem textHole_escape (la : Text) (h : LaOk la) : TextHole (escape la) := by
  rcases h.2 with rfl | hb
  · left; rfl
  · right
    refine ⟨fun c hc => ?_, by rw [escape_all_ws]; exact hb⟩
    have := escape_plain la c hc
    exact ⟨this.2.1, this.1⟩

theorem textHole_b64 (b : Bytes) : TextHole (b64 b) := by
  by_cases h : b64 b = []
  · left; exact h
  · right
    refine ⟨fun c hc => ?_, ?_⟩
    · have := b64_chars b c hc; exact ⟨this.2.2.1, this.2.1⟩
    · cases hb : b64 b with
      | nil => exact absurd hb h
      | cons c cs =>
        have := (b64_chars b c (by rw [hb]; simp)).1
        simp [this]

/-- the common tail `… <LA_URL>` la `</LA_URL> … </WRMHEADER>` -/
theorem pipe_tail (w L1 la L2t L3 : Text) (T1 T2a T2b : List Tok) (S2 : PSt)
    (hl : leadsLt L1 = true) (h1 : pipe (some [], .idle) L1 = (T1, (some [], .idle)))
    (h2 : pipe (none, .inTag []) L2t = (T2a, S2)) (h3 : pipe S2 L3 = (T2b, (some [], .idle)))
    (hla : TextHole la) :
    pipe (some w, .idle) (L1 ++ (la ++ 60 :: L2t) ++ L3)
      = (T1 ++ optText la ++ T2a ++ T2b, (some [], .idle)) := by
  rw [pipe_append, pipe_append, pipe_tag_open w L1 hl, h1]
  simp only
  rw [pipe_text_hole la L2t hla, h2]
  simp only
  rw [h3]
  simp


/-- a tag `A h1 B h2 C` with two attribute holes, entered after held-back whitespace -/
theorem pipe_tag2 (w A B C h1 h2 bufA pre post : Text)
    (hl : leadsLt A = true) (hA : pipe (some [], .idle) A = ([], (none, .inTag bufA)))
    (hB1 : (sqRun none B).2 = none) (hB2 : ∀ c ∈ (sqRun none B).1, c ≠ 62)
    (hC : (sqRun none C).1 = pre ++ 62 :: post) (hpre : ∀ c ∈ pre, c ≠ 62)
    (hh1 : ∀ c ∈ h1, c ≠ 62) (hh2 : ∀ c ∈ h2, c ≠ 62) :
    pipe (some w, .idle) (A ++ h1 ++ B ++ h2 ++ C)
      = (.tag (bufA ++ h1 ++ (sqRun none B).1 ++ h2 ++ pre) :: (tkRun .idle post).1,
         ((sqRun none C).2, (tkRun .idle post).2)) := by
  rw [pipe_append, pipe_append, pipe_append, pipe_append, pipe_tag_open w A hl, hA]
  simp only
  rw [pipe_attr_hole bufA h1 hh1]
  simp only
  rw [pipe_tag_lit _ B hB1 hB2]
  simp only
  rw [pipe_attr_hole _ h2 hh2]
  simp only
  rw [pipe_tag_close _ C pre post hC hpre]
  simp [List.append_assoc]

/-- three attribute holes `A0 h0 A1 h1 B h2 C` -/
theorem pipe_tag3 (w A0 A1 B C h0 h1 h2 bufA pre post : Text)
    (hl : leadsLt A0 = true) (hA : pipe (some [], .idle) A0 = ([], (none, .inTag bufA)))
    (hA1 : (sqRun none A1).2 = none) (hA2 : ∀ c ∈ (sqRun none A1).1, c ≠ 62)
    (hB1 : (sqRun none B).2 = none) (hB2 : ∀ c ∈ (sqRun none B).1, c ≠ 62)
    (hC : (sqRun none C).1 = pre ++ 62 :: post) (hpre : ∀ c ∈ pre, c ≠ 62)
    (hh0 : ∀ c ∈ h0, c ≠ 62) (hh1 : ∀ c ∈ h1, c ≠ 62) (hh2 : ∀ c ∈ h2, c ≠ 62) :
    pipe (some w, .idle) (A0 ++ h0 ++ A1 ++ h1 ++ B ++ h2 ++ C)
      = (.tag (bufA ++ h0 ++ (sqRun none A1).1 ++ h1 ++ (sqRun none B).1 ++ h2 ++ pre) :: (tkRun .idle post).1,
         ((sqRun none C).2, (tkRun .idle post).2)) := by
  rw [pipe_append, pipe_append, pipe_append, pipe_append, pipe_append, pipe_append,
    pipe_tag_open w A0 hl, hA]
  simp only
  rw [pipe_attr_hole bufA h0 hh0]
  simp only
  rw [pipe_tag_lit _ A1 hA1 hA2]
  simp only
  rw [pipe_attr_hole _ h1 hh1]
  simp only
  rw [pipe_tag_lit _ B hB1 hB2]
  simp only
  rw [pipe_attr_hole _ h2 hh2]
  simp only
  rw [pipe_tag_close _ C pre post hC hpre]
  simp [List.append_assoc]

/-! ### reading the token list -/

theorem elemText_skip (n : Text) (X Y : List Tok) (hX : ∀ t ∈ X, t ≠ .tag n) :
    elemText n (X ++ Y) = elemText n Y := by
  induction X with
  | nil => rfl
  | cons x xs ih =>
    have hx := hX x (by simp)
    have ih' := ih (fun t ht => hX t (by simp [ht]))
    cases x with
    | text t => simp [elemText, ih']
    | tag b =>
      have : b ≠ n := fun h => hx (by rw [h])
      simp [elemText, this, ih']

/-- the element `<n>`hole`</…>` after tokens that hold no `<n>` tag -/
theorem elemText_found (n h m : Text) (X Y : List Tok) (hX : ∀ t ∈ X, t ≠ .tag n) :
    elemText n (X ++ .tag n :: (optText h ++ .tag m :: Y)) = some h := by
  rw [elemText_skip n X _ hX]
  unfold optText
  by_cases hh : h = []
  · simp [elemText, hh]
  · simp [elemText, hh]

theorem allSome_map_some {α β} (f : α → β) (l : List α) : allSome (l.map fun x => some (f x)) = some (l.map f) := by
  induction l with
  | nil => rfl
  | cons x xs ih => simp [allSome, ih]

theorem filterMap_optText (h : Text) : (optText h).filterMap kidOfTag = [] := by
  unfold optText; split <;> simp [kidOfTag]


/-! ### a `<KID ALGID=… CHECKSUM="h1" VALUE="h2"></KID>` piece -/

def aesctrText : Text := [65, 69, 83, 67, 84, 82]

structure Tag2 where
  A : Text
  B : Text
  C : Text

namespace Tag2
variable (p : Tag2)
def bufA : Text := match (pipe (some [], .idle) p.A).2.2 with | .inTag b => b | _ => []
def ob : Text := (sqRun none p.B).1
def oc : Text := (sqRun none p.C).1
def pre : Text := p.oc.takeWhile (· != 62)
def post : Text := (p.oc.dropWhile (· != 62)).tail
def wc : Text := ((sqRun none p.C).2).getD []
def tc : List Tok := (tkRun .idle p.post).1
def e0 : List (Text × Text) := (atRun .skip (p.bufA.dropWhile (· != 32))).1

/-- everything the soundness lemma needs to know about the three literals – closed, decidable -/
def check : Bool :=
  leadsLt p.A && decide (pipe (some [], .idle) p.A = ([], (none, .inTag p.bufA)))
  && decide ((sqRun none p.B).2 = none) && p.ob.all (· != 62)
  && decide (p.oc = p.pre ++ 62 :: p.post) && p.pre.all (· != 62)
  && decide ((sqRun none p.C).2 = some p.wc) && p.wc.all isWs && decide ((tkRun .idle p.post).2 = .idle)
  && p.bufA.any (fun x => !(x != 32))
  && decide (atRun .skip (p.bufA.dropWhile (· != 32)) = (p.e0, .val checksumName []))
  && decide (p.ob = 34 :: p.ob.tail) && decide (atRun .skip p.ob.tail = ([], .val valueName []))
  && decide (p.pre = 34 :: p.pre.tail) && decide ((atRun .skip p.pre.tail).1 = [])
  && decide (tagName p.bufA = kidName) && decide (attrLookup valueName p.e0 = none)
  && decide (attrLookup checksumName p.e0 = none)
  && decide ((attrLookup algidName p.e0).map unescape = some aesctrText)
  && decide (p.tc.filterMap kidOfTag = []) && p.tc.all (fun t => decide (t ≠ .tag laUrlName))

def body (h1 h2 : Text) : Text := p.bufA ++ h1 ++ p.ob ++ h2 ++ p.pre

theorem sound (h : p.check = true) (w : Text) (cs kid : Bytes) :
    pipe (some w, .idle) (p.A ++ b64 cs ++ p.B ++ b64 kid ++ p.C)
      = (.tag (p.body (b64 cs) (b64 kid)) :: p.tc, (some p.wc, .idle)) ∧
    kidOfTag (.tag (p.body (b64 cs) (b64 kid))) = some (some ⟨kid, some cs, some aesctrText⟩) ∧
    p.wc.all isWs = true ∧ p.tc.filterMap kidOfTag = [] ∧ (∀ t ∈ p.tc, t ≠ .tag laUrlName) := by
  simp only [check, Bool.and_eq_true, decide_eq_true_eq, List.all_eq_true, List.any_eq_true] at h
  obtain ⟨⟨⟨⟨⟨⟨⟨⟨⟨⟨⟨⟨⟨⟨⟨⟨⟨⟨⟨⟨hl, hA⟩, hB1⟩, hB2⟩, hC⟩, hpre⟩, hC2⟩, hwc⟩, htk⟩, hsp⟩, ha0⟩, hob⟩, hb1⟩, hpr⟩,
    hc1⟩, htn⟩, hlv⟩, hlc⟩, hla⟩, htc⟩, htl⟩ := h
  have h62 : ∀ (b : Bytes) c, c ∈ b64 b → c ≠ 62 := fun b c hc => (b64_chars b c hc).2.2.1
  have h34 : ∀ (b : Bytes) c, c ∈ b64 b → c ≠ 34 := fun b c hc => (b64_chars b c hc).2.2.2.1
  have hpipe := pipe_tag2 w p.A p.B p.C (b64 cs) (b64 kid) p.bufA p.pre p.post hl hA hB1
    (fun c hc => by simpa using hB2 c hc) hC (fun c hc => by simpa using hpre c hc) (h62 cs) (h62 kid)
  refine ⟨?_, ?_, by simpa [List.all_eq_true] using hwc, htc, fun t ht => by simpa using htl t ht⟩
  · rw [hpipe, hC2, htk]; rfl
  · obtain ⟨x, hx, hx32⟩ := hsp
    have hat := attrs_two_holes p.bufA p.ob.tail p.pre.tail (b64 cs) (b64 kid) checksumName valueName p.e0
      ⟨x, hx, by simpa using hx32⟩ ha0 hb1 hc1 (h34 cs) (h34 kid)
    rw [← hob, ← hpr] at hat
    have hbody : p.body (b64 cs) (b64 kid) = p.bufA ++ b64 cs ++ p.ob ++ b64 kid ++ p.pre := rfl
    simp only [kidOfTag, hbody, hat.1, hat.2, htn, ne_eq, not_true_eq_false, if_false]
    have l1 : attrLookup valueName (p.e0 ++ [(checksumName, b64 cs), (valueName, b64 kid)]) = some (b64 kid) := by
      unfold attrLookup at hlv ⊢
      rw [List.find?_append]
      cases hf : p.e0.find? (·.1 = valueName) with
      | some y => simp [hf] at hlv
      | none => simp [checksumName, valueName]
    have l2 : attrLookup checksumName (p.e0 ++ [(checksumName, b64 cs), (valueName, b64 kid)]) = some (b64 cs) := by
      unfold attrLookup at hlc ⊢
      rw [List.find?_append]
      cases hf : p.e0.find? (·.1 = checksumName) with
      | some y => simp [hf] at hlc
      | none => simp
    have l3 : (attrLookup algidName (p.e0 ++ [(checksumName, b64 cs), (valueName, b64 kid)])).map unescape
        = some aesctrText := by
      unfold attrLookup at hla ⊢
      rw [List.find?_append]
      cases hf : p.e0.find? (·.1 = algidName) with
      | some y => simpa [hf] using hla
      | none => simp [hf] at hla
    rw [l1, l2, l3]
    simp [b64dec_b64]
end Tag2



/-! ### a `<KID ALGID="h0" CHECKSUM="h1" VALUE="h2"></KID>` piece (header version 4.3) -/

structure Tag3 where
  A0 : Text
  A1 : Text
  B : Text
  C : Text

namespace Tag3
variable (p : Tag3)
def bufA : Text := match (pipe (some [], .idle) p.A0).2.2 with | .inTag b => b | _ => []
def oa : Text := (sqRun none p.A1).1
def ob : Text := (sqRun none p.B).1
def oc : Text := (sqRun none p.C).1
def pre : Text := p.oc.takeWhile (· != 62)
def post : Text := (p.oc.dropWhile (· != 62)).tail
def wc : Text := ((sqRun none p.C).2).getD []
def tc : List Tok := (tkRun .idle p.post).1
def e0 : List (Text × Text) := (atRun .skip (p.bufA.dropWhile (· != 32))).1

def check : Bool :=
  leadsLt p.A0 && decide (pipe (some [], .idle) p.A0 = ([], (none, .inTag p.bufA)))
  && decide ((sqRun none p.A1).2 = none) && p.oa.all (· != 62)
  && decide ((sqRun none p.B).2 = none) && p.ob.all (· != 62)
  && decide (p.oc = p.pre ++ 62 :: p.post) && p.pre.all (· != 62)
  && decide ((sqRun none p.C).2 = some p.wc) && p.wc.all isWs && decide ((tkRun .idle p.post).2 = .idle)
  && p.bufA.any (fun x => !(x != 32))
  && decide (atRun .skip (p.bufA.dropWhile (· != 32)) = (p.e0, .val algidName []))
  && decide (p.oa = 34 :: p.oa.tail) && decide (atRun .skip p.oa.tail = ([], .val checksumName []))
  && decide (p.ob = 34 :: p.ob.tail) && decide (atRun .skip p.ob.tail = ([], .val valueName []))
  && decide (p.pre = 34 :: p.pre.tail) && decide ((atRun .skip p.pre.tail).1 = [])
  && decide (tagName p.bufA = kidName) && decide (attrLookup valueName p.e0 = none)
  && decide (attrLookup checksumName p.e0 = none) && decide (attrLookup algidName p.e0 = none)
  && decide (p.tc.filterMap kidOfTag = []) && p.tc.all (fun t => decide (t ≠ .tag laUrlName))

def body (h0 h1 h2 : Text) : Text := p.bufA ++ h0 ++ p.oa ++ h1 ++ p.ob ++ h2 ++ p.pre

theorem sound (h : p.check = true) (w alg : Text) (cs kid : Bytes) :
    pipe (some w, .idle) (p.A0 ++ escape alg ++ p.A1 ++ b64 cs ++ p.B ++ b64 kid ++ p.C)
      = (.tag (p.body (escape alg) (b64 cs) (b64 kid)) :: p.tc, (some p.wc, .idle)) ∧
    kidOfTag (.tag (p.body (escape alg) (b64 cs) (b64 kid))) = some (some ⟨kid, some cs, some alg⟩) ∧
    p.wc.all isWs = true ∧ p.tc.filterMap kidOfTag = [] ∧ (∀ t ∈ p.tc, t ≠ .tag laUrlName) := by
  simp only [check, Bool.and_eq_true, decide_eq_true_eq, List.all_eq_true, List.any_eq_true] at h
  obtain ⟨⟨⟨⟨⟨⟨⟨⟨⟨⟨⟨⟨⟨⟨⟨⟨⟨⟨⟨⟨⟨⟨⟨⟨hl, hA⟩, hA1⟩, hA2⟩, hB1⟩, hB2⟩, hC⟩, hpre⟩, hC2⟩, hwc⟩, htk⟩, hsp⟩, ha0⟩,
    hoa⟩, ha1⟩, hob⟩, hb1⟩, hpr⟩, hc1⟩, htn⟩, hlv⟩, hlc⟩, hla⟩, htc⟩, htl⟩ := h
  have h62 : ∀ (b : Bytes) c, c ∈ b64 b → c ≠ 62 := fun b c hc => (b64_chars b c hc).2.2.1
  have h34 : ∀ (b : Bytes) c, c ∈ b64 b → c ≠ 34 := fun b c hc => (b64_chars b c hc).2.2.2.1
  have e62 : ∀ c ∈ escape alg, c ≠ 62 := fun c hc => (escape_plain alg c hc).2.1
  have e34 : ∀ c ∈ escape alg, c ≠ 34 := fun c hc => (escape_plain alg c hc).2.2.1
  have hpipe := pipe_tag3 w p.A0 p.A1 p.B p.C (escape alg) (b64 cs) (b64 kid) p.bufA p.pre p.post hl hA hA1
    (fun c hc => by simpa using hA2 c hc) hB1 (fun c hc => by simpa using hB2 c hc) hC
    (fun c hc => by simpa using hpre c hc) e62 (h62 cs) (h62 kid)
  refine ⟨?_, ?_, by simpa [List.all_eq_true] using hwc, htc, fun t ht => by simpa using htl t ht⟩
  · rw [hpipe, hC2, htk]; rfl
  · obtain ⟨x, hx, hx32⟩ := hsp
    have hat := attrs_three_holes p.bufA p.oa.tail p.ob.tail p.pre.tail (escape alg) (b64 cs) (b64 kid)
      algidName checksumName valueName p.e0 ⟨x, hx, by simpa using hx32⟩ ha0 ha1 hb1 hc1 e34 (h34 cs) (h34 kid)
    rw [← hoa, ← hob, ← hpr] at hat
    have hbody : p.body (escape alg) (b64 cs) (b64 kid)
        = p.bufA ++ escape alg ++ p.oa ++ b64 cs ++ p.ob ++ b64 kid ++ p.pre := rfl
    simp only [kidOfTag, hbody, hat.1, hat.2, htn, ne_eq, not_true_eq_false, if_false]
    have look : ∀ (n : Text), attrLookup n p.e0 = none →
        attrLookup n (p.e0 ++ [(algidName, escape alg), (checksumName, b64 cs), (valueName, b64 kid)])
          = attrLookup n [(algidName, escape alg), (checksumName, b64 cs), (valueName, b64 kid)] := by
      intro n hn
      unfold attrLookup at hn ⊢
      rw [List.find?_append]
      cases hf : p.e0.find? (·.1 = n) with
      | some y => simp [hf] at hn
      | none => simp
    rw [look _ hlv, look _ hlc, look _ hla]
    simp [attrLookup, List.find?, algidName, checksumName, valueName, b64dec_b64, unescape_escape]
end Tag3

/-! ### the frame around the key ids: head, `<LA_URL>` element, tail -/

structure Frame where
  L0 : Text      -- up to the first key-id piece
  L1 : Text      -- from the last key-id piece up to and including `<LA_URL>`
  L2 : Text      -- `</LA_URL>` … up to the custom attributes
  L3 : Text      -- after the custom attributes

namespace Frame
variable (f : Frame)
def t0 : List Tok := (pipe (none, .idle) f.L0).1
def w0 : Text := ((pipe (none, .idle) f.L0).2.1).getD []
def t1 : List Tok := (pipe (some [], .idle) f.L1).1
def s2 : PSt := (pipe (none, .inTag []) f.L2.tail).2
def t2 : List Tok := (pipe (none, .inTag []) f.L2.tail).1 ++ (pipe f.s2 f.L3).1

def check (ver : Text) : Bool :=
  decide (pipe (none, .idle) f.L0 = (f.t0, (some f.w0, .idle))) && f.w0.all isWs
  && leadsLt f.L1 && decide (pipe (some [], .idle) f.L1 = (f.t1, (some [], .idle)))
  && decide (f.L2 = 60 :: f.L2.tail) && decide ((pipe f.s2 f.L3).2 = (some [], .idle))
  && decide (f.t0.findSome? versionOf = some ver)
  && decide (f.t0.filterMap kidOfTag = []) && decide (f.t1.filterMap kidOfTag = [])
  && decide (f.t2.filterMap kidOfTag = [])
  && decide (f.t1 = f.t1.dropLast ++ [.tag laUrlName])
  && (f.t0 ++ f.t1.dropLast).all (fun t => decide (t ≠ .tag laUrlName))
  && (match f.t2 with | .tag _ :: _ => true | _ => false)

/-- tokens of the whole document, for any key-id pieces that go from "between tags" to
"between tags" -/
theorem tokens (ver : Text) (h : f.check ver = true) {α} (items : List α) (body : α → Text)
    (toks : α → List Tok) (wc la : Text)
    (hiter : ∀ (x : α) (w : Text), pipe (some w, .idle) (body x) = (toks x, (some wc, .idle)))
    (hla : TextHole la) :
    pipe (none, .idle) (f.L0 ++ items.flatMap body ++ f.L1 ++ (la ++ f.L2) ++ f.L3)
      = (f.t0 ++ items.flatMap toks ++ f.t1 ++ optText la ++ f.t2, (some [], .idle)) := by
  simp only [check, Bool.and_eq_true, decide_eq_true_eq] at h
  obtain ⟨⟨⟨⟨⟨⟨⟨⟨⟨⟨⟨⟨h0, _⟩, hl1⟩, h1⟩, h2⟩, h3⟩, _⟩, _⟩, _⟩, _⟩, _⟩, _⟩, _⟩ := h
  have hloop : ∀ (l : List α) (w : Text),
      ∃ w', pipe (some w, .idle) (l.flatMap body) = (l.flatMap toks, (some w', .idle)) := by
    intro l
    induction l with
    | nil => intro w; exact ⟨w, by simp [pipe_nil]⟩
    | cons x xs ih =>
      intro w
      obtain ⟨w', h'⟩ := ih wc
      refine ⟨w', ?_⟩
      simp only [List.flatMap_cons]
      rw [pipe_append, hiter x w]
      simp [h']
  obtain ⟨w', hw'⟩ := hloop items f.w0
  have htail := pipe_tail w' f.L1 la f.L2.tail f.L3 f.t1 (pipe (none, .inTag []) f.L2.tail).1
    (pipe f.s2 f.L3).1 f.s2 hl1 h1 rfl (by rw [← h3]) hla
  have hre : f.L0 ++ items.flatMap body ++ f.L1 ++ (la ++ f.L2) ++ f.L3
      = f.L0 ++ (items.flatMap body ++ (f.L1 ++ (la ++ 60 :: f.L2.tail) ++ f.L3)) := by
    rw [← h2]; simp [List.append_assoc]
  rw [hre, pipe_append, h0]
  simp only
  rw [pipe_append, hw']
  simp only
  rw [htail]
  simp [t2, List.append_assoc]


theorem filterMap_flatMap' {α β γ} (f : α → List β) (g : β → Option γ) (l : List α) :
    (l.flatMap f).filterMap g = l.flatMap fun x => (f x).filterMap g := by
  induction l with
  | nil => rfl
  | cons x xs ih => simp [List.flatMap_cons, List.filterMap_append, ih]

theorem flatMap_single {α β} (g : α → β) (l : List α) : (l.flatMap fun x => [g x]) = l.map g := by
  induction l with
  | nil => rfl
  | cons x xs ih => simp [List.flatMap_cons, ih]

/-- **reading back a framed document**: version, one `KidInfo` per key-id piece, licence URL -/
theorem parse (ver : Text) (h : f.check ver = true) {α} (items : List α) (body : α → Text)
    (toks : α → List Tok) (info : α → KidInfo) (wc la : Text)
    (hiter : ∀ (x : α) (w : Text), pipe (some w, .idle) (body x) = (toks x, (some wc, .idle)))
    (htoks : ∀ x, ∃ b tc, toks x = .tag b :: tc ∧ kidOfTag (.tag b) = some (some (info x)) ∧
      tc.filterMap kidOfTag = [] ∧ ∀ t ∈ tc, t ≠ .tag laUrlName)
    (hne : items ≠ []) (hla : TextHole la) (raw : Text)
    (hraw : fl raw = f.L0 ++ items.flatMap body ++ f.L1 ++ (la ++ f.L2) ++ f.L3) :
    parseWrmHeader (cleanup raw) = some ⟨some ver, items.map info, some (unescape la)⟩ := by
  have htk := f.tokens ver h items body toks wc la hiter hla
  rw [← hraw] at htk
  have htokens := tokenize_cleanup raw _ htk
  simp only [check, Bool.and_eq_true, decide_eq_true_eq, List.all_eq_true] at h
  obtain ⟨⟨⟨⟨⟨⟨⟨⟨⟨⟨⟨⟨_, _⟩, _⟩, _⟩, _⟩, _⟩, hver⟩, hk0⟩, hk1⟩, hk2⟩, hlast⟩, hnola⟩, hhead⟩ := h
  have hkla : kidOfTag (.tag laUrlName) = none := by decide
  -- per item facts
  have hitem : ∀ x, (toks x).filterMap kidOfTag = [some (info x)] := by
    intro x
    obtain ⟨b, tc, hx, hk, htc, _⟩ := htoks x
    simp [hx, List.filterMap_cons, hk, htc]
  have hitemla : ∀ x, ∀ t ∈ toks x, t ≠ .tag laUrlName := by
    intro x t ht
    obtain ⟨b, tc, hx, hk, _, hno⟩ := htoks x
    rw [hx] at ht
    rcases List.mem_cons.mp ht with rfl | ht
    · intro heq; rw [heq, hkla] at hk; simp at hk
    · exact hno t ht
  unfold parseWrmHeader
  simp only [htokens]
  -- version
  have hv : (f.t0 ++ items.flatMap toks ++ f.t1 ++ optText la ++ f.t2).findSome? versionOf = some ver := by
    simp only [List.append_assoc, List.findSome?_append, hver, Option.some_or]
  -- key ids
  have hkids : (f.t0 ++ items.flatMap toks ++ f.t1 ++ optText la ++ f.t2).filterMap kidOfTag
      = items.map (fun x => some (info x)) := by
    simp only [List.filterMap_append, hk0, hk1, hk2, filterMap_optText, filterMap_flatMap', hitem,
      List.nil_append, List.append_nil]
    exact flatMap_single _ items
  -- licence URL
  have hla' : elemText laUrlName (f.t0 ++ items.flatMap toks ++ f.t1 ++ optText la ++ f.t2) = some la := by
    obtain ⟨m, rest, hm⟩ : ∃ m rest, f.t2 = .tag m :: rest := by
      cases ht2 : f.t2 with
      | nil => simp [ht2] at hhead
      | cons t ts =>
        cases t with
        | tag m => exact ⟨m, ts, rfl⟩
        | text _ => simp [ht2] at hhead
    have hre : f.t0 ++ items.flatMap toks ++ f.t1 ++ optText la ++ f.t2
        = (f.t0 ++ items.flatMap toks ++ f.t1.dropLast) ++ .tag laUrlName :: (optText la ++ .tag m :: rest) := by
      rw [hm]; conv => lhs; rw [hlast]
      simp [List.append_assoc]
    rw [hre]
    apply elemText_found
    intro t ht
    rcases List.mem_append.mp ht with ht | ht
    · rcases List.mem_append.mp ht with ht | ht
      · have := hnola t (List.mem_append_left _ ht); simpa using this
      · obtain ⟨x, _, hx⟩ := List.mem_flatMap.mp ht
        exact hitemla x t hx
    · have := hnola t (List.mem_append_right _ ht); simpa using this
  rw [hv, hkids, hla']
  have hemp : (items.map fun x => some (info x)).isEmpty = false := by
    cases items with
    | nil => exact absurd rfl hne
    | cons x xs => rfl
  simp only [hemp, Bool.false_eq_true, if_false, allSome_map_some]
  rfl

end Frame


/-- an element found strictly inside a prefix is found in the whole list -/
theorem elemText_prefix (n : Text) (X Y : List Tok) (v : Text) (hv : elemText n X = some v)
    (hl : X.getLast? ≠ some (.tag n)) : elemText n (X ++ Y) = some v := by
  induction X with
  | nil => simp [elemText] at hv
  | cons x xs ih =>
    cases x with
    | text t =>
      simp only [elemText, List.cons_append] at hv ⊢
      apply ih hv
      intro h; apply hl
      cases xs with
      | nil => simp at h
      | cons y ys => simpa [List.getLast?_cons_cons] using h
    | tag b =>
      by_cases hb : b = n
      · subst hb
        cases xs with
        | nil => simp at hl
        | cons y ys =>
          cases y <;> simp_all [elemText]
      · simp only [elemText, hb, if_false, List.cons_append] at hv ⊢
        apply ih hv
        intro h; apply hl
        cases xs with
        | nil => simp at h
        | cons y ys => simpa [List.getLast?_cons_cons] using h

/-! ### header version 4.0: `<KID>`, `<CHECKSUM>`, `<LA_URL>` elements -/

structure Elems where
  L0 : Text      -- up to and including `<KID>`
  X1 : Text      -- `</KID>` … `<CHECKSUM>`
  X2 : Text      -- `</CHECKSUM>` … `<LA_URL>`
  L2 : Text      -- `</LA_URL>` …
  L3 : Text      -- after the custom attributes

namespace Elems
variable (e : Elems)
def t0 : List Tok := (pipe (none, .idle) e.L0).1
def tx1 : List Tok := (pipe (none, .inTag []) e.X1.tail).1
def tx2 : List Tok := (pipe (none, .inTag []) e.X2.tail).1
def s2 : PSt := (pipe (none, .inTag []) e.L2.tail).2
def t2 : List Tok := (pipe (none, .inTag []) e.L2.tail).1 ++ (pipe e.s2 e.L3).1

def headIsTag : List Tok → Bool
  | .tag _ :: _ => true
  | _ => false

def check (ver : Text) : Bool :=
  decide (pipe (none, .idle) e.L0 = (e.t0, (some [], .idle)))
  && decide (e.X1 = 60 :: e.X1.tail) && decide (pipe (none, .inTag []) e.X1.tail = (e.tx1, (some [], .idle)))
  && decide (e.X2 = 60 :: e.X2.tail) && decide (pipe (none, .inTag []) e.X2.tail = (e.tx2, (some [], .idle)))
  && decide (e.L2 = 60 :: e.L2.tail) && decide ((pipe e.s2 e.L3).2 = (some [], .idle))
  && decide (e.t0.findSome? versionOf = some ver)
  && decide (e.t0.filterMap kidOfTag = []) && decide (e.tx1.filterMap kidOfTag = [])
  && decide (e.tx2.filterMap kidOfTag = []) && decide (e.t2.filterMap kidOfTag = [])
  && decide (e.t0 = e.t0.dropLast ++ [.tag kidName]) && e.t0.dropLast.all (fun t => decide (t ≠ .tag kidName))
  && headIsTag e.tx1
  && decide (e.tx1 = e.tx1.dropLast ++ [.tag checksumName])
  && (e.t0 ++ e.tx1.dropLast).all (fun t => decide (t ≠ .tag checksumName)) && headIsTag e.tx2
  && decide (e.tx2 = e.tx2.dropLast ++ [.tag laUrlName])
  && (e.t0 ++ e.tx1 ++ e.tx2.dropLast).all (fun t => decide (t ≠ .tag laUrlName)) && headIsTag e.t2
  && decide ((elemText algidName e.t0).map unescape = some aesctrText)

theorem headIsTag_spec {l : List Tok} (h : headIsTag l = true) : ∃ m rest, l = .tag m :: rest := by
  cases l with
  | nil => simp [headIsTag] at h
  | cons t ts =>
    cases t with
    | tag m => exact ⟨m, ts, rfl⟩
    | text _ => simp [headIsTag] at h

theorem mem_optText {h : Text} {t : Tok} (ht : t ∈ optText h) (n : Text) : t ≠ .tag n := by
  unfold optText at ht
  split at ht
  · simp at ht
  · simp at ht; subst ht; simp

theorem parse (ver : Text) (h : e.check ver = true) (kid cs : Bytes) (la raw : Text) (hla : TextHole la)
    (hraw : fl raw = e.L0 ++ (b64 kid ++ e.X1) ++ (b64 cs ++ e.X2) ++ (la ++ e.L2) ++ e.L3) :
    parseWrmHeader (cleanup raw) = some ⟨some ver, [⟨kid, some cs, some aesctrText⟩], some (unescape la)⟩ := by
  simp only [check, Bool.and_eq_true, decide_eq_true_eq, List.all_eq_true] at h
  obtain ⟨⟨⟨⟨⟨⟨⟨⟨⟨⟨⟨⟨⟨⟨⟨⟨⟨⟨⟨⟨⟨h0, hx1⟩, hp1⟩, hx2⟩, hp2⟩, hl2⟩, hfin⟩, hver⟩, hk0⟩, hk1⟩, hk2⟩, hk3⟩, hlast0⟩,
    hno0⟩, hh1⟩, hlast1⟩, hno1⟩, hh2⟩, hlast2⟩, hno2⟩, hh3⟩, halg⟩ := h
  -- tokens
  have htk : pipe (none, .idle) (fl raw)
      = (e.t0 ++ optText (b64 kid) ++ e.tx1 ++ optText (b64 cs) ++ e.tx2 ++ optText la ++ e.t2, (some [], .idle)) := by
    rw [hraw]
    have hre : e.L0 ++ (b64 kid ++ e.X1) ++ (b64 cs ++ e.X2) ++ (la ++ e.L2) ++ e.L3
        = e.L0 ++ ((b64 kid ++ 60 :: e.X1.tail) ++ ((b64 cs ++ 60 :: e.X2.tail) ++ ((la ++ 60 :: e.L2.tail) ++ e.L3))) := by
      rw [← hx1, ← hx2, ← hl2]; simp [List.append_assoc]
    rw [hre, pipe_append, h0]
    simp only
    rw [pipe_append, pipe_text_hole _ _ (textHole_b64 kid), hp1]
    simp only
    rw [pipe_append, pipe_text_hole _ _ (textHole_b64 cs), hp2]
    simp only
    rw [pipe_append, pipe_text_hole _ _ hla]
    simp only
    have : pipe (pipe (none, .inTag []) e.L2.tail).2 e.L3 = ((pipe e.s2 e.L3).1, (some [], .idle)) := by
      rw [← hfin]; rfl
    rw [this]
    simp [t2, List.append_assoc]
  have htokens := tokenize_cleanup raw _ htk
  obtain ⟨m1, r1, hm1⟩ := headIsTag_spec hh1
  obtain ⟨m2, r2, hm2⟩ := headIsTag_spec hh2
  obtain ⟨m3, r3, hm3⟩ := headIsTag_spec hh3
  unfold parseWrmHeader
  simp only [htokens]
  have hv : (e.t0 ++ optText (b64 kid) ++ e.tx1 ++ optText (b64 cs) ++ e.tx2 ++ optText la ++ e.t2).findSome? versionOf
      = some ver := by
    simp only [List.append_assoc, List.findSome?_append, hver, Option.some_or]
  have hkids : (e.t0 ++ optText (b64 kid) ++ e.tx1 ++ optText (b64 cs) ++ e.tx2 ++ optText la ++ e.t2).filterMap kidOfTag
      = [] := by
    simp only [List.filterMap_append, hk0, hk1, hk2, hk3, filterMap_optText, List.append_nil]
  -- the three elements
  have hkid : elemText kidName (e.t0 ++ optText (b64 kid) ++ e.tx1 ++ optText (b64 cs) ++ e.tx2 ++ optText la ++ e.t2)
      = some (b64 kid) := by
    have hre : e.t0 ++ optText (b64 kid) ++ e.tx1 ++ optText (b64 cs) ++ e.tx2 ++ optText la ++ e.t2
        = e.t0.dropLast ++ .tag kidName :: (optText (b64 kid) ++ .tag m1 :: (r1 ++ optText (b64 cs) ++ e.tx2 ++ optText la ++ e.t2)) := by
      conv => lhs; rw [hlast0, hm1]
      simp [List.append_assoc]
    rw [hre]
    exact elemText_found _ _ _ _ _ (fun t ht => by simpa using hno0 t ht)
  have hcs : elemText checksumName (e.t0 ++ optText (b64 kid) ++ e.tx1 ++ optText (b64 cs) ++ e.tx2 ++ optText la ++ e.t2)
      = some (b64 cs) := by
    have hre : e.t0 ++ optText (b64 kid) ++ e.tx1 ++ optText (b64 cs) ++ e.tx2 ++ optText la ++ e.t2
        = (e.t0 ++ optText (b64 kid) ++ e.tx1.dropLast) ++ .tag checksumName :: (optText (b64 cs) ++ .tag m2 :: (r2 ++ optText la ++ e.t2)) := by
      conv => lhs; rw [hlast1, hm2]
      simp [List.append_assoc]
    rw [hre]
    apply elemText_found
    intro t ht
    rcases List.mem_append.mp ht with ht | ht
    · rcases List.mem_append.mp ht with ht | ht
      · simpa using hno1 t (List.mem_append_left _ ht)
      · exact mem_optText ht _
    · simpa using hno1 t (List.mem_append_right _ ht)
  have hlau : elemText laUrlName (e.t0 ++ optText (b64 kid) ++ e.tx1 ++ optText (b64 cs) ++ e.tx2 ++ optText la ++ e.t2)
      = some la := by
    have hre : e.t0 ++ optText (b64 kid) ++ e.tx1 ++ optText (b64 cs) ++ e.tx2 ++ optText la ++ e.t2
        = (e.t0 ++ optText (b64 kid) ++ e.tx1 ++ optText (b64 cs) ++ e.tx2.dropLast) ++ .tag laUrlName :: (optText la ++ .tag m3 :: r3) := by
      conv => lhs; rw [hlast2, hm3]
      simp [List.append_assoc]
    rw [hre]
    apply elemText_found
    intro t ht
    rcases List.mem_append.mp ht with ht | ht
    · rcases List.mem_append.mp ht with ht | ht
      · rcases List.mem_append.mp ht with ht | ht
        · rcases List.mem_append.mp ht with ht | ht
          · simpa using hno2 t (List.mem_append_left _ (List.mem_append_left _ ht))
          · exact mem_optText ht _
        · simpa using hno2 t (List.mem_append_left _ (List.mem_append_right _ ht))
      · exact mem_optText ht _
    · simpa using hno2 t (List.mem_append_right _ ht)
  have halg' : (elemText algidName (e.t0 ++ optText (b64 kid) ++ e.tx1 ++ optText (b64 cs) ++ e.tx2 ++ optText la ++ e.t2)).map unescape
      = some aesctrText := by
    cases hv0 : elemText algidName e.t0 with
    | none => simp [hv0] at halg
    | some v =>
      have hl : e.t0.getLast? ≠ some (.tag algidName) := by
        rw [hlast0]; simp [kidName, algidName]
      have := elemText_prefix algidName e.t0 (optText (b64 kid) ++ e.tx1 ++ optText (b64 cs) ++ e.tx2 ++ optText la ++ e.t2) v hv0 hl
      simp only [List.append_assoc] at this ⊢
      rw [this]; rw [hv0] at halg; exact halg
  rw [hv, hkids]
  simp only [List.isEmpty_nil, if_true, kidOfElements, hkid, hcs, hlau, halg', b64dec_b64, Option.map_some]
end Elems

end DashLive.WrmHeader
