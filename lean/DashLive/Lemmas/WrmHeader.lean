import DashLive.Model.WrmHeader
import DashLive.Lemmas.ClearKey
/-!
Helper lemmas for the WRMHEADER part of C11 (`Model/WrmHeader.lean`): escape /
unescape, the base64 filter, the `>\s+<` transducer, the tokenizer and the attribute
reader on texts made of literal pieces and "holes" (rendered values).  Core tactics only.
-/
set_option linter.unusedSimpArgs false
namespace DashLive.WrmHeader
open DashLive.PlayReady (Bytes)

/-! ### escape / unescape -/

theorem unescape_escape (t : Text) : unescape (escape t) = t := by
  induction t with
  | nil => simp [escape, unescape]
  | cons c cs ih =>
    have hcons : escape (c :: cs) = escapeChar c ++ escape cs := by simp [escape]
    rw [hcons]
    unfold escapeChar
    by_cases h1 : c = 38
    · subst h1; simp [unescape, ih]
    · by_cases h2 : c = 60
      · subst h2; simp [unescape, ih]
      · by_cases h3 : c = 62
        · subst h3; simp [unescape, ih]
        · by_cases h4 : c = 34
          · subst h4; simp [unescape, ih]
          · by_cases h5 : c = 39
            · subst h5; simp [unescape, ih]
            · simp only [h1, h2, h3, h4, h5, if_false, List.cons_append, List.nil_append]
              rw [unescape]
              · rw [ih]
              all_goals (intros; simp_all)

/-- characters of an escaped text -/
def Plain (c : Nat) : Prop := c ≠ 60 ∧ c ≠ 62 ∧ c ≠ 34 ∧ c ≠ 39

theorem escapeChar_plain (c x : Nat) (hx : x ∈ escapeChar c) : Plain x := by
  unfold escapeChar at hx
  unfold Plain
  split at hx
  · simp at hx; omega
  · split at hx
    · simp at hx; omega
    · split at hx
      · simp at hx; omega
      · split at hx
        · simp at hx; omega
        · split at hx
          · simp at hx; omega
          · simp at hx; omega

theorem escape_plain (t : Text) : ∀ x ∈ escape t, Plain x := by
  intro x hx
  simp only [escape, List.mem_flatMap] at hx
  obtain ⟨c, _, hc⟩ := hx
  exact escapeChar_plain c x hc

def notCrLf (c : Nat) : Bool := c != 10 && c != 13

theorem cleanup_def (t : Text) : cleanup t = squeeze (t.filter notCrLf) := rfl

/-- the escaped text is whitespace exactly where the text is -/
theorem escape_all_ws (t : Text) : (escape t).all isWs = t.all isWs := by
  induction t with
  | nil => rfl
  | cons c cs ih =>
    have hcons : escape (c :: cs) = escapeChar c ++ escape cs := by simp [escape]
    rw [hcons, List.all_append, ih, List.all_cons]
    congr 1
    unfold escapeChar
    by_cases h1 : c = 38
    · subst h1; decide
    · by_cases h2 : c = 60
      · subst h2; decide
      · by_cases h3 : c = 62
        · subst h3; decide
        · by_cases h4 : c = 34
          · subst h4; decide
          · by_cases h5 : c = 39
            · subst h5; decide
            · simp [h1, h2, h3, h4, h5]

theorem escape_eq_nil (t : Text) : escape t = [] ↔ t = [] := by
  constructor
  · intro h
    cases t with
    | nil => rfl
    | cons c cs =>
      have hcons : escape (c :: cs) = escapeChar c ++ escape cs := by simp [escape]
      rw [hcons] at h
      have : escapeChar c ≠ [] := by
        unfold escapeChar
        by_cases h1 : c = 38 <;> by_cases h2 : c = 60 <;> by_cases h3 : c = 62 <;> by_cases h4 : c = 34 <;>
          by_cases h5 : c = 39 <;> simp [h1, h2, h3, h4, h5]
      simp [this] at h
  · intro h; subst h; rfl

theorem escape_filter (t : Text) (h : ∀ c ∈ t, c ≠ 10 ∧ c ≠ 13) : (escape t).filter notCrLf = escape t := by
  apply List.filter_eq_self.mpr
  intro x hx
  simp only [escape, List.mem_flatMap] at hx
  obtain ⟨c, hc, hxc⟩ := hx
  have := h c hc
  unfold escapeChar at hxc
  unfold notCrLf
  repeat' split at hxc
  all_goals (simp at hxc; simp; omega)

/-! ### base64 filter -/

theorem b64dec_b64 (b : Bytes) : b64dec (b64 b) = some b := by
  unfold b64dec b64 ClearKey.b64encode
  have hlen := ClearKey.encBody_length b
  have hp : ClearKey.padOf b.length = [] ∨ ClearKey.padOf b.length = [61] ∨ ClearKey.padOf b.length = [61, 61] := by
    unfold ClearKey.padOf; split
    · right; right; rfl
    · split
      · right; left; rfl
      · left; rfl
  have hl : ((ClearKey.encBody b).length + (ClearKey.padOf b.length).length) % 4 = 0 := by
    rw [hlen]; unfold ClearKey.padOf
    by_cases h0 : b.length % 3 = 0
    · have h1 : ¬ b.length % 3 = 1 := by omega
      have h2 : ¬ b.length % 3 = 2 := by omega
      simp [h0, h1, h2]
    · by_cases h1 : b.length % 3 = 1
      · simp [h0, h1]; omega
      · have h2 : b.length % 3 = 2 := by omega
        simp [h0, h1, h2]; omega
  rw [ClearKey.b64decode_padded b _ hp hl]

/-- the characters `b64encode` produces: alphabet or `=` – never whitespace, `<`, `>`, `"`, CR, LF -/
theorem b64_chars (b : Bytes) : ∀ c ∈ b64 b,
    isWs c = false ∧ c ≠ 60 ∧ c ≠ 62 ∧ c ≠ 34 ∧ c ≠ 10 ∧ c ≠ 13 ∧ c ≠ 32 := by
  intro c hc
  unfold b64 ClearKey.b64encode at hc
  rcases List.mem_append.mp hc with h | h
  · obtain ⟨n, _, rfl⟩ := ClearKey.encBody_std b c h
    have := ClearKey.stdChar_range n
    refine ⟨?_, by omega, by omega, by omega, by omega, by omega, by omega⟩
    unfold isWs; simp; omega
  · have : c = 61 := by
      unfold ClearKey.padOf at h
      split at h
      · simp at h; exact h
      · split at h
        · simp at h; exact h
        · simp at h
    subst this; decide

/-! ### the `>\s+<` transducer -/

theorem sqRun_append (st : Option Text) (a b : Text) :
    sqRun st (a ++ b) = ((sqRun st a).1 ++ (sqRun (sqRun st a).2 b).1, (sqRun (sqRun st a).2 b).2) := by
  induction a generalizing st with
  | nil => simp [sqRun]
  | cons c cs ih => simp [sqRun, ih, List.append_assoc]

/-- not after a `>`: text without `>` passes unchanged -/
theorem sqRun_none_plain (d : Text) (h : ∀ c ∈ d, c ≠ 62) : sqRun none d = (d, none) := by
  induction d with
  | nil => rfl
  | cons c cs ih =>
    have hc : c ≠ 62 := h c (by simp)
    simp [sqRun, sqStep, hc, ih (fun x hx => h x (by simp [hx]))]

/-- after a `>` and whitespace `w`: text without `<` `>` that is not all whitespace flushes `w` -/
theorem sqRun_some_nonblank (w d : Text) (h : ∀ c ∈ d, c ≠ 62 ∧ c ≠ 60) (hb : d.all isWs = false) :
    sqRun (some w) d = (w ++ d, none) := by
  induction d generalizing w with
  | nil => simp at hb
  | cons c cs ih =>
    have hc := h c (by simp)
    by_cases hw : isWs c = true
    · have hb' : cs.all isWs = false := by simpa [hw] using hb
      simp [sqRun, sqStep, hw, ih (w ++ [c]) (fun x hx => h x (by simp [hx])) hb']
    · have hw' : isWs c = false := by simpa using hw
      have := sqRun_none_plain cs (fun x hx => (h x (by simp [hx])).1)
      simp [sqRun, sqStep, hw', hc.1, hc.2, this]

/-- after a `>`: whitespace is held back -/
theorem sqRun_some_blank (w d : Text) (hb : d.all isWs = true) :
    sqRun (some w) d = ([], some (w ++ d)) := by
  induction d generalizing w with
  | nil => simp [sqRun]
  | cons c cs ih =>
    simp only [List.all_cons, Bool.and_eq_true] at hb
    simp [sqRun, sqStep, hb.1, ih (w ++ [c]) hb.2]

/-- text whose first non-whitespace character is `<` -/
def leadsLt (t : Text) : Bool :=
  match t.dropWhile isWs with
  | 60 :: _ => true
  | _ => false

/-- held-back whitespace in front of `<` is dropped whatever it was -/
theorem sqRun_some_leadsLt (w t : Text) (h : leadsLt t = true) :
    sqRun (some w) t = sqRun (some []) t := by
  induction t generalizing w with
  | nil => simp [leadsLt] at h
  | cons c cs ih =>
    by_cases hw : isWs c = true
    · have h' : leadsLt cs = true := by simpa [leadsLt, List.dropWhile, hw] using h
      simp only [sqRun, sqStep, hw, if_true]
      rw [ih (w ++ [c]) h', ih ([] ++ [c]) h']
    · have hw' : isWs c = false := by simpa using hw
      have hc : c = 60 := by
        by_cases hc : c = 60
        · exact hc
        · exfalso
          simp only [leadsLt, List.dropWhile, hw'] at h
          split at h
          · rename_i heq
            simp only [List.cons.injEq] at heq
            exact hc heq.1
          · simp at h
      subst hc
      simp [sqRun, sqStep, hw']

/-! ### tokenizer -/

theorem tkRun_append (st : TkSt) (a b : Text) :
    tkRun st (a ++ b) = ((tkRun st a).1 ++ (tkRun (tkRun st a).2 b).1, (tkRun (tkRun st a).2 b).2) := by
  induction a generalizing st with
  | nil => simp [tkRun]
  | cons c cs ih => simp [tkRun, ih, List.append_assoc]

theorem tkRun_inTag (buf d : Text) (h : ∀ c ∈ d, c ≠ 62) : tkRun (.inTag buf) d = ([], .inTag (buf ++ d)) := by
  induction d generalizing buf with
  | nil => simp [tkRun]
  | cons c cs ih =>
    have hc : c ≠ 62 := h c (by simp)
    simp [tkRun, tkStep, hc, ih (buf ++ [c]) (fun x hx => h x (by simp [hx]))]

theorem tkRun_inText (buf d : Text) (h : ∀ c ∈ d, c ≠ 60) : tkRun (.inText buf) d = ([], .inText (buf ++ d)) := by
  induction d generalizing buf with
  | nil => simp [tkRun]
  | cons c cs ih =>
    have hc : c ≠ 60 := h c (by simp)
    simp [tkRun, tkStep, hc, ih (buf ++ [c]) (fun x hx => h x (by simp [hx]))]

theorem tkRun_idle_text (d : Text) (h : ∀ c ∈ d, c ≠ 60) (hne : d ≠ []) : tkRun .idle d = ([], .inText d) := by
  cases d with
  | nil => exact absurd rfl hne
  | cons c cs =>
    have hc : c ≠ 60 := h c (by simp)
    simp [tkRun, tkStep, hc, tkRun_inText [c] cs (fun x hx => h x (by simp [hx]))]

/-! ### attribute reader -/

theorem atRun_append (st : AtSt) (a b : Text) :
    atRun st (a ++ b) = ((atRun st a).1 ++ (atRun (atRun st a).2 b).1, (atRun (atRun st a).2 b).2) := by
  induction a generalizing st with
  | nil => simp [atRun]
  | cons c cs ih => simp [atRun, ih, List.append_assoc]

theorem atRun_val (n buf d : Text) (h : ∀ c ∈ d, c ≠ 34) : atRun (.val n buf) d = ([], .val n (buf ++ d)) := by
  induction d generalizing buf with
  | nil => simp [atRun]
  | cons c cs ih =>
    have hc : c ≠ 34 := h c (by simp)
    simp [atRun, atStep, hc, ih (buf ++ [c]) (fun x hx => h x (by simp [hx]))]

theorem takeWhile_append_stop {p : Nat → Bool} (a b : Text) (h : ∃ x ∈ a, p x = false) :
    (a ++ b).takeWhile p = a.takeWhile p := by
  induction a with
  | nil => simp at h
  | cons c cs ih =>
    by_cases hc : p c = true
    · simp only [List.cons_append, List.takeWhile_cons, hc, if_true]
      obtain ⟨x, hx, hpx⟩ := h
      rcases List.mem_cons.mp hx with rfl | hx
      · simp [hc] at hpx
      · rw [ih ⟨x, hx, hpx⟩]
    · simp [hc]

theorem dropWhile_append_stop {p : Nat → Bool} (a b : Text) (h : ∃ x ∈ a, p x = false) :
    (a ++ b).dropWhile p = a.dropWhile p ++ b := by
  induction a with
  | nil => simp at h
  | cons c cs ih =>
    by_cases hc : p c = true
    · simp only [List.cons_append, List.dropWhile_cons, hc, if_true]
      obtain ⟨x, hx, hpx⟩ := h
      rcases List.mem_cons.mp hx with rfl | hx
      · simp [hc] at hpx
      · rw [ih ⟨x, hx, hpx⟩]
    · simp [hc]
/-! ### squeeze then tokenize, as one machine -/

abbrev PSt := Option Text × TkSt

/-- feed text through the `>\s+<` transducer and its output through the tokenizer -/
def pipe (st : PSt) (t : Text) : List Tok × PSt :=
  let r := sqRun st.1 t
  let k := tkRun st.2 r.1
  (k.1, (r.2, k.2))

theorem pipe_append (st : PSt) (a b : Text) :
    pipe st (a ++ b) = ((pipe st a).1 ++ (pipe (pipe st a).2 b).1, (pipe (pipe st a).2 b).2) := by
  simp [pipe, sqRun_append, tkRun_append]

theorem pipe_nil (st : PSt) : pipe st [] = ([], st) := by
  simp [pipe, sqRun, tkRun]

/-- a hole inside a tag (attribute value): absorbed into the tag buffer -/
theorem pipe_attr_hole (buf h : Text) (hh : ∀ c ∈ h, c ≠ 62) :
    pipe (none, .inTag buf) h = ([], (none, .inTag (buf ++ h))) := by
  simp [pipe, sqRun_none_plain h hh, tkRun_inTag buf h hh]

/-- what a hole between `>` and `<` contributes: nothing when empty, else one text token -/
def optText (h : Text) : List Tok := if h = [] then [] else [.text h]

/-- a hole that is the text content of an element (`>`hole`<`): empty, or plain and not blank -/
def TextHole (h : Text) : Prop := h = [] ∨ ((∀ c ∈ h, c ≠ 62 ∧ c ≠ 60) ∧ h.all isWs = false)

/-- element text followed by the `<` of the closing tag -/
theorem pipe_text_hole (h T : Text) (hh : TextHole h) :
    pipe (some [], .idle) (h ++ 60 :: T)
      = (optText h ++ (pipe (none, .inTag []) T).1, (pipe (none, .inTag []) T).2) := by
  rcases hh with rfl | ⟨hp, hb⟩
  · simp [pipe, sqRun, sqStep, tkRun, tkStep, optText, isWs, tkRun_append]
  · have hne : h ≠ [] := by intro h0; subst h0; simp at hb
    rw [pipe_append]
    have h1 : pipe (some [], .idle) h = ([], (none, .inText h)) := by
      simp [pipe, sqRun_some_nonblank [] h hp hb, tkRun_idle_text h (fun c hc => (hp c hc).2) hne]
    rw [h1]
    simp [pipe, sqRun, sqStep, tkRun, tkStep, optText, hne, tkRun_append]

/-- a literal inside a tag that does not close it -/
theorem pipe_tag_lit (buf B : Text) (hs : (sqRun none B).2 = none) (hn : ∀ c ∈ (sqRun none B).1, c ≠ 62) :
    pipe (none, .inTag buf) B = ([], (none, .inTag (buf ++ (sqRun none B).1))) := by
  simp [pipe, hs, tkRun_inTag buf _ hn]

/-- a literal that closes the tag: `pre` `>` `post` -/
theorem pipe_tag_close (buf C pre post : Text) (hc : (sqRun none C).1 = pre ++ 62 :: post)
    (hn : ∀ c ∈ pre, c ≠ 62) :
    pipe (none, .inTag buf) C
      = (.tag (buf ++ pre) :: (tkRun .idle post).1, ((sqRun none C).2, (tkRun .idle post).2)) := by
  simp [pipe, hc, tkRun_append, tkRun_inTag buf pre hn, tkRun, tkStep]

/-- a literal that starts a tag after held-back whitespace -/
theorem pipe_tag_open (w A : Text) (hl : leadsLt A = true) :
    pipe (some w, .idle) A = pipe (some [], .idle) A := by
  simp [pipe, sqRun_some_leadsLt w A hl]
/-- a value hole followed by its closing quote and the next literal -/
theorem atRun_val_close (n h rest : Text) (hh : ∀ c ∈ h, c ≠ 34) :
    atRun (.val n []) (h ++ 34 :: rest) = ((n, h) :: (atRun .skip rest).1, (atRun .skip rest).2) := by
  rw [atRun_append, atRun_val n [] h hh]
  simp [atRun, atStep]

/-- attributes of a tag body `a0 h1 "b1 h2 "c1` where `a0` ends inside the opening quote of the
first hole's attribute and `b1` inside that of the second -/
theorem attrs_two_holes (a0 b1 c1 h1 h2 n1 n2 : Text) (E0 : List (Text × Text))
    (hsp : ∃ x ∈ a0, (x != 32) = false)
    (ha : atRun .skip (a0.dropWhile (· != 32)) = (E0, .val n1 []))
    (hb : atRun .skip b1 = ([], .val n2 []))
    (hc : (atRun .skip c1).1 = [])
    (hh1 : ∀ c ∈ h1, c ≠ 34) (hh2 : ∀ c ∈ h2, c ≠ 34) :
    attrs (a0 ++ h1 ++ (34 :: b1) ++ h2 ++ (34 :: c1)) = E0 ++ [(n1, h1), (n2, h2)] ∧
    tagName (a0 ++ h1 ++ (34 :: b1) ++ h2 ++ (34 :: c1)) = tagName a0 := by
  constructor
  · unfold attrs
    have : a0 ++ h1 ++ (34 :: b1) ++ h2 ++ (34 :: c1) = a0 ++ (h1 ++ 34 :: (b1 ++ (h2 ++ 34 :: c1))) := by simp
    rw [this, dropWhile_append_stop a0 _ hsp, atRun_append, ha]
    simp only
    rw [atRun_val_close n1 h1 _ hh1, atRun_append, hb]
    simp only
    rw [atRun_val_close n2 h2 _ hh2, hc]
    simp
  · unfold tagName
    have : a0 ++ h1 ++ (34 :: b1) ++ h2 ++ (34 :: c1) = a0 ++ (h1 ++ 34 :: (b1 ++ (h2 ++ 34 :: c1))) := by simp
    rw [this, takeWhile_append_stop a0 _ hsp]

/-- three holes: `a0 h0 "a1 h1 "b1 h2 "c1` -/
theorem attrs_three_holes (a0 a1 b1 c1 h0 h1 h2 n0 n1 n2 : Text) (E0 : List (Text × Text))
    (hsp : ∃ x ∈ a0, (x != 32) = false)
    (ha0 : atRun .skip (a0.dropWhile (· != 32)) = (E0, .val n0 []))
    (ha1 : atRun .skip a1 = ([], .val n1 []))
    (hb : atRun .skip b1 = ([], .val n2 []))
    (hc : (atRun .skip c1).1 = [])
    (hh0 : ∀ c ∈ h0, c ≠ 34) (hh1 : ∀ c ∈ h1, c ≠ 34) (hh2 : ∀ c ∈ h2, c ≠ 34) :
    attrs (a0 ++ h0 ++ (34 :: a1) ++ h1 ++ (34 :: b1) ++ h2 ++ (34 :: c1))
      = E0 ++ [(n0, h0), (n1, h1), (n2, h2)] ∧
    tagName (a0 ++ h0 ++ (34 :: a1) ++ h1 ++ (34 :: b1) ++ h2 ++ (34 :: c1)) = tagName a0 := by
  have hre : a0 ++ h0 ++ (34 :: a1) ++ h1 ++ (34 :: b1) ++ h2 ++ (34 :: c1)
      = a0 ++ (h0 ++ 34 :: (a1 ++ (h1 ++ 34 :: (b1 ++ (h2 ++ 34 :: c1))))) := by simp
  constructor
  · unfold attrs
    rw [hre, dropWhile_append_stop a0 _ hsp, atRun_append, ha0]
    simp only
    rw [atRun_val_close n0 h0 _ hh0, atRun_append, ha1]
    simp only
    rw [atRun_val_close n1 h1 _ hh1, atRun_append, hb]
    simp only
    rw [atRun_val_close n2 h2 _ hh2, hc]
    simp
  · unfold tagName
    rw [hre, takeWhile_append_stop a0 _ hsp]

end DashLive.WrmHeader
