import DashLive.Model.Events
/-! Helper lemmas for C14 (event scheduling part): integer ranges, the Galois
connection between `firstIdx` and `evTime`, and the loop invariant of
`create_emsg_boxes`. -/
namespace DashLive.Events

/-! ### `idsFrom` / `idRange` -/

theorem idsFrom_add (lo : Int) (m n : Nat) :
    idsFrom lo (m + n) = idsFrom lo m ++ idsFrom (lo + m) n := by
  induction m generalizing lo with
  | zero => simp [idsFrom]
  | succ m ih =>
    have e : m + 1 + n = (m + n) + 1 := by omega
    rw [e]
    have e2 : lo + 1 + (m : Int) = lo + ((m + 1 : Nat) : Int) := by omega
    simp only [idsFrom, List.cons_append, ih, e2]

theorem mem_idsFrom (lo : Int) (n : Nat) (k : Int) :
    k ∈ idsFrom lo n ↔ lo ≤ k ∧ k < lo + n := by
  induction n generalizing lo with
  | zero => simp only [idsFrom, List.not_mem_nil, false_iff]; omega
  | succ n ih =>
    simp only [idsFrom, List.mem_cons, ih]
    omega

theorem idsFrom_sorted (lo : Int) (n : Nat) : List.Pairwise (· < ·) (idsFrom lo n) := by
  induction n generalizing lo with
  | zero => simp [idsFrom]
  | succ n ih =>
    simp only [idsFrom, List.pairwise_cons]
    refine ⟨?_, ih _⟩
    intro k hk
    rw [mem_idsFrom] at hk
    omega

theorem idRange_empty {lo hi : Int} (h : hi ≤ lo) : idRange lo hi = [] := by
  unfold idRange
  have : (hi - lo).toNat = 0 := by omega
  rw [this]; rfl

theorem idRange_cons {lo hi : Int} (h : lo < hi) : idRange lo hi = lo :: idRange (lo + 1) hi := by
  unfold idRange
  have : (hi - lo).toNat = (hi - (lo + 1)).toNat + 1 := by omega
  rw [this]; rfl

theorem idRange_append {a b c : Int} (h1 : a ≤ b) (h2 : b ≤ c) :
    idRange a b ++ idRange b c = idRange a c := by
  unfold idRange
  have e : (c - a).toNat = (b - a).toNat + (c - b).toNat := by omega
  rw [e, idsFrom_add]
  congr 2
  omega

theorem mem_idRange {lo hi k : Int} : k ∈ idRange lo hi ↔ lo ≤ k ∧ k < hi := by
  unfold idRange
  rw [mem_idsFrom]
  omega

theorem idRange_sorted (lo hi : Int) : List.Pairwise (· < ·) (idRange lo hi) :=
  idsFrom_sorted _ _

/-! ### schedule arithmetic -/

theorem evTime_succ (s : Sched) (k : Int) : evTime s k + s.interval = evTime s (k + 1) := by
  simp only [evTime, Int.add_mul, Int.one_mul, Int.add_assoc]

theorem firstIdx_nonneg (s : Sched) (hi : 0 < s.interval) (x : Int) : 0 ≤ firstIdx s x := by
  unfold firstIdx
  split
  · exact Int.le_refl 0
  · apply Int.ediv_nonneg <;> omega

/-- **Galois connection**: `firstIdx x` is the least index `k ≥ 0` with `x ≤ evTime k` -/
theorem firstIdx_le_iff (s : Sched) (hi : 0 < s.interval) (x k : Int) (hk : 0 ≤ k) :
    firstIdx s x ≤ k ↔ x ≤ evTime s k := by
  have hm : 0 ≤ k * s.interval := Int.mul_nonneg hk (Int.le_of_lt hi)
  unfold firstIdx evTime
  split
  · constructor
    · intro _; omega
    · intro _; exact hk
  · rw [Int.ediv_le_iff_le_mul hi]
    omega

theorem lt_firstIdx_iff (s : Sched) (hi : 0 < s.interval) (x k : Int) (hk : 0 ≤ k) :
    k < firstIdx s x ↔ evTime s k < x := by
  have := firstIdx_le_iff s hi x k hk
  omega

theorem firstIdx_mono (s : Sched) (hi : 0 < s.interval) {x y : Int} (h : x ≤ y) :
    firstIdx s x ≤ firstIdx s y := by
  rw [firstIdx_le_iff s hi x _ (firstIdx_nonneg s hi y)]
  have := (firstIdx_le_iff s hi y _ (firstIdx_nonneg s hi y)).mp (Int.le_refl _)
  omega

theorem cap_mono (s : Sched) {j k : Int} (h : j ≤ k) : cap s j ≤ cap s k := by
  unfold cap; split <;> omega

theorem cap_le (s : Sched) (k : Int) : cap s k ≤ k := by
  unfold cap; split <;> omega

theorem cap_le_count (s : Sched) (k : Int) (h : s.count > 0) : cap s k ≤ s.count := by
  unfold cap; simp only [h, if_true]; omega

theorem cap_nonneg (s : Sched) {k : Int} (h : 0 ≤ k) : 0 ≤ cap s k := by
  unfold cap; split <;> omega

/-- `firstIdx b ≤ (b − start) / interval + 1` – the bound behind `emsgFuel` -/
theorem firstIdx_le_fuel (s : Sched) (hi : 0 < s.interval) (b : Int) (hb : s.start < b) :
    firstIdx s b ≤ (b - s.start) / s.interval + 1 := by
  unfold firstIdx
  have hne : s.interval ≠ 0 := by omega
  have h1 : ¬ b ≤ s.start := by omega
  simp only [h1, if_false]
  have h2 : (b - s.start + s.interval - 1) / s.interval ≤ (b - s.start + 1 * s.interval) / s.interval :=
    Int.ediv_le_ediv hi (by omega)
  rw [Int.add_mul_ediv_right _ _ hne] at h2
  exact h2

/-! ### the loop of `create_emsg_boxes` -/

def mkEv (s : Sched) (k : Int) : Ev := ⟨k, evTime s k⟩

/-- Loop invariant/result: started at event `id ≥ 0` with
`presentation_time = evTime id` and enough fuel, the loop returns exactly the
events `k ≥ id` with `a ≤ evTime k < b` and `k < count` (when `count > 0`). -/
theorem emsgLoop_spec (s : Sched) (hi : 0 < s.interval) (a b : Int) :
    ∀ (fuel : Nat) (id : Int), 0 ≤ id → (firstIdx s b - id).toNat + 1 ≤ fuel →
      emsgLoop s a b fuel id (evTime s id) =
        some ((idRange (max id (firstIdx s a)) (cap s (firstIdx s b))).map (mkEv s)) := by
  intro fuel
  induction fuel with
  | zero => intro id _ h; omega
  | succ fuel ih =>
    intro id hid hfuel
    have gA := firstIdx_le_iff s hi a id hid
    have gB := firstIdx_le_iff s hi b id hid
    have hcap := cap_le s (firstIdx s b)
    unfold emsgLoop
    by_cases h1 : evTime s id < b
    · simp only [h1, not_true_eq_false, if_false]
      have hlt : id < firstIdx s b := by omega
      by_cases h2 : s.count > 0 ∧ id ≥ s.count
      · simp only [h2, and_self, if_true]
        have := cap_le_count s (firstIdx s b) h2.1
        rw [idRange_empty (by omega)]; rfl
      · simp only [h2, if_false]
        have hcapid : id < cap s (firstIdx s b) := by
          unfold cap; split <;> omega
        by_cases h3 : evTime s id < a
        · simp only [h3, if_true]
          rw [evTime_succ, ih (id + 1) (by omega) (by omega)]
          have : id < firstIdx s a := by omega
          have e : max (id + 1) (firstIdx s a) = max id (firstIdx s a) := by omega
          rw [e]
        · simp only [h3, if_false]
          have hge : firstIdx s a ≤ id := by omega
          have e : max id (firstIdx s a) = id := by omega
          rw [e, idRange_cons hcapid]
          by_cases h4 : s.count > 0 ∧ id + 1 ≥ s.count
          · simp only [h4, and_self, if_true]
            have := cap_le_count s (firstIdx s b) h4.1
            rw [idRange_empty (by omega)]; rfl
          · simp only [h4, if_false]
            rw [evTime_succ, ih (id + 1) (by omega) (by omega)]
            have e' : max (id + 1) (firstIdx s a) = id + 1 := by omega
            rw [e']; rfl
    · simp only [h1, not_false_eq_true, if_true]
      have : firstIdx s b ≤ id := by omega
      rw [idRange_empty (by omega)]; rfl

/-- replacing the lower bound `firstIdx a` by its capped value does not change the range -/
theorem idRange_cap_lo (s : Sched) (j k : Int) :
    idRange j (cap s k) = idRange (cap s j) (cap s k) := by
  by_cases h : s.count > 0 ∧ s.count < j
  · have h1 := cap_le_count s k h.1
    have h2 : cap s j = s.count := by unfold cap; simp only [h.1, if_true]; omega
    rw [idRange_empty (by omega), idRange_empty (by omega)]
  · have : cap s j = j := by unfold cap; split <;> omega
    rw [this]

/-- `a // i` for `i > 0` is Lean's `/` -/
theorem pydiv_pos (a : Int) {i : Int} (h : 0 < i) : pydiv a i = a / i :=
  Int.fdiv_eq_ediv_of_nonneg a (Int.le_of_lt h)

/-- **`create_emsg_boxes` computes the schedule restricted to the segment.** -/
theorem emsgEvents_spec (s : Sched) (hin : s.inband = true) (hi : 0 < s.interval) (a b : Int)
    (hmax : (b - a) / s.interval ≤ maxEventsPerSegment)
    (fuel : Nat) (hf : emsgFuel s b ≤ fuel) :
    emsgEvents s a b fuel = .ok (scheduled s a b) := by
  unfold emsgEvents scheduled
  have hi' : ¬ s.interval < 1 := by omega
  have hmax' : ¬ pydiv (b - a) s.interval > maxEventsPerSegment := by rw [pydiv_pos _ hi]; omega
  simp only [hin, Bool.not_true, Bool.false_eq_true, if_false, hi', hmax']
  have fA := firstIdx_nonneg s hi a
  have fB := firstIdx_nonneg s hi b
  by_cases h1 : s.start ≥ b
  · simp only [h1, if_true]
    have : firstIdx s b = 0 := by unfold firstIdx; simp only [show b ≤ s.start by omega, if_true]
    have hc := cap_nonneg s fA
    have hc' := cap_le s (firstIdx s b)
    rw [idRange_empty (by omega)]; rfl
  · simp only [h1, if_false]
    by_cases h2 : s.count > 0 ∧ s.start + s.count * s.interval < a
    · simp only [h2, and_self, if_true]
      have g := firstIdx_le_iff s hi a s.count (by omega)
      have : s.count < firstIdx s a := by unfold evTime at g; omega
      have c1 : cap s (firstIdx s a) = s.count := by
        unfold cap; simp only [h2.1, if_true]; omega
      have c2 := cap_le_count s (firstIdx s b) h2.1
      rw [idRange_empty (by omega)]; rfl
    · simp only [h2, if_false]
      -- the initial event id
      have he0 : ∃ e0, (if a > s.start then pydiv (a - s.start) s.interval else 0) = e0 ∧
          0 ≤ e0 ∧ e0 ≤ firstIdx s a := by
        by_cases h3 : a > s.start
        · simp only [h3, if_true, pydiv_pos _ hi]
          refine ⟨_, rfl, Int.ediv_nonneg (by omega) (by omega), ?_⟩
          -- e0·i ≤ a − start, hence evTime (e0 − 1) < a
          have hm := Int.ediv_mul_le (a - s.start) (b := s.interval) (by omega)
          by_cases hz : (a - s.start) / s.interval = 0
          · omega
          · have hpos : 0 ≤ (a - s.start) / s.interval - 1 := by
              have := Int.ediv_nonneg (a := a - s.start) (b := s.interval) (by omega) (by omega)
              omega
            have g := lt_firstIdx_iff s hi a ((a - s.start) / s.interval - 1) hpos
            have : evTime s ((a - s.start) / s.interval - 1) < a := by
              unfold evTime
              rw [Int.sub_mul, Int.one_mul]
              omega
            omega
        · simp only [h3, if_false]
          exact ⟨0, rfl, Int.le_refl 0, fA⟩
      obtain ⟨e0, he, h0, hle⟩ := he0
      simp only [he]
      have hneg : ¬ e0 < 0 := by omega
      simp only [hneg, if_false]
      have hfuel : (firstIdx s b - e0).toNat + 1 ≤ fuel := by
        have := firstIdx_le_fuel s hi b (by omega)
        have hq : 0 ≤ (b - s.start) / s.interval := Int.ediv_nonneg (by omega) (by omega)
        unfold emsgFuel at hf
        omega
      have hl := emsgLoop_spec s hi a b fuel e0 h0 hfuel
      unfold evTime at hl
      rw [hl]
      have e : max e0 (firstIdx s a) = firstIdx s a := by omega
      rw [e, idRange_cap_lo]
      rfl

/-- the four outcomes of `create_emsg_boxes` -/
theorem createEmsg_cases (s : Sched) (repTs : Int) (g : Seg) :
    (s.inband = false ∧ createEmsg s repTs g = .ok []) ∨
    (s.inband = true ∧ s.interval < 1 ∧ createEmsg s repTs g = .valueError) ∨
    (s.inband = true ∧ 0 < s.interval ∧
      (segEnd s repTs g - segStart s repTs g) / s.interval > maxEventsPerSegment ∧
      createEmsg s repTs g = .valueError) ∨
    (s.inband = true ∧ 0 < s.interval ∧
      (segEnd s repTs g - segStart s repTs g) / s.interval ≤ maxEventsPerSegment ∧
      createEmsg s repTs g = .ok ((scheduled s (segStart s repTs g) (segEnd s repTs g)).map
        (mkEmsg s (segStart s repTs g)))) := by
  unfold createEmsg
  cases hin : s.inband with
  | false => left; simp [emsgEvents, hin]
  | true =>
    right
    by_cases hi : 0 < s.interval
    · right
      by_cases hmax : (segEnd s repTs g - segStart s repTs g) / s.interval ≤ maxEventsPerSegment
      · right
        refine ⟨rfl, hi, hmax, ?_⟩
        simp only [emsgEvents_spec s hin hi _ _ hmax _ (Nat.le_refl _)]
      · left
        refine ⟨rfl, hi, by omega, ?_⟩
        have hi' : ¬ s.interval < 1 := by omega
        have h2 : pydiv (segEnd s repTs g - segStart s repTs g) s.interval > maxEventsPerSegment := by
          rw [pydiv_pos _ hi]; omega
        simp only [emsgEvents, hin, Bool.not_true, Bool.false_eq_true, if_false, hi', h2, if_true]
    · left
      have hi' : s.interval < 1 := by omega
      refine ⟨rfl, hi', ?_⟩
      simp only [emsgEvents, hin, Bool.not_true, Bool.false_eq_true, if_false, hi', if_true]

/-! ### characterisation of `scheduled` -/

theorem mem_cap_range (s : Sched) (hi : 0 < s.interval) (a b k : Int) :
    k ∈ idRange (cap s (firstIdx s a)) (cap s (firstIdx s b)) ↔
      0 ≤ k ∧ a ≤ evTime s k ∧ evTime s k < b ∧ (s.count > 0 → k < s.count) := by
  rw [mem_idRange]
  have fA := firstIdx_nonneg s hi a
  have fB := firstIdx_nonneg s hi b
  constructor
  · intro ⟨h1, h2⟩
    have hk : 0 ≤ k := by have := cap_nonneg s fA; omega
    have gA := firstIdx_le_iff s hi a k hk
    have gB := firstIdx_le_iff s hi b k hk
    unfold cap at h1 h2
    split at h1 <;> rename_i hc <;> simp only [hc, if_true, if_false] at h2
    · -- count > 0
      by_cases hq : firstIdx s a ≤ s.count
      · refine ⟨hk, by omega, by omega, fun _ => by omega⟩
      · omega
    · refine ⟨hk, by omega, by omega, fun h => absurd h hc⟩
  · intro ⟨hk, h1, h2, h3⟩
    have gA := firstIdx_le_iff s hi a k hk
    have gB := firstIdx_le_iff s hi b k hk
    unfold cap
    split <;> rename_i hc
    · have := h3 hc; omega
    · omega

/-! ### the emsg box codec -/

theorem beBytes_length (n v : Nat) : (beBytes n v).length = n := by
  induction n generalizing v with
  | zero => rfl
  | succ n ih => simp [beBytes, ih]

theorem beNat_append_single (l : Bytes) (x : UInt8) : beNat (l ++ [x]) = beNat l * 256 + x.toNat := by
  simp [beNat, List.foldl_append]

theorem beNat_beBytes (n v : Nat) (h : v < 256 ^ n) : beNat (beBytes n v) = v := by
  induction n generalizing v with
  | zero => simp [Nat.pow_zero] at h; subst h; rfl
  | succ n ih =>
    have h1 : v / 256 < 256 ^ n := by
      rw [Nat.pow_succ] at h
      exact Nat.div_lt_of_lt_mul (by rw [Nat.mul_comm]; exact h)
    have h2 : (UInt8.ofNat (v % 256)).toNat = v % 256 := by
      simp
    rw [beBytes, beNat_append_single, ih _ h1, h2]
    omega

theorem takeN_append (l1 rest : Bytes) (n : Nat) (h : l1.length = n) :
    takeN n (l1 ++ rest) = some (l1, rest) := by
  unfold takeN
  have : ¬ (l1 ++ rest).length < n := by simp [h]
  simp only [this, if_false, List.take_left' h, List.drop_left' h]

theorem readCStr_append (s rest : Bytes) (h : ∀ c ∈ s, c ≠ 0) :
    readCStr (s ++ (0 :: rest)) = some (s, rest) := by
  induction s with
  | nil => simp [readCStr]
  | cons c s ih =>
    have hc : c ≠ 0 := h c List.mem_cons_self
    simp [readCStr, hc, ih (fun x hx => h x (List.mem_cons_of_mem _ hx))]

/-- fields inside the widths of the box layout, strings without NUL, the box
size fits its 32-bit field -/
def EmsgBox.wf (b : EmsgBox) : Prop :=
  (b.version = 0 ∨ b.version = 1) ∧ b.flags < 256 ^ 3 ∧ (∀ c ∈ b.scheme, c ≠ 0) ∧ (∀ c ∈ b.value, c ≠ 0) ∧
  b.timescale < 256 ^ 4 ∧ (b.version = 0 → b.time < 256 ^ 4) ∧ (b.version = 1 → b.time < 256 ^ 8) ∧
  b.duration < 256 ^ 4 ∧ b.id < 256 ^ 4 ∧ (encodeEmsgPayload b).length + 8 < 256 ^ 4

theorem parseEmsg_encodeEmsg (b : EmsgBox) (h : b.wf) : parseEmsg (encodeEmsg b) = some b := by
  obtain ⟨hv, hf, hs, hval, hts, ht0, ht1, hd, hid, hsz⟩ := h
  obtain ⟨version, flags, scheme, value, timescale, time, duration, id, data⟩ := b
  simp only at hv hf hs hval hts ht0 ht1 hd hid
  have t1 : ∀ (n v : Nat) (rest : Bytes), takeN n (beBytes n v ++ rest) = some (beBytes n v, rest) :=
    fun n v rest => takeN_append _ _ n (beBytes_length n v)
  have tt : ∀ rest : Bytes, takeN 4 ([0x65, 0x6d, 0x73, 0x67] ++ rest) = some ([0x65, 0x6d, 0x73, 0x67], rest) :=
    fun rest => takeN_append _ _ 4 rfl
  have tv : ∀ (x : UInt8) (rest : Bytes), takeN 1 ([x] ++ rest) = some ([x], rest) :=
    fun x rest => takeN_append _ _ 1 rfl
  have c1 : ∀ (s rest : Bytes), (∀ c ∈ s, c ≠ 0) → readCStr (s ++ ([0] ++ rest)) = some (s, rest) :=
    fun s rest h => readCStr_append s rest h
  have hsz' := beNat_beBytes 4 _ hsz
  rcases hv with rfl | rfl
  · have ht := ht0 rfl
    have hv1 : beNat [UInt8.ofNat 0] = 0 := rfl
    simp only [encodeEmsgPayload, if_true, List.append_assoc] at hsz' ⊢
    simp only [parseEmsg, encodeEmsg, encodeEmsgPayload, if_true, List.append_assoc, t1, tt, tv, hsz',
      Option.bind_eq_bind, Option.bind_some, ne_eq, not_true_eq_false, if_false, hv1,
      c1 _ _ hs, c1 _ _ hval, beNat_beBytes _ _ hf, beNat_beBytes _ _ hts, beNat_beBytes _ _ ht,
      beNat_beBytes _ _ hd, beNat_beBytes _ _ hid]
  · have ht := ht1 rfl
    have hv1 : beNat [UInt8.ofNat 1] = 1 := rfl
    have h10 : ¬ ((1 : Nat) = 0) := by decide
    simp only [encodeEmsgPayload, h10, if_false, List.append_assoc] at hsz' ⊢
    simp only [parseEmsg, encodeEmsg, encodeEmsgPayload, if_true, List.append_assoc, t1, tt, tv, hsz',
      Option.bind_eq_bind, Option.bind_some, ne_eq, not_true_eq_false, if_false, hv1, h10,
      c1 _ _ hs, c1 _ _ hval, beNat_beBytes _ _ hf, beNat_beBytes _ _ hts, beNat_beBytes _ _ ht,
      beNat_beBytes _ _ hd, beNat_beBytes _ _ hid]

/-! ### integer option texts -/

theorem digitVal_digitChar : ∀ d, d < 10 → digitVal (Nat.digitChar d) = some d := by decide
theorem digitChar_ne_us : ∀ d, d < 10 → Nat.digitChar d ≠ '_' := by decide
theorem digitChar_not_ws : ∀ d, d < 10 → isPyWs (Nat.digitChar d) = false := by decide
theorem digitChar_not_sign : ∀ d, d < 10 →
    Nat.digitChar d ≠ '-' ∧ Nat.digitChar d ≠ '+' ∧ Nat.digitChar d ≠ 'n' := by decide

/-- a string of decimal digit characters -/
def IsDigits (l : List Char) : Prop := ∀ c ∈ l, ∃ d, d < 10 ∧ c = Nat.digitChar d

theorem readDigits_single (d : Nat) (hd : d < 10) (acc : Nat) (prev : Bool) :
    readDigits [Nat.digitChar d] acc prev = some (acc * 10 + d) := by
  simp [readDigits, digitVal_digitChar d hd, digitChar_ne_us d hd]

theorem readDigits_snoc (l : List Char) (hl : IsDigits l) (hne : l ≠ []) (d : Nat) (hd : d < 10) :
    ∀ (acc : Nat) (prev : Bool) (v : Nat), readDigits l acc prev = some v →
      readDigits (l ++ [Nat.digitChar d]) acc prev = some (v * 10 + d) := by
  induction l with
  | nil => exact absurd rfl hne
  | cons c cs ih =>
    intro acc prev v h
    obtain ⟨e, he, rfl⟩ := hl _ List.mem_cons_self
    have hcs : IsDigits cs := fun x hx => hl x (List.mem_cons_of_mem _ hx)
    simp only [List.cons_append, readDigits, digitChar_ne_us e he, if_false, digitVal_digitChar e he] at h ⊢
    by_cases hn : cs = []
    · subst hn
      simp only [readDigits, if_true] at h
      injection h with h; subst h
      exact readDigits_single d hd _ _
    · exact ih hcs hn _ _ _ h

/-- the decimal digits of `n` are digits, not empty, and read back as `n` -/
theorem readDigits_toDigits (n : Nat) :
    IsDigits (Nat.toDigits 10 n) ∧ Nat.toDigits 10 n ≠ [] ∧
      readDigits (Nat.toDigits 10 n) 0 false = some n := by
  induction n using Nat.strongRecOn with
  | _ n ih =>
    by_cases h : n < 10
    · rw [Nat.toDigits_of_lt_base h]
      refine ⟨?_, by simp, ?_⟩
      · intro c hc; simp at hc; exact ⟨n, h, hc⟩
      · rw [readDigits_single n h]; simp
    · have hle : 10 ≤ n := by omega
      rw [Nat.toDigits_of_base_le (by decide) hle]
      obtain ⟨h1, h2, h3⟩ := ih (n / 10) (by omega)
      have hm : n % 10 < 10 := Nat.mod_lt _ (by decide)
      refine ⟨?_, by simp, ?_⟩
      · intro c hc
        rw [List.mem_append] at hc
        rcases hc with hc | hc
        · exact h1 c hc
        · simp at hc; exact ⟨n % 10, hm, hc⟩
      · rw [readDigits_snoc _ h1 h2 _ hm _ _ _ h3]
        congr 1; omega

theorem strip_digits (l : List Char) (hl : IsDigits l) :
    ((l.dropWhile isPyWs).reverse.dropWhile isPyWs).reverse = l := by
  have hd : ∀ m : List Char, IsDigits m → m.dropWhile isPyWs = m := by
    intro m hm
    cases m with
    | nil => rfl
    | cons c cs =>
      obtain ⟨e, he, rfl⟩ := hm _ List.mem_cons_self
      rw [List.dropWhile_cons_of_neg (by simp [digitChar_not_ws e he])]
  have hr : IsDigits l.reverse := fun c hc => hl c (List.mem_reverse.mp hc)
  rw [hd l hl, hd _ hr, List.reverse_reverse]

theorem pyInt_digits (l : List Char) (hl : IsDigits l) :
    pyInt l = (readDigits l 0 false).map fun n => (n : Int) := by
  unfold pyInt
  simp only [strip_digits l hl]
  cases l with
  | nil => simp [readDigits]
  | cons c cs =>
    obtain ⟨e, he, rfl⟩ := hl _ List.mem_cons_self
    have := digitChar_not_sign e he
    simp only [this.1, this.2.1, if_false]

theorem pyInt_neg_digits (l : List Char) (hl : IsDigits l) :
    pyInt ('-' :: l) = (readDigits l 0 false).map fun n => -(n : Int) := by
  cases l with
  | nil => decide
  | cons c cs =>
    unfold pyInt
    have h1 : ('-' :: c :: cs).dropWhile isPyWs = '-' :: c :: cs := List.dropWhile_cons_of_neg (by decide)
    rw [h1]
    have hr : IsDigits (c :: cs).reverse := fun x hx => hl x (List.mem_reverse.mp hx)
    have h2 : (('-' :: c :: cs).reverse).dropWhile isPyWs = ('-' :: c :: cs).reverse := by
      rw [List.reverse_cons]
      cases hrev : (c :: cs).reverse with
      | nil => simp at hrev
      | cons x xs =>
        obtain ⟨e, he, rfl⟩ := hr _ (by rw [hrev]; exact List.mem_cons_self)
        rw [List.cons_append, List.dropWhile_cons_of_neg (by simp [digitChar_not_ws e he])]
    rw [h2, List.reverse_reverse]
    simp

/-- **`int(str(z), 10) = z`** for every integer, of any magnitude -/
theorem pyInt_decimalOf (z : Int) : pyInt (decimalOf z) = some z := by
  unfold decimalOf
  split
  · obtain ⟨h1, _, h3⟩ := readDigits_toDigits z.natAbs
    rw [pyInt_neg_digits _ h1, h3]; simp; omega
  · obtain ⟨h1, _, h3⟩ := readDigits_toDigits z.toNat
    rw [pyInt_digits _ h1, h3]; simp; omega

theorem decimalOf_ne (z : Int) : decimalOf z ≠ [] ∧ decimalOf z ≠ ['n', 'o', 'n', 'e'] := by
  unfold decimalOf
  split
  · exact ⟨by simp, by simp⟩
  · obtain ⟨h1, h2, _⟩ := readDigits_toDigits z.toNat
    refine ⟨h2, ?_⟩
    intro h
    obtain ⟨e, he, hc⟩ := h1 'n' (by rw [h]; exact List.mem_cons_self)
    exact (digitChar_not_sign e he).2.2 hc.symm

end DashLive.Events
