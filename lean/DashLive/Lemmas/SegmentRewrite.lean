import DashLive.Model.SegmentRewrite
/-!
Helper lemmas for C03 (`Props/C03.lean`): the writer (`place`/`tellAfter`), the
list plumbing (`modFirst`, `insertAt`, `firstSome`, `offsetOf`) and the
preservation facts of every edit stage of `rewrite`.
-/
namespace DashLive.SegmentRewrite

/-! ### the writer -/

/-- boxes `l` lie one after the other from `a` to `b` (sizes nest exactly) -/
def Chain (a : Nat) : List Placed → Nat → Prop
  | [], b => a = b
  | x :: r, b => x.pos = a ∧ Chain (a + x.size) r b

theorem chain_place (start : Nat) (l : List (String × Nat)) :
    Chain start (place start l) (tellAfter start l) := by
  induction l generalizing start with
  | nil => simp [place, tellAfter, Chain]
  | cons x r ih =>
    obtain ⟨t, s⟩ := x
    simp only [place, tellAfter, Chain]
    exact ⟨trivial, ih (start + s)⟩

theorem tellAfter_append (start : Nat) (a b : List (String × Nat)) :
    tellAfter start (a ++ b) = tellAfter (tellAfter start a) b := by
  induction a generalizing start with
  | nil => rfl
  | cons x r ih =>
    obtain ⟨t, s⟩ := x
    simp only [List.cons_append, tellAfter]
    exact ih (start + s)

theorem tellAfter_ge (start : Nat) (l : List (String × Nat)) : start ≤ tellAfter start l := by
  induction l generalizing start with
  | nil => exact Nat.le_refl _
  | cons x r ih =>
    obtain ⟨t, s⟩ := x
    simp only [tellAfter]
    have := ih (start + s)
    omega

theorem tellAfter_shift (start k : Nat) (l : List (String × Nat)) :
    tellAfter (start + k) l = tellAfter start l + k := by
  induction l generalizing start with
  | nil => rfl
  | cons x r ih =>
    obtain ⟨t, s⟩ := x
    simp only [tellAfter]
    rw [show start + k + s = start + s + k by omega]
    exact ih (start + s)

theorem mem_place (start : Nat) (a b : List (String × Nat)) (t : String) (s : Nat) :
    (⟨t, tellAfter start a, s⟩ : Placed) ∈ place start (a ++ (t, s) :: b) := by
  induction a generalizing start with
  | nil => simp [place, tellAfter]
  | cons x r ih =>
    obtain ⟨t', s'⟩ := x
    simp only [List.cons_append, place, tellAfter]
    exact List.mem_cons_of_mem _ (ih (start + s'))

/-! ### list plumbing -/

theorem firstSome_modFirst {α : Type} (g : TBox → Option α) (f : TBox → Option TBox)
    (h : ∀ x y, f x = some y → g y = g x) (t : List TBox) :
    firstSome g (modFirst f t) = firstSome g t := by
  induction t with
  | nil => rfl
  | cons x r ih =>
    simp only [modFirst]
    cases hf : f x with
    | none => simp only [firstSome, ih]
    | some y => simp only [firstSome, h x y hf]

theorem firstSome_insertAt {α : Type} (g : TBox → Option α) (p : TBox → Bool) (after : Bool)
    (b : TBox) (hb : g b = none) (t : List TBox) :
    firstSome g (insertAt p after b t) = firstSome g t := by
  induction t with
  | nil => rfl
  | cons x r ih =>
    simp only [insertAt]
    by_cases hp : p x = true
    · simp only [hp, if_true]
      cases after
      · simp [firstSome, hb]
      · simp only [if_true, firstSome, hb]
    · simp only [hp, Bool.false_eq_true, if_false, firstSome, ih]

theorem any_modFirst (q : TBox → Bool) (f : TBox → Option TBox)
    (h : ∀ x y, f x = some y → q y = q x) (t : List TBox) :
    (modFirst f t).any q = t.any q := by
  induction t with
  | nil => rfl
  | cons x r ih =>
    simp only [modFirst]
    cases hf : f x with
    | none => simp only [List.any_cons, ih]
    | some y => simp only [List.any_cons, h x y hf]

theorem any_insertAt (q p : TBox → Bool) (after : Bool) (b : TBox) (hb : q b = false)
    (t : List TBox) : (insertAt p after b t).any q = t.any q := by
  induction t with
  | nil => rfl
  | cons x r ih =>
    simp only [insertAt]
    by_cases hp : p x = true
    · simp only [hp, if_true]
      cases after <;> simp [List.any_cons, hb]
    · simp only [hp, Bool.false_eq_true, if_false, List.any_cons, ih]

theorem tboxes_modFirst (f : TBox → Option TBox)
    (h : ∀ x y, f x = some y → y.name = x.name ∧ y.size = x.size) (t : List TBox) :
    tboxes (modFirst f t) = tboxes t := by
  induction t with
  | nil => rfl
  | cons x r ih =>
    simp only [modFirst]
    cases hf : f x with
    | none =>
      simp only [tboxes, List.map_cons] at ih ⊢
      rw [ih]
    | some y =>
      obtain ⟨h1, h2⟩ := h x y hf
      simp only [tboxes, List.map_cons, h1, h2]

theorem offsetOf_modFirst (q : TBox → Bool) (f : TBox → Option TBox)
    (h : ∀ x y, f x = some y → q y = q x ∧ y.size = x.size) (t : List TBox) :
    offsetOf q (modFirst f t) = offsetOf q t := by
  induction t with
  | nil => rfl
  | cons x r ih =>
    simp only [modFirst]
    cases hf : f x with
    | none => simp only [offsetOf, ih]
    | some y =>
      obtain ⟨h1, h2⟩ := h x y hf
      simp only [offsetOf, h1, h2]

/-- the first `q` child is placed at `start + offsetOf q t` -/
theorem mem_place_offsetOf (q : TBox → Bool) (start : Nat) (t : List TBox) (h : t.any q = true) :
    ∃ x, x ∈ t ∧ q x = true ∧
      (⟨x.name, start + offsetOf q t, x.size⟩ : Placed) ∈ place start (tboxes t) := by
  induction t generalizing start with
  | nil => simp at h
  | cons x r ih =>
    by_cases hq : q x = true
    · refine ⟨x, List.mem_cons_self, hq, ?_⟩
      simp [offsetOf, hq, tboxes, place]
    · have hr : r.any q = true := by
        simp only [List.any_cons, Bool.or_eq_true] at h
        cases h with
        | inl h => exact absurd h hq
        | inr h => exact h
      obtain ⟨y, hy, hqy, hmem⟩ := ih (start + x.size) hr
      refine ⟨y, List.mem_cons_of_mem _ hy, hqy, ?_⟩
      simp only [offsetOf, hq, Bool.false_eq_true, if_false, tboxes, List.map_cons, place]
      rw [show start + (x.size + offsetOf q r) = start + x.size + offsetOf q r by omega]
      exact List.mem_cons_of_mem _ hmem

theorem count_pos_any (q : TBox → Bool) (t : List TBox) (h : 0 < count q t) : t.any q = true := by
  induction t with
  | nil => simp [count] at h
  | cons x r ih =>
    simp only [List.any_cons, Bool.or_eq_true]
    by_cases hq : q x = true
    · exact Or.inl hq
    · right
      apply ih
      simpa [count, List.filter_cons, hq] using h

/-! ### the late stages keep names and sizes (in-place rewrites of pass 2) -/

theorem fSetSaio1_keeps (p : Nat) (x y : TBox) (h : fSetSaio1 p x = some y) :
    y.name = x.name ∧ y.size = x.size ∧ isSenc y = isSenc x ∧ isTrun y = isTrun x ∧ isSaio y = isSaio x := by
  cases x with
  | saio v a l =>
    rcases l with _ | ⟨z, _ | ⟨z2, l2⟩⟩ <;> simp [fSetSaio1] at h <;> subst h <;>
      simp [TBox.name, TBox.size, isSenc, isTrun, isSaio]
  | _ => simp [fSetSaio1] at h

theorem fPostSaio_keeps (w : Nat) (hs bug : Bool) (x y : TBox) (h : fPostSaio w hs bug x = some y) :
    y.name = x.name ∧ y.size = x.size ∧ isSenc y = isSenc x ∧ isTrun y = isTrun x ∧ isSaio y = isSaio x := by
  cases x with
  | saio v a l =>
    rcases l with _ | ⟨z, _ | ⟨z2, l2⟩⟩ <;> simp [fPostSaio] at h <;> subst h <;>
      simp [TBox.name, TBox.size, isSenc, isTrun, isSaio]
  | _ => simp [fPostSaio] at h

theorem fPostTrun_keeps (b m : Nat) (x y : TBox) (h : fPostTrun b m x = some y) :
    y.name = x.name ∧ y.size = x.size ∧ isSenc y = isSenc x ∧ isTrun y = isTrun x ∧ isSaio y = isSaio x := by
  cases x with
  | trun dop fsf per sz d =>
    simp [fPostTrun] at h; subst h
    simp [TBox.name, TBox.size, isSenc, isTrun, isSaio]
  | _ => simp [fPostTrun] at h


/-! ### observables through the edit stages -/

theorem firstSome_trafTimed {α : Type} (g : TBox → Option α) (h1 : ∀ v t, g (.tfdt v t) = none)
    (o : Opts) (t : List TBox) : firstSome g (trafTimed o t) = firstSome g t := by
  unfold trafTimed setTfdt
  rw [firstSome_modFirst]
  · split
    · rfl
    · exact firstSome_insertAt g isTfhd true _ (h1 0 0) t
  · intro x y h
    cases x <;> simp [fSetTfdt] at h
    subst h
    simp [h1]

theorem firstSome_insertPiff {α : Type} (g : TBox → Option α) (h2 : ∀ o e, g (.piff o e) = none)
    (t : List TBox) : firstSome g (insertPiff t) = firstSome g t := by
  unfold insertPiff
  split
  · rfl
  · exact firstSome_insertAt g isSaiz false _ (h2 _ _) t

theorem firstSome_insertPiffs {α : Type} (g : TBox → Option α) (h2 : ∀ o e, g (.piff o e) = none)
    (n : Nat) (t : List TBox) : firstSome g (insertPiffs n t) = firstSome g t := by
  induction n generalizing t with
  | zero => rfl
  | succ n ih => simp only [insertPiffs, ih, firstSome_insertPiff g h2]

theorem firstSome_forceDop {α : Type} (g : TBox → Option α)
    (h3 : ∀ d f p s x, g (.trun true f p s x) = g (.trun d f p s x)) (t : List TBox) :
    firstSome g (forceDop t) = firstSome g t := by
  unfold forceDop
  apply firstSome_modFirst
  intro x y h
  cases x <;> simp [fForceDop] at h
  subst h
  exact h3 ..

theorem firstSome_resetSaio {α : Type} (g : TBox → Option α)
    (h4 : ∀ v a o1 o2, g (.saio v a o1) = g (.saio v a o2)) (t : List TBox) :
    firstSome g (resetSaio t) = firstSome g t := by
  unfold resetSaio
  apply firstSome_modFirst
  intro x y h
  cases x <;> simp [fResetSaio] at h
  subst h
  exact h4 ..

/-- an observable that none of the rewrite's edits can change -/
structure Stable {α : Type} (g : TBox → Option α) : Prop where
  tfdt : ∀ v t, g (.tfdt v t) = none
  piff : ∀ o e, g (.piff o e) = none
  trun : ∀ d1 d2 f p s x1 x2, g (.trun d1 f p s x1) = g (.trun d2 f p s x2)
  saio : ∀ v a o1 o2, g (.saio v a o1) = g (.saio v a o2)

theorem firstSome_trafEdited {α : Type} (g : TBox → Option α) (hg : Stable g) (o : Opts)
    (t : List TBox) : firstSome g (trafEdited o t) = firstSome g t := by
  unfold trafEdited
  simp only
  have h3 : ∀ d f p s x, g (.trun true f p s x) = g (.trun d f p s x) := fun d f p s x => hg.trun ..
  split
  · rw [firstSome_resetSaio g hg.saio, firstSome_forceDop g h3]
    split
    · rw [firstSome_insertPiffs g hg.piff, firstSome_trafTimed g hg.tfdt]
    · rw [firstSome_trafTimed g hg.tfdt]
  · rw [firstSome_forceDop g h3]
    split
    · rw [firstSome_insertPiffs g hg.piff, firstSome_trafTimed g hg.tfdt]
    · rw [firstSome_trafTimed g hg.tfdt]

theorem firstSome_setSaio1 {α : Type} (g : TBox → Option α)
    (hg : ∀ v a o1 o2, g (.saio v a o1) = g (.saio v a o2)) (p : Nat)
    (t : List TBox) : firstSome g (modFirst (fSetSaio1 p) t) = firstSome g t := by
  apply firstSome_modFirst
  intro x y h
  cases x with
  | saio v a l =>
    rcases l with _ | ⟨z, _ | ⟨z2, l2⟩⟩ <;> simp [fSetSaio1] at h <;> subst h
    · rfl
    · exact hg ..
    · rfl
  | _ => simp [fSetSaio1] at h

theorem firstSome_postSaio {α : Type} (g : TBox → Option α)
    (hg : ∀ v a o1 o2, g (.saio v a o1) = g (.saio v a o2)) (w : Nat) (hs bug : Bool)
    (t : List TBox) : firstSome g (modFirst (fPostSaio w hs bug) t) = firstSome g t := by
  apply firstSome_modFirst
  intro x y h
  cases x with
  | saio v a l =>
    rcases l with _ | ⟨z, _ | ⟨z2, l2⟩⟩ <;> simp [fPostSaio] at h <;> subst h
    · rfl
    · exact hg ..
    · rfl
  | _ => simp [fPostSaio] at h

theorem firstSome_postTrun {α : Type} (g : TBox → Option α)
    (h5 : ∀ d f p s x1 x2, g (.trun d f p s x1) = g (.trun d f p s x2)) (b m : Nat)
    (t : List TBox) : firstSome g (modFirst (fPostTrun b m) t) = firstSome g t := by
  apply firstSome_modFirst
  intro x y h
  cases x <;> simp [fPostTrun] at h
  subst h
  exact h5 ..

/-! `List.any` as an observable -/

def gIs (q : TBox → Bool) (x : TBox) : Option Unit := if q x then some () else none

theorem any_eq_firstSome (q : TBox → Bool) (t : List TBox) :
    t.any q = (firstSome (gIs q) t).isSome := by
  induction t with
  | nil => rfl
  | cons x r ih =>
    simp only [List.any_cons, firstSome, gIs]
    by_cases hq : q x = true
    · simp [hq]
    · simp [hq, ih]

theorem stable_isTrun : Stable (gIs isTrun) := by
  constructor <;> intros <;> simp [gIs, isTrun]
theorem stable_isSenc : Stable (gIs isSenc) := by
  constructor <;> intros <;> simp [gIs, isSenc]
theorem stable_isSaio : Stable (gIs isSaio) := by
  constructor <;> intros <;> simp [gIs, isSaio]
theorem stable_trunSizes : Stable gTrunSizes := by
  constructor <;> intros <;> simp [gTrunSizes]
theorem stable_sencEntries : Stable gSencEntries := by
  constructor <;> intros <;> simp [gSencEntries]
theorem stable_sencRel : Stable gSencRel := by
  constructor <;> intros <;> simp [gSencRel]


/-! ### the saio offset through pass 1 / pass 2 -/

theorem saioOffsets_resetSaio (t : List TBox) (h : t.any isSaio = true) :
    saioOffsets (resetSaio t) = some [0] := by
  induction t with
  | nil => simp at h
  | cons x r ih =>
    cases x with
    | saio v a l => simp [resetSaio, modFirst, fResetSaio, saioOffsets, firstSome, gSaioOffsets]
    | _ =>
      simp only [List.any_cons, isSaio, Bool.false_or] at h
      simpa [resetSaio, modFirst, fResetSaio, saioOffsets, firstSome, gSaioOffsets] using ih h

theorem saioOffsets_setSaio1 (p x : Nat) (t : List TBox) (h : saioOffsets t = some [x]) :
    saioOffsets (modFirst (fSetSaio1 p) t) = some [p] := by
  induction t with
  | nil => simp [saioOffsets, firstSome] at h
  | cons y r ih =>
    cases y with
    | saio v a l =>
      simp [saioOffsets, firstSome, gSaioOffsets] at h
      subst h
      simp [modFirst, fSetSaio1, saioOffsets, firstSome, gSaioOffsets]
    | _ =>
      simp only [saioOffsets, firstSome, gSaioOffsets] at h
      simpa [modFirst, fSetSaio1, saioOffsets, firstSome, gSaioOffsets] using ih h

theorem saioOffsets_postSaio (w x : Nat) (hs bug : Bool) (t : List TBox)
    (h : saioOffsets t = some [x]) :
    saioOffsets (modFirst (fPostSaio w hs bug) t) =
      some [if hs && decide (x ≠ w) && !bug then w else x] := by
  induction t with
  | nil => simp [saioOffsets, firstSome] at h
  | cons y r ih =>
    cases y with
    | saio v a l =>
      simp [saioOffsets, firstSome, gSaioOffsets] at h
      subst h
      simp [modFirst, fPostSaio, saioOffsets, firstSome, gSaioOffsets]
    | _ =>
      simp only [saioOffsets, firstSome, gSaioOffsets] at h
      simpa [modFirst, fPostSaio, saioOffsets, firstSome, gSaioOffsets] using ih h

/-- stages 1-4 of `trafEdited` leave the saio offsets alone -/
theorem saioOffsets_edit14 (o : Opts) (t : List TBox) :
    saioOffsets (forceDop (if o.encrypted then insertPiffs o.piffs (trafTimed o t) else trafTimed o t))
      = saioOffsets t := by
  unfold saioOffsets
  rw [firstSome_forceDop _ (by intros; rfl)]
  split
  · rw [firstSome_insertPiffs _ (by intros; rfl), firstSome_trafTimed _ (by intros; rfl)]
  · rw [firstSome_trafTimed _ (by intros; rfl)]

/-! ### the trun data offset after `post_encode` -/

theorem trunOffset_postTrun (b m : Nat) (t : List TBox) (h : t.any isTrun = true) :
    (b : Int) + trunOffset (modFirst (fPostTrun b m) t) = (m : Int) := by
  induction t with
  | nil => simp at h
  | cons x r ih =>
    cases x with
    | trun dop fsf per sz d =>
      simp only [modFirst, fPostTrun, trunOffset, firstSome, gTrunOffset, Option.getD_some]
      split <;> omega
    | _ =>
      simp only [List.any_cons, isTrun, Bool.false_or] at h
      simpa [modFirst, fPostTrun, trunOffset, firstSome, gTrunOffset] using ih h

theorem trunDop_forceDop (t : List TBox) (h : t.any isTrun = true) : trunDop (forceDop t) = true := by
  induction t with
  | nil => simp at h
  | cons x r ih =>
    cases x with
    | trun dop fsf per sz d => simp [forceDop, modFirst, fForceDop, trunDop, firstSome, gTrunDop]
    | _ =>
      simp only [List.any_cons, isTrun, Bool.false_or] at h
      simpa [forceDop, modFirst, fForceDop, trunDop, firstSome, gTrunDop] using ih h

/-! ### PIFF clones carry the senc's entries -/

theorem mem_modFirst (f : TBox → Option TBox) (t : List TBox) (y : TBox) (h : y ∈ modFirst f t) :
    y ∈ t ∨ ∃ x, x ∈ t ∧ f x = some y := by
  induction t with
  | nil => simp [modFirst] at h
  | cons x r ih =>
    simp only [modFirst] at h
    cases hf : f x with
    | none =>
      simp only [hf, List.mem_cons] at h
      cases h with
      | inl h => exact Or.inl (h ▸ List.mem_cons_self)
      | inr h =>
        cases ih h with
        | inl h' => exact Or.inl (List.mem_cons_of_mem _ h')
        | inr h' =>
          obtain ⟨z, hz, hfz⟩ := h'
          exact Or.inr ⟨z, List.mem_cons_of_mem _ hz, hfz⟩
    | some z =>
      simp only [hf, List.mem_cons] at h
      cases h with
      | inl h => exact Or.inr ⟨x, List.mem_cons_self, h ▸ hf⟩
      | inr h => exact Or.inl (List.mem_cons_of_mem _ h)

theorem mem_insertAt (p : TBox → Bool) (after : Bool) (b : TBox) (t : List TBox) (y : TBox)
    (h : y ∈ insertAt p after b t) : y = b ∨ y ∈ t := by
  induction t with
  | nil => simp [insertAt] at h
  | cons x r ih =>
    simp only [insertAt] at h
    by_cases hp : p x = true
    · simp only [hp, if_true] at h
      cases after <;> simp at h <;> rcases h with h | h | h <;> simp [h]
    · simp only [hp, Bool.false_eq_true, if_false, List.mem_cons] at h
      cases h with
      | inl h => exact Or.inr (h ▸ List.mem_cons_self)
      | inr h =>
        cases ih h with
        | inl h' => exact Or.inl h'
        | inr h' => exact Or.inr (List.mem_cons_of_mem _ h')


/-! ### in-place patches and their boxes -/

theorem trun_box_bound (start : Nat) (t : List TBox) (h : t.any isTrun = true)
    (hd : trunDop t = true) :
    ∃ b, b ∈ place start (tboxes t) ∧ b.typ = "trun" ∧ b.pos = start + offsetOf isTrun t ∧
      20 + b2n (trunFsf t) 4 ≤ b.size := by
  induction t generalizing start with
  | nil => simp at h
  | cons x r ih =>
    cases x with
    | trun dop fsf per sz d =>
      simp only [trunDop, firstSome, gTrunDop, Option.getD_some] at hd
      subst hd
      refine ⟨⟨"trun", start, TBox.size (.trun true fsf per sz d)⟩, ?_, rfl, ?_, ?_⟩
      · simp [tboxes, place, TBox.name]
      · simp [offsetOf, isTrun]
      · simp only [trunFsf, firstSome, gTrunFsf, Option.getD_some, TBox.size, b2n, if_true]
        generalize 4 * per * sz.length = k
        cases fsf <;> simp <;> omega
    | _ =>
      simp only [List.any_cons, isTrun, Bool.false_or] at h
      have hd' : trunDop r = true := by simpa [trunDop, firstSome, gTrunDop] using hd
      obtain ⟨b, hb, ht, hp, hs⟩ := ih (start + TBox.size _) h hd'
      refine ⟨b, ?_, ht, ?_, ?_⟩
      · simp only [tboxes, List.map_cons, place]
        exact List.mem_cons_of_mem _ hb
      · simp only [offsetOf, isTrun, Bool.false_eq_true, if_false]
        omega
      · simpa [trunFsf, firstSome, gTrunFsf] using hs

theorem gSaioSize_none (x : TBox) (h : isSaio x = false) : gSaioSize x = none := by
  cases x <;> simp [isSaio] at h <;> rfl

theorem saio_box_exact (start : Nat) (t : List TBox) (h : t.any isSaio = true) :
    (⟨"saio", start + offsetOf isSaio t, (firstSome gSaioSize t).getD 0⟩ : Placed)
      ∈ place start (tboxes t) := by
  induction t generalizing start with
  | nil => simp at h
  | cons x r ih =>
    by_cases hx : isSaio x = true
    · cases x <;> simp [isSaio] at hx
      simp [tboxes, place, TBox.name, offsetOf, isSaio, firstSome, gSaioSize]
    · have hx' : isSaio x = false := by simpa using hx
      simp only [List.any_cons, hx', Bool.false_or] at h
      have := ih (start + x.size) h
      simp only [tboxes, List.map_cons, place, offsetOf, hx', Bool.false_eq_true, if_false,
        firstSome, gSaioSize_none x hx']
      rw [← Nat.add_assoc]
      exact List.mem_cons_of_mem _ this

theorem modFirst_id (f : TBox → Option TBox) (t : List TBox) (h : ∀ x, x ∈ t → f x = none) :
    modFirst f t = t := by
  induction t with
  | nil => rfl
  | cons x r ih =>
    simp only [modFirst, h x List.mem_cons_self]
    rw [ih (fun y hy => h y (List.mem_cons_of_mem _ hy))]

theorem postSaio_noop (w : Nat) (hs bug : Bool) (t : List TBox) (h : t.any isSaio = false) :
    modFirst (fPostSaio w hs bug) t = t := by
  apply modFirst_id
  intro x hx
  cases x with
  | saio v a l =>
    have : t.any isSaio = true := List.any_eq_true.mpr ⟨_, hx, rfl⟩
    simp [h] at this
  | _ => rfl

/-! ### PIFF clones carry the entries of the senc -/

/-- every PIFF box of `t` is a clone of the (first) senc described by `se` -/
def PiffsFrom (se : Option (Bool × List Nat)) (t : List TBox) : Prop :=
  ∀ o e, TBox.piff o e ∈ t → se = some (o, e)

theorem piffs_modFirst (se : Option (Bool × List Nat)) (f : TBox → Option TBox)
    (hf : ∀ x y, f x = some y → isPiff y = false) (t : List TBox) (h : PiffsFrom se t) :
    PiffsFrom se (modFirst f t) := by
  intro o e hm
  cases mem_modFirst f t _ hm with
  | inl h' => exact h o e h'
  | inr h' =>
    obtain ⟨x, _, hx⟩ := h'
    have := hf x _ hx
    simp [isPiff] at this

theorem piffs_insertAt (se : Option (Bool × List Nat)) (p : TBox → Bool) (after : Bool) (b : TBox)
    (hb : ∀ o e, b = .piff o e → se = some (o, e)) (t : List TBox) (h : PiffsFrom se t) :
    PiffsFrom se (insertAt p after b t) := by
  intro o e hm
  cases mem_insertAt p after b t _ hm with
  | inl h' => exact hb o e h'.symm
  | inr h' => exact h o e h'

theorem stable_gSenc : Stable gSenc := by
  constructor <;> intros <;> simp [gSenc]

theorem piffs_insertPiffs (se : Option (Bool × List Nat)) (n : Nat) (t : List TBox)
    (hs : firstSenc t = se) (h : PiffsFrom se t) : PiffsFrom se (insertPiffs n t) := by
  induction n generalizing t with
  | zero => exact h
  | succ n ih =>
    simp only [insertPiffs]
    apply ih
    · unfold firstSenc at hs ⊢
      rw [firstSome_insertPiff gSenc stable_gSenc.piff, hs]
    · unfold insertPiff
      split
      · exact h
      · rename_i o e heq
        apply piffs_insertAt
        · intro o' e' hb
          cases hb
          rw [← hs, heq]
        · exact h

theorem count_zero_none (q : TBox → Bool) (t : List TBox) (h : count q t = 0) :
    ∀ x, x ∈ t → q x = false := by
  intro x hx
  by_cases hq : q x = true
  · have : x ∈ t.filter q := List.mem_filter.mpr ⟨hx, hq⟩
    simp only [count] at h
    have := List.length_pos_of_mem this
    omega
  · simpa using hq


/-! ### the three late stages together -/

/-- pass 1 saio value (when reset), `saio.post_encode`, `trun.post_encode` -/
def late (c : Prop) [Decidable c] (p w b m : Nat) (hs bug : Bool) (t : List TBox) : List TBox :=
  modFirst (fPostTrun b m) (modFirst (fPostSaio w hs bug) (if c then modFirst (fSetSaio1 p) t else t))

/-- the late stages only touch the saio offsets and the trun data offset -/
theorem firstSome_late' {α : Type} (g : TBox → Option α)
    (hsaio : ∀ v a o1 o2, g (.saio v a o1) = g (.saio v a o2))
    (htrun : ∀ d f p s x1 x2, g (.trun d f p s x1) = g (.trun d f p s x2))
    (c : Prop) [Decidable c] (p w b m : Nat) (hs bug : Bool) (t : List TBox) :
    firstSome g (late c p w b m hs bug t) = firstSome g t := by
  unfold late
  rw [firstSome_postTrun g htrun, firstSome_postSaio g hsaio]
  split
  · exact firstSome_setSaio1 g hsaio p t
  · rfl

theorem firstSome_late {α : Type} (g : TBox → Option α) (hg : Stable g) (c : Prop) [Decidable c]
    (p w b m : Nat) (hs bug : Bool) (t : List TBox) :
    firstSome g (late c p w b m hs bug t) = firstSome g t :=
  firstSome_late' g hg.saio (fun d f p s x1 x2 => hg.trun d d f p s x1 x2) c p w b m hs bug t

theorem trunDop_trafEdited (o : Opts) (t : List TBox) (h : t.any isTrun = true) :
    trunDop (trafEdited o t) = true := by
  have h2 : (if o.encrypted then insertPiffs o.piffs (trafTimed o t) else trafTimed o t).any isTrun
      = true := by
    rw [any_eq_firstSome]
    split
    · rw [firstSome_insertPiffs _ stable_isTrun.piff, firstSome_trafTimed _ stable_isTrun.tfdt,
        ← any_eq_firstSome]
      exact h
    · rw [firstSome_trafTimed _ stable_isTrun.tfdt, ← any_eq_firstSome]
      exact h
  unfold trafEdited
  simp only
  split
  · unfold trunDop
    rw [firstSome_resetSaio _ (by intros; rfl)]
    exact trunDop_forceDop _ h2
  · exact trunDop_forceDop _ h2

theorem tboxes_late (c : Prop) [Decidable c] (p w b m : Nat) (hs bug : Bool) (t : List TBox) :
    tboxes (late c p w b m hs bug t) = tboxes t := by
  unfold late
  rw [tboxes_modFirst _ (fun x y h => ⟨(fPostTrun_keeps b m x y h).1, (fPostTrun_keeps b m x y h).2.1⟩),
    tboxes_modFirst _ (fun x y h => ⟨(fPostSaio_keeps w hs bug x y h).1, (fPostSaio_keeps w hs bug x y h).2.1⟩)]
  split
  · exact tboxes_modFirst _ (fun x y h => ⟨(fSetSaio1_keeps p x y h).1, (fSetSaio1_keeps p x y h).2.1⟩) t
  · rfl

theorem offsetOf_late_senc (c : Prop) [Decidable c] (p w b m : Nat) (hs bug : Bool) (t : List TBox) :
    offsetOf isSenc (late c p w b m hs bug t) = offsetOf isSenc t := by
  unfold late
  rw [offsetOf_modFirst _ _ (fun x y h => ⟨(fPostTrun_keeps b m x y h).2.2.1, (fPostTrun_keeps b m x y h).2.1⟩),
    offsetOf_modFirst _ _ (fun x y h => ⟨(fPostSaio_keeps w hs bug x y h).2.2.1, (fPostSaio_keeps w hs bug x y h).2.1⟩)]
  split
  · exact offsetOf_modFirst _ _ (fun x y h => ⟨(fSetSaio1_keeps p x y h).2.2.1, (fSetSaio1_keeps p x y h).2.1⟩) t
  · rfl

theorem any_late (q : TBox → Bool) (hq : Stable (gIs q)) (c : Prop) [Decidable c]
    (p w b m : Nat) (hs bug : Bool) (t : List TBox) :
    (late c p w b m hs bug t).any q = t.any q := by
  rw [any_eq_firstSome, any_eq_firstSome, firstSome_late _ hq]

theorem any_trafEdited (q : TBox → Bool) (hq : Stable (gIs q)) (o : Opts) (t : List TBox) :
    (trafEdited o t).any q = t.any q := by
  rw [any_eq_firstSome, any_eq_firstSome, firstSome_trafEdited _ hq]

/-- the saio offsets in the final list, when pass 1 saw exactly one offset -/
theorem saioOffsets_late (c : Prop) [Decidable c] (p w b m x : Nat) (hs bug : Bool) (t : List TBox)
    (h : saioOffsets t = some [x]) :
    saioOffsets (late c p w b m hs bug t) =
      some [if hs && decide ((if c then p else x) ≠ w) && !bug then w else (if c then p else x)] := by
  unfold late saioOffsets
  rw [firstSome_postTrun _ (by intros; rfl)]
  by_cases hc : c
  · simp only [hc, if_true]
    exact saioOffsets_postSaio w p hs bug _ (saioOffsets_setSaio1 p x t h)
  · simp only [hc, if_false]
    exact saioOffsets_postSaio w x hs bug _ h

theorem trunOffset_late (c : Prop) [Decidable c] (p w b m : Nat) (hs bug : Bool) (t : List TBox)
    (h : t.any isTrun = true) : (b : Int) + trunOffset (late c p w b m hs bug t) = (m : Int) := by
  unfold late
  apply trunOffset_postTrun
  rw [any_modFirst isTrun _ (fun x y h => (fPostSaio_keeps w hs bug x y h).2.2.2.1)]
  split
  · rw [any_modFirst isTrun _ (fun x y h => (fSetSaio1_keeps p x y h).2.2.2.1)]
    exact h
  · exact h

theorem rewrite_traf (o : Opts) (s : Seg) : ∃ (c : Prop) (_ : Decidable c) (p w m : Nat),
    (rewrite o s).traf = late c p w (rewrite o s).base m (hasSenc (trafEdited o s.traf)) o.bugSaio (trafEdited o s.traf) :=
  ⟨_, inferInstance, _, _, _, rfl⟩

/-! ### consequences of `shapeOk` -/

theorem shape_trun (s : Seg) (h : shapeOk s = true) : s.traf.any isTrun = true := by
  apply count_pos_any
  simp only [shapeOk, Bool.and_eq_true, beq_iff_eq] at h
  omega

theorem shape_nopiff (s : Seg) (h : shapeOk s = true) : PiffsFrom (firstSenc s.traf) s.traf := by
  intro o e hm
  simp only [shapeOk, Bool.and_eq_true, beq_iff_eq] at h
  have := count_zero_none isPiff s.traf h.1.2 _ hm
  simp [isPiff] at this


/-! ### names for the intermediate values of `rewrite` -/

def ePre (o : Opts) (s : Seg) : List (String × Nat) :=
  opqs (eraseSidx s.pre ++ o.newEmsg.map (fun n => (⟨"emsg", n⟩ : Opq)))
def eMoofPos (o : Opts) (s : Seg) : Nat := tellAfter 0 (ePre o s)
def eTrafPos (o : Opts) (s : Seg) : Nat := tellAfter (eMoofPos o s + 8) (opqs s.moofPre)
def eT (o : Opts) (s : Seg) : List TBox := trafEdited o s.traf
def eTrafEnd (o : Opts) (s : Seg) : Nat := tellAfter (eTrafPos o s + 8) (tboxes (eT o s))
def eMoofEnd (o : Opts) (s : Seg) : Nat := tellAfter (eTrafEnd o s) (opqs s.moofPost)
def eWant (o : Opts) (s : Seg) : Nat :=
  eTrafPos o s + 8 + offsetOf isSenc (eT o s) + sencRel (eT o s) - eMoofPos o s
def eMdatStart (o : Opts) (s : Seg) : Nat :=
  eMoofPos o s + (eMoofEnd o s - eMoofPos o s) + s.mdatHdr

theorem rewrite_traf_eq (o : Opts) (s : Seg) : ∃ p,
    (rewrite o s).traf = late (saioReset o s.traf = true) p (eWant o s) (eMoofPos o s)
      (eMdatStart o s) (hasSenc (eT o s)) o.bugSaio (eT o s) := ⟨_, rfl⟩

theorem rewrite_base (o : Opts) (s : Seg) : (rewrite o s).base = eMoofPos o s := rfl
theorem rewrite_moofPos (o : Opts) (s : Seg) : (rewrite o s).moofPos = eMoofPos o s := rfl
theorem rewrite_trafPos (o : Opts) (s : Seg) : (rewrite o s).trafPos = eTrafPos o s := rfl
theorem rewrite_payloadStart (o : Opts) (s : Seg) :
    (rewrite o s).payloadStart = eMoofEnd o s + s.mdatHdr := rfl
theorem rewrite_mdatPos (o : Opts) (s : Seg) : (rewrite o s).mdatPos = eMoofEnd o s := rfl
theorem rewrite_mdatSize (o : Opts) (s : Seg) :
    (rewrite o s).mdatSize = s.mdatHdr + s.payload.length := rfl
theorem rewrite_moofSize (o : Opts) (s : Seg) :
    (rewrite o s).moofSize = eMoofEnd o s - eMoofPos o s := rfl
theorem rewrite_trafKids (o : Opts) (s : Seg) :
    (rewrite o s).trafKids = place (eTrafPos o s + 8) (tboxes (rewrite o s).traf) := rfl

theorem eMoofPos_le_trafPos (o : Opts) (s : Seg) : eMoofPos o s + 8 ≤ eTrafPos o s :=
  tellAfter_ge _ _
theorem eTrafPos_le_end (o : Opts) (s : Seg) : eTrafPos o s + 8 ≤ eTrafEnd o s :=
  tellAfter_ge _ _
theorem eTrafEnd_le_moofEnd (o : Opts) (s : Seg) : eTrafEnd o s ≤ eMoofEnd o s :=
  tellAfter_ge _ _

theorem eMdatStart_eq (o : Opts) (s : Seg) : eMdatStart o s = eMoofEnd o s + s.mdatHdr := by
  have h1 := eMoofPos_le_trafPos o s
  have h2 := eTrafPos_le_end o s
  have h3 := eTrafEnd_le_moofEnd o s
  unfold eMdatStart
  omega


/-! ### PIFF clones through all stages -/

theorem sencEntries_firstSenc (t : List TBox) : sencEntries t = (firstSenc t).map (·.2) := by
  unfold sencEntries firstSenc
  induction t with
  | nil => rfl
  | cons x r ih => cases x <;> simp [firstSome, gSencEntries, gSenc, ih]

theorem piffs_trafEdited (o : Opts) (t : List TBox) (h : PiffsFrom (firstSenc t) t) :
    PiffsFrom (firstSenc t) (trafEdited o t) := by
  have hT : PiffsFrom (firstSenc t) (trafTimed o t) := by
    unfold trafTimed setTfdt
    apply piffs_modFirst
    · intro x y hf
      cases x <;> simp [fSetTfdt] at hf
      subst hf; rfl
    · split
      · exact h
      · apply piffs_insertAt
        · intro o' e' hb; cases hb
        · exact h
  have h2 : PiffsFrom (firstSenc t)
      (if o.encrypted then insertPiffs o.piffs (trafTimed o t) else trafTimed o t) := by
    split
    · apply piffs_insertPiffs
      · unfold firstSenc
        exact firstSome_trafTimed gSenc stable_gSenc.tfdt o t
      · exact hT
    · exact hT
  have h3 : PiffsFrom (firstSenc t)
      (forceDop (if o.encrypted then insertPiffs o.piffs (trafTimed o t) else trafTimed o t)) := by
    apply piffs_modFirst _ _ _ _ h2
    intro x y hf
    cases x <;> simp [fForceDop] at hf
    subst hf; rfl
  unfold trafEdited
  simp only
  split
  · apply piffs_modFirst _ _ _ _ h3
    intro x y hf
    cases x <;> simp [fResetSaio] at hf
    subst hf; rfl
  · exact h3

theorem piffs_late (se : Option (Bool × List Nat)) (c : Prop) [Decidable c] (p w b m : Nat)
    (hs bug : Bool) (t : List TBox) (h : PiffsFrom se t) :
    PiffsFrom se (late c p w b m hs bug t) := by
  unfold late
  apply piffs_modFirst
  · intro x y hf
    cases x <;> simp [fPostTrun] at hf
    subst hf; rfl
  apply piffs_modFirst
  · intro x y hf
    cases x with
    | saio v a l =>
      rcases l with _ | ⟨z, _ | ⟨z2, l2⟩⟩ <;> simp [fPostSaio] at hf <;> subst hf <;> rfl
    | _ => simp [fPostSaio] at hf
  split
  · apply piffs_modFirst _ _ _ _ h
    intro x y hf
    cases x with
    | saio v a l =>
      rcases l with _ | ⟨z, _ | ⟨z2, l2⟩⟩ <;> simp [fSetSaio1] at hf <;> subst hf <;> rfl
    | _ => simp [fSetSaio1] at hf
  · exact h


/-! ### `bugs=saio` touches nothing but the saio offsets -/

/-- forget the saio offsets -/
def eraseSaio : TBox → TBox
  | .saio v a _ => .saio v a []
  | x => x

theorem map_modFirst_erase (e : TBox → TBox) (f : TBox → Option TBox)
    (h : ∀ x y, f x = some y → e y = e x) (t : List TBox) :
    (modFirst f t).map e = t.map e := by
  induction t with
  | nil => rfl
  | cons x r ih =>
    simp only [modFirst]
    cases hf : f x with
    | none => simp only [List.map_cons, ih]
    | some y => simp only [List.map_cons, h x y hf]

theorem map_modFirst_comm (e : TBox → TBox) (f : TBox → Option TBox)
    (h : ∀ x, f (e x) = (f x).map e) (t : List TBox) :
    (modFirst f t).map e = modFirst f (t.map e) := by
  induction t with
  | nil => rfl
  | cons x r ih =>
    simp only [modFirst, List.map_cons]
    rw [h x]
    cases hf : f x with
    | none => simp only [Option.map_none, List.map_cons, ih]
    | some y => simp only [Option.map_some, List.map_cons]

theorem late_erase (c : Prop) [Decidable c] (p w b m : Nat) (hs bug : Bool) (t : List TBox) :
    (late c p w b m hs bug t).map eraseSaio = modFirst (fPostTrun b m) (t.map eraseSaio) := by
  unfold late
  rw [map_modFirst_comm]
  · congr 1
    rw [map_modFirst_erase]
    · split
      · apply map_modFirst_erase
        intro x y h
        cases x with
        | saio v a l =>
          rcases l with _ | ⟨z, _ | ⟨z2, l2⟩⟩ <;> simp [fSetSaio1] at h <;> subst h <;> rfl
        | _ => simp [fSetSaio1] at h
      · rfl
    · intro x y h
      cases x with
      | saio v a l =>
        rcases l with _ | ⟨z, _ | ⟨z2, l2⟩⟩ <;> simp [fPostSaio] at h <;> subst h <;> rfl
      | _ => simp [fPostSaio] at h
  · intro x
    cases x <;> rfl

/-! ### the in-place rewrites of pass 2 -/

theorem any_saio_of_changed (w : Nat) (hs bug : Bool) (t : List TBox)
    (h : saioOffsets (modFirst (fPostSaio w hs bug) t) ≠ saioOffsets t) : t.any isSaio = true := by
  cases hany : t.any isSaio with
  | true => rfl
  | false =>
    rw [postSaio_noop w hs bug t hany] at h
    exact absurd rfl h

theorem mem_ite_singleton {α : Type} (c : Prop) [Decidable c] (x p : α)
    (h : p ∈ (if c then [x] else [])) : c ∧ p = x := by
  split at h
  · exact ⟨‹c›, by simpa using h⟩
  · simp at h

theorem rewrite_patches_eq (o : Opts) (s : Seg) : ∃ p1 : Nat,
    (rewrite o s).patches =
      (if trunOffset (rewrite o s).traf ≠ trunOffset (eT o s)
        then [(eTrafPos o s + 8 + offsetOf isTrun (eT o s) + 12, 8 + b2n (trunFsf (eT o s)) 4)] else []) ++
      (if saioOffsets (modFirst (fPostSaio (eWant o s) (hasSenc (eT o s)) o.bugSaio)
            (if saioReset o s.traf = true then modFirst (fSetSaio1 p1) (eT o s) else eT o s)) ≠
          saioOffsets (if saioReset o s.traf = true then modFirst (fSetSaio1 p1) (eT o s) else eT o s)
        then [(eTrafPos o s + 8 + offsetOf isSaio (eT o s), (firstSome gSaioSize (eT o s)).getD 0)] else []) :=
  ⟨_, rfl⟩

theorem rewrite_patches_cases (o : Opts) (s : Seg) (p : Nat × Nat)
    (h : p ∈ (rewrite o s).patches) :
    p = (eTrafPos o s + 8 + offsetOf isTrun (eT o s) + 12, 8 + b2n (trunFsf (eT o s)) 4) ∨
    (p = (eTrafPos o s + 8 + offsetOf isSaio (eT o s), (firstSome gSaioSize (eT o s)).getD 0) ∧
      (eT o s).any isSaio = true) := by
  obtain ⟨p1, hp⟩ := rewrite_patches_eq o s
  rw [hp, List.mem_append] at h
  cases h with
  | inl h => exact Or.inl (mem_ite_singleton _ _ _ h).2
  | inr h =>
    obtain ⟨hne, hp'⟩ := mem_ite_singleton _ _ _ h
    refine Or.inr ⟨hp', ?_⟩
    have := any_saio_of_changed _ _ _ _ hne
    split at this
    · rw [any_modFirst isSaio _ (fun x y h => (fSetSaio1_keeps _ x y h).2.2.2.2)] at this
      exact this
    · exact this


/-! ### a concrete instance (used by the non-vacuity examples of `Props/C03.lean`) -/

/-- a stored encrypted segment indexed from its styp: sidx in front of the moof, no
tfdt, explicit base, trun without data_offset field, a saio offset pointing nowhere -/
def exSeg : Seg :=
  { pre := [⟨"styp", 24⟩, ⟨"sidx", 44⟩], moofPre := [⟨"mfhd", 16⟩],
    traf := [.tfhd true 1, .other "saiz" 17, .saio 0 false [999], .senc false [16, 16, 16],
             .trun false true 2 [10, 20, 30] 7],
    moofPost := [], mdatHdr := 8, payload := List.replicate 60 0, post := [⟨"styp", 24⟩] }

/-- a request in the far future (64-bit tfdt), one emsg box, one PIFF clone -/
def exOpts (bug : Bool) : Opts :=
  { newTime := 2 ^ 32 + 5, newEmsg := [50], encrypted := true, piffs := 1, bugSaio := bug }

/-- outside `shapeOk`: a traf without trun -/
def exNoTrun : Seg := { exSeg with traf := [.tfhd false 0] }

end DashLive.SegmentRewrite
