import DashLive.Model.LiveTiming
import DashLive.Lemmas.Calendar
/-!
# Helper lemmas for C08 (live timing)

Everything is integer arithmetic over microseconds.  Linear facts are closed by
`omega` after unfolding the literal constants; the only non-linear step (the
division by the *variable* update period) is isolated in `quant_spec`/`quant_mono`.
-/
namespace DashLive.LiveTiming
open DashLive.Calendar

/-! ### `replace(microsecond=0)` -/

theorem floorSec_le (t : Int) : floorSec t ≤ t := by
  unfold floorSec usPerSec; omega

theorem floorSec_gt (t : Int) : t - usPerSec < floorSec t := by
  unfold floorSec usPerSec; omega

theorem floorSec_whole (t : Int) : floorSec t % usPerSec = 0 := by
  unfold floorSec usPerSec; omega

theorem floorSec_of_whole (t : Int) (h : t % usPerSec = 0) : floorSec t = t := by
  unfold floorSec usPerSec at *; omega

theorem floorSec_mono {a b : Int} (h : a ≤ b) : floorSec a ≤ floorSec b := by
  unfold floorSec usPerSec; omega

/-- a whole-second instant not after `t` is not after `floorSec t` -/
theorem le_floorSec {a t : Int} (ha : a % usPerSec = 0) (h : a ≤ t) : a ≤ floorSec t := by
  unfold floorSec usPerSec at *; omega

/-! ### day, month and year starts -/

theorem dayStart_le {now : Int} (h : 0 ≤ now) : dayStart now ≤ now := by
  unfold dayStart dayOf dayUs; omega

theorem lt_dayStart_add {now : Int} (_h : 0 ≤ now) : now < dayStart now + dayUs := by
  unfold dayStart dayOf dayUs; omega

theorem dayStart_eq {now : Int} (h : 0 ≤ now) : dayStart now = now - now % dayUs := by
  unfold dayStart dayOf dayUs; omega

theorem monthStart_le_dayStart (now : Int) : monthStart now ≤ dayStart now := by
  unfold monthStart dayStart dayUs
  have : (monthStartDay (dayOf now) : Int) ≤ (dayOf now : Int) :=
    Int.ofNat_le.mpr (monthStartDay_le _)
  omega

theorem yearStart_le_monthStart (now : Int) : yearStart now ≤ monthStart now := by
  unfold monthStart yearStart dayUs
  have : (yearStartDay (dayOf now) : Int) ≤ (monthStartDay (dayOf now) : Int) :=
    Int.ofNat_le.mpr (yearStartDay_le_monthStartDay _)
  omega

theorem yearStart_le_dayStart (now : Int) : yearStart now ≤ dayStart now :=
  Int.le_trans (yearStart_le_monthStart now) (monthStart_le_dayStart now)

/-- a start that is a whole number of days: either the day of `now` itself or
at least one whole day earlier -/
theorem dayMultiple_cases (k : Nat) (now : Int) (hk : k ≤ dayOf now) :
    (k : Int) * dayUs = dayStart now ∨ (k : Int) * dayUs + dayUs ≤ dayStart now := by
  unfold dayStart dayUs
  have : (k : Int) ≤ (dayOf now : Int) := Int.ofNat_le.mpr hk
  omega

/-! ### the individual steps of `calculate_live_params` -/

theorem initialDepth_pos (d : Option Int) : 0 < initialDepth true d := by
  unfold initialDepth defaultDepth
  cases d with
  | none => simp
  | some d =>
    simp only [true_and]
    split <;> omega

theorem clampDepth_bounds {e depth : Int} (he : 0 ≤ e) (hd : 0 < depth) :
    0 ≤ clampDepth e depth ∧ clampDepth e depth * usPerSec ≤ e ∧ clampDepth e depth ≤ depth := by
  unfold clampDepth
  split
  · rw [Int.tdiv_eq_ediv_of_nonneg he]
    unfold usPerSec at *
    omega
  · unfold usPerSec at *; omega

theorem roundHalfEven_pos_iff (n d : Nat) (hd : 0 < d) : 1 ≤ roundHalfEven n d ↔ d < 2 * n := by
  simp only [roundHalfEven]
  have h1 := Nat.div_add_mod n d
  have h2 := Nat.mod_lt n hd
  by_cases hq : n / d = 0
  · have hr : n % d = n := by rw [hq] at h1; simpa using h1
    rw [hq, hr]
    by_cases c1 : 2 * n < d
    · rw [if_pos c1]; omega
    · rw [if_neg c1]
      by_cases c2 : d < 2 * n
      · rw [if_pos c2]; omega
      · rw [if_neg c2]; simp; omega
  · have hqq : 1 ≤ n / d := Nat.pos_of_ne_zero hq
    have hle : d ≤ d * (n / d) := Nat.le_mul_of_pos_right d hqq
    generalize n / d = q at *
    generalize n % d = r at *
    constructor
    · intro _; omega
    · intro _
      by_cases c1 : 2 * r < d
      · rw [if_pos c1]; exact hqq
      · rw [if_neg c1]
        by_cases c2 : d < 2 * r
        · rw [if_pos c2]; omega
        · rw [if_neg c2]
          by_cases c3 : q % 2 = 0
          · rw [if_pos c3]; exact hqq
          · rw [if_neg c3]; omega

theorem defaultMup_pos (r : Ref) : 1 ≤ defaultMup true r := by
  unfold defaultMup
  simp only [if_true]
  omega

theorem effectiveMup_pos {r : Ref} {m : Option Int} {p : Int}
    (h : effectiveMup true r m = some p) : 0 < p := by
  unfold effectiveMup at h
  cases m with
  | none =>
    simp only [Option.some.injEq] at h
    have := defaultMup_pos r
    omega
  | some m =>
    simp only at h
    split at h
    · cases h
    · simp only [Option.some.injEq] at h; omega

/-- the non-linear step: `X = ⌊e / (p·10⁶)⌋ · p` is the largest multiple of `p`
seconds not exceeding `e` -/
theorem quant_spec (e p : Int) (hp : 0 < p) :
    e / (p * usPerSec) * p * usPerSec ≤ e ∧
    e < e / (p * usPerSec) * p * usPerSec + p * usPerSec ∧
    (0 ≤ e → 0 ≤ e / (p * usPerSec)) := by
  have hq : 0 < p * usPerSec := Int.mul_pos hp (by unfold usPerSec; omega)
  have h1 := Int.ediv_mul_le e (Int.ne_of_gt hq)
  have h2 := Int.lt_ediv_add_one_mul_self e hq
  rw [Int.add_mul, Int.one_mul] at h2
  rw [Int.mul_assoc]
  exact ⟨h1, h2, fun he => Int.ediv_nonneg he (Int.le_of_lt hq)⟩

theorem quant_mono {e₁ e₂ p : Int} (hp : 0 < p) (h : e₁ ≤ e₂) :
    e₁ / (p * usPerSec) * p * usPerSec ≤ e₂ / (p * usPerSec) * p * usPerSec := by
  have hq : 0 < p * usPerSec := Int.mul_pos hp (by unfold usPerSec; omega)
  have := Int.ediv_le_ediv hq h
  rw [Int.mul_assoc, Int.mul_assoc]
  exact Int.mul_le_mul_of_nonneg_right this (Int.le_of_lt hq)

/-- `publish` for a whole-second start: no truncation happens, the result is
exactly `ast + k·p` seconds -/
theorem publish_some_eq {pub0 ast e p : Int} (hast : ast % usPerSec = 0) :
    publish pub0 ast e (some p) = ast + e / (p * usPerSec) * p * usPerSec := by
  unfold publish
  apply floorSec_of_whole
  generalize e / (p * usPerSec) * p = X
  unfold usPerSec at *
  omega

/-! ### start resolution -/

/-- what `resolveStart` guarantees for every accepted start value -/
structure Resolved (now ast : Int) : Prop where
  le_now : ast ≤ now
  whole : ast % usPerSec = 0

theorem dayStart_whole (now : Int) : dayStart now % usPerSec = 0 := by
  unfold dayStart dayUs usPerSec; omega

theorem monthStart_whole (now : Int) : monthStart now % usPerSec = 0 := by
  unfold monthStart dayUs usPerSec; omega

theorem yearStart_whole (now : Int) : yearStart now % usPerSec = 0 := by
  unfold yearStart dayUs usPerSec; omega

/-- the `today` guard fires exactly in the first minute of the UTC day -/
theorem today_guard {now : Int} (h : 0 ≤ now) :
    (hourOf (floorSec now) = 0 ∧ minuteOf (floorSec now) = 0) ↔ now % dayUs < minuteUs := by
  unfold hourOf minuteOf dayStart dayOf floorSec hourUs minuteUs dayUs usPerSec
  omega

theorem resolve_today {now : Int} (h : 0 ≤ now) :
    (resolveStart true now (floorSec now) .today).1 =
      if now % dayUs < minuteUs then dayStart now - dayUs else dayStart now := by
  simp only [resolveStart]
  by_cases hg : now % dayUs < minuteUs
  · rw [if_pos ((today_guard h).mpr hg), if_pos hg]
  · rw [if_neg (fun x => hg ((today_guard h).mp x)), if_neg hg]

/-- the `month`/`year` guard fires exactly when the start is the day of `now` -/
theorem dayGuard {now : Int} (h : 0 ≤ now) (k : Nat) (hk : k ≤ dayOf now) :
    floorSec now - (k : Int) * dayUs < dayUs ↔ (k : Int) * dayUs = dayStart now := by
  have h1 := dayStart_le h
  have h2 := lt_dayStart_add h
  have h3 := dayStart_whole now
  have h4 := floorSec_le now
  have h5 : dayStart now ≤ floorSec now := le_floorSec h3 h1
  rcases dayMultiple_cases k now hk with hc | hc
  · constructor
    · intro _; exact hc
    · intro _; unfold dayUs at *; omega
  · constructor
    · intro hx; unfold dayUs at *; omega
    · intro hx; unfold dayUs at *; omega

theorem resolve_month {now : Int} (h : 0 ≤ now) :
    (resolveStart true now (floorSec now) .month).1 =
      if monthStart now = dayStart now then monthStart now - dayUs else monthStart now := by
  simp only [resolveStart]
  have hg : floorSec now - monthStart now < dayUs ↔ monthStart now = dayStart now :=
    dayGuard h (monthStartDay (dayOf now)) (monthStartDay_le _)
  by_cases hc : monthStart now = dayStart now
  · rw [if_pos (hg.mpr hc), if_pos hc]
  · rw [if_neg (fun x => hc (hg.mp x)), if_neg hc]

theorem resolve_year {now : Int} (h : 0 ≤ now) :
    (resolveStart true now (floorSec now) .year).1 =
      if yearStart now = dayStart now then yearStart now - dayUs else yearStart now := by
  simp only [resolveStart]
  have hg : floorSec now - yearStart now < dayUs ↔ yearStart now = dayStart now :=
    dayGuard h (yearStartDay (dayOf now)) (yearStartDay_le _)
  by_cases hc : yearStart now = dayStart now
  · rw [if_pos (hg.mpr hc), if_pos hc]
  · rw [if_neg (fun x => hc (hg.mp x)), if_neg hc]

/-- every symbolic start resolves to a whole-second instant at least a minute
before `now` (for `epoch`: provided the clock is a minute past the epoch) -/
theorem resolve_symbolic {now : Int} (h : 0 ≤ now) (s : Start) (hs : s.isSymbolic = true)
    (hep : s = .epoch → minuteUs ≤ now) :
    (resolveStart true now (floorSec now) s).1 + minuteUs ≤ now ∧
    (resolveStart true now (floorSec now) s).1 % usPerSec = 0 := by
  have h1 := dayStart_le h
  have h2 := lt_dayStart_add h
  have h3 := dayStart_whole now
  have h6 := dayStart_eq h
  cases s with
  | explicit t off => simp [Start.isSymbolic] at hs
  | epoch =>
    have := hep rfl
    simp only [resolveStart]
    unfold usPerSec; omega
  | now =>
    simp only [resolveStart]
    unfold floorSec defaultDepth minuteUs usPerSec; omega
  | today =>
    rw [resolve_today h]
    split <;> (unfold dayUs minuteUs usPerSec at *; omega)
  | month =>
    rw [resolve_month h]
    have h4 := monthStart_le_dayStart now
    have h5 := monthStart_whole now
    have h7 : floorSec now - monthStart now < dayUs ↔ monthStart now = dayStart now :=
      dayGuard h (monthStartDay (dayOf now)) (monthStartDay_le _)
    have h8 := floorSec_le now
    split
    · unfold dayUs minuteUs usPerSec at *; omega
    · rename_i hc
      have : ¬ floorSec now - monthStart now < dayUs := fun x => hc (h7.mp x)
      unfold dayUs minuteUs usPerSec at *; omega
  | year =>
    rw [resolve_year h]
    have h4 := yearStart_le_dayStart now
    have h5 := yearStart_whole now
    have h7 : floorSec now - yearStart now < dayUs ↔ yearStart now = dayStart now :=
      dayGuard h (yearStartDay (dayOf now)) (yearStartDay_le _)
    have h8 := floorSec_le now
    split
    · unfold dayUs minuteUs usPerSec at *; omega
    · rename_i hc
      have : ¬ floorSec now - yearStart now < dayUs := fun x => hc (h7.mp x)
      unfold dayUs minuteUs usPerSec at *; omega

/-- `epoch` needs no minimum age to be a valid start, only `0 ≤ now` -/
theorem resolve_ok {now : Int} (h : 0 ≤ now) (s : Start)
    (hat : ∀ t off, s = .explicit t off → floorSec t ≤ now) :
    Resolved now (resolveStart true now (floorSec now) s).1 := by
  cases s with
  | explicit t off =>
    have := hat t off rfl
    simp only [resolveStart, if_true]
    exact ⟨this, floorSec_whole t⟩
  | epoch =>
    simp only [resolveStart]
    exact ⟨h, by unfold usPerSec; omega⟩
  | today =>
    obtain ⟨a, b⟩ := resolve_symbolic h .today rfl (by intro x; cases x)
    exact ⟨by unfold minuteUs at a; omega, b⟩
  | month =>
    obtain ⟨a, b⟩ := resolve_symbolic h .month rfl (by intro x; cases x)
    exact ⟨by unfold minuteUs at a; omega, b⟩
  | year =>
    obtain ⟨a, b⟩ := resolve_symbolic h .year rfl (by intro x; cases x)
    exact ⟨by unfold minuteUs at a; omega, b⟩
  | now =>
    obtain ⟨a, b⟩ := resolve_symbolic h .now rfl (by intro x; cases x)
    exact ⟨by unfold minuteUs at a; omega, b⟩

/-- after the zero-elapsed back-off: start not after `now`, on a whole second,
elapsed time is exactly `now - start` and positive -/
theorem backOff_spec {now ast0 : Int} (h : Resolved now ast0) :
    Resolved now (backOff ast0 now).1 ∧ (backOff ast0 now).2 = now - (backOff ast0 now).1 ∧
    0 < (backOff ast0 now).2 := by
  obtain ⟨h1, h2⟩ := h
  unfold backOff
  simp only
  split
  · refine ⟨⟨?_, ?_⟩, ?_, ?_⟩ <;> (unfold dayUs usPerSec at *; omega)
  · exact ⟨⟨h1, h2⟩, rfl, by omega⟩

/-- the back-off leaves a start that is at least a minute old untouched -/
theorem backOff_of_lt {now ast0 : Int} (h : ast0 < now) : backOff ast0 now = (ast0, now - ast0) := by
  unfold backOff
  simp only
  rw [if_neg (by omega)]

/-! ### the assembled result -/

/-- start actually used by `calculateLiveParams` before the zero-elapsed back-off -/
def resolved (now : Int) (o : Options) : Int := (resolveStart true now (floorSec now) o.start).1

theorem calc_ast (now : Int) (ref : Ref) (o : Options) :
    (calculateLiveParams now ref o).availabilityStartTime = (backOff (resolved now o) now).1 := rfl

theorem calc_elapsed (now : Int) (ref : Ref) (o : Options) :
    (calculateLiveParams now ref o).elapsedTime = (backOff (resolved now o) now).2 := rfl

theorem calc_tsbd (now : Int) (ref : Ref) (o : Options) :
    (calculateLiveParams now ref o).timeShiftBufferDepth =
      clampDepth (calculateLiveParams now ref o).elapsedTime (initialDepth true o.depth) := rfl

theorem calc_fat (now : Int) (ref : Ref) (o : Options) :
    (calculateLiveParams now ref o).firstAvailableTime =
      (calculateLiveParams now ref o).elapsedTime -
        (calculateLiveParams now ref o).timeShiftBufferDepth * usPerSec := rfl

theorem calc_mup (now : Int) (ref : Ref) (o : Options) :
    (calculateLiveParams now ref o).minimumUpdatePeriod = effectiveMup true ref o.mup := rfl

theorem calc_publish (now : Int) (ref : Ref) (o : Options) :
    (calculateLiveParams now ref o).publishTime =
      publish (floorSec now) (calculateLiveParams now ref o).availabilityStartTime
        (calculateLiveParams now ref o).elapsedTime (effectiveMup true ref o.mup) := rfl

/-- the facts every other clause builds on: the start is a whole second not
after `now`, and the elapsed time is exactly the (positive) distance to it -/
theorem calc_core {now : Int} (ref : Ref) {o : Options} (h0 : 0 ≤ now)
    (hat : ∀ t off, o.start = .explicit t off → floorSec t ≤ now) :
    (calculateLiveParams now ref o).availabilityStartTime ≤ now ∧
    (calculateLiveParams now ref o).availabilityStartTime % usPerSec = 0 ∧
    (calculateLiveParams now ref o).elapsedTime =
      now - (calculateLiveParams now ref o).availabilityStartTime ∧
    0 < (calculateLiveParams now ref o).elapsedTime := by
  obtain ⟨⟨a, b⟩, c, d⟩ := backOff_spec (resolve_ok h0 o.start hat)
  rw [calc_ast, calc_elapsed]
  exact ⟨a, b, c, d⟩

/-- a symbolic start yields a stream at least one minute old (for `epoch`:
once the clock is a minute past the epoch) -/
theorem symbolic_age_gen {now : Int} (ref : Ref) {o : Options} (h0 : 0 ≤ now)
    (hs : o.start.isSymbolic = true) (hep : o.start = .epoch → minuteUs ≤ now) :
    minuteUs ≤ (calculateLiveParams now ref o).elapsedTime := by
  obtain ⟨a, _⟩ := resolve_symbolic h0 o.start hs hep
  have hlt : resolved now o < now := by unfold resolved; unfold minuteUs at a; omega
  rw [calc_elapsed, backOff_of_lt hlt]
  unfold resolved
  omega

end DashLive.LiveTiming
