import DashLive.Model.Validator
import DashLive.Model.Segments
/-!
Helper lemmas for C18 (`Props/C18.lean`): the validator model of `Model/Validator.lean`.

* `Sound` – everything a media segment must satisfy apart from the three numbers C18's
  acceptance theorems are about (sequence number, decode time, duration); under `Sound` the
  error list of a segment is exactly `seqErrs ++ decodeErrs ++ durErrs`.
* `repLoop_clean` – the Representation loop reports nothing when every step reports nothing
  (invariant style, indexed by the position in the list).
* `tlExpand_eq_expandFrom` – the validator's SegmentTimeline expansion is DASH's (`Segments.expand`).
-/
namespace DashLive.Validator
open DashLive.Segments

/-! ### `almostEqual` -/

theorem almostEqual_iff (a b : Int) (d : Nat) :
    almostEqual a b d = true ↔ a - b ≤ d ∧ b - a ≤ d := by
  unfold almostEqual
  simp only [decide_eq_true_eq]
  omega

theorem almostEqual_self (a : Int) (d : Nat) : almostEqual a a d = true := by
  rw [almostEqual_iff]; omega

theorem almostEqual_false_iff (a b : Int) (d : Nat) :
    almostEqual a b d = false ↔ (d : Int) < a - b ∨ (d : Int) < b - a := by
  unfold almostEqual
  simp only [decide_eq_false_iff_not]
  omega

/-! ### a segment that is sound apart from its timing numbers -/

/-- the fragment is what the Representation announces: status, MIME type, encryption as
requested, boxes present, trun pointing at the mdat payload, saio pointing at the first senc
entry, presentation times unique and non-negative, timescales sane and equal -/
structure Sound (c : RepCtx) (pto : Int) (o : SegObs) : Prop where
  status : o.status = wantStatus c
  ctype : o.ctypeOk = true
  encVideo : c.video = true → c.optEncrypted = c.infoEncrypted
  encOther : c.video = false → c.infoEncrypted = true → c.optEncrypted = true
  iv : c.infoEncrypted = true → c.ivKnown = true
  atoms : 1 < o.nAtoms
  moof : o.hasMoof = true
  mdat : o.hasMdat = true
  emsg : o.emsgOk = true
  trunFirst : o.baseDataOffset + o.dataOffset = ((o.mdatPos + o.mdatHdr : Nat) : Int)
  trunLast : o.baseDataOffset + o.dataOffset + (sumSizes o.samples : Int)
              ≤ ((o.mdatPos + o.mdatSize : Nat) : Int)
  enc : encErrs c o = []
  moov : c.hasMoov = true
  trex : o.needsTrex = true → c.hasTrex = true
  pts : ptsLoop pto o.tfdt [] o.samples = []
  mediaTs : c.mediaTs = some c.dashTs
  dashTs : c.dashTs ≠ 0

theorem parseData_sound {c : RepCtx} {pto : Int} {o : SegObs} (h : Sound c pto o) :
    parseData c o = ([], true) := by
  have h1 := h.encVideo; have h2 := h.encOther; have h3 := h.iv
  have h4 := h.trunFirst; have h5 := h.trunLast
  unfold parseData
  cases hv : c.video <;> cases hi : c.infoEncrypted <;> cases ho : c.optEncrypted <;>
    cases hk : c.ivKnown <;>
    simp_all [h.atoms, h.moof, h.mdat, h.emsg]

theorem obsDuration_sound {c : RepCtx} {pto : Int} {o : SegObs} (h : Sound c pto o) :
    obsDuration c o = sumDurs o.samples := by
  unfold obsDuration; rw [h.mediaTs]; simp

/-- under `Sound` only the three timing checks can fail -/
theorem validateSegment_sound {c : RepCtx} (e : SegExp) {o : SegObs} {pto : Int}
    (hp : e.pto = pto) (h : Sound c pto o) :
    validateSegment c e o = seqErrs e o ++ decodeErrs e o ++ durErrs c e o := by
  subst hp
  have hd := h.dashTs
  have ht := h.trex
  unfold validateSegment segTail ctypeErrs
  rw [parseData_sound h, h.enc, h.pts, h.mediaTs]
  cases hn : o.needsTrex <;> simp_all [h.status, h.ctype, h.moov]

/-- the same with the expectation spelled out field by field (the form `simp` meets) -/
theorem validateSegment_sound_mk {c : RepCtx} {o : SegObs} (sq dt : Option Int) (du : Option Nat)
    (tol : Nat) (pto : Int) (h : Sound c pto o) :
    validateSegment c { expSeq := sq, expDecode := dt, expDur := du, tol := tol, pto := pto } o
      = seqErrs { expSeq := sq, expDecode := dt, expDur := du, tol := tol, pto := pto } o ++
        decodeErrs { expSeq := sq, expDecode := dt, expDur := du, tol := tol, pto := pto } o ++
        durErrs c { expSeq := sq, expDecode := dt, expDur := du, tol := tol, pto := pto } o :=
  validateSegment_sound _ rfl h

theorem segResult_sound {c : RepCtx} {pto : Int} {o : SegObs} (h : Sound c pto o) :
    segResult c o = { seq := some o.seq, duration := some (sumDurs o.samples),
                      nextDecode := some ((o.tfdt : Int) + (sumDurs o.samples : Int)) } := by
  have hd := h.dashTs
  have ht := h.trex
  unfold segResult
  rw [parseData_sound h, obsDuration_sound h, h.mediaTs]
  cases hn : o.needsTrex <;> simp_all [h.status, h.moov]

/-! ### membership: a failing comparison is reported whenever the code reaches it -/

/-- the request was answered with the expected status and a moof could be parsed -/
def Reaches (c : RepCtx) (o : SegObs) : Prop := o.status = wantStatus c ∧ (parseData c o).2 = true

theorem validateSegment_reaches {c : RepCtx} {e : SegExp} {o : SegObs} (h : Reaches c o) :
    validateSegment c e o =
      ctypeErrs o ++ (parseData c o).1 ++ encErrs c o ++ seqErrs e o ++ decodeErrs e o ++ segTail c e o := by
  unfold validateSegment
  simp [h.1, h.2]

/-- whatever else is wrong, a segment whose response cannot be used is reported -/
theorem validateSegment_not_reaches {c : RepCtx} {e : SegExp} {o : SegObs} (h : ¬ Reaches c o) :
    validateSegment c e o ≠ [] := by
  unfold validateSegment
  by_cases hs : o.status = wantStatus c
  · have hp : (parseData c o).2 = false := by
      cases hq : (parseData c o).2
      · rfl
      · exact absurd ⟨hs, hq⟩ h
    simp [hs, hp]
  · simp [hs]

/-! ### the Representation loop -/

/-- every step clean ⇒ the pass is clean.  `Inv i ch`: the chain state before the `i`-th
element of the list (counted from `i₀`). -/
theorem repLoop_clean (c : RepCtx) (need : Option Nat) (Inv : Nat → Chain → Prop) :
    ∀ (l : List (SegState × Outcome)) (i : Nat) (ch : Chain), Inv i ch →
      (∀ j (hj : j < l.length) ch', Inv (i + j) ch' →
        (stepSeg c ch' l[j].1 l[j].2).2.1 = [] ∧ Inv (i + j + 1) (stepSeg c ch' l[j].1 l[j].2).2.2) →
      ∀ p ∈ repLoop c need ch l, p.2 = [] := by
  intro l
  induction l with
  | nil => intro i ch _ _ p hp; simp [repLoop] at hp
  | cons x rest ih =>
    intro i ch hinv hstep p hp
    obtain ⟨s, oc⟩ := x
    have h0 := hstep 0 (by simp) ch (by simpa using hinv)
    simp only [List.getElem_cons_zero, Nat.add_zero] at h0
    simp only [repLoop] at hp
    rcases List.mem_cons.mp hp with hp | hp
    · rw [hp]; exact h0.1
    · have hrec : p ∈ repLoop c need (stepSeg c ch s oc).2.2 rest → p.2 = [] := by
        intro hp'
        refine ih (i + 1) _ h0.2 ?_ p hp'
        intro j hj ch' hinv'
        have := hstep (j + 1) (by simp; omega) ch' (by rw [← Nat.add_assoc]; simpa [Nat.add_right_comm] using hinv')
        simp only [List.getElem_cons_succ] at this
        have e1 : i + (j + 1) + 1 = i + 1 + j + 1 := by omega
        rw [e1] at this
        exact this
      have hmap : p ∈ rest.map (fun q => (q.1, ([] : List SegErr))) → p.2 = [] := by
        intro hp'
        obtain ⟨q, _, hq⟩ := List.mem_map.mp hp'
        rw [← hq]
      cases need with
      | none => exact hrec (by simpa using hp)
      | some n =>
        simp only at hp
        split at hp
        · exact hmap hp
        · exact hrec hp

theorem located_nil_of_clean (l : List (SegState × List SegErr)) (h : ∀ p ∈ l, p.2 = []) :
    located l = [] := by
  unfold located
  rw [List.flatMap_eq_nil_iff]
  intro p hp
  have := h p.1 (List.fst_mem_of_mem_zipIdx hp)
  simp [this]

/-! ### single steps of the loop on freshly generated, fetched segments -/

/-- a `$Time$` step: expected decode time known from the manifest, no expected number -/
theorem step_time (c : RepCtx) (ch : Chain) (tol du : Nat) (t : Int) (o : SegObs)
    (hs : Sound c 0 o) (htf : almostEqual t o.tfdt tol = true)
    (hinv : ch.nextSeq = none ∨ ch.nextSeq = some (o.seq : Int))
    (hd : almostEqual (du : Int) (sumDurs o.samples) c.dashTs = true) :
    let e : SegExp := { expSeq := none, expDecode := some t, expDur := some du, tol := tol, pto := 0 }
    (stepSeg c ch (SegState.fresh e) (Outcome.fetched o)).2.1 = [] ∧
    (stepSeg c ch (SegState.fresh e) (Outcome.fetched o)).2.2.nextSeq = some ((o.seq : Int) + 1) := by
  rcases hinv with h | h
  · simp only [stepSeg, inherit, SegState.fresh, h]
    simp [validateSegment_sound_mk _ _ _ _ _ hs, segResult_sound hs, seqErrs, decodeErrs, durErrs,
      obsDuration_sound hs, hd, htf]
  · simp only [stepSeg, inherit, SegState.fresh, h]
    simp [validateSegment_sound_mk _ _ _ _ _ hs, segResult_sound hs, seqErrs, decodeErrs, durErrs,
      obsDuration_sound hs, hd, htf]

/-- a `$Number$` step -/
theorem step_number (c : RepCtx) (ch : Chain) (tol sd : Nat) (N : Int) (o : SegObs)
    (hs : Sound c 0 o) (hseq : (o.seq : Int) = N)
    (htd : c.tmplDuration = some sd)
    (hinv : (ch.nextSeq = none ∧ ch.nextDecode = none) ∨
      (ch.nextSeq = some N ∧ ∃ nd, ch.nextDecode = some nd ∧
        almostEqual ((N - c.startNumber) * sd) nd (sd / 2) = true ∧
        almostEqual nd o.tfdt tol = true))
    (hd : almostEqual (sd : Int) (sumDurs o.samples) c.dashTs = true) :
    let e : SegExp := { expSeq := some N, expDecode := none, expDur := some sd, tol := tol, pto := 0 }
    (stepSeg c ch (SegState.fresh e) (Outcome.fetched o)).2.1 = [] ∧
    (stepSeg c ch (SegState.fresh e) (Outcome.fetched o)).2.2.nextSeq = some (N + 1) ∧
    (stepSeg c ch (SegState.fresh e) (Outcome.fetched o)).2.2.nextDecode
      = some ((o.tfdt : Int) + (sumDurs o.samples : Int)) := by
  have hm := hs.mediaTs
  have hdz := hs.dashTs
  rcases hinv with ⟨h1, h2⟩ | ⟨h1, nd, h2, h3, h4⟩
  · simp only [stepSeg, inherit, SegState.fresh, h1, h2]
    simp [validateSegment_sound_mk _ _ _ _ _ hs, segResult_sound hs, seqErrs, decodeErrs, durErrs,
      obsDuration_sound hs, hd, hseq]
  · simp only [stepSeg, inherit, SegState.fresh, h1, h2]
    have hexp : (N - c.startNumber) * (sd : Int) * (c.dashTs : Int) / (c.dashTs : Int)
        = (N - c.startNumber) * sd := Int.mul_ediv_cancel _ (by omega)
    simp [validateSegment_sound_mk _ _ _ _ _ hs, segResult_sound hs, seqErrs, decodeErrs, durErrs,
      obsDuration_sound hs, hd, hseq, hm, htd, hexp, h3, h4]
/-- a pass in which every generated segment is fetched -/
def fetchAll (exps : List SegExp) (obs : List SegObs) : List (SegState × Outcome) :=
  List.zipWith (fun e o => (SegState.fresh e, Outcome.fetched o)) exps obs

/-! ### SegmentTimeline expansion = DASH's -/

/-- the `<S>` element the server writes for a node of `generateSegmentTimeline` -/
def toSElem (s : SNode) : SElem := { t := s.start, d := s.dur, r := (s.count : Int) - 1 }

theorem tlRepeat_eq (start d : Int) (n : Nat) :
    tlRepeat start d n = (List.range n).map fun (i : Nat) => (start + (i : Int) * d, d) := by
  induction n generalizing start with
  | zero => rfl
  | succ n ih =>
    rw [tlRepeat, ih, List.range_succ_eq_map, List.map_cons, List.map_map]
    congr 1
    · simp
    · apply List.map_congr_left
      intro i _
      simp only [Function.comp]
      congr 1
      push_cast
      rw [Int.add_mul]; omega

/-- for the node lists the server produces (every node has a duration and a positive count)
the validator's expansion from a known position is `Segments.expandFrom` -/
theorem tlExpand_eq_expandFrom (l : List SNode) (t : Int)
    (h : ∀ s ∈ l, s.dur.isSome = true ∧ 1 ≤ s.count) :
    tlExpand (some t) (l.map toSElem) = (expandFrom t l, []) := by
  induction l generalizing t with
  | nil => rfl
  | cons s rest ih =>
    obtain ⟨hd, hc⟩ := h s (by simp)
    obtain ⟨d, hd'⟩ := Option.isSome_iff_exists.mp hd
    have hn : ((s.count : Int) - 1 + 1).toNat = s.count := by omega
    have hrest := fun t' => ih t' (fun s' hs' => h s' (by simp [hs']))
    simp only [List.map_cons, tlExpand, toSElem, hd', expandFrom, Option.getD_some, hn]
    cases hs : s.start with
    | none =>
      simp only [Option.getD_none, hrest, List.append_nil, tlRepeat_eq]
    | some v =>
      simp only [Option.getD_some, hrest, List.append_nil, tlRepeat_eq]

/-- when the first node carries `@t` (the server always writes it) the expansion of the
whole element is `Segments.expand` and no error is recorded -/
theorem timelineSegments_eq_expand (s : SNode) (rest : List SNode) (t0 : Int) (hs : s.start = some t0)
    (h : ∀ x ∈ s :: rest, x.dur.isSome = true ∧ 1 ≤ x.count) :
    tlExpand none ((s :: rest).map toSElem) = (expand (s :: rest), []) := by
  obtain ⟨hd, hc⟩ := h s (by simp)
  obtain ⟨d, hd'⟩ := Option.isSome_iff_exists.mp hd
  have hn : ((s.count : Int) - 1 + 1).toNat = s.count := by omega
  have hrest := fun t' => tlExpand_eq_expandFrom rest t' (fun s' hs' => h s' (by simp [hs']))
  simp only [List.map_cons, tlExpand, toSElem, hd', hs, expand, expandFrom, Option.getD_some, hn,
    hrest, List.append_nil, tlRepeat_eq]

end DashLive.Validator
