import DashLive.Lemmas.Timeline
import Mathlib.Tactic.Linarith
import Mathlib.Tactic.Ring
/-! Arithmetic behind the availability gate (`calculate_first_and_last_segment_number`,
`calculate_segment_number_and_time`): floor conversions and division bounds. -/
namespace DashLive.Segments

/-- `timedelta_to_timecode` is the exact floor `⌊us·ts/10⁶⌋` -/
theorem tdToTc_eq (us ts : Nat) : tdToTc us ts = us * ts / 1000000 := by
  unfold tdToTc
  simp only
  have h1 := Nat.div_add_mod us 86400000000
  have h2 := Nat.div_add_mod (us % 86400000000) 1000000
  generalize us / 86400000000 = days at *
  generalize us % 86400000000 = rem at *
  generalize rem / 1000000 = s at *
  generalize rem % 1000000 = u at *
  have e : us * ts = ts * u + (ts * days * 86400 + ts * s) * 1000000 := by
    rw [← h1, ← h2]; ring
  rw [e, Nat.add_mul_div_right _ _ (by norm_num : 0 < 1000000)]
  omega

theorem scaleTd_eq (us ts sd : Nat) : scaleTd us ts sd = tdToTc us ts / sd := by
  unfold scaleTd tdToTc; rfl

theorem floor_spec (a : Nat) : a / 1000000 * 1000000 ≤ a ∧ a < (a / 1000000 + 1) * 1000000 := by
  omega

/-- quotient bounds as products (so that `linarith` can use them) -/
theorem div_bounds (a b : Nat) (hb : 0 < b) : a / b * b ≤ a ∧ a < a / b * b + b := by
  have h1 := Nat.div_add_mod a b
  have h2 := Nat.mod_lt a hb
  have : b * (a / b) = a / b * b := Nat.mul_comm _ _
  omega

/-- `⌊(a + c + b)/c⌋ ≤ ⌊a/c⌋ + ⌊b/c⌋ + 2` -/
theorem div_add_le (x a b c : Nat) (hc : 0 < c) (h : x ≤ a + c + b) :
    x / c ≤ a / c + b / c + 2 := by
  obtain ⟨x1, _⟩ := div_bounds x c hc
  obtain ⟨_, a2⟩ := div_bounds a c hc
  obtain ⟨_, b2⟩ := div_bounds b c hc
  have : x / c * c < (a / c + b / c + 3) * c := by nlinarith
  have := Nat.lt_of_mul_lt_mul_right this
  omega

/-- `timescale_to_timedelta` specification: the float result, in µs, is within one
microsecond of the exact rational `tc·10⁶/ts` (validated against the implementation for
timecodes below 2⁵³). -/
def ConvSpec (conv : Nat → Int) (ts : Nat) : Prop :=
  ∀ tc : Nat, (tc : Int) * 1000000 - ts ≤ conv tc * ts ∧ conv tc * ts ≤ (tc : Int) * 1000000 + ts

/-- maximum stored duration -/
def maxDur (durs : List Nat) : Nat := durs.foldl max 0

theorem le_foldl_max (l : List Nat) (a x : Nat) (h : x ≤ a ∨ x ∈ l) : x ≤ l.foldl max a := by
  induction l generalizing a with
  | nil => rcases h with h | h
           · simpa using h
           · cases h
  | cons y ys ih =>
    simp only [List.foldl_cons]
    apply ih
    rcases h with h | h
    · left; exact Nat.le_trans h (Nat.le_max_left _ _)
    · rcases List.mem_cons.mp h with h | h
      · left; subst h; exact Nat.le_max_right _ _
      · right; exact h

theorem durAt_le_maxDur (durs : List Nat) (k : Nat) : durAt durs k ≤ maxDur durs := by
  unfold maxDur
  by_cases h : k < durs.length
  · rw [durAt_of_lt h]
    exact le_foldl_max durs 0 _ (Or.inr (List.getElem_mem h))
  · unfold durAt; simp [List.getD, h]

/-- `startG` is monotone along positions when advertised durations are non-negative -/
theorem startG_le_of_le (durs : List Nat) (R : Nat) (hn : 0 < durs.length)
    (hpos : ∀ g, 0 ≤ durG' durs R g) {g g' : Nat} (h : g ≤ g') : startG durs R g ≤ startG durs R g' := by
  induction g' with
  | zero => have : g = 0 := by omega
            subst this; exact Nat.le_refl _
  | succ k ih =>
    by_cases he : g = k + 1
    · subst he; exact Nat.le_refl _
    · have h1 := ih (by omega)
      have h2 := startG_succ durs R k hn
      have h3 := hpos k
      omega

end DashLive.Segments
