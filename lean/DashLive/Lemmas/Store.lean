import DashLive.Model.Store
/-!
Helper definitions and lemmas for C17: the referential-consistency invariant
of the management store and its preservation by each operation of
`DashLive.Store.step`.
-/
namespace DashLive.Store

/-! ### the invariant -/

/-- the part of the invariant that no commit-time UNIQUE check re-establishes,
without the timing references -/
structure Core0 (s : St) : Prop where
  streamPk : (s.streams.map (·.pk)).Nodup
  filePk : (s.files.map (·.pk)).Nodup
  fileName : (s.files.map (·.name)).Nodup
  fileBlobU : (s.files.map (·.blob)).Nodup
  blobPk : (s.blobs.map (·.pk)).Nodup
  blobName : (s.blobs.map (·.filename)).Nodup
  keyPk : (s.keys.map (·.pk)).Nodup
  keyKid : (s.keys.map (·.kid)).Nodup
  linkU : s.links.Nodup
  mpsPk : (s.mps.map (·.pk)).Nodup
  periodPk : (s.periods.map (·.pk)).Nodup
  adpPk : (s.adps.map (·.pk)).Nodup
  /-- every media file has its stream -/
  fileStream : ∀ f ∈ s.files, f.stream ∈ s.streams.map (·.pk)
  /-- every media file has its blob -/
  fileBlob : ∀ f ∈ s.files, f.blob ∈ s.blobs.map (·.pk)
  /-- every key link points at an existing media file and an existing key -/
  linkFile : ∀ l ∈ s.links, l.1 ∈ s.files.map (·.pk)
  linkKey : ∀ l ∈ s.links, l.2 ∈ s.keys.map (·.pk)
  /-- every period points at an existing multi-period stream and an existing stream -/
  periodParent : ∀ p ∈ s.periods, p.parent ∈ s.mps.map (·.pk)
  periodStream : ∀ p ∈ s.periods, p.stream ∈ s.streams.map (·.pk)
  /-- every adaptation set points at an existing period -/
  adpPeriod : ∀ a ∈ s.adps, a.period ∈ s.periods.map (·.pk)

/-- every timing reference names a media file of its stream -/
def TrefOK (s : St) : Prop :=
  ∀ st ∈ s.streams, ∀ n, st.tref = some n → ∃ f ∈ s.files, f.name = n ∧ f.stream = st.pk

structure Core (s : St) : Prop extends Core0 s where
  tref : TrefOK s

/-- the UNIQUE constraints that `uniqOK` evaluates -/
structure Uniq (s : St) : Prop where
  streamDir : (s.streams.map (·.dir)).Nodup
  mpsName : (s.mps.map (·.name)).Nodup
  periodPid : (s.periods.map (fun p => (p.parent, p.pid))).Nodup
  adpTrack : (s.adps.map (fun a => (a.period, a.track))).Nodup

/-- **referential consistency** of the store (the first half of C17) -/
def Inv (s : St) : Prop := Core s ∧ Uniq s

/-! ### lists -/

theorem le_maxPk {l : List Nat} {a : Nat} (h : a ∈ l) : a ≤ maxPk l := by
  induction l with
  | nil => cases h
  | cons b l ih =>
    simp only [maxPk]
    rcases List.mem_cons.mp h with rfl | h
    · omega
    · have := ih h; omega

theorem fresh_not_mem (l : List Nat) : fresh l ∉ l := by
  intro h; have := le_maxPk h; unfold fresh at this; omega

theorem nodup_map_filter {α β} (f : α → β) (p : α → Bool) {l : List α}
    (h : (l.map f).Nodup) : ((l.filter p).map f).Nodup :=
  List.Nodup.sublist ((List.filter_sublist).map f) h

theorem nodup_filter {α} (p : α → Bool) {l : List α} (h : l.Nodup) : (l.filter p).Nodup :=
  List.Nodup.sublist List.filter_sublist h

theorem nodup_map_snoc {α β} (f : α → β) {l : List α} {a : α}
    (h : (l.map f).Nodup) (ha : f a ∉ l.map f) : ((l ++ [a]).map f).Nodup := by
  rw [List.map_append, List.nodup_append]
  refine ⟨h, by simp, ?_⟩
  intro x hx y hy
  simp only [List.map_cons, List.map_nil, List.mem_singleton] at hy
  subst hy
  intro e; subst e; exact ha hx

theorem nodupB_iff {α} [BEq α] [LawfulBEq α] (l : List α) : nodupB l = true ↔ l.Nodup := by
  induction l with
  | nil => simp [nodupB]
  | cons a l ih => simp [nodupB, ih, List.nodup_cons]

theorem inj_of_nodup_map {α β} (f : α → β) {l : List α} (h : (l.map f).Nodup) {a b : α}
    (ha : a ∈ l) (hb : b ∈ l) (e : f a = f b) : a = b := by
  induction l with
  | nil => cases ha
  | cons c l ih =>
    simp only [List.map_cons, List.nodup_cons, List.mem_map, not_exists, not_and] at h
    rcases List.mem_cons.mp ha with rfl | ha' <;> rcases List.mem_cons.mp hb with rfl | hb'
    · rfl
    · exact absurd e.symm (h.1 b hb')
    · exact absurd e (h.1 a ha')
    · exact ih h.2 ha' hb'

/-- updating rows in place without touching the field `f` -/
theorem map_upd_field {α β} (f : α → β) (c : α → Bool) (g : α → α) (l : List α)
    (h : ∀ x, f (g x) = f x) : (l.map (fun x => if c x then g x else x)).map f = l.map f := by
  rw [List.map_map]
  apply List.map_congr_left
  intro x _
  simp only [Function.comp]
  split <;> simp [h]

theorem ite_field {α β} (f : α → β) (c : Prop) [Decidable c] (a b : α) (h : f a = f b) :
    f (if c then a else b) = f b := by
  split
  · exact h
  · rfl

theorem forall_map_upd {α} (P : α → Prop) (c : α → Bool) (g : α → α) (l : List α)
    (h : ∀ x ∈ l, P x) (hg : ∀ x, P x → P (g x)) :
    ∀ y ∈ l.map (fun x => if c x then g x else x), P y := by
  intro y hy
  obtain ⟨x, hx, rfl⟩ := List.mem_map.mp hy
  split
  · exact hg x (h x hx)
  · exact h x hx

theorem uniqOK_iff (s : St) : uniqOK s = true ↔ Uniq s := by
  simp only [uniqOK, Bool.and_eq_true, nodupB_iff]
  constructor
  · rintro ⟨⟨⟨a, b⟩, c⟩, d⟩; exact ⟨a, b, c, d⟩
  · rintro ⟨a, b, c, d⟩; exact ⟨⟨⟨a, b⟩, c⟩, d⟩

theorem find?_pk_mem {α} {l : List α} {p : α → Bool} {a : α} (h : l.find? p = some a) :
    a ∈ l ∧ p a = true := ⟨List.mem_of_find?_eq_some h, List.find?_some h⟩

theorem Uniq.of_eq {s s' : St} (u : Uniq s) (h1 : s'.streams = s.streams) (h2 : s'.mps = s.mps)
    (h3 : s'.periods = s.periods) (h4 : s'.adps = s.adps) : Uniq s' :=
  ⟨h1 ▸ u.streamDir, h2 ▸ u.mpsName, h3 ▸ u.periodPid, h4 ▸ u.adpTrack⟩

/-! ### initial state -/

theorem core_init : Core init := by
  refine ⟨?_, ?_⟩
  · constructor <;> simp [init]
  · simp [TrefOK, init]

theorem uniq_init : Uniq init := by
  constructor <;> simp [init]

/-! ### commit -/

theorem inv_commit {s s' : St} (hs : Inv s) (hc : Core s') : Inv (commit s s').1 := by
  unfold commit
  split
  · next h => exact ⟨hc, (uniqOK_iff s').mp h⟩
  · exact hs

/-! ### streams -/

theorem inv_appendStream {s : St} (hs : Inv s) (dir title : String) (hdir : dir ∉ s.streams.map (·.dir)) :
    Inv (appendStream s dir title) := by
  unfold appendStream
  obtain ⟨c, u⟩ := hs
  refine ⟨{ c with streamPk := ?_, fileStream := ?_, periodStream := ?_, tref := ?_ },
          { u with streamDir := ?_ }⟩
  · exact nodup_map_snoc _ c.streamPk (fresh_not_mem _)
  · intro f hf; simp only [List.map_append, List.mem_append]; exact Or.inl (c.fileStream f hf)
  · intro p hp; simp only [List.map_append, List.mem_append]; exact Or.inl (c.periodStream p hp)
  · intro st hst n hn
    simp only [List.mem_append, List.mem_singleton] at hst
    rcases hst with hst | rfl
    · exact c.tref st hst n hn
    · simp at hn
  · exact nodup_map_snoc _ u.streamDir hdir

theorem inv_editStream {s : St} (hs : Inv s) (spk : Nat) (dir title tref : String) :
    Inv (editStream s spk dir title tref).1 := by
  unfold editStream
  split
  · exact hs
  · next st hst =>
    have hupd : ∀ t : Option String,
        (∀ n, t = some n → ∃ f ∈ s.files, f.name = n ∧ f.stream = spk) →
        Core { s with streams := s.streams.map (fun x =>
          if x.pk == spk then { x with dir := (if s.files.any (·.stream == spk) then st.dir else dir),
                                       title := title, tref := t } else x) } := by
      intro t ht
      obtain ⟨c, _⟩ := hs
      have hpk := map_upd_field (·.pk) (fun x : Stream => x.pk == spk)
        (fun x => { x with dir := (if s.files.any (·.stream == spk) then st.dir else dir),
                           title := title, tref := t }) s.streams (fun _ => rfl)
      refine { c with streamPk := ?_, fileStream := ?_, periodStream := ?_, tref := ?_ }
      · simp only [hpk]; exact c.streamPk
      · simp only [hpk]; exact c.fileStream
      · simp only [hpk]; exact c.periodStream
      · intro x hx n hn
        simp only [List.mem_map] at hx
        obtain ⟨y, hy, rfl⟩ := hx
        by_cases hk : (y.pk == spk) = true
        · simp only [hk, if_true] at hn ⊢
          have := ht n hn
          simpa [beq_iff_eq.mp hk] using this
        · simp only [hk] at hn ⊢
          exact c.tref y hy n hn
    simp only
    split
    · exact inv_commit hs (hupd none (by simp))
    · split
      · exact hs
      · next mf hmf =>
        apply inv_commit hs
        apply hupd
        intro n hn
        obtain ⟨hm, hp⟩ := find?_pk_mem hmf
        simp only [Bool.and_eq_true, beq_iff_eq] at hp
        split at hn
        · simp only [Option.some.injEq] at hn
          exact ⟨mf, hm, hn, hp.2⟩
        · simp at hn

/-- what `dropStream` needs of the state -/
theorem core_dropStream {s : St} (c : Core s) (k : Nat) : Core (dropStream s k) := by
  unfold dropStream
  refine { streamPk := nodup_map_filter _ _ c.streamPk, filePk := nodup_map_filter _ _ c.filePk,
           fileName := nodup_map_filter _ _ c.fileName, fileBlobU := nodup_map_filter _ _ c.fileBlobU,
           blobPk := nodup_map_filter _ _ c.blobPk, blobName := nodup_map_filter _ _ c.blobName,
           keyPk := c.keyPk, keyKid := c.keyKid, linkU := nodup_filter _ c.linkU, mpsPk := c.mpsPk,
           periodPk := nodup_map_filter _ _ c.periodPk, adpPk := nodup_map_filter _ _ c.adpPk,
           fileStream := ?_, fileBlob := ?_, linkFile := ?_, linkKey := ?_, periodParent := ?_,
           periodStream := ?_, adpPeriod := ?_, tref := ?_ }
  · have := c.fileStream; grind
  · intro f hf
    simp only [List.mem_filter, bne_iff_ne, ne_eq] at hf
    obtain ⟨b, hb, e⟩ := List.mem_map.mp (c.fileBlob f hf.1)
    refine List.mem_map.mpr ⟨b, List.mem_filter.mpr ⟨hb, ?_⟩, e⟩
    simp only [Bool.not_eq_true', List.any_eq_false, List.mem_filter, beq_iff_eq, and_imp]
    intro g hg hgk hgb
    have := inj_of_nodup_map (·.blob) c.fileBlobU hg hf.1 (by simp [hgb, e])
    subst this
    exact hf.2 hgk
  · intro l hl
    simp only [List.mem_filter, Bool.not_eq_true', List.any_eq_false, beq_iff_eq, and_imp] at hl
    obtain ⟨f, hf, e⟩ := List.mem_map.mp (c.linkFile l hl.1)
    refine List.mem_map.mpr ⟨f, List.mem_filter.mpr ⟨hf, ?_⟩, e⟩
    simp only [bne_iff_ne, ne_eq]
    intro hk
    exact hl.2 f hf hk e
  · intro l hl; exact c.linkKey l (List.mem_filter.mp hl).1
  · intro p hp; exact c.periodParent p (List.mem_filter.mp hp).1
  · have := c.periodStream; grind
  · intro a ha
    simp only [List.mem_filter, Bool.not_eq_true', List.any_eq_false, beq_iff_eq, and_imp] at ha
    obtain ⟨p, hp, e⟩ := List.mem_map.mp (c.adpPeriod a ha.1)
    refine List.mem_map.mpr ⟨p, List.mem_filter.mpr ⟨hp, ?_⟩, e⟩
    simp only [bne_iff_ne, ne_eq]
    intro hk
    exact ha.2 p hp hk e
  · intro st hst n hn
    simp only [List.mem_filter, bne_iff_ne, ne_eq] at hst
    obtain ⟨f, hf, e1, e2⟩ := c.tref st hst.1 n hn
    refine ⟨f, List.mem_filter.mpr ⟨hf, ?_⟩, e1, e2⟩
    simp only [bne_iff_ne, ne_eq, e2]
    exact hst.2

theorem uniq_dropStream {s : St} (u : Uniq s) (k : Nat) : Uniq (dropStream s k) := by
  unfold dropStream
  exact ⟨nodup_map_filter _ _ u.streamDir, u.mpsName, nodup_map_filter _ _ u.periodPid,
         nodup_map_filter _ _ u.adpTrack⟩

theorem inv_delStream {s : St} (hs : Inv s) (spk : Nat) : Inv (delStream s spk).1 := by
  unfold delStream
  split
  · exact hs
  · exact ⟨core_dropStream hs.1 spk, uniq_dropStream hs.2 spk⟩

theorem inv_dropDir {s : St} (hs : Inv s) (dir : String) :
    Inv (dropDir s dir) ∧ dir ∉ (dropDir s dir).streams.map (·.dir) := by
  unfold dropDir
  split
  · next st hst =>
    obtain ⟨hstm, hstd⟩ := find?_pk_mem hst
    simp only [beq_iff_eq] at hstd
    refine ⟨⟨core_dropStream hs.1 st.pk, uniq_dropStream hs.2 st.pk⟩, ?_⟩
    intro h
    obtain ⟨x, hx, e⟩ := List.mem_map.mp h
    simp only [dropStream, List.mem_filter, bne_iff_ne, ne_eq] at hx
    have := inj_of_nodup_map (·.dir) hs.2.streamDir hx.1 hstm (by simp [e, hstd])
    subst this
    exact hx.2 rfl
  · next hnone =>
    refine ⟨hs, ?_⟩
    intro h
    obtain ⟨x, hx, e⟩ := List.mem_map.mp h
    have := List.find?_eq_none.mp hnone x hx
    simp [e] at this

theorem inv_addStream {s : St} (hs : Inv s) (dir title : String) : Inv (addStream s dir title).1 := by
  unfold addStream
  obtain ⟨h1, h2⟩ := inv_dropDir hs dir
  exact inv_appendStream h1 dir title h2

/-! ### keys -/

theorem inv_addKey {s : St} (hs : Inv s) (kid : String) (computed : Bool) :
    Inv (addKey s kid computed).1 := by
  unfold addKey
  split
  · exact hs
  · next hany =>
    obtain ⟨c, u⟩ := hs
    have hkid : kid ∉ s.keys.map (·.kid) := by
      intro h
      obtain ⟨x, hx, e⟩ := List.mem_map.mp h
      exact hany (List.any_eq_true.mpr ⟨x, hx, by simp [e]⟩)
    refine ⟨{ c with keyPk := ?_, keyKid := ?_, linkKey := ?_ }, u.of_eq rfl rfl rfl rfl⟩
    · exact nodup_map_snoc _ c.keyPk (fresh_not_mem _)
    · exact nodup_map_snoc _ c.keyKid hkid
    · intro l hl; simp only [List.map_append, List.mem_append]; exact Or.inl (c.linkKey l hl)

theorem inv_editKey {s : St} (hs : Inv s) (kpk : Nat) (computed : Bool) :
    Inv (editKey s kpk computed).1 := by
  unfold editKey
  split
  · exact hs
  · obtain ⟨c, u⟩ := hs
    have hpk := map_upd_field (·.pk) (fun k : Key => k.pk == kpk)
      (fun k => { k with computed := computed }) s.keys (fun _ => rfl)
    have hkid := map_upd_field (·.kid) (fun k : Key => k.pk == kpk)
      (fun k => { k with computed := computed }) s.keys (fun _ => rfl)
    refine ⟨{ c with keyPk := ?_, keyKid := ?_, linkKey := ?_ }, u.of_eq rfl rfl rfl rfl⟩
    · simp only [hpk]; exact c.keyPk
    · simp only [hkid]; exact c.keyKid
    · simp only [hpk]; exact c.linkKey

theorem core_dropKey {s : St} (c : Core s) (k : Nat) : Core (dropKey s k) := by
  unfold dropKey
  refine { c with keyPk := nodup_map_filter _ _ c.keyPk, keyKid := nodup_map_filter _ _ c.keyKid,
                  linkU := nodup_filter _ c.linkU, linkFile := ?_, linkKey := ?_ }
  · intro l hl; exact c.linkFile l (List.mem_filter.mp hl).1
  · have := c.linkKey; grind

theorem inv_delKey {s : St} (hs : Inv s) (kpk : Nat) : Inv (delKey s kpk).1 := by
  unfold delKey
  split
  · exact hs
  · exact ⟨core_dropKey hs.1 kpk, hs.2.of_eq rfl rfl rfl rfl⟩

/-! ### media files -/

theorem core_dropFile {s : St} (c : Core s) {f : MediaFile} (hf : f ∈ s.files)
    (ht : ∀ st ∈ s.streams, st.tref = some f.name → st.pk ≠ f.stream) : Core (dropFile s f) := by
  unfold dropFile
  refine { c with filePk := nodup_map_filter _ _ c.filePk, fileName := nodup_map_filter _ _ c.fileName,
                  fileBlobU := nodup_map_filter _ _ c.fileBlobU, blobPk := nodup_map_filter _ _ c.blobPk,
                  blobName := nodup_map_filter _ _ c.blobName, linkU := nodup_filter _ c.linkU,
                  fileStream := ?_, fileBlob := ?_, linkFile := ?_, linkKey := ?_, tref := ?_ }
  · intro g hg; exact c.fileStream g (List.mem_filter.mp hg).1
  · intro g hg
    simp only [List.mem_filter, bne_iff_ne, ne_eq] at hg
    obtain ⟨b, hb, e⟩ := List.mem_map.mp (c.fileBlob g hg.1)
    refine List.mem_map.mpr ⟨b, List.mem_filter.mpr ⟨hb, ?_⟩, e⟩
    simp only [bne_iff_ne, ne_eq, e]
    intro hgb
    have := inj_of_nodup_map (·.blob) c.fileBlobU hg.1 hf hgb
    subst this
    exact hg.2 rfl
  · intro l hl
    simp only [List.mem_filter, bne_iff_ne, ne_eq] at hl
    obtain ⟨g, hg, e⟩ := List.mem_map.mp (c.linkFile l hl.1)
    refine List.mem_map.mpr ⟨g, List.mem_filter.mpr ⟨hg, ?_⟩, e⟩
    simp only [bne_iff_ne, ne_eq, e]
    exact hl.2
  · intro l hl; exact c.linkKey l (List.mem_filter.mp hl).1
  · intro st hst n hn
    obtain ⟨g, hg, e1, e2⟩ := c.tref st hst n hn
    refine ⟨g, List.mem_filter.mpr ⟨hg, ?_⟩, e1, e2⟩
    simp only [bne_iff_ne, ne_eq]
    intro hpk
    have := inj_of_nodup_map (·.pk) c.filePk hg hf hpk
    subst this
    exact ht st hst (by rw [hn, e1]) e2.symm

theorem inv_delMedia {s : St} (hs : Inv s) (spk mfid : Nat) : Inv (delMedia s spk mfid).1 := by
  unfold delMedia
  split
  · exact hs
  · split
    · exact hs
    · next f hf =>
      obtain ⟨c, u⟩ := hs
      have hfm := (find?_pk_mem hf).1
      have hpk := map_upd_field (·.pk) (fun x : Stream => x.pk == f.stream && x.tref == some f.name)
        (fun x => { x with tref := none }) s.streams (fun _ => rfl)
      have hdir := map_upd_field (·.dir) (fun x : Stream => x.pk == f.stream && x.tref == some f.name)
        (fun x => { x with tref := none }) s.streams (fun _ => rfl)
      have c1 : Core { s with streams := s.streams.map (fun x =>
          if x.pk == f.stream && x.tref == some f.name then { x with tref := none } else x) } := by
        refine { c with streamPk := ?_, fileStream := ?_, periodStream := ?_, tref := ?_ }
        · simp only [hpk]; exact c.streamPk
        · simp only [hpk]; exact c.fileStream
        · simp only [hpk]; exact c.periodStream
        · intro x hx n hn
          simp only [List.mem_map] at hx
          obtain ⟨y, hy, rfl⟩ := hx
          split at hn
          · simp at hn
          · next hc =>
            simp only [hc]
            exact c.tref y hy n hn
      refine ⟨core_dropFile c1 hfm ?_, ?_⟩
      · intro x hx hxt
        simp only [List.mem_map] at hx
        obtain ⟨y, hy, rfl⟩ := hx
        split at hxt
        · simp at hxt
        · next hc =>
          simp only [hc]
          intro hpk'
          apply hc
          simp only [Bool.false_eq_true, if_false] at hpk'
          simp [hpk', hxt]
      · exact ⟨by simp only [dropFile, hdir]; exact u.streamDir, u.mpsName, u.periodPid, u.adpTrack⟩

/-! ### multi-period streams -/

theorem core_dropMps {s : St} (c : Core s) (k : Nat) : Core (dropMps s k) := by
  unfold dropMps
  refine { c with mpsPk := nodup_map_filter _ _ c.mpsPk, periodPk := nodup_map_filter _ _ c.periodPk,
                  adpPk := nodup_map_filter _ _ c.adpPk, periodParent := ?_, periodStream := ?_,
                  adpPeriod := ?_ }
  · have := c.periodParent; grind
  · intro p hp; exact c.periodStream p (List.mem_filter.mp hp).1
  · intro a ha
    simp only [List.mem_filter, Bool.not_eq_true', List.any_eq_false, beq_iff_eq, and_imp] at ha
    obtain ⟨p, hp, e⟩ := List.mem_map.mp (c.adpPeriod a ha.1)
    refine List.mem_map.mpr ⟨p, List.mem_filter.mpr ⟨hp, ?_⟩, e⟩
    simp only [bne_iff_ne, ne_eq]
    intro hk
    exact ha.2 p hp hk e

theorem uniq_dropMps {s : St} (u : Uniq s) (k : Nat) : Uniq (dropMps s k) := by
  unfold dropMps
  exact ⟨u.streamDir, nodup_map_filter _ _ u.mpsName, nodup_map_filter _ _ u.periodPid,
         nodup_map_filter _ _ u.adpTrack⟩

theorem inv_delMps {s : St} (hs : Inv s) (name : String) : Inv (delMps s name).1 := by
  unfold delMps
  split
  · exact hs
  · exact ⟨core_dropMps hs.1 _, uniq_dropMps hs.2 _⟩

/-! ### indexing -/

/-- the timing references only look at (name, stream) of the files -/
theorem tref_of_files {s s' : St} (h : TrefOK s) (hs : s'.streams = s.streams)
    (hf : s'.files.map (fun f => (f.name, f.stream)) = s.files.map (fun f => (f.name, f.stream))) :
    TrefOK s' := by
  intro st hst n hn
  rw [hs] at hst
  obtain ⟨f, hfm, e1, e2⟩ := h st hst n hn
  have : (n, st.pk) ∈ s'.files.map (fun f => (f.name, f.stream)) := by
    rw [hf]; exact List.mem_map.mpr ⟨f, hfm, by simp [e1, e2]⟩
  obtain ⟨g, hg, e⟩ := List.mem_map.mp this
  simp only [Prod.mk.injEq] at e
  exact ⟨g, hg, e.1, e.2⟩

theorem linkKids_spec (mf : Nat) (kids : List String) :
    ∀ (keys : List Key) (links : List (Nat × Nat)),
    (keys.map (·.pk)).Nodup → (keys.map (·.kid)).Nodup → links.Nodup →
    (∀ l ∈ links, l.2 ∈ keys.map (·.pk)) →
    ((linkKids keys links mf kids).1.map (·.pk)).Nodup ∧
    ((linkKids keys links mf kids).1.map (·.kid)).Nodup ∧
    (linkKids keys links mf kids).2.Nodup ∧
    (∀ l ∈ (linkKids keys links mf kids).2, l.2 ∈ (linkKids keys links mf kids).1.map (·.pk)) ∧
    (∀ l ∈ (linkKids keys links mf kids).2, l ∈ links ∨ l.1 = mf) := by
  induction kids with
  | nil => intro keys links h1 h2 h3 h4; exact ⟨h1, h2, h3, h4, fun l hl => Or.inl hl⟩
  | cons kid rest ih =>
    intro keys links h1 h2 h3 h4
    unfold linkKids
    split
    · next k hk =>
      obtain ⟨hkm, _⟩ := find?_pk_mem hk
      have hkpk : k.pk ∈ keys.map (·.pk) := List.mem_map.mpr ⟨k, hkm, rfl⟩
      by_cases hc : links.contains (mf, k.pk) = true
      · simp only [hc, if_true]
        exact ih keys links h1 h2 h3 h4
      · simp only [hc]
        have hnm : (mf, k.pk) ∉ links := by simpa using hc
        obtain ⟨a, b, c, d, e⟩ := ih keys (links ++ [(mf, k.pk)]) h1 h2
          (by
            rw [List.nodup_append]
            refine ⟨h3, by simp, ?_⟩
            intro x hx y hy
            simp only [List.mem_singleton] at hy
            subst hy; intro e; subst e; exact hnm hx)
          (by
            intro l hl
            simp only [List.mem_append, List.mem_singleton] at hl
            rcases hl with hl | rfl
            · exact h4 l hl
            · exact hkpk)
        refine ⟨a, b, c, d, ?_⟩
        intro l hl
        rcases e l hl with h | h
        · simp only [List.mem_append, List.mem_singleton] at h
          rcases h with h | rfl
          · exact Or.inl h
          · exact Or.inr rfl
        · exact Or.inr h
    · next hk =>
      have hkid : kid ∉ keys.map (·.kid) := by
        intro h
        obtain ⟨x, hx, e⟩ := List.mem_map.mp h
        have := List.find?_eq_none.mp hk x hx
        simp [e] at this
      have hfresh := fresh_not_mem (keys.map (·.pk))
      obtain ⟨a, b, c, d, e⟩ := ih
        (keys ++ [{ pk := fresh (keys.map (·.pk)), kid := kid, computed := true }])
        (links ++ [(mf, fresh (keys.map (·.pk)))])
        (nodup_map_snoc _ h1 hfresh) (nodup_map_snoc _ h2 hkid)
        (by
          rw [List.nodup_append]
          refine ⟨h3, by simp, ?_⟩
          intro x hx y hy
          simp only [List.mem_singleton] at hy
          subst hy; intro e; subst e; exact hfresh (h4 _ hx))
        (by
          intro l hl
          simp only [List.mem_append, List.mem_singleton, List.map_append, List.map_cons, List.map_nil] at hl ⊢
          rcases hl with hl | rfl
          · exact Or.inl (h4 l hl)
          · exact Or.inr rfl)
      refine ⟨a, b, c, d, ?_⟩
      intro l hl
      rcases e l hl with h | h
      · simp only [List.mem_append, List.mem_singleton] at h
        rcases h with h | rfl
        · exact Or.inl h
        · exact Or.inr rfl
      · exact Or.inr h

theorem core0_applyIndex {s : St} (c : Core0 s) (mfid : Nat) (hm : mfid ∈ s.files.map (·.pk))
    (ct : Content) : Core0 (applyIndex s mfid ct) := by
  have hfl : ∀ l ∈ s.links.filter (·.1 != mfid), l.2 ∈ s.keys.map (·.pk) :=
    fun l hl => c.linkKey l (List.mem_filter.mp hl).1
  obtain ⟨k1, k2, k3, k4, k5⟩ := linkKids_spec mfid ct.kids s.keys (s.links.filter (·.1 != mfid))
    c.keyPk c.keyKid (nodup_filter _ c.linkU) hfl
  unfold applyIndex
  have hpk := map_upd_field (·.pk) (fun f : MediaFile => f.pk == mfid)
    (fun f => { f with rep := some { track := ct.track, ctype := ct.ctype, enc := ct.enc },
                       errs := if ct.badlang then [errBadLang] else [] }) s.files (fun _ => rfl)
  have hname := map_upd_field (·.name) (fun f : MediaFile => f.pk == mfid)
    (fun f => { f with rep := some { track := ct.track, ctype := ct.ctype, enc := ct.enc },
                       errs := if ct.badlang then [errBadLang] else [] }) s.files (fun _ => rfl)
  have hblob := map_upd_field (·.blob) (fun f : MediaFile => f.pk == mfid)
    (fun f => { f with rep := some { track := ct.track, ctype := ct.ctype, enc := ct.enc },
                       errs := if ct.badlang then [errBadLang] else [] }) s.files (fun _ => rfl)
  refine { c with filePk := ?_, fileName := ?_, fileBlobU := ?_, keyPk := k1, keyKid := k2, linkU := k3,
                  fileStream := ?_, fileBlob := ?_, linkFile := ?_, linkKey := k4 }
  · simp only [hpk]; exact c.filePk
  · simp only [hname]; exact c.fileName
  · simp only [hblob]; exact c.fileBlobU
  · exact forall_map_upd (fun f : MediaFile => f.stream ∈ s.streams.map (fun x : Stream => x.pk))
      (fun f : MediaFile => f.pk == mfid)
      (fun f => { f with rep := some { track := ct.track, ctype := ct.ctype, enc := ct.enc },
                         errs := if ct.badlang then [errBadLang] else [] }) _ c.fileStream (fun _ h => h)
  · exact forall_map_upd (fun f : MediaFile => f.blob ∈ s.blobs.map (fun x : Blob => x.pk))
      (fun f : MediaFile => f.pk == mfid)
      (fun f => { f with rep := some { track := ct.track, ctype := ct.ctype, enc := ct.enc },
                         errs := if ct.badlang then [errBadLang] else [] }) _ c.fileBlob (fun _ h => h)
  · intro l hl
    simp only [hpk]
    rcases k5 l hl with h | h
    · exact c.linkFile l (List.mem_filter.mp h).1
    · rw [h]; exact hm

theorem tref_applyIndex {s : St} (h : TrefOK s) (mfid : Nat) (ct : Content) :
    TrefOK (applyIndex s mfid ct) := by
  apply tref_of_files (s' := applyIndex s mfid ct) h rfl
  unfold applyIndex
  exact map_upd_field (fun f => (f.name, f.stream)) (fun f : MediaFile => f.pk == mfid)
    (fun f => { f with rep := some { track := ct.track, ctype := ct.ctype, enc := ct.enc },
                       errs := if ct.badlang then [errBadLang] else [] }) s.files (fun _ => rfl)

theorem uniq_applyIndex {s : St} (u : Uniq s) (mfid : Nat) (ct : Content) :
    Uniq (applyIndex s mfid ct) := u.of_eq rfl rfl rfl rfl

theorem findFile_mem {s : St} {k : Nat} {f : MediaFile} (h : findFile s k = some f) :
    f ∈ s.files ∧ f.pk = k := by
  obtain ⟨a, b⟩ := find?_pk_mem h
  exact ⟨a, by simpa using b⟩

theorem inv_index {s : St} (hs : Inv s) (mfid : Nat) : Inv (index s mfid).1 := by
  unfold index
  split
  · exact hs
  · next f hf =>
    split
    · exact hs
    · split
      · obtain ⟨hm, hk⟩ := findFile_mem hf
        have hmem : mfid ∈ s.files.map (·.pk) := List.mem_map.mpr ⟨f, hm, hk⟩
        exact ⟨⟨core0_applyIndex hs.1.toCore0 mfid hmem _, tref_applyIndex hs.1.tref mfid _⟩,
               uniq_applyIndex hs.2 mfid _⟩
      · exact hs

/-! ### upload -/

theorem Core0.of_eq {s s' : St} (c : Core0 s) (h1 : s'.streams = s.streams) (h2 : s'.files = s.files)
    (h3 : s'.blobs = s.blobs) (h4 : s'.keys = s.keys) (h5 : s'.links = s.links) (h6 : s'.mps = s.mps)
    (h7 : s'.periods = s.periods) (h8 : s'.adps = s.adps) : Core0 s' := by
  obtain ⟨a1, a2, a3, a4, a5, a6, a7, a8, a9, a10, a11, a12, a13, a14, a15, a16, a17, a18, a19⟩ := c
  constructor <;> simp only [h1, h2, h3, h4, h5, h6, h7, h8] <;> assumption

theorem core0_dropFile {s : St} (c : Core0 s) {f : MediaFile} (hf : f ∈ s.files) :
    Core0 (dropFile s f) := by
  unfold dropFile
  refine { c with filePk := nodup_map_filter _ _ c.filePk, fileName := nodup_map_filter _ _ c.fileName,
                  fileBlobU := nodup_map_filter _ _ c.fileBlobU, blobPk := nodup_map_filter _ _ c.blobPk,
                  blobName := nodup_map_filter _ _ c.blobName, linkU := nodup_filter _ c.linkU,
                  fileStream := ?_, fileBlob := ?_, linkFile := ?_, linkKey := ?_ }
  · intro g hg; exact c.fileStream g (List.mem_filter.mp hg).1
  · intro g hg
    simp only [List.mem_filter, bne_iff_ne, ne_eq] at hg
    obtain ⟨b, hb, e⟩ := List.mem_map.mp (c.fileBlob g hg.1)
    refine List.mem_map.mpr ⟨b, List.mem_filter.mpr ⟨hb, ?_⟩, e⟩
    simp only [bne_iff_ne, ne_eq, e]
    intro hgb
    have := inj_of_nodup_map (·.blob) c.fileBlobU hg.1 hf hgb
    subst this
    exact hg.2 rfl
  · intro l hl
    simp only [List.mem_filter, bne_iff_ne, ne_eq] at hl
    obtain ⟨g, hg, e⟩ := List.mem_map.mp (c.linkFile l hl.1)
    refine List.mem_map.mpr ⟨g, List.mem_filter.mpr ⟨hg, ?_⟩, e⟩
    simp only [bne_iff_ne, ne_eq, e]
    exact hl.2
  · intro l hl; exact c.linkKey l (List.mem_filter.mp hl).1

/-- deleting a blob row that no media file uses -/
theorem core0_dropBlob {s : St} (c : Core0 s) (k : Nat) (h : k ∉ s.files.map (·.blob)) :
    Core0 { s with blobs := s.blobs.filter (·.pk != k) } := by
  refine { c with blobPk := nodup_map_filter _ _ c.blobPk, blobName := nodup_map_filter _ _ c.blobName,
                  fileBlob := ?_ }
  intro g hg
  obtain ⟨b, hb, e⟩ := List.mem_map.mp (c.fileBlob g hg)
  refine List.mem_map.mpr ⟨b, List.mem_filter.mpr ⟨hb, ?_⟩, e⟩
  simp only [bne_iff_ne, ne_eq, e]
  intro hk
  exact h (List.mem_map.mpr ⟨g, hg, hk⟩)

/-- adding a media file with a new blob -/
theorem core0_addFile {s : St} (c : Core0 s) (stem fn : String) (spk : Nat)
    (hspk : spk ∈ s.streams.map (·.pk)) (hname : stem ∉ s.files.map (·.name))
    (hfn : fn ∉ s.blobs.map (·.filename)) :
    Core0 { s with
      blobs := s.blobs ++ [{ pk := fresh (s.blobs.map (·.pk)), filename := fn }],
      files := s.files ++ [{ pk := fresh (s.files.map (·.pk)), name := stem, stream := spk,
                             blob := fresh (s.blobs.map (·.pk)), rep := none, errs := [] }] } := by
  have hb := fresh_not_mem (s.blobs.map (·.pk))
  refine { c with filePk := nodup_map_snoc _ c.filePk (fresh_not_mem _),
                  fileName := nodup_map_snoc _ c.fileName hname,
                  fileBlobU := nodup_map_snoc _ c.fileBlobU ?_,
                  blobPk := nodup_map_snoc _ c.blobPk hb,
                  blobName := nodup_map_snoc _ c.blobName hfn,
                  fileStream := ?_, fileBlob := ?_, linkFile := ?_ }
  · intro h
    obtain ⟨g, hg, e⟩ := List.mem_map.mp h
    simp only at e
    have := c.fileBlob g hg
    rw [e] at this
    exact hb this
  · intro g hg
    simp only [List.mem_append, List.mem_singleton] at hg
    rcases hg with hg | rfl
    · exact c.fileStream g hg
    · exact hspk
  · intro g hg
    simp only [List.mem_append, List.mem_singleton, List.map_append, List.map_cons, List.map_nil] at hg ⊢
    rcases hg with hg | rfl
    · exact Or.inl (c.fileBlob g hg)
    · exact Or.inr rfl
  · intro l hl
    simp only [List.map_append, List.mem_append]
    exact Or.inl (c.linkFile l hl)

theorem findStream_mem {s : St} {k : Nat} {st : Stream} (h : findStream s k = some st) :
    st ∈ s.streams ∧ st.pk = k := by
  obtain ⟨a, b⟩ := find?_pk_mem h
  exact ⟨a, by simpa using b⟩

/-- the rows after `if mf: mf.delete()` of an accepted upload -/
theorem dropOpt_spec {s : St} (c : Core0 s) (spk : Nat) (stem fn : String) (mf : Option MediaFile)
    (hmf : s.files.find? (fun x => x.name == stem) = mf)
    (hacc : uploadRefused s spk fn mf = false) :
    ∀ s1 : St, s1 = dropOpt s mf →
      Core0 s1 ∧ s1.streams = s.streams ∧ s1.mps = s.mps ∧ s1.periods = s.periods ∧ s1.adps = s.adps ∧
      stem ∉ s1.files.map (·.name) ∧
      (∀ g ∈ s1.files, g ∈ s.files) ∧ (∀ b ∈ s1.blobs, b ∈ s.blobs) ∧
      (∀ f, mf = some f → (∀ g ∈ s1.files, g.pk ≠ f.pk) ∧ (∀ b ∈ s1.blobs, b.pk ≠ f.blob) ∧
             f.stream = spk ∧ f.name = stem ∧ f ∈ s.files) ∧
      (∀ g ∈ s.files, (∀ f, mf = some f → g.pk ≠ f.pk) → g ∈ s1.files) := by
  simp only [uploadRefused, Bool.or_eq_false_iff] at hacc
  obtain ⟨hforeign, htaken⟩ := hacc
  intro s1 e
  cases mf with
  | none =>
    simp only [dropOpt] at e
    subst e
    refine ⟨c, rfl, rfl, rfl, rfl, ?_, fun g hg => hg, fun b hb => hb, by simp, fun g hg _ => hg⟩
    intro h
    obtain ⟨g, hg, e⟩ := List.mem_map.mp h
    have := List.find?_eq_none.mp hmf g hg
    simp [e] at this
  | some f =>
    simp only [dropOpt] at e
    subst e
    obtain ⟨hfm, hfn⟩ := find?_pk_mem hmf
    simp only [beq_iff_eq] at hfn
    refine ⟨core0_dropFile c hfm, rfl, rfl, rfl, rfl, ?_, ?_, ?_, ?_, ?_⟩
    · intro h
      obtain ⟨g, hg, e⟩ := List.mem_map.mp h
      simp only [dropFile, List.mem_filter, bne_iff_ne, ne_eq] at hg
      have := inj_of_nodup_map (·.name) c.fileName hg.1 hfm (by simp [e, hfn])
      subst this
      exact hg.2 rfl
    · intro g hg; exact (List.mem_filter.mp hg).1
    · intro b hb; exact (List.mem_filter.mp hb).1
    · intro f' hf'
      simp only [Option.some.injEq] at hf'
      subst hf'
      refine ⟨?_, ?_, ?_, hfn, hfm⟩
      · intro g hg
        simp only [dropFile, List.mem_filter, bne_iff_ne, ne_eq] at hg
        exact hg.2
      · intro b hb
        simp only [dropFile, List.mem_filter, bne_iff_ne, ne_eq] at hb
        exact hb.2
      · simpa using hforeign
    · intro g hg hne
      simp only [dropFile, List.mem_filter, bne_iff_ne, ne_eq]
      exact ⟨hg, hne f rfl⟩

/-- the blob table after the ownerless blob row of that file name is deleted: no
remaining media file used it, and the file name is free -/
theorem dropOrphan_spec {s : St} (c : Core0 s) (spk : Nat) (stem fn : String) (mf : Option MediaFile)
    (hmf : s.files.find? (fun x => x.name == stem) = mf)
    (hacc : uploadRefused s spk fn mf = false) (s1 : St) (hs1e : s1 = dropOpt s mf) :
    ∀ blobs2 : List Blob, blobs2 = dropOrphan s1.blobs fn →
      Core0 { s1 with blobs := blobs2 } ∧ fn ∉ blobs2.map (·.filename) ∧ (∀ b ∈ blobs2, b ∈ s1.blobs) := by
  obtain ⟨c1, e1, e2, e3, e4, hn1, hf1, hb1, hmf1, hkeep⟩ := dropOpt_spec c spk stem fn mf hmf hacc s1 hs1e
  simp only [uploadRefused, Bool.or_eq_false_iff] at hacc
  obtain ⟨hforeign, htaken⟩ := hacc
  intro blobs2 e
  unfold dropOrphan at e
  generalize horph : s1.blobs.find? (fun x => x.filename == fn) = orphan at e
  cases orphan with
  | none =>
    subst e
    refine ⟨c1.of_eq rfl rfl rfl rfl rfl rfl rfl rfl, ?_, fun b hb => hb⟩
    intro h
    obtain ⟨b, hb, e⟩ := List.mem_map.mp h
    have := List.find?_eq_none.mp horph b hb
    simp [e] at this
  | some b =>
    subst e
    obtain ⟨hbm, hbn⟩ := find?_pk_mem horph
    simp only [beq_iff_eq] at hbn
    refine ⟨core0_dropBlob c1 b.pk ?_, ?_, fun b' hb' => (List.mem_filter.mp hb').1⟩
    · -- no remaining media file owns `b`
      intro h
      obtain ⟨g, hg, hgb⟩ := List.mem_map.mp h
      have hgs := hf1 g hg
      have hbs := hb1 b hbm
      -- `b` is the blob of that name in `s`
      have hfind : ∃ b0, s.blobs.find? (fun x => x.filename == fn) = some b0 := by
        cases hq : s.blobs.find? (fun x => x.filename == fn) with
        | none =>
          have := List.find?_eq_none.mp hq b hbs
          simp [hbn] at this
        | some b0 => exact ⟨b0, rfl⟩
      obtain ⟨b0, hb0⟩ := hfind
      obtain ⟨hb0m, hb0n⟩ := find?_pk_mem hb0
      simp only [beq_iff_eq] at hb0n
      have hbb : b0 = b := inj_of_nodup_map (·.filename) c.blobName hb0m hbs (by simp [hb0n, hbn])
      subst hbb
      -- its owner in `s` is `g`
      have hown : ∃ o, s.files.find? (fun x => x.blob == b0.pk) = some o := by
        cases hq : s.files.find? (fun x => x.blob == b0.pk) with
        | none =>
          have := List.find?_eq_none.mp hq g hgs
          simp [hgb] at this
        | some o => exact ⟨o, rfl⟩
      obtain ⟨o, ho⟩ := hown
      obtain ⟨hom, hob⟩ := find?_pk_mem ho
      simp only [beq_iff_eq] at hob
      have hog : o = g := inj_of_nodup_map (·.blob) c.fileBlobU hom hgs (by simp [hob, hgb])
      subst hog
      simp only [hb0, ho] at htaken
      cases mf with
      | none => simp at htaken
      | some f =>
        simp only [bne_eq_false_iff_eq] at htaken
        exact (hmf1 f rfl).1 o hg htaken
    · intro h
      obtain ⟨b', hb', e⟩ := List.mem_map.mp h
      simp only [List.mem_filter, bne_iff_ne, ne_eq] at hb'
      have := inj_of_nodup_map (·.filename) c1.blobName hb'.1 hbm (by simp [e, hbn])
      subst this
      exact hb'.2 rfl

theorem inv_uploadAccepted {s : St} (hs : Inv s) (st : Stream) (hstm : st ∈ s.streams)
    (stem suffix : String) (ct : Content) (mf : Option MediaFile)
    (hmf : s.files.find? (fun x => x.name == stem) = mf)
    (hacc : uploadRefused s st.pk (stem ++ suffix) mf = false) :
    Inv (uploadAccepted s st stem suffix ct mf) := by
  have hspk : st.pk ∈ s.streams.map (·.pk) := List.mem_map.mpr ⟨st, hstm, rfl⟩
  obtain ⟨⟨c, ht⟩, u⟩ := hs
  unfold uploadAccepted
  simp only
  generalize hs1e : dropOpt s mf = s1
  obtain ⟨c1, e1, e2, e3, e4, hn1, hf1, hb1, hmf1, hkeep⟩ :=
    dropOpt_spec c st.pk stem (stem ++ suffix) mf hmf hacc s1 hs1e.symm
  generalize hb2e : dropOrphan s1.blobs (stem ++ suffix) = blobs2
  obtain ⟨c2, hfn2, _⟩ := dropOrphan_spec c st.pk stem (stem ++ suffix) mf hmf hacc s1 hs1e.symm blobs2 hb2e.symm
  have hspk1 : st.pk ∈ ({ s1 with blobs := blobs2 } : St).streams.map (fun x : Stream => x.pk) := by
    simp only [e1]; exact hspk
  have c3 := core0_addFile c2 stem (stem ++ suffix) st.pk hspk1 hn1 hfn2
  refine ⟨⟨c3.of_eq rfl rfl rfl rfl rfl rfl rfl rfl, ?_⟩, u.of_eq e1 e2 e3 e4⟩
  -- timing references: the replaced file is still there under its name
  intro x hx n hn
  simp only [e1] at hx
  obtain ⟨g, hg, hgn, hgs⟩ := ht x hx n hn
  by_cases hgf : ∃ f, mf = some f ∧ g.pk = f.pk
  · obtain ⟨f, hf, hpk⟩ := hgf
    obtain ⟨_, _, hfs, hfn, hfm⟩ := hmf1 f hf
    have : g = f := inj_of_nodup_map (·.pk) c.filePk hg hfm hpk
    subst this
    refine ⟨_, List.mem_append.mpr (Or.inr (List.mem_singleton.mpr rfl)), ?_, ?_⟩
    · simp only; rw [← hgn, hfn]
    · simp only; rw [← hgs, hfs]
  · exact ⟨g, List.mem_append.mpr (Or.inl (hkeep g hg (fun f hf hpk => hgf ⟨f, hf, hpk⟩))), hgn, hgs⟩

theorem inv_upload {s : St} (hs : Inv s) (spk : Nat) (stem suffix : String) (ct : Content) :
    Inv (upload s spk stem suffix ct).1 := by
  unfold upload
  split
  · exact hs
  · next st hst =>
    obtain ⟨hstm, hstk⟩ := findStream_mem hst
    subst hstk
    simp only
    split
    · exact hs
    · next hacc =>
      exact inv_uploadAccepted hs st hstm stem suffix ct _ rfl (by simpa using hacc)

/-! ### editing a media file -/

theorem nodup_blob_replace (l : List MediaFile) (k v : Nat) (hpk : (l.map (·.pk)).Nodup)
    (hb : (l.map (·.blob)).Nodup) (hv : v ∉ l.map (·.blob)) :
    ((l.map (fun x => if x.pk == k then { x with blob := v } else x)).map (·.blob)).Nodup := by
  induction l with
  | nil => simp
  | cons a l ih =>
    simp only [List.map_cons, List.nodup_cons, List.mem_map, not_exists, not_and] at hpk hb hv ⊢
    simp only [List.mem_cons, not_or] at hv
    have hvl : v ∉ l.map (·.blob) := hv.2
    refine ⟨?_, ih hpk.2 hb.2 hvl⟩
    rintro y ⟨x, hx, rfl⟩
    by_cases hak : (a.pk == k) = true
    · have hxk : ¬ (x.pk == k) = true := by
        intro hxk
        exact hpk.1 x hx (by rw [beq_iff_eq.mp hxk, beq_iff_eq.mp hak])
      simp only [hak, hxk, Bool.false_eq_true, if_true, if_false]
      intro e
      exact hvl (List.mem_map.mpr ⟨x, hx, e⟩)
    · by_cases hxk : (x.pk == k) = true
      · simp only [hak, hxk, Bool.false_eq_true, if_true, if_false]
        intro e
        exact hv.1 e
      · simp only [hak, hxk, Bool.false_eq_true, if_false]
        exact hb.1 x hx

theorem inv_editMediaApply {s : St} (hs : Inv s) {f : MediaFile} (hf : f ∈ s.files) (nn : String)
    (hnn : nn ∉ s.blobs.map (·.filename)) (ct : Content) : Inv (editMediaApply s f nn ct) := by
  obtain ⟨⟨c, ht⟩, u⟩ := hs
  have hfr := fresh_not_mem (s.blobs.map (·.pk))
  have hfb : f.blob ∈ s.blobs.map (·.pk) := c.fileBlob f hf
  have hv : fresh (s.blobs.map (·.pk)) ∉ s.files.map (·.blob) := by
    intro h; obtain ⟨g, hg, e⟩ := List.mem_map.mp h; exact hfr (e ▸ c.fileBlob g hg)
  have hpk := map_upd_field (·.pk) (fun x : MediaFile => x.pk == f.pk)
    (fun x => { x with blob := fresh (s.blobs.map (·.pk)) }) s.files (fun _ => rfl)
  have hname := map_upd_field (·.name) (fun x : MediaFile => x.pk == f.pk)
    (fun x => { x with blob := fresh (s.blobs.map (·.pk)) }) s.files (fun _ => rfl)
  have hns := map_upd_field (fun x => (x.name, x.stream)) (fun x : MediaFile => x.pk == f.pk)
    (fun x => { x with blob := fresh (s.blobs.map (·.pk)) }) s.files (fun _ => rfl)
  -- the new blob row and the re-pointed media file
  have c1 : Core0 { s with
      blobs := s.blobs ++ [{ pk := fresh (s.blobs.map (·.pk)), filename := nn }],
      files := s.files.map (fun x => if x.pk == f.pk then { x with blob := fresh (s.blobs.map (·.pk)) } else x) } := by
    refine { c with filePk := ?_, fileName := ?_, fileBlobU := nodup_blob_replace _ _ _ c.filePk c.fileBlobU hv,
                    blobPk := nodup_map_snoc _ c.blobPk hfr, blobName := nodup_map_snoc _ c.blobName hnn,
                    fileStream := ?_, fileBlob := ?_, linkFile := ?_ }
    · simp only [hpk]; exact c.filePk
    · simp only [hname]; exact c.fileName
    · exact forall_map_upd (fun g : MediaFile => g.stream ∈ s.streams.map (fun x : Stream => x.pk))
        (fun x : MediaFile => x.pk == f.pk) (fun x => { x with blob := fresh (s.blobs.map (·.pk)) }) _
        c.fileStream (fun _ h => h)
    · intro g hg
      obtain ⟨x, hx, rfl⟩ := List.mem_map.mp hg
      simp only [List.map_append, List.map_cons, List.map_nil, List.mem_append, List.mem_singleton]
      split
      · exact Or.inr rfl
      · exact Or.inl (c.fileBlob x hx)
    · simp only [hpk]; exact c.linkFile
  have t1 : TrefOK { s with
      blobs := s.blobs ++ [{ pk := fresh (s.blobs.map (·.pk)), filename := nn }],
      files := s.files.map (fun x => if x.pk == f.pk then { x with blob := fresh (s.blobs.map (·.pk)) } else x) } :=
    tref_of_files ht rfl hns
  have hmem : f.pk ∈ ({ s with
      blobs := s.blobs ++ [{ pk := fresh (s.blobs.map (·.pk)), filename := nn }],
      files := s.files.map (fun x => if x.pk == f.pk then { x with blob := fresh (s.blobs.map (·.pk)) } else x) } : St).files.map
        (fun x : MediaFile => x.pk) := by
    simp only [hpk]; exact List.mem_map.mpr ⟨f, hf, rfl⟩
  have c2 := core0_applyIndex c1 f.pk hmem ct
  have t2 := tref_applyIndex t1 f.pk ct
  -- the old blob row is used by no media file any more
  have hold : f.blob ∉ (applyIndex { s with
      blobs := s.blobs ++ [{ pk := fresh (s.blobs.map (·.pk)), filename := nn }],
      files := s.files.map (fun x => if x.pk == f.pk then { x with blob := fresh (s.blobs.map (·.pk)) } else x) }
        f.pk ct).files.map (fun x : MediaFile => x.blob) := by
    unfold applyIndex
    simp only
    rw [map_upd_field (·.blob) (fun x : MediaFile => x.pk == f.pk)
      (fun x => { x with rep := some { track := ct.track, ctype := ct.ctype, enc := ct.enc },
                         errs := if ct.badlang then [errBadLang] else [] }) _ (fun _ => rfl)]
    intro h
    obtain ⟨y, hy, e⟩ := List.mem_map.mp h
    obtain ⟨x, hx, rfl⟩ := List.mem_map.mp hy
    by_cases hxk : (x.pk == f.pk) = true
    · simp only [hxk, if_true] at e
      exact hfr (e ▸ hfb)
    · simp only [hxk] at e
      have := inj_of_nodup_map (·.blob) c.fileBlobU hx hf e
      subst this
      simp at hxk
  have c3 := core0_dropBlob c2 f.blob hold
  unfold editMediaApply
  refine ⟨⟨c3.of_eq rfl rfl rfl rfl rfl rfl rfl rfl, ?_⟩, ?_⟩
  · exact tref_of_files t2 rfl rfl
  · exact u.of_eq rfl rfl rfl rfl

theorem inv_disk {s : St} (hs : Inv s) (d : List DiskFile) : Inv { s with disk := d } :=
  ⟨⟨hs.1.toCore0.of_eq rfl rfl rfl rfl rfl rfl rfl rfl, tref_of_files hs.1.tref rfl rfl⟩,
   hs.2.of_eq rfl rfl rfl rfl⟩

theorem inv_editMedia {s : St} (hs : Inv s) (spk mfid track : Nat) :
    Inv (editMedia s spk mfid track).1 := by
  unfold editMedia
  split
  · exact hs
  · split
    · exact hs
    · next f hf =>
      obtain ⟨hfm, _⟩ := findFile_mem hf
      split
      · exact hs
      · split
        · exact hs
        · split
          · exact hs
          · split
            · exact hs
            · simp only
              split
              · exact inv_disk hs _
              · next hany =>
                apply inv_disk
                apply inv_editMediaApply hs hfm
                intro h
                obtain ⟨x, hx, e⟩ := List.mem_map.mp h
                exact hany (List.any_eq_true.mpr ⟨x, hx, by simp [e]⟩)

/-! ### periods of a multi-period request -/

theorem syncTracks_spec (ppk : Nat) (ts : List Nat) : ∀ adps : List Adp,
    (adps.map (·.pk)).Nodup →
    ((syncTracks adps ppk ts).map (·.pk)).Nodup ∧
    (∀ a ∈ syncTracks adps ppk ts, a ∈ adps ∨ a.period = ppk) := by
  induction ts with
  | nil => intro adps h; exact ⟨h, fun a ha => Or.inl ha⟩
  | cons t ts ih =>
    intro adps h
    unfold syncTracks
    split
    · exact ih adps h
    · obtain ⟨a1, a2⟩ := ih (adps ++ [{ pk := fresh (adps.map (·.pk)), period := ppk, track := t }])
        (nodup_map_snoc _ h (fresh_not_mem _))
      refine ⟨a1, ?_⟩
      intro a ha
      rcases a2 a ha with h' | h'
      · simp only [List.mem_append, List.mem_singleton] at h'
        rcases h' with h' | rfl
        · exact Or.inl h'
        · exact Or.inr rfl
      · exact Or.inr h'

/-- the invariant while the Periods of one request are processed: the UNIQUE
constraints are only re-established by the flush -/
def Mid (s : St) : Prop := Core0 s ∧ TrefOK s

theorem mid_dropAdps {s : St} (h : Mid s) (d : List Nat) : Mid (dropAdps s d) := by
  obtain ⟨c, t⟩ := h
  unfold dropAdps
  refine ⟨{ c with adpPk := nodup_map_filter _ _ c.adpPk, adpPeriod := ?_ }, tref_of_files t rfl rfl⟩
  intro a ha
  exact c.adpPeriod a (List.mem_filter.mp ha).1

theorem findPeriod_mem {s : St} {mpsPk : Nat} {sp : PSpec} {q : Period}
    (h : findPeriod s mpsPk sp = some q) : q ∈ s.periods := by
  unfold findPeriod at h
  split at h <;> exact (find?_pk_mem h).1

/-- the Period table after `upsertPeriod` -/
theorem upsertPeriod_spec {s : St} (c : Core0 s) (mpsPk : Nat) (hm : mpsPk ∈ s.mps.map (·.pk))
    (sp : PSpec) (hsp : sp.stream ∈ s.streams.map (·.pk)) (ex : Option Period)
    (hex : ∀ q, ex = some q → q ∈ s.periods) :
    ((upsertPeriod s mpsPk sp ex).2.map (·.pk)).Nodup ∧
    (∀ p ∈ (upsertPeriod s mpsPk sp ex).2, p.parent ∈ s.mps.map (·.pk)) ∧
    (∀ p ∈ (upsertPeriod s mpsPk sp ex).2, p.stream ∈ s.streams.map (·.pk)) ∧
    (∀ k ∈ s.periods.map (·.pk), k ∈ (upsertPeriod s mpsPk sp ex).2.map (·.pk)) ∧
    (upsertPeriod s mpsPk sp ex).1 ∈ (upsertPeriod s mpsPk sp ex).2.map (·.pk) := by
  cases ex with
  | some q =>
    have hqm := hex q rfl
    simp only [upsertPeriod]
    have hpk := map_upd_field (·.pk) (fun x : Period => x.pk == q.pk)
      (fun x => { x with pid := sp.pid, stream := sp.stream, ordering := sp.ordering }) s.periods
      (fun _ => rfl)
    refine ⟨?_, ?_, ?_, ?_, ?_⟩
    · simp only [hpk]; exact c.periodPk
    · exact forall_map_upd (fun p : Period => p.parent ∈ s.mps.map (fun x : Mps => x.pk))
        (fun x : Period => x.pk == q.pk)
        (fun x => { x with pid := sp.pid, stream := sp.stream, ordering := sp.ordering }) _
        c.periodParent (fun _ h => h)
    · intro p hp
      obtain ⟨x, hx, rfl⟩ := List.mem_map.mp hp
      split
      · exact hsp
      · exact c.periodStream x hx
    · intro k hk; simp only [hpk]; exact hk
    · simp only [hpk]; exact List.mem_map.mpr ⟨q, hqm, rfl⟩
  | none =>
    simp only [upsertPeriod]
    refine ⟨nodup_map_snoc _ c.periodPk (fresh_not_mem _), ?_, ?_, ?_, ?_⟩
    · intro p hp
      simp only [List.mem_append, List.mem_singleton] at hp
      rcases hp with hp | rfl
      · exact c.periodParent p hp
      · exact hm
    · intro p hp
      simp only [List.mem_append, List.mem_singleton] at hp
      rcases hp with hp | rfl
      · exact c.periodStream p hp
      · exact hsp
    · intro k hk
      simp only [List.map_append, List.mem_append]
      exact Or.inl hk
    · simp

theorem mid_processPeriod {s : St} (h : Mid s) (mpsPk : Nat) (hm : mpsPk ∈ s.mps.map (·.pk))
    (sp : PSpec) {s' : St} {d : List Nat} (hp : processPeriod s mpsPk sp = some (s', d)) :
    Mid s' ∧ s'.mps = s.mps := by
  obtain ⟨c, t⟩ := h
  unfold processPeriod at hp
  split at hp
  · simp at hp
  · next st hst =>
    obtain ⟨hstm, hstk⟩ := findStream_mem hst
    have hsp : sp.stream ∈ s.streams.map (·.pk) := List.mem_map.mpr ⟨st, hstm, hstk⟩
    split at hp
    · simp at hp
    · split at hp
      · simp at hp
      · split at hp
        · simp at hp
        · split at hp
          · simp at hp
          simp only [Option.some.injEq, Prod.mk.injEq] at hp
          obtain ⟨hp, _⟩ := hp
          subst hp
          refine ⟨⟨?_, tref_of_files t rfl rfl⟩, rfl⟩
          obtain ⟨u1, u2, u3, u4, u5⟩ := upsertPeriod_spec c mpsPk hm sp hsp (findPeriod s mpsPk sp)
            (fun q hq => findPeriod_mem hq)
          obtain ⟨a1, a2⟩ := syncTracks_spec (upsertPeriod s mpsPk sp (findPeriod s mpsPk sp)).1
            sp.tracks s.adps c.adpPk
          refine { c with periodPk := u1, adpPk := a1, periodParent := u2, periodStream := u3,
                          adpPeriod := ?_ }
          intro a ha
          rcases a2 a ha with h' | h'
          · exact u4 _ (c.adpPeriod a h')
          · rw [h']; exact u5

theorem mid_processPeriods (defer : Bool) (mpsPk : Nat) (ps : List PSpec) :
    ∀ (s : St) (doomed : List Nat), Mid s → mpsPk ∈ s.mps.map (·.pk) →
    ∀ s', processPeriods defer s mpsPk ps doomed = some s' → Mid s' := by
  induction ps with
  | nil =>
    intro s doomed h _ s' hp
    simp only [processPeriods, Option.some.injEq] at hp
    subst hp
    exact mid_dropAdps h doomed
  | cons sp rest ih =>
    intro s doomed h hm s' hp
    unfold processPeriods at hp
    split at hp
    · simp at hp
    · next s1 d hpp =>
      obtain ⟨h1, e1⟩ := mid_processPeriod h mpsPk hm sp hpp
      split at hp
      · simp at hp
      · split at hp
        · exact ih s1 (doomed ++ d) h1 (e1 ▸ hm) s' hp
        · exact ih (dropAdps s1 d) doomed (mid_dropAdps h1 d) (by simpa [dropAdps, e1] using hm) s' hp

theorem inv_commit' {s s' : St} (hs : Inv s) (hm : Mid s') : Inv (commit s s').1 :=
  inv_commit hs ⟨hm.1, hm.2⟩

theorem inv_addMps {s : St} (hs : Inv s) (name title : String) (ps : List PSpec) :
    Inv (addMps s name title ps).1 := by
  unfold addMps
  split
  · exact hs
  · simp only
    split
    · exact hs
    · next s2 hp =>
      apply inv_commit' hs
      obtain ⟨⟨c, t⟩, _⟩ := hs
      have hmid : Mid { s with mps := s.mps ++
          [{ pk := fresh (s.mps.map (fun x : Mps => x.pk)), name := name, title := title }] } := by
        refine ⟨?_, tref_of_files t rfl rfl⟩
        refine { c with mpsPk := nodup_map_snoc _ c.mpsPk (fresh_not_mem _), periodParent := ?_ }
        intro p hp
        simp only [List.map_append, List.mem_append]
        exact Or.inl (c.periodParent p hp)
      exact mid_processPeriods false _ ps _ [] hmid (by simp) s2 hp

theorem findMps_mem {s : St} {n : String} {m : Mps} (h : findMps s n = some m) : m ∈ s.mps :=
  (find?_pk_mem h).1

theorem inv_editMps {s : St} (hs : Inv s) (urlName : String) (bodyPk : Option Nat) (name title : String)
    (ps : List PSpec) : Inv (editMps s urlName bodyPk name title ps).1 := by
  unfold editMps
  split
  · exact hs
  · next m hm =>
    split
    · exact hs
    · simp only
      split
      · exact hs
      · next s2 hp =>
        apply inv_commit' hs
        obtain ⟨⟨c, t⟩, _⟩ := hs
        have hpk := map_upd_field (·.pk) (fun x : Mps => x.pk == m.pk)
          (fun x => { x with name := name, title := title }) s.mps (fun _ => rfl)
        have hmid : Mid { s with mps := s.mps.map (fun x =>
            if x.pk == m.pk then { x with name := name, title := title } else x) } := by
          refine ⟨?_, tref_of_files t rfl rfl⟩
          refine { c with mpsPk := ?_, periodParent := ?_ }
          · simp only [hpk]; exact c.mpsPk
          · simp only [hpk]; exact c.periodParent
        refine mid_processPeriods true _ ps _ [] hmid ?_ s2 hp
        simp only [hpk]
        exact List.mem_map.mpr ⟨m, findMps_mem hm, rfl⟩

/-! ### blob files on disk -/

/-- every media file has its blob *file*: the file named by its blob row exists in
the directory of its stream -/
def DiskOK (s : St) : Prop :=
  ∀ f ∈ s.files, ∀ st ∈ s.streams, st.pk = f.stream → ∀ b ∈ s.blobs, b.pk = f.blob →
    (onDisk s.disk st.dir b.filename).isSome = true

theorem onDisk_isSome_iff (d : List DiskFile) (dir fn : String) :
    (onDisk d dir fn).isSome = true ↔ ∃ x ∈ d, x.dir = dir ∧ x.filename = fn := by
  unfold onDisk
  rw [List.find?_isSome]
  simp only [Bool.and_eq_true, beq_iff_eq]

theorem onDisk_writeDisk_same (d : List DiskFile) (dir fn : String) (c : Content) :
    (onDisk (writeDisk d dir fn c) dir fn).isSome = true := by
  rw [onDisk_isSome_iff]
  exact ⟨⟨dir, fn, c⟩, by simp [writeDisk], rfl, rfl⟩

theorem onDisk_writeDisk_mono (d : List DiskFile) (dir fn : String) (c : Content) (dir' fn' : String)
    (h : (onDisk d dir' fn').isSome = true) : (onDisk (writeDisk d dir fn c) dir' fn').isSome = true := by
  rw [onDisk_isSome_iff] at h ⊢
  obtain ⟨x, hx, e1, e2⟩ := h
  by_cases hp : x.dir = dir ∧ x.filename = fn
  · refine ⟨⟨dir, fn, c⟩, by simp [writeDisk], ?_, ?_⟩
    · simp only; rw [← e1, hp.1]
    · simp only; rw [← e2, hp.2]
  · refine ⟨x, ?_, e1, e2⟩
    simp only [writeDisk, rmDisk, List.mem_append, List.mem_filter, Bool.not_eq_true', Bool.and_eq_false_imp,
      beq_iff_eq, List.mem_singleton]
    left
    refine ⟨hx, ?_⟩
    intro hd
    simp only [beq_eq_false_iff_ne, ne_eq]
    intro hf
    exact hp ⟨hd, hf⟩

theorem onDisk_rmDisk_ne (d : List DiskFile) (dir fn dir' fn' : String) (hne : ¬ (dir' = dir ∧ fn' = fn))
    (h : (onDisk d dir' fn').isSome = true) : (onDisk (rmDisk d dir fn) dir' fn').isSome = true := by
  rw [onDisk_isSome_iff] at h ⊢
  obtain ⟨x, hx, e1, e2⟩ := h
  refine ⟨x, ?_, e1, e2⟩
  simp only [rmDisk, List.mem_filter, Bool.not_eq_true', Bool.and_eq_false_imp, beq_iff_eq]
  refine ⟨hx, ?_⟩
  intro hd
  simp only [beq_eq_false_iff_ne, ne_eq]
  intro hf
  exact hne ⟨e1 ▸ hd, e2 ▸ hf⟩

/-- rows may disappear, be updated without touching the columns the disk layout
depends on, a stream without media files may appear or change its directory, and
files may be added to the disk -/
theorem diskOK_mono {s s' : St} (h : DiskOK s)
    (hf : ∀ f ∈ s'.files, ∃ g ∈ s.files, g.stream = f.stream ∧ g.blob = f.blob)
    (hs : ∀ x ∈ s'.streams, (∃ y ∈ s.streams, y.pk = x.pk ∧ y.dir = x.dir) ∨
                            (∀ f ∈ s'.files, f.stream ≠ x.pk))
    (hb : ∀ b ∈ s'.blobs, b ∈ s.blobs)
    (hd : ∀ dir fn, (onDisk s.disk dir fn).isSome = true → (onDisk s'.disk dir fn).isSome = true) :
    DiskOK s' := by
  intro f hfm x hx hxk b hbm hbk
  obtain ⟨g, hg, e1, e2⟩ := hf f hfm
  rcases hs x hx with ⟨y, hy, k1, k2⟩ | hno
  · rw [← k2]
    exact hd _ _ (h g hg y hy (by rw [k1, hxk, e1]) b (hb b hbm) (by rw [hbk, e2]))
  · exact absurd hxk.symm (hno f hfm)

theorem diskOK_init : DiskOK init := by
  intro f hf; simp [init] at hf

theorem diskOK_appendStream {s : St} (hs : Inv s) (hd : DiskOK s) (dir title : String) :
    DiskOK (appendStream s dir title) := by
  unfold appendStream
  refine diskOK_mono hd ?_ ?_ ?_ ?_
  · exact fun f hf => ⟨f, hf, rfl, rfl⟩
  rotate_left
  · exact fun b hb => hb
  · exact fun _ _ h => h
  intro x hx
  simp only [List.mem_append, List.mem_singleton] at hx
  rcases hx with hx | rfl
  · exact Or.inl ⟨x, hx, rfl, rfl⟩
  · right
    intro f hf e
    exact fresh_not_mem _ (e ▸ hs.1.fileStream f hf)

theorem diskOK_dropStream {s : St} (hd : DiskOK s) (k : Nat) : DiskOK (dropStream s k) := by
  unfold dropStream
  exact diskOK_mono hd (fun f hf => ⟨f, (List.mem_filter.mp hf).1, rfl, rfl⟩)
    (fun x hx => Or.inl ⟨x, (List.mem_filter.mp hx).1, rfl, rfl⟩)
    (fun b hb => (List.mem_filter.mp hb).1) (fun _ _ h => h)

theorem diskOK_addStream {s : St} (hs : Inv s) (hd : DiskOK s) (dir title : String) :
    DiskOK (addStream s dir title).1 := by
  unfold addStream
  apply diskOK_appendStream (inv_dropDir hs dir).1
  unfold dropDir
  split
  · exact diskOK_dropStream hd _
  · exact hd

theorem diskOK_commit {s s' : St} (hd : DiskOK s) (hd' : DiskOK s') : DiskOK (commit s s').1 := by
  unfold commit; split
  · exact hd'
  · exact hd

theorem diskOK_editStream {s : St} (hs : Inv s) (hd : DiskOK s) (spk : Nat) (dir title tref : String) :
    DiskOK (editStream s spk dir title tref).1 := by
  unfold editStream
  split
  · exact hd
  · next st hst =>
    obtain ⟨hstm, hstk⟩ := findStream_mem hst
    have hupd : ∀ t : Option String,
        DiskOK { s with streams := s.streams.map (fun x =>
          if x.pk == spk then { x with dir := (if s.files.any (·.stream == spk) then st.dir else dir),
                                       title := title, tref := t } else x) } := by
      intro t
      refine diskOK_mono hd ?_ ?_ ?_ ?_
      · exact fun f hf => ⟨f, hf, rfl, rfl⟩
      rotate_left
      · exact fun b hb => hb
      · exact fun _ _ h => h
      intro x hx
      obtain ⟨y, hy, rfl⟩ := List.mem_map.mp hx
      by_cases hk : (y.pk == spk) = true
      · simp only [hk, if_true]
        by_cases hany : (s.files.any (·.stream == spk)) = true
        · left
          have : y = st := inj_of_nodup_map (·.pk) hs.1.streamPk hy hstm
            (by rw [beq_iff_eq.mp hk, hstk])
          subst this
          exact ⟨y, hy, rfl, by simp [hany]⟩
        · right
          intro f hf e
          apply hany
          exact List.any_eq_true.mpr ⟨f, hf, by simp [e, beq_iff_eq.mp hk]⟩
      · simp only [hk]
        exact Or.inl ⟨y, hy, rfl, rfl⟩
    simp only
    split
    · exact diskOK_commit hd (hupd _)
    · split
      · exact hd
      · exact diskOK_commit hd (hupd _)

theorem diskOK_delStream {s : St} (hd : DiskOK s) (spk : Nat) : DiskOK (delStream s spk).1 := by
  unfold delStream
  split
  · exact hd
  · unfold dropStream
    exact diskOK_mono hd (fun f hf => ⟨f, (List.mem_filter.mp hf).1, rfl, rfl⟩)
      (fun x hx => Or.inl ⟨x, (List.mem_filter.mp hx).1, rfl, rfl⟩)
      (fun b hb => (List.mem_filter.mp hb).1) (fun _ _ h => h)

theorem diskOK_delMedia {s : St} (hd : DiskOK s) (spk mfid : Nat) : DiskOK (delMedia s spk mfid).1 := by
  unfold delMedia
  split
  · exact hd
  · split
    · exact hd
    · unfold dropFile
      refine diskOK_mono hd (fun f hf => ⟨f, (List.mem_filter.mp hf).1, rfl, rfl⟩) ?_
        (fun b hb => (List.mem_filter.mp hb).1) (fun _ _ h => h)
      intro x hx
      obtain ⟨y, hy, rfl⟩ := List.mem_map.mp hx
      left
      refine ⟨y, hy, ?_, ?_⟩ <;> split <;> rfl

theorem diskOK_keys {s : St} (hd : DiskOK s) (keys : List Key) (links : List (Nat × Nat)) :
    DiskOK { s with keys := keys, links := links } :=
  diskOK_mono hd (fun f hf => ⟨f, hf, rfl, rfl⟩) (fun x hx => Or.inl ⟨x, hx, rfl, rfl⟩)
    (fun b hb => hb) (fun _ _ h => h)

theorem diskOK_applyIndex {s : St} (hd : DiskOK s) (mfid : Nat) (ct : Content) :
    DiskOK (applyIndex s mfid ct) := by
  unfold applyIndex
  refine diskOK_mono hd ?_ (fun x hx => Or.inl ⟨x, hx, rfl, rfl⟩) (fun b hb => hb) (fun _ _ h => h)
  intro f hf
  obtain ⟨g, hg, rfl⟩ := List.mem_map.mp hf
  refine ⟨g, hg, ?_, ?_⟩ <;> split <;> rfl

theorem diskOK_index {s : St} (hd : DiskOK s) (mfid : Nat) : DiskOK (index s mfid).1 := by
  unfold index
  split
  · exact hd
  · split
    · exact hd
    · split
      · exact diskOK_applyIndex hd _ _
      · exact hd

theorem diskOK_uploadAccepted {s : St} (hs : Inv s) (hd : DiskOK s) (st : Stream) (hstm : st ∈ s.streams)
    (stem suffix : String) (ct : Content) (mf : Option MediaFile)
    (hmf : s.files.find? (fun x => x.name == stem) = mf)
    (hacc : uploadRefused s st.pk (stem ++ suffix) mf = false) :
    DiskOK (uploadAccepted s st stem suffix ct mf) := by
  obtain ⟨⟨c, _⟩, _⟩ := hs
  unfold uploadAccepted
  simp only
  generalize hs1e : dropOpt s mf = s1
  obtain ⟨c1, e1, _, _, _, _, hf1, hb1, hmf1, _⟩ :=
    dropOpt_spec c st.pk stem (stem ++ suffix) mf hmf hacc s1 hs1e.symm
  generalize hb2e : dropOrphan s1.blobs (stem ++ suffix) = blobs2
  obtain ⟨c2, hfn2, hb2⟩ := dropOrphan_spec c st.pk stem (stem ++ suffix) mf hmf hacc s1 hs1e.symm blobs2 hb2e.symm
  have hfresh := fresh_not_mem (blobs2.map (fun x : Blob => x.pk))
  intro g hg x hx hxk b hb hbk
  simp only [e1] at hx
  simp only [List.mem_append, List.mem_singleton] at hg hb
  rcases hg with hg | rfl
  · -- a media file that was there before and is not the replaced one
    have hgb : g.blob ∈ blobs2.map (fun x : Blob => x.pk) := c2.fileBlob g hg
    rcases hb with hb | rfl
    · have hbs1 := hb2 b hb
      have hbs := hb1 b hbs1
      have hold := hd g (hf1 g hg) x hx hxk b hbs hbk
      apply onDisk_writeDisk_mono
      -- the two deletions do not concern this file
      have hne2 : b.filename ≠ stem ++ suffix := fun e => hfn2 (List.mem_map.mpr ⟨b, hb, e⟩)
      have h1 : (onDisk (diskAfterDrop s st mf) x.dir b.filename).isSome = true := by
        cases mf with
        | none => exact hold
        | some f =>
          simp only [diskAfterDrop]
          split
          · next bf hbf =>
            obtain ⟨hbfm, hbfk⟩ := find?_pk_mem hbf
            simp only [beq_iff_eq] at hbfk
            apply onDisk_rmDisk_ne _ _ _ _ _ ?_ hold
            rintro ⟨_, hfn⟩
            have : b = bf := inj_of_nodup_map (·.filename) c.blobName hbs hbfm hfn
            subst this
            exact (hmf1 f rfl).2.1 b hbs1 hbfk
          · exact hold
      split
      · exact onDisk_rmDisk_ne _ _ _ _ _ (fun h => hne2 h.2) h1
      · exact h1
    · simp only at hbk
      rw [← hbk] at hgb
      exact absurd hgb hfresh
  · -- the new media file
    simp only at hxk hbk
    have hxs : x = st := inj_of_nodup_map (·.pk) c.streamPk hx hstm hxk
    subst hxs
    rcases hb with hb | rfl
    · exact absurd (List.mem_map.mpr ⟨b, hb, hbk⟩) hfresh
    · exact onDisk_writeDisk_same _ _ _ _

theorem diskOK_upload {s : St} (hs : Inv s) (hd : DiskOK s) (spk : Nat) (stem suffix : String) (ct : Content) :
    DiskOK (upload s spk stem suffix ct).1 := by
  unfold upload
  split
  · exact hd
  · next st hst =>
    obtain ⟨hstm, hstk⟩ := findStream_mem hst
    subst hstk
    simp only
    split
    · exact hd
    · next hacc =>
      exact diskOK_uploadAccepted hs hd st hstm stem suffix ct _ rfl (by simpa using hacc)

theorem blobOnDisk_spec {s : St} {f : MediaFile} {st : Stream} {b : Blob} {d : DiskFile}
    (h : blobOnDisk s f = some (st, b, d)) : st ∈ s.streams ∧ st.pk = f.stream := by
  unfold blobOnDisk at h
  split at h
  · simp at h
  · next st' hst' =>
    split at h
    · simp at h
    · split at h
      · simp at h
      · simp only [Option.some.injEq, Prod.mk.injEq] at h
        obtain ⟨rfl, _, _⟩ := h
        exact findStream_mem hst'

theorem diskOK_disk {s : St} (hd : DiskOK s) (dir fn : String) (c : Content) :
    DiskOK { s with disk := writeDisk s.disk dir fn c } :=
  diskOK_mono hd (fun f hf => ⟨f, hf, rfl, rfl⟩) (fun x hx => Or.inl ⟨x, hx, rfl, rfl⟩)
    (fun b hb => hb) (fun _ _ h => onDisk_writeDisk_mono _ _ _ _ _ _ h)

theorem diskOK_editMediaApply {s : St} (hs : Inv s) (hd : DiskOK s) {f : MediaFile} (hf : f ∈ s.files)
    {st : Stream} (hstm : st ∈ s.streams) (hstk : st.pk = f.stream) (nn : String) (ct : Content) :
    DiskOK { editMediaApply s f nn ct with disk := writeDisk s.disk st.dir nn ct } := by
  obtain ⟨⟨c, _⟩, _⟩ := hs
  have hfr := fresh_not_mem (s.blobs.map (fun x : Blob => x.pk))
  unfold editMediaApply applyIndex
  intro g hg x hx hxk b hb hbk
  simp only [List.mem_map] at hg
  obtain ⟨g1, hg1, rfl⟩ := hg
  obtain ⟨g0, hg0, rfl⟩ := hg1
  simp only [List.mem_filter, List.mem_append, List.mem_singleton, bne_iff_ne, ne_eq] at hb
  obtain ⟨hb, _⟩ := hb
  by_cases hk : (g0.pk == f.pk) = true
  · -- the edited file: its blob is the new row, its file the new file
    have hg0f : g0 = f := inj_of_nodup_map (·.pk) c.filePk hg0 hf (beq_iff_eq.mp hk)
    subst hg0f
    simp only [hk, if_true] at hxk hbk
    have hxs : x = st := inj_of_nodup_map (·.pk) c.streamPk hx hstm (by rw [hxk, hstk])
    subst hxs
    rcases hb with hb | rfl
    · exact absurd (List.mem_map.mpr ⟨b, hb, hbk⟩) hfr
    · exact onDisk_writeDisk_same _ _ _ _
  · -- any other file keeps its blob row and its file
    simp only [hk, Bool.false_eq_true, if_false] at hxk hbk
    apply onDisk_writeDisk_mono
    rcases hb with hb | rfl
    · exact hd g0 hg0 x hx hxk b hb hbk
    · have hgb := c.fileBlob g0 hg0
      simp only at hbk
      rw [← hbk] at hgb
      exact absurd hgb hfr

theorem diskOK_editMedia {s : St} (hs : Inv s) (hd : DiskOK s) (spk mfid track : Nat) :
    DiskOK (editMedia s spk mfid track).1 := by
  unfold editMedia
  split
  · exact hd
  · split
    · exact hd
    · next f hf =>
      obtain ⟨hfm, _⟩ := findFile_mem hf
      split
      · exact hd
      · split
        · exact hd
        · split
          · exact hd
          · next st b d hbd =>
            obtain ⟨hstm, hstk⟩ := blobOnDisk_spec hbd
            split
            · exact hd
            · simp only
              split
              · exact diskOK_disk hd _ _ _
              · exact diskOK_editMediaApply hs hd hfm hstm hstk _ _

/-- the Periods of a request touch neither streams, media files, blobs nor the disk -/
theorem processPeriod_frame {s s' : St} {mpsPk : Nat} {sp : PSpec} {d : List Nat}
    (h : processPeriod s mpsPk sp = some (s', d)) :
    s'.streams = s.streams ∧ s'.files = s.files ∧ s'.blobs = s.blobs ∧ s'.disk = s.disk := by
  unfold processPeriod at h
  split at h
  · simp at h
  · split at h
    · simp at h
    · split at h
      · simp at h
      · split at h
        · simp at h
        · split at h
          · simp at h
          simp only [Option.some.injEq, Prod.mk.injEq] at h
          obtain ⟨rfl, _⟩ := h
          exact ⟨rfl, rfl, rfl, rfl⟩

theorem processPeriods_frame (defer : Bool) (mpsPk : Nat) (ps : List PSpec) :
    ∀ (s : St) (doomed : List Nat) (s' : St), processPeriods defer s mpsPk ps doomed = some s' →
    s'.streams = s.streams ∧ s'.files = s.files ∧ s'.blobs = s.blobs ∧ s'.disk = s.disk := by
  induction ps with
  | nil =>
    intro s doomed s' h
    simp only [processPeriods, Option.some.injEq] at h
    subst h
    exact ⟨rfl, rfl, rfl, rfl⟩
  | cons sp rest ih =>
    intro s doomed s' h
    unfold processPeriods at h
    split at h
    · simp at h
    · next s1 d hpp =>
      obtain ⟨a1, a2, a3, a4⟩ := processPeriod_frame hpp
      split at h
      · simp at h
      · split at h
        · obtain ⟨b1, b2, b3, b4⟩ := ih s1 _ s' h
          exact ⟨b1.trans a1, b2.trans a2, b3.trans a3, b4.trans a4⟩
        · obtain ⟨b1, b2, b3, b4⟩ := ih (dropAdps s1 d) _ s' h
          exact ⟨b1.trans a1, b2.trans a2, b3.trans a3, b4.trans a4⟩

theorem diskOK_of_frame {s s' : St} (hd : DiskOK s)
    (h : s'.streams = s.streams ∧ s'.files = s.files ∧ s'.blobs = s.blobs ∧ s'.disk = s.disk) :
    DiskOK s' := by
  obtain ⟨h1, h2, h3, h4⟩ := h
  intro f hf x hx hxk b hb hbk
  rw [h4]
  exact hd f (h2 ▸ hf) x (h1 ▸ hx) hxk b (h3 ▸ hb) hbk

theorem diskOK_addMps {s : St} (hd : DiskOK s) (name title : String) (ps : List PSpec) :
    DiskOK (addMps s name title ps).1 := by
  unfold addMps
  split
  · exact hd
  · simp only
    split
    · exact hd
    · next s2 hp =>
      obtain ⟨a1, a2, a3, a4⟩ := processPeriods_frame false _ ps _ [] s2 hp
      exact diskOK_commit hd (diskOK_of_frame hd ⟨a1, a2, a3, a4⟩)

theorem diskOK_editMps {s : St} (hd : DiskOK s) (urlName : String) (bodyPk : Option Nat) (name title : String)
    (ps : List PSpec) : DiskOK (editMps s urlName bodyPk name title ps).1 := by
  unfold editMps
  split
  · exact hd
  · split
    · exact hd
    · simp only
      split
      · exact hd
      · next s2 hp =>
        obtain ⟨a1, a2, a3, a4⟩ := processPeriods_frame true _ ps _ [] s2 hp
        exact diskOK_commit hd (diskOK_of_frame hd ⟨a1, a2, a3, a4⟩)

theorem diskOK_step {s : St} (hs : Inv s) (hd : DiskOK s) (op : Op) : DiskOK (step s op).1 := by
  cases op with
  | addStream d t => exact diskOK_addStream hs hd d t
  | editStream k d t r => exact diskOK_editStream hs hd k d t r
  | delStream k => exact diskOK_delStream hd k
  | setDefaults k v => simp only [step, setDefaults]; split <;> exact hd
  | upload k st su c => exact diskOK_upload hs hd k st su c
  | index m => exact diskOK_index hd m
  | editMedia k m t => exact diskOK_editMedia hs hd k m t
  | delMedia k m => exact diskOK_delMedia hd k m
  | addKey kid c =>
    simp only [step, addKey]; split
    · exact hd
    · exact diskOK_keys hd _ _
  | editKey k c =>
    simp only [step, editKey]; split
    · exact hd
    · exact diskOK_keys hd _ _
  | delKey k =>
    simp only [step, delKey]; split
    · exact hd
    · exact diskOK_keys hd _ _
  | addMps n t ps => exact diskOK_addMps hd n t ps
  | editMps u b n t ps => exact diskOK_editMps hd u b n t ps
  | delMps n =>
    simp only [step, delMps]; split
    · exact hd
    · exact diskOK_of_frame hd ⟨rfl, rfl, rfl, rfl⟩

/-! ### every operation -/

theorem inv_step_all {s : St} (hs : Inv s) (op : Op) : Inv (step s op).1 := by
  cases op with
  | addStream d t => exact inv_addStream hs d t
  | editStream k d t r => exact inv_editStream hs k d t r
  | delStream k => exact inv_delStream hs k
  | setDefaults k v => simp only [step, setDefaults]; split <;> exact hs
  | upload k st su c => exact inv_upload hs k st su c
  | index m => exact inv_index hs m
  | editMedia k m t => exact inv_editMedia hs k m t
  | delMedia k m => exact inv_delMedia hs k m
  | addKey kid c => exact inv_addKey hs kid c
  | editKey k c => exact inv_editKey hs k c
  | delKey k => exact inv_delKey hs k
  | addMps n t ps => exact inv_addMps hs n t ps
  | editMps u b n t ps => exact inv_editMps hs u b n t ps
  | delMps n => exact inv_delMps hs n

end DashLive.Store
