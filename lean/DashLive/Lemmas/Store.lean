import DashLive.Model.Store
/-!
Helper definitions and lemmas for C17: the referential-consistency invariant
of the management store and its preservation by each operation of
`DashLive.Store.step`.
-/
namespace DashLive.Store

/-! ### the invariant -/

/-- the part of the invariant that no commit-time UNIQUE check re-establishes,
without the timing references -/
structure Core0 (s : St) : Prop where
  streamPk : (s.streams.map (·.pk)).Nodup
  filePk : (s.files.map (·.pk)).Nodup
  fileName : (s.files.map (·.name)).Nodup
  fileBlobU : (s.files.map (·.blob)).Nodup
  blobPk : (s.blobs.map (·.pk)).Nodup
  blobName : (s.blobs.map (·.filename)).Nodup
  keyPk : (s.keys.map (·.pk)).Nodup
  keyKid : (s.keys.map (·.kid)).Nodup
  linkU : s.links.Nodup
  mpsPk : (s.mps.map (·.pk)).Nodup
  periodPk : (s.periods.map (·.pk)).Nodup
  adpPk : (s.adps.map (·.pk)).Nodup
  /-- every media file has its stream -/
  fileStream : ∀ f ∈ s.files, f.stream ∈ s.streams.map (·.pk)
  /-- every media file has its blob -/
  fileBlob : ∀ f ∈ s.files, f.blob ∈ s.blobs.map (·.pk)
  /-- every key link points at an existing media file and an existing key -/
  linkFile : ∀ l ∈ s.links, l.1 ∈ s.files.map (·.pk)
  linkKey : ∀ l ∈ s.links, l.2 ∈ s.keys.map (·.pk)
  /-- every period points at an existing multi-period stream and an existing stream -/
  periodParent : ∀ p ∈ s.periods, p.parent ∈ s.mps.map (·.pk)
  periodStream : ∀ p ∈ s.periods, p.stream ∈ s.streams.map (·.pk)
  /-- every adaptation set points at an existing period -/
  adpPeriod : ∀ a ∈ s.adps, a.period ∈ s.periods.map (·.pk)

/-- every timing reference names a media file of its stream -/
def TrefOK (s : St) : Prop :=
  ∀ st ∈ s.streams, ∀ n, st.tref = some n → ∃ f ∈ s.files, f.name = n ∧ f.stream = st.pk

structure Core (s : St) : Prop extends Core0 s where
  tref : TrefOK s

/-- the UNIQUE constraints that `uniqOK` evaluates -/
structure Uniq (s : St) : Prop where
  streamDir : (s.streams.map (·.dir)).Nodup
  mpsName : (s.mps.map (·.name)).Nodup
  periodPid : (s.periods.map (fun p => (p.parent, p.pid))).Nodup
  adpTrack : (s.adps.map (fun a => (a.period, a.track))).Nodup

/-- **referential consistency** of the store (the first half of C17) -/
def Inv (s : St) : Prop := Core s ∧ Uniq s

/-! ### lists -/

theorem le_maxPk {l : List Nat} {a : Nat} (h : a ∈ l) : a ≤ maxPk l := by
  induction l with
  | nil => cases h
  | cons b l ih =>
    simp only [maxPk]
    rcases List.mem_cons.mp h with rfl | h
    · omega
    · have := ih h; omega

theorem fresh_not_mem (l : List Nat) : fresh l ∉ l := by
  intro h; have := le_maxPk h; unfold fresh at this; omega

theorem nodup_map_filter {α β} (f : α → β) (p : α → Bool) {l : List α}
    (h : (l.map f).Nodup) : ((l.filter p).map f).Nodup :=
  List.Nodup.sublist ((List.filter_sublist).map f) h

theorem nodup_filter {α} (p : α → Bool) {l : List α} (h : l.Nodup) : (l.filter p).Nodup :=
  List.Nodup.sublist List.filter_sublist h

theorem nodup_map_snoc {α β} (f : α → β) {l : List α} {a : α}
    (h : (l.map f).Nodup) (ha : f a ∉ l.map f) : ((l ++ [a]).map f).Nodup := by
  rw [List.map_append, List.nodup_append]
  refine ⟨h, by simp, ?_⟩
  intro x hx y hy
  simp only [List.map_cons, List.map_nil, List.mem_singleton] at hy
  subst hy
  intro e; subst e; exact ha hx

theorem nodupB_iff {α} [BEq α] [LawfulBEq α] (l : List α) : nodupB l = true ↔ l.Nodup := by
  induction l with
  | nil => simp [nodupB]
  | cons a l ih => simp [nodupB, ih, List.nodup_cons]

theorem inj_of_nodup_map {α β} (f : α → β) {l : List α} (h : (l.map f).Nodup) {a b : α}
    (ha : a ∈ l) (hb : b ∈ l) (e : f a = f b) : a = b := by
  induction l with
  | nil => cases ha
  | cons c l ih =>
    simp only [List.map_cons, List.nodup_cons, List.mem_map, not_exists, not_and] at h
    rcases List.mem_cons.mp ha with rfl | ha' <;> rcases List.mem_cons.mp hb with rfl | hb'
    · rfl
    · exact absurd e.symm (h.1 b hb')
    · exact absurd e (h.1 a ha')
    · exact ih h.2 ha' hb'

/-- updating rows in place without touching the field `f` -/
theorem map_upd_field {α β} (f : α → β) (c : α → Bool) (g : α → α) (l : List α)
    (h : ∀ x, f (g x) = f x) : (l.map (fun x => if c x then g x else x)).map f = l.map f := by
  rw [List.map_map]
  apply List.map_congr_left
  intro x _
  simp only [Function.comp]
  split <;> simp [h]

theorem uniqOK_iff (s : St) : uniqOK s = true ↔ Uniq s := by
  simp only [uniqOK, Bool.and_eq_true, nodupB_iff]
  constructor
  · rintro ⟨⟨⟨a, b⟩, c⟩, d⟩; exact ⟨a, b, c, d⟩
  · rintro ⟨a, b, c, d⟩; exact ⟨⟨⟨a, b⟩, c⟩, d⟩

theorem find?_pk_mem {α} {l : List α} {p : α → Bool} {a : α} (h : l.find? p = some a) :
    a ∈ l ∧ p a = true := ⟨List.mem_of_find?_eq_some h, List.find?_some h⟩

theorem Uniq.of_eq {s s' : St} (u : Uniq s) (h1 : s'.streams = s.streams) (h2 : s'.mps = s.mps)
    (h3 : s'.periods = s.periods) (h4 : s'.adps = s.adps) : Uniq s' :=
  ⟨h1 ▸ u.streamDir, h2 ▸ u.mpsName, h3 ▸ u.periodPid, h4 ▸ u.adpTrack⟩

/-! ### initial state -/

theorem core_init : Core init := by
  refine ⟨?_, ?_⟩
  · constructor <;> simp [init]
  · simp [TrefOK, init]

theorem uniq_init : Uniq init := by
  constructor <;> simp [init]

/-! ### commit -/

theorem inv_commit {s s' : St} (hs : Inv s) (hc : Core s') : Inv (commit s s').1 := by
  unfold commit
  split
  · next h => exact ⟨hc, (uniqOK_iff s').mp h⟩
  · exact hs

/-! ### streams -/

theorem inv_addStream {s : St} (hs : Inv s) (dir title : String) : Inv (addStream s dir title).1 := by
  unfold addStream
  split
  · exact hs
  · next hany =>
    obtain ⟨c, u⟩ := hs
    have hdir : dir ∉ s.streams.map (·.dir) := by
      intro h
      obtain ⟨x, hx, e⟩ := List.mem_map.mp h
      exact hany (List.any_eq_true.mpr ⟨x, hx, by simp [e]⟩)
    refine ⟨{ c with streamPk := ?_, fileStream := ?_, periodStream := ?_, tref := ?_ },
            { u with streamDir := ?_ }⟩
    · exact nodup_map_snoc _ c.streamPk (fresh_not_mem _)
    · intro f hf; simp only [List.map_append, List.mem_append]; exact Or.inl (c.fileStream f hf)
    · intro p hp; simp only [List.map_append, List.mem_append]; exact Or.inl (c.periodStream p hp)
    · intro st hst n hn
      simp only [List.mem_append, List.mem_singleton] at hst
      rcases hst with hst | rfl
      · exact c.tref st hst n hn
      · simp at hn
    · exact nodup_map_snoc _ u.streamDir hdir

theorem inv_editStream {s : St} (hs : Inv s) (spk : Nat) (dir title tref : String) :
    Inv (editStream s spk dir title tref).1 := by
  unfold editStream
  split
  · exact hs
  · next st hst =>
    have hupd : ∀ t : Option String,
        (∀ n, t = some n → ∃ f ∈ s.files, f.name = n ∧ f.stream = spk) →
        Core { s with streams := s.streams.map (fun x =>
          if x.pk == spk then { x with dir := (if s.files.any (·.stream == spk) then st.dir else dir),
                                       title := title, tref := t } else x) } := by
      intro t ht
      obtain ⟨c, _⟩ := hs
      have hpk := map_upd_field (·.pk) (fun x : Stream => x.pk == spk)
        (fun x => { x with dir := (if s.files.any (·.stream == spk) then st.dir else dir),
                           title := title, tref := t }) s.streams (fun _ => rfl)
      refine { c with streamPk := ?_, fileStream := ?_, periodStream := ?_, tref := ?_ }
      · simp only [hpk]; exact c.streamPk
      · simp only [hpk]; exact c.fileStream
      · simp only [hpk]; exact c.periodStream
      · intro x hx n hn
        simp only [List.mem_map] at hx
        obtain ⟨y, hy, rfl⟩ := hx
        by_cases hk : (y.pk == spk) = true
        · simp only [hk, if_true] at hn ⊢
          have := ht n hn
          simpa [beq_iff_eq.mp hk] using this
        · simp only [hk] at hn ⊢
          exact c.tref y hy n hn
    simp only
    split
    · exact inv_commit hs (hupd none (by simp))
    · split
      · exact hs
      · next mf hmf =>
        apply inv_commit hs
        apply hupd
        intro n hn
        obtain ⟨hm, hp⟩ := find?_pk_mem hmf
        simp only [Bool.and_eq_true, beq_iff_eq] at hp
        split at hn
        · simp only [Option.some.injEq] at hn
          exact ⟨mf, hm, hn, hp.2⟩
        · simp at hn

/-- what `dropStream` needs of the state -/
theorem core_dropStream {s : St} (c : Core s) (k : Nat) : Core (dropStream s k) := by
  unfold dropStream
  refine { streamPk := nodup_map_filter _ _ c.streamPk, filePk := nodup_map_filter _ _ c.filePk,
           fileName := nodup_map_filter _ _ c.fileName, fileBlobU := nodup_map_filter _ _ c.fileBlobU,
           blobPk := nodup_map_filter _ _ c.blobPk, blobName := nodup_map_filter _ _ c.blobName,
           keyPk := c.keyPk, keyKid := c.keyKid, linkU := nodup_filter _ c.linkU, mpsPk := c.mpsPk,
           periodPk := nodup_map_filter _ _ c.periodPk, adpPk := nodup_map_filter _ _ c.adpPk,
           fileStream := ?_, fileBlob := ?_, linkFile := ?_, linkKey := ?_, periodParent := ?_,
           periodStream := ?_, adpPeriod := ?_, tref := ?_ }
  · have := c.fileStream; grind
  · intro f hf
    simp only [List.mem_filter, bne_iff_ne, ne_eq] at hf
    obtain ⟨b, hb, e⟩ := List.mem_map.mp (c.fileBlob f hf.1)
    refine List.mem_map.mpr ⟨b, List.mem_filter.mpr ⟨hb, ?_⟩, e⟩
    simp only [Bool.not_eq_true', List.any_eq_false, List.mem_filter, beq_iff_eq, and_imp]
    intro g hg hgk hgb
    have := inj_of_nodup_map (·.blob) c.fileBlobU hg hf.1 (by simp [hgb, e])
    subst this
    exact hf.2 hgk
  · intro l hl
    simp only [List.mem_filter, Bool.not_eq_true', List.any_eq_false, beq_iff_eq, and_imp] at hl
    obtain ⟨f, hf, e⟩ := List.mem_map.mp (c.linkFile l hl.1)
    refine List.mem_map.mpr ⟨f, List.mem_filter.mpr ⟨hf, ?_⟩, e⟩
    simp only [bne_iff_ne, ne_eq]
    intro hk
    exact hl.2 f hf hk e
  · intro l hl; exact c.linkKey l (List.mem_filter.mp hl).1
  · intro p hp; exact c.periodParent p (List.mem_filter.mp hp).1
  · have := c.periodStream; grind
  · intro a ha
    simp only [List.mem_filter, Bool.not_eq_true', List.any_eq_false, beq_iff_eq, and_imp] at ha
    obtain ⟨p, hp, e⟩ := List.mem_map.mp (c.adpPeriod a ha.1)
    refine List.mem_map.mpr ⟨p, List.mem_filter.mpr ⟨hp, ?_⟩, e⟩
    simp only [bne_iff_ne, ne_eq]
    intro hk
    exact ha.2 p hp hk e
  · intro st hst n hn
    simp only [List.mem_filter, bne_iff_ne, ne_eq] at hst
    obtain ⟨f, hf, e1, e2⟩ := c.tref st hst.1 n hn
    refine ⟨f, List.mem_filter.mpr ⟨hf, ?_⟩, e1, e2⟩
    simp only [bne_iff_ne, ne_eq, e2]
    exact hst.2

theorem uniq_dropStream {s : St} (u : Uniq s) (k : Nat) : Uniq (dropStream s k) := by
  unfold dropStream
  exact ⟨nodup_map_filter _ _ u.streamDir, u.mpsName, nodup_map_filter _ _ u.periodPid,
         nodup_map_filter _ _ u.adpTrack⟩

theorem inv_delStream {s : St} (hs : Inv s) (spk : Nat) : Inv (delStream s spk).1 := by
  unfold delStream
  split
  · exact hs
  · exact ⟨core_dropStream hs.1 spk, uniq_dropStream hs.2 spk⟩

/-! ### keys -/

theorem inv_addKey {s : St} (hs : Inv s) (kid : String) (computed : Bool) :
    Inv (addKey s kid computed).1 := by
  unfold addKey
  split
  · exact hs
  · next hany =>
    obtain ⟨c, u⟩ := hs
    have hkid : kid ∉ s.keys.map (·.kid) := by
      intro h
      obtain ⟨x, hx, e⟩ := List.mem_map.mp h
      exact hany (List.any_eq_true.mpr ⟨x, hx, by simp [e]⟩)
    refine ⟨{ c with keyPk := ?_, keyKid := ?_, linkKey := ?_ }, u.of_eq rfl rfl rfl rfl⟩
    · exact nodup_map_snoc _ c.keyPk (fresh_not_mem _)
    · exact nodup_map_snoc _ c.keyKid hkid
    · intro l hl; simp only [List.map_append, List.mem_append]; exact Or.inl (c.linkKey l hl)

theorem inv_editKey {s : St} (hs : Inv s) (kpk : Nat) (computed : Bool) :
    Inv (editKey s kpk computed).1 := by
  unfold editKey
  split
  · exact hs
  · obtain ⟨c, u⟩ := hs
    have hpk := map_upd_field (·.pk) (fun k : Key => k.pk == kpk)
      (fun k => { k with computed := computed }) s.keys (fun _ => rfl)
    have hkid := map_upd_field (·.kid) (fun k : Key => k.pk == kpk)
      (fun k => { k with computed := computed }) s.keys (fun _ => rfl)
    refine ⟨{ c with keyPk := ?_, keyKid := ?_, linkKey := ?_ }, u.of_eq rfl rfl rfl rfl⟩
    · simp only [hpk]; exact c.keyPk
    · simp only [hkid]; exact c.keyKid
    · simp only [hpk]; exact c.linkKey

theorem core_dropKey {s : St} (c : Core s) (k : Nat) : Core (dropKey s k) := by
  unfold dropKey
  refine { c with keyPk := nodup_map_filter _ _ c.keyPk, keyKid := nodup_map_filter _ _ c.keyKid,
                  linkU := nodup_filter _ c.linkU, linkFile := ?_, linkKey := ?_ }
  · intro l hl; exact c.linkFile l (List.mem_filter.mp hl).1
  · have := c.linkKey; grind

theorem inv_delKey {s : St} (hs : Inv s) (kpk : Nat) : Inv (delKey s kpk).1 := by
  unfold delKey
  split
  · exact hs
  · exact ⟨core_dropKey hs.1 kpk, hs.2.of_eq rfl rfl rfl rfl⟩

/-! ### media files -/

theorem core_dropFile {s : St} (c : Core s) {f : MediaFile} (hf : f ∈ s.files)
    (ht : ∀ st ∈ s.streams, st.tref = some f.name → st.pk ≠ f.stream) : Core (dropFile s f) := by
  unfold dropFile
  refine { c with filePk := nodup_map_filter _ _ c.filePk, fileName := nodup_map_filter _ _ c.fileName,
                  fileBlobU := nodup_map_filter _ _ c.fileBlobU, blobPk := nodup_map_filter _ _ c.blobPk,
                  blobName := nodup_map_filter _ _ c.blobName, linkU := nodup_filter _ c.linkU,
                  fileStream := ?_, fileBlob := ?_, linkFile := ?_, linkKey := ?_, tref := ?_ }
  · intro g hg; exact c.fileStream g (List.mem_filter.mp hg).1
  · intro g hg
    simp only [List.mem_filter, bne_iff_ne, ne_eq] at hg
    obtain ⟨b, hb, e⟩ := List.mem_map.mp (c.fileBlob g hg.1)
    refine List.mem_map.mpr ⟨b, List.mem_filter.mpr ⟨hb, ?_⟩, e⟩
    simp only [bne_iff_ne, ne_eq, e]
    intro hgb
    have := inj_of_nodup_map (·.blob) c.fileBlobU hg.1 hf hgb
    subst this
    exact hg.2 rfl
  · intro l hl
    simp only [List.mem_filter, bne_iff_ne, ne_eq] at hl
    obtain ⟨g, hg, e⟩ := List.mem_map.mp (c.linkFile l hl.1)
    refine List.mem_map.mpr ⟨g, List.mem_filter.mpr ⟨hg, ?_⟩, e⟩
    simp only [bne_iff_ne, ne_eq, e]
    exact hl.2
  · intro l hl; exact c.linkKey l (List.mem_filter.mp hl).1
  · intro st hst n hn
    obtain ⟨g, hg, e1, e2⟩ := c.tref st hst n hn
    refine ⟨g, List.mem_filter.mpr ⟨hg, ?_⟩, e1, e2⟩
    simp only [bne_iff_ne, ne_eq]
    intro hpk
    have := inj_of_nodup_map (·.pk) c.filePk hg hf hpk
    subst this
    exact ht st hst (by rw [hn, e1]) e2.symm

theorem inv_delMedia {s : St} (hs : Inv s) (spk mfid : Nat) : Inv (delMedia s spk mfid).1 := by
  unfold delMedia
  split
  · exact hs
  · split
    · exact hs
    · next f hf =>
      obtain ⟨c, u⟩ := hs
      have hfm := (find?_pk_mem hf).1
      have hpk := map_upd_field (·.pk) (fun x : Stream => x.pk == f.stream && x.tref == some f.name)
        (fun x => { x with tref := none }) s.streams (fun _ => rfl)
      have hdir := map_upd_field (·.dir) (fun x : Stream => x.pk == f.stream && x.tref == some f.name)
        (fun x => { x with tref := none }) s.streams (fun _ => rfl)
      have c1 : Core { s with streams := s.streams.map (fun x =>
          if x.pk == f.stream && x.tref == some f.name then { x with tref := none } else x) } := by
        refine { c with streamPk := ?_, fileStream := ?_, periodStream := ?_, tref := ?_ }
        · simp only [hpk]; exact c.streamPk
        · simp only [hpk]; exact c.fileStream
        · simp only [hpk]; exact c.periodStream
        · intro x hx n hn
          simp only [List.mem_map] at hx
          obtain ⟨y, hy, rfl⟩ := hx
          split at hn
          · simp at hn
          · next hc =>
            simp only [hc]
            exact c.tref y hy n hn
      refine ⟨core_dropFile c1 hfm ?_, ?_⟩
      · intro x hx hxt
        simp only [List.mem_map] at hx
        obtain ⟨y, hy, rfl⟩ := hx
        split at hxt
        · simp at hxt
        · next hc =>
          simp only [hc]
          intro hpk'
          apply hc
          simp only [Bool.false_eq_true, if_false] at hpk'
          simp [hpk', hxt]
      · exact ⟨by simp only [dropFile, hdir]; exact u.streamDir, u.mpsName, u.periodPid, u.adpTrack⟩

/-! ### multi-period streams -/

theorem core_dropMps {s : St} (c : Core s) (k : Nat) : Core (dropMps s k) := by
  unfold dropMps
  refine { c with mpsPk := nodup_map_filter _ _ c.mpsPk, periodPk := nodup_map_filter _ _ c.periodPk,
                  adpPk := nodup_map_filter _ _ c.adpPk, periodParent := ?_, periodStream := ?_,
                  adpPeriod := ?_ }
  · have := c.periodParent; grind
  · intro p hp; exact c.periodStream p (List.mem_filter.mp hp).1
  · intro a ha
    simp only [List.mem_filter, Bool.not_eq_true', List.any_eq_false, beq_iff_eq, and_imp] at ha
    obtain ⟨p, hp, e⟩ := List.mem_map.mp (c.adpPeriod a ha.1)
    refine List.mem_map.mpr ⟨p, List.mem_filter.mpr ⟨hp, ?_⟩, e⟩
    simp only [bne_iff_ne, ne_eq]
    intro hk
    exact ha.2 p hp hk e

theorem uniq_dropMps {s : St} (u : Uniq s) (k : Nat) : Uniq (dropMps s k) := by
  unfold dropMps
  exact ⟨u.streamDir, nodup_map_filter _ _ u.mpsName, nodup_map_filter _ _ u.periodPid,
         nodup_map_filter _ _ u.adpTrack⟩

theorem inv_delMps {s : St} (hs : Inv s) (name : String) : Inv (delMps s name).1 := by
  unfold delMps
  split
  · exact hs
  · exact ⟨core_dropMps hs.1 _, uniq_dropMps hs.2 _⟩

/-! ### indexing -/

/-- the timing references only look at (name, stream) of the files -/
theorem tref_of_files {s s' : St} (h : TrefOK s) (hs : s'.streams = s.streams)
    (hf : s'.files.map (fun f => (f.name, f.stream)) = s.files.map (fun f => (f.name, f.stream))) :
    TrefOK s' := by
  intro st hst n hn
  rw [hs] at hst
  obtain ⟨f, hfm, e1, e2⟩ := h st hst n hn
  have : (n, st.pk) ∈ s'.files.map (fun f => (f.name, f.stream)) := by
    rw [hf]; exact List.mem_map.mpr ⟨f, hfm, by simp [e1, e2]⟩
  obtain ⟨g, hg, e⟩ := List.mem_map.mp this
  simp only [Prod.mk.injEq] at e
  exact ⟨g, hg, e.1, e.2⟩

theorem linkKids_spec (mf : Nat) (kids : List String) :
    ∀ (keys : List Key) (links : List (Nat × Nat)),
    (keys.map (·.pk)).Nodup → (keys.map (·.kid)).Nodup → links.Nodup →
    (∀ l ∈ links, l.2 ∈ keys.map (·.pk)) →
    ((linkKids keys links mf kids).1.map (·.pk)).Nodup ∧
    ((linkKids keys links mf kids).1.map (·.kid)).Nodup ∧
    (linkKids keys links mf kids).2.Nodup ∧
    (∀ l ∈ (linkKids keys links mf kids).2, l.2 ∈ (linkKids keys links mf kids).1.map (·.pk)) ∧
    (∀ l ∈ (linkKids keys links mf kids).2, l ∈ links ∨ l.1 = mf) := by
  induction kids with
  | nil => intro keys links h1 h2 h3 h4; exact ⟨h1, h2, h3, h4, fun l hl => Or.inl hl⟩
  | cons kid rest ih =>
    intro keys links h1 h2 h3 h4
    unfold linkKids
    split
    · next k hk =>
      obtain ⟨hkm, _⟩ := find?_pk_mem hk
      have hkpk : k.pk ∈ keys.map (·.pk) := List.mem_map.mpr ⟨k, hkm, rfl⟩
      by_cases hc : links.contains (mf, k.pk) = true
      · simp only [hc, if_true]
        exact ih keys links h1 h2 h3 h4
      · simp only [hc]
        have hnm : (mf, k.pk) ∉ links := by simpa using hc
        obtain ⟨a, b, c, d, e⟩ := ih keys (links ++ [(mf, k.pk)]) h1 h2
          (by
            rw [List.nodup_append]
            refine ⟨h3, by simp, ?_⟩
            intro x hx y hy
            simp only [List.mem_singleton] at hy
            subst hy; intro e; subst e; exact hnm hx)
          (by
            intro l hl
            simp only [List.mem_append, List.mem_singleton] at hl
            rcases hl with hl | rfl
            · exact h4 l hl
            · exact hkpk)
        refine ⟨a, b, c, d, ?_⟩
        intro l hl
        rcases e l hl with h | h
        · simp only [List.mem_append, List.mem_singleton] at h
          rcases h with h | rfl
          · exact Or.inl h
          · exact Or.inr rfl
        · exact Or.inr h
    · next hk =>
      have hkid : kid ∉ keys.map (·.kid) := by
        intro h
        obtain ⟨x, hx, e⟩ := List.mem_map.mp h
        have := List.find?_eq_none.mp hk x hx
        simp [e] at this
      have hfresh := fresh_not_mem (keys.map (·.pk))
      obtain ⟨a, b, c, d, e⟩ := ih
        (keys ++ [{ pk := fresh (keys.map (·.pk)), kid := kid, computed := true }])
        (links ++ [(mf, fresh (keys.map (·.pk)))])
        (nodup_map_snoc _ h1 hfresh) (nodup_map_snoc _ h2 hkid)
        (by
          rw [List.nodup_append]
          refine ⟨h3, by simp, ?_⟩
          intro x hx y hy
          simp only [List.mem_singleton] at hy
          subst hy; intro e; subst e; exact hfresh (h4 _ hx))
        (by
          intro l hl
          simp only [List.mem_append, List.mem_singleton, List.map_append, List.map_cons, List.map_nil] at hl ⊢
          rcases hl with hl | rfl
          · exact Or.inl (h4 l hl)
          · exact Or.inr rfl)
      refine ⟨a, b, c, d, ?_⟩
      intro l hl
      rcases e l hl with h | h
      · simp only [List.mem_append, List.mem_singleton] at h
        rcases h with h | rfl
        · exact Or.inl h
        · exact Or.inr rfl
      · exact Or.inr h

theorem core0_applyIndex {s : St} (c : Core0 s) (mfid : Nat) (hm : mfid ∈ s.files.map (·.pk))
    (ct : Content) : Core0 (applyIndex s mfid ct) := by
  have hfl : ∀ l ∈ s.links.filter (·.1 != mfid), l.2 ∈ s.keys.map (·.pk) :=
    fun l hl => c.linkKey l (List.mem_filter.mp hl).1
  obtain ⟨k1, k2, k3, k4, k5⟩ := linkKids_spec mfid ct.kids s.keys (s.links.filter (·.1 != mfid))
    c.keyPk c.keyKid (nodup_filter _ c.linkU) hfl
  unfold applyIndex
  have hpk := map_upd_field (·.pk) (fun f : MediaFile => f.pk == mfid)
    (fun f => { f with rep := some { track := ct.track, ctype := ct.ctype, enc := ct.enc },
                       errs := if ct.badlang then [errBadLang] else [] }) s.files (fun _ => rfl)
  have hname := map_upd_field (·.name) (fun f : MediaFile => f.pk == mfid)
    (fun f => { f with rep := some { track := ct.track, ctype := ct.ctype, enc := ct.enc },
                       errs := if ct.badlang then [errBadLang] else [] }) s.files (fun _ => rfl)
  have hblob := map_upd_field (·.blob) (fun f : MediaFile => f.pk == mfid)
    (fun f => { f with rep := some { track := ct.track, ctype := ct.ctype, enc := ct.enc },
                       errs := if ct.badlang then [errBadLang] else [] }) s.files (fun _ => rfl)
  refine { c with filePk := ?_, fileName := ?_, fileBlobU := ?_, keyPk := k1, keyKid := k2, linkU := k3,
                  fileStream := ?_, fileBlob := ?_, linkFile := ?_, linkKey := k4 }
  · simp only [hpk]; exact c.filePk
  · simp only [hname]; exact c.fileName
  · simp only [hblob]; exact c.fileBlobU
  · intro f hf
    simp only [List.mem_map] at hf
    obtain ⟨g, hg, rfl⟩ := hf
    have := c.fileStream g hg
    split <;> exact this
  · intro f hf
    simp only [List.mem_map] at hf
    obtain ⟨g, hg, rfl⟩ := hf
    have := c.fileBlob g hg
    split <;> exact this
  · intro l hl
    simp only [hpk]
    rcases k5 l hl with h | h
    · exact c.linkFile l (List.mem_filter.mp h).1
    · rw [h]; exact hm

theorem tref_applyIndex {s : St} (h : TrefOK s) (mfid : Nat) (ct : Content) :
    TrefOK (applyIndex s mfid ct) := by
  apply tref_of_files h rfl
  unfold applyIndex
  exact map_upd_field (fun f => (f.name, f.stream)) (fun f : MediaFile => f.pk == mfid)
    (fun f => { f with rep := some { track := ct.track, ctype := ct.ctype, enc := ct.enc },
                       errs := if ct.badlang then [errBadLang] else [] }) s.files (fun _ => rfl)

theorem uniq_applyIndex {s : St} (u : Uniq s) (mfid : Nat) (ct : Content) :
    Uniq (applyIndex s mfid ct) := u.of_eq rfl rfl rfl rfl

theorem findFile_mem {s : St} {k : Nat} {f : MediaFile} (h : findFile s k = some f) :
    f ∈ s.files ∧ f.pk = k := by
  obtain ⟨a, b⟩ := find?_pk_mem h
  exact ⟨a, by simpa using b⟩

theorem inv_index {s : St} (hs : Inv s) (mfid : Nat) : Inv (index s mfid).1 := by
  unfold index
  split
  · exact hs
  · next f hf =>
    split
    · exact hs
    · split
      · obtain ⟨hm, hk⟩ := findFile_mem hf
        have hmem : mfid ∈ s.files.map (·.pk) := List.mem_map.mpr ⟨f, hm, hk⟩
        exact ⟨⟨core0_applyIndex hs.1.toCore0 mfid hmem _, tref_applyIndex hs.1.tref mfid _⟩,
               uniq_applyIndex hs.2 mfid _⟩
      · exact hs

end DashLive.Store
