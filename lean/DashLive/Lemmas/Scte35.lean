import DashLive.Model.Scte35
import DashLive.Lemmas.Crc32
/-! Round-trip lemmas for the SCTE-35 model (C14). -/
namespace DashLive.Scte35
open DashLive.Bits
set_option linter.unusedSimpArgs false

/-! ### well-formedness: every value inside its bit width, absent parts canonical -/

def SpliceTime.wf (t : SpliceTime) : Bool :=
  match t.pts with
  | none => true
  | some p => decide (p < 2 ^ 33)

def BreakDuration.wf (b : BreakDuration) : Bool := decide (b.duration < 2 ^ 33)

def Component.wf (c : Component) : Bool := decide (c.tag < 2 ^ 8) && c.time.wf

/-- `immediate` only without a program `splice_time` (the encoder derives
`program_splice_flag` from the presence of `splice_time`, and does not code a
program `splice_time` of an immediate splice – D13i); program mode has no
components; a cancelled event is in canonical form. -/
def SpliceInsert.wf (s : SpliceInsert) : Bool :=
  decide (s.eventId < 2 ^ 32) &&
  (if s.cancel then decide (s = SpliceInsert.cancelled s.eventId)
   else
     (match s.spliceTime with
       | some t => t.wf && !s.immediate && s.components.isEmpty
       | none => true) &&
     decide (s.components.length < 2 ^ 8) && s.components.all Component.wf &&
     (match s.breakDuration with
       | some b => b.wf
       | none => true) &&
     decide (s.uniqueProgramId < 2 ^ 16) && decide (s.availNum < 2 ^ 8) &&
     decide (s.availsExpected < 2 ^ 8))

theorem putBits_1_1 : putBits 1 1 = [true] := rfl
theorem putBits_1_0 : putBits 1 0 = [false] := rfl
theorem putBits_bool (b : Bool) : putBits 1 b.toNat = [b] := putBits_one_bool b

/-! ### splice_time, break_duration, components -/

theorem SpliceTime.parse_enc (t : SpliceTime) (h : t.wf = true) (p : Nat) (rest : Bits) :
    SpliceTime.parse ⟨p, t.enc ++ rest⟩ = some (t, ⟨p + t.enc.length, rest⟩) := by
  cases t with
  | mk pts =>
    cases pts with
    | none =>
      simp [SpliceTime.enc, SpliceTime.parse, putBits_1_0, Rd.getBool, get_putBits, Nat.add_assoc]
    | some v =>
      have hv : v < 2 ^ 33 := by simpa [SpliceTime.wf] using h
      simp [SpliceTime.enc, SpliceTime.parse, putBits_1_1, Rd.getBool, get_putBits, hv, Nat.add_assoc]

theorem SpliceTime.enc_bytes (t : SpliceTime) : ∃ k, t.enc.length = 8 * k := by
  cases t with
  | mk pts => cases pts with
    | none => exact ⟨1, by simp [SpliceTime.enc]⟩
    | some v => exact ⟨5, by simp [SpliceTime.enc]⟩

theorem BreakDuration.parse_enc (b : BreakDuration) (h : b.wf = true) (p : Nat) (rest : Bits) :
    BreakDuration.parse ⟨p, b.enc ++ rest⟩ = some (b, ⟨p + b.enc.length, rest⟩) := by
  have hv : b.duration < 2 ^ 33 := by simpa [BreakDuration.wf] using h
  simp [BreakDuration.enc, BreakDuration.parse, putBits_bool, Rd.getBool, get_putBits, hv, Nat.add_assoc]

theorem BreakDuration.enc_length (b : BreakDuration) : b.enc.length = 8 * 5 := by
  simp [BreakDuration.enc]

theorem Component.parse_enc (c : Component) (h : c.wf = true) (p : Nat) (rest : Bits) :
    Component.parse ⟨p, c.enc ++ rest⟩ = some (c, ⟨p + c.enc.length, rest⟩) := by
  simp only [Component.wf, Bool.and_eq_true, decide_eq_true_eq] at h
  simp [Component.enc, Component.parse, get_putBits, h.1, SpliceTime.parse_enc _ h.2, Nat.add_assoc]

theorem Component.enc_bytes (c : Component) : ∃ k, c.enc.length = 8 * k := by
  obtain ⟨k, hk⟩ := c.time.enc_bytes
  exact ⟨k + 1, by simp [Component.enc, hk]; omega⟩

theorem parseComponents_enc (cs : List Component) (h : cs.all Component.wf = true) (p : Nat) (rest : Bits) :
    parseComponents cs.length ⟨p, cs.flatMap Component.enc ++ rest⟩ =
      some (cs, ⟨p + (cs.flatMap Component.enc).length, rest⟩) := by
  induction cs generalizing p with
  | nil => simp [parseComponents]
  | cons c cs ih =>
    simp only [List.all_cons, Bool.and_eq_true] at h
    simp only [List.length_cons, parseComponents, List.flatMap_cons, List.append_assoc,
      Component.parse_enc c h.1, Option.bind_eq_bind, Option.bind_some, ih h.2, List.length_append]
    simp [Nat.add_assoc]

theorem components_bytes (cs : List Component) : ∃ k, (cs.flatMap Component.enc).length = 8 * k := by
  induction cs with
  | nil => exact ⟨0, rfl⟩
  | cons c cs ih =>
    obtain ⟨k, hk⟩ := ih
    obtain ⟨j, hj⟩ := c.enc_bytes
    exact ⟨j + k, by simp [List.flatMap_cons, hk, hj]; omega⟩


/-! ### splice_insert -/

theorem SpliceInsert.parse_enc (s : SpliceInsert) (h : s.wf = true) (p : Nat) (rest : Bits) :
    SpliceInsert.parse ⟨p, s.enc ++ rest⟩ = some (s, ⟨p + s.enc.length, rest⟩) := by
  obtain ⟨eventId, cancel, oon, imm, st, comps, bd, upid, an, ae⟩ := s
  simp only [SpliceInsert.wf, Bool.and_eq_true, decide_eq_true_eq] at h
  obtain ⟨hid, h⟩ := h
  cases cancel with
  | true =>
    simp only [if_true, decide_eq_true_eq] at h
    rw [h]
    simp [SpliceInsert.enc, SpliceInsert.parse, SpliceInsert.cancelled, putBits_1_1, Rd.getBool,
      get_putBits, hid, Nat.add_assoc]
  | false =>
    simp only [Bool.false_eq_true, if_false, Bool.and_eq_true, decide_eq_true_eq] at h
    obtain ⟨⟨⟨⟨⟨⟨hst, hlen⟩, hcomps⟩, hbd⟩, hup⟩, han⟩, hae⟩ := h
    cases st with
    | some t =>
      simp only [Bool.and_eq_true, Bool.not_eq_true', List.isEmpty_iff] at hst
      obtain ⟨⟨ht, himm⟩, hc⟩ := hst
      subst himm; subst hc
      cases bd with
      | some b =>
        simp [SpliceInsert.enc, SpliceInsert.parse, putBits_1_1, putBits_1_0, putBits_bool, Rd.getBool,
          get_putBits, hid, hup, han, hae, SpliceTime.parse_enc _ ht, BreakDuration.parse_enc _ hbd,
          Nat.add_assoc] <;> omega
      | none =>
        simp [SpliceInsert.enc, SpliceInsert.parse, putBits_1_1, putBits_1_0, putBits_bool, Rd.getBool,
          get_putBits, hid, hup, han, hae, SpliceTime.parse_enc _ ht, Nat.add_assoc] <;> omega
    | none =>
      cases bd with
      | some b =>
        simp [SpliceInsert.enc, SpliceInsert.parse, putBits_1_1, putBits_1_0, putBits_bool, Rd.getBool,
          get_putBits, hid, hup, han, hae, hlen, parseComponents_enc _ hcomps,
          BreakDuration.parse_enc _ hbd, Nat.add_assoc] <;> omega
      | none =>
        simp [SpliceInsert.enc, SpliceInsert.parse, putBits_1_1, putBits_1_0, putBits_bool, Rd.getBool,
          get_putBits, hid, hup, han, hae, hlen, parseComponents_enc _ hcomps, Nat.add_assoc] <;> omega

theorem SpliceInsert.enc_bytes (s : SpliceInsert) : ∃ k, s.enc.length = 8 * k := by
  obtain ⟨eventId, cancel, oon, imm, st, comps, bd, upid, an, ae⟩ := s
  obtain ⟨kc, hkc⟩ := components_bytes comps
  cases cancel with
  | true => exact ⟨5, by simp [SpliceInsert.enc]⟩
  | false =>
    cases st with
    | some t =>
      obtain ⟨kt, hkt⟩ := t.enc_bytes
      cases imm <;> cases bd
      · exact ⟨10 + kt, by simp [SpliceInsert.enc, hkt]; omega⟩
      · exact ⟨15 + kt, by simp [SpliceInsert.enc, hkt, BreakDuration.enc_length]; omega⟩
      · exact ⟨10, by simp [SpliceInsert.enc]⟩
      · exact ⟨15, by simp [SpliceInsert.enc, BreakDuration.enc_length]⟩
    | none =>
      cases bd
      · exact ⟨11 + kc, by simp [SpliceInsert.enc, hkc]; omega⟩
      · exact ⟨16 + kc, by simp [SpliceInsert.enc, hkc, BreakDuration.enc_length]; omega⟩


/-! ### descriptors -/

def SegDesc.wf (d : SegDesc) : Bool :=
  decide (d.eventId < 2 ^ 32) &&
  (if d.cancel then decide (d = SegDesc.cancelled d.eventId)
   else
     (if d.deliveryNotRestricted then
        d.webDeliveryAllowed && d.noRegionalBlackout && d.archiveAllowed && decide (d.deviceRestrictions = 3)
      else decide (d.deviceRestrictions < 2 ^ 2)) &&
     (match d.duration with
       | some x => decide (x < 2 ^ 40)
       | none => true) &&
     decide (d.upidType < 2 ^ 8) && decide (d.upid.length < 2 ^ 8) && d.upid.all (fun b => decide (b < 256)) &&
     decide (d.typeId < 2 ^ 8) && decide (d.segmentNum < 2 ^ 8) && decide (d.segmentsExpected < 2 ^ 8) &&
     (if hasSubSegments d.typeId then
        decide (d.subSegmentNum < 2 ^ 8) && decide (d.subSegmentsExpected < 2 ^ 8)
      else decide (d.subSegmentNum = 0) && decide (d.subSegmentsExpected = 0)))

theorem SegDesc.parse_enc (d : SegDesc) (h : d.wf = true) (p : Nat) (rest : Bits) :
    SegDesc.parseFields ⟨p, d.encFields ++ rest⟩ = some (d, ⟨p + d.encFields.length, rest⟩) := by
  obtain ⟨eventId, cancel, dnr, web, blk, arch, devr, dur, ut, upid, ty, sn, se, ssn, sse⟩ := d
  simp only [SegDesc.wf, Bool.and_eq_true, decide_eq_true_eq] at h
  obtain ⟨hid, h⟩ := h
  cases cancel with
  | true =>
    simp only [if_true, decide_eq_true_eq] at h
    rw [h]
    simp [SegDesc.encFields, SegDesc.parseFields, SegDesc.cancelled, putBits_1_1, Rd.getBool,
      get_putBits, hid, Nat.add_assoc]
  | false =>
    simp only [Bool.false_eq_true, if_false, Bool.and_eq_true, decide_eq_true_eq] at h
    obtain ⟨⟨⟨⟨⟨⟨⟨⟨hdnr, hdur⟩, hut⟩, hul⟩, hub⟩, hty⟩, hsn⟩, hse⟩, hsub⟩ := h
    have hub' : ∀ b ∈ upid, b < 256 := by
      intro b hb
      have := List.all_eq_true.mp hub b hb
      simpa using this
    have hbytes := getBytes_putBytes upid
    cases hs : hasSubSegments ty <;> simp only [hs, if_true, if_false, Bool.false_eq_true, Bool.and_eq_true,
      decide_eq_true_eq] at hsub <;> obtain ⟨hssn, hsse⟩ := hsub <;>
    cases dnr <;> simp only [if_true, if_false, Bool.false_eq_true, Bool.and_eq_true, decide_eq_true_eq] at hdnr <;>
    cases dur <;> simp only [decide_eq_true_eq] at hdur <;>
    simp [SegDesc.encFields, SegDesc.parseFields, putBits_1_1, putBits_1_0, putBits_bool, Rd.getBool,
      get_putBits, hid, hut, hul, hty, hsn, hse, hs, hssn, hsse, hdnr, hdur, hbytes _ _ hub', putBytes_length,
      Nat.add_assoc] <;> omega


theorem SegDesc.encFields_bytes (d : SegDesc) : ∃ k, d.encFields.length = 8 * k := by
  obtain ⟨eventId, cancel, dnr, web, blk, arch, devr, dur, ut, upid, ty, sn, se, ssn, sse⟩ := d
  have hpl := putBytes_length upid
  cases cancel with
  | true => exact ⟨5, by simp [SegDesc.encFields]⟩
  | false =>
    cases hs : hasSubSegments ty <;> cases dnr <;> cases dur
    · exact ⟨11 + upid.length, by simp [SegDesc.encFields, hs, hpl]; omega⟩
    · exact ⟨16 + upid.length, by simp [SegDesc.encFields, hs, hpl]; omega⟩
    · exact ⟨11 + upid.length, by simp [SegDesc.encFields, hs, hpl]; omega⟩
    · exact ⟨16 + upid.length, by simp [SegDesc.encFields, hs, hpl]; omega⟩
    · exact ⟨13 + upid.length, by simp [SegDesc.encFields, hs, hpl]; omega⟩
    · exact ⟨18 + upid.length, by simp [SegDesc.encFields, hs, hpl]; omega⟩
    · exact ⟨13 + upid.length, by simp [SegDesc.encFields, hs, hpl]; omega⟩
    · exact ⟨18 + upid.length, by simp [SegDesc.encFields, hs, hpl]; omega⟩

theorem Descriptor.encFields_bytes (d : Descriptor) : ∃ k, d.encFields.length = 8 * k := by
  cases d with
  | avail i p => exact ⟨4, by simp [Descriptor.encFields]⟩
  | segmentation i s => exact s.encFields_bytes
  | time i s n o => exact ⟨12, by simp [Descriptor.encFields]⟩

/-- byte length of the class specific fields of a descriptor -/
def Descriptor.bodyBytes (d : Descriptor) : Nat := d.encFields.length / 8

theorem Descriptor.encFields_length (d : Descriptor) : d.encFields.length = 8 * d.bodyBytes := by
  obtain ⟨k, hk⟩ := d.encFields_bytes
  unfold Descriptor.bodyBytes; omega

/-- the bits of one descriptor with its `descriptor_length` filled in -/
def Descriptor.flat (d : Descriptor) : Bits :=
  putBits 8 d.tag ++ putBits 8 (4 + d.bodyBytes) ++ putBits 32 d.identifier ++ d.encFields

theorem Descriptor.flat_length (d : Descriptor) : d.flat.length = 8 * (6 + d.bodyBytes) := by
  simp [Descriptor.flat, d.encFields_length]; omega

/-- **length back-patching of `SpliceDescriptor.encode`**: the placeholder is
replaced by the byte count of everything after the length field -/
theorem Descriptor.enc_eq (w : Bits) (d : Descriptor) : Descriptor.enc w d = w ++ d.flat := by
  unfold Descriptor.enc Descriptor.flat
  have hlen : ((w ++ putBits 8 d.tag ++ putBits 8 0 ++ putBits 32 d.identifier ++ d.encFields).length
      - (w ++ putBits 8 d.tag).length - 8) / 8 = 4 + d.bodyBytes := by
    simp [d.encFields_length]; omega
  simp only [hlen]
  have e : w ++ putBits 8 d.tag ++ putBits 8 0 ++ putBits 32 d.identifier ++ d.encFields =
      (w ++ putBits 8 d.tag) ++ putBits 8 0 ++ (putBits 32 d.identifier ++ d.encFields) := by
    simp [List.append_assoc]
  rw [e, overwrite_placeholder]
  simp [List.append_assoc]

theorem descriptors_foldl (ds : List Descriptor) (w : Bits) :
    ds.foldl Descriptor.enc w = w ++ ds.flatMap Descriptor.flat := by
  induction ds generalizing w with
  | nil => simp
  | cons d ds ih => simp [List.foldl_cons, Descriptor.enc_eq, ih, List.append_assoc]

def Descriptor.wf (d : Descriptor) : Bool :=
  decide (d.identifier < 2 ^ 32) && decide (4 + d.bodyBytes < 2 ^ 8) &&
  (match d with
    | .avail _ p => decide (p < 2 ^ 32)
    | .segmentation _ s => s.wf
    | .time _ s n o => decide (s < 2 ^ 48) && decide (n < 2 ^ 32) && decide (o < 2 ^ 16))

theorem Descriptor.parse_flat (d : Descriptor) (h : d.wf = true) (p : Nat) (rest : Bits) :
    Descriptor.parse ⟨p, d.flat ++ rest⟩ = some ((d, 4 + d.bodyBytes), ⟨p + d.flat.length, rest⟩) := by
  simp only [Descriptor.wf, Bool.and_eq_true, decide_eq_true_eq] at h
  obtain ⟨⟨hi, hl⟩, hb⟩ := h
  cases d with
  | avail i a =>
    simp only [decide_eq_true_eq] at hb
    simp only [Descriptor.identifier] at hi
    simp [Descriptor.flat, Descriptor.parse, Descriptor.tag, Descriptor.identifier, Descriptor.encFields,
      get_putBits, hi, hl, hb, Nat.add_assoc]
  | segmentation i s =>
    simp only [Descriptor.identifier] at hi
    simp [Descriptor.flat, Descriptor.parse, Descriptor.tag, Descriptor.identifier, Descriptor.encFields,
      get_putBits, hi, hl, SegDesc.parse_enc s hb, Nat.add_assoc]
    omega
  | time i s n o =>
    simp only [Bool.and_eq_true, decide_eq_true_eq] at hb
    simp only [Descriptor.identifier] at hi
    simp [Descriptor.flat, Descriptor.parse, Descriptor.tag, Descriptor.identifier, Descriptor.encFields,
      get_putBits, hi, hl, hb.1.1, hb.1.2, hb.2, Nat.add_assoc]


theorem descs_bytes (ds : List Descriptor) : ∃ k, (ds.flatMap Descriptor.flat).length = 8 * k := by
  induction ds with
  | nil => exact ⟨0, rfl⟩
  | cons d ds ih =>
    obtain ⟨k, hk⟩ := ih
    exact ⟨6 + d.bodyBytes + k, by simp [List.flatMap_cons, hk, d.flat_length]; omega⟩

/-- the descriptor loop reads back exactly the descriptors that were written,
stopping at `endpos` (all positions are whole bytes) -/
theorem parseDescriptors_flat (ds : List Descriptor) (h : ds.all Descriptor.wf = true) :
    ∀ (fuel p endpos : Nat) (rest : Bits), ds.length < fuel → p % 8 = 0 →
      endpos = p / 8 + (ds.flatMap Descriptor.flat).length / 8 →
      parseDescriptors fuel endpos ⟨p, ds.flatMap Descriptor.flat ++ rest⟩ =
        some (ds.map (fun d => (d, 4 + d.bodyBytes)), ⟨p + (ds.flatMap Descriptor.flat).length, rest⟩) := by
  induction ds with
  | nil =>
    intro fuel p endpos rest hf hp he
    cases fuel with
    | zero => simp at hf
    | succ fuel => simp [parseDescriptors, Rd.bytepos, he]
  | cons d ds ih =>
    intro fuel p endpos rest hf hp he
    simp only [List.all_cons, Bool.and_eq_true] at h
    obtain ⟨k, hk⟩ := descs_bytes ds
    have hd := d.flat_length
    cases fuel with
    | zero => simp at hf
    | succ fuel =>
      simp only [List.flatMap_cons, List.length_append, hk, hd] at he
      have hlt : p / 8 < endpos := by omega
      simp only [parseDescriptors, Rd.bytepos, hlt, if_true, List.flatMap_cons, List.append_assoc,
        Descriptor.parse_flat d h.1, Option.bind_eq_bind, Option.bind_some]
      rw [ih h.2 fuel (p + d.flat.length) endpos rest (by simp at hf; omega) (by omega)
        (by rw [hk, hd]; omega)]
      simp [Nat.add_assoc]

/-! ### the section -/

theorem Command.enc_bytes (c : Command) : ∃ k, c.enc.length = 8 * k := by
  cases c with
  | null => exact ⟨0, rfl⟩
  | insert s => exact s.enc_bytes
  | timeSignal t => exact t.enc_bytes

def Command.bytes (c : Command) : Nat := c.enc.length / 8

theorem Command.enc_length (c : Command) : c.enc.length = 8 * c.bytes := by
  obtain ⟨k, hk⟩ := c.enc_bytes
  unfold Command.bytes; omega

/-- byte length of the descriptor loop -/
def Signal.loopBytes (s : Signal) : Nat := (s.descriptors.flatMap Descriptor.flat).length / 8

theorem Signal.loop_length (s : Signal) :
    (s.descriptors.flatMap Descriptor.flat).length = 8 * s.loopBytes := by
  obtain ⟨k, hk⟩ := descs_bytes s.descriptors
  unfold Signal.loopBytes; omega

/-- the fixed 68 bits written before `splice_command_length` -/
def Signal.hdr (s : Signal) : Bits :=
  putBits 8 s.protocolVersion ++ putBits 1 s.encryptedPacket.toNat ++ putBits 6 s.encryptionAlgorithm ++
  putBits 33 s.ptsAdjustment ++ putBits 8 s.cwIndex ++ putBits 12 s.tier

/-- what `encode_fields` leaves in the buffer, with both lengths filled in -/
def Signal.fieldsFlat (s : Signal) : Bits :=
  s.hdr ++ putBits 12 s.command.bytes ++ (putBits 8 s.command.type ++ s.command.enc) ++
  putBits 16 s.loopBytes ++ s.descriptors.flatMap Descriptor.flat

theorem Signal.encFields_eq (s : Signal) (w : Bits) : s.encFields w = w ++ s.fieldsFlat := by
  have hc := s.command.enc_length
  have hl := s.loop_length
  simp only [Signal.encFields, descriptors_foldl]
  have a1 : w ++ putBits 8 s.protocolVersion ++ putBits 1 s.encryptedPacket.toNat ++
      putBits 6 s.encryptionAlgorithm ++ putBits 33 s.ptsAdjustment ++ putBits 8 s.cwIndex ++
      putBits 12 s.tier = w ++ s.hdr := by
    simp [Signal.hdr, List.append_assoc]
  rw [a1]
  have a2 : w ++ s.hdr ++ putBits 12 0 ++ putBits 8 s.command.type ++ s.command.enc =
      (w ++ s.hdr) ++ putBits 12 0 ++ (putBits 8 s.command.type ++ s.command.enc) := by
    simp [List.append_assoc]
  rw [a2]
  have l1 : (((w ++ s.hdr) ++ putBits 12 0 ++ (putBits 8 s.command.type ++ s.command.enc)).length -
      (w ++ s.hdr).length - 20) / 8 = s.command.bytes := by
    simp [hc]; omega
  rw [l1, overwrite_placeholder (w ++ s.hdr) (putBits 8 s.command.type ++ s.command.enc) 12 0 s.command.bytes]
  have l2 : (((w ++ s.hdr) ++ putBits 12 s.command.bytes ++ (putBits 8 s.command.type ++ s.command.enc) ++
      putBits 16 0 ++ s.descriptors.flatMap Descriptor.flat).length -
      ((w ++ s.hdr) ++ putBits 12 s.command.bytes ++ (putBits 8 s.command.type ++ s.command.enc)).length - 16) / 8
      = s.loopBytes := by
    simp [hl]; omega
  rw [l2, overwrite_placeholder]
  simp [Signal.fieldsFlat, List.append_assoc]


theorem Signal.hdr_length (s : Signal) : s.hdr.length = 68 := by simp [Signal.hdr]

theorem Signal.fieldsFlat_length (s : Signal) :
    s.fieldsFlat.length = 8 * (13 + s.command.bytes + s.loopBytes) := by
  simp [Signal.fieldsFlat, Signal.hdr_length, s.command.enc_length, s.loop_length]; omega

/-- `section_length`: the bytes after the length field, CRC included -/
def Signal.sectionLength (s : Signal) : Nat := 17 + s.command.bytes + s.loopBytes

/-- the section before the CRC, with `section_length` filled in -/
def Signal.bodyFlat (s : Signal) : Bits :=
  putBits 8 s.tableId ++ putBits 1 s.sectionSyntaxIndicator.toNat ++ putBits 1 s.privateIndicator.toNat ++
  putBits 2 s.sapType ++ putBits 12 s.sectionLength ++ s.fieldsFlat

theorem Signal.encBody_eq (s : Signal) : s.encBody = s.bodyFlat := by
  simp only [Signal.encBody, Signal.encFields_eq]
  have l : ((putBits 8 s.tableId ++ putBits 1 s.sectionSyntaxIndicator.toNat ++
      putBits 1 s.privateIndicator.toNat ++ putBits 2 s.sapType ++ putBits 12 0 ++ s.fieldsFlat).length -
      (putBits 8 s.tableId ++ putBits 1 s.sectionSyntaxIndicator.toNat ++
      putBits 1 s.privateIndicator.toNat ++ putBits 2 s.sapType).length - 12) / 8 =
      13 + s.command.bytes + s.loopBytes := by
    simp [s.fieldsFlat_length]; omega
  rw [l, overwrite_placeholder]
  simp only [Signal.bodyFlat, Signal.sectionLength]
  congr 3
  omega

theorem Signal.bodyFlat_length (s : Signal) : s.bodyFlat.length = 8 * (s.sectionLength - 1) := by
  simp [Signal.bodyFlat, s.fieldsFlat_length, Signal.sectionLength]; omega

def Command.wf : Command → Bool
  | .null => true
  | .insert s => s.wf
  | .timeSignal t => t.wf

/-- every field inside its bit width, `encrypted_packet` clear (the encoder never
writes `E_CRC_32`), command and descriptors well formed, `section_length` fits -/
def Signal.wf (s : Signal) : Bool :=
  decide (s.tableId < 2 ^ 8) && decide (s.sapType < 2 ^ 2) && decide (s.protocolVersion < 2 ^ 8) &&
  !s.encryptedPacket && decide (s.encryptionAlgorithm < 2 ^ 6) && decide (s.ptsAdjustment < 2 ^ 33) &&
  decide (s.cwIndex < 2 ^ 8) && decide (s.tier < 2 ^ 12) && s.command.wf &&
  s.descriptors.all Descriptor.wf && decide (s.sectionLength < 2 ^ 12)

theorem descs_length_le (ds : List Descriptor) : ds.length ≤ (ds.flatMap Descriptor.flat).length := by
  induction ds with
  | nil => simp
  | cons d ds ih =>
    have := d.flat_length
    rw [List.flatMap_cons, List.length_append, List.length_cons]
    omega

theorem Command.parse_enc (c : Command) (h : c.wf = true) (p : Nat) (rest : Bits) :
    (if c.type = 4 ∨ c.type = 0xFF then none
     else if c.type = 5 then (SpliceInsert.parse ⟨p, c.enc ++ rest⟩).map (fun x => (Command.insert x.1, x.2))
     else if c.type = 6 then (SpliceTime.parse ⟨p, c.enc ++ rest⟩).map (fun x => (Command.timeSignal x.1, x.2))
     else some (Command.null, (⟨p, c.enc ++ rest⟩ : Rd))) = some (c, ⟨p + c.enc.length, rest⟩) := by
  cases c with
  | null => simp [Command.type, Command.enc]
  | insert s => simp [Command.type, Command.enc, SpliceInsert.parse_enc s h]
  | timeSignal t => simp [Command.type, Command.enc, SpliceTime.parse_enc t h]

/-- the section's fields are read back from `bodyFlat` followed by any 32 bits -/
theorem Signal.parseRd_flat (s : Signal) (h : s.wf = true) (C : Bits) (hC : C.length = 32) :
    Signal.parseRd ⟨0, s.bodyFlat ++ C⟩ = some
      ({ sig := s, sectionLength := s.sectionLength, spliceCommandLength := s.command.bytes,
         spliceCommandType := s.command.type, descriptorLoopLength := s.loopBytes,
         descriptorLengths := s.descriptors.map (fun d => 4 + d.bodyBytes),
         crc := bitsToNat C, crcValid := false }, ⟨s.bodyFlat.length + 32, []⟩) := by
  simp only [Signal.wf, Bool.and_eq_true, decide_eq_true_eq, Bool.not_eq_true'] at h
  obtain ⟨⟨⟨⟨⟨⟨⟨⟨⟨⟨htid, hsap⟩, hpv⟩, henc⟩, halg⟩, hadj⟩, hcw⟩, htier⟩, hcmd⟩, hds⟩, hsl⟩ := h
  have hcb : s.command.bytes < 2 ^ 12 := by unfold Signal.sectionLength at hsl; omega
  have hlb : s.loopBytes < 2 ^ 16 := by unfold Signal.sectionLength at hsl; omega
  have hty : s.command.type < 2 ^ 8 := by cases s.command <;> simp [Command.type]
  have hcl := s.command.enc_length
  have hll := s.loop_length
  have hfuel := descs_length_le s.descriptors
  have hbl := s.bodyFlat_length
  have hloop := parseDescriptors_flat s.descriptors hds
    ((s.descriptors.flatMap Descriptor.flat ++ C).length + 1)
    (128 + 8 * s.command.bytes) ((128 + 8 * s.command.bytes) / 8 + s.loopBytes) C
    (by rw [List.length_append]; omega) (by omega) (by rw [hll]; omega)
  have hcmdp := Command.parse_enc s.command hcmd 112
    (putBits 16 s.loopBytes ++ (s.descriptors.flatMap Descriptor.flat ++ C))
  have hraw := get_raw C 32 (128 + 8 * s.command.bytes + (s.descriptors.flatMap Descriptor.flat).length) [] hC
  simp only [List.append_nil] at hraw
  have hpos : s.bodyFlat.length + 32 =
      128 + 8 * s.command.bytes + (s.descriptors.flatMap Descriptor.flat).length + 32 := by
    unfold Signal.sectionLength at hbl; omega
  rw [hpos]
  simp only [Signal.parseRd, Signal.bodyFlat, Signal.fieldsFlat, Signal.hdr, List.append_assoc]
  simp only [get_putBits, getBool_putBits, htid, hsap, hsl, hpv, halg, hadj, hcw, htier, hcb, hty, hlb,
    Option.bind_eq_bind, Option.bind_some, Nat.zero_add, Nat.reduceAdd, hcmdp, hcl, Rd.bytepos,
    henc, Bool.false_eq_true, if_false]
  have e1 : 112 + 8 * s.command.bytes + 16 = 128 + 8 * s.command.bytes := by omega
  simp only [e1, hloop, Option.bind_some, hraw, List.map_map]
  have hm1 : List.map ((fun x : Descriptor × Nat => x.fst) ∘ fun d => (d, 4 + d.bodyBytes)) s.descriptors
      = s.descriptors := by
    have : ((fun x : Descriptor × Nat => x.fst) ∘ fun d : Descriptor => (d, 4 + d.bodyBytes)) = id := rfl
    rw [this, List.map_id]
  have hm2 : List.map ((fun x : Descriptor × Nat => x.snd) ∘ fun d => (d, 4 + d.bodyBytes)) s.descriptors
      = List.map (fun d => 4 + d.bodyBytes) s.descriptors := rfl
  rw [hm1, hm2, ← henc]

/-- CRC of a section followed by its own CRC bits is zero -/
theorem crc32_residue (body : Bits) : Crc32.crc32 (body ++ Crc32.crcBits body) = 0 := by
  unfold Crc32.crc32 Crc32.crcBits
  rw [Crc32.run_residue, Crc32.bitsToNat_replicate_false]

/-- **parse ∘ encode** on the whole section -/
theorem Signal.parse_encode (s : Signal) (h : s.wf = true) :
    Signal.parse s.encode = some
      { sig := s, sectionLength := s.sectionLength, spliceCommandLength := s.command.bytes,
        spliceCommandType := s.command.type, descriptorLoopLength := s.loopBytes,
        descriptorLengths := s.descriptors.map (fun d => 4 + d.bodyBytes),
        crc := Crc32.crc32 s.encBody, crcValid := true } := by
  have hC := Crc32.crcBits_length s.bodyFlat
  unfold Signal.parse Signal.encode
  rw [Signal.encBody_eq, Signal.parseRd_flat s h _ hC]
  have ht : List.take (s.bodyFlat.length + 32) (s.bodyFlat ++ Crc32.crcBits s.bodyFlat) =
      s.bodyFlat ++ Crc32.crcBits s.bodyFlat := by
    apply List.take_of_length_le
    simp [hC]
  have hcrc : Crc32.crc32 s.bodyFlat = bitsToNat (Crc32.crcBits s.bodyFlat) := rfl
  simp only [Option.map_some, ht, crc32_residue, hcrc, beq_self_eq_true]

/-! ### `create_binary_signal` -/
section
open DashLive.Events

/-- the PTS `create_binary_signal` puts into the splice: `pt·90000 // timescale`, 33 bits -/
def schedPts (s : Sched) (pt : Int) : Nat := (Int.fmod (pydiv (pt * 90000) s.timescale) (2 ^ 33)).toNat

/-- the break duration in 90 kHz ticks -/
def schedBreak (s : Sched) : Nat := (pydiv (s.duration * 90000) s.timescale).toNat

theorem fmod_two_cases (x : Int) : (Int.fmod x 2).toNat = 0 ∨ (Int.fmod x 2).toNat = 1 := by
  rw [Int.fmod_eq_emod_of_nonneg x (by decide : (0:Int) ≤ 2)]
  have := Int.emod_two_eq x
  omega

theorem schedPts_lt (s : Sched) (pt : Int) : schedPts s pt < 2 ^ 33 := by
  unfold schedPts
  rw [Int.fmod_eq_emod_of_nonneg _ (by decide : (0:Int) ≤ 2 ^ 33)]
  have h1 := Int.emod_lt_of_pos (pydiv (pt * 90000) s.timescale) (by decide : (0:Int) < 2 ^ 33)
  have h2 := Int.emod_nonneg (pydiv (pt * 90000) s.timescale) (by decide : (2:Int) ^ 33 ≠ 0)
  omega

/-- the shape of every signal `create_binary_signal` builds -/
def eventSignal (eid pts dur pid an ae parity : Nat) (ar : Bool) : Signal :=
  { tableId := 0xFC, sectionSyntaxIndicator := false, privateIndicator := false, sapType := 0,
    protocolVersion := 0, encryptedPacket := false, encryptionAlgorithm := 0, ptsAdjustment := 0,
    cwIndex := 0xFF, tier := 0xFFF,
    command := .insert
      { eventId := eid, cancel := false, outOfNetwork := true, immediate := false,
        spliceTime := some ⟨some pts⟩, components := [], breakDuration := some ⟨ar, dur⟩,
        uniqueProgramId := pid, availNum := an, availsExpected := ae },
    descriptors := [.segmentation 0x43554549
      { eventId := an, cancel := false, deliveryNotRestricted := true, webDeliveryAllowed := true,
        noRegionalBlackout := true, archiveAllowed := true, deviceRestrictions := 3, duration := some 0,
        upidType := 0x0F, upid := [], typeId := 0x34 + parity, segmentNum := 0, segmentsExpected := 0,
        subSegmentNum := 0, subSegmentsExpected := 0 }] }

theorem eventSignal_wf (eid pts dur pid an ae parity : Nat) (ar : Bool)
    (h1 : eid < 2 ^ 32) (h2 : pts < 2 ^ 33) (h3 : dur < 2 ^ 33) (h4 : pid < 2 ^ 16) (h5 : an < 2 ^ 8)
    (h6 : ae < 2 ^ 8) (hp : parity = 0 ∨ parity = 1) :
    (eventSignal eid pts dur pid an ae parity ar).wf = true := by
  have h5' : an < 2 ^ 32 := by omega
  rcases hp with rfl | rfl <;>
  simp [eventSignal, Signal.wf, Command.wf, SpliceInsert.wf, SpliceTime.wf, BreakDuration.wf, Descriptor.wf,
    SegDesc.wf, hasSubSegments, Signal.sectionLength, Command.bytes, Signal.loopBytes, Descriptor.bodyBytes,
    Descriptor.flat, Descriptor.encFields, SegDesc.encFields, Command.enc, SpliceInsert.enc, SpliceTime.enc,
    BreakDuration.enc, Descriptor.identifier, putBytes, h1, h2, h3, h4, h5, h5', h6]

theorem createBinarySignal_spec (s : Sched) (programId eventId pt : Int) (sig : Signal)
    (h : createBinarySignal s programId eventId pt = some sig) :
    sig.wf = true ∧ 0 ≤ eventId ∧
    ∃ si, sig.command = .insert si ∧ si.eventId = eventId.toNat ∧ si.cancel = false ∧
      si.spliceTime = some ⟨some (schedPts s pt)⟩ ∧
      si.breakDuration = some ⟨Int.fmod eventId 2 == 0, schedBreak s⟩ ∧
      si.uniqueProgramId = programId.toNat := by
  unfold createBinarySignal at h
  simp only [] at h
  by_cases hn : s.count > 0 ∧ pydiv s.count 2 < 255
  · simp only [hn, and_self, if_true] at h
    by_cases hg : s.timescale = 0 ∨ eventId < 0 ∨ eventId ≥ 2 ^ 32 ∨ pydiv (s.duration * 90000) s.timescale < 0 ∨
        pydiv (s.duration * 90000) s.timescale ≥ 2 ^ 33 ∨ programId < 0 ∨ programId ≥ 2 ^ 16 ∨
        1 + pydiv eventId 2 ≥ 256
    · simp only [hg, if_true] at h; cases h
    · simp only [hg, if_false] at h
      simp only [not_or, Int.not_lt, Int.not_le] at hg
      obtain ⟨hts, hid0, hid1, hd0, hd1, hp0, hp1, hav⟩ := hg
      injection h with h
      subst h
      refine ⟨?_, hid0, _, rfl, rfl, rfl, rfl, rfl, rfl⟩
      have hae : 1 + pydiv s.count 2 < 256 := by omega
      have hae0 : 0 ≤ pydiv s.count 2 := by
        unfold pydiv; rw [Int.fdiv_eq_ediv_of_nonneg _ (by decide)]; omega
      have han0 : 0 ≤ pydiv eventId 2 := by
        unfold pydiv; rw [Int.fdiv_eq_ediv_of_nonneg _ (by decide)]; omega
      exact eventSignal_wf eventId.toNat _ _ programId.toNat _ _ _ _ (by omega) (schedPts_lt s pt)
        (by omega) (by omega) (by omega) (by omega) (fmod_two_cases eventId)
  · simp only [hn, if_false] at h
    by_cases hg : s.timescale = 0 ∨ eventId < 0 ∨ eventId ≥ 2 ^ 32 ∨ pydiv (s.duration * 90000) s.timescale < 0 ∨
        pydiv (s.duration * 90000) s.timescale ≥ 2 ^ 33 ∨ programId < 0 ∨ programId ≥ 2 ^ 16 ∨
        (0 : Int) ≥ 256
    · simp only [hg, if_true] at h; cases h
    · simp only [hg, if_false] at h
      simp only [not_or, Int.not_lt, Int.not_le] at hg
      obtain ⟨hts, hid0, hid1, hd0, hd1, hp0, hp1, hav⟩ := hg
      injection h with h
      subst h
      refine ⟨?_, hid0, _, rfl, rfl, rfl, rfl, rfl, rfl⟩
      exact eventSignal_wf eventId.toNat _ _ programId.toNat 0 0 _ _ (by omega) (schedPts_lt s pt)
        (by omega) (by omega) (by decide) (by decide) (fmod_two_cases eventId)

end

end DashLive.Scte35
