import DashLive.Model.Options
/-! Helper lemmas for C07 (option codecs, URL escaping, query strings). -/
namespace DashLive.Options

theorem forall_uint8 {P : UInt8 → Prop} (h : ∀ n, n < 256 → P (UInt8.ofNat n)) : ∀ b, P b := by
  intro b
  have := h b.toNat b.toNat_lt
  rwa [UInt8.ofNat_toNat] at this

theorem unreserved_not_special : ∀ b, isUnreserved b = true → b ≠ 43 ∧ b ≠ 37 ∧ b ≠ 38 ∧ b ≠ 61 ∧ b ≠ 35 ∧ b ≠ 63 :=
  forall_uint8 (by decide +kernel)

theorem unhex_hexU : ∀ n, n < 16 → unhex (hexU n) = some n := by decide +kernel

theorem byte_split : ∀ b : UInt8, UInt8.ofNat (b.toNat / 16 * 16 + b.toNat % 16) = b :=
  forall_uint8 (by decide +kernel)

theorem unquotePlus_nil : unquotePlus [] = [] := by simp [unquotePlus]

theorem unquotePlus_plain (b : UInt8) (r : Bytes) (h1 : b ≠ 43) (h2 : b ≠ 37) :
    unquotePlus (b :: r) = b :: unquotePlus r := by
  rw [unquotePlus.eq_def]; simp [h1, h2]

theorem unquotePlus_plus (r : Bytes) : unquotePlus (43 :: r) = 32 :: unquotePlus r := by
  rw [unquotePlus.eq_def]; simp

theorem unquotePlus_pct (x y : Nat) (hx : x < 16) (hy : y < 16) (r : Bytes) :
    unquotePlus (37 :: hexU x :: hexU y :: r) = UInt8.ofNat (x * 16 + y) :: unquotePlus r := by
  rw [unquotePlus.eq_def]
  simp [unhex_hexU x hx, unhex_hexU y hy]

/-- a `safe` set that keeps the two decoder meta characters escaped -/
def SafeOk (safe : UInt8 → Bool) : Prop := safe 43 = false ∧ safe 37 = false

theorem unquotePlus_quoteByte (safe : UInt8 → Bool) (hs : SafeOk safe) (b : UInt8) (r : Bytes) :
    unquotePlus (quoteByte safe b ++ r) = b :: unquotePlus r := by
  unfold quoteByte
  by_cases h : (isUnreserved b || safe b) = true
  · rw [if_pos h]
    have h1 : b ≠ 43 := by
      intro e; subst e
      rcases (Bool.or_eq_true _ _).mp h with h | h
      · exact absurd h (by decide)
      · rw [hs.1] at h; exact absurd h (by decide)
    have h2 : b ≠ 37 := by
      intro e; subst e
      rcases (Bool.or_eq_true _ _).mp h with h | h
      · exact absurd h (by decide)
      · rw [hs.2] at h; exact absurd h (by decide)
    exact unquotePlus_plain b r h1 h2
  · rw [if_neg h]
    by_cases h32 : b = 32
    · rw [if_pos h32, h32]; exact unquotePlus_plus r
    · rw [if_neg h32]
      have hx : b.toNat / 16 < 16 := by have := b.toNat_lt; omega
      have hy : b.toNat % 16 < 16 := Nat.mod_lt _ (by decide)
      have := unquotePlus_pct (b.toNat / 16) (b.toNat % 16) hx hy r
      show unquotePlus (37 :: hexU (b.toNat / 16) :: hexU (b.toNat % 16) :: r) = _
      rw [this, byte_split]

theorem unquotePlus_quotePlus (safe : UInt8 → Bool) (hs : SafeOk safe) (s : Bytes) :
    unquotePlus (quotePlus safe s) = s := by
  induction s with
  | nil => simp [quotePlus, unquotePlus_nil]
  | cons b r ih => simp only [quotePlus]; rw [unquotePlus_quoteByte safe hs, ih]


/-! ### split / join -/

theorem splitOn_ne_nil (sep : UInt8) (s : Bytes) : splitOn sep s ≠ [] := by
  induction s with
  | nil => simp [splitOn]
  | cons b r ih =>
    unfold splitOn
    by_cases h : b = sep
    · simp [h]
    · simp only [h, if_false]
      cases hs : splitOn sep r with
      | nil => exact absurd hs ih
      | cons p ps => simp

theorem splitOn_cons_sep (sep : UInt8) (r : Bytes) : splitOn sep (sep :: r) = [] :: splitOn sep r := by
  rw [splitOn]; simp

theorem splitOn_cons_ne (sep b : UInt8) (r p : Bytes) (ps : List Bytes) (h : b ≠ sep)
    (hs : splitOn sep r = p :: ps) : splitOn sep (b :: r) = (b :: p) :: ps := by
  rw [splitOn]; simp [h, hs]

theorem splitOn_noSep (sep : UInt8) (p : Bytes) (h : sep ∉ p) : splitOn sep p = [p] := by
  induction p with
  | nil => simp [splitOn]
  | cons b r ih =>
    have hb : b ≠ sep := fun e => h (by simp [e])
    have hr : sep ∉ r := fun e => h (by simp [e])
    exact splitOn_cons_ne sep b r r [] hb (ih hr)

theorem splitOn_append_sep (sep : UInt8) (p r : Bytes) (h : sep ∉ p) :
    splitOn sep (p ++ sep :: r) = p :: splitOn sep r := by
  induction p with
  | nil => exact splitOn_cons_sep sep r
  | cons b q ih =>
    have hb : b ≠ sep := fun e => h (by simp [e])
    have hq : sep ∉ q := fun e => h (by simp [e])
    exact splitOn_cons_ne sep b _ q _ hb (ih hq)

theorem splitOn_joinWith (sep : UInt8) (ps : List Bytes) (hne : ps ≠ [])
    (h : ∀ p ∈ ps, sep ∉ p) : splitOn sep (joinWith sep ps) = ps := by
  induction ps with
  | nil => exact absurd rfl hne
  | cons p r ih =>
    cases r with
    | nil => simp only [joinWith]; exact splitOn_noSep sep p (h p (by simp))
    | cons q r' =>
      simp only [joinWith]
      rw [splitOn_append_sep sep p _ (h p (by simp))]
      rw [ih (by simp) (fun x hx => h x (by simp [hx]))]

theorem splitFirst_append (sep : UInt8) (k v : Bytes) (h : sep ∉ k) :
    splitFirst sep (k ++ sep :: v) = (k, some v) := by
  induction k with
  | nil => simp [splitFirst]
  | cons b q ih =>
    have hb : b ≠ sep := fun e => h (by simp [e])
    have hq : sep ∉ q := fun e => h (by simp [e])
    show splitFirst sep (b :: (q ++ sep :: v)) = _
    unfold splitFirst
    simp only [hb, if_false, ih hq]

theorem splitFirst_noSep (sep : UInt8) (k : Bytes) (h : sep ∉ k) :
    splitFirst sep k = (k, none) := by
  induction k with
  | nil => simp [splitFirst]
  | cons b q ih =>
    have hb : b ≠ sep := fun e => h (by simp [e])
    have hq : sep ∉ q := fun e => h (by simp [e])
    unfold splitFirst
    simp only [hb, if_false, ih hq]

/-! ### decimal numerals -/

theorem digitB_props : ∀ d, d < 10 → isDigit (digitB d) = true ∧ digitVal (digitB d) = d ∧
    isWs (digitB d) = false ∧ digitB d ≠ 45 ∧ digitB d ≠ 43 ∧ digitB d ≠ 95 ∧ digitB d ≠ 44 ∧
    digitB d ≠ 61 ∧ digitB d ≠ 46 := by decide +kernel

theorem natDec_lt (n : Nat) (h : n < 10) : natDec n = [digitB n] := by
  rw [natDec]; simp [h]

theorem natDec_ge (n : Nat) (h : ¬ n < 10) : natDec n = natDec (n / 10) ++ [digitB (n % 10)] := by
  rw [natDec]; simp [h]

/-- every byte of a decimal numeral is an ASCII digit -/
theorem natDec_digits (n : Nat) : ∀ b ∈ natDec n, ∃ d, d < 10 ∧ b = digitB d := by
  induction n using Nat.strongRecOn with
  | _ n ih =>
    by_cases h : n < 10
    · rw [natDec_lt n h]; intro b hb; simp at hb; exact ⟨n, h, hb⟩
    · rw [natDec_ge n h]; intro b hb
      rcases List.mem_append.mp hb with hb | hb
      · exact ih (n / 10) (by omega) b hb
      · simp at hb; exact ⟨n % 10, Nat.mod_lt _ (by decide), hb⟩

theorem natDec_ne_nil (n : Nat) : natDec n ≠ [] := by
  by_cases h : n < 10
  · rw [natDec_lt n h]; simp
  · rw [natDec_ge n h]; simp

theorem digitsVal_append (acc : Nat) (xs : Bytes) (d : Nat) (hd : d < 10) :
    digitsVal acc (xs ++ [digitB d]) = (digitsVal acc xs).map (fun a => a * 10 + d) := by
  induction xs generalizing acc with
  | nil => simp [digitsVal, (digitB_props d hd).1, (digitB_props d hd).2.1]
  | cons b r ih =>
    simp only [List.cons_append, digitsVal]
    by_cases hb : isDigit b = true
    · simp only [hb, if_true]; exact ih _
    · simp [hb]

theorem digitsVal_natDec (n : Nat) : digitsVal 0 (natDec n) = some n := by
  induction n using Nat.strongRecOn with
  | _ n ih =>
    by_cases h : n < 10
    · rw [natDec_lt n h]; simp [digitsVal, (digitB_props n h).1, (digitB_props n h).2.1]
    · rw [natDec_ge n h, digitsVal_append _ _ _ (Nat.mod_lt _ (by decide)), ih (n / 10) (by omega)]
      simp; omega



def AllDigits (l : Bytes) : Prop := ∀ b ∈ l, ∃ d, d < 10 ∧ b = digitB d

theorem pyDigitsAux_digits (l : Bytes) (hl : AllDigits l) (acc : Nat) :
    pyDigitsAux acc true l = digitsVal acc l := by
  induction l generalizing acc with
  | nil => simp [pyDigitsAux, digitsVal]
  | cons b r ih =>
    obtain ⟨d, hd, rfl⟩ := hl b (by simp)
    simp only [pyDigitsAux, digitsVal, (digitB_props d hd).1, if_true]
    exact ih (fun x hx => hl x (by simp [hx])) _

theorem pyDigits_digits (l : Bytes) (hl : AllDigits l) (hne : l ≠ []) :
    pyDigits l = digitsVal 0 l := by
  cases l with
  | nil => exact absurd rfl hne
  | cons b r =>
    obtain ⟨d, hd, rfl⟩ := hl b (by simp)
    simp only [pyDigits, pyDigitsAux, digitsVal, (digitB_props d hd).1, if_true]
    exact pyDigitsAux_digits r (fun x hx => hl x (by simp [hx])) _

theorem dropWhile_id {p : UInt8 → Bool} (l : Bytes) (h : ∀ b ∈ l, p b = false) : l.dropWhile p = l := by
  cases l with
  | nil => rfl
  | cons b r => exact List.dropWhile_cons_of_neg (by simp [h b (by simp)])

theorem strip_id (l : Bytes) (h : ∀ b ∈ l, isWs b = false) : strip l = l := by
  unfold strip
  rw [dropWhile_id l h, dropWhile_id l.reverse (fun b hb => h b (List.mem_reverse.mp hb)), List.reverse_reverse]

theorem natDec_noWs (n : Nat) : ∀ b ∈ natDec n, isWs b = false := by
  intro b hb; obtain ⟨d, hd, rfl⟩ := natDec_digits n b hb; exact (digitB_props d hd).2.2.1

theorem pyDigits_natDec (n : Nat) : pyDigits (natDec n) = some n := by
  rw [pyDigits_digits _ (natDec_digits n) (natDec_ne_nil n), digitsVal_natDec]

theorem natDec_head (n : Nat) : ∃ d r, d < 10 ∧ natDec n = digitB d :: r := by
  have hne := natDec_ne_nil n
  cases h : natDec n with
  | nil => exact absurd h hne
  | cons b r =>
    obtain ⟨d, hd, rfl⟩ := natDec_digits n b (by rw [h]; simp)
    exact ⟨d, r, hd, rfl⟩

theorem pyInt_natDec (n : Nat) : pyInt (natDec n) = some (n : Int) := by
  unfold pyInt
  rw [strip_id _ (natDec_noWs n)]
  obtain ⟨d, r, hd, h⟩ := natDec_head n
  have hp := pyDigits_natDec n
  rw [h] at hp ⊢
  simp only [(digitB_props d hd).2.2.2.1, (digitB_props d hd).2.2.2.2.1, if_false, hp, Option.map_some]
  rfl

theorem pyInt_intDec (z : Int) : pyInt (intDec z) = some z := by
  unfold intDec
  by_cases hz : z < 0
  · simp only [hz, if_true]
    unfold pyInt
    have hws : ∀ b ∈ (45 : UInt8) :: natDec z.natAbs, isWs b = false := by
      intro b hb
      rcases List.mem_cons.mp hb with rfl | hb
      · decide
      · exact natDec_noWs _ b hb
    rw [strip_id _ hws]
    simp only [if_true, pyDigits_natDec, Option.map_some]
    congr 1; show -((z.natAbs : Nat) : Int) = z; omega
  · simp only [hz, if_false]
    rw [pyInt_natDec]; congr 1; omega



/-! ### none-like texts -/

theorem isNoneCS_false_of_head (b : UInt8) (r : Bytes) (h : b ≠ 110) : isNoneCS (b :: r) = false := by
  unfold isNoneCS tNone
  have : ascii "none" = [110, 111, 110, 101] := by decide
  rw [this]
  simp [h]

theorem isNoneCI_false_of_head (b : UInt8) (r : Bytes) (h : lowerB b ≠ 110) : isNoneCI (b :: r) = false := by
  unfold isNoneCI tNone lower
  have : ascii "none" = [110, 111, 110, 101] := by decide
  rw [this]
  simp [h]

theorem lowerB_digit : ∀ d, d < 10 → lowerB (digitB d) ≠ 110 ∧ digitB d ≠ 110 := by decide +kernel

theorem intDec_head (z : Int) : ∃ b r, intDec z = b :: r ∧ b ≠ 110 ∧ lowerB b ≠ 110 := by
  unfold intDec
  by_cases hz : z < 0
  · simp only [hz, if_true]; exact ⟨45, _, rfl, by decide, by decide⟩
  · simp only [hz, if_false]
    obtain ⟨d, r, hd, h⟩ := natDec_head z.toNat
    exact ⟨digitB d, r, h, (lowerB_digit d hd).2, (lowerB_digit d hd).1⟩

theorem isNoneCS_intDec (z : Int) : isNoneCS (intDec z) = false := by
  obtain ⟨b, r, h, h1, _⟩ := intDec_head z
  rw [h]; exact isNoneCS_false_of_head b r h1

theorem isNoneCI_intDec (z : Int) : isNoneCI (intDec z) = false := by
  obtain ⟨b, r, h, _, h2⟩ := intDec_head z
  rw [h]; exact isNoneCI_false_of_head b r h2

theorem intOrNone_intDec (z : Int) : intOrNone (intDec z) = .ok (some z) := by
  unfold intOrNone
  simp [isNoneCS_intDec, pyInt_intDec]

/-- bytes of `str(int)`: digits or a minus sign -/
theorem intDec_bytes (z : Int) : ∀ b ∈ intDec z, b = 45 ∨ ∃ d, d < 10 ∧ b = digitB d := by
  unfold intDec
  by_cases hz : z < 0
  · simp only [hz, if_true]
    intro b hb
    rcases List.mem_cons.mp hb with rfl | hb
    · exact Or.inl rfl
    · exact Or.inr (natDec_digits _ b hb)
  · simp only [hz, if_false]; intro b hb; exact Or.inr (natDec_digits _ b hb)

theorem intDec_no (z : Int) (c : UInt8) (h45 : c ≠ 45) (hd : ∀ d, d < 10 → digitB d ≠ c) : c ∉ intDec z := by
  intro hc
  rcases intDec_bytes z c hc with rfl | ⟨d, hd', rfl⟩
  · exact h45 rfl
  · exact hd d hd' rfl

theorem intDec_noComma (z : Int) : (44 : UInt8) ∉ intDec z :=
  intDec_no z 44 (by decide) (fun d hd => (digitB_props d hd).2.2.2.2.2.2.1)

theorem intDec_noEq (z : Int) : (61 : UInt8) ∉ intDec z :=
  intDec_no z 61 (by decide) (fun d hd => (digitB_props d hd).2.2.2.2.2.2.2.1)

/-! ### floats that are multiples of 0.1 -/

theorem pyTenths_tenthsDec (t : Nat) : pyTenths (tenthsDec t) = some t := by
  unfold pyTenths tenthsDec
  have hd : t % 10 < 10 := Nat.mod_lt _ (by decide)
  have hws : ∀ b ∈ natDec (t / 10) ++ 46 :: [digitB (t % 10)], isWs b = false := by
    intro b hb
    rcases List.mem_append.mp hb with hb | hb
    · exact natDec_noWs _ b hb
    · rcases List.mem_cons.mp hb with rfl | hb
      · decide
      · simp at hb; subst hb; exact (digitB_props _ hd).2.2.1
  rw [strip_id _ hws]
  have h46 : (46 : UInt8) ∉ natDec (t / 10) := by
    intro hc; obtain ⟨d, hd', e⟩ := natDec_digits _ _ hc
    exact (digitB_props d hd').2.2.2.2.2.2.2.2 e.symm
  rw [splitOn_append_sep 46 _ _ h46, splitOn_noSep 46 [digitB (t % 10)] (by
    simp; exact fun e => (digitB_props _ hd).2.2.2.2.2.2.2.2 e.symm)]
  simp only [(digitB_props _ hd).1, if_true, digitsNE, natDec_ne_nil, if_false, digitsVal_natDec,
    Option.map_some, (digitB_props _ hd).2.1]
  congr 1; omega

theorem tenthsDec_head (t : Nat) : ∃ b r, tenthsDec t = b :: r ∧ b ≠ 110 := by
  unfold tenthsDec
  obtain ⟨d, r, hd, h⟩ := natDec_head (t / 10)
  exact ⟨digitB d, r ++ 46 :: [digitB (t % 10)], by rw [h]; rfl, (lowerB_digit d hd).2⟩


/-! ### comma separated lists -/

theorem tNone_eq : tNone = [110, 111, 110, 101] := by decide

theorem isNoneCI_false_of_mem (s : Bytes) (c : UInt8) (hc : c ∈ s)
    (h : lowerB c ≠ 110 ∧ lowerB c ≠ 111 ∧ lowerB c ≠ 101) : isNoneCI s = false := by
  unfold isNoneCI lower
  rw [tNone_eq]
  have hm : lowerB c ∈ s.map lowerB := List.mem_map_of_mem hc
  cases hs : s.map lowerB with
  | nil => rw [hs] at hm; simp at hm
  | cons x xs =>
    have hne : ¬ (x :: xs = [110, 111, 110, 101]) := by
      intro e; rw [hs, e] at hm
      simp at hm; rcases hm with hm | hm | hm | hm <;> simp_all
    have h1 : ((x :: xs) == ([] : Bytes)) = false := by simp
    have h2 : ((x :: xs) == ([110, 111, 110, 101] : Bytes)) = false := by
      simpa using hne
    rw [h1, h2]; rfl

theorem joinWith_mem_sep (sep : UInt8) (p q : Bytes) (r : List Bytes) : sep ∈ joinWith sep (p :: q :: r) := by
  simp [joinWith]

theorem isNoneCI_joinWith (l : List Bytes) (hne : l ≠ []) (h : ∀ i ∈ l, isNoneCI i = false) :
    isNoneCI (joinWith 44 l) = false := by
  cases l with
  | nil => exact absurd rfl hne
  | cons p r =>
    cases r with
    | nil => simpa [joinWith] using h p (by simp)
    | cons q r' =>
      exact isNoneCI_false_of_mem _ 44 (joinWith_mem_sep 44 p q r') (by decide)

theorem filter_notNone (l : List Bytes) (h : ∀ i ∈ l, isNoneCI i = false) :
    l.filter (fun i => !isNoneCI i) = l := by
  apply List.filter_eq_self.mpr
  intro i hi; simp [h i hi]

theorem isNoneCI_nil : isNoneCI [] = true := by decide

/-- `from_string(to_string(l)) = l` for the comma-list codec -/
theorem listJoin_roundtrip (l : List Bytes) (h : ∀ i ∈ l, (44 : UInt8) ∉ i ∧ isNoneCI i = false) :
    (if isNoneCI (joinWith 44 l) then [] else (splitOn 44 (joinWith 44 l)).filter (fun i => !isNoneCI i)) = l := by
  by_cases hl : l = []
  · subst hl; simp [joinWith, isNoneCI_nil]
  · rw [isNoneCI_joinWith l hl (fun i hi => (h i hi).2)]
    simp only [Bool.false_eq_true, if_false]
    rw [splitOn_joinWith 44 l hl (fun i hi => (h i hi).1), filter_notNone l (fun i hi => (h i hi).2)]

/-! ### escaped URLs are never none-like -/

theorem quoteByte_cases (safe : UInt8 → Bool) (b : UInt8) :
    quoteByte safe b = [b] ∨ (∃ c r, quoteByte safe b = c :: r ∧ (c = 43 ∨ c = 37)) := by
  unfold quoteByte
  by_cases h : (isUnreserved b || safe b) = true
  · rw [if_pos h]; exact Or.inl rfl
  · rw [if_neg h]
    by_cases h32 : b = 32
    · rw [if_pos h32]; exact Or.inr ⟨43, [], rfl, Or.inl rfl⟩
    · rw [if_neg h32]; exact Or.inr ⟨37, _, rfl, Or.inr rfl⟩

theorem quotePlus_eq_self (safe : UInt8 → Bool) (s : Bytes)
    (h : ∀ c ∈ quotePlus safe s, c ≠ 43 ∧ c ≠ 37) : quotePlus safe s = s := by
  induction s with
  | nil => rfl
  | cons b r ih =>
    simp only [quotePlus] at h ⊢
    rcases quoteByte_cases safe b with hq | ⟨c, t, hq, hc⟩
    · rw [hq] at h ⊢
      rw [ih (fun c hc => h c (by simp [hc]))]; rfl
    · rw [hq] at h
      have := h c (by simp)
      rcases hc with rfl | rfl <;> simp at this

theorem quotePlus_nil_iff (safe : UInt8 → Bool) (s : Bytes) (h : quotePlus safe s = []) : s = [] := by
  cases s with
  | nil => rfl
  | cons b r =>
    simp only [quotePlus] at h
    rcases quoteByte_cases safe b with hq | ⟨c, t, hq, _⟩ <;> rw [hq] at h <;> simp at h

theorem lowerB_none_letters : ∀ c : UInt8, (lowerB c = 110 ∨ lowerB c = 111 ∨ lowerB c = 101) → c ≠ 43 ∧ c ≠ 37 :=
  forall_uint8 (by decide +kernel)

theorem isNoneCI_quotePlus (safe : UInt8 → Bool) (s : Bytes) (h : isNoneCI s = false) :
    isNoneCI (quotePlus safe s) = false := by
  cases hq : isNoneCI (quotePlus safe s) with
  | false => rfl
  | true =>
    exfalso
    unfold isNoneCI at hq
    rcases (Bool.or_eq_true _ _).mp hq with hq | hq
    · have : lower (quotePlus safe s) = [] := by simpa using hq
      have : quotePlus safe s = [] := by unfold lower at this; simpa using this
      have := quotePlus_nil_iff safe s this
      subst this; simp [isNoneCI_nil] at h
    · have hl : lower (quotePlus safe s) = tNone := by simpa using hq
      have hall : ∀ c ∈ quotePlus safe s, c ≠ 43 ∧ c ≠ 37 := by
        intro c hc
        have hm : lowerB c ∈ lower (quotePlus safe s) := List.mem_map_of_mem hc
        rw [hl, tNone_eq] at hm
        apply lowerB_none_letters c
        simp at hm; rcases hm with hm | hm | hm | hm <;> simp [hm]
      rw [quotePlus_eq_self safe s hall] at hl
      unfold isNoneCI at h
      simp [hl] at h


/-! ### DRM selections -/

/-- canonical DRM selection: known systems, each with a non-empty set of locations -/
def CanonDrm (v : List (Bytes × LocSet)) : Prop := ∀ e ∈ v, e.1 ∈ drmNames ∧ e.2 ≠ LocSet.empty

theorem drmName_facts' : ∀ n ∈ drmNames, (45 : UInt8) ∉ n ∧ (44 : UInt8) ∉ n ∧ lower n = n ∧
    n ≠ [] ∧ n.head? ≠ some 110 ∧ n.head? ≠ some 97 := by
  decide +kernel

theorem drmName_facts (n : Bytes) (hn : n ∈ drmNames) : (45 : UInt8) ∉ n ∧ (44 : UInt8) ∉ n ∧ lower n = n ∧
    ∃ b r, n = b :: r ∧ b ≠ 110 ∧ b ≠ 97 := by
  obtain ⟨h1, h2, h3, h4, h5, h6⟩ := drmName_facts' n hn
  refine ⟨h1, h2, h3, ?_⟩
  cases n with
  | nil => exact absurd rfl h4
  | cons b r => exact ⟨b, r, rfl, by simpa using h5, by simpa using h6⟩

theorem locSet_facts (l : LocSet) :
    locSetOf .valueError l.names = .ok l ∧
    (∀ n ∈ l.names, (45 : UInt8) ∉ n ∧ (44 : UInt8) ∉ n ∧ lower n = n) ∧
    (l ≠ LocSet.empty → l.names ≠ []) := by
  obtain ⟨c, m, p⟩ := l
  cases c <;> cases m <;> cases p <;> refine ⟨by rfl, by decide +kernel, by decide⟩

theorem lower_append (a b : Bytes) : lower (a ++ b) = lower a ++ lower b := by simp [lower]

theorem lower_joinWith (sep : UInt8) (hs : lowerB sep = sep) (ps : List Bytes) (h : ∀ p ∈ ps, lower p = p) :
    lower (joinWith sep ps) = joinWith sep ps := by
  induction ps with
  | nil => rfl
  | cons p r ih =>
    cases r with
    | nil => simpa [joinWith] using h p (by simp)
    | cons q r' =>
      simp only [joinWith, lower_append]
      rw [h p (by simp)]
      have := ih (fun x hx => h x (by simp [hx]))
      simp only [lower, List.map_cons, hs] at this ⊢
      rw [this]

theorem not_mem_joinWith (c sep : UInt8) (hc : c ≠ sep) (ps : List Bytes) (h : ∀ p ∈ ps, c ∉ p) :
    c ∉ joinWith sep ps := by
  induction ps with
  | nil => simp [joinWith]
  | cons p r ih =>
    cases r with
    | nil => simpa [joinWith] using h p (by simp)
    | cons q r' =>
      simp only [joinWith, List.mem_append, List.mem_cons, not_or]
      exact ⟨h p (by simp), hc, ih (fun x hx => h x (by simp [hx]))⟩

/-- text of one canonical item: no comma, lower case, starts with the first letter of a system name -/
theorem drmItemText_facts (e : Bytes × LocSet) (he : e.1 ∈ drmNames) :
    (44 : UInt8) ∉ drmItemText e ∧ lower (drmItemText e) = drmItemText e ∧
    ∃ b r, drmItemText e = b :: r ∧ b ≠ 110 ∧ b ≠ 97 := by
  obtain ⟨h45, h44, hl, b, r, hn, hb1, hb2⟩ := drmName_facts e.1 he
  obtain ⟨_, hnames, _⟩ := locSet_facts e.2
  unfold drmItemText
  by_cases hall : e.2 = LocSet.all
  · simp only [hall, if_true]; exact ⟨h44, hl, b, r, hn, hb1, hb2⟩
  · simp only [hall, if_false]
    refine ⟨?_, ?_, ?_⟩
    · apply not_mem_joinWith 44 45 (by decide)
      intro p hp
      rcases List.mem_cons.mp hp with rfl | hp
      · exact h44
      · exact (hnames p hp).2.1
    · apply lower_joinWith 45 (by decide)
      intro p hp
      rcases List.mem_cons.mp hp with rfl | hp
      · exact hl
      · exact (hnames p hp).2.2
    · cases hnm : e.2.names with
      | nil => exact ⟨b, r, by simp [joinWith, hn], hb1, hb2⟩
      | cons q qs => exact ⟨b, r ++ 45 :: joinWith 45 (q :: qs), by simp [joinWith, hn], hb1, hb2⟩

theorem contains_iff (s : Bytes) (c : UInt8) : s.contains c = true ↔ c ∈ s := by simp

theorem drmItem_text (e : Bytes × LocSet) (he : e.1 ∈ drmNames) (hne : e.2 ≠ LocSet.empty) :
    drmItem (drmItemText e) = .ok e := by
  obtain ⟨h45, _, _, _⟩ := drmName_facts e.1 he
  obtain ⟨hloc, hnames, hnn⟩ := locSet_facts e.2
  unfold drmItemText
  by_cases hall : e.2 = LocSet.all
  · simp only [hall, if_true]
    unfold drmItem
    have : e.1.contains 45 = false := by
      cases h : e.1.contains 45 with
      | false => rfl
      | true => exact absurd ((contains_iff _ _).mp h) h45
    rw [this]; simp only [Bool.false_eq_true, if_false]
    rw [← hall]
  · simp only [hall, if_false]
    unfold drmItem
    have hnames_ne := hnn hne
    have hc : (joinWith 45 (e.1 :: e.2.names)).contains 45 = true := by
      apply (contains_iff _ _).mpr
      cases hnm : e.2.names with
      | nil => exact absurd hnm hnames_ne
      | cons q qs => exact joinWith_mem_sep 45 e.1 q qs
    rw [hc]; simp only [if_true]
    rw [splitOn_joinWith 45 (e.1 :: e.2.names) (by simp) (by
      intro p hp
      rcases List.mem_cons.mp hp with rfl | hp
      · exact h45
      · exact (hnames p hp).1)]
    simp only [hloc]
    rfl

theorem mapM_drmItem (v : List (Bytes × LocSet)) (hv : CanonDrm v) :
    (v.map drmItemText).mapM drmItem = .ok v := by
  induction v with
  | nil => rfl
  | cons e r ih =>
    have he := hv e (by simp)
    simp only [List.map_cons, List.mapM_cons, drmItem_text e he.1 he.2,
      ih (fun x hx => hv x (by simp [hx]))]
    rfl

theorem startsWith_false_of_head (p0 b : UInt8) (p r : Bytes) (h : b ≠ p0) :
    startsWith (p0 :: p) (b :: r) = false := by
  simp [startsWith, h]

theorem joinWith_head (sep b : UInt8) (r : Bytes) (ts : List Bytes) :
    ∃ r', joinWith sep ((b :: r) :: ts) = b :: r' := by
  cases ts with
  | nil => exact ⟨r, rfl⟩
  | cons q qs => exact ⟨r ++ sep :: joinWith sep (q :: qs), rfl⟩

/-- not the `all` shorthand: the text parses back to exactly the same list -/
theorem drm_roundtrip_list (v : List (Bytes × LocSet)) (hv : CanonDrm v) :
    drmFromString (joinWith 44 (v.map drmItemText)) = .ok v := by
  cases v with
  | nil => rfl
  | cons e r =>
    have he := hv e (by simp)
    have hfacts : ∀ x ∈ (e :: r).map drmItemText, (44 : UInt8) ∉ x ∧ lower x = x := by
      intro x hx
      obtain ⟨y, hy, rfl⟩ := List.mem_map.mp hx
      have := drmItemText_facts y (hv y hy).1
      exact ⟨this.1, this.2.1⟩
    obtain ⟨_, _, b, t, ht, hb1, hb2⟩ := drmItemText_facts e he.1
    have hlow : lower (joinWith 44 ((e :: r).map drmItemText)) = joinWith 44 ((e :: r).map drmItemText) :=
      lower_joinWith 44 (by decide) _ (fun x hx => (hfacts x hx).2)
    obtain ⟨t', hhead⟩ : ∃ t', joinWith 44 ((e :: r).map drmItemText) = b :: t' := by
      simp only [List.map_cons, ht]; exact joinWith_head 44 b t _
    unfold drmFromString
    simp only [hlow]
    rw [hhead]
    have h1 : startsWith tNone (b :: t') = false := by
      rw [tNone_eq]; exact startsWith_false_of_head 110 b _ t' hb1
    have h2 : startsWith (ascii "all") (b :: t') = false := by
      have : ascii "all" = [97, 108, 108] := by decide
      rw [this]; exact startsWith_false_of_head 97 b _ t' hb2
    have h3 : ((b :: t') == ([] : Bytes)) = false := by simp
    simp only [h1, h2, h3, Bool.or_self, Bool.false_eq_true, if_false]
    rw [← hhead, splitOn_joinWith 44 _ (by simp) (fun x hx => (hfacts x hx).1)]
    exact mapM_drmItem (e :: r) hv


theorem drmItemText_has45 (e : Bytes × LocSet) (h : e.2 ≠ LocSet.all) (hne : e.2 ≠ LocSet.empty) :
    (45 : UInt8) ∈ drmItemText e := by
  unfold drmItemText
  simp only [h, if_false]
  have := (locSet_facts e.2).2.2 hne
  cases hnm : e.2.names with
  | nil => exact absurd hnm this
  | cons q qs => exact joinWith_mem_sep 45 e.1 q qs

theorem drmItemText_all (e : Bytes × LocSet) (h : e.2 = LocSet.all) : drmItemText e = e.1 := by
  unfold drmItemText; simp [h]

theorem isAllDrm_spec (v : List (Bytes × LocSet)) (hv : CanonDrm v)
    (h : isAllDrm (v.map drmItemText) = true) :
    ∀ e, e ∈ drmNames.map (·, LocSet.all) ↔ e ∈ v := by
  unfold isAllDrm at h
  obtain ⟨h1, h2⟩ := (Bool.and_eq_true _ _).mp h
  have h1' : ∀ y ∈ v, drmItemText y ∈ drmNames := by
    intro y hy
    have := List.all_eq_true.mp h1 (drmItemText y) (List.mem_map_of_mem hy)
    simpa using this
  have h2' : ∀ n ∈ drmNames, ∃ y ∈ v, drmItemText y = n := by
    intro n hn
    have := List.all_eq_true.mp h2 n hn
    have : n ∈ v.map drmItemText := by simpa using this
    obtain ⟨y, hy, e⟩ := List.mem_map.mp this
    exact ⟨y, hy, e⟩
  have key : ∀ y ∈ v, y.2 = LocSet.all := by
    intro y hy
    by_cases hall : y.2 = LocSet.all
    · exact hall
    · exact absurd (drmItemText_has45 y hall (hv y hy).2) (drmName_facts _ (h1' y hy)).1
  intro e
  constructor
  · intro he
    obtain ⟨n, hn, rfl⟩ := List.mem_map.mp he
    obtain ⟨y, hy, e'⟩ := h2' n hn
    rw [drmItemText_all y (key y hy)] at e'
    have : y = (n, LocSet.all) := by
      rw [← e', ← key y hy]
    rw [← this]; exact hy
  · intro he
    have := h1' e he
    rw [drmItemText_all e (key e he)] at this
    apply List.mem_map.mpr
    exact ⟨e.1, this, by rw [← key e he]⟩

theorem drmFromString_all : drmFromString (ascii "all") = .ok (drmNames.map (·, LocSet.all)) := by
  rfl

/-- `_drm_selection_from_string(_drm_selection_to_string(v))` selects the same systems with the
same locations (as a set: the `all` shorthand lists the systems in `DrmSystem.values()` order) -/
theorem drm_roundtrip (v : List (Bytes × LocSet)) (hv : CanonDrm v) :
    ∃ r, drmFromString (drmToString v) = .ok r ∧ (∀ e, e ∈ r ↔ e ∈ v) ∧
      (isAllDrm (v.map drmItemText) = false → r = v) := by
  unfold drmToString
  by_cases h : isAllDrm (v.map drmItemText) = true
  · simp only [h, if_true]
    exact ⟨_, drmFromString_all, isAllDrm_spec v hv h, fun hf => by cases hf⟩
  · simp only [h]
    exact ⟨v, drm_roundtrip_list v hv, fun _ => Iff.rfl, fun _ => rfl⟩


/-! ### date-time text (parameter) and error lists -/

/-- what C07 needs to know about the ISO-8601 date-time text codec
(`to_iso_datetime` / `from_isodatetime`).  `roundtrip` is C19's theorem; the
other three say that a rendered date-time starts with a digit, contains neither
`,` nor `=`, and is not a decimal integer (it contains `-`/`:`/`T`). -/
structure DtCodecLaws {DT : Type} (C : DTCodec DT) : Prop where
  roundtrip : DtTextRoundTrip C
  digitFirst : ∀ d, ∃ b r, C.render d = b :: r ∧ isDigit b = true
  clean : ∀ d, (44 : UInt8) ∉ C.render d ∧ (61 : UInt8) ∉ C.render d
  notInt : ∀ d, pyInt (C.render d) = none

section
variable {DT : Type} (C : DTCodec DT)

theorem isDigit_facts : ∀ b : UInt8, isDigit b = true → b ≠ 110 ∧ lowerB b ≠ 110 ∧ lowerB b = b :=
  forall_uint8 (by decide +kernel)

theorem render_ne_nil (hC : DtCodecLaws C) (d : DT) : C.render d ≠ [] := by
  obtain ⟨b, r, h, _⟩ := hC.digitFirst d; rw [h]; simp

theorem parseDT_render (hC : DtCodecLaws C) (d : DT) : parseDT C (C.render d) = .ok (some d) := by
  unfold parseDT
  simp [render_ne_nil C hC d, hC.roundtrip d]

theorem isNoneCS_render (hC : DtCodecLaws C) (d : DT) : isNoneCS (C.render d) = false := by
  obtain ⟨b, r, h, hb⟩ := hC.digitFirst d
  rw [h]; exact isNoneCS_false_of_head b r (isDigit_facts b hb).1

theorem specialAst_not_render (hC : DtCodecLaws C) (d : DT) : specialAst.contains (C.render d) = false := by
  obtain ⟨b, r, h, hb⟩ := hC.digitFirst d
  rw [h]
  have hs : ∀ s ∈ specialAst, s.head? ≠ some b := by
    intro s hs
    have : ∀ s ∈ specialAst, ∀ c, s.head? = some c → isDigit c = false := by decide +kernel
    intro e; have := this s hs b e; rw [hb] at this; exact absurd this (by decide)
  cases hc : specialAst.contains (b :: r) with
  | false => rfl
  | true =>
    have : (b :: r) ∈ specialAst := by simpa using hc
    exact absurd (by simp) (hs _ this)

def errItemText (e : Int × Pos DT) : Bytes := intDec e.1 ++ 61 :: posText C e.2

theorem errText_eq (l : List (Int × Pos DT)) : errText C l = joinWith 44 (l.map (errItemText C)) := rfl

theorem posText_clean (hC : DtCodecLaws C) (p : Pos DT) :
    (44 : UInt8) ∉ posText C p ∧ (61 : UInt8) ∉ posText C p := by
  cases p with
  | num z => exact ⟨intDec_noComma z, intDec_noEq z⟩
  | «at» d => exact hC.clean d
  | nothing => simp [posText]

theorem pyInt_nil : pyInt [] = none := by rfl

theorem errItem_text (hC : DtCodecLaws C) (e : Int × Pos DT) : errItem C (errItemText C e) = .ok e := by
  obtain ⟨c, p⟩ := e
  unfold errItem errItemText
  rw [splitOn_append_sep 61 _ _ (intDec_noEq c), splitOn_noSep 61 _ (posText_clean C hC p).2]
  cases p with
  | num z => simp [posText, pyInt_intDec]
  | «at» d => simp [posText, hC.notInt d, parseDT_render C hC d, pyInt_intDec]
  | nothing => simp [posText, pyInt_nil, parseDT, pyInt_intDec]

theorem errItemText_facts (hC : DtCodecLaws C) (e : Int × Pos DT) :
    (44 : UInt8) ∉ errItemText C e ∧ ∃ b r, errItemText C e = b :: r ∧ lowerB b ≠ 110 := by
  constructor
  · unfold errItemText
    simp only [List.mem_append, List.mem_cons, not_or]
    exact ⟨intDec_noComma e.1, by decide, (posText_clean C hC e.2).1⟩
  · obtain ⟨b, r, h, _, h2⟩ := intDec_head e.1
    exact ⟨b, r ++ 61 :: posText C e.2, by unfold errItemText; rw [h]; rfl, h2⟩

theorem mapM_errItem (hC : DtCodecLaws C) (l : List (Int × Pos DT)) :
    (l.map (errItemText C)).mapM (errItem C) = .ok l := by
  induction l with
  | nil => rfl
  | cons e r ih =>
    simp only [List.map_cons, List.mapM_cons, errItem_text C hC e, ih]
    rfl

/-- `_errors_from_string(_errors_to_string(l)) = l` -/
theorem errorList_roundtrip (hC : DtCodecLaws C) (l : List (Int × Pos DT)) :
    fromString C .errorList (errText C l) = .ok (.errs l) := by
  unfold fromString
  cases l with
  | nil => rfl
  | cons e r =>
    rw [errText_eq]
    obtain ⟨_, b, t, ht, hb⟩ := errItemText_facts C hC e
    obtain ⟨t', hhead⟩ : ∃ t', joinWith 44 ((e :: r).map (errItemText C)) = b :: t' := by
      simp only [List.map_cons, ht]; exact joinWith_head 44 b t _
    have hn : isNoneCI (joinWith 44 ((e :: r).map (errItemText C))) = false := by
      rw [hhead]; exact isNoneCI_false_of_head b t' hb
    simp only [hn, Bool.false_eq_true, if_false]
    rw [splitOn_joinWith 44 _ (by simp) (by
      intro x hx
      obtain ⟨y, _, rfl⟩ := List.mem_map.mp hx
      exact (errItemText_facts C hC y).1)]
    rw [mapM_errItem C hC]
    rfl

end


/-! ### query strings -/

theorem safeQuery_ok : SafeOk safeQuery := ⟨by decide, by decide⟩
theorem safeNone_ok : SafeOk safeNone := ⟨by decide, by decide⟩

theorem quoteByte_safeQuery_clean : ∀ b : UInt8, ∀ c ∈ quoteByte safeQuery b, c ≠ 38 ∧ c ≠ 61 ∧ c ≠ 35 ∧ c ≠ 63 :=
  forall_uint8 (by decide +kernel)

theorem quotePlus_safeQuery_clean (s : Bytes) : ∀ c ∈ quotePlus safeQuery s, c ≠ 38 ∧ c ≠ 61 ∧ c ≠ 35 ∧ c ≠ 63 := by
  induction s with
  | nil => simp [quotePlus]
  | cons b r ih =>
    intro c hc
    simp only [quotePlus, List.mem_append] at hc
    rcases hc with hc | hc
    · exact quoteByte_safeQuery_clean b c hc
    · exact ih c hc

/-- a parameter name that needs no escaping: non-empty, only unreserved characters -/
def KeyOk (k : String) : Prop := ascii k ≠ [] ∧ ∀ b ∈ ascii k, isUnreserved b = true

theorem unquotePlus_id (s : Bytes) (h : ∀ b ∈ s, b ≠ 43 ∧ b ≠ 37) : unquotePlus s = s := by
  induction s with
  | nil => exact unquotePlus_nil
  | cons b r ih =>
    rw [unquotePlus_plain b r (h b (by simp)).1 (h b (by simp)).2, ih (fun x hx => h x (by simp [hx]))]

theorem key_clean (k : String) (hk : KeyOk k) :
    ∀ b ∈ ascii k, b ≠ 43 ∧ b ≠ 37 ∧ b ≠ 38 ∧ b ≠ 61 ∧ b ≠ 35 ∧ b ≠ 63 :=
  fun b hb => unreserved_not_special b (hk.2 b hb)

theorem renderPair_facts (p : String × Option Bytes) (hk : KeyOk p.1) :
    renderPair p ≠ [] ∧ (∀ c ∈ renderPair p, c ≠ 38 ∧ c ≠ 35 ∧ c ≠ 63) := by
  unfold renderPair
  constructor
  · intro h
    have : ascii p.1 = [] := by
      cases hh : ascii p.1 with
      | nil => rfl
      | cons x xs => rw [hh] at h; simp at h
    exact hk.1 this
  · intro c hc
    rcases List.mem_append.mp hc with hc | hc
    · have := key_clean p.1 hk c hc; exact ⟨this.2.2.1, this.2.2.2.2.1, this.2.2.2.2.2⟩
    · rcases List.mem_cons.mp hc with rfl | hc
      · decide
      · have := quotePlus_safeQuery_clean _ c hc; exact ⟨this.1, this.2.2.1, this.2.2.2⟩

theorem parsePair (p : String × Option Bytes) (hk : KeyOk p.1) :
    (let kv := splitFirst 61 (renderPair p); (unquotePlus kv.1, unquotePlus (kv.2.getD []))) =
      (ascii p.1, cgiText p.2) := by
  unfold renderPair
  have h61 : (61 : UInt8) ∉ ascii p.1 := fun h => (key_clean p.1 hk 61 h).2.2.2.1 rfl
  rw [splitFirst_append 61 _ _ h61]
  simp only [Option.getD_some]
  rw [unquotePlus_id (ascii p.1) (fun b hb => ⟨(key_clean p.1 hk b hb).1, (key_clean p.1 hk b hb).2.1⟩),
    unquotePlus_quotePlus safeQuery safeQuery_ok]

/-- parsing the query text that `dict_to_cgi_params` writes for `S` gives back the
names and exactly the texts of `S`, in the same order -/
theorem parseQsl_render (S : List (String × Option Bytes)) (hS : ∀ p ∈ S, KeyOk p.1) :
    parseQsl (joinWith 38 (S.map renderPair)) = S.map (fun p => (ascii p.1, cgiText p.2)) := by
  unfold parseQsl
  by_cases hne : S = []
  · subst hne; simp [joinWith, splitOn]
  · rw [splitOn_joinWith 38 _ (by simpa using hne) (by
      intro x hx
      obtain ⟨p, hp, rfl⟩ := List.mem_map.mp hx
      exact fun h => ((renderPair_facts p (hS p hp)).2 38 h).1 rfl)]
    clear hne
    induction S with
    | nil => rfl
    | cons p r ih =>
      have hp := hS p (by simp)
      simp only [List.map_cons, List.filterMap_cons, (renderPair_facts p hp).1, if_false]
      have := parsePair p hp
      simp only at this
      rw [this, ih (fun x hx => hS x (by simp [hx]))]

theorem firstOnly_id (l : List (Bytes × Bytes)) (h : (l.map Prod.fst).Nodup) : firstOnly l = l := by
  induction l with
  | nil => rfl
  | cons p r ih =>
    have hn := List.nodup_cons.mp h
    simp only [firstOnly]
    rw [ih hn.2]
    congr 1
    apply List.filter_eq_self.mpr
    intro q hq
    have : q.1 ≠ p.1 := fun e => hn.1 (by rw [← e]; exact List.mem_map_of_mem hq)
    simp [this]

/-- `queryOf` of a URL whose path has neither `?` nor `#` and whose query was written by `renderQuery` -/
theorem queryOf_render (path : Bytes) (hp : (35 : UInt8) ∉ path ∧ (63 : UInt8) ∉ path)
    (P : List (String × Option Bytes)) (hP : ∀ p ∈ P, KeyOk p.1) :
    queryOf (path ++ renderQuery P) = joinWith 38 ((P.mergeSort keyLe).map renderPair) := by
  unfold queryOf renderQuery
  have hS : ∀ p ∈ P.mergeSort keyLe, KeyOk p.1 :=
    fun p hp' => hP p ((List.mergeSort_perm P keyLe).mem_iff.mp hp')
  cases hPe : P with
  | nil =>
    simp only [List.isEmpty_nil, if_true, List.append_nil]
    rw [splitFirst_noSep 35 path hp.1, splitFirst_noSep 63 path hp.2]
    simp [joinWith]
  | cons p0 r0 =>
    simp only [List.isEmpty_cons, Bool.false_eq_true, if_false]
    rw [← hPe]
    have h35 : (35 : UInt8) ∉ path ++ 63 :: joinWith 38 ((P.mergeSort keyLe).map renderPair) := by
      simp only [List.mem_append, List.mem_cons, not_or]
      refine ⟨hp.1, by decide, ?_⟩
      apply not_mem_joinWith 35 38 (by decide)
      intro x hx
      obtain ⟨p, hp', rfl⟩ := List.mem_map.mp hx
      exact fun h => ((renderPair_facts p (hS p hp')).2 35 h).2.1 rfl
    rw [splitFirst_noSep 35 _ h35]
    simp only
    rw [splitFirst_append 63 path _ hp.2]
    rfl


/-! ### `convert_options` -/

section
variable {DT : Type} (C : DTCodec DT)

theorem findRow_spec (tbl : List OptionRow) (k : Bytes) (i : Nat) (h : findRow tbl k = some i) :
    ∃ r, tbl[i]? = some r ∧ ascii r.cgi = k := by
  unfold findRow at h
  obtain ⟨hlt, hp, _⟩ := List.findIdx?_eq_some_iff_getElem.mp h
  exact ⟨tbl[i], by simp [hlt], by simpa using hp⟩

/-- distinct parameter names that all belong to registered options and all parse:
the result holds the parsed value for every named option and the default for every other -/
theorem convertOptions_spec (tbl : List OptionRow) (A : List (Bytes × Bytes))
    (hA : (A.map Prod.fst).Nodup) (dflt : Nat → Val DT)
    (hok : ∀ kv ∈ A, ∃ i r v, findRow tbl kv.1 = some i ∧ tbl[i]? = some r ∧
      fromString C r.kind kv.2 = .ok v) :
    ∃ res, convertOptions C tbl dflt A = .ok res ∧
      (∀ i, (∀ kv ∈ A, findRow tbl kv.1 ≠ some i) → res i = dflt i) ∧
      (∀ kv ∈ A, ∀ i r, findRow tbl kv.1 = some i → tbl[i]? = some r →
        fromString C r.kind kv.2 = .ok (res i)) := by
  induction A generalizing dflt with
  | nil => exact ⟨dflt, rfl, fun _ _ => rfl, fun kv h => by simp at h⟩
  | cons kv rest ih =>
    obtain ⟨i, r, v, hf, hr, hv⟩ := hok kv (by simp)
    have hn : kv.1 ∉ rest.map Prod.fst ∧ (rest.map Prod.fst).Nodup := List.nodup_cons.mp hA
    have hstep : convertStep C tbl dflt kv = .ok (setField dflt i v) := by
      unfold convertStep; simp [hf, hr, hv]
    obtain ⟨res, hres, hdef, hval⟩ := ih hn.2 (setField dflt i v)
      (fun x hx => hok x (by simp [hx]))
    refine ⟨res, by simp only [convertOptions, hstep, hres], ?_, ?_⟩
    · intro j hj
      have hji : j ≠ i := fun e => hj kv (by simp) (by rw [e]; exact hf)
      rw [hdef j (fun x hx => hj x (by simp [hx]))]
      simp [setField, hji]
    · intro x hx j rj hfj hrj
      rcases List.mem_cons.mp hx with rfl | hx
      · have hij : j = i := by rw [hf] at hfj; exact (Option.some.inj hfj).symm
        subst hij
        have hrr : rj = r := by rw [hr] at hrj; exact (Option.some.inj hrj).symm
        subst hrr
        -- no later parameter names the same option
        have : res j = setField dflt j v j := by
          apply hdef j
          intro y hy hfy
          obtain ⟨_, _, e1⟩ := findRow_spec tbl x.1 j hf
          obtain ⟨_, _, e2⟩ := findRow_spec tbl y.1 j hfy
          have : x.1 = y.1 := by
            obtain ⟨r1, h1, e1⟩ := findRow_spec tbl x.1 j hf
            obtain ⟨r2, h2, e2⟩ := findRow_spec tbl y.1 j hfy
            rw [h1] at h2; cases h2; rw [← e1, ← e2]
          exact hn.1 (by rw [this]; exact List.mem_map_of_mem hy)
        rw [this]; simp [setField, hv]
      · exact hval x hx j rj hfj hrj

end

/-! ### `generate_cgi_parameters` -/

section
variable {DT : Type} [DecidableEq DT] (C : DTCodec DT)

theorem mem_genFrom (use : Option Nat) (exclude : List String) (rd : Bool) (dflt o : Opts DT)
    (rows : List OptionRow) (i0 : Nat) (p : String × Option Bytes) :
    p ∈ genFrom C use exclude rd dflt o i0 rows ↔
      ∃ j r, rows[j]? = some r ∧ emit C use exclude rd dflt o r (i0 + j) = some p := by
  induction rows generalizing i0 with
  | nil => simp [genFrom]
  | cons r rs ih =>
    simp only [genFrom, List.mem_append]
    constructor
    · rintro (h | h)
      · refine ⟨0, r, by simp, ?_⟩
        cases he : emit C use exclude rd dflt o r i0 with
        | none => rw [he] at h; simp at h
        | some q => rw [he] at h; simp at h; simp [h]
      · obtain ⟨j, r', hj, he⟩ := (ih (i0 + 1)).mp h
        exact ⟨j + 1, r', by simpa using hj, by rw [← he]; congr 1; omega⟩
    · rintro ⟨j, r', hj, he⟩
      cases j with
      | zero =>
        simp at hj; subst hj
        left; simp at he; rw [he]; simp
      | succ j =>
        right
        exact (ih (i0 + 1)).mpr ⟨j, r', by simpa using hj, by rw [← he]; congr 1; omega⟩

theorem mem_genParams (tbl : List OptionRow) (use : Option Nat) (exclude : List String) (rd : Bool)
    (dflt o : Opts DT) (p : String × Option Bytes) :
    p ∈ genParams C tbl use exclude rd dflt o ↔
      ∃ i r, tbl[i]? = some r ∧ emit C use exclude rd dflt o r i = some p := by
  unfold genParams
  rw [mem_genFrom]
  simp

/-- when `_generate_parameters_dict` writes an entry for a row -/
theorem emit_some_iff (use : Option Nat) (exclude : List String) (rd : Bool) (dflt o : Opts DT)
    (r : OptionRow) (i : Nat) (p : String × Option Bytes) :
    emit C use exclude rd dflt o r i = some p ↔
      ∃ v, o i = some v ∧ exclude.contains r.fieldName = false ∧ (rd && dflt i == some v) = false ∧
        useMiss use r.usage = false ∧
        (r.cgi, toText C r.kind v) = p := by
  unfold emit
  cases ho : o i with
  | none => simp
  | some v =>
    simp only [Option.some.injEq, exists_eq_left']
    cases h1 : exclude.contains r.fieldName <;> cases h2 : (rd && dflt i == some v) <;>
      cases h3 : useMiss use r.usage <;> simp

theorem emit_key (use : Option Nat) (exclude : List String) (rd : Bool) (dflt o : Opts DT)
    (r : OptionRow) (i : Nat) (p : String × Option Bytes)
    (h : emit C use exclude rd dflt o r i = some p) : p.1 = r.cgi := by
  obtain ⟨v, _, _, _, _, hp⟩ := (emit_some_iff C use exclude rd dflt o r i p).mp h
  rw [← hp]

/-- keys of the generated dictionary are distinct when the registered names are -/
theorem genFrom_keys_nodup (use : Option Nat) (exclude : List String) (rd : Bool) (dflt o : Opts DT)
    (rows : List OptionRow) (i0 : Nat) (h : (rows.map (·.cgi)).Nodup) :
    ((genFrom C use exclude rd dflt o i0 rows).map Prod.fst).Nodup := by
  induction rows generalizing i0 with
  | nil => simp [genFrom]
  | cons r rs ih =>
    have hn : r.cgi ∉ rs.map (·.cgi) ∧ (rs.map (·.cgi)).Nodup := List.nodup_cons.mp h
    simp only [genFrom, List.map_append]
    apply List.nodup_append.mpr
    refine ⟨?_, ih (i0 + 1) hn.2, ?_⟩
    · cases emit C use exclude rd dflt o r i0 <;> simp
    · intro a ha b hb hab
      subst hab
      cases he : emit C use exclude rd dflt o r i0 with
      | none => rw [he] at ha; simp at ha
      | some q =>
        rw [he] at ha; simp at ha
        have hq := emit_key C use exclude rd dflt o r i0 q he
        obtain ⟨p, hp, hpa⟩ := List.mem_map.mp hb
        obtain ⟨j, r', hj, he'⟩ := (mem_genFrom C use exclude rd dflt o rs (i0 + 1) p).mp hp
        have := emit_key C use exclude rd dflt o r' _ p he'
        have hmem : r' ∈ rs := List.mem_of_getElem? hj
        apply hn.1
        rw [← hq, ← ha, ← hpa, this]
        exact List.mem_map_of_mem hmem

end


/-! ### the codec round trip, kind by kind -/

section
variable {DT : Type} (C : DTCodec DT)

/-- the values an option of kind `k` can hold (the image of its `from_string`, with
floats restricted to non-negative multiples of 0.1) – the domain of the round trip -/
def Canonical : Kind → Val DT → Prop
  | .bool, .bool _ => True
  | .intOrNone, .none => True
  | .intOrNone, .int _ => True
  | .floatOrNone, .none => True
  | .floatOrNone, .tenths _ => True
  | .strOrNone, .none => True
  | .strOrNone, .str s => isNoneCI s = false
  | .strRaw, .str _ => True
  | .listJoin, .list l => ∀ i ∈ l, (44 : UInt8) ∉ i ∧ isNoneCI i = false
  | .drmSelection, .drm v => CanonDrm v
  | .quotedUrl, .none => True
  | .quotedUrl, .str s => isNoneCI s = false
  | .astDateTime, .none => True
  | .astDateTime, .str s => s ∈ specialAst
  | .astDateTime, .dt _ => True
  | .dtOrNone, .none => True
  | .dtOrNone, .dt _ => True
  | .errorList, .errs _ => True
  | .intOrDefault _, .int _ => True
  | .posIntOrDefault _, .int z => 1 ≤ z
  | _, _ => False

/-- "the identical option value": equality, except that a DRM selection is the
set of its (system, locations) entries -/
def ValEquiv : Val DT → Val DT → Prop
  | .drm a, .drm b => ∀ e, e ∈ a ↔ e ∈ b
  | a, b => a = b

theorem ValEquiv.refl (v : Val DT) : ValEquiv v v := by
  cases v <;> simp [ValEquiv]

theorem ValEquiv.of_eq {a b : Val DT} (h : a = b) : ValEquiv a b := h ▸ ValEquiv.refl b

theorem isNoneCS_nil : isNoneCS [] = true := by decide

theorem roundtrip_bool (b : Bool) :
    fromString C .bool (cgiText (toText C .bool (.bool b))) = .ok (.bool b) := by
  cases b <;> rfl

theorem roundtrip_intOrNone_none :
    fromString C .intOrNone (cgiText (toText C .intOrNone .none)) = .ok .none := by rfl

theorem roundtrip_intOrNone (z : Int) :
    fromString C .intOrNone (cgiText (toText C .intOrNone (.int z))) = .ok (.int z) := by
  simp [fromString, toText, cgiText, intOrNone_intDec, Except.map]

theorem roundtrip_floatOrNone_none :
    fromString C .floatOrNone (cgiText (toText C .floatOrNone .none)) = .ok .none := by rfl

theorem roundtrip_floatOrNone (t : Nat) :
    fromString C .floatOrNone (cgiText (toText C .floatOrNone (.tenths t))) = .ok (.tenths t) := by
  obtain ⟨b, r, h, hb⟩ := tenthsDec_head t
  have : isNoneCS (tenthsDec t) = false := by rw [h]; exact isNoneCS_false_of_head b r hb
  simp [fromString, toText, cgiText, this, pyTenths_tenthsDec]

theorem roundtrip_strOrNone_none :
    fromString C .strOrNone (cgiText (toText C .strOrNone .none)) = .ok .none := by rfl

theorem roundtrip_strOrNone (s : Bytes) (h : isNoneCI s = false) :
    fromString C .strOrNone (cgiText (toText C .strOrNone (.str s))) = .ok (.str s) := by
  simp [fromString, toText, cgiText, h]

theorem roundtrip_strRaw (s : Bytes) :
    fromString C .strRaw (cgiText (toText C .strRaw (.str s))) = .ok (.str s) := by rfl

theorem roundtrip_listJoin (l : List Bytes) (h : ∀ i ∈ l, (44 : UInt8) ∉ i ∧ isNoneCI i = false) :
    fromString C .listJoin (cgiText (toText C .listJoin (.list l))) = .ok (.list l) := by
  have := listJoin_roundtrip l h
  simp only [fromString, toText, cgiText, Option.getD_some]
  exact congrArg (fun x => Except.ok (Val.list x)) this

theorem roundtrip_drm (v : List (Bytes × LocSet)) (h : CanonDrm v) :
    ∃ r, fromString C .drmSelection (cgiText (toText C .drmSelection (.drm v))) = .ok (.drm r) ∧
      ∀ e, e ∈ r ↔ e ∈ v := by
  obtain ⟨r, hr, he, _⟩ := drm_roundtrip v h
  exact ⟨r, by simp [fromString, toText, cgiText, hr, Except.map], he⟩

theorem roundtrip_quotedUrl_none :
    fromString C .quotedUrl (cgiText (toText C .quotedUrl .none)) = .ok .none := by rfl

theorem roundtrip_quotedUrl (s : Bytes) (h : isNoneCI s = false) :
    fromString C .quotedUrl (cgiText (toText C .quotedUrl (.str s))) = .ok (.str s) := by
  simp [fromString, toText, cgiText, isNoneCI_quotePlus safeNone s h,
    unquotePlus_quotePlus safeNone safeNone_ok]

theorem roundtrip_ast_none :
    fromString C .astDateTime (cgiText (toText C .astDateTime .none)) = .ok .none := by rfl

theorem roundtrip_ast_special (s : Bytes) (h : s ∈ specialAst) :
    fromString C .astDateTime (cgiText (toText C .astDateTime (.str s))) = .ok (.str s) := by
  simp [fromString, toText, cgiText, h]

theorem roundtrip_ast_dt (hC : DtCodecLaws C) (d : DT) :
    fromString C .astDateTime (cgiText (toText C .astDateTime (.dt d))) = .ok (.dt d) := by
  have hns : C.render d ∉ specialAst := by
    have := specialAst_not_render C hC d; simpa using this
  simp [fromString, toText, cgiText, hns, parseDT_render C hC d, Except.map]

theorem roundtrip_dtOrNone_none :
    fromString C .dtOrNone (cgiText (toText C .dtOrNone .none)) = .ok .none := by rfl

theorem roundtrip_dtOrNone (hC : DtCodecLaws C) (d : DT) :
    fromString C .dtOrNone (cgiText (toText C .dtOrNone (.dt d))) = .ok (.dt d) := by
  simp [fromString, toText, cgiText, isNoneCS_render C hC d, parseDT_render C hC d, Except.map]

theorem roundtrip_errorList (hC : DtCodecLaws C) (l : List (Int × Pos DT)) :
    fromString C .errorList (cgiText (toText C .errorList (.errs l))) = .ok (.errs l) := by
  simp only [toText, cgiText, Option.getD_some]
  exact errorList_roundtrip C hC l

theorem roundtrip_intOrDefault (k z : Int) :
    fromString C (.intOrDefault k) (cgiText (toText C (.intOrDefault k) (.int z))) = .ok (.int z) := by
  simp [fromString, toText, cgiText, intOrNone_intDec, Except.map]

theorem roundtrip_posIntOrDefault (k z : Int) (h : 1 ≤ z) :
    fromString C (.posIntOrDefault k) (cgiText (toText C (.posIntOrDefault k) (.int z))) = .ok (.int z) := by
  have : ¬ z < 1 := by omega
  simp [fromString, toText, cgiText, intOrNone_intDec, this]

/-- every kind, every canonical value: formatting to URL text and parsing it is the identity -/
theorem codec_roundtrip_all (hC : DtCodecLaws C) (k : Kind) (v : Val DT) (h : Canonical k v) :
    ∃ v', fromString C k (cgiText (toText C k v)) = .ok v' ∧ ValEquiv v' v := by
  cases k <;> cases v <;> simp only [Canonical] at h <;> try exact h.elim
  case bool.bool b => exact ⟨_, roundtrip_bool C b, ValEquiv.refl _⟩
  case intOrNone.none => exact ⟨_, roundtrip_intOrNone_none C, ValEquiv.refl _⟩
  case intOrNone.int z => exact ⟨_, roundtrip_intOrNone C z, ValEquiv.refl _⟩
  case floatOrNone.none => exact ⟨_, roundtrip_floatOrNone_none C, ValEquiv.refl _⟩
  case floatOrNone.tenths t => exact ⟨_, roundtrip_floatOrNone C t, ValEquiv.refl _⟩
  case strOrNone.none => exact ⟨_, roundtrip_strOrNone_none C, ValEquiv.refl _⟩
  case strOrNone.str s => exact ⟨_, roundtrip_strOrNone C s h, ValEquiv.refl _⟩
  case strRaw.str s => exact ⟨_, roundtrip_strRaw C s, ValEquiv.refl _⟩
  case listJoin.list l => exact ⟨_, roundtrip_listJoin C l h, ValEquiv.refl _⟩
  case drmSelection.drm l =>
    obtain ⟨r, hr, he⟩ := roundtrip_drm C l h
    exact ⟨_, hr, he⟩
  case quotedUrl.none => exact ⟨_, roundtrip_quotedUrl_none C, ValEquiv.refl _⟩
  case quotedUrl.str s => exact ⟨_, roundtrip_quotedUrl C s h, ValEquiv.refl _⟩
  case astDateTime.none => exact ⟨_, roundtrip_ast_none C, ValEquiv.refl _⟩
  case astDateTime.str s => exact ⟨_, roundtrip_ast_special C s h, ValEquiv.refl _⟩
  case astDateTime.dt d => exact ⟨_, roundtrip_ast_dt C hC d, ValEquiv.refl _⟩
  case dtOrNone.none => exact ⟨_, roundtrip_dtOrNone_none C, ValEquiv.refl _⟩
  case dtOrNone.dt d => exact ⟨_, roundtrip_dtOrNone C hC d, ValEquiv.refl _⟩
  case errorList.errs l => exact ⟨_, roundtrip_errorList C hC l, ValEquiv.refl _⟩
  case intOrDefault.int k z => exact ⟨_, roundtrip_intOrDefault C k z, ValEquiv.refl _⟩
  case posIntOrDefault.int k z => exact ⟨_, roundtrip_posIntOrDefault C k z h, ValEquiv.refl _⟩

end


/-! ### overrides (`params['verr'] = …`) -/

theorem mem_setParam (ps : List (String × Option Bytes)) (k : String) (t : Bytes) (p : String × Option Bytes) :
    p ∈ setParam ps k t ↔ (p ∈ ps ∧ p.1 ≠ k) ∨ p = (k, some t) := by
  unfold setParam
  simp [List.mem_append, List.mem_filter]

theorem setParam_keys_nodup (ps : List (String × Option Bytes)) (k : String) (t : Bytes)
    (h : (ps.map Prod.fst).Nodup) : ((setParam ps k t).map Prod.fst).Nodup := by
  unfold setParam
  rw [List.map_append]
  apply List.nodup_append.mpr
  refine ⟨?_, by simp, ?_⟩
  · exact (List.Nodup.sublist ((List.filter_sublist).map Prod.fst) h)
  · intro a ha b hb hab
    subst hab
    simp at hb; subst hb
    obtain ⟨q, hq, rfl⟩ := List.mem_map.mp ha
    have := (List.mem_filter.mp hq).2
    simp at this

theorem mem_applyOverrides (ps : List (String × Option Bytes)) (ovs : List (String × Bytes))
    (hov : (ovs.map Prod.fst).Nodup) (p : String × Option Bytes) :
    p ∈ applyOverrides ps ovs ↔
      (p ∈ ps ∧ p.1 ∉ ovs.map Prod.fst) ∨ (∃ t, (p.1, t) ∈ ovs ∧ p.2 = some t) := by
  induction ovs generalizing ps with
  | nil => simp [applyOverrides]
  | cons kv r ih =>
    obtain ⟨k, t⟩ := kv
    have hn : k ∉ r.map Prod.fst ∧ (r.map Prod.fst).Nodup := List.nodup_cons.mp hov
    simp only [applyOverrides]
    rw [ih _ hn.2, mem_setParam]
    constructor
    · rintro (⟨(⟨h1, h2⟩ | h1), h3⟩ | ⟨t', h1, h2⟩)
      · left; exact ⟨h1, by simp [h2, h3]⟩
      · right; subst h1; exact ⟨t, by simp, rfl⟩
      · right; exact ⟨t', by simp [h1], h2⟩
    · rintro (⟨h1, h2⟩ | ⟨t', h1, h2⟩)
      · simp at h2
        left; exact ⟨Or.inl ⟨h1, h2.1⟩, by simpa using h2.2⟩
      · rcases List.mem_cons.mp h1 with h1 | h1
        · simp at h1
          left
          refine ⟨Or.inr ?_, ?_⟩
          · obtain ⟨pk, pv⟩ := p; simp at h1 h2 ⊢; exact ⟨h1.1, by rw [h2, h1.2]⟩
          · rw [h1.1]; exact hn.1
        · right; exact ⟨t', h1, h2⟩

theorem applyOverrides_keys_nodup (ps : List (String × Option Bytes)) (ovs : List (String × Bytes))
    (h : (ps.map Prod.fst).Nodup) : ((applyOverrides ps ovs).map Prod.fst).Nodup := by
  induction ovs generalizing ps with
  | nil => exact h
  | cons kv r ih => exact ih _ (setParam_keys_nodup ps kv.1 kv.2 h)

/-! ### the registry table as a dictionary -/

/-- registered names need no escaping and are pairwise different -/
def TableOk (tbl : List OptionRow) : Prop :=
  (∀ r ∈ tbl, KeyOk r.cgi) ∧ (tbl.map (fun r => ascii r.cgi)).Nodup

theorem findRow_of_get (tbl : List OptionRow) (ht : TableOk tbl) (i : Nat) (r : OptionRow)
    (h : tbl[i]? = some r) : findRow tbl (ascii r.cgi) = some i := by
  unfold findRow
  have hlt : i < tbl.length := by
    cases hh : tbl[i]? with
    | none => rw [hh] at h; simp at h
    | some x => exact (List.getElem?_eq_some_iff.mp hh).1
  have hget : tbl[i] = r := by
    have := List.getElem?_eq_some_iff.mp h; exact this.2
  apply List.findIdx?_eq_some_iff_getElem.mpr
  refine ⟨hlt, by simp [hget], ?_⟩
  intro j hji
  have hjl : j < tbl.length := by omega
  intro hc
  have hc' : ascii tbl[j].cgi = ascii r.cgi := by simpa using hc
  have hnd : List.Pairwise (· ≠ ·) (tbl.map (fun r => ascii r.cgi)) := ht.2
  have := List.pairwise_iff_getElem.mp hnd j i (by simpa using hjl) (by simpa using hlt) hji
  simp [hget] at this
  exact this hc'

theorem table_cgi_nodup (tbl : List OptionRow) (ht : TableOk tbl) : (tbl.map (·.cgi)).Nodup := by
  have : (tbl.map (fun r => ascii r.cgi)) = (tbl.map (·.cgi)).map ascii := by simp
  have h2 : List.Pairwise (· ≠ ·) ((tbl.map (·.cgi)).map ascii) := by rw [← this]; exact ht.2
  exact List.Pairwise.of_map ascii (fun a b hab e => hab (by rw [e])) h2

theorem ascii_inj_on_table (tbl : List OptionRow) (ht : TableOk tbl) (r1 r2 : OptionRow)
    (h1 : r1 ∈ tbl) (h2 : r2 ∈ tbl) (h : ascii r1.cgi = ascii r2.cgi) : r1.cgi = r2.cgi := by
  obtain ⟨i, hi, e1⟩ := List.getElem_of_mem h1
  obtain ⟨j, hj, e2⟩ := List.getElem_of_mem h2
  have f1 := findRow_of_get tbl ht i r1 (by simp [hi, e1])
  have f2 := findRow_of_get tbl ht j r2 (by simp [hj, e2])
  rw [h, f2] at f1
  have : j = i := Option.some.inj f1
  subst this
  rw [← e1, ← e2]


/-! ### composition: parameters → URL → media handler -/

section
variable {DT : Type} (C : DTCodec DT)

/-- a dictionary of parameters whose names are registered options and whose texts
parse: the media handler, given the URL `path?query` that `dict_to_cgi_params`
writes, ends with exactly the parsed value for every named option and with the
default for every other option -/
theorem media_parse_of_params (tbl : List OptionRow) (ht : TableOk tbl) (dflt : Nat → Val DT)
    (path : Bytes) (hp : (35 : UInt8) ∉ path ∧ (63 : UInt8) ∉ path)
    (P : List (String × Option Bytes)) (hnd : (P.map Prod.fst).Nodup)
    (hP : ∀ p ∈ P, ∃ i : Nat, ∃ r : OptionRow, ∃ v, tbl[i]? = some r ∧ r.cgi = p.1 ∧
      fromString C r.kind (cgiText p.2) = .ok v) :
    ∃ res, mediaOptions C tbl dflt (path ++ renderQuery P) = .ok res ∧
      (∀ i : Nat, ∀ r : OptionRow, tbl[i]? = some r → (∀ t, (r.cgi, t) ∉ P) → res i = dflt i) ∧
      (∀ i : Nat, ∀ r : OptionRow, ∀ t, tbl[i]? = some r → (r.cgi, t) ∈ P →
        fromString C r.kind (cgiText t) = .ok (res i)) := by
  have hrow : ∀ p ∈ P, ∃ r ∈ tbl, r.cgi = p.1 := by
    intro p hp'
    obtain ⟨i, r, _, hr, hc, _⟩ := hP p hp'
    exact ⟨r, List.mem_of_getElem? hr, hc⟩
  have hkey : ∀ p ∈ P, KeyOk p.1 := by
    intro p hp'
    obtain ⟨r, hr, hc⟩ := hrow p hp'
    rw [← hc]; exact ht.1 r hr
  have hperm : (P.mergeSort keyLe).Perm P := List.mergeSort_perm P keyLe
  have hSmem : ∀ p, p ∈ P.mergeSort keyLe ↔ p ∈ P := fun p => hperm.mem_iff
  have hSkey : ∀ p ∈ P.mergeSort keyLe, KeyOk p.1 := fun p h => hkey p ((hSmem p).mp h)
  have hSnd : ((P.mergeSort keyLe).map Prod.fst).Nodup := (hperm.map Prod.fst).nodup_iff.mpr hnd
  -- the arguments the handler sees: names stay distinct as bytes
  have hAnd : (((P.mergeSort keyLe).map (fun p => (ascii p.1, cgiText p.2))).map Prod.fst).Nodup := by
    have hpw : List.Pairwise (fun a b : String × Option Bytes => ascii a.1 ≠ ascii b.1) (P.mergeSort keyLe) := by
      have h1 : List.Pairwise (fun a b : String × Option Bytes => a.1 ≠ b.1) (P.mergeSort keyLe) :=
        List.Pairwise.of_map Prod.fst (fun _ _ h => h) hSnd
      refine List.Pairwise.imp_of_mem ?_ h1
      intro a b ha hb hab e
      obtain ⟨ra, hra, hca⟩ := hrow a ((hSmem a).mp ha)
      obtain ⟨rb, hrb, hcb⟩ := hrow b ((hSmem b).mp hb)
      apply hab
      rw [← hca, ← hcb]
      exact ascii_inj_on_table tbl ht ra rb hra hrb (by rw [hca, hcb]; exact e)
    rw [List.map_map]
    exact List.Pairwise.map _ (fun _ _ h => h) hpw
  have hA : firstOnly (parseQsl (queryOf (path ++ renderQuery P))) =
      (P.mergeSort keyLe).map (fun p => (ascii p.1, cgiText p.2)) := by
    rw [queryOf_render path hp P hkey, parseQsl_render _ hSkey]
    exact firstOnly_id _ hAnd
  obtain ⟨res, hres, hdef, hval⟩ := convertOptions_spec C tbl _ hAnd dflt (by
    intro kv hkv
    obtain ⟨p, hp', rfl⟩ := List.mem_map.mp hkv
    obtain ⟨i, r, v, hr, hc, hv⟩ := hP p ((hSmem p).mp hp')
    exact ⟨i, r, v, by rw [← hc]; exact findRow_of_get tbl ht i r hr, hr, hv⟩)
  refine ⟨res, by unfold mediaOptions; rw [hA]; exact hres, ?_, ?_⟩
  · intro i r hr hno
    apply hdef i
    intro kv hkv hf
    obtain ⟨p, hp', rfl⟩ := List.mem_map.mp hkv
    have hpP := (hSmem p).mp hp'
    obtain ⟨r', hr', he⟩ := findRow_spec tbl _ i hf
    rw [hr] at hr'; cases hr'
    obtain ⟨rp, hrp, hcp⟩ := hrow p hpP
    have : r.cgi = rp.cgi :=
      ascii_inj_on_table tbl ht r rp (List.mem_of_getElem? hr) hrp (by rw [hcp]; exact he)
    apply hno p.2
    rw [this, hcp]; exact hpP
  · intro i r t hr hmem
    have hkv : (ascii r.cgi, cgiText t) ∈ (P.mergeSort keyLe).map (fun p => (ascii p.1, cgiText p.2)) :=
      List.mem_map.mpr ⟨(r.cgi, t), (hSmem _).mpr hmem, rfl⟩
    exact hval _ hkv i r (findRow_of_get tbl ht i r hr) hr

end


section
variable {DT : Type} (C : DTCodec DT)

theorem errItem_num (c p : Int) : errItem C (intDec c ++ 61 :: intDec p) = .ok (c, .num p) := by
  unfold errItem
  rw [splitOn_append_sep 61 _ _ (intDec_noEq c), splitOn_noSep 61 _ (intDec_noEq p)]
  simp [pyInt_intDec]

theorem ValEquiv_iff_eq (a b : Val DT) (h : ∀ l, b ≠ .drm l) : ValEquiv a b ↔ a = b := by
  cases a <;> cases b <;> simp [ValEquiv] <;> exact absurd rfl (h _)

end


theorem row_index_unique (tbl : List OptionRow) (ht : TableOk tbl) (i j : Nat) (r s : OptionRow)
    (hi : tbl[i]? = some r) (hj : tbl[j]? = some s) (h : r.cgi = s.cgi) : i = j ∧ r = s := by
  have f1 := findRow_of_get tbl ht i r hi
  have f2 := findRow_of_get tbl ht j s hj
  rw [h, f2] at f1
  have : j = i := Option.some.inj f1
  subst this
  rw [hi] at hj
  exact ⟨rfl, Option.some.inj hj⟩


/-! ### the handlers' option pipeline -/

section
variable {DT : Type} (C : DTCodec DT)

theorem fieldIdx_spec (tbl : List OptionRow) (name : String) (i : Nat) (h : fieldIdx tbl name = some i) :
    ∃ r, tbl[i]? = some r ∧ r.fieldName = name := by
  unfold fieldIdx at h
  obtain ⟨hlt, hp, _⟩ := List.findIdx?_eq_some_iff_getElem.mp h
  exact ⟨tbl[i], by simp [hlt], by simpa using hp⟩

theorem setFieldByName_other (tbl : List OptionRow) (o : Nat → Val DT) (name : String) (v : Val DT)
    (i : Nat) (r : OptionRow) (hr : tbl[i]? = some r) (hn : r.fieldName ≠ name) :
    setFieldByName tbl o name v i = o i := by
  unfold setFieldByName
  cases h : fieldIdx tbl name with
  | none => rfl
  | some j =>
    obtain ⟨r', hr', hn'⟩ := fieldIdx_spec tbl name j h
    have : i ≠ j := by
      intro e; subst e; rw [hr] at hr'; cases hr'; exact hn hn'
    simp [setField, this]

theorem setFieldByName_cases (tbl : List OptionRow) (o : Nat → Val DT) (name : String) (v : Val DT) (i : Nat) :
    setFieldByName tbl o name v i = o i ∨
      (setFieldByName tbl o name v i = v ∧ ∃ r, tbl[i]? = some r ∧ r.fieldName = name) := by
  unfold setFieldByName
  cases h : fieldIdx tbl name with
  | none => exact Or.inl rfl
  | some j =>
    by_cases e : i = j
    · subst e; right; exact ⟨by simp [setField], fieldIdx_spec tbl name i h⟩
    · left; simp [setField, e]

theorem removeUnsupported_dropped (K : FilterConsts) (tbl : List OptionRow) (features : List String)
    (dflt o : Nat → Val DT) (i : Nat) (r : OptionRow) (hr : tbl[i]? = some r)
    (hd : dropsOption K features r = true) : removeUnsupported K tbl features dflt o i = dflt i := by
  unfold removeUnsupported; simp [hr, hd]

theorem removeUnsupported_kept (K : FilterConsts) (tbl : List OptionRow) (features : List String)
    (dflt o : Nat → Val DT) (i : Nat) (r : OptionRow) (hr : tbl[i]? = some r)
    (hd : dropsOption K features r = false) : removeUnsupported K tbl features dflt o i = o i := by
  unfold removeUnsupported; simp [hr, hd]

theorem removeUnsupported_cases (K : FilterConsts) (tbl : List OptionRow) (features : List String)
    (dflt o : Nat → Val DT) (i : Nat) :
    removeUnsupported K tbl features dflt o i = o i ∨ removeUnsupported K tbl features dflt o i = dflt i := by
  unfold removeUnsupported
  cases tbl[i]? with
  | none => exact Or.inl rfl
  | some r => by_cases h : dropsOption K features r = true <;> simp [h]

theorem removeUnused_cases (K : FilterConsts) (tbl : List OptionRow) (mode : Bytes) (o : Nat → Val DT) (i : Nat) :
    removeUnused K tbl mode o i = none ∨ removeUnused K tbl mode o i = some (o i) := by
  unfold removeUnused
  cases tbl[i]? with
  | none => exact Or.inr rfl
  | some r =>
    simp only
    split
    · exact Or.inl rfl
    · exact Or.inr rfl

/-- where a value the parser leaves in a field comes from: the defaults, or one of the arguments -/
theorem convertOptions_origin (tbl : List OptionRow) (A : List (Bytes × Bytes)) (dflt res : Nat → Val DT)
    (h : convertOptions C tbl dflt A = .ok res) (i : Nat) :
    res i = dflt i ∨ ∃ kv ∈ A, ∃ r, findRow tbl kv.1 = some i ∧ tbl[i]? = some r ∧
      fromString C r.kind kv.2 = .ok (res i) := by
  induction A generalizing dflt with
  | nil => simp [convertOptions] at h; subst h; exact Or.inl rfl
  | cons kv rest ih =>
    simp only [convertOptions] at h
    cases hs : convertStep C tbl dflt kv with
    | error e => rw [hs] at h; simp at h
    | ok acc =>
      rw [hs] at h
      rcases ih acc h with h1 | ⟨x, hx, r, hf, hr, hv⟩
      · -- the value is what the step left
        unfold convertStep at hs
        cases hf : findRow tbl kv.1 with
        | none => rw [hf] at hs; simp at hs; subst hs; exact Or.inl h1
        | some j =>
          rw [hf] at hs
          cases hr : tbl[j]? with
          | none => simp [hr] at hs; subst hs; exact Or.inl h1
          | some r =>
            simp only [hr] at hs
            cases hv : fromString C r.kind kv.2 with
            | error e =>
              rw [hv] at hs
              cases e with
              | keyError => simp at hs; subst hs; exact Or.inl h1
              | valueError => simp at hs
            | ok v =>
              rw [hv] at hs; simp at hs; subst hs
              by_cases e : i = j
              · subst e
                right
                exact ⟨kv, by simp, r, hf, hr, by rw [h1]; simp [setField, hv]⟩
              · left; rw [h1]; simp [setField, e]
      · right; exact ⟨x, by simp [hx], r, hf, hr, hv⟩

end


section
variable {DT : Type} (C : DTCodec DT)

theorem astStep_ok (tbl : List OptionRow) (o o1 : Nat → Val DT) (h : astStep C tbl o = .ok o1) (j : Nat) :
    o1 j = o j ∨
      (fieldIdx tbl "availabilityStartTime" = some j ∧
        ((o j = .none ∧ o1 j = globalDefault C tbl j) ∨
          ∃ d d', o j = .dt d ∧ C.check d = some d' ∧ o1 j = .dt d')) := by
  unfold astStep at h
  cases hi : fieldIdx tbl "availabilityStartTime" with
  | none => rw [hi] at h; simp at h; subst h; exact Or.inl rfl
  | some i =>
    rw [hi] at h
    simp only at h
    by_cases e : j = i
    · subst e
      cases hv : o j with
      | none => rw [hv] at h; simp at h; subst h; exact Or.inr ⟨rfl, Or.inl ⟨rfl, by simp [setField]⟩⟩
      | dt d =>
        rw [hv] at h
        simp only at h
        cases hc : C.check d with
        | none => rw [hc] at h; simp at h
        | some d' =>
          rw [hc] at h; simp at h; subst h
          exact Or.inr ⟨rfl, Or.inr ⟨d, d', rfl, hc, by simp [setField]⟩⟩
      | _ => rw [hv] at h; simp at h; subst h; exact Or.inl hv
    · left
      cases hv : o i with
      | none => rw [hv] at h; simp at h; subst h; simp [setField, e]
      | dt d =>
        rw [hv] at h
        simp only at h
        cases hc : C.check d with
        | none => rw [hc] at h; simp at h
        | some d' => rw [hc] at h; simp at h; subst h; simp [setField, e]
      | _ => rw [hv] at h; simp at h; subst h; rfl

/-- what `check_option_values` leaves behind when it accepts: every field unchanged, except that
availabilityStartTime may have become the global default (was `None`) or aware (was a date-time);
and the selected DRM systems are known ones -/
theorem checkOptionValues_ok (K : FilterConsts) (tbl : List OptionRow) (o o1 : Nat → Val DT)
    (h : checkOptionValues C K tbl o = .ok o1) :
    astStep C tbl o = .ok o1 ∧ drmNamesOk tbl o = true ∧ utcMethodOk tbl o = true ∧ restOk C K tbl o = true := by
  unfold checkOptionValues at h
  by_cases hg : (drmNamesOk tbl o && utcMethodOk tbl o) = true
  · rw [if_pos hg] at h
    cases ha : astStep C tbl o with
    | error e => rw [ha] at h; simp at h
    | ok o' =>
      rw [ha] at h
      simp only at h
      by_cases hr : restOk C K tbl o = true
      · rw [if_pos hr] at h
        have := (Bool.and_eq_true _ _).mp hg
        exact ⟨by simpa using h, this.1, this.2, hr⟩
      · rw [if_neg hr] at h; simp at h
  · rw [if_neg hg] at h; simp at h

theorem drmNamesOk_spec (tbl : List OptionRow) (o : Nat → Val DT) (h : drmNamesOk tbl o = true)
    (l : List (Bytes × LocSet)) (hl : getField tbl o "drmSelection" = .drm l) : ∀ e ∈ l, e.1 ∈ drmNames := by
  unfold drmNamesOk at h
  rw [hl] at h
  intro e he
  have := List.all_eq_true.mp h e he
  simpa using this

end


/-! ### every value the parser produces is in the round-trip domain -/

theorem splitOn_no_sep (sep : UInt8) (s : Bytes) : ∀ p ∈ splitOn sep s, sep ∉ p := by
  induction s with
  | nil => intro p hp; simp [splitOn] at hp; subst hp; simp
  | cons b r ih =>
    by_cases hb : b = sep
    · subst hb
      rw [splitOn_cons_sep]
      intro p hp
      rcases List.mem_cons.mp hp with rfl | hp
      · simp
      · exact ih p hp
    · cases hs : splitOn sep r with
      | nil => exact absurd hs (splitOn_ne_nil sep r)
      | cons q qs =>
        rw [splitOn_cons_ne sep b r q qs hb hs]
        intro p hp
        rcases List.mem_cons.mp hp with rfl | hp
        · intro hm
          rcases List.mem_cons.mp hm with e | hm
          · exact hb e.symm
          · exact ih q (by rw [hs]; simp) hm
        · exact ih p (by rw [hs]; simp [hp])

theorem splitOn_two_of_mem (sep : UInt8) (s : Bytes) (h : sep ∈ s) :
    ∃ a b rest, splitOn sep s = a :: b :: rest := by
  induction s with
  | nil => simp at h
  | cons x r ih =>
    by_cases hb : x = sep
    · subst hb
      rw [splitOn_cons_sep]
      cases hs : splitOn x r with
      | nil => exact absurd hs (splitOn_ne_nil x r)
      | cons q qs => exact ⟨[], q, qs, rfl⟩
    · have hr : sep ∈ r := by
        rcases List.mem_cons.mp h with e | hr
        · exact absurd e.symm hb
        · exact hr
      obtain ⟨a, b, rest, hs⟩ := ih hr
      exact ⟨x :: a, b, rest, splitOn_cons_ne sep x r a (b :: rest) hb hs⟩

theorem exceptMap_ok {ε α β : Type} (f : α → β) (x : Except ε α) (y : β) (h : x.map f = .ok y) :
    ∃ a, x = .ok a ∧ f a = y := by
  cases x with
  | error e => simp [Except.map] at h
  | ok a => simp [Except.map] at h; exact ⟨a, rfl, h⟩

theorem locNames_nonempty : ∀ n l, locNames.lookup n = some l → ∀ s, LocSet.union l s ≠ LocSet.empty := by
  intro n l h s
  have : l = ⟨true, false, false⟩ ∨ l = ⟨false, true, false⟩ ∨ l = ⟨false, false, true⟩ := by
    unfold locNames at h
    simp only [List.lookup] at h
    split at h
    · simp at h; exact Or.inl h.symm
    · split at h
      · simp at h; exact Or.inr (Or.inl h.symm)
      · split at h
        · simp at h; exact Or.inr (Or.inr h.symm)
        · simp at h
  obtain ⟨c, m, p⟩ := s
  rcases this with rfl | rfl | rfl <;> simp [LocSet.union, LocSet.empty]

theorem locSetOf_nonempty (e : Err) (n : Bytes) (r : List Bytes) (s : LocSet)
    (h : locSetOf e (n :: r) = .ok s) : s ≠ LocSet.empty := by
  unfold locSetOf at h
  cases hl : locNames.lookup n with
  | none => rw [hl] at h; simp at h
  | some l =>
    rw [hl] at h
    simp only at h
    obtain ⟨a, _, ha⟩ := exceptMap_ok _ _ _ h
    rw [← ha]
    exact locNames_nonempty n l hl a

theorem mapM_ok_mem {α β : Type} (f : α → Except Err β) (l : List α) (r : List β)
    (h : l.mapM f = .ok r) : ∀ y ∈ r, ∃ x ∈ l, f x = .ok y := by
  induction l generalizing r with
  | nil => simp [List.mapM_nil] at h; cases h; simp
  | cons a t ih =>
    rw [List.mapM_cons] at h
    cases ha : f a with
    | error e => rw [ha] at h; cases h
    | ok b =>
      rw [ha] at h
      cases ht : t.mapM f with
      | error e => rw [ht] at h; cases h
      | ok bs =>
        rw [ht] at h
        have : r = b :: bs := by cases h; rfl
        subst this
        intro y hy
        rcases List.mem_cons.mp hy with rfl | hy
        · exact ⟨a, by simp, ha⟩
        · obtain ⟨x, hx, hfx⟩ := ih bs ht y hy
          exact ⟨x, by simp [hx], hfx⟩

theorem all_ne_empty : LocSet.all ≠ LocSet.empty := by decide

theorem drmItem_locs (item : Bytes) (e : Bytes × LocSet) (h : drmItem item = .ok e) : e.2 ≠ LocSet.empty := by
  unfold drmItem at h
  by_cases hc : item.contains 45 = true
  · rw [if_pos hc] at h
    obtain ⟨a, b, rest, hs⟩ := splitOn_two_of_mem 45 item ((contains_iff _ _).mp hc)
    rw [hs] at h
    simp only at h
    obtain ⟨s, hs', he⟩ := exceptMap_ok _ _ _ h
    rw [← he]
    exact locSetOf_nonempty _ b rest s hs'
  · rw [if_neg hc] at h
    cases h
    exact all_ne_empty

/-- every entry of a parsed DRM selection has a non-empty set of locations -/
theorem drmFromString_locs (s : Bytes) (l : List (Bytes × LocSet)) (h : drmFromString s = .ok l) :
    ∀ e ∈ l, e.2 ≠ LocSet.empty := by
  unfold drmFromString at h
  simp only at h
  split at h
  · cases h; simp
  · split at h
    · split at h
      · rename_i hc
        obtain ⟨a, b, rest, hs⟩ := splitOn_two_of_mem 45 (lower s) ((contains_iff _ _).mp hc)
        rw [hs] at h
        simp only [List.drop_succ_cons, List.drop_zero] at h
        obtain ⟨ls, hls, he⟩ := exceptMap_ok _ _ _ h
        rw [← he]
        intro e hmem
        obtain ⟨n, _, rfl⟩ := List.mem_map.mp hmem
        exact locSetOf_nonempty _ b rest ls hls
      · cases h
        intro e hmem
        obtain ⟨n, _, rfl⟩ := List.mem_map.mp hmem
        exact all_ne_empty
    · intro e he
      obtain ⟨x, _, hx⟩ := mapM_ok_mem drmItem _ l h e he
      exact drmItem_locs x e hx


section
variable {DT : Type} (C : DTCodec DT)

/-- what `from_string` returns is a canonical value of its kind – with three explicit corners:
an escaped licence URL that un-escapes to a spelling of `none`, a positive-integer option whose
own default is not positive, and a DRM selection naming an unknown system (which
`check_option_values` refuses) -/
theorem fromString_canonical (k : Kind) (s : Bytes) (v : Val DT) (h : fromString C k s = .ok v)
    (hurl : k = .quotedUrl → isNoneCI s = false → isNoneCI (unquotePlus s) = false)
    (hpos : ∀ d, k = .posIntOrDefault d → 1 ≤ d)
    (hdrm : ∀ l, v = .drm l → ∀ e ∈ l, e.1 ∈ drmNames) : Canonical k v := by
  cases k with
  | bool => simp [fromString] at h; subst h; trivial
  | intOrNone =>
    simp only [fromString] at h
    obtain ⟨a, _, ha⟩ := exceptMap_ok _ _ _ h
    subst ha; cases a <;> trivial
  | floatOrNone =>
    simp only [fromString] at h
    split at h
    · cases h; trivial
    · split at h
      · cases h; trivial
      · cases h
  | strOrNone =>
    simp only [fromString] at h
    by_cases hn : isNoneCI s = true
    · simp [hn] at h; subst h; trivial
    · simp [hn] at h; subst h; simpa [Canonical] using hn
  | strRaw => simp [fromString] at h; subst h; trivial
  | listJoin =>
    simp only [fromString] at h
    cases h
    by_cases hn : isNoneCI s = true
    · simp [hn, Canonical]
    · simp only [hn, Bool.false_eq_true, if_false, Canonical]
      intro i hi
      have := List.mem_filter.mp hi
      exact ⟨splitOn_no_sep 44 s i this.1, by simpa using this.2⟩
  | drmSelection =>
    simp only [fromString] at h
    obtain ⟨l, hl, rfl⟩ := exceptMap_ok _ _ _ h
    intro e he
    exact ⟨hdrm l rfl e he, drmFromString_locs s l hl e he⟩
  | quotedUrl =>
    simp only [fromString] at h
    by_cases hn : isNoneCI s = true
    · simp [hn] at h; subst h; trivial
    · simp [hn] at h; subst h
      simpa [Canonical] using hurl rfl (by simpa using hn)
  | astDateTime =>
    simp only [fromString] at h
    split at h
    · rename_i hc
      cases h
      simpa [Canonical] using hc
    · obtain ⟨a, _, ha⟩ := exceptMap_ok _ _ _ h
      subst ha; cases a <;> trivial
  | dtOrNone =>
    simp only [fromString] at h
    split at h
    · cases h; trivial
    · obtain ⟨a, _, ha⟩ := exceptMap_ok _ _ _ h
      subst ha; cases a <;> trivial
  | errorList =>
    simp only [fromString] at h
    split at h
    · cases h; trivial
    · obtain ⟨a, _, ha⟩ := exceptMap_ok _ _ _ h
      subst ha; trivial
  | intOrDefault d =>
    simp only [fromString] at h
    obtain ⟨a, _, ha⟩ := exceptMap_ok _ _ _ h
    subst ha; trivial
  | posIntOrDefault d =>
    simp only [fromString] at h
    split at h
    · cases h
    · cases h; exact hpos d rfl
    · rename_i z _
      split at h
      · cases h
      · cases h; show 1 ≤ z; omega

end


section
variable {DT : Type} (C : DTCodec DT)

/-- names of the fields `ServeManifest.get` / `calculate_options` assign after parsing -/
def handlerFields : List String := ["mode", "patch", "segmentTimeline"]

/-- the intermediate results of an accepted manifest request: the parsed arguments, their
feature-filtered form checked by `check_option_values`, and the fields the handler hands on -/
theorem serve_stages (K : FilterConsts) (tbl : List OptionRow) (m : ManifestRow) (mode : Bytes)
    (args : List (Bytes × Bytes)) (dflt : Nat → Val DT) (of : Opts DT)
    (hs : serveManifestOptions C K tbl m mode args dflt = .ok of) :
    ∃ o0 o2 o5 : Nat → Val DT,
      convertOptions C tbl dflt (applyRestrictions m.restrictions args) = .ok o0 ∧
      checkOptionValues C K tbl (removeUnsupported K tbl m.features dflt o0) = .ok o2 ∧
      of = removeUnused K tbl mode o5 ∧
      ∀ i r, tbl[i]? = some r → r.fieldName ∉ handlerFields → o5 i = o2 i := by
  unfold serveManifestOptions at hs
  cases hc : calculateOptions C K tbl mode args dflt (some m.features) (some m.restrictions) with
  | error e => rw [hc] at hs; simp at hs
  | ok o3 =>
    rw [hc] at hs
    simp only at hs
    unfold calculateOptions at hc
    simp only at hc
    cases h0 : convertOptions C tbl dflt (applyRestrictions m.restrictions args) with
    | error e => rw [h0] at hc; simp at hc
    | ok o0 =>
      rw [h0] at hc
      simp only at hc
      cases h1 : checkOptionValues C K tbl (removeUnsupported K tbl m.features dflt o0) with
      | error e => rw [h1] at hc; simp at hc
      | ok o2 =>
        rw [h1] at hc
        simp only [Except.ok.injEq] at hc
        by_cases hrej : (truthy (getField tbl (forcePatch tbl mode o3) "patch") &&
            !m.features.contains "segmentTimeline") = true
        · rw [if_pos hrej] at hs; simp at hs
        · rw [if_neg hrej] at hs
          simp only [Except.ok.injEq] at hs
          refine ⟨o0, o2, _, rfl, h1, hs.symm, ?_⟩
          intro i r hr hn
          have hm : r.fieldName ≠ "mode" := fun e => hn (by simp [handlerFields, e])
          have hp : r.fieldName ≠ "patch" := fun e => hn (by simp [handlerFields, e])
          have ht : r.fieldName ≠ "segmentTimeline" := fun e => hn (by simp [handlerFields, e])
          have e3 : o3 i = o2 i := by
            rw [← hc]; exact setFieldByName_other tbl _ "mode" _ i r hr hm
          have e4 : forcePatch tbl mode o3 i = o3 i := by
            unfold forcePatch
            split
            · exact setFieldByName_other tbl _ "patch" _ i r hr hp
            · rfl
          rw [← e3, ← e4]
          unfold forceTimeline
          split
          · exact setFieldByName_other tbl _ "segmentTimeline" _ i r hr ht
          · split
            · exact setFieldByName_other tbl _ "segmentTimeline" _ i r hr ht
            · rfl

end

theorem fieldIdx_of_get (tbl : List OptionRow) (hnd : (tbl.map OptionRow.fieldName).Nodup) (i : Nat)
    (r : OptionRow) (h : tbl[i]? = some r) : fieldIdx tbl r.fieldName = some i := by
  unfold fieldIdx
  have hlt : i < tbl.length := (List.getElem?_eq_some_iff.mp h).1
  have hget : tbl[i] = r := (List.getElem?_eq_some_iff.mp h).2
  apply List.findIdx?_eq_some_iff_getElem.mpr
  refine ⟨hlt, by simp [hget], ?_⟩
  intro j hji hc
  have hjl : j < tbl.length := by omega
  have hc' : tbl[j].fieldName = r.fieldName := by simpa using hc
  have hpw : List.Pairwise (· ≠ ·) (tbl.map OptionRow.fieldName) := hnd
  have := List.pairwise_iff_getElem.mp hpw j i (by simpa using hjl) (by simpa using hlt) hji
  simp [hget] at this
  exact this hc'



section
variable {DT : Type} (C : DTCodec DT)

theorem fromString_drm_kind (k : Kind) (s : Bytes) (l : List (Bytes × LocSet))
    (h : fromString C k s = .ok (.drm l)) : k = .drmSelection := by
  cases k <;> simp only [fromString] at h
  case bool => cases h
  case intOrNone => obtain ⟨a, _, ha⟩ := exceptMap_ok _ _ _ h; cases a <;> cases ha
  case floatOrNone =>
    split at h
    · cases h
    · split at h <;> cases h
  case strOrNone => split at h <;> cases h
  case strRaw => cases h
  case listJoin => cases h
  case drmSelection => rfl
  case quotedUrl => split at h <;> cases h
  case astDateTime =>
    split at h
    · cases h
    · obtain ⟨a, _, ha⟩ := exceptMap_ok _ _ _ h; cases a <;> cases ha
  case dtOrNone =>
    split at h
    · cases h
    · obtain ⟨a, _, ha⟩ := exceptMap_ok _ _ _ h; cases a <;> cases ha
  case errorList =>
    split at h
    · cases h
    · obtain ⟨a, _, ha⟩ := exceptMap_ok _ _ _ h; cases ha
  case intOrDefault d => obtain ⟨a, _, ha⟩ := exceptMap_ok _ _ _ h; cases ha
  case posIntOrDefault d =>
    split at h
    · cases h
    · cases h
    · split at h <;> cases h

theorem globalDefault_ast_canonical (tbl : List OptionRow) (i : Nat) (r : OptionRow)
    (hr : tbl[i]? = some r) (hk : r.kind = .astDateTime)
    (hd : r.dflt ∈ ["now", "today", "month", "year", "epoch"]) :
    Canonical r.kind (globalDefault C tbl i) := by
  have hs : ascii r.dflt ∈ specialAst := by
    simp only [List.mem_cons, List.mem_nil_iff, or_false] at hd
    rcases hd with h | h | h | h | h <;> rw [h] <;> decide
  have hc : specialAst.contains (ascii r.dflt) = true := by simpa using hs
  have hdv : defaultVal C r = .ok (.str (ascii r.dflt)) := by
    unfold defaultVal
    rw [hk]
    simp only [fromString, hc, if_true]
  unfold globalDefault
  rw [hr]
  simp only [hdv, hk]
  exact hs

end

section
variable {DT : Type} [DecidableEq DT] (C : DTCodec DT)

/-- the names `calculate_cgi_parameters` excludes for every media type -/
def mediaExclude : List String := ["encrypted", "mode"]

/-- the media handler's view of the parameters `calculate_cgi_parameters` wrote for one media type:
it accepts the URL, has the parsed text for every written parameter and the default for every
option no parameter names -/
theorem media_side_parse (hC : DtCodecLaws C) (tbl : List OptionRow) (ht : TableOk tbl)
    (use : Nat) (dflt : Nat → Val DT) (o : Opts DT)
    (ovs : List (String × Bytes)) (hovs : (ovs.map Prod.fst).Nodup)
    (path : Bytes) (hp : (35 : UInt8) ∉ path ∧ (63 : UInt8) ∉ path)
    (hcanon : ∀ i : Nat, ∀ r : OptionRow, ∀ v, tbl[i]? = some r → o i = some v →
      r.usage &&& use ≠ 0 → mediaExclude.contains r.fieldName = false → v ≠ dflt i →
      r.cgi ∉ ovs.map Prod.fst → Canonical r.kind v)
    (hov : ∀ k t, (k, t) ∈ ovs → ∃ i : Nat, ∃ r : OptionRow, ∃ w, tbl[i]? = some r ∧ r.cgi = k ∧
      fromString C r.kind t = .ok w) :
    ∃ res, mediaOptions C tbl dflt
        (path ++ mediaQuery C tbl use (fun i => some (dflt i)) o ovs) = .ok res ∧
      (∀ i : Nat, ∀ r : OptionRow, tbl[i]? = some r →
        (∀ t, (r.cgi, t) ∉ applyOverrides
          (genParams C tbl (some use) mediaExclude true (fun i => some (dflt i)) o) ovs) →
        res i = dflt i) ∧
      (∀ i : Nat, ∀ r : OptionRow, ∀ t, tbl[i]? = some r →
        (r.cgi, t) ∈ applyOverrides
          (genParams C tbl (some use) mediaExclude true (fun i => some (dflt i)) o) ovs →
        fromString C r.kind (cgiText t) = .ok (res i)) := by
  have hGnd : ((genParams C tbl (some use) mediaExclude true (fun i => some (dflt i)) o).map Prod.fst).Nodup :=
    genFrom_keys_nodup C (some use) mediaExclude true _ o tbl 0 (table_cgi_nodup tbl ht)
  have hmem := mem_applyOverrides (genParams C tbl (some use) mediaExclude true (fun i => some (dflt i)) o) ovs hovs
  exact media_parse_of_params C tbl ht dflt path hp _ (applyOverrides_keys_nodup _ ovs hGnd) (by
    intro p hpP
    rcases (hmem p).mp hpP with ⟨hpG, hnov⟩ | ⟨t, hto, hp2⟩
    · obtain ⟨i, r, hr, he⟩ := (mem_genParams C tbl (some use) mediaExclude true _ o p).mp hpG
      obtain ⟨v, ho, hx, hd, hu, hpe⟩ := (emit_some_iff C _ _ _ _ _ _ _ _).mp he
      have hc : r.cgi = p.1 := by rw [← hpe]
      have hd' : v ≠ dflt i := by intro e; simp [e] at hd
      obtain ⟨v', hv', _⟩ := codec_roundtrip_all C hC r.kind v
        (hcanon i r v hr ho (by simpa [useMiss] using hu) hx hd' (by rw [hc]; exact hnov))
      exact ⟨i, r, v', hr, hc, by rw [← hpe]; exact hv'⟩
    · obtain ⟨i, r, w, hr, hc, hw⟩ := hov p.1 t hto
      exact ⟨i, r, w, hr, hc, by rw [hp2]; exact hw⟩)

end


end DashLive.Options
