import DashLive.Model.Options
/-! Helper lemmas for C07 (option codecs, URL escaping, query strings). -/
namespace DashLive.Options

theorem forall_uint8 {P : UInt8 → Prop} (h : ∀ n, n < 256 → P (UInt8.ofNat n)) : ∀ b, P b := by
  intro b
  have := h b.toNat b.toNat_lt
  rwa [UInt8.ofNat_toNat] at this

theorem unreserved_not_special : ∀ b, isUnreserved b = true → b ≠ 43 ∧ b ≠ 37 ∧ b ≠ 38 ∧ b ≠ 61 ∧ b ≠ 35 ∧ b ≠ 63 :=
  forall_uint8 (by decide +kernel)

theorem unhex_hexU : ∀ n, n < 16 → unhex (hexU n) = some n := by decide +kernel

theorem byte_split : ∀ b : UInt8, UInt8.ofNat (b.toNat / 16 * 16 + b.toNat % 16) = b :=
  forall_uint8 (by decide +kernel)

theorem unquotePlus_nil : unquotePlus [] = [] := by simp [unquotePlus]

theorem unquotePlus_plain (b : UInt8) (r : Bytes) (h1 : b ≠ 43) (h2 : b ≠ 37) :
    unquotePlus (b :: r) = b :: unquotePlus r := by
  rw [unquotePlus.eq_def]; simp [h1, h2]

theorem unquotePlus_plus (r : Bytes) : unquotePlus (43 :: r) = 32 :: unquotePlus r := by
  rw [unquotePlus.eq_def]; simp

theorem unquotePlus_pct (x y : Nat) (hx : x < 16) (hy : y < 16) (r : Bytes) :
    unquotePlus (37 :: hexU x :: hexU y :: r) = UInt8.ofNat (x * 16 + y) :: unquotePlus r := by
  rw [unquotePlus.eq_def]
  simp [unhex_hexU x hx, unhex_hexU y hy]

/-- a `safe` set that keeps the two decoder meta characters escaped -/
def SafeOk (safe : UInt8 → Bool) : Prop := safe 43 = false ∧ safe 37 = false

theorem unquotePlus_quoteByte (safe : UInt8 → Bool) (hs : SafeOk safe) (b : UInt8) (r : Bytes) :
    unquotePlus (quoteByte safe b ++ r) = b :: unquotePlus r := by
  unfold quoteByte
  by_cases h : (isUnreserved b || safe b) = true
  · rw [if_pos h]
    have h1 : b ≠ 43 := by
      intro e; subst e
      rcases (Bool.or_eq_true _ _).mp h with h | h
      · exact absurd h (by decide)
      · rw [hs.1] at h; exact absurd h (by decide)
    have h2 : b ≠ 37 := by
      intro e; subst e
      rcases (Bool.or_eq_true _ _).mp h with h | h
      · exact absurd h (by decide)
      · rw [hs.2] at h; exact absurd h (by decide)
    exact unquotePlus_plain b r h1 h2
  · rw [if_neg h]
    by_cases h32 : b = 32
    · rw [if_pos h32, h32]; exact unquotePlus_plus r
    · rw [if_neg h32]
      have hx : b.toNat / 16 < 16 := by have := b.toNat_lt; omega
      have hy : b.toNat % 16 < 16 := Nat.mod_lt _ (by decide)
      have := unquotePlus_pct (b.toNat / 16) (b.toNat % 16) hx hy r
      show unquotePlus (37 :: hexU (b.toNat / 16) :: hexU (b.toNat % 16) :: r) = _
      rw [this, byte_split]

theorem unquotePlus_quotePlus (safe : UInt8 → Bool) (hs : SafeOk safe) (s : Bytes) :
    unquotePlus (quotePlus safe s) = s := by
  induction s with
  | nil => simp [quotePlus, unquotePlus_nil]
  | cons b r ih => simp only [quotePlus]; rw [unquotePlus_quoteByte safe hs, ih]


/-! ### split / join -/

theorem splitOn_ne_nil (sep : UInt8) (s : Bytes) : splitOn sep s ≠ [] := by
  induction s with
  | nil => simp [splitOn]
  | cons b r ih =>
    unfold splitOn
    by_cases h : b = sep
    · simp [h]
    · simp only [h, if_false]
      cases hs : splitOn sep r with
      | nil => exact absurd hs ih
      | cons p ps => simp

theorem splitOn_cons_sep (sep : UInt8) (r : Bytes) : splitOn sep (sep :: r) = [] :: splitOn sep r := by
  rw [splitOn]; simp

theorem splitOn_cons_ne (sep b : UInt8) (r p : Bytes) (ps : List Bytes) (h : b ≠ sep)
    (hs : splitOn sep r = p :: ps) : splitOn sep (b :: r) = (b :: p) :: ps := by
  rw [splitOn]; simp [h, hs]

theorem splitOn_noSep (sep : UInt8) (p : Bytes) (h : sep ∉ p) : splitOn sep p = [p] := by
  induction p with
  | nil => simp [splitOn]
  | cons b r ih =>
    have hb : b ≠ sep := fun e => h (by simp [e])
    have hr : sep ∉ r := fun e => h (by simp [e])
    exact splitOn_cons_ne sep b r r [] hb (ih hr)

theorem splitOn_append_sep (sep : UInt8) (p r : Bytes) (h : sep ∉ p) :
    splitOn sep (p ++ sep :: r) = p :: splitOn sep r := by
  induction p with
  | nil => exact splitOn_cons_sep sep r
  | cons b q ih =>
    have hb : b ≠ sep := fun e => h (by simp [e])
    have hq : sep ∉ q := fun e => h (by simp [e])
    exact splitOn_cons_ne sep b _ q _ hb (ih hq)

theorem splitOn_joinWith (sep : UInt8) (ps : List Bytes) (hne : ps ≠ [])
    (h : ∀ p ∈ ps, sep ∉ p) : splitOn sep (joinWith sep ps) = ps := by
  induction ps with
  | nil => exact absurd rfl hne
  | cons p r ih =>
    cases r with
    | nil => simp only [joinWith]; exact splitOn_noSep sep p (h p (by simp))
    | cons q r' =>
      simp only [joinWith]
      rw [splitOn_append_sep sep p _ (h p (by simp))]
      rw [ih (by simp) (fun x hx => h x (by simp [hx]))]

theorem splitFirst_append (sep : UInt8) (k v : Bytes) (h : sep ∉ k) :
    splitFirst sep (k ++ sep :: v) = (k, some v) := by
  induction k with
  | nil => simp [splitFirst]
  | cons b q ih =>
    have hb : b ≠ sep := fun e => h (by simp [e])
    have hq : sep ∉ q := fun e => h (by simp [e])
    show splitFirst sep (b :: (q ++ sep :: v)) = _
    unfold splitFirst
    simp only [hb, if_false, ih hq]

theorem splitFirst_noSep (sep : UInt8) (k : Bytes) (h : sep ∉ k) :
    splitFirst sep k = (k, none) := by
  induction k with
  | nil => simp [splitFirst]
  | cons b q ih =>
    have hb : b ≠ sep := fun e => h (by simp [e])
    have hq : sep ∉ q := fun e => h (by simp [e])
    unfold splitFirst
    simp only [hb, if_false, ih hq]

/-! ### decimal numerals -/

theorem digitB_props : ∀ d, d < 10 → isDigit (digitB d) = true ∧ digitVal (digitB d) = d ∧
    isWs (digitB d) = false ∧ digitB d ≠ 45 ∧ digitB d ≠ 43 ∧ digitB d ≠ 95 ∧ digitB d ≠ 44 ∧
    digitB d ≠ 61 ∧ digitB d ≠ 46 := by decide +kernel

theorem natDec_lt (n : Nat) (h : n < 10) : natDec n = [digitB n] := by
  rw [natDec]; simp [h]

theorem natDec_ge (n : Nat) (h : ¬ n < 10) : natDec n = natDec (n / 10) ++ [digitB (n % 10)] := by
  rw [natDec]; simp [h]

/-- every byte of a decimal numeral is an ASCII digit -/
theorem natDec_digits (n : Nat) : ∀ b ∈ natDec n, ∃ d, d < 10 ∧ b = digitB d := by
  induction n using Nat.strongRecOn with
  | _ n ih =>
    by_cases h : n < 10
    · rw [natDec_lt n h]; intro b hb; simp at hb; exact ⟨n, h, hb⟩
    · rw [natDec_ge n h]; intro b hb
      rcases List.mem_append.mp hb with hb | hb
      · exact ih (n / 10) (by omega) b hb
      · simp at hb; exact ⟨n % 10, Nat.mod_lt _ (by decide), hb⟩

theorem natDec_ne_nil (n : Nat) : natDec n ≠ [] := by
  by_cases h : n < 10
  · rw [natDec_lt n h]; simp
  · rw [natDec_ge n h]; simp

theorem digitsVal_append (acc : Nat) (xs : Bytes) (d : Nat) (hd : d < 10) :
    digitsVal acc (xs ++ [digitB d]) = (digitsVal acc xs).map (fun a => a * 10 + d) := by
  induction xs generalizing acc with
  | nil => simp [digitsVal, (digitB_props d hd).1, (digitB_props d hd).2.1]
  | cons b r ih =>
    simp only [List.cons_append, digitsVal]
    by_cases hb : isDigit b = true
    · simp only [hb, if_true]; exact ih _
    · simp [hb]

theorem digitsVal_natDec (n : Nat) : digitsVal 0 (natDec n) = some n := by
  induction n using Nat.strongRecOn with
  | _ n ih =>
    by_cases h : n < 10
    · rw [natDec_lt n h]; simp [digitsVal, (digitB_props n h).1, (digitB_props n h).2.1]
    · rw [natDec_ge n h, digitsVal_append _ _ _ (Nat.mod_lt _ (by decide)), ih (n / 10) (by omega)]
      simp; omega



def AllDigits (l : Bytes) : Prop := ∀ b ∈ l, ∃ d, d < 10 ∧ b = digitB d

theorem pyDigitsAux_digits (l : Bytes) (hl : AllDigits l) (acc : Nat) :
    pyDigitsAux acc true l = digitsVal acc l := by
  induction l generalizing acc with
  | nil => simp [pyDigitsAux, digitsVal]
  | cons b r ih =>
    obtain ⟨d, hd, rfl⟩ := hl b (by simp)
    simp only [pyDigitsAux, digitsVal, (digitB_props d hd).1, if_true]
    exact ih (fun x hx => hl x (by simp [hx])) _

theorem pyDigits_digits (l : Bytes) (hl : AllDigits l) (hne : l ≠ []) :
    pyDigits l = digitsVal 0 l := by
  cases l with
  | nil => exact absurd rfl hne
  | cons b r =>
    obtain ⟨d, hd, rfl⟩ := hl b (by simp)
    simp only [pyDigits, pyDigitsAux, digitsVal, (digitB_props d hd).1, if_true]
    exact pyDigitsAux_digits r (fun x hx => hl x (by simp [hx])) _

theorem dropWhile_id {p : UInt8 → Bool} (l : Bytes) (h : ∀ b ∈ l, p b = false) : l.dropWhile p = l := by
  cases l with
  | nil => rfl
  | cons b r => exact List.dropWhile_cons_of_neg (by simp [h b (by simp)])

theorem strip_id (l : Bytes) (h : ∀ b ∈ l, isWs b = false) : strip l = l := by
  unfold strip
  rw [dropWhile_id l h, dropWhile_id l.reverse (fun b hb => h b (List.mem_reverse.mp hb)), List.reverse_reverse]

theorem natDec_noWs (n : Nat) : ∀ b ∈ natDec n, isWs b = false := by
  intro b hb; obtain ⟨d, hd, rfl⟩ := natDec_digits n b hb; exact (digitB_props d hd).2.2.1

theorem pyDigits_natDec (n : Nat) : pyDigits (natDec n) = some n := by
  rw [pyDigits_digits _ (natDec_digits n) (natDec_ne_nil n), digitsVal_natDec]

theorem natDec_head (n : Nat) : ∃ d r, d < 10 ∧ natDec n = digitB d :: r := by
  have hne := natDec_ne_nil n
  cases h : natDec n with
  | nil => exact absurd h hne
  | cons b r =>
    obtain ⟨d, hd, rfl⟩ := natDec_digits n b (by rw [h]; simp)
    exact ⟨d, r, hd, rfl⟩

theorem pyInt_natDec (n : Nat) : pyInt (natDec n) = some (n : Int) := by
  unfold pyInt
  rw [strip_id _ (natDec_noWs n)]
  obtain ⟨d, r, hd, h⟩ := natDec_head n
  have hp := pyDigits_natDec n
  rw [h] at hp ⊢
  simp only [(digitB_props d hd).2.2.2.1, (digitB_props d hd).2.2.2.2.1, if_false, hp, Option.map_some]
  rfl

theorem pyInt_intDec (z : Int) : pyInt (intDec z) = some z := by
  unfold intDec
  by_cases hz : z < 0
  · simp only [hz, if_true]
    unfold pyInt
    have hws : ∀ b ∈ (45 : UInt8) :: natDec z.natAbs, isWs b = false := by
      intro b hb
      rcases List.mem_cons.mp hb with rfl | hb
      · decide
      · exact natDec_noWs _ b hb
    rw [strip_id _ hws]
    simp only [if_true, pyDigits_natDec, Option.map_some]
    congr 1; show -((z.natAbs : Nat) : Int) = z; omega
  · simp only [hz, if_false]
    rw [pyInt_natDec]; congr 1; omega



/-! ### none-like texts -/

theorem isNoneCS_false_of_head (b : UInt8) (r : Bytes) (h : b ≠ 110) : isNoneCS (b :: r) = false := by
  unfold isNoneCS tNone
  have : ascii "none" = [110, 111, 110, 101] := by decide
  rw [this]
  simp [h]

theorem isNoneCI_false_of_head (b : UInt8) (r : Bytes) (h : lowerB b ≠ 110) : isNoneCI (b :: r) = false := by
  unfold isNoneCI tNone lower
  have : ascii "none" = [110, 111, 110, 101] := by decide
  rw [this]
  simp [h]

theorem lowerB_digit : ∀ d, d < 10 → lowerB (digitB d) ≠ 110 ∧ digitB d ≠ 110 := by decide +kernel

theorem intDec_head (z : Int) : ∃ b r, intDec z = b :: r ∧ b ≠ 110 ∧ lowerB b ≠ 110 := by
  unfold intDec
  by_cases hz : z < 0
  · simp only [hz, if_true]; exact ⟨45, _, rfl, by decide, by decide⟩
  · simp only [hz, if_false]
    obtain ⟨d, r, hd, h⟩ := natDec_head z.toNat
    exact ⟨digitB d, r, h, (lowerB_digit d hd).2, (lowerB_digit d hd).1⟩

theorem isNoneCS_intDec (z : Int) : isNoneCS (intDec z) = false := by
  obtain ⟨b, r, h, h1, _⟩ := intDec_head z
  rw [h]; exact isNoneCS_false_of_head b r h1

theorem isNoneCI_intDec (z : Int) : isNoneCI (intDec z) = false := by
  obtain ⟨b, r, h, _, h2⟩ := intDec_head z
  rw [h]; exact isNoneCI_false_of_head b r h2

theorem intOrNone_intDec (z : Int) : intOrNone (intDec z) = .ok (some z) := by
  unfold intOrNone
  simp [isNoneCS_intDec, pyInt_intDec]

/-- bytes of `str(int)`: digits or a minus sign -/
theorem intDec_bytes (z : Int) : ∀ b ∈ intDec z, b = 45 ∨ ∃ d, d < 10 ∧ b = digitB d := by
  unfold intDec
  by_cases hz : z < 0
  · simp only [hz, if_true]
    intro b hb
    rcases List.mem_cons.mp hb with rfl | hb
    · exact Or.inl rfl
    · exact Or.inr (natDec_digits _ b hb)
  · simp only [hz, if_false]; intro b hb; exact Or.inr (natDec_digits _ b hb)

theorem intDec_no (z : Int) (c : UInt8) (h45 : c ≠ 45) (hd : ∀ d, d < 10 → digitB d ≠ c) : c ∉ intDec z := by
  intro hc
  rcases intDec_bytes z c hc with rfl | ⟨d, hd', rfl⟩
  · exact h45 rfl
  · exact hd d hd' rfl

theorem intDec_noComma (z : Int) : (44 : UInt8) ∉ intDec z :=
  intDec_no z 44 (by decide) (fun d hd => (digitB_props d hd).2.2.2.2.2.2.1)

theorem intDec_noEq (z : Int) : (61 : UInt8) ∉ intDec z :=
  intDec_no z 61 (by decide) (fun d hd => (digitB_props d hd).2.2.2.2.2.2.2.1)

/-! ### floats that are multiples of 0.1 -/

theorem pyTenths_tenthsDec (t : Nat) : pyTenths (tenthsDec t) = some t := by
  unfold pyTenths tenthsDec
  have hd : t % 10 < 10 := Nat.mod_lt _ (by decide)
  have hws : ∀ b ∈ natDec (t / 10) ++ 46 :: [digitB (t % 10)], isWs b = false := by
    intro b hb
    rcases List.mem_append.mp hb with hb | hb
    · exact natDec_noWs _ b hb
    · rcases List.mem_cons.mp hb with rfl | hb
      · decide
      · simp at hb; subst hb; exact (digitB_props _ hd).2.2.1
  rw [strip_id _ hws]
  have h46 : (46 : UInt8) ∉ natDec (t / 10) := by
    intro hc; obtain ⟨d, hd', e⟩ := natDec_digits _ _ hc
    exact (digitB_props d hd').2.2.2.2.2.2.2.2 e.symm
  rw [splitOn_append_sep 46 _ _ h46, splitOn_noSep 46 [digitB (t % 10)] (by
    simp; exact fun e => (digitB_props _ hd).2.2.2.2.2.2.2.2 e.symm)]
  simp only [(digitB_props _ hd).1, if_true, digitsNE, natDec_ne_nil, if_false, digitsVal_natDec,
    Option.map_some, (digitB_props _ hd).2.1]
  congr 1; omega

theorem tenthsDec_head (t : Nat) : ∃ b r, tenthsDec t = b :: r ∧ b ≠ 110 := by
  unfold tenthsDec
  obtain ⟨d, r, hd, h⟩ := natDec_head (t / 10)
  exact ⟨digitB d, r ++ 46 :: [digitB (t % 10)], by rw [h]; rfl, (lowerB_digit d hd).2⟩


end DashLive.Options
