import DashLive.Model.Boxes.Audio
import DashLive.Lemmas.Boxes.Basic
/-! Round trip of `dec3` (`Model/Boxes/Audio.lean`). -/
namespace DashLive.Boxes
open DashLive.Bytes

/-- the bit fields of the first 24 bits of a substream come back out of `ec3Word` -/
theorem ec3Word_fields (a b c d e n h : Nat) (ha : a < 4) (hb : b < 32) (hc : c < 32) (hd : d < 8)
    (he : e < 2) (hn : n < 16) (hh : h < 2) :
    let w := a * 4194304 + b * 131072 + c * 4096 + d * 512 + e * 256 + n * 2 + h
    w < 16777216 ∧ w / 4194304 = a ∧ w / 131072 % 32 = b ∧ w / 4096 % 32 = c ∧ w / 512 % 8 = d ∧
    w / 256 % 2 = e ∧ w / 2 % 16 = n ∧ w % 2 = h := by
  intro w
  omega

theorem decEc3Sub_encEc3Sub (s : Ec3Sub) (rest : Bytes) (h : s.Wf) :
    decEc3Sub (encEc3Sub s ++ rest) = some (s, rest) := by
  obtain ⟨fscod, bsid, bsmod, acmod, lfeon, nds, cl⟩ := s
  obtain ⟨h1, h2, h3, h4, h5, h6, h7, h8⟩ := h
  simp only at h1 h2 h3 h4 h5 h6 h7 h8
  have hh : cl / 256 < 2 := by omega
  obtain ⟨w0, w1, w2, w3, w4, w5, w6, w7⟩ :=
    ec3Word_fields fscod bsid bsmod acmod lfeon nds (cl / 256) h1 h2 h3 h4 h5 h6 hh
  by_cases hn : nds = 0
  · have hcl : cl = 0 := h8 hn
    subst hn; subst hcl
    simp only [decEc3Sub, encEc3Sub, ec3Word, if_true, List.append_nil, decU24_encU24 _ _ w0,
      andThen_some, w6, w1, w2, w3, w4, w5]
  · have hb : cl % 256 < 256 := by omega
    have hcl : cl / 256 * 256 + cl % 256 = cl := by omega
    simp only [decEc3Sub, encEc3Sub, ec3Word, hn, if_false, List.append_assoc,
      decU24_encU24 _ _ w0, andThen_some, w6, w1, w2, w3, w4, w5, w7, decU8_encU8 _ _ hb, hcl]

theorem decDec3Ext_encDec3Ext (e : Option (Nat × Nat))
    (h : match e with | none => True | some (f, c) => f < 2 ∧ c < 256) :
    decDec3Ext (encDec3Ext e) = some e := by
  cases e with
  | none => simp [decDec3Ext, encDec3Ext]
  | some p =>
    obtain ⟨f, c⟩ := p
    simp only at h
    have hv : f * 256 + c < 65536 := by omega
    have h1 : (f * 256 + c) / 256 % 2 = f := by omega
    have h2 : (f * 256 + c) % 256 = c := by omega
    have hne : (encU16 (f * 256 + c)).isEmpty = false := by
      cases hx : encU16 (f * 256 + c) with
      | nil => have := congrArg List.length hx; simp at this
      | cons _ _ => rfl
    have hd := decU16_encU16 (f * 256 + c) [] hv
    rw [List.append_nil] at hd
    simp only [decDec3Ext, encDec3Ext, hne, Bool.false_eq_true, if_false, hd, h1, h2]

theorem decDec3_encDec3 (x : Dec3) (h : x.Wf) : decDec3 (encDec3 x) = some x := by
  obtain ⟨h1, h2, h3, h4, h5⟩ := h
  have hw : x.data_rate * 8 + (x.substreams.length - 1) < 65536 := by omega
  have hn : (x.data_rate * 8 + (x.substreams.length - 1)) % 8 + 1 = x.substreams.length := by omega
  have hr : (x.data_rate * 8 + (x.substreams.length - 1)) / 8 = x.data_rate := by omega
  have hm := decMany_encMany encEc3Sub decEc3Sub x.substreams (encDec3Ext x.ext)
    (fun a ha r => decEc3Sub_encEc3Sub a r (h4 a ha))
  simp only [decDec3, encDec3, decU16_encU16 _ _ hw, andThen_some, hn, hm,
    decDec3Ext_encDec3Ext x.ext h5, hr]

end DashLive.Boxes
