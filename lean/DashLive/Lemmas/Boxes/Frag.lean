import DashLive.Model.Boxes.Frag
import DashLive.Lemmas.Boxes.Basic
/-! Round-trip lemmas of `tfhd`, `trun`, `saiz`, `saio` (`Model/Boxes/Frag.lean`). -/
namespace DashLive.Boxes
open DashLive.Bytes

/-! ### optional fields with a bound -/
theorem decOpt_encOpt_u32 (c : Bool) (v : Nat) (rest : Bytes) (h : optBound c 4294967296 v) :
    decOpt c decU32 (encOpt c encU32 v ++ rest) = some (v, rest) :=
  decOpt_encOpt c encU32 decU32 v rest
    (fun hc => decU32_encU32 v rest (by simpa [optBound, hc] using h))
    (fun hc => by simpa [optBound, hc] using h)

theorem decOpt_encOpt_u64 (c : Bool) (v : Nat) (rest : Bytes)
    (h : optBound c 18446744073709551616 v) :
    decOpt c decU64 (encOpt c encU64 v ++ rest) = some (v, rest) :=
  decOpt_encOpt c encU64 decU64 v rest
    (fun hc => decU64_encU64 v rest (by simpa [optBound, hc] using h))
    (fun hc => by simpa [optBound, hc] using h)

theorem decOpt_u32_spec {c : Bool} {bs : Bytes} {v : Nat} {rest : Bytes}
    (h : decOpt c decU32 bs = some (v, rest)) :
    optBound c 4294967296 v ∧ encOpt c encU32 v ++ rest = bs := by
  cases c with
  | true =>
    simp only [decOpt, if_true] at h
    exact ⟨by simpa [optBound] using decU32_range h, by simpa [encOpt] using encU32_decU32 h⟩
  | false =>
    simp only [decOpt, Bool.false_eq_true, if_false, Option.some.injEq, Prod.mk.injEq] at h
    obtain ⟨rfl, rfl⟩ := h
    simp [encOpt, optBound]

theorem decOpt_u64_spec {c : Bool} {bs : Bytes} {v : Nat} {rest : Bytes}
    (h : decOpt c decU64 bs = some (v, rest)) :
    optBound c 18446744073709551616 v ∧ encOpt c encU64 v ++ rest = bs := by
  cases c with
  | true =>
    simp only [decOpt, if_true] at h
    exact ⟨by simpa [optBound] using decU64_range h, by simpa [encOpt] using encU64_decU64 h⟩
  | false =>
    simp only [decOpt, Bool.false_eq_true, if_false, Option.some.injEq, Prod.mk.injEq] at h
    obtain ⟨rfl, rfl⟩ := h
    simp [encOpt, optBound]

/-! ### tfhd -/
theorem decTfhd'_encTfhd (x : Tfhd) (rest : Bytes) (h : x.Wf) :
    decTfhd' (encTfhd x ++ rest) = some (x, rest) := by
  obtain ⟨h1, h2, h3, h4, h5, h6, h7, h8⟩ := h
  simp only [decTfhd', encTfhd, List.append_assoc, decU8_encU8 _ _ h1, decU24_encU24 _ _ h2,
    decU32_encU32 _ _ h3, decOpt_encOpt_u64 _ _ _ h4, decOpt_encOpt_u32 _ _ _ h5,
    decOpt_encOpt_u32 _ _ _ h6, decOpt_encOpt_u32 _ _ _ h7, decOpt_encOpt_u32 _ _ _ h8, andThen_some]

theorem decTfhd'_spec {bs : Bytes} {x : Tfhd} {rest : Bytes} (h : decTfhd' bs = some (x, rest)) :
    x.Wf ∧ encTfhd x ++ rest = bs := by
  simp only [decTfhd', andThen_eq_some_iff] at h
  obtain ⟨v, b1, h1, f, b2, h2, t, b3, h3, a, b4, h4, b, b5, h5, c, b6, h6, d, b7, h7,
    e, b8, h8, h9⟩ := h
  simp only [Option.some.injEq, Prod.mk.injEq] at h9
  obtain ⟨rfl, rfl⟩ := h9
  obtain ⟨h4a, h4b⟩ := decOpt_u64_spec h4
  obtain ⟨h5a, h5b⟩ := decOpt_u32_spec h5
  obtain ⟨h6a, h6b⟩ := decOpt_u32_spec h6
  obtain ⟨h7a, h7b⟩ := decOpt_u32_spec h7
  obtain ⟨h8a, h8b⟩ := decOpt_u32_spec h8
  refine ⟨⟨decU8_range h1, decU24_range h2, decU32_range h3, h4a, h5a, h6a, h7a, h8a⟩, ?_⟩
  simp only [encTfhd, List.append_assoc]
  rw [h8b, h7b, h6b, h5b, h4b, encU32_decU32 h3, encU24_decU24 h2, encU8_decU8 h1]

theorem decTfhd_encTfhd (x : Tfhd) (h : x.Wf) : decTfhd (encTfhd x) = some x :=
  exact_roundtrip (decTfhd'_encTfhd x [] h)

theorem encTfhd_decTfhd {bs : Bytes} {x : Tfhd} (h : decTfhd bs = some x) :
    x.Wf ∧ encTfhd x = bs := by
  simpa using decTfhd'_spec (exact_spec h)

/-! ### trun -/
theorem decCto_encCto (s : Bool) (v : Int) (rest : Bytes) (h : ctoOk true s v) :
    decCto s (encCto s v ++ rest) = some (v, rest) := by
  cases s with
  | true =>
    simp only [ctoOk, if_true] at h
    simpa [decCto, encCto] using decI32_encI32 v rest h
  | false =>
    simp only [ctoOk, if_true, Bool.false_eq_true, if_false] at h
    have h1 : v.toNat < 4294967296 := by omega
    have h2 : (v.toNat : Int) = v := by omega
    simp [decCto, encCto, decU32_encU32 _ _ h1, h2]

theorem decCto_spec {s : Bool} {bs : Bytes} {v : Int} {rest : Bytes}
    (h : decCto s bs = some (v, rest)) : ctoOk true s v ∧ encCto s v ++ rest = bs := by
  cases s with
  | true =>
    simp only [decCto, if_true] at h
    obtain ⟨h1, h2⟩ := decI32_spec h
    exact ⟨by simpa [ctoOk] using h1, by simpa [encCto] using h2⟩
  | false =>
    simp only [decCto, Bool.false_eq_true, if_false] at h
    cases hd : decU32 bs with
    | none => simp [hd] at h
    | some p =>
      obtain ⟨u, r⟩ := p
      simp only [hd, Option.some.injEq, Prod.mk.injEq] at h
      obtain ⟨rfl, rfl⟩ := h
      have := decU32_range hd
      refine ⟨by simp only [ctoOk, if_true, Bool.false_eq_true, if_false]; omega, ?_⟩
      simpa [encCto] using encU32_decU32 hd

theorem decOptI_encOptI_cto (c s : Bool) (v : Int) (rest : Bytes) (h : ctoOk c s v) :
    decOptI c (decCto s) (encOptI c (encCto s) v ++ rest) = some (v, rest) := by
  cases c with
  | true => simpa [decOptI, encOptI] using decCto_encCto s v rest h
  | false =>
    have : v = 0 := by simpa [ctoOk] using h
    simp [decOptI, encOptI, this]

theorem decOptI_cto_spec {c s : Bool} {bs : Bytes} {v : Int} {rest : Bytes}
    (h : decOptI c (decCto s) bs = some (v, rest)) :
    ctoOk c s v ∧ encOptI c (encCto s) v ++ rest = bs := by
  cases c with
  | true =>
    simp only [decOptI, if_true] at h
    simpa [encOptI] using decCto_spec h
  | false =>
    simp only [decOptI, Bool.false_eq_true, if_false, Option.some.injEq, Prod.mk.injEq] at h
    obtain ⟨rfl, rfl⟩ := h
    simp [encOptI, ctoOk]

theorem decOptI_encOptI_i32 (c : Bool) (v : Int) (rest : Bytes) (h : i32Ok c v) :
    decOptI c decI32 (encOptI c encI32 v ++ rest) = some (v, rest) := by
  cases c with
  | true => simpa [decOptI, encOptI] using decI32_encI32 v rest (by simpa [i32Ok] using h)
  | false =>
    have : v = 0 := by simpa [i32Ok] using h
    simp [decOptI, encOptI, this]

theorem decOptI_i32_spec {c : Bool} {bs : Bytes} {v : Int} {rest : Bytes}
    (h : decOptI c decI32 bs = some (v, rest)) :
    i32Ok c v ∧ encOptI c encI32 v ++ rest = bs := by
  cases c with
  | true =>
    simp only [decOptI, if_true] at h
    simpa [encOptI, i32Ok] using decI32_spec h
  | false =>
    simp only [decOptI, Bool.false_eq_true, if_false, Option.some.injEq, Prod.mk.injEq] at h
    obtain ⟨rfl, rfl⟩ := h
    simp [encOptI, i32Ok]

theorem decTrunSample_encTrunSample (flags version : Nat) (s : TrunSample) (rest : Bytes)
    (h : s.Wf flags version) :
    decTrunSample flags version (encTrunSample flags version s ++ rest) = some (s, rest) := by
  obtain ⟨h1, h2, h3, h4⟩ := h
  simp only [decTrunSample, encTrunSample, List.append_assoc, decOpt_encOpt_u32 _ _ _ h1,
    decOpt_encOpt_u32 _ _ _ h2, decOpt_encOpt_u32 _ _ _ h3, decOptI_encOptI_cto _ _ _ _ h4, andThen_some]

theorem decTrunSample_spec {flags version : Nat} {bs : Bytes} {s : TrunSample} {rest : Bytes}
    (h : decTrunSample flags version bs = some (s, rest)) :
    s.Wf flags version ∧ encTrunSample flags version s ++ rest = bs := by
  simp only [decTrunSample, andThen_eq_some_iff] at h
  obtain ⟨a, b1, h1, b, b2, h2, c, b3, h3, d, b4, h4, h5⟩ := h
  simp only [Option.some.injEq, Prod.mk.injEq] at h5
  obtain ⟨rfl, rfl⟩ := h5
  obtain ⟨h1a, h1b⟩ := decOpt_u32_spec h1
  obtain ⟨h2a, h2b⟩ := decOpt_u32_spec h2
  obtain ⟨h3a, h3b⟩ := decOpt_u32_spec h3
  obtain ⟨h4a, h4b⟩ := decOptI_cto_spec h4
  refine ⟨⟨h1a, h2a, h3a, h4a⟩, ?_⟩
  simp only [encTrunSample, List.append_assoc]
  rw [h4b, h3b, h2b, h1b]

theorem decTrun'_encTrun (x : Trun) (rest : Bytes) (h : x.Wf) :
    decTrun' (encTrun x ++ rest) = some (x, rest) := by
  obtain ⟨h1, h2, h3, h4, h5, h6, h7⟩ := h
  have hm := decMany_encMany (encTrunSample x.flags x.version) (decTrunSample x.flags x.version)
    x.samples rest (fun a ha r => decTrunSample_encTrunSample _ _ a r (h7 a ha))
  rw [← h4] at hm
  simp only [decTrun', encTrun, List.append_assoc, decU8_encU8 _ _ h1, decU24_encU24 _ _ h2,
    decU32_encU32 _ _ h3, decOptI_encOptI_i32 _ _ _ h5, decOpt_encOpt_u32 _ _ _ h6, hm, andThen_some]

theorem decTrun'_spec {bs : Bytes} {x : Trun} {rest : Bytes} (h : decTrun' bs = some (x, rest)) :
    x.Wf ∧ encTrun x ++ rest = bs := by
  simp only [decTrun', andThen_eq_some_iff] at h
  obtain ⟨v, b1, h1, f, b2, h2, n, b3, h3, o, b4, h4, g, b5, h5, ss, b6, h6, h7⟩ := h
  simp only [Option.some.injEq, Prod.mk.injEq] at h7
  obtain ⟨rfl, rfl⟩ := h7
  obtain ⟨h4a, h4b⟩ := decOptI_i32_spec h4
  obtain ⟨h5a, h5b⟩ := decOpt_u32_spec h5
  obtain ⟨h6a, h6b, h6c⟩ := decMany_spec (encTrunSample f v) (decTrunSample f v)
    (fun s => s.Wf f v) (fun bs a r h => decTrunSample_spec h) h6
  refine ⟨⟨decU8_range h1, decU24_range h2, decU32_range h3, h6a.symm, h4a, h5a, h6b⟩, ?_⟩
  simp only [encTrun, List.append_assoc]
  rw [h6c, h5b, h4b, encU32_decU32 h3, encU24_decU24 h2, encU8_decU8 h1]

theorem decTrun_encTrun (x : Trun) (h : x.Wf) : decTrun (encTrun x) = some x :=
  exact_roundtrip (decTrun'_encTrun x [] h)

theorem encTrun_decTrun {bs : Bytes} {x : Trun} (h : decTrun bs = some x) :
    x.Wf ∧ encTrun x = bs := by
  simpa using decTrun'_spec (exact_spec h)

/-! ### saiz -/
theorem decSaizTable_encSaizTable (dflt count : Nat) (sizes : List Nat) (rest : Bytes)
    (h6 : count < 4294967296)
    (h7 : if dflt = 0 then count = sizes.length else sizes = [])
    (h8 : ∀ s ∈ sizes, s < 256) :
    decSaizTable dflt (encSaizTable dflt count sizes ++ rest) = some ((count, sizes), rest) := by
  have hm := decMany_encMany encU8 decU8 sizes rest (fun a ha r => decU8_encU8 a r (h8 a ha))
  unfold decSaizTable encSaizTable
  by_cases hd : dflt = 0
  · rw [if_pos hd] at h7 ⊢
    subst h7
    rw [List.append_assoc, decU32_encU32 _ _ h6]
    simp only [hd, if_true, hm]
  · rw [if_neg hd] at h7 ⊢
    subst h7
    rw [decU32_encU32 _ _ h6]
    simp only [hd, if_false]

theorem decSaizTable_spec {dflt : Nat} {bs : Bytes} {count : Nat} {sizes : List Nat} {rest : Bytes}
    (h : decSaizTable dflt bs = some ((count, sizes), rest)) :
    count < 4294967296 ∧ (if dflt = 0 then count = sizes.length else sizes = []) ∧
    (∀ s ∈ sizes, s < 256) ∧ encSaizTable dflt count sizes ++ rest = bs := by
  unfold decSaizTable at h
  cases hc : decU32 bs with
  | none => simp [hc] at h
  | some p =>
    obtain ⟨n, b1⟩ := p
    simp only [hc] at h
    by_cases hd : dflt = 0
    · simp only [hd, if_true] at h
      cases hm : decMany decU8 n b1 with
      | none => simp [hm] at h
      | some q =>
        obtain ⟨ss, b2⟩ := q
        simp only [hm, Option.some.injEq, Prod.mk.injEq] at h
        obtain ⟨⟨rfl, rfl⟩, rfl⟩ := h
        obtain ⟨h7a, h7b, h7c⟩ := decMany_spec encU8 decU8 (fun s => s < 256)
          (fun bs a r h => ⟨decU8_range h, encU8_decU8 h⟩) hm
        refine ⟨decU32_range hc, by simp [hd, h7a], h7b, ?_⟩
        simp only [encSaizTable, hd, if_true, List.append_assoc, h7a]
        rw [h7c, encU32_decU32 hc]
    · simp only [hd, if_false, Option.some.injEq, Prod.mk.injEq] at h
      obtain ⟨⟨rfl, rfl⟩, rfl⟩ := h
      refine ⟨decU32_range hc, by simp [hd], by simp, ?_⟩
      simp only [encSaizTable, hd, if_false]
      exact encU32_decU32 hc

theorem decSaiz'_encSaiz (x : Saiz) (rest : Bytes) (h : x.Wf) :
    decSaiz' (encSaiz x ++ rest) = some (x, rest) := by
  obtain ⟨h1, h2, h3, h4, h5, h6, h7, h8⟩ := h
  simp only [decSaiz', encSaiz, List.append_assoc, decU8_encU8 _ _ h1, decU24_encU24 _ _ h2,
    decOpt_encOpt_u32 _ _ _ h3, decOpt_encOpt_u32 _ _ _ h4, decU8_encU8 _ _ h5,
    decSaizTable_encSaizTable _ _ _ _ h6 h7 h8, andThen_some]

theorem decSaiz'_spec {bs : Bytes} {x : Saiz} {rest : Bytes} (h : decSaiz' bs = some (x, rest)) :
    x.Wf ∧ encSaiz x ++ rest = bs := by
  simp only [decSaiz', andThen_eq_some_iff] at h
  obtain ⟨v, b1, h1, f, b2, h2, a, b3, h3, b, b4, h4, d, b5, h5, ⟨n, ss⟩, b6, h6, h8⟩ := h
  simp only [Option.some.injEq, Prod.mk.injEq] at h8
  obtain ⟨rfl, rfl⟩ := h8
  obtain ⟨h3a, h3b⟩ := decOpt_u32_spec h3
  obtain ⟨h4a, h4b⟩ := decOpt_u32_spec h4
  obtain ⟨h6a, h6b, h6c, h6d⟩ := decSaizTable_spec h6
  refine ⟨⟨decU8_range h1, decU24_range h2, h3a, h4a, decU8_range h5, h6a, h6b, h6c⟩, ?_⟩
  simp only [encSaiz, List.append_assoc]
  rw [h6d, encU8_decU8 h5, h4b, h3b, encU24_decU24 h2, encU8_decU8 h1]

theorem decSaiz_encSaiz (x : Saiz) (h : x.Wf) : decSaiz (encSaiz x) = some x :=
  exact_roundtrip (decSaiz'_encSaiz x [] h)

theorem encSaiz_decSaiz {bs : Bytes} {x : Saiz} (h : decSaiz bs = some x) :
    x.Wf ∧ encSaiz x = bs := by
  simpa using decSaiz'_spec (exact_spec h)

/-! ### saio -/
theorem decSaio'_encSaio (x : Saio) (rest : Bytes) (h : x.Wf) :
    decSaio' (encSaio x ++ rest) = some (x, rest) := by
  obtain ⟨h1, h2, h3, h4, h5, h6⟩ := h
  have hm := decMany_encMany (encW (x.version != 0)) (decW (x.version != 0)) x.offsets rest
    (fun a ha r => decW_encW _ a r (h6 a ha))
  simp only [decSaio', encSaio, List.append_assoc, decU8_encU8 _ _ h1, decU24_encU24 _ _ h2,
    decOpt_encOpt_u32 _ _ _ h3, decOpt_encOpt_u32 _ _ _ h4, decU32_encU32 _ _ h5, hm, andThen_some]

theorem decSaio'_spec {bs : Bytes} {x : Saio} {rest : Bytes} (h : decSaio' bs = some (x, rest)) :
    x.Wf ∧ encSaio x ++ rest = bs := by
  simp only [decSaio', andThen_eq_some_iff] at h
  obtain ⟨v, b1, h1, f, b2, h2, a, b3, h3, b, b4, h4, n, b5, h5, os, b6, h6, h7⟩ := h
  simp only [Option.some.injEq, Prod.mk.injEq] at h7
  obtain ⟨rfl, rfl⟩ := h7
  obtain ⟨h3a, h3b⟩ := decOpt_u32_spec h3
  obtain ⟨h4a, h4b⟩ := decOpt_u32_spec h4
  obtain ⟨h6a, h6b, h6c⟩ := decMany_spec (encW (v != 0)) (decW (v != 0))
    (fun o => o < wBound (v != 0)) (fun bs a r h => decW_spec h) h6
  have hn := decU32_range h5
  refine ⟨⟨decU8_range h1, decU24_range h2, h3a, h4a, by simp only [h6a]; exact hn, h6b⟩, ?_⟩
  simp only [encSaio, List.append_assoc, h6a]
  rw [h6c, encU32_decU32 h5, h4b, h3b, encU24_decU24 h2, encU8_decU8 h1]

theorem decSaio_encSaio (x : Saio) (h : x.Wf) : decSaio (encSaio x) = some x :=
  exact_roundtrip (decSaio'_encSaio x [] h)

theorem encSaio_decSaio {bs : Bytes} {x : Saio} (h : decSaio bs = some x) :
    x.Wf ∧ encSaio x = bs := by
  simpa using decSaio'_spec (exact_spec h)

end DashLive.Boxes
