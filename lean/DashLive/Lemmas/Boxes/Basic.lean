import DashLive.Model.Boxes.Basic
import DashLive.Lemmas.Bytes
/-! Round-trip lemmas of the fixed-layout classes of `Model/Boxes/Basic.lean`. -/
namespace DashLive.Boxes
open DashLive.Bytes

theorem exact_of_prefix {α : Type} {d : Bytes → Option (α × Bytes)} {bs : Bytes} {a : α}
    (h : d bs = some (a, [])) : exact d bs = some a := by
  simp [exact, h]

theorem exact_spec {α : Type} {d : Bytes → Option (α × Bytes)} {bs : Bytes} {a : α}
    (h : exact d bs = some a) : d bs = some (a, []) := by
  unfold exact at h
  split at h
  · simp only [Option.some.injEq] at h; subst h; assumption
  · simp at h

/-! ### optional fields -/
theorem decOpt_encOpt (c : Bool) (enc : Nat → Bytes) (dec : Bytes → Option (Nat × Bytes))
    (v : Nat) (rest : Bytes)
    (hc : c = true → dec (enc v ++ rest) = some (v, rest)) (hn : c = false → v = 0) :
    decOpt c dec (encOpt c enc v ++ rest) = some (v, rest) := by
  cases c with
  | true => simpa [decOpt, encOpt] using hc rfl
  | false => simp [decOpt, encOpt, hn rfl]

theorem decOpt_spec (c : Bool) (enc : Nat → Bytes) (dec : Bytes → Option (Nat × Bytes))
    {bs : Bytes} {v : Nat} {rest : Bytes}
    (hdec : ∀ bs v r, dec bs = some (v, r) → enc v ++ r = bs)
    (h : decOpt c dec bs = some (v, rest)) :
    (c = false → v = 0) ∧ encOpt c enc v ++ rest = bs := by
  cases c with
  | true =>
    simp only [decOpt, if_true] at h
    exact ⟨by simp, by simpa [encOpt] using hdec _ _ _ h⟩
  | false =>
    simp only [decOpt, Bool.false_eq_true, if_false, Option.some.injEq, Prod.mk.injEq] at h
    obtain ⟨rfl, rfl⟩ := h
    simp [encOpt]

/-! ### mfhd -/
theorem decMfhd'_encMfhd (x : Mfhd) (rest : Bytes) (h : x.Wf) :
    decMfhd' (encMfhd x ++ rest) = some (x, rest) := by
  obtain ⟨h1, h2, h3⟩ := h
  simp only [decMfhd', encMfhd, List.append_assoc, decU8_encU8 _ _ h1, decU24_encU24 _ _ h2,
    decU32_encU32 _ _ h3, andThen_some]

theorem decMfhd'_spec {bs : Bytes} {x : Mfhd} {rest : Bytes} (h : decMfhd' bs = some (x, rest)) :
    x.Wf ∧ encMfhd x ++ rest = bs := by
  simp only [decMfhd', andThen_eq_some_iff] at h
  obtain ⟨v, b1, h1, f, b2, h2, s, b3, h3, h4⟩ := h
  simp only [Option.some.injEq, Prod.mk.injEq] at h4
  obtain ⟨rfl, rfl⟩ := h4
  refine ⟨⟨decU8_range h1, decU24_range h2, decU32_range h3⟩, ?_⟩
  simp only [encMfhd, List.append_assoc]
  rw [encU32_decU32 h3, encU24_decU24 h2, encU8_decU8 h1]

theorem decMfhd_encMfhd (x : Mfhd) (h : x.Wf) : decMfhd (encMfhd x) = some x := by
  have := decMfhd'_encMfhd x [] h
  rw [List.append_nil] at this
  exact exact_of_prefix this

theorem encMfhd_decMfhd {bs : Bytes} {x : Mfhd} (h : decMfhd bs = some x) :
    x.Wf ∧ encMfhd x = bs := by
  have := decMfhd'_spec (exact_spec h)
  simpa using this

/-- derive the whole-payload pair from the prefix pair -/
theorem exact_roundtrip {α : Type} {d : Bytes → Option (α × Bytes)} {enc : α → Bytes} {x : α}
    (h : d (enc x ++ []) = some (x, [])) : exact d (enc x) = some x := by
  rw [List.append_nil] at h; exact exact_of_prefix h

/-! ### version-selected width -/
theorem decW_encW (w : Bool) (v : Nat) (rest : Bytes) (h : v < wBound w) :
    decW w (encW w v ++ rest) = some (v, rest) := by
  cases w with
  | true => exact decU64_encU64 v rest (by simpa [wBound] using h)
  | false => exact decU32_encU32 v rest (by simpa [wBound] using h)

theorem decW_spec {w : Bool} {bs : Bytes} {v : Nat} {rest : Bytes}
    (h : decW w bs = some (v, rest)) : v < wBound w ∧ encW w v ++ rest = bs := by
  cases w with
  | true => exact ⟨by simpa [wBound] using decU64_range h, encU64_decU64 h⟩
  | false => exact ⟨by simpa [wBound] using decU32_range h, encU32_decU32 h⟩

theorem encW_length (w : Bool) (v : Nat) : (encW w v).length = if w then 8 else 4 := by
  cases w <;> simp [encW]

/-! ### tfdt -/
theorem decTfdt'_encTfdt (x : Tfdt) (rest : Bytes) (h : x.Wf) :
    decTfdt' (encTfdt x ++ rest) = some (x, rest) := by
  obtain ⟨h1, h2, h3⟩ := h
  simp only [decTfdt', encTfdt, List.append_assoc, decU8_encU8 _ _ h1, decU24_encU24 _ _ h2,
    decW_encW _ _ _ h3, andThen_some]

theorem decTfdt'_spec {bs : Bytes} {x : Tfdt} {rest : Bytes} (h : decTfdt' bs = some (x, rest)) :
    x.Wf ∧ encTfdt x ++ rest = bs := by
  simp only [decTfdt', andThen_eq_some_iff] at h
  obtain ⟨v, b1, h1, f, b2, h2, t, b3, h3, h4⟩ := h
  simp only [Option.some.injEq, Prod.mk.injEq] at h4
  obtain ⟨rfl, rfl⟩ := h4
  obtain ⟨h3a, h3b⟩ := decW_spec h3
  refine ⟨⟨decU8_range h1, decU24_range h2, h3a⟩, ?_⟩
  simp only [encTfdt, List.append_assoc]
  rw [h3b, encU24_decU24 h2, encU8_decU8 h1]

theorem decTfdt_encTfdt (x : Tfdt) (h : x.Wf) : decTfdt (encTfdt x) = some x :=
  exact_roundtrip (decTfdt'_encTfdt x [] h)

theorem encTfdt_decTfdt {bs : Bytes} {x : Tfdt} (h : decTfdt bs = some x) :
    x.Wf ∧ encTfdt x = bs := by
  simpa using decTfdt'_spec (exact_spec h)

theorem encTfdt_length (x : Tfdt) :
    (encTfdt x).length = if x.version = 1 then 12 else 8 := by
  simp only [encTfdt, List.length_append, encU8_length, encU24_length, encW_length]
  by_cases h : x.version = 1 <;> simp [h]

/-! ### mehd -/
theorem decMehd'_encMehd (x : Mehd) (rest : Bytes) (h : x.Wf) :
    decMehd' (encMehd x ++ rest) = some (x, rest) := by
  obtain ⟨h1, h2, h3⟩ := h
  simp only [decMehd', encMehd, List.append_assoc, decU8_encU8 _ _ h1, decU24_encU24 _ _ h2,
    decW_encW _ _ _ h3, andThen_some]

theorem decMehd'_spec {bs : Bytes} {x : Mehd} {rest : Bytes} (h : decMehd' bs = some (x, rest)) :
    x.Wf ∧ encMehd x ++ rest = bs := by
  simp only [decMehd', andThen_eq_some_iff] at h
  obtain ⟨v, b1, h1, f, b2, h2, t, b3, h3, h4⟩ := h
  simp only [Option.some.injEq, Prod.mk.injEq] at h4
  obtain ⟨rfl, rfl⟩ := h4
  obtain ⟨h3a, h3b⟩ := decW_spec h3
  refine ⟨⟨decU8_range h1, decU24_range h2, h3a⟩, ?_⟩
  simp only [encMehd, List.append_assoc]
  rw [h3b, encU24_decU24 h2, encU8_decU8 h1]

theorem decMehd_encMehd (x : Mehd) (h : x.Wf) : decMehd (encMehd x) = some x :=
  exact_roundtrip (decMehd'_encMehd x [] h)

theorem encMehd_decMehd {bs : Bytes} {x : Mehd} (h : decMehd bs = some x) :
    x.Wf ∧ encMehd x = bs := by
  simpa using decMehd'_spec (exact_spec h)

/-! ### trex -/
theorem decTrex'_encTrex (x : Trex) (rest : Bytes) (h : x.Wf) :
    decTrex' (encTrex x ++ rest) = some (x, rest) := by
  obtain ⟨h1, h2, h3, h4, h5, h6, h7⟩ := h
  simp only [decTrex', encTrex, List.append_assoc, decU8_encU8 _ _ h1, decU24_encU24 _ _ h2,
    decU32_encU32 _ _ h3, decU32_encU32 _ _ h4, decU32_encU32 _ _ h5, decU32_encU32 _ _ h6,
    decU32_encU32 _ _ h7, andThen_some]

theorem decTrex'_spec {bs : Bytes} {x : Trex} {rest : Bytes} (h : decTrex' bs = some (x, rest)) :
    x.Wf ∧ encTrex x ++ rest = bs := by
  simp only [decTrex', andThen_eq_some_iff] at h
  obtain ⟨v, b1, h1, f, b2, h2, a, b3, h3, b, b4, h4, c, b5, h5, d, b6, h6, e, b7, h7, h8⟩ := h
  simp only [Option.some.injEq, Prod.mk.injEq] at h8
  obtain ⟨rfl, rfl⟩ := h8
  refine ⟨⟨decU8_range h1, decU24_range h2, decU32_range h3, decU32_range h4, decU32_range h5,
    decU32_range h6, decU32_range h7⟩, ?_⟩
  simp only [encTrex, List.append_assoc]
  rw [encU32_decU32 h7, encU32_decU32 h6, encU32_decU32 h5, encU32_decU32 h4, encU32_decU32 h3,
    encU24_decU24 h2, encU8_decU8 h1]

theorem decTrex_encTrex (x : Trex) (h : x.Wf) : decTrex (encTrex x) = some x :=
  exact_roundtrip (decTrex'_encTrex x [] h)

theorem encTrex_decTrex {bs : Bytes} {x : Trex} (h : decTrex bs = some x) :
    x.Wf ∧ encTrex x = bs := by
  simpa using decTrex'_spec (exact_spec h)

/-! ### tenc -/
theorem decTenc'_encTenc (x : Tenc) (rest : Bytes) (h : x.Wf) :
    decTenc' (encTenc x ++ rest) = some (x, rest) := by
  obtain ⟨h1, h2, h3, h4, h5⟩ := h
  simp only [decTenc', encTenc, List.append_assoc, decU8_encU8 _ _ h1, decU24_encU24 _ _ h2,
    decU24_encU24 _ _ h3, decU8_encU8 _ _ h4, takeN_append' 16 _ _ h5, andThen_some]

theorem decTenc'_spec {bs : Bytes} {x : Tenc} {rest : Bytes} (h : decTenc' bs = some (x, rest)) :
    x.Wf ∧ encTenc x ++ rest = bs := by
  simp only [decTenc', andThen_eq_some_iff] at h
  obtain ⟨v, b1, h1, f, b2, h2, a, b3, h3, b, b4, h4, k, b5, h5, h6⟩ := h
  simp only [Option.some.injEq, Prod.mk.injEq] at h6
  obtain ⟨rfl, rfl⟩ := h6
  obtain ⟨hk, hk'⟩ := takeN_spec h5
  refine ⟨⟨decU8_range h1, decU24_range h2, decU24_range h3, decU8_range h4, hk⟩, ?_⟩
  simp only [encTenc, List.append_assoc]
  rw [hk', encU8_decU8 h4, encU24_decU24 h3, encU24_decU24 h2, encU8_decU8 h1]

theorem decTenc_encTenc (x : Tenc) (h : x.Wf) : decTenc (encTenc x) = some x :=
  exact_roundtrip (decTenc'_encTenc x [] h)

theorem encTenc_decTenc {bs : Bytes} {x : Tenc} (h : decTenc bs = some x) :
    x.Wf ∧ encTenc x = bs := by
  simpa using decTenc'_spec (exact_spec h)

/-! ### ftyp / styp -/
theorem encMany_id_length (l : List Bytes) (h : ∀ b ∈ l, b.length = 4) :
    (encMany id l).length = 4 * l.length :=
  encMany_length_const id 4 l h

theorem decBrands_encMany (l : List Bytes) (h : ∀ b ∈ l, b.length = 4) :
    decBrands (encMany id l) = some l := by
  have hl := encMany_id_length l h
  have hm : decMany (takeN 4) l.length (encMany id l ++ []) = some (l, []) :=
    decMany_encMany id (takeN 4) _ [] (fun a ha r => takeN_append' 4 a r (h a ha))
  rw [List.append_nil] at hm
  have h1 : 4 * l.length % 4 = 0 := by omega
  have h2 : 4 * l.length / 4 = l.length := by omega
  unfold decBrands
  rw [hl, h1, h2, hm]
  simp

theorem decBrands_spec {bs : Bytes} {l : List Bytes} (h : decBrands bs = some l) :
    (∀ b ∈ l, b.length = 4) ∧ encMany id l = bs := by
  unfold decBrands at h
  split at h
  · simp at h
  · rename_i hmod
    cases hm : decMany (takeN 4) (bs.length / 4) bs with
    | none => simp [hm] at h
    | some p =>
      obtain ⟨brands, r⟩ := p
      simp only [hm, Option.some.injEq] at h
      subst h
      obtain ⟨hlen, hP, henc⟩ := decMany_spec (α := Bytes) id (takeN 4) (fun b => b.length = 4)
        (fun bs a r h => by simpa using takeN_spec h) hm
      have hr : r = [] := by
        have h5 := congrArg List.length henc
        simp only [List.length_append, encMany_id_length brands hP, hlen] at h5
        have : r.length = 0 := by omega
        exact List.length_eq_zero_iff.mp this
      subst hr
      rw [List.append_nil] at henc
      exact ⟨hP, henc⟩

theorem decFtyp_encFtyp (x : Ftyp) (h : x.Wf) : decFtyp (encFtyp x) = some x := by
  obtain ⟨h1, h2, h3⟩ := h
  simp only [decFtyp, encFtyp, takeN_append' 4 _ _ h1, decU32_encU32 _ _ h2, andThen_some,
    decBrands_encMany _ h3]

theorem encFtyp_decFtyp {bs : Bytes} {x : Ftyp} (h : decFtyp bs = some x) :
    x.Wf ∧ encFtyp x = bs := by
  simp only [decFtyp, andThen_eq_some_iff] at h
  obtain ⟨mj, b1, h1, mn, b2, h2, h3⟩ := h
  cases hb : decBrands b2 with
  | none => simp [hb] at h3
  | some brands =>
    simp only [hb, Option.some.injEq] at h3
    subst h3
    obtain ⟨hk, hk'⟩ := takeN_spec h1
    obtain ⟨hP, henc⟩ := decBrands_spec hb
    refine ⟨⟨hk, decU32_range h2, hP⟩, ?_⟩
    simp only [encFtyp]
    rw [henc, encU32_decU32 h2, hk']

/-! ### the tfdt version switch (mp4.py:2203-2212) -/
theorem tfdtAssign_version (x : Tfdt) (v : Nat) (h0 : x.version = 0) :
    (tfdtAssign x v).1.version = (if 4294967296 ≤ v then 1 else 0) := by
  unfold tfdtAssign; split <;> rename_i h <;> simp_all

theorem tfdtAssign_wf (x : Tfdt) (v : Nat) (hx : x.Wf) (h0 : x.version = 0)
    (hv : v < 18446744073709551616) : (tfdtAssign x v).1.Wf := by
  obtain ⟨h1, h2, _⟩ := hx
  unfold tfdtAssign Tfdt.Wf wBound
  split <;> rename_i h <;> simp_all <;> omega

end DashLive.Boxes
