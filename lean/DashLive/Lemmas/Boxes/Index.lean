import DashLive.Model.Boxes.Index
import DashLive.Lemmas.Boxes.Basic
/-! Round-trip lemmas of `sidx` and `emsg` (`Model/Boxes/Index.lean`). -/
namespace DashLive.Boxes
open DashLive.Bytes

/-! ### sidx references (bit packing) -/
theorem pack31 (a b : Nat) (h1 : a < 2) (h2 : b < 2147483648) :
    a * 2147483648 + b < 4294967296 ∧ (a * 2147483648 + b) / 2147483648 = a ∧
    (a * 2147483648 + b) % 2147483648 = b := by omega

theorem pack1_3_28 (s t d : Nat) (h1 : s < 2) (h2 : t < 8) (h3 : d < 268435456) :
    s * 2147483648 + t * 268435456 + d < 4294967296 ∧
    (s * 2147483648 + t * 268435456 + d) / 2147483648 = s ∧
    (s * 2147483648 + t * 268435456 + d) / 268435456 % 8 = t ∧
    (s * 2147483648 + t * 268435456 + d) % 268435456 = d := by omega

theorem unpack31 (a : Nat) (h : a < 4294967296) :
    a / 2147483648 < 2 ∧ a % 2147483648 < 2147483648 ∧
    a / 2147483648 * 2147483648 + a % 2147483648 = a := by omega

theorem unpack1_3_28 (c : Nat) (h : c < 4294967296) :
    c / 2147483648 < 2 ∧ c / 268435456 % 8 < 8 ∧ c % 268435456 < 268435456 ∧
    c / 2147483648 * 2147483648 + c / 268435456 % 8 * 268435456 + c % 268435456 = c := by omega

theorem decSidxRef_encSidxRef (r : SidxRef) (rest : Bytes) (h : r.Wf) :
    decSidxRef (encSidxRef r ++ rest) = some (r, rest) := by
  obtain ⟨rt, rs, d, s, t, dt⟩ := r
  obtain ⟨h1, h2, h3, h4, h5, h6⟩ := h
  obtain ⟨ha, e1, e2⟩ := pack31 rt rs h1 h2
  obtain ⟨hc, e3, e4, e5⟩ := pack1_3_28 s t dt h4 h5 h6
  simp only [decSidxRef, encSidxRef, List.append_assoc, decU32_encU32 _ _ ha,
    decU32_encU32 _ _ h3, decU32_encU32 _ _ hc, andThen_some, e1, e2, e3, e4, e5]

theorem decSidxRef_spec {bs : Bytes} {r : SidxRef} {rest : Bytes}
    (h : decSidxRef bs = some (r, rest)) : r.Wf ∧ encSidxRef r ++ rest = bs := by
  simp only [decSidxRef, andThen_eq_some_iff] at h
  obtain ⟨a, b1, h1, d, b2, h2, c, b3, h3, h4⟩ := h
  simp only [Option.some.injEq, Prod.mk.injEq] at h4
  obtain ⟨rfl, rfl⟩ := h4
  obtain ⟨a1, a2, a3⟩ := unpack31 a (decU32_range h1)
  obtain ⟨c1, c2, c3, c4⟩ := unpack1_3_28 c (decU32_range h3)
  refine ⟨⟨a1, a2, decU32_range h2, c1, c2, c3⟩, ?_⟩
  simp only [encSidxRef, List.append_assoc]
  rw [a3, c4, encU32_decU32 h3, encU32_decU32 h2, encU32_decU32 h1]

/-! ### sidx -/
theorem decSidxR'_encSidx (x : Sidx) (rest : Bytes) (h : x.Wf) :
    decSidxR' (encSidx x ++ rest) = some ((x, 0), rest) := by
  obtain ⟨h1, h2, h3, h4, h5, h6, h7, h8⟩ := h
  have hm := decMany_encMany encSidxRef decSidxRef x.references rest
    (fun a ha r => decSidxRef_encSidxRef a r (h8 a ha))
  have h0 : (0 : Nat) < 65536 := by decide
  simp only [decSidxR', encSidx, List.append_assoc, decU8_encU8 _ _ h1, decU24_encU24 _ _ h2,
    decU32_encU32 _ _ h3, decU32_encU32 _ _ h4, decW_encW _ _ _ h5, decW_encW _ _ _ h6,
    decU16_encU16 _ _ h0, decU16_encU16 _ _ h7, hm, andThen_some]

theorem decSidxR'_spec {bs : Bytes} {x : Sidx} {res : Nat} {rest : Bytes}
    (h : decSidxR' bs = some ((x, res), rest)) :
    x.Wf ∧ (res = 0 → encSidx x ++ rest = bs) := by
  simp only [decSidxR', andThen_eq_some_iff] at h
  obtain ⟨v, b1, h1, f, b2, h2, rid, b3, h3, ts, b4, h4, ept, b5, h5, fo, b6, h6,
    rsv, b7, h7, n, b8, h8, refs, b9, h9, h10⟩ := h
  simp only [Option.some.injEq, Prod.mk.injEq] at h10
  obtain ⟨⟨rfl, rfl⟩, rfl⟩ := h10
  obtain ⟨h5a, h5b⟩ := decW_spec h5
  obtain ⟨h6a, h6b⟩ := decW_spec h6
  obtain ⟨h9a, h9b, h9c⟩ := decMany_spec encSidxRef decSidxRef (fun r => r.Wf)
    (fun bs a r h => decSidxRef_spec h) h9
  have hn := decU16_range h8
  refine ⟨⟨decU8_range h1, decU24_range h2, decU32_range h3, decU32_range h4, h5a, h6a,
    by simp only [h9a]; exact hn, h9b⟩, ?_⟩
  intro hres
  subst hres
  simp only [encSidx, List.append_assoc, h9a]
  rw [h9c, encU16_decU16 h8, encU16_decU16 h7, h6b, h5b, encU32_decU32 h4, encU32_decU32 h3,
    encU24_decU24 h2, encU8_decU8 h1]

theorem decSidx_encSidx (x : Sidx) (h : x.Wf) : decSidx (encSidx x) = some x := by
  have h1 := decSidxR'_encSidx x [] h
  rw [List.append_nil] at h1
  simp [decSidx, exact_of_prefix h1]

/-- canonical input = the 16 reserved bits are zero -/
theorem encSidx_decSidx {bs : Bytes} {x : Sidx} (h : decSidx bs = some x)
    (hr : sidxReserved bs = some 0) : x.Wf ∧ encSidx x = bs := by
  unfold decSidx at h
  unfold sidxReserved at hr
  cases he : exact decSidxR' bs with
  | none => simp [he] at h
  | some p =>
    obtain ⟨y, res⟩ := p
    simp only [he, Option.map_some, Option.some.injEq] at h hr
    subst h; subst hr
    have := decSidxR'_spec (exact_spec he)
    exact ⟨this.1, by simpa using this.2 rfl⟩

/-! ### emsg -/
theorem decEmsg_encEmsg (x : Emsg) (h : x.Wf) : decEmsg (encEmsg x) = some x := by
  obtain ⟨h1, h2, h3, h4, h5, h6, h7, h8⟩ := h
  have hv : x.version < 256 := by omega
  by_cases h0 : x.version = 0
  · simp only [h0, if_true] at h8
    obtain ⟨h8a, h8b⟩ := h8
    simp only [decEmsg, encEmsg, h0, if_true, decU8_encU8 0 _ (by decide),
      decU24_encU24 _ _ h2, andThen_some, decEmsgV0, decCStr_encCStr _ _ h3,
      decCStr_encCStr _ _ h4, decU32_encU32 _ _ h5, decU32_encU32 _ _ h8a,
      decU32_encU32 _ _ h6, decU32_encU32 _ _ h7]
    cases x; simp_all
  · have h11 : x.version = 1 := by omega
    simp only [h0, if_false] at h8
    obtain ⟨h8a, h8b⟩ := h8
    have h10 : ¬ ((1 : Nat) = 0) := by decide
    simp only [decEmsg, encEmsg, h11, h10, if_true, if_false,
      decU8_encU8 1 _ (by decide), decU24_encU24 _ _ h2, andThen_some, decEmsgV1,
      decCStr_encCStr _ _ h3, decCStr_encCStr _ _ h4, decU32_encU32 _ _ h5,
      decU64_encU64 _ _ h8a, decU32_encU32 _ _ h6, decU32_encU32 _ _ h7]
    cases x; simp_all

theorem encEmsg_decEmsg {bs : Bytes} {x : Emsg} (h : decEmsg bs = some x) :
    x.Wf ∧ encEmsg x = bs := by
  simp only [decEmsg, andThen_eq_some_iff] at h
  obtain ⟨v, b1, h1, f, b2, h2, h3⟩ := h
  by_cases h0 : v = 0
  · subst h0
    simp only [if_true, decEmsgV0, andThen_eq_some_iff] at h3
    obtain ⟨s, b3, h4, val, b4, h5, ts, b5, h6, ptd, b6, h7, dur, b7, h8, eid, b8, h9, h10⟩ := h3
    simp only [Option.some.injEq] at h10
    subst h10
    obtain ⟨h4a, h4b⟩ := decCStr_spec h4
    obtain ⟨h5a, h5b⟩ := decCStr_spec h5
    refine ⟨⟨by simp, decU24_range h2, h4a, h5a, decU32_range h6, decU32_range h8,
      decU32_range h9, by simpa using decU32_range h7⟩, ?_⟩
    simp only [encEmsg, if_true]
    rw [encU32_decU32 h9, encU32_decU32 h8, encU32_decU32 h7, encU32_decU32 h6, h5b, h4b,
      encU24_decU24 h2, encU8_decU8 h1]
  · simp only [h0, if_false] at h3
    by_cases h11 : v = 1
    · subst h11
      simp only [if_true, decEmsgV1, andThen_eq_some_iff] at h3
      obtain ⟨ts, b3, h4, pt, b4, h5, dur, b5, h6, eid, b6, h7, s, b7, h8, val, b8, h9, h10⟩ := h3
      simp only [Option.some.injEq] at h10
      subst h10
      obtain ⟨h8a, h8b⟩ := decCStr_spec h8
      obtain ⟨h9a, h9b⟩ := decCStr_spec h9
      refine ⟨⟨by simp, decU24_range h2, h8a, h9a, decU32_range h4, decU32_range h6,
        decU32_range h7, by simpa using decU64_range h5⟩, ?_⟩
      simp only [encEmsg, h0, if_false]
      rw [h9b, h8b, encU32_decU32 h7, encU32_decU32 h6, encU64_decU64 h5, encU32_decU32 h4,
        encU24_decU24 h2, encU8_decU8 h1]
    · simp [h11] at h3

end DashLive.Boxes
