import DashLive.Model.Boxes.Cenc
import DashLive.Lemmas.Boxes.Basic
/-! Round-trip lemmas of `senc` (given its context) and `pssh` (`Model/Boxes/Cenc.lean`). -/
namespace DashLive.Boxes
open DashLive.Bytes

/-! ### sub-samples -/
theorem decSubSample_encSubSample (s : SubSample) (rest : Bytes) (h : s.Wf) :
    decSubSample (encSubSample s ++ rest) = some (s, rest) := by
  obtain ⟨h1, h2⟩ := h
  simp only [decSubSample, encSubSample, List.append_assoc, decU16_encU16 _ _ h1,
    decU32_encU32 _ _ h2, andThen_some]

theorem decSubSample_spec {bs : Bytes} {s : SubSample} {rest : Bytes}
    (h : decSubSample bs = some (s, rest)) : s.Wf ∧ encSubSample s ++ rest = bs := by
  simp only [decSubSample, andThen_eq_some_iff] at h
  obtain ⟨c, b1, h1, e, b2, h2, h3⟩ := h
  simp only [Option.some.injEq, Prod.mk.injEq] at h3
  obtain ⟨rfl, rfl⟩ := h3
  refine ⟨⟨decU16_range h1, decU32_range h2⟩, ?_⟩
  simp only [encSubSample, List.append_assoc]
  rw [encU32_decU32 h2, encU16_decU16 h1]

/-- what `sencSampleOk` says about the sub-sample table -/
def subsOk (w : Bool) (ivSize size : Nat) (subs : List SubSample) : Prop :=
  (∀ u ∈ subs, u.Wf) ∧
  (if w then
     (if subs.isEmpty then size < ivSize + 2
      else ivSize + 2 ≤ size ∧ subs.length < 65536 ∧ subs.length * 6 ≤ size)
   else subs = [])

theorem decSubs_encSubs (w : Bool) (ivSize size : Nat) (subs : List SubSample) (rest : Bytes)
    (h : subsOk w ivSize size subs) :
    decSubs w ivSize size (encSubs w subs ++ rest) = some (subs, rest) := by
  obtain ⟨hw, hc⟩ := h
  cases w with
  | false =>
    simp only [Bool.false_eq_true, if_false] at hc
    subst hc
    simp [decSubs, encSubs]
  | true =>
    simp only [if_true] at hc
    cases subs with
    | nil =>
      simp only [List.isEmpty_nil, if_true] at hc
      have : ¬ (ivSize + 2 ≤ size) := by omega
      simp [decSubs, encSubs, this]
    | cons u us =>
      simp only [List.isEmpty_cons, Bool.false_eq_true, if_false] at hc
      obtain ⟨h1, h2, h3⟩ := hc
      have hm := decMany_encMany encSubSample decSubSample (u :: us) rest
        (fun a ha r => decSubSample_encSubSample a r (hw a ha))
      have h4 : ¬ (size < (u :: us).length * 6) := by omega
      simp only [decSubs, encSubs, Bool.true_and, decide_eq_true_eq, h1, if_true,
        List.isEmpty_cons, Bool.not_false, List.append_assoc, decU16_encU16 _ _ h2,
        andThen_some, h4, if_false, hm]

theorem decSencSample_encSencSample (w : Bool) (ivSize size : Nat) (s : SencSample) (rest : Bytes)
    (h : sencSampleOk w ivSize size s) :
    decSencSample w ivSize size (encSencSample w s ++ rest) = some (s, rest) := by
  obtain ⟨h1, _, h3, h4⟩ := h
  have hs : subsOk w ivSize size s.subsamples := ⟨h3, h4⟩
  simp only [decSencSample, encSencSample, List.append_assoc, takeN_append' ivSize _ _ h1,
    andThen_some, decSubs_encSubs w ivSize size _ rest hs]

theorem decSencSamples_encMany (w : Bool) (ivSize : Nat) (c : SencCtx) (l : List SencSample)
    (i : Nat) (rest : Bytes) (h : sencSamplesOk w ivSize c i l) :
    decSencSamples w ivSize c l.length i (encMany (encSencSample w) l ++ rest) = some (l, rest) := by
  induction l generalizing i with
  | nil => simp [decSencSamples, encMany]
  | cons s ss ih =>
    obtain ⟨h1, h2⟩ := h
    cases hsz : c.sizeAt i with
    | none => simp [hsz] at h1
    | some size =>
      simp only [hsz] at h1
      have hne : size ≠ 0 := h1.2.1
      simp only [List.length_cons, decSencSamples, hsz, hne, if_false, encMany, List.append_assoc,
        decSencSample_encSencSample w ivSize size s _ h1, andThen_some, ih (i+1) h2]

theorem sencFlags_of_wf (c : SencCtx) (x : Senc) (h : x.Wf c) : sencFlags x = x.flags := by
  obtain ⟨_, _, _, _, hs⟩ := h
  unfold sencFlags
  cases hb : hasBit x.flags 1 with
  | true => simp
  | false =>
    rw [hb] at hs
    have : ∀ (i : Nat) (l : List SencSample), sencSamplesOk false x.iv_size c i l →
        l.any (fun s => !s.subsamples.isEmpty) = false := by
      intro i l
      induction l generalizing i with
      | nil => simp
      | cons s ss ih =>
        intro h
        obtain ⟨h1, h2⟩ := h
        cases hsz : c.sizeAt i with
        | none => simp [hsz] at h1
        | some size =>
          simp only [hsz] at h1
          have : s.subsamples = [] := by simpa using h1.2.2.2
          simp [this, ih (i+1) h2]
    simp [this 0 x.samples hs]

theorem decSencTail_encSencTail (w : Bool) (iv : Nat) (c : SencCtx) (l : List SencSample)
    (rest : Bytes) (hl : l.length < 4294967296) (hiv : iv = 8 ∨ iv = 16)
    (h : sencSamplesOk w iv c 0 l) :
    decSencTail w iv c (encSencTail w l ++ rest) = some (l, rest) := by
  have hn : ¬ (iv ≠ 8 ∧ iv ≠ 16) := by omega
  simp only [decSencTail, encSencTail, List.append_assoc, decU32_encU32 _ _ hl, andThen_some, hn,
    if_false, decSencSamples_encMany w iv c l 0 rest h]

theorem decSenc'_encSenc (c : SencCtx) (x : Senc) (rest : Bytes) (h : x.Wf c) :
    decSenc' c (encSenc x ++ rest) = some (x, rest) := by
  have hf := sencFlags_of_wf c x h
  obtain ⟨h1, h2, h3, h4, h5⟩ := h
  unfold encSenc
  rw [hf]
  cases hb : hasBit x.flags 0 with
  | true =>
    simp only [hb, if_true] at h4
    obtain ⟨h4a, h4b, h4c⟩ := h4
    have hiv : x.iv_size < 256 := by omega
    have hiv0 : ¬ x.iv_size = 0 := by omega
    simp only [decSenc', encSencWith, List.append_assoc, decU8_encU8 _ _ h1, decU24_encU24 _ _ h2,
      andThen_some, decSencBody, hb, if_true, encSencOverride, decU24_encU24 _ _ h4a,
      decU8_encU8 _ _ hiv, takeN_append' 16 _ _ h4c, hiv0, if_false,
      decSencTail_encSencTail _ _ c _ rest h3 h4b h5]
  | false =>
    simp only [hb, Bool.false_eq_true, if_false] at h4
    obtain ⟨h4a, h4b, h4c, h4d⟩ := h4
    rw [h4b] at h5
    simp only [decSenc', encSencWith, List.append_assoc, decU8_encU8 _ _ h1, decU24_encU24 _ _ h2,
      andThen_some, decSencBody, hb, Bool.false_eq_true, if_false, encSencOverride,
      List.nil_append, decSencTail_encSencTail _ _ c _ rest h3 h4c h5]
    cases x; simp_all

theorem decSenc_encSenc (c : SencCtx) (x : Senc) (h : x.Wf c) :
    decSenc c (encSenc x) = some x :=
  exact_roundtrip (d := decSenc' c) (decSenc'_encSenc c x [] h)

/-! ### pssh -/
theorem decPsshKids_encPsshKids (p : Bool) (kids : List Bytes) (rest : Bytes)
    (h1 : p = false → kids = []) (h2 : kids.length < 4294967296) (h3 : ∀ k ∈ kids, k.length = 16) :
    decPsshKids p (encPsshKids p kids ++ rest) = some (kids, rest) := by
  cases p with
  | false => simp [decPsshKids, encPsshKids, h1 rfl]
  | true =>
    have hm := decMany_encMany id (takeN 16) kids rest (fun a ha r => takeN_append' 16 a r (h3 a ha))
    simp only [decPsshKids, encPsshKids, if_true, List.append_assoc, decU32_encU32 _ _ h2,
      andThen_some, hm]

theorem decPsshKids_spec {p : Bool} {bs : Bytes} {kids : List Bytes} {rest : Bytes}
    (h : decPsshKids p bs = some (kids, rest)) :
    (p = false → kids = []) ∧ kids.length < 4294967296 ∧ (∀ k ∈ kids, k.length = 16) ∧
    encPsshKids p kids ++ rest = bs := by
  cases p with
  | false =>
    simp only [decPsshKids, Bool.false_eq_true, if_false, Option.some.injEq, Prod.mk.injEq] at h
    obtain ⟨rfl, rfl⟩ := h
    simp [encPsshKids]
  | true =>
    simp only [decPsshKids, if_true, andThen_eq_some_iff] at h
    obtain ⟨n, b1, h1, h2⟩ := h
    obtain ⟨ha, hb, hc⟩ := decMany_spec (α := Bytes) id (takeN 16) (fun k => k.length = 16)
      (fun bs a r h => by simpa using takeN_spec h) h2
    have := decU32_range h1
    refine ⟨by simp, by omega, hb, ?_⟩
    simp only [encPsshKids, if_true, List.append_assoc, ha]
    rw [hc, encU32_decU32 h1]

theorem decPssh'_encPssh (x : Pssh) (rest : Bytes) (h : x.Wf) :
    decPssh' (encPssh x ++ rest) = some (x, rest) := by
  obtain ⟨h1, h2, h3, h4, h5, h6, h7⟩ := h
  have hk : decide (0 < x.version) = false → x.key_ids = [] := by
    intro hv; apply h4; simpa using hv
  simp only [decPssh', encPssh, List.append_assoc, decU8_encU8 _ _ h1, decU24_encU24 _ _ h2,
    takeN_append' 16 _ _ h3, decPsshKids_encPsshKids _ _ _ hk h5 h6, decU32_encU32 _ _ h7,
    takeN_append, andThen_some]

theorem decPssh'_spec {bs : Bytes} {x : Pssh} {rest : Bytes} (h : decPssh' bs = some (x, rest)) :
    x.Wf ∧ encPssh x ++ rest = bs := by
  simp only [decPssh', andThen_eq_some_iff] at h
  obtain ⟨v, b1, h1, f, b2, h2, sys, b3, h3, kids, b4, h4, dl, b5, h5, data, b6, h6, h7⟩ := h
  simp only [Option.some.injEq, Prod.mk.injEq] at h7
  obtain ⟨rfl, rfl⟩ := h7
  obtain ⟨h3a, h3b⟩ := takeN_spec h3
  obtain ⟨h4a, h4b, h4c, h4d⟩ := decPsshKids_spec h4
  obtain ⟨h6a, h6b⟩ := takeN_spec h6
  have hdl := decU32_range h5
  refine ⟨⟨decU8_range h1, decU24_range h2, h3a, ?_, h4b, h4c, by simp only [h6a]; exact hdl⟩, ?_⟩
  · intro hv; apply h4a; simp only at hv; simp [hv]
  · simp only [encPssh, List.append_assoc, h6a]
    rw [h6b, encU32_decU32 h5, h4d, h3b, encU24_decU24 h2, encU8_decU8 h1]

theorem decPssh_encPssh (x : Pssh) (h : x.Wf) : decPssh (encPssh x) = some x :=
  exact_roundtrip (decPssh'_encPssh x [] h)

theorem encPssh_decPssh {bs : Bytes} {x : Pssh} (h : decPssh bs = some x) :
    x.Wf ∧ encPssh x = bs := by
  simpa using decPssh'_spec (exact_spec h)

end DashLive.Boxes
