import DashLive.Model.PlayReady
/-!
Helper lemmas for C11 (and the pssh framing reused by C10) about
`Model/PlayReady.lean`: integer packing round trips, the 16-byte case split, the
mutation loop of `generate_content_key`, PRO / pssh / UTF-16 round trips.
Core tactics only.
-/
namespace DashLive.PlayReady

theorem len16 (g : Bytes) (h : g.length = 16) :
    ∃ a0 a1 a2 a3 a4 a5 a6 a7 a8 a9 a10 a11 a12 a13 a14 a15,
      g = [a0, a1, a2, a3, a4, a5, a6, a7, a8, a9, a10, a11, a12, a13, a14, a15] := by
  match g, h with
  | [a0, a1, a2, a3, a4, a5, a6, a7, a8, a9, a10, a11, a12, a13, a14, a15], _ =>
    exact ⟨a0, a1, a2, a3, a4, a5, a6, a7, a8, a9, a10, a11, a12, a13, a14, a15, rfl⟩

theorem leGuidBytes_explicit (a0 a1 a2 a3 a4 a5 a6 a7 a8 a9 a10 a11 a12 a13 a14 a15 : UInt8) :
    leGuidBytes [a0, a1, a2, a3, a4, a5, a6, a7, a8, a9, a10, a11, a12, a13, a14, a15]
      = [a3, a2, a1, a0, a5, a4, a7, a6, a8, a9, a10, a11, a12, a13, a14, a15] := rfl

theorem leGuidBytes_length (g : Bytes) : (leGuidBytes g).length = g.length := by
  simp [leGuidBytes]; omega

/-- the mutation loop builds the list of the per-index values -/
theorem foldl_set_range (f : Nat → UInt8) (n : Nat) (init : Bytes) (h : init.length = n) :
    ∀ m, m ≤ n → (List.range m).foldl (fun key i => key.set i (f i)) init
      = (List.range m).map f ++ init.drop m := by
  intro m
  induction m with
  | zero => intro _; simp
  | succ m ih =>
    intro hm
    rw [List.range_succ, List.foldl_append, ih (by omega)]
    simp only [List.foldl_cons, List.foldl_nil, List.map_append, List.map_cons, List.map_nil]
    have hl : ((List.range m).map f).length = m := by simp
    rw [List.set_append_right _ _ (by omega)]
    simp only [hl, Nat.sub_self]
    have : init.drop m = init[m]'(by omega) :: init.drop (m + 1) := by
      rw [List.drop_eq_getElem_cons]
    rw [this, List.set_cons_zero]
    simp

theorem le16val_le16 (n : Nat) (h : n < 65536) (rest : Bytes) : le16val (le16 n ++ rest) = n := by
  simp [le16val, le16]
  omega

theorem le32val_le32 (n : Nat) (h : n < 4294967296) (rest : Bytes) : le32val (le32 n ++ rest) = n := by
  simp [le32val, le32]
  omega

theorem be32val_be32 (n : Nat) (h : n < 4294967296) (rest : Bytes) : be32val (be32 n ++ rest) = n := by
  simp [be32val, be32]
  omega

theorem le16_length (n : Nat) : (le16 n).length = 2 := rfl
theorem le32_length (n : Nat) : (le32 n).length = 4 := rfl
theorem be32_length (n : Nat) : (be32 n).length = 4 := rfl

theorem drop_le16_append (n : Nat) (rest : Bytes) : (le16 n ++ rest).drop 2 = rest := by
  simp [le16]
theorem drop_le32_append (n : Nat) (rest : Bytes) : (le32 n ++ rest).drop 4 = rest := by
  simp [le32]
theorem drop_be32_append (n : Nat) (rest : Bytes) : (be32 n ++ rest).drop 4 = rest := by
  simp [be32]

/-- the bytes `generate_pro` produces, written out -/
def proBytes (wrm : Bytes) : Bytes :=
  le32 (wrm.length + 10) ++ (le16 1 ++ (le16 1 ++ (le16 wrm.length ++ wrm)))

theorem generatePro_eq (wrm : Bytes) (h : wrm.length < 65536) :
    generatePro wrm = some (proBytes wrm) := by
  have hg : ¬ wrm.length ≥ 65536 := by omega
  simp only [generatePro, hg, if_false, proBytes, List.append_assoc, List.length_append, le16_length]
  have : 2 + (2 + wrm.length) + 6 = wrm.length + 10 := by omega
  rw [this]

theorem proBytes_length (wrm : Bytes) : (proBytes wrm).length = wrm.length + 10 := by
  simp [proBytes, le32_length, le16_length]; omega

theorem parsePro_proBytes (wrm : Bytes) (h : wrm.length < 65536) :
    parsePro (proBytes wrm) = some [⟨1, wrm.length, some wrm⟩] := by
  have hlen : ¬ (proBytes wrm).length < 6 := by rw [proBytes_length]; omega
  have d4 : (proBytes wrm).drop 4 = le16 1 ++ (le16 1 ++ (le16 wrm.length ++ wrm)) := by
    simp [proBytes, le32]
  have d6 : (proBytes wrm).drop 6 = le16 1 ++ (le16 wrm.length ++ wrm) := by
    simp [proBytes, le32, le16]
  simp only [parsePro, hlen, if_false, d4, d6, le16val_le16 1 (by omega : 1 < 65536)]
  have h4 : ¬ (le16 1 ++ (le16 wrm.length ++ wrm)).length < 4 := by simp [le16_length]; omega
  have e4 : (le16 1 ++ (le16 wrm.length ++ wrm)).drop 4 = wrm := by simp [le16]
  simp only [parseRecords, h4, if_false, le16val_le16 1 (by omega : 1 < 65536), drop_le16_append,
    le16val_le16 _ h, if_true, e4]
  simp

theorem proBytes_length_field (wrm : Bytes) (h : wrm.length < 65536) :
    le32val (proBytes wrm) = (proBytes wrm).length := by
  rw [proBytes_length]
  unfold proBytes
  rw [le32val_le32]
  omega

theorem takeKids_flatten (kids : List Bytes) (hk : ∀ k ∈ kids, k.length = 16) (rest : Bytes) :
    takeKids kids.length (kids.flatten ++ rest) = some (kids, rest) := by
  induction kids with
  | nil => simp [takeKids]
  | cons k ks ih =>
    have hk16 : k.length = 16 := hk k (by simp)
    have ih' := ih (fun x hx => hk x (by simp [hx]))
    simp only [List.length_cons, List.flatten_cons, List.append_assoc, takeKids]
    have hlen : ¬ (k ++ (ks.flatten ++ rest)).length < 16 := by simp; omega
    simp only [hlen, if_false, List.drop_left' hk16, List.take_left' hk16, ih']
    rfl

theorem decodePssh_encodePssh (v : Nat) (sys : Bytes) (kids : List Bytes) (data : Bytes)
    (hv : v < 256) (hv0 : v = 0 → kids = []) (hs : sys.length = 16)
    (hk : ∀ k ∈ kids, k.length = 16)
    (hsz : (encodePssh v sys kids data).length < 4294967296) :
    decodePssh (encodePssh v sys kids data) = some ⟨v, sys, kids, data⟩ := by
  have hflat : kids.flatten.length = 16 * kids.length := by
    clear hsz hv0
    induction kids with
    | nil => rfl
    | cons k ks ih =>
      have := hk k (by simp)
      have := ih (fun x hx => hk x (by simp [hx]))
      simp only [List.flatten_cons, List.length_append, List.length_cons]; omega
  -- abbreviations
  generalize hX : (if v > 0 then be32 kids.length ++ kids.flatten else ([] : Bytes)) = X at *
  have hXlen : X.length = if v > 0 then 4 + 16 * kids.length else 0 := by
    rw [← hX]; split <;> simp [be32_length, hflat]
  have henc : encodePssh v sys kids data
      = be32 (8 + (4 + (16 + (X.length + (4 + data.length)))))
        ++ (psshType ++ ([UInt8.ofNat v, 0, 0, 0] ++ (sys ++ (X ++ (be32 data.length ++ data))))) := by
    simp only [encodePssh, psshBody, hX, List.append_assoc, List.length_append, hs, be32_length]
    rfl
  rw [henc] at hsz ⊢
  have hL : (be32 (8 + (4 + (16 + (X.length + (4 + data.length)))))
        ++ (psshType ++ ([UInt8.ofNat v, 0, 0, 0] ++ (sys ++ (X ++ (be32 data.length ++ data)))))).length
      = 8 + (4 + (16 + (X.length + (4 + data.length)))) := by
    simp [be32_length, psshType, hs]; omega
  rw [hL] at hsz
  unfold decodePssh
  rw [be32val_be32 _ hsz, hL]
  have h32 : ¬ 8 + (4 + (16 + (X.length + (4 + data.length)))) < 32 := by omega
  simp only [h32, if_false, ne_eq, not_true_eq_false]
  have d4 : ∀ n rest, (be32 n ++ rest).drop 4 = rest := by intro n rest; simp [be32]
  have t4 : ((be32 (8 + (4 + (16 + (X.length + (4 + data.length)))))
        ++ (psshType ++ ([UInt8.ofNat v, 0, 0, 0] ++ (sys ++ (X ++ (be32 data.length ++ data)))))).drop 4).take 4
      = psshType := by
    rw [d4]; simp [psshType]
  have g8 : (be32 (8 + (4 + (16 + (X.length + (4 + data.length)))))
        ++ (psshType ++ ([UInt8.ofNat v, 0, 0, 0] ++ (sys ++ (X ++ (be32 data.length ++ data)))))).getD 8 0
      = UInt8.ofNat v := by
    simp [be32, psshType]
  have d12 : (be32 (8 + (4 + (16 + (X.length + (4 + data.length)))))
        ++ (psshType ++ ([UInt8.ofNat v, 0, 0, 0] ++ (sys ++ (X ++ (be32 data.length ++ data)))))).drop 12
      = sys ++ (X ++ (be32 data.length ++ data)) := by
    simp [be32, psshType]
  have d28 : (be32 (8 + (4 + (16 + (X.length + (4 + data.length)))))
        ++ (psshType ++ ([UInt8.ofNat v, 0, 0, 0] ++ (sys ++ (X ++ (be32 data.length ++ data)))))).drop 28
      = X ++ (be32 data.length ++ data) := by
    have : (28 : Nat) = 12 + 16 := rfl
    rw [this, ← List.drop_drop, d12, List.drop_left' hs]
  rw [t4, g8, d12, d28, List.take_left' hs]
  have hvn : (UInt8.ofNat v).toNat = v := by simp; omega
  simp only [hvn, if_false, not_true_eq_false]
  have hdl : data.length < 4294967296 := by omega
  by_cases hv1 : v > 0
  · have hXe : X = be32 kids.length ++ kids.flatten := by rw [← hX]; simp [hv1]
    have hkl : kids.length < 4294967296 := by simp [hv1] at hXlen; omega
    have h4 : ¬ (X ++ (be32 data.length ++ data)).length < 4 := by
      simp [hXe, be32_length]
    simp only [hv1, if_true, h4, if_false]
    rw [hXe, List.append_assoc, be32val_be32 _ hkl, d4, takeKids_flatten kids hk]
    simp only
    have h4' : ¬ (be32 data.length ++ data).length < 4 := by simp [be32_length]
    simp only [h4', if_false, be32val_be32 _ hdl, d4, not_true_eq_false]
  · have hk0 : kids = [] := hv0 (by omega)
    have hXe : X = [] := by rw [← hX]; simp [hv1]
    simp only [hv1, if_false, hXe, List.nil_append]
    have h4' : ¬ (be32 data.length ++ data).length < 4 := by simp [be32_length]
    simp only [h4', if_false, be32val_be32 _ hdl, d4, not_true_eq_false, hk0]

/-- Unicode scalar value -/
def Scalar (c : Nat) : Prop := c < 0x110000 ∧ ¬ (0xD800 ≤ c ∧ c < 0xE000)

theorem wrmBytes_eq (xml : List Nat) : wrmBytes xml = utf16le xml := by
  simp [wrmBytes, encodeUtf16, stripBom]

theorem ofNat_toNat (n : Nat) (h : n < 256) : (UInt8.ofNat n).toNat = n := by
  simp; omega

theorem decode_utf16le (s : List Nat) (hs : ∀ c ∈ s, Scalar c) :
    decodeUtf16le (utf16le s) = some s := by
  induction s with
  | nil => simp [utf16le, decodeUtf16le]
  | cons c cs ih =>
    have hc := hs c (by simp)
    have ih' := ih (fun x hx => hs x (by simp [hx]))
    obtain ⟨hc1, hc2⟩ := hc
    have hcons : utf16le (c :: cs) = (utf16Units c).flatMap unitLE ++ utf16le cs := by
      simp [utf16le]
    rw [hcons]
    by_cases hb : c < 0x10000
    · have hu : utf16Units c = [c] := by simp [utf16Units, hb]
      rw [hu]
      simp only [List.flatMap_cons, List.flatMap_nil, List.append_nil, unitLE, List.cons_append,
        List.nil_append]
      have h1 : (UInt8.ofNat (c % 256)).toNat = c % 256 := ofNat_toNat _ (by omega)
      have h2 : (UInt8.ofNat (c / 256)).toNat = c / 256 := ofNat_toNat _ (by omega)
      have hv : c % 256 + 256 * (c / 256) = c := by omega
      cases hcs : utf16le cs with
      | nil =>
        rw [hcs] at ih'
        simp only [decodeUtf16le, h1, h2, hv]
        have : ¬ (0xD800 ≤ c ∧ c < 0xE000) := hc2
        simp only [this, if_false]
        cases cs with
        | nil => rfl
        | cons d ds => simp [decodeUtf16le] at ih'
      | cons x xs =>
        cases xs with
        | nil =>
          rw [hcs] at ih'; simp [decodeUtf16le] at ih'
        | cons y ys =>
          rw [hcs] at ih'
          simp only [decodeUtf16le, h1, h2, hv]
          have n1 : ¬ (0xD800 ≤ c ∧ c < 0xDC00) := by omega
          have n2 : ¬ (0xDC00 ≤ c ∧ c < 0xE000) := by omega
          simp only [n1, n2, if_false, ih', Option.map_some]
    · have hu : utf16Units c = [0xD800 + (c - 0x10000) / 1024, 0xDC00 + (c - 0x10000) % 1024] := by
        simp [utf16Units, hb]
      rw [hu]
      simp only [List.flatMap_cons, List.flatMap_nil, List.append_nil, unitLE, List.cons_append,
        List.nil_append]
      generalize hU : 0xD800 + (c - 0x10000) / 1024 = U
      generalize hV : 0xDC00 + (c - 0x10000) % 1024 = V
      have h1 : (UInt8.ofNat (U % 256)).toNat = U % 256 := ofNat_toNat _ (by omega)
      have h2 : (UInt8.ofNat (U / 256)).toNat = U / 256 := ofNat_toNat _ (by omega)
      have h3 : (UInt8.ofNat (V % 256)).toNat = V % 256 := ofNat_toNat _ (by omega)
      have h4 : (UInt8.ofNat (V / 256)).toNat = V / 256 := ofNat_toNat _ (by omega)
      have hu' : U % 256 + 256 * (U / 256) = U := by omega
      have hv' : V % 256 + 256 * (V / 256) = V := by omega
      simp only [decodeUtf16le, h1, h2, h3, h4, hu', hv']
      have p1 : 0xD800 ≤ U ∧ U < 0xDC00 := by omega
      have p2 : 0xDC00 ≤ V ∧ V < 0xE000 := by omega
      simp only [p1, p2, and_self, if_true, ih', Option.map_some]
      have : 0x10000 + (U - 0xD800) * 1024 + (V - 0xDC00) = c := by omega
      rw [this]

end DashLive.PlayReady
