import DashLive.Model.Xml
/-! Helper lemmas for C05: `xmlSafe` as a single pass, and the *inertness*
framework – a text `e` is inert at a lexer state `st` when reading it leaves the
structure lexer (`keep := false`) in exactly the state `st`. -/
namespace DashLive.Xml

/-! ## `xmlSafe` is the single-pass escape -/

theorem escChar_chain (x : Char) :
    ((((([x].flatMap fun x => if x = '&' then "&amp;".toList else [x]).flatMap
      fun x => if x = '<' then "&lt;".toList else [x]).flatMap
      fun x => if x = '>' then "&gt;".toList else [x]).flatMap
      fun x => if x = '"' then "&quot;".toList else [x]).flatMap
      fun x => if x = '\'' then "&apos;".toList else [x]) = escChar x := by
  unfold escChar
  by_cases h1 : x = '&'
  · subst h1; rfl
  by_cases h2 : x = '<'
  · subst h2; rfl
  by_cases h3 : x = '>'
  · subst h3; rfl
  by_cases h4 : x = '"'
  · subst h4; rfl
  by_cases h5 : x = '\''
  · subst h5; rfl
  simp only [List.flatMap_cons, List.flatMap_nil, List.append_nil, h1, h2, h3, h4, h5, ↓reduceIte]

theorem replaceChar_append (c : Char) (r a b : Text) :
    replaceChar c r (a ++ b) = replaceChar c r a ++ replaceChar c r b := by
  simp only [replaceChar, List.flatMap_append]

theorem xmlSafe_append (a b : Text) : xmlSafe (a ++ b) = xmlSafe a ++ xmlSafe b := by
  simp only [xmlSafe, replaceChar_append]

theorem xmlSafe_singleton (x : Char) : xmlSafe [x] = escChar x := escChar_chain x

/-- the five successive `str.replace` calls never touch what an earlier one wrote -/
theorem xmlSafe_eq (s : Text) : xmlSafe s = s.flatMap escChar := by
  induction s with
  | nil => rfl
  | cons x xs ih =>
    have h : x :: xs = [x] ++ xs := rfl
    rw [h, xmlSafe_append, ih, xmlSafe_singleton, List.flatMap_append]
    simp only [List.flatMap_cons, List.flatMap_nil, List.append_nil]

/-! ## running the lexer over a concatenation -/

theorem run_nil (k : Bool) (st : St) : run k st [] = some st := rfl

theorem run_cons (k : Bool) (st : St) (c : Char) (cs : Text) :
    run k st (c :: cs) = (step k st c).bind (fun st' => run k st' cs) := by
  simp only [run, List.foldlM_cons]
  rfl

theorem run_append (k : Bool) (st : St) (a b : Text) :
    run k st (a ++ b) = (run k st a).bind (fun st' => run k st' b) := by
  simp only [run, List.foldlM_append]
  rfl

/-! ## inert texts -/

/-- reading `e` from `st` returns to `st` (structure lexer) -/
def Inert (st : St) (e : Text) : Prop := run false st e = some st

theorem Inert.nil (st : St) : Inert st [] := rfl

theorem Inert.append {st : St} {a b : Text} (ha : Inert st a) (hb : Inert st b) : Inert st (a ++ b) := by
  unfold Inert at *
  rw [run_append, ha]
  exact hb

theorem Inert.flatMap {st : St} (f : Char → Text) (h : ∀ c, Inert st (f c)) (s : Text) :
    Inert st (s.flatMap f) := by
  induction s with
  | nil => exact Inert.nil st
  | cons x xs ih =>
    rw [List.flatMap_cons]
    exact Inert.append (h x) ih

/-- an inert text can be inserted at `st` without changing anything that follows -/
theorem Inert.run_insert {st : St} {e : Text} (h : Inert st e) (post : Text) :
    run false st (e ++ post) = run false st post := by
  rw [run_append, h]
  rfl

/-- the structure of `pre ++ e ++ post` is the structure of `pre ++ post` when `e` is
inert at the state reached after `pre` -/
theorem skeleton_insert {pre e post : Text} {st : St} (hpre : run false init pre = some st)
    (h : Inert st e) : skeleton (pre ++ e ++ post) = skeleton (pre ++ post) := by
  unfold skeleton
  rw [List.append_assoc, run_append, run_append false init pre post, hpre]
  simp only [Option.bind_some]
  rw [h.run_insert]

/-! ## character data -/

theorem step_content_plain (txt : Text) (out : List Tok) (c : Char) (h1 : c ≠ '<') (h2 : c ≠ '&') :
    step false ⟨.content txt none, out⟩ c = some ⟨.content txt none, out⟩ := by
  simp only [step, h1, h2, push, ↓reduceIte, Bool.false_eq_true]

theorem inert_content_plain (txt : Text) (out : List Tok) (c : Char) (h1 : c ≠ '<') (h2 : c ≠ '&') :
    Inert ⟨.content txt none, out⟩ [c] := by
  unfold Inert
  rw [run_cons, step_content_plain txt out c h1 h2]
  rfl

/-- a complete predefined or numeric reference is inert in character data -/
theorem inert_content_refs (txt : Text) (out : List Tok) :
    Inert ⟨.content txt none, out⟩ "&amp;".toList ∧ Inert ⟨.content txt none, out⟩ "&lt;".toList ∧
    Inert ⟨.content txt none, out⟩ "&gt;".toList ∧ Inert ⟨.content txt none, out⟩ "&quot;".toList ∧
    Inert ⟨.content txt none, out⟩ "&apos;".toList ∧ Inert ⟨.content txt none, out⟩ "&#34;".toList ∧
    Inert ⟨.content txt none, out⟩ "&#39;".toList :=
  ⟨rfl, rfl, rfl, rfl, rfl, rfl, rfl⟩

theorem inert_content_escChar (txt : Text) (out : List Tok) (c : Char) :
    Inert ⟨.content txt none, out⟩ (escChar c) := by
  obtain ⟨a, l, g, q, p, _, _⟩ := inert_content_refs txt out
  unfold escChar
  split; exact a
  split; exact l
  split; exact g
  split; exact q
  split; exact p
  exact inert_content_plain txt out c ‹_› ‹_›

theorem inert_content_autoChar (txt : Text) (out : List Tok) (c : Char) :
    Inert ⟨.content txt none, out⟩ (autoChar c) := by
  obtain ⟨a, l, g, _, _, q, p⟩ := inert_content_refs txt out
  unfold autoChar
  split; exact a
  split; exact l
  split; exact g
  split; exact q
  split; exact p
  exact inert_content_plain txt out c ‹_› ‹_›

/-! ## quoted attribute values -/

theorem step_value_plain (q : Char) (n an v : Text) (as : List (Text × Text)) (out : List Tok) (c : Char)
    (h0 : c ≠ q) (h1 : c ≠ '<') (h2 : c ≠ '&') :
    step false ⟨.value q n as an v none, out⟩ c = some ⟨.value q n as an v none, out⟩ := by
  simp only [step, h0, h1, h2, push, ↓reduceIte, Bool.false_eq_true]

theorem inert_value_plain (q : Char) (n an v : Text) (as : List (Text × Text)) (out : List Tok) (c : Char)
    (h0 : c ≠ q) (h1 : c ≠ '<') (h2 : c ≠ '&') : Inert ⟨.value q n as an v none, out⟩ [c] := by
  unfold Inert
  rw [run_cons, step_value_plain q n an v as out c h0 h1 h2]
  rfl

theorem inert_value_refs (q : Char) (hq : q = '"' ∨ q = '\'') (n an v : Text) (as : List (Text × Text))
    (out : List Tok) :
    Inert ⟨.value q n as an v none, out⟩ "&amp;".toList ∧ Inert ⟨.value q n as an v none, out⟩ "&lt;".toList ∧
    Inert ⟨.value q n as an v none, out⟩ "&gt;".toList ∧ Inert ⟨.value q n as an v none, out⟩ "&quot;".toList ∧
    Inert ⟨.value q n as an v none, out⟩ "&apos;".toList ∧ Inert ⟨.value q n as an v none, out⟩ "&#34;".toList ∧
    Inert ⟨.value q n as an v none, out⟩ "&#39;".toList := by
  rcases hq with rfl | rfl <;> exact ⟨rfl, rfl, rfl, rfl, rfl, rfl, rfl⟩

theorem inert_value_escChar (q : Char) (hq : q = '"' ∨ q = '\'') (n an v : Text) (as : List (Text × Text))
    (out : List Tok) (c : Char) : Inert ⟨.value q n as an v none, out⟩ (escChar c) := by
  obtain ⟨a, l, g, qu, p, _, _⟩ := inert_value_refs q hq n an v as out
  unfold escChar
  split; exact a
  split; exact l
  split; exact g
  split; exact qu
  split; exact p
  refine inert_value_plain q n an v as out c ?_ ‹_› ‹_›
  rcases hq with rfl | rfl <;> assumption

theorem inert_value_autoChar (q : Char) (hq : q = '"' ∨ q = '\'') (n an v : Text) (as : List (Text × Text))
    (out : List Tok) (c : Char) : Inert ⟨.value q n as an v none, out⟩ (autoChar c) := by
  obtain ⟨a, l, g, _, _, qu, p⟩ := inert_value_refs q hq n an v as out
  unfold autoChar
  split; exact a
  split; exact l
  split; exact g
  split; exact qu
  split; exact p
  refine inert_value_plain q n an v as out c ?_ ‹_› ‹_›
  rcases hq with rfl | rfl <;> assumption

/-! ## plain texts (digits, duration and date-time letters …) -/

/-- a character that is no markup delimiter in any context -/
def isPlain (c : Char) : Bool := c != '<' && c != '&' && c != '"' && c != '\''

theorem isPlain_ne {c : Char} (h : isPlain c = true) : c ≠ '<' ∧ c ≠ '&' ∧ c ≠ '"' ∧ c ≠ '\'' := by
  simp only [isPlain, Bool.and_eq_true, bne_iff_ne, ne_eq] at h
  exact ⟨h.1.1.1, h.1.1.2, h.1.2, h.2⟩

theorem inert_content_plainText (txt : Text) (out : List Tok) (e : Text) (h : ∀ c ∈ e, isPlain c = true) :
    Inert ⟨.content txt none, out⟩ e := by
  induction e with
  | nil => exact Inert.nil _
  | cons x xs ih =>
    have hx := isPlain_ne (h x List.mem_cons_self)
    exact Inert.append (a := [x]) (inert_content_plain txt out x hx.1 hx.2.1)
      (ih fun c hc => h c (List.mem_cons_of_mem _ hc))

theorem inert_value_plainText (q : Char) (hq : q = '"' ∨ q = '\'') (n an v : Text) (as : List (Text × Text))
    (out : List Tok) (e : Text) (h : ∀ c ∈ e, isPlain c = true) : Inert ⟨.value q n as an v none, out⟩ e := by
  induction e with
  | nil => exact Inert.nil _
  | cons x xs ih =>
    have hx := isPlain_ne (h x List.mem_cons_self)
    refine Inert.append (a := [x]) (inert_value_plain q n an v as out x ?_ hx.1 hx.2.1)
      (ih fun c hc => h c (List.mem_cons_of_mem _ hc))
    rcases hq with rfl | rfl
    · exact hx.2.2.1
    · exact hx.2.2.2

/-! ## from the context predicates to lexer states -/

theorem inText_state {pre : Text} (h : InText pre) :
    ∃ txt out, run false init pre = some ⟨.content txt none, out⟩ := by
  obtain ⟨txt, ht⟩ := h
  unfold modeAfter at ht
  cases hr : run false init pre with
  | none => rw [hr] at ht; cases ht
  | some st =>
    rw [hr] at ht
    simp only [Option.map_some, Option.some.injEq] at ht
    obtain ⟨m, o⟩ := st
    exact ⟨txt, o, by rw [show m = Mode.content txt none from ht]⟩

theorem inAttr_state {q : Char} {pre : Text} (h : InAttr q pre) :
    ∃ n as an v out, run false init pre = some ⟨.value q n as an v none, out⟩ := by
  obtain ⟨n, as, an, v, ht⟩ := h
  unfold modeAfter at ht
  cases hr : run false init pre with
  | none => rw [hr] at ht; cases ht
  | some st =>
    rw [hr] at ht
    simp only [Option.map_some, Option.some.injEq] at ht
    obtain ⟨m, o⟩ := st
    exact ⟨n, as, an, v, o, by rw [show m = Mode.value q n as an v none from ht]⟩

end DashLive.Xml
