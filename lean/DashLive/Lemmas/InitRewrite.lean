import DashLive.Model.InitRewrite
import DashLive.Lemmas.PlayReady
/-!
Helper lemmas for C10 about `Model/InitRewrite.lean`: list surgery
(`modifyFirst` / `removeFirst` at the first box of a type), encoding of
concatenations, and the reader `parseBoxes` recovering every well-formed tree
from its encoding.  Core tactics only.
-/
namespace DashLive.InitRewrite
open DashLive.PlayReady (Bytes be32 be32val be32val_be32 be32_length)

theorem encodeList_append (a b : List Box) : encodeList (a ++ b) = encodeList a ++ encodeList b := by
  induction a with
  | nil => simp [encodeList]
  | cons x xs ih => simp [encodeList, ih]

theorem modifyFirst_split (t : Bytes) (f : Box → Box) (pre post : List Box) (b : Box)
    (hpre : ∀ x ∈ pre, x.typ ≠ t) (hb : b.typ = t) :
    modifyFirst t f (pre ++ b :: post) = pre ++ f b :: post := by
  induction pre with
  | nil => simp [modifyFirst, hb]
  | cons x xs ih =>
    have hx : x.typ ≠ t := hpre x (by simp)
    simp only [List.cons_append, modifyFirst, hx, if_false]
    rw [ih (fun y hy => hpre y (by simp [hy]))]

theorem modifyFirst_none (t : Bytes) (f : Box → Box) (l : List Box) (h : ∀ x ∈ l, x.typ ≠ t) :
    modifyFirst t f l = l := by
  induction l with
  | nil => rfl
  | cons x xs ih =>
    have hx : x.typ ≠ t := h x (by simp)
    simp only [modifyFirst, hx, if_false]
    rw [ih (fun y hy => h y (by simp [hy]))]

theorem removeFirst_split (t : Bytes) (pre post : List Box) (b : Box)
    (hpre : ∀ x ∈ pre, x.typ ≠ t) (hb : b.typ = t) :
    removeFirst t (pre ++ b :: post) = pre ++ post := by
  induction pre with
  | nil => simp [removeFirst, hb]
  | cons x xs ih =>
    have hx : x.typ ≠ t := hpre x (by simp)
    simp only [List.cons_append, removeFirst, hx, if_false]
    rw [ih (fun y hy => hpre y (by simp [hy]))]

theorem removeFirst_none (t : Bytes) (l : List Box) (h : ∀ x ∈ l, x.typ ≠ t) :
    removeFirst t l = l := by
  induction l with
  | nil => rfl
  | cons x xs ih =>
    have hx : x.typ ≠ t := h x (by simp)
    simp only [removeFirst, hx, if_false]
    rw [ih (fun y hy => h y (by simp [hy]))]

/-- every list either has no box of type `t` or splits at the first one -/
theorem split_first (t : Bytes) (l : List Box) :
    (∀ x ∈ l, x.typ ≠ t) ∨
    ∃ pre b post, l = pre ++ b :: post ∧ (∀ x ∈ pre, x.typ ≠ t) ∧ b.typ = t := by
  induction l with
  | nil => left; simp
  | cons x xs ih =>
    by_cases hx : x.typ = t
    · right; exact ⟨[], x, xs, rfl, by simp, hx⟩
    · rcases ih with h | ⟨pre, b, post, rfl, hpre, hb⟩
      · left; intro y hy
        rcases List.mem_cons.mp hy with rfl | hy
        · exact hx
        · exact h y hy
      · right
        refine ⟨x :: pre, b, post, rfl, ?_, hb⟩
        intro y hy
        rcases List.mem_cons.mp hy with rfl | hy
        · exact hx
        · exact hpre y hy

theorem psshBox_encode (p : PsshSpec) : p.box.encode = p.bytes := by
  simp [PsshSpec.box, PsshSpec.bytes, Box.encode, PlayReady.encodePssh]


mutual
/-- number of boxes in a tree -/
def Box.weight : Box → Nat
  | .leaf _ _ => 1
  | .node _ cs => 1 + weightList cs
def weightList : List Box → Nat
  | [] => 0
  | b :: bs => b.weight + weightList bs
end

mutual
/-- a tree the reader can recover: 4-byte types, containers exactly where `isC` says,
every size below 2³² -/
def Box.Wf (isC : Bytes → Bool) : Box → Prop
  | .leaf t p => t.length = 4 ∧ isC t = false ∧ 8 + p.length < 4294967296
  | .node t cs => t.length = 4 ∧ isC t = true ∧ 8 + (encodeList cs).length < 4294967296 ∧ WfList isC cs
def WfList (isC : Bytes → Bool) : List Box → Prop
  | [] => True
  | b :: bs => b.Wf isC ∧ WfList isC bs
end

/-- header ‖ payload ‖ rest is read back as (type, payload, rest) -/
theorem parse_step (isC : Bytes → Bool) (fuel : Nat) (t payload rest : Bytes)
    (ht : t.length = 4) (hsz : 8 + payload.length < 4294967296) :
    parseBoxes isC (fuel + 1) (be32 (8 + payload.length) ++ t ++ payload ++ rest)
      = match parseBoxes isC fuel rest with
        | none => none
        | some r =>
          if isC t then
            match parseBoxes isC fuel payload with
            | none => none
            | some cs => some (.node t cs :: r)
          else some (.leaf t payload :: r) := by
  have hbytes : be32 (8 + payload.length) ++ t ++ payload ++ rest
      = be32 (8 + payload.length) ++ (t ++ (payload ++ rest)) := by simp
  rw [hbytes]
  have hlen : (be32 (8 + payload.length) ++ (t ++ (payload ++ rest))).length
      = 8 + payload.length + rest.length := by simp [be32_length, ht]; omega
  have hne : be32 (8 + payload.length) ++ (t ++ (payload ++ rest)) ≠ [] := by
    intro h; have := congrArg List.length h; rw [hlen] at this; simp at this
  have hcons : ∃ x xs, be32 (8 + payload.length) ++ (t ++ (payload ++ rest)) = x :: xs := by
    cases h : be32 (8 + payload.length) ++ (t ++ (payload ++ rest)) with
    | nil => exact absurd h hne
    | cons x xs => exact ⟨x, xs, rfl⟩
  obtain ⟨x, xs, hx⟩ := hcons
  have d4 : (be32 (8 + payload.length) ++ (t ++ (payload ++ rest))).drop 4 = t ++ (payload ++ rest) := by
    simp [be32]
  have t4 : ((be32 (8 + payload.length) ++ (t ++ (payload ++ rest))).drop 4).take 4 = t := by
    rw [d4, List.take_left' ht]
  have d8 : (be32 (8 + payload.length) ++ (t ++ (payload ++ rest))).drop 8 = payload ++ rest := by
    have : (8 : Nat) = 4 + 4 := rfl
    rw [this, ← List.drop_drop, d4, List.drop_left' ht]
  have dS : (be32 (8 + payload.length) ++ (t ++ (payload ++ rest))).drop (8 + payload.length) = rest := by
    rw [← List.drop_drop, d8, List.drop_left' rfl]
  have hv : be32val (be32 (8 + payload.length) ++ (t ++ (payload ++ rest))) = 8 + payload.length :=
    be32val_be32 _ hsz _
  rw [hx] at hlen d8 dS hv t4
  rw [hx, parseBoxes]
  · simp only [hlen, hv, t4, d8, dS]
    have h1 : ¬ 8 + payload.length + rest.length < 8 := by omega
    have h2 : (decide (8 + payload.length < 8) || decide (8 + payload.length > 8 + payload.length + rest.length)) = false := by
      simp <;> omega
    have h3 : 8 + payload.length - 8 = payload.length := by omega
    simp only [h1, if_false, h2, Bool.false_eq_true, h3, List.take_left' rfl]
    first | done | rfl
  · intro h; cases h

theorem weightList_append (a b : List Box) : weightList (a ++ b) = weightList a + weightList b := by
  induction a with
  | nil => simp [weightList]
  | cons x xs ih => simp [weightList, ih]; omega

theorem wfList_append (isC : Bytes → Bool) (a b : List Box) :
    WfList isC (a ++ b) ↔ WfList isC a ∧ WfList isC b := by
  induction a with
  | nil => simp [WfList]
  | cons x xs ih => simp [WfList, ih, and_assoc]

/-- **the reader recovers every well-formed tree from its encoding** (given enough fuel) -/
theorem parse_encodeList (isC : Bytes → Bool) :
    ∀ (bs : List Box) (fuel : Nat), WfList isC bs → weightList bs < fuel →
      parseBoxes isC fuel (encodeList bs) = some bs
  | [], fuel, _, hf => by
    cases fuel with
    | zero => simp [weightList] at hf
    | succ n => simp [encodeList, parseBoxes]
  | .leaf t p :: rest, fuel, hw, hf => by
    cases fuel with
    | zero => simp [weightList] at hf
    | succ n =>
      simp only [WfList, Box.Wf] at hw
      obtain ⟨⟨ht, hc, hsz⟩, hrest⟩ := hw
      simp only [weightList, Box.weight] at hf
      have ih := parse_encodeList isC rest n hrest (by omega)
      have := parse_step isC n t p (encodeList rest) ht hsz
      simp only [encodeList, Box.encode]
      rw [this, ih]
      simp [hc]
  | .node t cs :: rest, fuel, hw, hf => by
    cases fuel with
    | zero => simp [weightList] at hf
    | succ n =>
      simp only [WfList, Box.Wf] at hw
      obtain ⟨⟨ht, hc, hsz, hcs⟩, hrest⟩ := hw
      simp only [weightList, Box.weight] at hf
      have ih := parse_encodeList isC rest n hrest (by omega)
      have ihc := parse_encodeList isC cs n hcs (by omega)
      have := parse_step isC n t (encodeList cs) (encodeList rest) ht hsz
      simp only [encodeList, Box.encode]
      rw [this, ih, ihc]
      simp [hc]
termination_by bs => sizeOf bs


theorem modifyFirst_append_right (t : Bytes) (f : Box → Box) (l extra : List Box)
    (h : ∀ x ∈ extra, x.typ ≠ t) :
    modifyFirst t f (l ++ extra) = modifyFirst t f l ++ extra := by
  induction l with
  | nil => simpa [modifyFirst] using modifyFirst_none t f extra h
  | cons x xs ih =>
    by_cases hx : x.typ = t
    · simp [modifyFirst, hx]
    · simp [modifyFirst, hx, ih]

theorem encodeList_length_append (a b : List Box) :
    (encodeList (a ++ b)).length = (encodeList a).length + (encodeList b).length := by
  rw [encodeList_append, List.length_append]

theorem encodeList_removeFirst_le (t : Bytes) (l : List Box) :
    (encodeList (removeFirst t l)).length ≤ (encodeList l).length := by
  induction l with
  | nil => simp [removeFirst]
  | cons x xs ih =>
    simp only [removeFirst]
    split
    · simp [encodeList]
    · simp only [encodeList, List.length_append]; omega

theorem wfList_removeFirst (isC : Bytes → Bool) (t : Bytes) (l : List Box) (h : WfList isC l) :
    WfList isC (removeFirst t l) := by
  induction l with
  | nil => simpa [removeFirst] using h
  | cons x xs ih =>
    simp only [WfList] at h
    simp only [removeFirst]
    split
    · exact h.2
    · exact ⟨h.1, ih h.2⟩

theorem wf_dropMehdFrom (isC : Bytes → Bool) (b : Box) (h : b.Wf isC) : (dropMehdFrom b).Wf isC := by
  cases b with
  | leaf t p => exact h
  | node t cs =>
    simp only [Box.Wf] at h
    simp only [dropMehdFrom, Box.Wf]
    have := encodeList_removeFirst_le mehdType cs
    exact ⟨h.1, h.2.1, by omega, wfList_removeFirst isC _ _ h.2.2.2⟩

theorem typ_dropMehdFrom (b : Box) : (dropMehdFrom b).typ = b.typ := by
  cases b <;> rfl

theorem encode_dropMehdFrom_le (b : Box) : (dropMehdFrom b).encode.length ≤ b.encode.length := by
  cases b with
  | leaf t p => exact Nat.le_refl _
  | node t cs =>
    have := encodeList_removeFirst_le mehdType cs
    simp only [dropMehdFrom, Box.encode, List.length_append, be32_length]; omega

theorem wfList_modifyFirst (isC : Bytes → Bool) (t : Bytes) (f : Box → Box) (l : List Box)
    (hf : ∀ b, b.Wf isC → (f b).Wf isC) (h : WfList isC l) : WfList isC (modifyFirst t f l) := by
  induction l with
  | nil => simpa [modifyFirst] using h
  | cons x xs ih =>
    simp only [WfList] at h
    simp only [modifyFirst]
    split
    · exact ⟨hf x h.1, h.2⟩
    · exact ⟨h.1, ih h.2⟩

theorem encodeList_modifyFirst_le (t : Bytes) (f : Box → Box) (l : List Box)
    (hf : ∀ b, (f b).encode.length ≤ b.encode.length) :
    (encodeList (modifyFirst t f l)).length ≤ (encodeList l).length := by
  induction l with
  | nil => simp [modifyFirst]
  | cons x xs ih =>
    simp only [modifyFirst]
    split
    · have := hf x; simp only [encodeList, List.length_append]; omega
    · simp only [encodeList, List.length_append]; omega

theorem modifyFirst_id (t : Bytes) (f : Box → Box) (l : List Box) (hf : ∀ b ∈ l, f b = b) :
    modifyFirst t f l = l := by
  induction l with
  | nil => rfl
  | cons x xs ih =>
    simp only [modifyFirst]
    split
    · rw [hf x (by simp)]
    · rw [ih (fun b hb => hf b (by simp [hb]))]

end DashLive.InitRewrite
