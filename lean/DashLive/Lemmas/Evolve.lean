import DashLive.Lemmas.Avail
/-! Lemmas for C09: how the listed window of a live timeline depends on the clock. -/
namespace DashLive.Segments

theorem startG_strictMono (durs : List Nat) (R : Nat) (hn : 0 < durs.length)
    (hpos : ∀ g, 0 < durG' durs R g) {g g' : Nat} (h : g < g') : startG durs R g < startG durs R g' := by
  induction g' with
  | zero => omega
  | succ k ih =>
    have h2 := startG_succ durs R k hn
    have h3 := hpos k
    by_cases he : g = k
    · subst he; omega
    · have := ih (by omega); omega

theorem startG_injective (durs : List Nat) (R : Nat) (hn : 0 < durs.length)
    (hpos : ∀ g, 0 < durG' durs R g) {g g' : Nat} (h : startG durs R g = startG durs R g') : g = g' := by
  by_cases h1 : g < g'
  · have := startG_strictMono durs R hn hpos h1; omega
  · by_cases h2 : g' < g
    · have := startG_strictMono durs R hn hpos h2; omega
    · omega

/-- the raw loop lists the advertised durations of consecutive positions -/
theorem rawLoop_durs (durs : List Nat) (R : Nat) (end_ : Int) (hn : 0 < durs.length) :
    ∀ fuel (dur : Int) g,
      rawLoop durs ((R : Int) - (durs.sum : Int)) end_ fuel dur (g % durs.length)
      = (List.range (rawLoop durs ((R : Int) - (durs.sum : Int)) end_ fuel dur (g % durs.length)).length).map
          (fun i => durG' durs R (g + i)) := by
  intro fuel
  induction fuel with
  | zero => intro dur g; simp [rawLoop]
  | succ f ih =>
    intro dur g
    unfold rawLoop
    by_cases hlt : dur < end_
    · simp only [hlt, if_true, List.length_cons, List.range_succ_eq_map, List.map_cons, List.map_map]
      rw [advDur_eq_durG', nextM_mod hn]
      congr 1
      have := ih (dur + durG' durs R g) (g + 1)
      rw [this]
      simp only [List.length_map, List.length_range, List.map_map]
      apply List.map_congr_left
      intro i _
      simp only [Function.comp_apply]
      congr 1
      omega
    · simp [hlt]

/-- sum of the advertised durations of `k` consecutive positions = distance of the starts -/
theorem sum_durG' (durs : List Nat) (R : Nat) (hn : 0 < durs.length) (g : Nat) :
    ∀ k, ((List.range k).map (fun i => durG' durs R (g + i))).sum
      = (startG durs R (g + k) : Int) - startG durs R g := by
  intro k
  induction k with
  | zero => simp
  | succ k ih =>
    rw [List.range_succ, List.map_append, List.sum_append, ih]
    simp only [List.map_cons, List.map_nil, List.sum_cons, List.sum_nil]
    have := startG_succ durs R (g + k) hn
    have e : g + (k + 1) = g + k + 1 := by omega
    rw [e]
    omega

theorem tdToTc_mono (ts : Nat) {a b : Nat} (h : a ≤ b) : tdToTc a ts ≤ tdToTc b ts := by
  rw [tdToTc_eq, tdToTc_eq]
  exact Nat.div_le_div_right (Nat.mul_le_mul_right ts h)

end DashLive.Segments
