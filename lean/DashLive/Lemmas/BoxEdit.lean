import DashLive.Lemmas.BoxTree
/-! The payload-agnostic walker, stored-size trees under edits, lazily loaded boxes. -/
namespace DashLive.Boxes
open DashLive.Bytes

/-! ### walker -/
theorem walkOkT_of_decBoxes (ctx : SencCtx) : ∀ (fuel tail : Nat) (bs : Bytes) (cs : List Box),
    decBoxes ctx tail fuel bs = some cs → walkOkT tail fuel bs = true := by
  intro fuel
  induction fuel with
  | zero =>
    intro tail bs cs h
    simp only [decBoxes] at h
    simp only [walkOkT]
    cases hb : bs.isEmpty <;> simp_all
  | succ fuel ih =>
    intro tail bs cs h
    simp only [decBoxes] at h
    simp only [walkOkT]
    cases hb : bs.isEmpty with
    | true => simp
    | false =>
      simp only [hb, Bool.false_eq_true, if_false] at h ⊢
      cases hd : decHeader tail bs with
      | none => simp [hd] at h
      | some p =>
        obtain ⟨hh, after⟩ := p
        simp only [hd] at h ⊢
        by_cases hc : hh.size < hh.hdrSize ∨ bs.length < hh.size
        · simp [hc] at h
        · simp only [hc, if_false] at h ⊢
          cases hr : decBoxes ctx tail fuel (List.drop (hh.size - hh.hdrSize) after) with
          | none =>
            simp only [hr] at h
            split at h <;> simp_all
          | some tl =>
            have h2 := ih _ _ _ hr
            by_cases hk : kindOf hh.typ = .container
            · simp only [hk, if_true] at h ⊢
              cases hp : decBoxes ctx ((List.drop (hh.size - hh.hdrSize) after).length + tail) fuel
                  (List.take (hh.size - hh.hdrSize) after) with
              | none => rw [hp] at h; simp at h
              | some ch => rw [ih _ _ _ hp, h2]; rfl
            · simp [hk, h2]

theorem walkOk_of_decFile (ctx : SencCtx) (bs : Bytes) (cs : List Box)
    (h : decFile ctx bs = some cs) : walkOk bs.length bs = true :=
  walkOkT_of_decBoxes ctx _ 0 bs cs h

/-! ### lists of stored-size trees -/
theorem eraseAll_append (a b : List STree) : eraseAll (a ++ b) = eraseAll a ++ eraseAll b := by
  induction a with
  | nil => simp [eraseAll]
  | cons x xs ih => simp [eraseAll, ih]

theorem encBoxes_append (a b : List Box) : encBoxes (a ++ b) = encBoxes a ++ encBoxes b := by
  induction a with
  | nil => simp [encBoxes]
  | cons x xs ih => simp [encBoxes, ih]

theorem SizeAllOk_append (a b : List STree) : SizeAllOk (a ++ b) ↔ SizeAllOk a ∧ SizeAllOk b := by
  induction a with
  | nil => simp [SizeAllOk]
  | cons x xs ih => simp [SizeAllOk, ih, and_assoc]

/-- total encoded length of a list of children -/
def lenAll (cs : List STree) : Nat := (encBoxes (eraseAll cs)).length

theorem lenAll_append (a b : List STree) : lenAll (a ++ b) = lenAll a + lenAll b := by
  simp [lenAll, eraseAll_append, encBoxes_append]

theorem lenAll_cons (c : STree) (cs : List STree) :
    lenAll (c :: cs) = (encBox c.erase).length + lenAll cs := by
  simp [lenAll, eraseAll, encBoxes]

theorem split_at {α : Type} (cs : List α) (i : Nat) (c : α) (h : cs[i]? = some c) :
    cs = cs.take i ++ c :: cs.drop (i + 1) := by
  induction cs generalizing i with
  | nil => simp at h
  | cons x xs ih =>
    cases i with
    | zero => simp at h; simp [h]
    | succ j =>
      simp only [List.getElem?_cons_succ] at h
      simp only [List.take_succ_cons, List.drop_succ_cons, List.cons_append]
      rw [← ih j h]

theorem set_eq {α : Type} (cs : List α) (i : Nat) (c c' : α) (h : cs[i]? = some c) :
    cs.set i c' = cs.take i ++ c' :: cs.drop (i + 1) := by
  induction cs generalizing i with
  | nil => simp at h
  | cons x xs ih =>
    cases i with
    | zero => simp
    | succ j =>
      simp only [List.getElem?_cons_succ] at h
      simp only [List.set_cons_succ, List.take_succ_cons, List.drop_succ_cons, List.cons_append]
      rw [ih j h]

theorem eraseIdx_eq {α : Type} (cs : List α) (i : Nat) (c : α) (h : cs[i]? = some c) :
    cs.eraseIdx i = cs.take i ++ cs.drop (i + 1) := by
  induction cs generalizing i with
  | nil => simp at h
  | cons x xs ih =>
    cases i with
    | zero => simp
    | succ j =>
      simp only [List.getElem?_cons_succ] at h
      simp only [List.eraseIdx_cons_succ, List.take_succ_cons, List.drop_succ_cons,
        List.cons_append]
      rw [ih j h]

theorem SizeAllOk_cons (c : STree) (cs : List STree) :
    SizeAllOk (c :: cs) ↔ c.SizeOk ∧ SizeAllOk cs := by simp [SizeAllOk]

theorem node_sizeOk (t : BoxType) (l : Bool) (m : Meta) (cs : List STree) :
    (STree.node t l m cs).SizeOk ↔ m.size = hdrLen t l + lenAll cs ∧ SizeAllOk cs := by
  simp [STree.SizeOk, encBox_node_length, lenAll]

theorem erase_node_length (t : BoxType) (l : Bool) (m : Meta) (cs : List STree) :
    (encBox (STree.node t l m cs).erase).length = hdrLen t l + lenAll cs := by
  simp [STree.erase, encBox_node_length, lenAll]

theorem size_of_sizeOk (c : STree) (h : c.SizeOk) : c.size = (encBox c.erase).length := by
  cases c with
  | leaf t l m p => simpa [STree.SizeOk, STree.size, STree.meta, STree.erase] using h
  | node t l m cs =>
    simp only [STree.SizeOk] at h
    simpa [STree.size, STree.meta, STree.erase] using h.1

/-! ### edits keep the stored sizes equal to the encoded lengths -/
/-- what a local edit must guarantee: the edited node is consistent again and the
`delta` it reports is the change of its encoded length -/
def LocalOk (f : STree → Option (STree × Int)) : Prop :=
  ∀ n n' d, n.SizeOk → f n = some (n', d) →
    n'.SizeOk ∧ ((encBox n'.erase).length : Int) = (encBox n.erase).length + d

theorem editAt_sizeOk (f : STree → Option (STree × Int)) (hf : LocalOk f) :
    ∀ (path : List Nat) (t t' : STree) (d : Int), t.SizeOk → STree.editAt f path t = some (t', d) →
      t'.SizeOk ∧ ((encBox t'.erase).length : Int) = (encBox t.erase).length + d := by
  intro path
  induction path with
  | nil =>
    intro t t' d ht h
    simp only [STree.editAt] at h
    exact hf t t' d ht h
  | cons i path ih =>
    intro t t' d ht h
    cases t with
    | leaf _ _ _ _ => simp [STree.editAt] at h
    | node ty l m cs =>
      simp only [STree.editAt] at h
      cases hc : cs[i]? with
      | none => simp [hc] at h
      | some c =>
        simp only [hc] at h
        cases he : STree.editAt f path c with
        | none => simp [he] at h
        | some r =>
          obtain ⟨c', delta⟩ := r
          simp only [he, Option.some.injEq, Prod.mk.injEq] at h
          obtain ⟨rfl, rfl⟩ := h
          rw [node_sizeOk] at ht
          obtain ⟨hm, hcs⟩ := ht
          have hsplit := split_at cs i c hc
          have hcOk : c.SizeOk := by
            rw [hsplit, SizeAllOk_append, SizeAllOk_cons] at hcs
            exact hcs.2.1
          obtain ⟨hc'Ok, hlen⟩ := ih c c' delta hcOk he
          have hset := set_eq cs i c c' hc
          have hl1 : lenAll cs = lenAll (cs.take i) + ((encBox c.erase).length + lenAll (cs.drop (i+1))) := by
            conv => lhs; rw [hsplit]
            rw [lenAll_append, lenAll_cons]
          have hl2 : lenAll (cs.set i c') =
              lenAll (cs.take i) + ((encBox c'.erase).length + lenAll (cs.drop (i+1))) := by
            rw [hset, lenAll_append, lenAll_cons]
          refine ⟨?_, ?_⟩
          · rw [node_sizeOk]
            refine ⟨?_, ?_⟩
            · simp only [hm]; omega
            · rw [hset, SizeAllOk_append, SizeAllOk_cons]
              rw [hsplit, SizeAllOk_append, SizeAllOk_cons] at hcs
              exact ⟨hcs.1, hc'Ok, hcs.2.2⟩
          · rw [erase_node_length, erase_node_length]
            omega

theorem childEdit_localOk (e : ChildEdit)
    (he : match e with | .append c => c.SizeOk | .insert _ c => c.SizeOk | .remove _ => True) :
    LocalOk (fun n => match n with
      | .node t l m cs =>
        match e.apply cs with
        | some (cs', delta) => some (.node t l { m with size := (m.size + delta).toNat } cs', delta)
        | none => none
      | .leaf _ _ _ _ => none) := by
  intro n n' d hn hf
  cases n with
  | leaf _ _ _ _ => simp at hf
  | node t l m cs =>
    simp only at hf
    cases ha : e.apply cs with
    | none => simp [ha] at hf
    | some r =>
      obtain ⟨cs', delta⟩ := r
      simp only [ha, Option.some.injEq, Prod.mk.injEq] at hf
      obtain ⟨rfl, rfl⟩ := hf
      rw [node_sizeOk] at hn
      obtain ⟨hm, hcs⟩ := hn
      have key : SizeAllOk cs' ∧ (lenAll cs' : Int) = lenAll cs + delta := by
        cases e with
        | append c =>
          simp only [ChildEdit.apply, Option.some.injEq, Prod.mk.injEq] at ha
          obtain ⟨rfl, rfl⟩ := ha
          have hc : c.SizeOk := he
          have hsz := size_of_sizeOk c hc
          refine ⟨by rw [SizeAllOk_append]; exact ⟨hcs, by simp [SizeAllOk, hc]⟩, ?_⟩
          rw [lenAll_append, lenAll_cons, hsz]; simp [lenAll, eraseAll, encBoxes]
        | insert i c =>
          simp only [ChildEdit.apply, Option.some.injEq, Prod.mk.injEq] at ha
          obtain ⟨rfl, rfl⟩ := ha
          have hc : c.SizeOk := he
          have hsz := size_of_sizeOk c hc
          have hsplit : cs = cs.take i ++ cs.drop i := (List.take_append_drop i cs).symm
          have h1 : SizeAllOk (cs.take i) ∧ SizeAllOk (cs.drop i) := by
            rw [← SizeAllOk_append, List.take_append_drop]; exact hcs
          refine ⟨by simp only [insertAt]; rw [SizeAllOk_append, SizeAllOk_cons]; exact ⟨h1.1, hc, h1.2⟩, ?_⟩
          have h2 : lenAll cs = lenAll (cs.take i) + lenAll (cs.drop i) := by
            conv => lhs; rw [hsplit]
            rw [lenAll_append]
          simp only [insertAt]
          rw [lenAll_append, lenAll_cons, h2, hsz]; omega
        | remove i =>
          simp only [ChildEdit.apply] at ha
          cases hci : cs[i]? with
          | none => simp [hci] at ha
          | some c =>
            simp only [hci, Option.some.injEq, Prod.mk.injEq] at ha
            obtain ⟨rfl, rfl⟩ := ha
            have hsplit := split_at cs i c hci
            have h0 := hcs
            rw [hsplit, SizeAllOk_append, SizeAllOk_cons] at h0
            have hc : c.SizeOk := h0.2.1
            have hsz := size_of_sizeOk c hc
            rw [eraseIdx_eq cs i c hci]
            refine ⟨by rw [SizeAllOk_append]; exact ⟨h0.1, h0.2.2⟩, ?_⟩
            have h2 : lenAll cs = lenAll (cs.take i) + ((encBox c.erase).length + lenAll (cs.drop (i+1))) := by
              conv => lhs; rw [hsplit]
              rw [lenAll_append, lenAll_cons]
            rw [lenAll_append, h2, hsz]; omega
      obtain ⟨k1, k2⟩ := key
      refine ⟨?_, ?_⟩
      · rw [node_sizeOk]; exact ⟨by simp only [hm]; omega, k1⟩
      · rw [erase_node_length, erase_node_length]; omega

theorem leaf_sizeOk (t : BoxType) (l : Bool) (m : Meta) (p : Payload) :
    (STree.leaf t l m p).SizeOk ↔ m.size = hdrLen t l + (encPayload p).length := by
  simp [STree.SizeOk, encBox_leaf_length]

theorem tfdtAssign_length (x : Tfdt) (v : Nat) :
    (encTfdt (tfdtAssign x v).1).length = (encTfdt x).length + (tfdtAssign x v).2 := by
  unfold tfdtAssign
  split
  · rename_i h
    simp [encTfdt_length, h.1]
  · simp [encTfdt_length]

theorem setTfdt_localOk (v : Nat) :
    LocalOk (fun n => match n with
      | .leaf t l m (.tfdt x) =>
        let (x', delta) := tfdtAssign x v
        some (.leaf t l { m with size := m.size + delta } (.tfdt x'), (delta : Int))
      | _ => none) := by
  intro n n' d hn hf
  cases n with
  | node _ _ _ _ => simp at hf
  | leaf t l m p =>
    cases p with
    | tfdt x =>
      simp only [Option.some.injEq, Prod.mk.injEq] at hf
      obtain ⟨rfl, rfl⟩ := hf
      rw [leaf_sizeOk] at hn
      have := tfdtAssign_length x v
      refine ⟨?_, ?_⟩
      · rw [leaf_sizeOk]; simp only [encPayload, hn] at *; omega
      · simp only [STree.erase, encBox_leaf_length, encPayload]; omega
    | _ => simp at hf

/-- the edits whose effect on the encoded length `update_size` tracks -/
def Edit.Tracked : Edit → Prop
  | .child _ (.append c) => c.SizeOk
  | .child _ (.insert _ c) => c.SizeOk
  | .child _ (.remove _) => True
  | .setTfdt _ _ => True
  | .setPayload _ _ => False

theorem edit_sizeOk (root : STree) (e : Edit) (h : root.SizeOk) (he : e.Tracked) :
    ((e.apply root).getD root).SizeOk := by
  cases e with
  | child path ce =>
    simp only [Edit.apply]
    cases hr : STree.editAt _ path root with
    | none => simpa using h
    | some r =>
      obtain ⟨t', d⟩ := r
      have hl := childEdit_localOk ce (by cases ce <;> simpa [Edit.Tracked] using he)
      simpa using (editAt_sizeOk _ hl path root t' d h hr).1
  | setTfdt path v =>
    simp only [Edit.apply]
    cases hr : STree.editAt _ path root with
    | none => simpa using h
    | some r =>
      obtain ⟨t', d⟩ := r
      simpa using (editAt_sizeOk _ (setTfdt_localOk v) path root t' d h hr).1
  | setPayload _ _ => simp [Edit.Tracked] at he

theorem applyEdits_sizeOk (root : STree) (es : List Edit) (h : root.SizeOk)
    (hes : ∀ e ∈ es, e.Tracked) : (applyEdits root es).SizeOk := by
  induction es generalizing root with
  | nil => simpa [applyEdits] using h
  | cons e es ih =>
    simp only [applyEdits]
    exact ih _ (edit_sizeOk root e h (hes e (by simp))) (fun x hx => hes x (by simp [hx]))

/-! ### `encode` re-computes `size` and `position` -/
mutual
theorem encodeAt_spec : ∀ (t : STree) (pos : Nat),
    (t.encodeAt pos).1 = encBox t.erase ∧ (t.encodeAt pos).2.erase = t.erase ∧
    (t.encodeAt pos).2.MetaOk pos
  | .leaf t l m p, pos => by
    simp [STree.encodeAt, STree.erase, STree.MetaOk]
  | .node t l m cs, pos => by
    obtain ⟨h1, h2, h3⟩ := encodeAllAt_spec cs (pos + hdrLen t l)
    refine ⟨?_, ?_, ?_⟩
    · simp only [STree.encodeAt, STree.erase, h1, encBox]
    · simp only [STree.encodeAt, STree.erase, h2]
    · simp only [STree.encodeAt, STree.MetaOk, h1, h2, encBox_node_length]
      exact ⟨trivial, trivial, h3⟩
theorem encodeAllAt_spec : ∀ (cs : List STree) (pos : Nat),
    (encodeAllAt pos cs).1 = encBoxes (eraseAll cs) ∧
    eraseAll (encodeAllAt pos cs).2 = eraseAll cs ∧ MetaAllOk pos (encodeAllAt pos cs).2
  | [], pos => by simp [encodeAllAt, eraseAll, encBoxes, MetaAllOk]
  | c :: cs, pos => by
    obtain ⟨h1, h2, h3⟩ := encodeAt_spec c pos
    obtain ⟨h4, h5, h6⟩ := encodeAllAt_spec cs (pos + (c.encodeAt pos).1.length)
    rw [h1] at h4 h5 h6
    refine ⟨?_, ?_, ?_⟩
    · simp only [encodeAllAt, eraseAll, encBoxes, h1, h4]
    · simp only [encodeAllAt, eraseAll, h1, h2, h5]
    · simp only [encodeAllAt, MetaAllOk, h1, h2]
      exact ⟨h3, h6⟩
end

/-! ### lazily loaded boxes -/
mutual
theorem encL_of_lazy : ∀ {lt : LBox} {x : Box}, Lazy lt x → encL lt = encBox x
  | _, _, .raw x => by simp [encL]
  | _, _, .leaf t l p => by simp [encL]
  | _, _, .node t l cs xs h => by simp [encL, encBox, encLs_of_lazyAll h]
theorem encLs_of_lazyAll : ∀ {cs : List LBox} {xs : List Box}, LazyAll cs xs → encLs cs = encBoxes xs
  | _, _, .nil => by simp [encLs, encBoxes]
  | _, _, .cons c x cs xs h1 h2 => by simp [encLs, encBoxes, encL_of_lazy h1, encLs_of_lazyAll h2]
end

mutual
theorem force_of_lazy (ctx : SencCtx) : ∀ {lt : LBox} {x : Box}, Lazy lt x → BoxWf ctx x →
    force ctx lt = some x
  | _, _, .raw x, hx => by
    have h := decFile_encBoxes ctx [x] (by simp [BoxesWf, hx])
    simp only [encBoxes, List.append_nil] at h
    simp [force, h]
  | _, _, .leaf t l p, _ => by simp [force]
  | _, _, .node t l cs xs h, hx => by
    simp only [BoxWf] at hx
    simp [force, forceAll_of_lazyAll ctx h hx.2.2.1]
theorem forceAll_of_lazyAll (ctx : SencCtx) : ∀ {cs : List LBox} {xs : List Box}, LazyAll cs xs →
    BoxesWf ctx xs → forceAll ctx cs = some xs
  | _, _, .nil, _ => by simp [forceAll]
  | _, _, .cons c x cs xs h1 h2, hx => by
    simp only [BoxesWf] at hx
    simp [forceAll, force_of_lazy ctx h1 hx.1, forceAll_of_lazyAll ctx h2 hx.2]
end

end DashLive.Boxes
