import DashLive.Model.Crc32
/-! Lemmas about the bit writer/reader (`Model/Bits.lean`) and the CRC shift
register (`Model/Crc32.lean`). -/
namespace DashLive.Bits

@[simp] theorem putBits_length (n v : Nat) : (putBits n v).length = n := by
  induction n with
  | zero => rfl
  | succ n ih => simp [putBits, ih]

theorem foldl_putBits (n v acc : Nat) :
    (putBits n v).foldl (fun acc b => 2 * acc + b.toNat) acc = acc * 2 ^ n + v % 2 ^ n := by
  induction n generalizing acc with
  | zero => simp [putBits, Nat.mod_one]
  | succ n ih =>
    simp only [putBits, List.foldl_cons, ih, Nat.toNat_testBit]
    rw [Nat.mod_pow_succ, Nat.pow_succ, Nat.add_mul, Nat.mul_comm (2 ^ n) (v / 2 ^ n % 2)]
    have : 2 * acc * 2 ^ n = acc * (2 ^ n * 2) := by
      rw [Nat.mul_comm 2 acc, Nat.mul_assoc, Nat.mul_comm 2 (2 ^ n)]
    omega

theorem bitsToNat_putBits (n v : Nat) : bitsToNat (putBits n v) = v % 2 ^ n := by
  unfold bitsToNat
  rw [foldl_putBits]; omega

/-- **field round trip**: reading `n` bits back from where `n` bits of `v < 2ⁿ`
were written gives `v` and leaves the reader just after the field -/
theorem get_putBits (n v p : Nat) (rest : Bits) (h : v < 2 ^ n) :
    Rd.get ⟨p, putBits n v ++ rest⟩ n = some (v, ⟨p + n, rest⟩) := by
  unfold Rd.get
  have hl : ¬ (putBits n v ++ rest).length < n := by simp
  simp only [hl, if_false]
  rw [List.take_left' (putBits_length n v), List.drop_left' (putBits_length n v),
    bitsToNat_putBits, Nat.mod_eq_of_lt h]

/-- reading a field whose content is ignored (reserved bits) -/
theorem get_putBits_any (n v p : Nat) (rest : Bits) :
    ∃ x, Rd.get ⟨p, putBits n v ++ rest⟩ n = some (x, ⟨p + n, rest⟩) := by
  unfold Rd.get
  have hl : ¬ (putBits n v ++ rest).length < n := by simp
  simp only [hl, if_false]
  rw [List.take_left' (putBits_length n v), List.drop_left' (putBits_length n v)]
  exact ⟨_, rfl⟩

theorem getBool_cons (b : Bool) (p : Nat) (rest : Bits) :
    Rd.getBool ⟨p, b :: rest⟩ = some (b, ⟨p + 1, rest⟩) := rfl

/-- a one-bit field written from a `bool` -/
theorem putBits_one_bool (b : Bool) : putBits 1 b.toNat = [b] := by
  cases b <;> rfl

theorem getBool_putBits (b : Bool) (p : Nat) (rest : Bits) :
    Rd.getBool ⟨p, putBits 1 b.toNat ++ rest⟩ = some (b, ⟨p + 1, rest⟩) := by
  rw [putBits_one_bool]; rfl

/-- a raw bit string of known length read as one field -/
theorem get_raw (l : Bits) (n p : Nat) (rest : Bits) (h : l.length = n) :
    Rd.get ⟨p, l ++ rest⟩ n = some (bitsToNat l, ⟨p + n, rest⟩) := by
  unfold Rd.get
  have hl : ¬ (l ++ rest).length < n := by simp [h]
  simp only [hl, if_false]
  rw [List.take_left' h, List.drop_left' h]

/-- **length back-patching**: overwriting the placeholder written at `pos` -/
theorem overwrite_placeholder (pre post : Bits) (n v0 v : Nat) :
    overwrite (pre ++ putBits n v0 ++ post) pre.length n v = pre ++ putBits n v ++ post := by
  unfold overwrite
  have h1 : List.take pre.length (pre ++ putBits n v0 ++ post) = pre := by
    rw [List.append_assoc, List.take_left]
  have h2 : List.drop (pre.length + n) (pre ++ putBits n v0 ++ post) = post :=
    List.drop_left' (by simp)
  rw [h1, h2]

theorem putBytes_length (bs : List Nat) : (putBytes bs).length = 8 * bs.length := by
  induction bs with
  | nil => rfl
  | cons b bs ih =>
    simp only [putBytes, List.flatMap_cons, List.length_append, putBits_length, List.length_cons] at ih ⊢
    omega

theorem putBytes_cons (b : Nat) (bs : List Nat) : putBytes (b :: bs) = putBits 8 b ++ putBytes bs := rfl

theorem getBytes_putBytes (bs : List Nat) (p : Nat) (rest : Bits) (h : ∀ b ∈ bs, b < 256) :
    Rd.getBytes ⟨p, putBytes bs ++ rest⟩ bs.length = some (bs, ⟨p + 8 * bs.length, rest⟩) := by
  induction bs generalizing p with
  | nil => simp [Rd.getBytes, putBytes]
  | cons b bs ih =>
    have hb : b < 2 ^ 8 := h b List.mem_cons_self
    simp only [List.length_cons, Rd.getBytes, putBytes_cons, List.append_assoc,
      get_putBits 8 b p _ hb, Option.bind_eq_bind, Option.bind_some,
      ih (p + 8) (fun x hx => h x (List.mem_cons_of_mem _ hx))]
    congr 3
    omega

end DashLive.Bits

namespace DashLive.Crc32
open DashLive.Bits

theorem run_append (reg a b : Bits) : run reg (a ++ b) = run (run reg a) b := by
  unfold run; rw [List.foldl_append]

/-- **shift-register invariant**: when the register holds `xs` followed by `k`
zeros and the bits `xs` are fed in, every step shifts out a bit equal to the
incoming one, the feedback is never applied, and the register ends all zero. -/
theorem run_self (xs : Bits) (k : Nat) :
    run (xs ++ List.replicate k false) xs = List.replicate (xs.length + k) false := by
  induction xs generalizing k with
  | nil => simp [run]
  | cons x xs ih =>
    have hstep : step (x :: xs ++ List.replicate k false) x = xs ++ List.replicate (k + 1) false := by
      simp [step, List.replicate_succ', List.append_assoc]
    unfold run at ih ⊢
    rw [List.foldl_cons, hstep, ih (k + 1)]
    congr 1
    simp only [List.length_cons]; omega

/-- **CRC residue**: a message followed by its own CRC (the 32 register bits,
i.e. `crc.final()` written big-endian) has CRC 0 – for *every* message, every
initial register and every polynomial. -/
theorem run_residue (reg msg : Bits) :
    run reg (msg ++ run reg msg) = List.replicate (run reg msg).length false := by
  rw [run_append]
  have := run_self (run reg msg) 0
  simpa using this

theorem xorBits_length (a : Bits) (h : a.length = 32) : (xorBits a poly).length = 32 := by
  simp [xorBits, h, poly]

theorem step_length (reg : Bits) (b : Bool) (h : reg.length = 32) : (step reg b).length = 32 := by
  cases reg with
  | nil => simp at h
  | cons top rest =>
    have hr : (rest ++ [false]).length = 32 := by simp at h ⊢; omega
    simp only [step]
    split
    · exact xorBits_length _ hr
    · exact hr

theorem run_length (reg msg : Bits) (h : reg.length = 32) : (run reg msg).length = 32 := by
  induction msg generalizing reg with
  | nil => simpa [run] using h
  | cons b msg ih =>
    unfold run at ih ⊢
    rw [List.foldl_cons]
    exact ih _ (step_length reg b h)

theorem crcBits_length (msg : Bits) : (crcBits msg).length = 32 :=
  run_length _ _ (by simp [init])

theorem bitsToNat_replicate_false (n : Nat) : bitsToNat (List.replicate n false) = 0 := by
  unfold bitsToNat
  induction n with
  | zero => rfl
  | succ n ih => simpa [List.replicate_succ] using ih

end DashLive.Crc32
