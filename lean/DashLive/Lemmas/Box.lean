import DashLive.Model.Box
import DashLive.Lemmas.Boxes.Basic
import DashLive.Lemmas.Boxes.Frag
import DashLive.Lemmas.Boxes.Cenc
import DashLive.Lemmas.Boxes.Index
import DashLive.Lemmas.Boxes.Audio
/-! Lemmas about box headers, the payload dispatch and box trees (`Model/Box.lean`). -/
namespace DashLive.Boxes
open DashLive.Bytes

/-! ### header -/
theorem uuidCC_length : uuidCC.length = 4 := rfl

theorem BoxType.cc_length (t : BoxType) (h : t.Wf) : t.cc.length = 4 := by
  cases t with
  | std cc => exact h.1
  | uuid id => rfl

theorem encHeader_length (t : BoxType) (l : Bool) (n : Nat) :
    (encHeader t l n).length = hdrLen t l := by
  cases l <;> simp [encHeader, hdrLen] <;> omega

theorem hdrLen_wf (t : BoxType) (l : Bool) (h : t.Wf) :
    hdrLen t l = 8 + (if l then 8 else 0) + t.ext.length := by
  simp [hdrLen, BoxType.cc_length t h]

theorem decHeaderType_enc (t : BoxType) (l e : Bool) (n : Nat) (rest : Bytes) (h : t.Wf) :
    decHeaderType t.cc l e n (t.ext ++ rest)
      = some ({ typ := t, large := l, toEnd := e, size := n }, rest) := by
  cases t with
  | std cc =>
    have : cc ≠ uuidCC := h.2
    simp [decHeaderType, BoxType.cc, BoxType.ext, this]
  | uuid id =>
    have : id.length = 16 := h
    simp only [decHeaderType, BoxType.cc, BoxType.ext, if_true, takeN_append' 16 _ _ this,
      andThen_some]

theorem decHeader_encHeader (tail : Nat) (t : BoxType) (l : Bool) (n : Nat) (rest : Bytes)
    (ht : t.Wf) (hn : sizeOk l n) :
    decHeader tail (encHeader t l n ++ rest)
      = some ({ typ := t, large := l, toEnd := false, size := n }, rest) := by
  have hcc := BoxType.cc_length t ht
  cases l with
  | true =>
    simp only [sizeOk, if_true] at hn
    have h1 : (1 : Nat) < 4294967296 := by decide
    have hz : ¬ n = 0 := by omega
    simp only [decHeader, encHeader, if_true, List.append_assoc, decU32_encU32 _ _ h1, andThen_some,
      takeN_append' 4 _ _ hcc, decU64_encU64 _ _ hn.2, hz, if_false, decHeaderType_enc t _ _ _ _ ht]
  | false =>
    simp only [sizeOk, Bool.false_eq_true, if_false] at hn
    have h1 : ¬ n = 1 := by omega
    have h0 : ¬ n = 0 := by omega
    simp only [decHeader, encHeader, Bool.false_eq_true, if_false, List.append_assoc,
      decU32_encU32 _ _ hn.2, andThen_some, takeN_append' 4 _ _ hcc, h1, h0,
      decHeaderType_enc t _ _ _ _ ht]

theorem decHeaderType_spec {cc : Bytes} {l e : Bool} {n : Nat} {bs : Bytes} {h : Header}
    {rest : Bytes} (hcc : cc.length = 4) (hd : decHeaderType cc l e n bs = some (h, rest)) :
    h.typ.Wf ∧ h.large = l ∧ h.toEnd = e ∧ h.size = n ∧ h.typ.cc = cc ∧ h.typ.ext ++ rest = bs := by
  unfold decHeaderType at hd
  split at hd
  · rename_i hu
    simp only [andThen_eq_some_iff] at hd
    obtain ⟨id, r, h1, h2⟩ := hd
    simp only [Option.some.injEq, Prod.mk.injEq] at h2
    obtain ⟨rfl, rfl⟩ := h2
    obtain ⟨h3, h4⟩ := takeN_spec h1
    exact ⟨h3, rfl, rfl, rfl, hu.symm, h4⟩
  · rename_i hu
    simp only [Option.some.injEq, Prod.mk.injEq] at hd
    obtain ⟨rfl, rfl⟩ := hd
    exact ⟨⟨hcc, hu⟩, rfl, rfl, rfl, rfl, rfl⟩

/-- every accepted header with an explicit size is canonical: re-encoding it in
the form it had gives back the input -/
theorem decHeader_spec {tail : Nat} {bs : Bytes} {h : Header} {rest : Bytes}
    (hd : decHeader tail bs = some (h, rest)) :
    h.typ.Wf ∧ (h.toEnd = false → sizeOk h.large h.size ∧ encHeader h.typ h.large h.size ++ rest = bs) ∧
    (h.toEnd = true → h.size = bs.length + tail ∧ h.large = false) := by
  simp only [decHeader, andThen_eq_some_iff] at hd
  obtain ⟨sz, r1, h1, cc, r2, h2, h3⟩ := hd
  obtain ⟨hcc, hcc'⟩ := takeN_spec h2
  have hsz := decU32_range h1
  by_cases e1 : sz = 1
  · simp only [e1, if_true, andThen_eq_some_iff] at h3
    obtain ⟨lsz, r3, h4, h5⟩ := h3
    by_cases e0 : lsz = 0
    · simp [e0] at h5
    · simp only [e0, if_false] at h5
      obtain ⟨a, b, c, d, e, f⟩ := decHeaderType_spec hcc h5
      refine ⟨a, ?_, by simp [c]⟩
      intro _
      have hl := decU64_range h4
      refine ⟨by simp only [b, d, sizeOk, if_true]; omega, ?_⟩
      simp only [b, d, encHeader, if_true, List.append_assoc, e]
      rw [f, encU64_decU64 h4, hcc', ← e1, encU32_decU32 h1]
  · simp only [e1, if_false] at h3
    by_cases e0 : sz = 0
    · simp only [e0, if_true] at h3
      obtain ⟨a, b, c, d, e, f⟩ := decHeaderType_spec hcc h3
      exact ⟨a, by simp [c], fun _ => ⟨d, b⟩⟩
    · simp only [e0, if_false] at h3
      obtain ⟨a, b, c, d, e, f⟩ := decHeaderType_spec hcc h3
      refine ⟨a, ?_, by simp [c]⟩
      intro _
      refine ⟨by simp only [b, d, sizeOk, Bool.false_eq_true, if_false]; omega, ?_⟩
      simp only [b, d, encHeader, Bool.false_eq_true, if_false, List.append_assoc, e]
      rw [f, hcc', encU32_decU32 h1]

/-! ### payload dispatch -/
theorem decPayload_encPayload (ctx : SencCtx) (k : Kind) (p : Payload) (h : PayloadWf ctx k p) :
    decPayload ctx k (encPayload p) = some p := by
  cases k <;> cases p <;> simp only [PayloadWf] at h <;>
    first
    | simp only [decPayload, encPayload, decFtyp_encFtyp _ h, Option.map_some]
    | simp only [decPayload, encPayload, decMfhd_encMfhd _ h, Option.map_some]
    | simp only [decPayload, encPayload, decTfhd_encTfhd _ h, Option.map_some]
    | simp only [decPayload, encPayload, decTfdt_encTfdt _ h, Option.map_some]
    | simp only [decPayload, encPayload, decTrun_encTrun _ h, Option.map_some]
    | simp only [decPayload, encPayload, decSaiz_encSaiz _ h, Option.map_some]
    | simp only [decPayload, encPayload, decSaio_encSaio _ h, Option.map_some]
    | simp only [decPayload, encPayload, decTenc_encTenc _ h, Option.map_some]
    | simp only [decPayload, encPayload, decPssh_encPssh _ h, Option.map_some]
    | simp only [decPayload, encPayload, decMehd_encMehd _ h, Option.map_some]
    | simp only [decPayload, encPayload, decTrex_encTrex _ h, Option.map_some]
    | simp only [decPayload, encPayload, decSidx_encSidx _ h, Option.map_some]
    | simp only [decPayload, encPayload, decEmsg_encEmsg _ h, Option.map_some]
    | simp only [decPayload, encPayload, decDec3_encDec3 _ h, Option.map_some]
    | simp only [decPayload, encPayload, decSenc_encSenc _ _ h, Option.map_some]
    | simp only [decPayload, encPayload]

theorem PayloadWf_not_container (ctx : SencCtx) (p : Payload) : ¬ PayloadWf ctx .container p := by
  cases p <;> simp [PayloadWf]

end DashLive.Boxes
