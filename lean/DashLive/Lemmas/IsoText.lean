import DashLive.Model.IsoText
/-!
Helper lemmas for C19 (`Props/C19.lean`): decimal digits and padding, maximal
runs (`takeWhile`/`dropWhile`) and the recogniser primitives, zero stripping of
the millisecond field, the seconds field, the offset suffix, floor division.
Core Lean only.
-/
namespace DashLive.IsoText

/-! ### digits -/
def AllDigits (l : Text) : Prop := ∀ c ∈ l, c.isDigit = true

theorem allDigits_dec (n : Nat) : AllDigits (dec n) := fun _ hc =>
  Nat.isDigit_of_mem_toDigits (by decide) (by decide) hc

theorem dec_ne_nil (n : Nat) : dec n ≠ [] := Nat.toDigits_ne_nil

theorem num_dec (n : Nat) : num (dec n) = n := Nat.ofDigitChars_ten_toDigits

theorem allDigits_replicate_zero (k : Nat) : AllDigits (List.replicate k '0') := by
  intro c hc
  rw [List.mem_replicate] at hc
  rw [hc.2]; decide

theorem allDigits_append {a b : Text} (ha : AllDigits a) (hb : AllDigits b) : AllDigits (a ++ b) := by
  intro c hc
  rcases List.mem_append.mp hc with h | h
  · exact ha c h
  · exact hb c h

theorem allDigits_pad (k n : Nat) : AllDigits (pad k n) :=
  allDigits_append (allDigits_replicate_zero _) (allDigits_dec n)

theorem pad_ne_nil (k n : Nat) : pad k n ≠ [] := by
  unfold pad
  intro h
  exact dec_ne_nil n (List.append_eq_nil_iff.mp h).2

theorem num_append (a b : Text) : num (a ++ b) = 10 ^ b.length * num a + num b := by
  unfold num
  rw [Nat.ofDigitChars_append, Nat.ofDigitChars_eq_ofDigitChars_zero]

theorem num_replicate_zero (k : Nat) : num (List.replicate k '0') = 0 := by
  unfold num; simp

theorem num_pad (k n : Nat) : num (pad k n) = n := by
  unfold pad
  rw [num_append, num_replicate_zero, num_dec]; simp

theorem length_dec_le {n k : Nat} (hk : 0 < k) (h : n < 10 ^ k) : (dec n).length ≤ k :=
  (Nat.length_toDigits_le_iff (by decide) hk).mpr h

theorem length_pad {n k : Nat} (hk : 0 < k) (h : n < 10 ^ k) : (pad k n).length = k := by
  unfold pad
  have := length_dec_le hk h
  simp only [List.length_append, List.length_replicate]
  omega

theorem pad2_eq {n : Nat} (h : n < 100) : pad 2 n = [Nat.digitChar (n / 10), Nat.digitChar (n % 10)] := by
  unfold pad dec
  rw [Nat.toDigits_eq_if (by decide)]
  split
  · have : n / 10 = 0 := by omega
    have h2 : n % 10 = n := by omega
    simp [this, h2]
  · rw [Nat.toDigits_of_lt_base (by omega : n / 10 < 10)]
    simp

/-! ### maximal runs -/
theorem takeWhile_run {p : Char → Bool} {ds : Text} (c : Char) (rest : Text)
    (h : ∀ x ∈ ds, p x = true) (hc : p c = false) :
    (ds ++ c :: rest).takeWhile p = ds := by
  rw [List.takeWhile_append_of_pos h, List.takeWhile_cons_of_neg (by simp [hc])]; simp

theorem dropWhile_run {p : Char → Bool} {ds : Text} (c : Char) (rest : Text)
    (h : ∀ x ∈ ds, p x = true) (hc : p c = false) :
    (ds ++ c :: rest).dropWhile p = c :: rest := by
  rw [List.dropWhile_append_of_pos h, List.dropWhile_cons_of_neg (by simp [hc])]

theorem takeWhile_all {p : Char → Bool} {ds : Text} (h : ∀ x ∈ ds, p x = true) :
    ds.takeWhile p = ds := by
  have := List.takeWhile_append_of_pos (l₂ := []) h
  simpa using this

theorem dropWhile_all {p : Char → Bool} {ds : Text} (h : ∀ x ∈ ds, p x = true) :
    ds.dropWhile p = [] := by
  have := List.dropWhile_append_of_pos (l₂ := []) h
  simpa using this

theorem optField_hit {term : Char → Bool} {ds : Text} (c : Char) (rest : Text)
    (hd : AllDigits ds) (hne : ds ≠ []) (hc : c.isDigit = false) (ht : term c = true) :
    optField term (ds ++ c :: rest) = (some (num ds), rest) := by
  unfold optField
  rw [takeWhile_run c rest hd hc, dropWhile_run c rest hd hc]
  cases ds with
  | nil => exact absurd rfl hne
  | cons d ds => simp [ht]

theorem optField_miss {term : Char → Bool} {ds : Text} (c : Char) (rest : Text)
    (hd : AllDigits ds) (hc : c.isDigit = false) (ht : term c = false) :
    optField term (ds ++ c :: rest) = (none, ds ++ c :: rest) := by
  unfold optField
  rw [takeWhile_run c rest hd hc, dropWhile_run c rest hd hc]
  cases ds with
  | nil => simp
  | cons d ds => simp [ht]

theorem takeNat_run {ds : Text} (c : Char) (rest : Text)
    (hd : AllDigits ds) (hne : ds ≠ []) (hc : c.isDigit = false) :
    takeNat (ds ++ c :: rest) = some (num ds, c :: rest) := by
  unfold takeNat
  rw [takeWhile_run c rest hd hc, dropWhile_run c rest hd hc]
  cases ds with
  | nil => exact absurd rfl hne
  | cons d ds => simp

theorem takeNat_all {ds : Text} (hd : AllDigits ds) (hne : ds ≠ []) :
    takeNat ds = some (num ds, []) := by
  unfold takeNat
  rw [takeWhile_all hd, dropWhile_all hd]
  cases ds with
  | nil => exact absurd rfl hne
  | cons d ds => simp
/-! ### zero stripping -/
theorem takeWhile_zero_eq_replicate (l : Text) :
    l.takeWhile (· == '0') = List.replicate (l.takeWhile (· == '0')).length '0' := by
  induction l with
  | nil => simp
  | cons a l ih =>
    by_cases h : a = '0'
    · subst h
      simp only [beq_self_eq_true, List.takeWhile_cons_of_pos, List.length_cons, List.replicate_succ]
      rw [← ih]
    · rw [List.takeWhile_cons_of_neg (by simpa using h)]; simp

/-- stripping removes exactly a block of trailing zeros -/
theorem stripZeros_spec (l : Text) : ∃ z, l = stripZeros l ++ List.replicate z '0' := by
  refine ⟨(l.reverse.takeWhile (· == '0')).length, ?_⟩
  unfold stripZeros
  have h := List.takeWhile_append_dropWhile (p := (· == '0')) (l := l.reverse)
  have h2 := congrArg List.reverse h
  rw [List.reverse_append, List.reverse_reverse] at h2
  rw [takeWhile_zero_eq_replicate, List.reverse_replicate] at h2
  exact h2.symm

theorem allDigits_stripZeros {l : Text} (h : AllDigits l) : AllDigits (stripZeros l) := by
  intro c hc
  unfold stripZeros at hc
  rw [List.mem_reverse] at hc
  exact h c (List.mem_reverse.mp (List.dropWhile_subset _ hc))

theorem stripZeros_pad3 {ms : Nat} (h0 : 0 < ms) (h : ms < 1000) :
    stripZeros (pad 3 ms) ≠ [] ∧ (stripZeros (pad 3 ms)).length ≤ 3 ∧
    AllDigits (stripZeros (pad 3 ms)) ∧ fracMicrosRound (stripZeros (pad 3 ms)) = ms * 1000 := by
  obtain ⟨z, hz⟩ := stripZeros_spec (pad 3 ms)
  have hlen := length_pad (k := 3) (by decide) (by simpa using h)
  have hnum := num_pad 3 ms
  generalize stripZeros (pad 3 ms) = fs at hz ⊢
  have hl : fs.length + z = 3 := by
    have := congrArg List.length hz
    simp only [List.length_append, List.length_replicate] at this
    omega
  have hn : ms = 10 ^ z * num fs := by
    rw [hz, num_append, num_replicate_zero, List.length_replicate] at hnum
    omega
  refine ⟨?_, by omega, ?_, ?_⟩
  · rintro rfl
    simp [num, Nat.ofDigitChars] at hn
    omega
  · intro c hc
    exact allDigits_pad 3 ms c (by rw [hz]; exact List.mem_append_left _ hc)
  · unfold fracMicrosRound
    rw [if_pos (by omega)]
    have : 6 - fs.length = 3 + z := by omega
    rw [this, hn, Nat.pow_add]
    have : (10:Nat) ^ 3 = 1000 := by decide
    rw [this]
    ac_rfl

/-! ### the seconds field -/
theorem ne_dot_of_isDigit {c : Char} (h : c.isDigit = true) : (c != '.') = true := by
  by_cases hc : c = '.'
  · subst hc; exact absurd h (by decide)
  · simpa using hc

theorem isSecChar_of_isDigit {c : Char} (h : c.isDigit = true) : isSecChar c = true := by
  simp [isSecChar, h]

theorem contains_dot_false {fs : Text} (h : AllDigits fs) : fs.contains '.' = false := by
  rw [Bool.eq_false_iff]
  intro hc
  rw [List.contains_iff_mem] at hc
  exact absurd (h _ hc) (by decide)

theorem secondsMicros_whole {ds : Text} (hd : AllDigits ds) (hne : ds ≠ []) :
    secondsMicros ds = some (num ds * 1000000) := by
  unfold secondsMicros
  have h1 : ∀ x ∈ ds, (x != '.') = true := fun x hx => ne_dot_of_isDigit (hd x hx)
  rw [takeWhile_all h1, dropWhile_all h1]
  simp [hne]

theorem secondsMicros_frac {ds fs : Text} (hd : AllDigits ds) (hne : ds ≠ []) (hf : AllDigits fs) :
    secondsMicros (ds ++ '.' :: fs) = some (num ds * 1000000 + fracMicrosRound fs) := by
  unfold secondsMicros
  have h1 : ∀ x ∈ ds, (x != '.') = true := fun x hx => ne_dot_of_isDigit (hd x hx)
  rw [takeWhile_run '.' fs h1 (by decide), dropWhile_run '.' fs h1 (by decide)]
  have h2 : ¬ '.' ∈ fs := fun hm => absurd (hf _ hm) (by decide)
  simp [h2, hne]

/-! ### parsing a rendered duration -/

/-- the fraction part written by `toIsoDuration` for `ms` milliseconds -/
def fracPart (ms : Nat) : Text := if ms > 0 then '.' :: stripZeros (pad 3 ms) else []

theorem optField_nodigit {term : Char → Bool} (c : Char) (rest : Text) (hc : c.isDigit = false) :
    optField term (c :: rest) = (none, c :: rest) := by
  have := optField_miss (term := term) (ds := []) c rest (by intro x hx; cases hx) hc
  unfold optField
  rw [List.takeWhile_cons_of_neg (by simp [hc])]

/-- the seconds tail starts with the digits of `s` followed by `.` or `S` -/
theorem tail_form (s ms : Nat) :
    ∃ c rest, dec s ++ (fracPart ms ++ ['S']) = dec s ++ c :: rest ∧ (c = '.' ∨ c = 'S') := by
  unfold fracPart
  split
  · exact ⟨'.', _, rfl, Or.inl rfl⟩
  · exact ⟨'S', [], rfl, Or.inr rfl⟩

theorem parseSecondsPart_render (s ms : Nat) (hms : ms < 1000) :
    parseSecondsPart (dec s ++ (fracPart ms ++ ['S'])) = some (s * 1000000 + ms * 1000) := by
  have hsec : ∀ x ∈ dec s, isSecChar x = true := fun x hx => isSecChar_of_isDigit (allDigits_dec s x hx)
  unfold parseSecondsPart fracPart
  by_cases h0 : ms > 0
  · obtain ⟨hne, _, hdig, hval⟩ := stripZeros_pad3 h0 hms
    simp only [h0, if_true]
    have hall : ∀ x ∈ dec s ++ '.' :: stripZeros (pad 3 ms), isSecChar x = true := by
      intro x hx
      rcases List.mem_append.mp hx with h | h
      · exact hsec x h
      · rcases List.mem_cons.mp h with h | h
        · subst h; decide
        · exact isSecChar_of_isDigit (hdig x h)
    have e : dec s ++ ('.' :: stripZeros (pad 3 ms) ++ ['S'])
        = (dec s ++ '.' :: stripZeros (pad 3 ms)) ++ 'S' :: [] := by simp
    rw [e, takeWhile_run 'S' [] hall (by decide), dropWhile_run 'S' [] hall (by decide)]
    have hne' : dec s ++ '.' :: stripZeros (pad 3 ms) ≠ [] := by simp
    simp only [hne', if_false]
    rw [secondsMicros_frac (allDigits_dec s) (dec_ne_nil s) hdig, hval, num_dec]
    simp [atEnd]
  · simp only [h0, if_false, List.nil_append]
    rw [takeWhile_run 'S' [] hsec (by decide), dropWhile_run 'S' [] hsec (by decide)]
    simp only [dec_ne_nil s, if_false]
    rw [secondsMicros_whole (allDigits_dec s) (dec_ne_nil s), num_dec]
    have : ms = 0 := by omega
    simp [atEnd, this]

/-- the text of `toIsoDuration` after carry and field split -/
def hmsText (hrs mins s ms : Nat) : Text :=
  ['P', 'T']
    ++ (if hrs ≠ 0 then dec hrs ++ ['H'] else [])
    ++ (if hrs ≠ 0 ∨ mins ≠ 0 then dec mins ++ ['M'] else [])
    ++ dec s ++ fracPart ms ++ ['S']

theorem parseDuration_hms (hrs mins s ms : Nat) (hms : ms < 1000) :
    parseDuration (hmsText hrs mins s ms)
      = some ((hrs * 3600 + mins * 60 + s) * 1000000 + ms * 1000) := by
  obtain ⟨c, rest, htail, hc⟩ := tail_form s ms
  have hcd : c.isDigit = false := by rcases hc with rfl | rfl <;> decide
  have hcH : (fun c => c == 'H' || c == ':') c = false := by rcases hc with rfl | rfl <;> decide
  have hcM : (fun c => c == 'M' || c == ':') c = false := by rcases hc with rfl | rfl <;> decide
  have hsp := parseSecondsPart_render s ms hms
  unfold hmsText parseDuration
  by_cases hh : hrs = 0
  · by_cases hm : mins = 0
    · subst hh; subst hm
      simp only [ne_eq, not_true_eq_false, if_false, or_self, List.append_nil, List.cons_append,
        List.nil_append, List.append_assoc]
      rw [optField_nodigit 'T' _ (by decide), optField_nodigit 'T' _ (by decide),
        optField_nodigit 'T' _ (by decide)]
      simp only []
      rw [htail, optField_miss c rest (allDigits_dec s) hcd hcH,
        optField_miss c rest (allDigits_dec s) hcd hcM, ← htail, hsp]
      simp
    · subst hh
      simp only [ne_eq, not_true_eq_false, if_false, hm, not_false_eq_true, or_true, if_true,
        List.append_nil, List.cons_append, List.nil_append, List.append_assoc]
      rw [optField_nodigit 'T' _ (by decide), optField_nodigit 'T' _ (by decide),
        optField_nodigit 'T' _ (by decide)]
      simp only []
      rw [optField_miss 'M' _ (allDigits_dec mins) (by decide) (by decide),
        optField_hit 'M' _ (allDigits_dec mins) (dec_ne_nil mins) (by decide) (by decide), hsp,
        num_dec]
      simp only [Option.getD_none, Option.getD_some, Option.map_some, Option.some.injEq]
      omega
  · simp only [ne_eq, hh, not_false_eq_true, if_true, true_or,
      List.cons_append, List.nil_append, List.append_assoc]
    rw [optField_nodigit 'T' _ (by decide), optField_nodigit 'T' _ (by decide),
      optField_nodigit 'T' _ (by decide)]
    simp only []
    rw [optField_hit 'H' _ (allDigits_dec hrs) (dec_ne_nil hrs) (by decide) (by decide),
      optField_hit 'M' _ (allDigits_dec mins) (dec_ne_nil mins) (by decide) (by decide), hsp,
      num_dec, num_dec]
    simp only [Option.getD_none, Option.getD_some, Option.map_some, Option.some.injEq]
    omega

/-! ### date-time text -/

theorem field_run {ds : Text} (c : Char) (rest : Text)
    (hd : AllDigits ds) (hne : ds ≠ []) (hc : c.isDigit = false) :
    field c (ds ++ c :: rest) = some (num ds, rest) := by
  unfold field
  rw [takeNat_run c rest hd hne hc]
  simp [expect]

/-- the offset as `isoformat()` writes it -/
def offText (o : Int) : Text :=
  (if o < 0 then '-' else '+') :: pad 2 (o.natAbs / 60) ++ ':' :: pad 2 (o.natAbs % 60)

/-- the zone designator `to_iso_datetime` ends with -/
def tzText (off : Option Int) : Text :=
  match off with
  | none => ['Z']
  | some o => if o = 0 then ['Z'] else offText o

/-- date, time and fraction as `isoformat()` writes them -/
def bodyText (d : DateTime) : Text :=
  pad 4 d.year ++ '-' :: pad 2 d.month ++ '-' :: pad 2 d.day ++ 'T' :: pad 2 d.hour
    ++ ':' :: pad 2 d.minute ++ ':' :: pad 2 d.second
    ++ (if d.micro ≠ 0 then '.' :: pad 6 d.micro else [])

theorem offText_eq {o : Int} (h : o.natAbs < 1440) :
    offText o = [if o < 0 then '-' else '+', Nat.digitChar (o.natAbs / 60 / 10),
      Nat.digitChar (o.natAbs / 60 % 10), ':', Nat.digitChar (o.natAbs % 60 / 10),
      Nat.digitChar (o.natAbs % 60 % 10)] := by
  unfold offText
  rw [pad2_eq (by omega : o.natAbs / 60 < 100), pad2_eq (by omega : o.natAbs % 60 < 100)]
  rfl

theorem subZ_append_six (pre t : Text) (ht : t.length = 6) :
    subZ (pre ++ t) = if t = ['+', '0', '0', ':', '0', '0'] ∨ t = ['-', '0', '0', ':', '0', '0']
      then pre ++ ['Z'] else pre ++ t := by
  unfold subZ
  have hl : (pre ++ t).length - 6 = pre.length := by simp [ht]
  have hge : (pre ++ t).length ≥ 6 := by simp [ht]
  simp only [hl, List.drop_left, List.take_left, hge, true_and]

theorem subZ_offset (pre : Text) {o : Int} (h : o.natAbs < 1440) :
    subZ (pre ++ offText o) = pre ++ tzText (some o) := by
  rw [subZ_append_six pre (offText o) (by rw [offText_eq h]; rfl)]
  unfold tzText
  by_cases h0 : o = 0
  · subst h0
    simp [offText, pad, dec]
  · simp only [h0, if_false]
    rw [if_neg]
    rw [offText_eq h]
    simp only [List.cons.injEq, Nat.digitChar_eq_zero, and_true]
    omega

theorem toIsoDateTime_eq (d : DateTime) (h : d.offsetOk = true) :
    toIsoDateTime d = bodyText d ++ tzText d.offset := by
  unfold toIsoDateTime
  cases hoff : d.offset with
  | none => simp [isoformat, bodyText, tzText, hoff]
  | some o =>
    have ho : o.natAbs < 1440 := by simpa [DateTime.offsetOk, hoff] using h
    have : isoformat d = bodyText d ++ offText o := by
      simp [isoformat, bodyText, offText, hoff]
    simp only []
    rw [this, subZ_offset _ ho]

theorem parseTz_offText (o : Int) :
    parseTz (offText o) = (some o, []) := by
  unfold offText
  have h1 := field_run (ds := pad 2 (o.natAbs / 60)) ':' (pad 2 (o.natAbs % 60))
    (allDigits_pad _ _) (pad_ne_nil _ _) (by decide)
  have h2 := takeNat_all (ds := pad 2 (o.natAbs % 60)) (allDigits_pad _ _) (pad_ne_nil _ _)
  rw [num_pad] at h1 h2
  by_cases hneg : o < 0
  · simp only [hneg, if_true, List.cons_append]
    unfold parseTz
    simp only [h1, h2]
    simp
    omega
  · simp only [hneg, if_false, List.cons_append]
    unfold parseTz
    simp only [h1, h2]
    simp
    omega

theorem parseTz_tzText (off : Option Int) :
    parseTz (tzText off) = (some (off.getD 0), []) := by
  unfold tzText
  cases off with
  | none => rfl
  | some o =>
    by_cases h0 : o = 0
    · subst h0; rfl
    · simp only [h0, if_false, Option.getD_some]
      exact parseTz_offText o

/-- the first character of the zone designator is not part of the seconds run -/
theorem tzText_head (off : Option Int) :
    ∃ c rest, tzText off = c :: rest ∧ isSecChar c = false := by
  unfold tzText
  cases off with
  | none => exact ⟨'Z', [], rfl, by decide⟩
  | some o =>
    by_cases h0 : o = 0
    · exact ⟨'Z', [], by simp [h0], by decide⟩
    · simp only [h0, if_false, offText]
      by_cases hneg : o < 0
      · exact ⟨'-', pad 2 (o.natAbs / 60) ++ ':' :: pad 2 (o.natAbs % 60), by simp [hneg], by decide⟩
      · exact ⟨'+', pad 2 (o.natAbs / 60) ++ ':' :: pad 2 (o.natAbs % 60), by simp [hneg], by decide⟩

theorem parseSecond_render (sec us : Nat) (hus : us < 1000000) :
    parseSecond (pad 2 sec ++ (if us ≠ 0 then '.' :: pad 6 us else [])) = some (sec, us) := by
  have hnd : ¬ '.' ∈ pad 2 sec := fun hm => absurd (allDigits_pad 2 sec _ hm) (by decide)
  have hnd6 : ¬ '.' ∈ pad 6 us := fun hm => absurd (allDigits_pad 6 us _ hm) (by decide)
  have h1 : ∀ x ∈ pad 2 sec, (x != '.') = true := fun x hx => ne_dot_of_isDigit (allDigits_pad 2 sec x hx)
  unfold parseSecond
  by_cases h0 : us = 0
  · subst h0
    simp [hnd, num_pad]
  · simp only [ne_eq, h0, not_false_eq_true, if_true]
    rw [takeWhile_run '.' _ h1 (by decide), dropWhile_run '.' _ h1 (by decide)]
    have hlen : (pad 6 us).length = 6 := length_pad (by decide) (by simpa using hus)
    simp only [List.drop_succ_cons, List.drop_zero]
    rw [List.take_left' hlen, num_pad, num_pad]
    simp [hnd6, pad_ne_nil]

theorem parseSecTz_render (sec us : Nat) (off : Option Int) (hus : us < 1000000) :
    parseSecTz (pad 2 sec ++ (if us ≠ 0 then '.' :: pad 6 us else []) ++ tzText off)
      = some (sec, us, some (off.getD 0)) := by
  obtain ⟨c, rest, htz, hc⟩ := tzText_head off
  have hall : ∀ x ∈ pad 2 sec ++ (if us ≠ 0 then '.' :: pad 6 us else []), isSecChar x = true := by
    intro x hx
    rcases List.mem_append.mp hx with h | h
    · exact isSecChar_of_isDigit (allDigits_pad 2 sec x h)
    · split at h
      · rcases List.mem_cons.mp h with h | h
        · subst h; decide
        · exact isSecChar_of_isDigit (allDigits_pad 6 us x h)
      · cases h
  have hne : pad 2 sec ++ (if us ≠ 0 then '.' :: pad 6 us else []) ≠ [] := by
    intro h
    exact pad_ne_nil 2 sec (List.append_eq_nil_iff.mp h).1
  unfold parseSecTz
  dsimp only
  rw [htz, takeWhile_run c rest hall hc, dropWhile_run c rest hall hc, ← htz, parseTz_tzText,
    parseSecond_render sec us hus]
  simp [atEnd, pad_ne_nil]

theorem parseDateTime_render (d : DateTime) (hv : d.valid = true) :
    parseDateTime (bodyText d ++ tzText d.offset)
      = some { d with offset := some (d.offset.getD 0) } := by
  have hus : d.micro < 1000000 := by
    simp only [DateTime.valid, Bool.and_eq_true, decide_eq_true_eq] at hv
    exact hv.2
  have hv' : ({ d with offset := some (d.offset.getD 0) } : DateTime).valid = true := by
    simpa [DateTime.valid] using hv
  unfold parseDateTime bodyText
  simp only [List.append_assoc, List.cons_append]
  rw [field_run '-' _ (allDigits_pad 4 d.year) (pad_ne_nil _ _) (by decide)]
  simp only [Option.bind_some]
  rw [field_run '-' _ (allDigits_pad 2 d.month) (pad_ne_nil _ _) (by decide)]
  simp only [Option.bind_some]
  rw [field_run 'T' _ (allDigits_pad 2 d.day) (pad_ne_nil _ _) (by decide)]
  simp only [Option.bind_some]
  rw [field_run ':' _ (allDigits_pad 2 d.hour) (pad_ne_nil _ _) (by decide)]
  simp only [Option.bind_some]
  rw [field_run ':' _ (allDigits_pad 2 d.minute) (pad_ne_nil _ _) (by decide)]
  simp only [Option.bind_some]
  rw [← List.append_assoc, parseSecTz_render d.second d.micro d.offset hus]
  simp only [Option.bind_some, num_pad]
  rw [if_pos hv']

/-! ### tick conversions: floor division -/

theorem toTd_eq (tc ts : Int) (hts : 0 < ts) : timecodeToTimedelta tc ts = tc * 1000000 / ts := by
  unfold timecodeToTimedelta
  exact Int.fdiv_eq_ediv_of_nonneg _ (Int.le_of_lt hts)

/-- the (days, seconds, microseconds) split of a timedelta recombines to `⌊ts·δ/10⁶⌋` -/
theorem splitMul_eq (delta k : Int) :
    k * tdSeconds delta + k * tdDays delta * 86400 + Int.fdiv (k * tdMicros delta) 1000000
      = k * delta / 1000000 := by
  unfold tdSeconds tdDays tdMicros
  rw [Int.fdiv_eq_ediv_of_nonneg _ (by decide), Int.fdiv_eq_ediv_of_nonneg _ (by decide),
    Int.fdiv_eq_ediv_of_nonneg _ (by decide), Int.fmod_eq_emod_of_nonneg _ (by decide),
    Int.fmod_eq_emod_of_nonneg _ (by decide)]
  generalize hD : delta / 86400000000 = D
  generalize hS : delta % 86400000000 / 1000000 = S
  generalize hM : delta % 1000000 = M
  have hd : delta = 86400000000 * D + 1000000 * S + M := by omega
  have hk : k * delta = k * M + (k * S + k * D * 86400) * 1000000 := by
    rw [hd, Int.mul_add, Int.mul_add, Int.mul_left_comm k 86400000000 D,
      Int.mul_left_comm k 1000000 S]
    omega
  rw [hk, Int.add_mul_ediv_right _ _ (by decide)]
  omega

theorem toTc_eq (delta ts : Int) : timedeltaToTimecode delta ts = ts * delta / 1000000 := by
  rw [← splitMul_eq delta ts]
  unfold timedeltaToTimecode
  omega

theorem multiply_eq (delta k : Int) : multiplyTimedelta delta k = k * delta / 1000000 := by
  rw [← splitMul_eq delta k]
  rfl

end DashLive.IsoText
