import DashLive.Model.Bytes
/-!
Round-trip lemmas of the primitive codecs of `Model/Bytes.lean` (core Lean only,
no Mathlib).  For every codec `X`:

* `decX_encX : (v in range) → decX (encX v ++ rest) = some (v, rest)`
* `encX_decX : decX bs = some (v, rest) → encX v ++ rest = bs`
* `decX_range : decX bs = some (v, rest) → v in range`
* `decX_length : decX bs = some (v, rest) → bs.length = n + rest.length`
-/
namespace DashLive.Bytes

/-! ### sequencing -/
/-- deliberately not a `rfl`-lemma: `simp` then records a rewrite step instead of
asking the kernel for a definitional unfolding of the decoders -/
theorem andThen_some {α β : Type} (a : α) (r : Bytes) (f : α → Bytes → Option β) :
    andThen (some (a, r)) f = f a r := by unfold andThen; rfl

theorem andThen_none {α β : Type} (f : α → Bytes → Option β) :
    andThen (none : Option (α × Bytes)) f = none := by unfold andThen; rfl

theorem andThen_eq_some_iff {α β : Type} {o : Option (α × Bytes)} {f : α → Bytes → Option β}
    {b : β} : andThen o f = some b ↔ ∃ a r, o = some (a, r) ∧ f a r = some b := by
  cases o with
  | none => simp [andThen_none]
  | some p =>
    obtain ⟨a, r⟩ := p
    rw [andThen_some]
    constructor
    · intro h; exact ⟨a, r, rfl, h⟩
    · rintro ⟨a', r', h1, h2⟩
      simp only [Option.some.injEq, Prod.mk.injEq] at h1
      obtain ⟨rfl, rfl⟩ := h1
      exact h2

theorem encBE_length (n v : Nat) : (encBE n v).length = n := by
  induction n generalizing v with
  | zero => rfl
  | succ n ih => simp [encBE, ih]

theorem pow256_pos (n : Nat) : 0 < 256 ^ n := Nat.pow_pos (by decide)

theorem decBE_encBE (n v : Nat) (rest : Bytes) (h : v < 256 ^ n) :
    decBE n (encBE n v ++ rest) = some (v, rest) := by
  induction n generalizing v with
  | zero =>
    have : v = 0 := by simpa using h
    simp [encBE, decBE, this]
  | succ n ih =>
    have hp := pow256_pos n
    have hq : v / 256 ^ n < 256 := by
      apply Nat.div_lt_of_lt_mul
      rw [Nat.pow_succ] at h
      exact h
    have hr : v % 256 ^ n < 256 ^ n := Nat.mod_lt _ hp
    simp only [encBE, List.cons_append, decBE, ih _ hr]
    have h1 : (UInt8.ofNat (v / 256 ^ n)).toNat = v / 256 ^ n := by
      simp [UInt8.toNat_ofNat']; omega
    rw [h1]
    have h2 : v / 256 ^ n * 256 ^ n + v % 256 ^ n = v := by
      rw [Nat.mul_comm]; exact Nat.div_add_mod v (256 ^ n)
    rw [h2]

theorem decBE_spec (n : Nat) (bs : Bytes) (v : Nat) (rest : Bytes)
    (h : decBE n bs = some (v, rest)) :
    v < 256 ^ n ∧ encBE n v ++ rest = bs := by
  induction n generalizing bs v with
  | zero =>
    simp only [decBE, Option.some.injEq, Prod.mk.injEq] at h
    obtain ⟨rfl, rfl⟩ := h
    simp [encBE]
  | succ n ih =>
    cases bs with
    | nil => simp [decBE] at h
    | cons b bs =>
      simp only [decBE] at h
      cases hd : decBE n bs with
      | none => simp [hd] at h
      | some p =>
        obtain ⟨v', r'⟩ := p
        simp only [hd, Option.some.injEq, Prod.mk.injEq] at h
        obtain ⟨rfl, rfl⟩ := h
        obtain ⟨hlt, henc⟩ := ih bs v' hd
        have hp := pow256_pos n
        have hb : b.toNat < 256 := by have := b.toNat_lt; omega
        constructor
        · rw [Nat.pow_succ]
          calc b.toNat * 256 ^ n + v' < b.toNat * 256 ^ n + 256 ^ n := by omega
            _ = (b.toNat + 1) * 256 ^ n := by rw [Nat.add_mul]; simp
            _ ≤ 256 * 256 ^ n := Nat.mul_le_mul_right _ (by omega)
            _ = 256 ^ n * 256 := Nat.mul_comm _ _
        · have hdiv : (b.toNat * 256 ^ n + v') / 256 ^ n = b.toNat := by
            rw [Nat.mul_comm, Nat.mul_add_div hp, Nat.div_eq_of_lt hlt]; simp
          have hmod : (b.toNat * 256 ^ n + v') % 256 ^ n = v' := by
            rw [Nat.mul_comm, Nat.mul_add_mod, Nat.mod_eq_of_lt hlt]
          simp only [encBE, hdiv, hmod, List.cons_append, henc]
          simp

theorem decBE_range {n : Nat} {bs : Bytes} {v : Nat} {rest : Bytes}
    (h : decBE n bs = some (v, rest)) : v < 256 ^ n := (decBE_spec n bs v rest h).1

theorem encBE_decBE {n : Nat} {bs : Bytes} {v : Nat} {rest : Bytes}
    (h : decBE n bs = some (v, rest)) : encBE n v ++ rest = bs := (decBE_spec n bs v rest h).2

theorem decBE_length {n : Nat} {bs : Bytes} {v : Nat} {rest : Bytes}
    (h : decBE n bs = some (v, rest)) : bs.length = n + rest.length := by
  have := encBE_decBE h
  rw [← this, List.length_append, encBE_length]

/-! ### fixed widths (bounds as numerals so that `omega` can use them) -/

theorem decU8_encU8 (v : Nat) (rest : Bytes) (h : v < 256) :
    decU8 (encU8 v ++ rest) = some (v, rest) := decBE_encBE 1 v rest (by simpa using h)
theorem decU16_encU16 (v : Nat) (rest : Bytes) (h : v < 65536) :
    decU16 (encU16 v ++ rest) = some (v, rest) := decBE_encBE 2 v rest (by simpa using h)
theorem decU24_encU24 (v : Nat) (rest : Bytes) (h : v < 16777216) :
    decU24 (encU24 v ++ rest) = some (v, rest) := decBE_encBE 3 v rest (by simpa using h)
theorem decU32_encU32 (v : Nat) (rest : Bytes) (h : v < 4294967296) :
    decU32 (encU32 v ++ rest) = some (v, rest) := decBE_encBE 4 v rest (by simpa using h)
theorem decU64_encU64 (v : Nat) (rest : Bytes) (h : v < 18446744073709551616) :
    decU64 (encU64 v ++ rest) = some (v, rest) := decBE_encBE 8 v rest (by simpa using h)

theorem decU8_range {bs : Bytes} {v : Nat} {rest : Bytes} (h : decU8 bs = some (v, rest)) :
    v < 256 := by simpa using decBE_range h
theorem decU16_range {bs : Bytes} {v : Nat} {rest : Bytes} (h : decU16 bs = some (v, rest)) :
    v < 65536 := by simpa using decBE_range h
theorem decU24_range {bs : Bytes} {v : Nat} {rest : Bytes} (h : decU24 bs = some (v, rest)) :
    v < 16777216 := by simpa using decBE_range h
theorem decU32_range {bs : Bytes} {v : Nat} {rest : Bytes} (h : decU32 bs = some (v, rest)) :
    v < 4294967296 := by simpa using decBE_range h
theorem decU64_range {bs : Bytes} {v : Nat} {rest : Bytes} (h : decU64 bs = some (v, rest)) :
    v < 18446744073709551616 := by simpa using decBE_range h

theorem encU8_decU8 {bs : Bytes} {v : Nat} {rest : Bytes} (h : decU8 bs = some (v, rest)) :
    encU8 v ++ rest = bs := encBE_decBE h
theorem encU16_decU16 {bs : Bytes} {v : Nat} {rest : Bytes} (h : decU16 bs = some (v, rest)) :
    encU16 v ++ rest = bs := encBE_decBE h
theorem encU24_decU24 {bs : Bytes} {v : Nat} {rest : Bytes} (h : decU24 bs = some (v, rest)) :
    encU24 v ++ rest = bs := encBE_decBE h
theorem encU32_decU32 {bs : Bytes} {v : Nat} {rest : Bytes} (h : decU32 bs = some (v, rest)) :
    encU32 v ++ rest = bs := encBE_decBE h
theorem encU64_decU64 {bs : Bytes} {v : Nat} {rest : Bytes} (h : decU64 bs = some (v, rest)) :
    encU64 v ++ rest = bs := encBE_decBE h

@[simp] theorem encU8_length (v : Nat) : (encU8 v).length = 1 := encBE_length 1 v
@[simp] theorem encU16_length (v : Nat) : (encU16 v).length = 2 := encBE_length 2 v
@[simp] theorem encU24_length (v : Nat) : (encU24 v).length = 3 := encBE_length 3 v
@[simp] theorem encU32_length (v : Nat) : (encU32 v).length = 4 := encBE_length 4 v
@[simp] theorem encU64_length (v : Nat) : (encU64 v).length = 8 := encBE_length 8 v

/-! ### signed 32 bit -/

theorem i32ToNat_lt (v : Int) (h : -2147483648 ≤ v ∧ v < 2147483648) :
    i32ToNat v < 4294967296 := by
  unfold i32ToNat; split <;> omega

theorem natToI32_i32ToNat (v : Int) (h : -2147483648 ≤ v ∧ v < 2147483648) :
    natToI32 (i32ToNat v) = v := by
  unfold natToI32 i32ToNat; split <;> split <;> omega

theorem i32ToNat_natToI32 (u : Nat) (h : u < 4294967296) : i32ToNat (natToI32 u) = u := by
  unfold natToI32 i32ToNat; split <;> split <;> omega

theorem natToI32_range (u : Nat) (h : u < 4294967296) :
    -2147483648 ≤ natToI32 u ∧ natToI32 u < 2147483648 := by
  unfold natToI32; split <;> omega

theorem decI32_encI32 (v : Int) (rest : Bytes) (h : -2147483648 ≤ v ∧ v < 2147483648) :
    decI32 (encI32 v ++ rest) = some (v, rest) := by
  unfold decI32 encI32
  rw [decBE_encBE 4 _ rest (by simpa using i32ToNat_lt v h)]
  simp [natToI32_i32ToNat v h]

theorem decI32_spec {bs : Bytes} {v : Int} {rest : Bytes} (h : decI32 bs = some (v, rest)) :
    (-2147483648 ≤ v ∧ v < 2147483648) ∧ encI32 v ++ rest = bs := by
  unfold decI32 at h
  cases hd : decBE 4 bs with
  | none => simp [hd] at h
  | some p =>
    obtain ⟨u, r⟩ := p
    simp only [hd, Option.some.injEq, Prod.mk.injEq] at h
    obtain ⟨rfl, rfl⟩ := h
    have hu : u < 4294967296 := by simpa using decBE_range hd
    refine ⟨natToI32_range u hu, ?_⟩
    unfold encI32
    rw [i32ToNat_natToI32 u hu]
    exact encBE_decBE hd

@[simp] theorem encI32_length (v : Int) : (encI32 v).length = 4 := encBE_length 4 _

/-! ### fixed-length byte strings -/

theorem takeN_append (s rest : Bytes) : takeN s.length (s ++ rest) = some (s, rest) := by
  simp [takeN]

theorem takeN_append' (n : Nat) (s rest : Bytes) (h : s.length = n) :
    takeN n (s ++ rest) = some (s, rest) := by subst h; exact takeN_append s rest

theorem takeN_spec {n : Nat} {bs s rest : Bytes} (h : takeN n bs = some (s, rest)) :
    s.length = n ∧ s ++ rest = bs := by
  unfold takeN at h
  split at h
  · simp only [Option.some.injEq, Prod.mk.injEq] at h
    obtain ⟨rfl, rfl⟩ := h
    simp only [List.length_take, List.take_append_drop, and_true]
    omega
  · simp at h

/-! ### NUL-terminated strings -/

theorem decCStr_encCStr (s rest : Bytes) (h : ∀ b ∈ s, b ≠ 0) :
    decCStr (encCStr s ++ rest) = some (s, rest) := by
  induction s with
  | nil => simp [encCStr, decCStr]
  | cons b s ih =>
    have hb : b ≠ 0 := h b (by simp)
    have hs : ∀ b ∈ s, b ≠ 0 := fun x hx => h x (by simp [hx])
    have := ih hs
    simp only [encCStr, List.cons_append, decCStr, hb, if_false] at this ⊢
    rw [this]

theorem decCStr_spec {bs s rest : Bytes} (h : decCStr bs = some (s, rest)) :
    (∀ b ∈ s, b ≠ 0) ∧ encCStr s ++ rest = bs := by
  induction bs generalizing s with
  | nil => simp [decCStr] at h
  | cons b bs ih =>
    simp only [decCStr] at h
    by_cases hb : b = 0
    · simp only [hb, if_true, Option.some.injEq, Prod.mk.injEq] at h
      obtain ⟨rfl, rfl⟩ := h
      simp [encCStr, hb]
    · simp only [hb, if_false] at h
      cases hd : decCStr bs with
      | none => simp [hd] at h
      | some p =>
        obtain ⟨s', r'⟩ := p
        simp only [hd, Option.some.injEq, Prod.mk.injEq] at h
        obtain ⟨rfl, rfl⟩ := h
        obtain ⟨h1, h2⟩ := ih hd
        refine ⟨?_, ?_⟩
        · intro x hx
          simp only [List.mem_cons] at hx
          rcases hx with rfl | hx
          · exact hb
          · exact h1 x hx
        · simp only [encCStr, List.cons_append] at h2 ⊢
          rw [h2]

@[simp] theorem encCStr_length (s : Bytes) : (encCStr s).length = s.length + 1 := by
  simp [encCStr]

/-! ### repeated items -/

theorem decMany_encMany {α : Type} (enc : α → Bytes) (dec : Bytes → Option (α × Bytes))
    (l : List α) (rest : Bytes)
    (h : ∀ a ∈ l, ∀ r, dec (enc a ++ r) = some (a, r)) :
    decMany dec l.length (encMany enc l ++ rest) = some (l, rest) := by
  induction l with
  | nil => simp [decMany, encMany]
  | cons a as ih =>
    have ha := h a (by simp) (encMany enc as ++ rest)
    have has : ∀ x ∈ as, ∀ r, dec (enc x ++ r) = some (x, r) :=
      fun x hx => h x (by simp [hx])
    simp only [List.length_cons, decMany, encMany, List.append_assoc, ha, ih has]

theorem decMany_spec {α : Type} (enc : α → Bytes) (dec : Bytes → Option (α × Bytes))
    (P : α → Prop)
    (hdec : ∀ bs a r, dec bs = some (a, r) → P a ∧ enc a ++ r = bs)
    {n : Nat} {bs : Bytes} {l : List α} {rest : Bytes}
    (h : decMany dec n bs = some (l, rest)) :
    l.length = n ∧ (∀ a ∈ l, P a) ∧ encMany enc l ++ rest = bs := by
  induction n generalizing bs l with
  | zero =>
    simp only [decMany, Option.some.injEq, Prod.mk.injEq] at h
    obtain ⟨rfl, rfl⟩ := h
    simp [encMany]
  | succ n ih =>
    simp only [decMany] at h
    cases hd : dec bs with
    | none => simp [hd] at h
    | some p =>
      obtain ⟨a, r⟩ := p
      simp only [hd] at h
      cases hm : decMany dec n r with
      | none => simp [hm] at h
      | some q =>
        obtain ⟨as, r'⟩ := q
        simp only [hm, Option.some.injEq, Prod.mk.injEq] at h
        obtain ⟨rfl, rfl⟩ := h
        obtain ⟨hl, hP, henc⟩ := ih hm
        obtain ⟨hPa, hea⟩ := hdec bs a r hd
        refine ⟨by simp [hl], ?_, ?_⟩
        · intro x hx
          simp only [List.mem_cons] at hx
          rcases hx with rfl | hx
          · exact hPa
          · exact hP x hx
        · simp only [encMany, List.append_assoc, henc, hea]

theorem encMany_length_const {α : Type} (enc : α → Bytes) (k : Nat) (l : List α)
    (h : ∀ a ∈ l, (enc a).length = k) : (encMany enc l).length = k * l.length := by
  induction l with
  | nil => simp [encMany]
  | cons a as ih =>
    have ha := h a (by simp)
    have has : ∀ x ∈ as, (enc x).length = k := fun x hx => h x (by simp [hx])
    simp only [encMany, List.length_append, ha, ih has, List.length_cons, Nat.mul_succ]
    omega

end DashLive.Bytes
