import DashLive.Model.Segments
/-! Helper lemmas about the segment arithmetic (`Model/Segments.lean`):
prefix sums, the global sequence, `get_segment_index` as a least-index search. -/
namespace DashLive.Segments

/-! ### prefix sums -/

theorem durAt_of_lt {durs : List Nat} {k : Nat} (h : k < durs.length) : durAt durs k = durs[k] := by
  unfold durAt; simp [List.getD, h]

theorem prefixSum_zero (durs : List Nat) : prefixSum durs 0 = 0 := by simp [prefixSum]

theorem prefixSum_succ {durs : List Nat} {k : Nat} (h : k < durs.length) :
    prefixSum durs (k + 1) = prefixSum durs k + durAt durs k := by
  unfold prefixSum
  rw [List.take_add_one, List.sum_append, durAt_of_lt h]
  simp [h]

theorem prefixSum_length (durs : List Nat) : prefixSum durs durs.length = durs.sum := by
  simp [prefixSum]

theorem prefixSum_le_succ (durs : List Nat) (k : Nat) : prefixSum durs k ≤ prefixSum durs (k + 1) := by
  by_cases h : k < durs.length
  · rw [prefixSum_succ h]; omega
  · unfold prefixSum
    rw [List.take_of_length_le (by omega), List.take_of_length_le (by omega)]
    exact Nat.le_refl _

theorem prefixSum_mono (durs : List Nat) {j k : Nat} (h : j ≤ k) : prefixSum durs j ≤ prefixSum durs k := by
  induction k with
  | zero => have : j = 0 := by omega
            subst this; exact Nat.le_refl _
  | succ k ih =>
    by_cases hj : j = k + 1
    · subst hj; exact Nat.le_refl _
    · exact Nat.le_trans (ih (by omega)) (prefixSum_le_succ durs k)

theorem prefixSum_le_sum (durs : List Nat) (k : Nat) : prefixSum durs k ≤ durs.sum := by
  by_cases h : k ≤ durs.length
  · rw [← prefixSum_length]; exact prefixSum_mono durs h
  · unfold prefixSum; rw [List.take_of_length_le (by omega)]; exact Nat.le_refl _

/-- last stored segment: `P_{n-1} + d_{n-1} = Σ durs` -/
theorem prefixSum_last {durs : List Nat} {m : Nat} (h : m + 1 = durs.length) :
    prefixSum durs m + durAt durs m = durs.sum := by
  rw [← prefixSum_succ (by omega), h, prefixSum_length]

/-! ### division/modulo by the segment count when stepping to the next position -/

theorem succ_mod_of_lt {n g : Nat} (h : g % n + 1 < n) :
    (g + 1) % n = g % n + 1 ∧ (g + 1) / n = g / n := by
  have hn : 0 < n := by omega
  have h1 := Nat.div_add_mod g n
  have := (Nat.div_mod_unique (a := g + 1) (b := n) (c := g % n + 1) (d := g / n) hn).mpr
    ⟨by omega, h⟩
  exact ⟨this.2, this.1⟩

theorem succ_mod_of_eq {n g : Nat} (hn : 0 < n) (h : g % n + 1 = n) :
    (g + 1) % n = 0 ∧ (g + 1) / n = g / n + 1 := by
  have h1 := Nat.div_add_mod g n
  have := (Nat.div_mod_unique (a := g + 1) (b := n) (c := 0) (d := g / n + 1) hn).mpr
    ⟨by rw [Nat.mul_add]; omega, hn⟩
  exact ⟨this.2, this.1⟩

/-! ### the global sequence is gapless -/

theorem startG_succ_of_lt {durs : List Nat} (R g : Nat) (h : g % durs.length + 1 < durs.length) :
    startG durs R (g + 1) = startG durs R g + durG durs g := by
  obtain ⟨h1, h2⟩ := succ_mod_of_lt h
  unfold startG durG
  rw [h1, h2, prefixSum_succ (by omega)]
  omega

theorem startG_succ_of_eq {durs : List Nat} (R g : Nat) (hn : 0 < durs.length)
    (h : g % durs.length + 1 = durs.length) :
    startG durs R (g + 1) = (g / durs.length + 1) * R := by
  obtain ⟨h1, h2⟩ := succ_mod_of_eq hn h
  unfold startG
  rw [h1, h2, prefixSum_zero]
  omega

/-- **gapless**: each position starts where the previous one, with its *advertised*
duration (`+ drift` on the last segment of a loop), ends. -/
theorem startG_succ (durs : List Nat) (R g : Nat) (hn : 0 < durs.length) :
    (startG durs R (g + 1) : Int) = startG durs R g + durG' durs R g := by
  unfold durG'
  by_cases h : g % durs.length + 1 = durs.length
  · rw [startG_succ_of_eq R g hn h]
    simp only [h, if_true]
    have hl := prefixSum_last (durs := durs) (m := g % durs.length) h
    unfold startG durG
    push_cast
    have : ((prefixSum durs (g % durs.length) : Nat) : Int) + (durAt durs (g % durs.length) : Nat)
        = (durs.sum : Nat) := by exact_mod_cast hl
    rw [Int.add_mul, Int.one_mul]
    omega
  · have hlt : g % durs.length + 1 < durs.length := by
      have := Nat.mod_lt g hn; omega
    rw [startG_succ_of_lt R g hlt]
    simp only [h, if_false]
    push_cast; omega

/-! ### `get_segment_index` as a search for the least position -/

/-- the loop's continue-condition at position `g` -/
def before (durs : List Nat) (R tc g : Nat) : Prop := startG durs R g + durG durs g / 2 < tc

instance (durs : List Nat) (R tc g : Nat) : Decidable (before durs R tc g) := by
  unfold before; infer_instance

/-- linear search from `g` with at most `fuel` steps -/
def idxSearch (durs : List Nat) (R tc : Nat) : Nat → Nat → Nat
  | 0, g => g
  | f+1, g => if before durs R tc g then idxSearch durs R tc f (g + 1) else g

/-- the position `get_segment_index` selects -/
def index (durs : List Nat) (R tc : Nat) : Nat :=
  idxSearch durs R tc (durs.length + 1) (tc / R * durs.length)

/-- state of the Python loop that corresponds to position `g` -/
def repr (durs : List Nat) (R g : Nat) : Nat × Nat × Nat :=
  (g % durs.length, startG durs R g, g / durs.length * R)

theorem gsiLoop_sim (durs : List Nat) (R tc : Nat) (hn : 0 < durs.length) :
    ∀ fuel g, gsiLoop durs R tc fuel (g % durs.length) (startG durs R g) (g / durs.length * R)
      = repr durs R (idxSearch durs R tc fuel g) := by
  intro fuel
  induction fuel with
  | zero => intro g; simp [gsiLoop, idxSearch, repr]
  | succ f ih =>
    intro g
    unfold gsiLoop idxSearch
    have hb : (startG durs R g + durAt durs (g % durs.length) / 2 < tc) ↔ before durs R tc g := by
      unfold before durG; exact Iff.rfl
    by_cases hc : before durs R tc g
    · simp only [hb, hc, if_true]
      by_cases hw : g % durs.length + 1 ≥ durs.length
      · have he : g % durs.length + 1 = durs.length := by
          have := Nat.mod_lt g hn; omega
        simp only [hw, if_true]
        obtain ⟨h1, h2⟩ := succ_mod_of_eq hn he
        have := ih (g + 1)
        rw [h1, h2, startG_succ_of_eq R g hn he] at this
        rw [← this]
        congr 1 <;> rw [Nat.add_mul] <;> omega
      · simp only [hw, if_false]
        have hlt : g % durs.length + 1 < durs.length := by omega
        obtain ⟨h1, h2⟩ := succ_mod_of_lt hlt
        have := ih (g + 1)
        rw [h1, h2, startG_succ_of_lt R g hlt] at this
        exact this
    · simp only [hb, hc, if_false]; rfl

theorem getSegmentIndex_eq (durs : List Nat) (R tc : Nat) (hn : 0 < durs.length) :
    getSegmentIndex durs R tc =
      (index durs R tc % durs.length + 1, startG durs R (index durs R tc),
       index durs R tc / durs.length * R) := by
  unfold getSegmentIndex index
  have h0 : (tc / R * durs.length) % durs.length = 0 := Nat.mul_mod_left _ _
  have h1 : (tc / R * durs.length) / durs.length = tc / R := Nat.mul_div_cancel _ hn
  have hs : startG durs R (tc / R * durs.length) = tc / R * R := by
    unfold startG; rw [h0, h1, prefixSum_zero]; omega
  have := gsiLoop_sim durs R tc hn (durs.length + 1) (tc / R * durs.length)
  rw [h0, h1, hs] at this
  simp only [this, repr]

/-! ### properties of the search -/

theorem idxSearch_ge (durs : List Nat) (R tc : Nat) : ∀ fuel g, g ≤ idxSearch durs R tc fuel g := by
  intro fuel
  induction fuel with
  | zero => intro g; exact Nat.le_refl _
  | succ f ih =>
    intro g; unfold idxSearch
    split
    · exact Nat.le_trans (Nat.le_succ g) (ih (g + 1))
    · exact Nat.le_refl _

theorem idxSearch_le (durs : List Nat) (R tc : Nat) : ∀ fuel g, idxSearch durs R tc fuel g ≤ g + fuel := by
  intro fuel
  induction fuel with
  | zero => intro g; exact Nat.le_refl _
  | succ f ih =>
    intro g; unfold idxSearch
    split
    · have := ih (g + 1); omega
    · omega

/-- everything the search passed over satisfies the continue-condition -/
theorem idxSearch_before (durs : List Nat) (R tc : Nat) :
    ∀ fuel g g', g ≤ g' → g' < idxSearch durs R tc fuel g → before durs R tc g' := by
  intro fuel
  induction fuel with
  | zero => intro g g' h1 h2; simp [idxSearch] at h2; omega
  | succ f ih =>
    intro g g' h1 h2
    unfold idxSearch at h2
    split at h2
    · rename_i hb
      by_cases he : g' = g
      · subst he; exact hb
      · exact ih (g + 1) g' (by omega) h2
    · omega

/-- if some position within reach stops the search, the result stops it -/
theorem idxSearch_stops (durs : List Nat) (R tc : Nat) :
    ∀ fuel g g', g ≤ g' → g' ≤ g + fuel → ¬ before durs R tc g' →
      ¬ before durs R tc (idxSearch durs R tc (fuel + 1) g) ∧ idxSearch durs R tc (fuel + 1) g ≤ g' := by
  intro fuel
  induction fuel with
  | zero =>
    intro g g' h1 h2 h3
    have : g' = g := by omega
    subst this
    simp [idxSearch, h3]
  | succ f ih =>
    intro g g' h1 h2 h3
    unfold idxSearch
    by_cases hb : before durs R tc g
    · simp only [hb, if_true]
      have hne : g' ≠ g := by intro h; subst h; exact h3 hb
      exact ih (g + 1) g' (by omega) (by omega) h3
    · rw [if_neg hb]
      exact ⟨hb, h1⟩

theorem div_mul_le_lt (tc R : Nat) (hR : 0 < R) : tc / R * R ≤ tc ∧ tc < (tc / R + 1) * R := by
  have := Nat.div_add_mod tc R
  have := Nat.mod_lt tc hR
  rw [Nat.add_mul, Nat.mul_comm (tc / R) R]
  omega

/-- the first position of the next loop always stops the search: `n + 1` iterations suffice -/
theorem not_before_next_loop (durs : List Nat) (R tc : Nat) (hR : 0 < R) (hn : 0 < durs.length) :
    ¬ before durs R tc ((tc / R + 1) * durs.length) := by
  unfold before startG
  rw [Nat.mul_mod_left, Nat.mul_div_cancel _ hn, prefixSum_zero]
  have := (div_mul_le_lt tc R hR).2
  omega

/-- **specification of `get_segment_index`**: the selected position `g` is the least
position `≥ ⌊tc/R⌋·n` whose start plus half its duration reaches `tc`; it lies in the
loop containing `tc` or is the first position of the next loop. -/
theorem index_spec (durs : List Nat) (R tc : Nat) (hR : 0 < R) (hn : 0 < durs.length) :
    tc / R * durs.length ≤ index durs R tc ∧
    index durs R tc ≤ (tc / R + 1) * durs.length ∧
    ¬ before durs R tc (index durs R tc) ∧
    ∀ g', tc / R * durs.length ≤ g' → g' < index durs R tc → before durs R tc g' := by
  have hstop := idxSearch_stops durs R tc durs.length (tc / R * durs.length)
    ((tc / R + 1) * durs.length) (by rw [Nat.add_mul]; omega) (by rw [Nat.add_mul]; omega)
    (not_before_next_loop durs R tc hR hn)
  refine ⟨idxSearch_ge _ _ _ _ _, hstop.2, hstop.1, ?_⟩
  intro g' h1 h2
  exact idxSearch_before durs R tc _ _ g' h1 h2

/-- the search result is characterised by those properties (uniqueness of the least element) -/
theorem index_unique (durs : List Nat) (R tc g : Nat) (hR : 0 < R) (hn : 0 < durs.length)
    (h1 : tc / R * durs.length ≤ g) (h2 : ¬ before durs R tc g)
    (h3 : ∀ g', tc / R * durs.length ≤ g' → g' < g → before durs R tc g') :
    index durs R tc = g := by
  obtain ⟨a, _, c, d⟩ := index_spec durs R tc hR hn
  by_cases hlt : index durs R tc < g
  · exact absurd (h3 _ a hlt) c
  · by_cases hgt : g < index durs R tc
    · exact absurd (d g h1 hgt) h2
    · omega

/-- `before` is antitone in the timecode -/
theorem before_mono {durs : List Nat} {R tc₁ tc₂ g : Nat} (h : tc₁ ≤ tc₂)
    (hb : before durs R tc₁ g) : before durs R tc₂ g := by
  unfold before at *; omega

/-- **monotonicity**: a later timecode never selects an earlier position -/
theorem index_mono (durs : List Nat) (R tc₁ tc₂ : Nat) (hR : 0 < R) (hn : 0 < durs.length)
    (h : tc₁ ≤ tc₂) : index durs R tc₁ ≤ index durs R tc₂ := by
  obtain ⟨a1, _, _, d1⟩ := index_spec durs R tc₁ hR hn
  obtain ⟨a2, _, c2, _⟩ := index_spec durs R tc₂ hR hn
  have hdiv : tc₁ / R ≤ tc₂ / R := Nat.div_le_div_right h
  have hg0 : tc₁ / R * durs.length ≤ tc₂ / R * durs.length := Nat.mul_le_mul_right _ hdiv
  by_cases hlt : index durs R tc₂ < index durs R tc₁
  · have := d1 (index durs R tc₂) (Nat.le_trans hg0 a2) hlt
    exact absurd (before_mono h this) c2
  · omega

end DashLive.Segments
