import DashLive.Model.Range
/-!
Helper lemmas for Props/C13 (HTTP Range handling).

1. every integer the header parser produces is non-negative (the separator of
   `split('-')` is the only way to write a minus sign);
2. the decision stage on non-negative integers (`decideRange_spec`);
3. Python slice / file read as `drop`/`take`;
4. the parser on the canonical RFC 7233 text `bytes=` 1*DIGIT `-` [1*DIGIT].
-/
namespace DashLive.Range

/-! ### 1. parsed integers are non-negative -/

theorem mem_stripBy {p : Char → Bool} {s : List Char} {c : Char} (h : c ∈ stripBy p s) : c ∈ s := by
  unfold stripBy at h
  have h1 := List.mem_reverse.mp h
  have h2 := (List.dropWhile_sublist p).subset h1
  have h3 := List.mem_reverse.mp h2
  exact (List.dropWhile_sublist p).subset h3

theorem pyInt_nonneg {lim : Nat} {s : List Char} {v : Int} (hs : '-' ∉ s)
    (h : pyInt lim s = some v) : 0 ≤ v := by
  unfold pyInt at h
  have hneg : ¬ ((stripBy isSpaceInt s).head? = some '-') := by
    intro hh
    apply hs
    apply mem_stripBy (p := isSpaceInt)
    exact List.mem_of_head? hh
  simp only [hneg, if_false] at h
  split at h
  · split at h
    · exact absurd h (by simp)
    · have := Option.some.inj h
      omega
  · exact absurd h (by simp)

theorem splitDash_ne_nil (s : List Char) : splitDash s ≠ [] := by
  induction s with
  | nil => simp [splitDash]
  | cons c cs ih =>
    unfold splitDash
    split
    · simp
    · split <;> simp

theorem splitDash_no_dash (s : List Char) : ∀ p ∈ splitDash s, '-' ∉ p := by
  induction s with
  | nil => intro p hp; simp [splitDash] at hp; subst hp; simp
  | cons c cs ih =>
    intro p hp
    unfold splitDash at hp
    split at hp
    · rcases List.mem_cons.mp hp with h | h
      · subst h; simp
      · exact ih p h
    · rename_i hc
      split at hp
      · rename_i q qs heq
        rcases List.mem_cons.mp hp with h | h
        · subst h
          intro hm
          rcases List.mem_cons.mp hm with h1 | h1
          · exact hc h1.symm
          · exact ih q (by rw [heq]; simp) h1
        · exact ih p (by rw [heq]; simp [h])
      · rcases List.mem_cons.mp hp with h | h
        · subst h
          intro hm
          rcases List.mem_cons.mp hm with h1 | h1
          · exact hc h1.symm
          · simp at h1
        · simp at h

/-- every integer of a parsed header is ≥ 0 -/
def Parsed.Nonneg : Parsed → Prop
  | .suffix n => 0 ≤ n
  | .fromFirst a => 0 ≤ a
  | .firstLast a b => 0 ≤ a ∧ 0 ≤ b

theorem parseRange_nonneg {lim : Nat} {hdr : List Char} {p : Parsed}
    (h : parseRange lim hdr = some p) : p.Nonneg := by
  unfold parseRange at h
  simp only at h
  split at h
  · exact absurd h (by simp)
  · split at h
    · exact absurd h (by simp)
    · split at h
      · rename_i s e heq
        have hs : '-' ∉ s := splitDash_no_dash _ s (by rw [heq]; simp)
        have he : '-' ∉ e := splitDash_no_dash _ e (by rw [heq]; simp)
        split at h
        · cases hv : pyInt lim e with
          | none => rw [hv] at h; exact absurd h (by simp)
          | some v =>
            rw [hv] at h
            have := Option.some.inj h
            subst this
            exact pyInt_nonneg he hv
        · split at h
          · exact absurd h (by simp)
          · rename_i a ha
            split at h
            · have := Option.some.inj h
              subst this
              exact pyInt_nonneg hs ha
            · cases hv : pyInt lim e with
              | none => rw [hv] at h; exact absurd h (by simp)
              | some v =>
                rw [hv] at h
                have := Option.some.inj h
                subst this
                exact ⟨pyInt_nonneg hs ha, pyInt_nonneg he hv⟩
      · exact absurd h (by simp)

/-! ### 2. the decision stage -/

theorem intRepr_ofNat (n : Nat) : intRepr (n : Int) = natRepr n := rfl

theorem intRepr_nonneg {i : Int} (h : 0 ≤ i) : intRepr i = natRepr i.toNat := by
  cases i with
  | ofNat n => rfl
  | negSucc n => omega

/-- start/stop of the repaired code for non-negative parsed integers -/
theorem startStop_bounds (p : Parsed) (len : Nat) (hp : p.Nonneg) :
    0 ≤ (startStop p len).1 ∧ -1 ≤ (startStop p len).2 ∧ (startStop p len).2 < len := by
  cases p <;> simp only [Parsed.Nonneg] at hp <;> simp only [startStop] <;> omega

/-! ### 3. slices -/

theorem pySlice_nat {α : Type} (data : List α) (s e : Nat) (hs : s ≤ e + 1) (he : e + 1 ≤ data.length) :
    pySlice data (s : Int) ((e : Int) + 1) = (data.drop s).take (e + 1 - s) := by
  unfold pySlice pyIndex
  have h1 : ¬ ((s : Int) < 0) := by omega
  have h2 : ¬ ((data.length : Int) < (s : Int)) := by omega
  have h3 : ¬ ((e : Int) + 1 < 0) := by omega
  have h4 : ¬ ((data.length : Int) < (e : Int) + 1) := by omega
  simp only [h1, h2, h3, h4, if_false]
  have h5 : ((e : Int) + 1).toNat = e + 1 := by omega
  simp only [Int.toNat_natCast, h5]

theorem pySlice_empty {α : Type} (data : List α) (lo hi : Int) (h0 : 0 ≤ lo) (h1 : 0 ≤ hi)
    (h : hi ≤ lo) : pySlice data lo hi = [] := by
  unfold pySlice
  have : pyIndex data.length hi - pyIndex data.length lo = 0 := by
    unfold pyIndex
    split <;> split <;> (try split) <;> (try split) <;> omega
  rw [this]
  simp

theorem length_drop_take {α : Type} (data : List α) (s n : Nat) (h : s + n ≤ data.length) :
    ((data.drop s).take n).length = n := by
  simp only [List.length_take, List.length_drop]
  omega

/-! ### 4. the parser on canonical RFC 7233 text -/

/-- `1*DIGIT` -/
def IsDigits (ds : List Char) : Prop := ds ≠ [] ∧ ∀ c ∈ ds, c.isDigit = true

theorem isDigit_range {c : Char} (h : c.isDigit = true) : 48 ≤ c.toNat ∧ c.toNat ≤ 57 := by
  simp only [Char.isDigit, Bool.and_eq_true, decide_eq_true_eq] at h
  have h1 : (48 : UInt32) ≤ c.val := h.1
  have h2 : c.val ≤ (57 : UInt32) := h.2
  rw [UInt32.le_iff_toNat_le] at h1 h2
  have e1 : (48 : UInt32).toNat = 48 := rfl
  have e2 : (57 : UInt32).toNat = 57 := rfl
  rw [e1] at h1
  rw [e2] at h2
  exact ⟨h1, h2⟩

theorem lowerChar_digit {c : Char} (h : c.isDigit = true) : lowerChar c = c := by
  have := isDigit_range h
  unfold lowerChar
  rw [if_neg]
  omega

theorem not_space_digit {c : Char} (h : c.isDigit = true) : isSpaceStr c = false ∧ isSpaceInt c = false := by
  have := isDigit_range h
  unfold isSpaceStr isSpaceInt
  simp only [Bool.or_eq_false_iff, Bool.and_eq_false_iff, decide_eq_false_iff_not, beq_eq_false_iff_ne]
  omega

theorem digit_ne {c : Char} (h : c.isDigit = true) : c ≠ '-' ∧ c ≠ '+' ∧ c ≠ ',' ∧ c ≠ '_' := by
  have := isDigit_range h
  refine ⟨?_, ?_, ?_, ?_⟩ <;> (intro hc; subst hc; revert this; decide)

theorem dropWhile_all_neg {p : Char → Bool} {s : List Char} (h : ∀ c ∈ s, p c = false) :
    s.dropWhile p = s := by
  cases s with
  | nil => rfl
  | cons c cs => simp [List.dropWhile, h c (by simp)]

theorem stripBy_all_neg {p : Char → Bool} {s : List Char} (h : ∀ c ∈ s, p c = false) :
    stripBy p s = s := by
  unfold stripBy
  rw [dropWhile_all_neg h, dropWhile_all_neg (fun c hc => h c (List.mem_reverse.mp hc))]
  simp

theorem map_lower_digits {ds : List Char} (h : ∀ c ∈ ds, c.isDigit = true) :
    ds.map lowerChar = ds := by
  induction ds with
  | nil => rfl
  | cons c cs ih =>
    rw [List.map_cons, lowerChar_digit (h c (by simp)), ih (fun d hd => h d (by simp [hd]))]

theorem parseDigits_digits (ds : List Char) (hd : ∀ c ∈ ds, c.isDigit = true) :
    ∀ (prev : Bool) (acc cnt : Nat), (ds ≠ [] ∨ prev = true) →
      parseDigits ds prev acc cnt = some (Nat.ofDigitChars 10 ds acc, cnt + ds.length) := by
  induction ds with
  | nil =>
    intro prev acc cnt h
    have : prev = true := by simpa using h
    simp [parseDigits, this, Nat.ofDigitChars]
  | cons c cs ih =>
    intro prev acc cnt _
    have hc := hd c (by simp)
    unfold parseDigits
    simp only [hc, if_true]
    rw [ih (fun d hdm => hd d (by simp [hdm])) true _ _ (Or.inr rfl)]
    simp only [Nat.ofDigitChars_cons, List.length_cons]
    congr 2
    omega

/-- `int(ds, 10)` of a non-empty all-digit string with at most `lim` digits -/
theorem pyInt_digits {lim : Nat} {ds : List Char} (h : IsDigits ds) (hl : ds.length ≤ lim) :
    pyInt lim ds = some ((Nat.ofDigitChars 10 ds 0 : Nat) : Int) := by
  unfold pyInt
  rw [stripBy_all_neg (fun c hc => (not_space_digit (h.2 c hc)).2)]
  obtain ⟨hne, hall⟩ := h
  cases ds with
  | nil => exact absurd rfl hne
  | cons c cs =>
    have hc := digit_ne (hall c (by simp))
    have h1 : ¬ ((c :: cs).head? = some '-') := by simp [hc.1]
    have h2 : ¬ ((c :: cs).head? = some '+') := by simp [hc.2.1]
    simp only [h1, h2, or_self, if_false]
    rw [parseDigits_digits (c :: cs) hall false 0 0 (Or.inl (by simp))]
    simp only [Nat.zero_add]
    rw [if_neg (by omega)]

/-- more than `lim` digits: `ValueError` -/
theorem pyInt_too_long {lim : Nat} {ds : List Char} (h : IsDigits ds) (hl : lim < ds.length) :
    pyInt lim ds = none := by
  unfold pyInt
  rw [stripBy_all_neg (fun c hc => (not_space_digit (h.2 c hc)).2)]
  obtain ⟨hne, hall⟩ := h
  cases ds with
  | nil => exact absurd rfl hne
  | cons c cs =>
    have hc := digit_ne (hall c (by simp))
    have h1 : ¬ ((c :: cs).head? = some '-') := by simp [hc.1]
    have h2 : ¬ ((c :: cs).head? = some '+') := by simp [hc.2.1]
    simp only [h1, h2, or_self, if_false]
    rw [parseDigits_digits (c :: cs) hall false 0 0 (Or.inl (by simp))]
    simp only [Nat.zero_add]
    rw [if_pos hl]

theorem splitDash_no_dash_self {s : List Char} (h : '-' ∉ s) : splitDash s = [s] := by
  induction s with
  | nil => rfl
  | cons c cs ih =>
    have hc : c ≠ '-' := fun e => h (by simp [e])
    have hcs : '-' ∉ cs := fun e => h (by simp [e])
    unfold splitDash
    rw [if_neg hc, ih hcs]

theorem splitDash_two {a b : List Char} (ha : '-' ∉ a) (hb : '-' ∉ b) :
    splitDash (a ++ '-' :: b) = [a, b] := by
  induction a with
  | nil => simp [splitDash, splitDash_no_dash_self hb]
  | cons c cs ih =>
    have hc : c ≠ '-' := fun e => ha (by simp [e])
    have hcs : '-' ∉ cs := fun e => ha (by simp [e])
    simp only [List.cons_append]
    unfold splitDash
    rw [if_neg hc, ih hcs]

/-- the two digit strings of `first "-" [last]`: all digits, possibly empty -/
def AllDigits (ds : List Char) : Prop := ∀ c ∈ ds, c.isDigit = true

theorem allDigits_no_dash {ds : List Char} (h : AllDigits ds) : '-' ∉ ds :=
  fun hm => (digit_ne (h _ hm)).1 rfl

/-- everything up to `split('-')` on `<unit>=<d1>-<d2>` where `<unit>=` is
`bytes=` in any letter case -/
theorem parseRange_canonical_split {lim : Nat} {pre d1 d2 : List Char}
    (hpre : lower pre = bytesEq) (h1 : AllDigits d1) (h2 : AllDigits d2) :
    parseRange lim (pre ++ d1 ++ '-' :: d2) =
      (if d1 = [] then (pyInt lim d2).map Parsed.suffix
       else match pyInt lim d1 with
        | none => none
        | some a =>
          if d2 = [] then some (Parsed.fromFirst a) else (pyInt lim d2).map (Parsed.firstLast a)) := by
  have hlow : lower (pre ++ d1 ++ '-' :: d2) = bytesEq ++ (d1 ++ '-' :: d2) := by
    unfold lower at *
    rw [List.append_assoc, List.map_append, List.map_append, hpre, List.map_cons,
      map_lower_digits h1, map_lower_digits h2]
    rfl
  have hns : ∀ c ∈ bytesEq ++ (d1 ++ '-' :: d2), isSpaceStr c = false := by
    intro c hc
    simp only [List.mem_append, List.mem_cons] at hc
    rcases hc with hc | hc | hc | hc
    · simp only [bytesEq, List.mem_cons, List.not_mem_nil, or_false] at hc
      rcases hc with h | h | h | h | h | h <;> subst h <;> decide
    · exact (not_space_digit (h1 c hc)).1
    · subst hc; decide
    · exact (not_space_digit (h2 c hc)).1
  have hnc : ',' ∉ bytesEq ++ (d1 ++ '-' :: d2) := by
    intro hc
    simp only [List.mem_append, List.mem_cons] at hc
    rcases hc with hc | hc | hc | hc
    · revert hc; decide
    · exact (digit_ne (h1 _ hc)).2.2.1 rfl
    · revert hc; decide
    · exact (digit_ne (h2 _ hc)).2.2.1 rfl
  have htake : (bytesEq ++ (d1 ++ '-' :: d2)).take 6 = bytesEq := List.take_left' rfl
  have hdrop : (bytesEq ++ (d1 ++ '-' :: d2)).drop 6 = d1 ++ '-' :: d2 := List.drop_left' rfl
  unfold parseRange
  simp only [hlow, stripBy_all_neg hns]
  rw [if_neg (by rw [htake]; exact fun h => h rfl), if_neg hnc, hdrop,
    splitDash_two (allDigits_no_dash h1) (allDigits_no_dash h2)]
  rfl

/-! ### 5. specification vocabulary and the two consumers on a parsed header -/

/-- bytes `s..e` (inclusive) of the resource -/
def slice {α : Type} (data : List α) (s e : Nat) : List α := (data.drop s).take (e - s + 1)

/-- the text `bytes s-e/len` -/
def crText (s e len : Nat) : List Char :=
  ['b', 'y', 't', 'e', 's', ' '] ++ natRepr s ++ ['-'] ++ natRepr e ++ ['/'] ++ natRepr len

/-- 206 with bytes `s..e` and `Content-Range: bytes s-e/len` -/
def okResp {α : Type} (data : List α) (s e : Nat) : Response α :=
  { status := 206, body := slice data s e, contentRange := some (crText s e data.length) }

/-- 416 with `Content-Range: bytes */len` and an empty body -/
def unsatResp {α : Type} (data : List α) : Response α :=
  { status := 416, body := [], contentRange := some (crUnsatisfied data.length) }

/-- 400 without `Content-Range` -/
def badResp {α : Type} : Response α := { status := 400, body := [], contentRange := none }

theorem crSatisfied_nat (s e len : Nat) : crSatisfied (s : Int) (e : Int) len = crText s e len := rfl

theorem segment_unparsed {α : Type} {lim : Nat} {h : List Char} (data : List α)
    (hp : parseRange lim h = none) :
    segmentResponse lim (some h) data = badResp ∧ onDemandResponse lim (some h) data = badResp := by
  simp only [segmentResponse, segmentResponseWith, onDemandResponse, onDemandResponseWith,
    getHttpRangeWith, hp, badResp, and_self]

/-- what both consumers answer once the header has parsed -/
theorem consumers_parsed {α : Type} {lim : Nat} {h : List Char} {p : Parsed} (data : List α)
    (hp : parseRange lim h = some p) :
    (segmentResponse lim (some h) data =
      if (startStop p data.length).2 < (startStop p data.length).1 then unsatResp data
      else okResp data (startStop p data.length).1.toNat (startStop p data.length).2.toNat) ∧
    (onDemandResponse lim (some h) data =
      if (startStop p data.length).2 < (startStop p data.length).1 then unsatResp data
      else okResp data (startStop p data.length).1.toNat (startStop p data.length).2.toNat) := by
  obtain ⟨h0, h1, h2⟩ := startStop_bounds p data.length (parseRange_nonneg hp)
  simp only [segmentResponse, segmentResponseWith, onDemandResponse, onDemandResponseWith,
    getHttpRangeWith, hp, decideRange]
  generalize (startStop p data.length).1 = st at *
  generalize (startStop p data.length).2 = en at *
  by_cases hlt : en < st
  · simp only [hlt, if_true, unsatResp]
    refine ⟨?_, by simp⟩
    rw [pySlice_empty data st (en + 1) h0 (by omega) (by omega)]
  · simp only [hlt, if_false, okResp]
    obtain ⟨s, rfl⟩ := Int.eq_ofNat_of_zero_le h0
    obtain ⟨e, rfl⟩ := Int.eq_ofNat_of_zero_le (by omega : 0 ≤ en)
    have hs : ¬ ((s : Int) < 0) := by omega
    simp only [Int.toNat_natCast, crSatisfied_nat, if_true, hs, if_false]
    refine ⟨?_, ?_⟩
    · rw [pySlice_nat data s e (by omega) (by omega)]
      simp only [slice]
      have : e + 1 - s = e - s + 1 := by omega
      rw [this]
    · simp only [fileRead, slice]
      have h3 : ¬ (1 + (e : Int) - (s : Int) < 0) := by omega
      have h4 : (1 + (e : Int) - (s : Int)).toNat = e - s + 1 := by omega
      simp only [h3, if_false, h4]

/-! ### 6. RFC 7233 vocabulary: a valid single range and its canonical text -/

/-- the three forms of a single `byte-range-spec` / `suffix-byte-range-spec` -/
inductive Spec
  | firstLast (first last : Nat)
  | fromFirst (first : Nat)
  | suffix (n : Nat)
  deriving DecidableEq, Repr

/-- RFC 7233 §2.1: a `first-last` spec is (syntactically) valid only if `first ≤ last` -/
def Spec.Valid : Spec → Prop
  | .firstLast a b => a ≤ b
  | _ => True

/-- RFC 7233 §2.1: satisfiable iff `first-byte-pos < length`, or a non-zero
suffix length (of a non-empty resource: no `Content-Range` can name an empty body) -/
def Spec.satisfiable (len : Nat) : Spec → Bool
  | .firstLast a _ => decide (a < len)
  | .fromFirst a => decide (a < len)
  | .suffix n => decide (0 < n ∧ 0 < len)

/-- RFC 7233 §2.1: the first and last byte selected.  `last` is clamped to
`len − 1`; a suffix longer than the resource starts at 0 (truncated subtraction). -/
def Spec.bounds (len : Nat) : Spec → Nat × Nat
  | .firstLast a b => (a, min b (len - 1))
  | .fromFirst a => (a, len - 1)
  | .suffix n => (len - n, len - 1)

/-- value of a decimal digit string -/
def decVal (ds : List Char) : Nat := Nat.ofDigitChars 10 ds 0

/-- `d1 "-" d2` is the RFC 7233 text of `sp` (1*DIGIT, leading zeros allowed) -/
inductive Denotes : List Char → List Char → Spec → Prop
  | firstLast {d1 d2} (h1 : IsDigits d1) (h2 : IsDigits d2) :
      Denotes d1 d2 (.firstLast (decVal d1) (decVal d2))
  | fromFirst {d1} (h1 : IsDigits d1) : Denotes d1 [] (.fromFirst (decVal d1))
  | suffix {d2} (h2 : IsDigits d2) : Denotes [] d2 (.suffix (decVal d2))

/-- the parser and the clamping stage on the canonical text of a valid spec -/
theorem startStop_of_spec {d1 d2 : List Char} {sp : Spec} (lim len : Nat) (pre : List Char)
    (hpre : lower pre = bytesEq) (hden : Denotes d1 d2 sp) (hvalid : sp.Valid)
    (hl1 : d1.length ≤ lim) (hl2 : d2.length ≤ lim) :
    ∃ p, parseRange lim (pre ++ d1 ++ '-' :: d2) = some p ∧
      ((startStop p len).2 < (startStop p len).1 ↔ sp.satisfiable len = false) ∧
      (sp.satisfiable len = true →
        (startStop p len).1.toNat = (sp.bounds len).1 ∧ (startStop p len).2.toNat = (sp.bounds len).2) := by
  cases hden with
  | firstLast h1 h2 =>
    refine ⟨.firstLast (decVal d1) (decVal d2), ?_, ?_, ?_⟩
    · rw [parseRange_canonical_split hpre h1.2 h2.2, if_neg h1.1, pyInt_digits h1 hl1]
      simp only [if_neg h2.1, pyInt_digits h2 hl2, Option.map_some, decVal]
    · simp only [Spec.Valid] at hvalid
      simp only [startStop, Spec.satisfiable, decide_eq_false_iff_not]
      omega
    · simp only [Spec.Valid] at hvalid
      simp only [startStop, Spec.satisfiable, Spec.bounds, decide_eq_true_eq]
      omega
  | fromFirst h1 =>
    refine ⟨.fromFirst (decVal d1), ?_, ?_, ?_⟩
    · rw [parseRange_canonical_split hpre h1.2 (by intro c hc; simp at hc), if_neg h1.1,
        pyInt_digits h1 hl1]
      simp only [if_true, decVal]
    · simp only [startStop, Spec.satisfiable, decide_eq_false_iff_not]
      omega
    · simp only [startStop, Spec.satisfiable, Spec.bounds, decide_eq_true_eq]
      omega
  | suffix h2 =>
    refine ⟨.suffix (decVal d2), ?_, ?_, ?_⟩
    · rw [parseRange_canonical_split hpre (by intro c hc; simp at hc) h2.2, if_pos rfl,
        pyInt_digits h2 hl2]
      simp only [Option.map_some, decVal]
    · simp only [startStop, Spec.satisfiable, decide_eq_false_iff_not]
      omega
    · simp only [startStop, Spec.satisfiable, Spec.bounds, decide_eq_true_eq]
      omega

end DashLive.Range
