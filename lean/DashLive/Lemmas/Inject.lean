import DashLive.Model.Inject
import DashLive.Model.OptionErrors
/-! Helper lemmas for C16 (`Props/C16.lean`): the counter arithmetic, one step of the
injection check, the option codecs never raising `KeyError` outside the DRM selection. -/

namespace DashLive.Inject

/-! ### counter store -/

theorem set_same (st : Store) (u : Usage) (c : Int) (v : Nat) : (st.set u c v) u c = v := by
  simp [Store.set]

theorem set_other (st : Store) (u u' : Usage) (c c' : Int) (v : Nat) (h : ¬ (u' = u ∧ c' = c)) :
    (st.set u c v) u' c' = st u' c' := by
  simp [Store.set, h]

/-! ### the cycle `0, 1, …, N, 0, …` -/

theorem mod_succ_lt (m N : Nat) (h : m % (N + 1) < N) : (m + 1) % (N + 1) = m % (N + 1) + 1 := by
  rw [Nat.add_mod]
  have h1 : 1 % (N + 1) = 1 := Nat.mod_eq_of_lt (by omega)
  rw [h1]
  exact Nat.mod_eq_of_lt (by omega)

theorem mod_succ_eq (m N : Nat) (h : m % (N + 1) = N) : (m + 1) % (N + 1) = 0 := by
  rw [Nat.add_mod, h]
  by_cases hN : N = 0
  · subst hN; simp
  · have h1 : 1 % (N + 1) = 1 := Nat.mod_eq_of_lt (by omega)
    rw [h1]
    exact Nat.mod_self _

theorem mod_le (m N : Nat) : m % (N + 1) ≤ N := by
  have := Nat.mod_lt m (by omega : N + 1 > 0)
  omega

/-! ### `checkLoop` -/

/-- no entry is hit: nothing is answered, the session is untouched -/
theorem checkLoop_no_hit (u : Usage) (hit : Pos → Bool) (f : Option Int) :
    ∀ (errs : List (Int × Pos)) (st : Store), (∀ e ∈ errs, hit e.2 = false) →
      checkLoop u hit f errs st = (none, st) := by
  intro errs
  induction errs with
  | nil => intro st _; rfl
  | cons e rest ih =>
    intro st h
    obtain ⟨code, pos⟩ := e
    have h1 : hit pos = false := h (code, pos) (by simp)
    unfold checkLoop
    simp only [h1, Bool.not_false, if_true]
    exact ih st (fun e he => h e (by simp [he]))

/-- a synthetic status is the code of an entry that is hit -/
theorem checkLoop_some (u : Usage) (hit : Pos → Bool) (f : Option Int) :
    ∀ (errs : List (Int × Pos)) (st : Store) (code : Int),
      (checkLoop u hit f errs st).1 = some code → ∃ pos, (code, pos) ∈ errs ∧ hit pos = true := by
  intro errs
  induction errs with
  | nil => intro st code h; simp [checkLoop] at h
  | cons e rest ih =>
    intro st code h
    obtain ⟨c, pos⟩ := e
    unfold checkLoop at h
    by_cases hh : hit pos = true
    · simp only [hh, Bool.not_true, Bool.false_eq_true, if_false] at h
      cases f with
      | none =>
        simp only [Option.some.injEq] at h
        exact ⟨pos, by simp [h], hh⟩
      | some n =>
        simp only at h
        by_cases hc : c ≥ 500
        · simp only [hc, if_true] at h
          by_cases hn : ((incr st u c).1 : Int) > n
          · simp only [hn, if_true] at h
            obtain ⟨p, hp, hp2⟩ := ih _ _ h
            exact ⟨p, by simp [hp], hp2⟩
          · simp only [hn, if_false, Option.some.injEq] at h
            exact ⟨pos, by simp [h], hh⟩
        · simp only [hc, if_false, Option.some.injEq] at h
          exact ⟨pos, by simp [h], hh⟩
    · have hh' : hit pos = false := by simpa using hh
      simp only [hh', Bool.not_false, if_true] at h
      obtain ⟨p, hp, hp2⟩ := ih _ _ h
      exact ⟨p, by simp [hp], hp2⟩

/-- counters of another usage are never touched -/
theorem checkLoop_other_usage (u u' : Usage) (hne : u' ≠ u) (hit : Pos → Bool) (f : Option Int) :
    ∀ (errs : List (Int × Pos)) (st : Store) (c : Int),
      (checkLoop u hit f errs st).2 u' c = st u' c := by
  intro errs
  induction errs with
  | nil => intro st c; rfl
  | cons e rest ih =>
    intro st c
    obtain ⟨code, pos⟩ := e
    unfold checkLoop
    by_cases hh : hit pos = true
    · simp only [hh, Bool.not_true, Bool.false_eq_true, if_false]
      cases f with
      | none => rfl
      | some n =>
        simp only
        by_cases hc : code ≥ 500
        · simp only [hc, if_true]
          by_cases hn : ((incr st u code).1 : Int) > n
          · simp only [hn, if_true]
            rw [ih]
            simp [reset, incr, Store.set, hne]
          · simp only [hn, if_false]
            simp [incr, Store.set, hne]
        · simp only [hc, if_false]
    · have hh' : hit pos = false := by simpa using hh
      simp only [hh', Bool.not_false, if_true]
      exact ih st c

/-- a counter is only touched through a hit entry with that code, a code ≥ 500 and
`failures` given -/
theorem checkLoop_other_code (u : Usage) (hit : Pos → Bool) (f : Option Int) (c : Int) :
    ∀ (errs : List (Int × Pos)) (st : Store),
      (∀ e ∈ errs, e.1 = c → hit e.2 = true → (c < 500 ∨ f = none)) →
      (checkLoop u hit f errs st).2 u c = st u c := by
  intro errs
  induction errs with
  | nil => intro st _; rfl
  | cons e rest ih =>
    intro st h
    obtain ⟨code, pos⟩ := e
    have hrest : ∀ e ∈ rest, e.1 = c → hit e.2 = true → (c < 500 ∨ f = none) :=
      fun e he => h e (by simp [he])
    unfold checkLoop
    by_cases hh : hit pos = true
    · simp only [hh, Bool.not_true, Bool.false_eq_true, if_false]
      cases f with
      | none => rfl
      | some n =>
        simp only
        by_cases hc : code ≥ 500
        · simp only [hc, if_true]
          have hne : code ≠ c := by
            intro heq
            have := h (code, pos) (by simp) heq hh
            rcases this with h1 | h1
            · omega
            · cases h1
          by_cases hn : ((incr st u code).1 : Int) > n
          · simp only [hn, if_true]
            rw [ih _ hrest]
            simp [reset, incr, Store.set, Ne.symm hne]
          · simp only [hn, if_false]
            simp [incr, Store.set, Ne.symm hne]
        · simp only [hc, if_false]
    · have hh' : hit pos = false := by simpa using hh
      simp only [hh', Bool.not_false, if_true]
      exact ih st hrest

/-- a single entry `(c, pos)` with `c ≥ 500` and `failures = N`: one hit -/
theorem checkLoop_single_hit (u : Usage) (hit : Pos → Bool) (c : Int) (pos : Pos) (N : Nat)
    (hc : c ≥ 500) (hh : hit pos = true) (st : Store) :
    checkLoop u hit (some (N : Int)) [(c, pos)] st =
      if st u c < N then (some c, st.set u c (st u c + 1))
      else (none, (st.set u c (st u c + 1)).set u c 0) := by
  unfold checkLoop
  simp only [hh, Bool.not_true, Bool.false_eq_true, if_false, hc, if_true, incr, reset]
  by_cases hlt : st u c < N
  · have : ¬ (((st u c + 1 : Nat) : Int) > (N : Int)) := by omega
    simp only [this, if_false, hlt, if_true]
  · have : (((st u c + 1 : Nat) : Int) > (N : Int)) := by omega
    simp only [this, if_true, hlt, if_false]
    rfl

/-! ### `get_segment_index` terminates when `R > 0` -/

theorem gsiLoop_wrapped (durs : List Nat) (R tc o : Nat) (h : tc < o + R) (fuel : Nat) (hf : 1 ≤ fuel) :
    gsiLoop durs R tc fuel 0 (o + R) (o + R) = some (0, o + R, o + R) := by
  cases fuel with
  | zero => omega
  | succ f =>
    unfold gsiLoop
    have : ¬ (o + R + durAt durs 0 / 2 < tc) := by omega
    simp only [this, if_false]

theorem gsiLoop_some (durs : List Nat) (R tc : Nat) :
    ∀ (d m s o fuel : Nat), tc < o + R → durs.length - m ≤ d → d + 2 ≤ fuel →
      (gsiLoop durs R tc fuel m s o).isSome = true := by
  intro d
  induction d with
  | zero =>
    intro m s o fuel h hm hf
    cases fuel with
    | zero => omega
    | succ f =>
      unfold gsiLoop
      by_cases hc : s + durAt durs m / 2 < tc
      · have hw : m + 1 ≥ durs.length := by omega
        simp only [hc, if_true, hw]
        rw [gsiLoop_wrapped durs R tc o h f (by omega)]
        rfl
      · simp only [hc, if_false]; rfl
  | succ d ih =>
    intro m s o fuel h hm hf
    cases fuel with
    | zero => omega
    | succ f =>
      unfold gsiLoop
      by_cases hc : s + durAt durs m / 2 < tc
      · simp only [hc, if_true]
        by_cases hw : m + 1 ≥ durs.length
        · simp only [hw, if_true]
          rw [gsiLoop_wrapped durs R tc o h f (by omega)]
          rfl
        · simp only [hw, if_false]
          exact ih (m + 1) _ o f h (by omega) (by omega)
      · simp only [hc, if_false]; rfl

/-- with `R = 0` and a target beyond every segment start the loop never leaves -/
theorem gsiLoop_zero_runs (durs : List Nat) (tc : Nat) (hn : 0 < durs.length)
    (hbig : ∀ m, (durs.take m).sum + durAt durs m / 2 < tc) :
    ∀ (fuel m : Nat), m < durs.length →
      gsiLoop durs 0 tc fuel m ((durs.take m).sum) 0 = none := by
  intro fuel
  induction fuel with
  | zero => intro m _; rfl
  | succ f ih =>
    intro m hm
    unfold gsiLoop
    have h1 := hbig m
    simp only [h1, if_true]
    by_cases hw : m + 1 ≥ durs.length
    · simp only [hw, if_true]
      have := ih 0 hn
      simpa using this
    · simp only [hw, if_false]
      have hm' : m + 1 < durs.length := by omega
      have := ih (m + 1) hm'
      have e : (durs.take (m + 1)).sum = (durs.take m).sum + durAt durs m := by
        rw [List.take_add_one, List.sum_append]
        simp [durAt, List.getD, List.getElem?_eq_getElem (by omega : m < durs.length)]
      rw [e] at this
      exact this

end DashLive.Inject

namespace DashLive.OptionErrors
open DashLive.Options

/-! ### which exception classes the codecs produce for a `str` -/

section
variable {DT : Type} (C : DTCodec DT)

theorem intOrNone_not_key (s : Bytes) : intOrNone s ≠ .error .keyError := by
  unfold intOrNone
  split
  · intro h; cases h
  · split <;> intro h <;> cases h

theorem parseDT_not_key (s : Bytes) : parseDT C s ≠ .error .keyError := by
  unfold parseDT
  split
  · intro h; cases h
  · split <;> intro h <;> cases h

theorem errItem_not_key (item : Bytes) : errItem C item ≠ .error .keyError := by
  unfold errItem
  split
  · split
    · split <;> intro h <;> cases h
    · have := parseDT_not_key C ‹Bytes›
      split
      · rename_i e he
        intro h
        injection h with h
        subst h
        exact absurd he (parseDT_not_key C _)
      · split <;> intro h <;> cases h
  · intro h; cases h

theorem mapM_not_key {α β : Type} (f : α → Except Err β) (hf : ∀ a, f a ≠ .error .keyError) :
    ∀ l : List α, l.mapM f ≠ .error .keyError := by
  intro l
  induction l with
  | nil => intro h; cases h
  | cons a r ih =>
    rw [List.mapM_cons]
    cases ha : f a with
    | error e =>
      intro h
      have : e = .keyError := by
        simp only [bind, Except.bind] at h
        injection h
      subst this
      exact hf a ha
    | ok b =>
      cases hr : r.mapM f with
      | error e =>
        intro h
        have : e = .keyError := by
          simp only [bind, Except.bind] at h
          injection h
        subst this
        exact ih hr
      | ok bs =>
        intro h
        simp only [bind, Except.bind, pure, Except.pure] at h
        cases h

/-- `KeyError` comes out of a registered `from_string` only for the DRM selection
(`DrmLocation.from_string` in the `all-<loc>` form) -/
theorem fromString_key_only_drm (k : Kind) (s : Bytes) (h : fromString C k s = .error .keyError) :
    k = .drmSelection := by
  cases k with
  | drmSelection => rfl
  | bool => simp [fromString] at h
  | intOrNone =>
    simp only [fromString] at h
    cases hi : intOrNone s with
    | ok v => rw [hi] at h; cases h
    | error e =>
      rw [hi] at h
      simp only [Except.map] at h
      injection h with h
      subst h
      exact absurd hi (intOrNone_not_key s)
  | floatOrNone =>
    simp only [fromString] at h
    split at h
    · cases h
    · split at h <;> cases h
  | strOrNone => simp [fromString] at h
  | strRaw => simp [fromString] at h
  | listJoin => simp [fromString] at h
  | quotedUrl => simp [fromString] at h
  | astDateTime =>
    simp only [fromString] at h
    split at h
    · cases h
    · cases hp : parseDT C s with
      | ok v => rw [hp] at h; cases h
      | error e =>
        rw [hp] at h
        simp only [Except.map] at h
        injection h with h
        subst h
        exact absurd hp (parseDT_not_key C s)
  | dtOrNone =>
    simp only [fromString] at h
    split at h
    · cases h
    · cases hp : parseDT C s with
      | ok v => rw [hp] at h; cases h
      | error e =>
        rw [hp] at h
        simp only [Except.map] at h
        injection h with h
        subst h
        exact absurd hp (parseDT_not_key C s)
  | errorList =>
    simp only [fromString] at h
    split at h
    · cases h
    · cases hm : (splitOn 44 s).mapM (errItem C) with
      | ok v => rw [hm] at h; cases h
      | error e =>
        rw [hm] at h
        simp only [Except.map] at h
        injection h with h
        subst h
        exact absurd hm (mapM_not_key _ (errItem_not_key C) _)
  | intOrDefault d =>
    simp only [fromString] at h
    cases hi : intOrNone s with
    | ok v => rw [hi] at h; cases h
    | error e =>
      rw [hi] at h
      simp only [Except.map] at h
      injection h with h
      subst h
      exact absurd hi (intOrNone_not_key s)
  | posIntOrDefault d =>
    simp only [fromString] at h
    cases hi : intOrNone s with
    | error e =>
      rw [hi] at h
      simp only at h
      injection h with h
      subst h
      exact absurd hi (intOrNone_not_key s)
    | ok v =>
      rw [hi] at h
      cases v with
      | none => cases h
      | some z =>
        simp only at h
        split at h <;> cases h

/-- the classes a registered `from_string` raises for a `str`: `ValueError`, or
`KeyError` (DRM selection only) -/
theorem fromStringX_cases (k : Kind) (s : Bytes) :
    (∃ v, fromStringX C k s = .ok v) ∨ fromStringX C k s = .error .valueError ∨
      (fromStringX C k s = .error .keyError ∧ k = .drmSelection) := by
  by_cases hk : k = .floatOrNone
  · subst hk
    unfold fromStringX
    simp only
    split
    · exact Or.inl ⟨_, rfl⟩
    · split
      · exact Or.inl ⟨_, rfl⟩
      · exact Or.inr (Or.inl rfl)
  · have hx : fromStringX C k s =
        (match fromString C k s with
         | .ok v => .ok v
         | .error e => .error (Exc.ofErr e)) := by
      unfold fromStringX
      cases k <;> first | rfl | exact absurd rfl hk
    rw [hx]
    cases hf : fromString C k s with
    | ok v => exact Or.inl ⟨v, rfl⟩
    | error e =>
      cases e with
      | valueError => exact Or.inr (Or.inl rfl)
      | keyError => exact Or.inr (Or.inr ⟨rfl, fromString_key_only_drm C k s hf⟩)

theorem convertStepX_cases (tbl : List OptionRow) (acc : Nat → Val DT) (kv : Bytes × Bytes) :
    (∃ o, convertStepX C tbl acc kv = .ok o) ∨ convertStepX C tbl acc kv = .error .valueError := by
  unfold convertStepX
  split
  · exact Or.inl ⟨_, rfl⟩
  · split
    · exact Or.inl ⟨_, rfl⟩
    · rename_i i r _
      rcases fromStringX_cases C r.kind kv.2 with ⟨v, hv⟩ | hv | ⟨hv, _⟩
      · rw [hv]; exact Or.inl ⟨_, rfl⟩
      · rw [hv]; exact Or.inr rfl
      · rw [hv]; exact Or.inl ⟨_, rfl⟩

/-- `convert_options` hands on a value or `ValueError` – `KeyError` is swallowed, nothing
else is raised for `str` arguments -/
theorem convertX_cases (tbl : List OptionRow) :
    ∀ (q : List (Bytes × Bytes)) (dflt : Nat → Val DT),
      (∃ o, convertX C tbl dflt q = .ok o) ∨ convertX C tbl dflt q = .error .valueError := by
  intro q
  induction q with
  | nil => intro dflt; exact Or.inl ⟨dflt, rfl⟩
  | cons kv r ih =>
    intro dflt
    unfold convertX
    rcases convertStepX_cases C tbl dflt kv with ⟨o, ho⟩ | ho
    · rw [ho]; exact ih o
    · rw [ho]; exact Or.inr rfl

end

/-- `check_option_values` refuses with `ValueError` only -/
theorem checkValues_cases (C : DTCodec IsoClass) (tbl : List OptionRow) (dfltAst : Val IsoClass)
    (o : Nat → Val IsoClass) :
    (∃ o', checkValues C tbl dfltAst o = .ok o') ∨
      checkValues C tbl dfltAst o = .error .valueError := by
  have hcor : ∀ item e, corruptItem C item = .error e → e = .valueError := by
    intro item e
    unfold corruptItem
    split
    · intro h; cases h
    · cases hp : parseDT C item with
      | ok v =>
        cases v <;> (intro h; cases h)
      | error e' =>
        cases e' with
        | valueError => intro h; cases h; rfl
        | keyError => exact absurd hp (parseDT_not_key C item)
  have hmap : ∀ l : List Bytes, (∃ v, l.mapM (corruptItem C) = .ok v) ∨
      l.mapM (corruptItem C) = .error .valueError := by
    intro l
    induction l with
    | nil => exact Or.inl ⟨[], rfl⟩
    | cons a r ih =>
      rw [List.mapM_cons]
      cases ha : corruptItem C a with
      | error e =>
        have := hcor a e ha
        subst this
        exact Or.inr rfl
      | ok b =>
        rcases ih with ⟨v, hv⟩ | hv
        · rw [hv]; exact Or.inl ⟨b :: v, rfl⟩
        · rw [hv]; exact Or.inr rfl
  unfold checkValues
  by_cases h1 : drmNamesOk tbl o = true
  · by_cases h2 : utcMethodOk tbl o = true
    · simp only [h1, h2, Bool.not_true, Bool.false_eq_true, if_false]
      cases ha : astCheck dfltAst (field tbl o "start") with
      | error e =>
        have : e = .valueError := by
          unfold astCheck at ha
          split at ha <;> cases ha <;> rfl
        subst this
        exact Or.inr rfl
      | ok ast =>
        simp only
        rcases hmap (listItems (field tbl o "vcorrupt")) with ⟨v, hv⟩ | hv
        · rw [hv]
          simp only
          split
          · exact Or.inr rfl
          · split
            · exact Or.inr rfl
            · split
              · exact Or.inr rfl
              · exact Or.inl ⟨_, rfl⟩
        · rw [hv]
          exact Or.inr rfl
    · have h2' : utcMethodOk tbl o = false := by simpa using h2
      simp [h1, h2']
  · have h1' : drmNamesOk tbl o = false := by simpa using h1
    simp [h1']

end DashLive.OptionErrors

namespace DashLive.Inject

/-! ### request sequences -/

/-- the handler's position test of request `r` -/
def hits (r : Req) (pos : Pos) : Bool :=
  match r.usage with
  | .manifest => manifestHit r.seg r.clock pos
  | _ => mediaHit r.seg pos

theorem step_eq (r : Req) (st : Store) :
    step r st = checkLoop r.usage (hits r) r.spec.failures (r.spec.errsFor r.usage) st := by
  unfold step hits
  cases h : r.usage <;> simp [Spec.errsFor]

/-- `r` is a request of usage `u` whose injection spec for that usage is the single entry
`code=pos` with `failures=N` -/
def isTarget (u : Usage) (c : Int) (pos : Pos) (N : Nat) (r : Req) : Bool :=
  decide (r.usage = u ∧ r.spec.errsFor u = [(c, pos)] ∧ r.spec.failures = some (N : Int))

/-- `r` leaves the counter `(u, c)` alone, whatever the session -/
def Foreign (u : Usage) (c : Int) (r : Req) : Prop := ∀ st, (step r st).2 u c = st u c

/-- number of requests in `l` that are targets and at the addressed position -/
def countHits (u : Usage) (c : Int) (pos : Pos) (N : Nat) (l : List Req) : Nat :=
  (l.filter fun r => isTarget u c pos N r && hits r pos).length

theorem countHits_cons (u : Usage) (c : Int) (pos : Pos) (N : Nat) (r : Req) (l : List Req) :
    countHits u c pos N (r :: l) =
      (bif (isTarget u c pos N r && hits r pos) then 1 else 0) + countHits u c pos N l := by
  unfold countHits
  cases h : (isTarget u c pos N r && hits r pos)
  · simp [List.filter, h]
  · simp [List.filter, h]; omega

/-- the `k`-th hit (counting from 0) of a position with `failures = N` is answered with
the synthetic error iff `k mod (N+1) < N`: `N` failures, one success, and again -/
def fails (N k : Nat) : Bool := decide (k % (N + 1) < N)

/-- one step of a target request, counter at `m % (N+1)` -/
theorem step_target (u : Usage) (c : Int) (pos : Pos) (N : Nat) (hc : c ≥ 500) (r : Req)
    (ht : isTarget u c pos N r = true) (st : Store) (m : Nat) (hst : st u c = m % (N + 1)) :
    (step r st).1 = (bif (hits r pos && fails N m) then some c else none) ∧
    (step r st).2 u c = (m + (bif hits r pos then 1 else 0)) % (N + 1) := by
  have ht' := of_decide_eq_true ht
  obtain ⟨hu, he, hf⟩ := ht'
  rw [step_eq, hu, he, hf]
  cases hh : hits r pos
  · rw [checkLoop_no_hit u (hits r) _ [(c, pos)] st (by intro e he; simp at he; subst he; exact hh)]
    simp [hst]
  · rw [checkLoop_single_hit u (hits r) c pos N hc hh st]
    by_cases hlt : st u c < N
    · have hlt' : m % (N + 1) < N := by omega
      have hfl : fails N m = true := by simp [fails, hlt']
      simp only [hlt, if_true, hfl, Bool.and_self, cond_true]
      refine ⟨trivial, ?_⟩
      rw [set_same, mod_succ_lt m N hlt', hst]
    · have hle := mod_le m N
      have heq : m % (N + 1) = N := by omega
      have hfl : fails N m = false := by simp [fails]; omega
      simp only [hlt, if_false, hfl, Bool.and_false, cond_false, cond_true]
      refine ⟨trivial, ?_⟩
      rw [set_same, mod_succ_eq m N heq]

/-- **the counting law**, for a sequence in which every request is either a target or
leaves the counter alone -/
theorem run_target (u : Usage) (c : Int) (pos : Pos) (N : Nat) (hc : c ≥ 500) :
    ∀ (rs : List Req) (st : Store) (m : Nat), st u c = m % (N + 1) →
      (∀ r ∈ rs, isTarget u c pos N r = false → Foreign u c r) →
      ∀ (i : Nat) (r : Req), rs[i]? = some r → isTarget u c pos N r = true →
        (run rs st)[i]? = some
          (bif (hits r pos && fails N (m + countHits u c pos N (rs.take i)))
           then some c else none) := by
  intro rs
  induction rs with
  | nil => intro st m _ _ i r h; simp at h
  | cons r0 rs ih =>
    intro st m hst hF i r hi ht
    cases i with
    | zero =>
      simp only [List.getElem?_cons_zero, Option.some.injEq] at hi
      subst hi
      have := (step_target u c pos N hc r0 ht st m hst).1
      simp only [run, List.getElem?_cons_zero, List.take_zero]
      rw [this]
      simp [countHits]
    | succ i =>
      simp only [List.getElem?_cons_succ] at hi
      simp only [run, List.getElem?_cons_succ, List.take_succ_cons]
      by_cases ht0 : isTarget u c pos N r0 = true
      · have h2 := (step_target u c pos N hc r0 ht0 st m hst).2
        have := ih (step r0 st).2 (m + (bif hits r0 pos then 1 else 0)) h2
          (fun r hr => hF r (by simp [hr])) i r hi ht
        rw [this]
        have e : m + countHits u c pos N (r0 :: List.take i rs) =
            m + (bif hits r0 pos then 1 else 0) + countHits u c pos N (List.take i rs) := by
          rw [countHits_cons]
          simp only [ht0, Bool.true_and]
          omega
        rw [e]
      · have ht0' : isTarget u c pos N r0 = false := by simpa using ht0
        have hfor := hF r0 (by simp) ht0' st
        have := ih (step r0 st).2 m (by rw [hfor]; exact hst)
          (fun r hr => hF r (by simp [hr])) i r hi ht
        rw [this]
        have e : countHits u c pos N (r0 :: List.take i rs) = countHits u c pos N (List.take i rs) := by
          rw [countHits_cons]
          simp [ht0']
        rw [e]

end DashLive.Inject
