import DashLive.Model.Auth
import DashLive.Model.Csrf
/-!
Helper lemmas for C15: guard chains (`DashLive.Auth`) and the CSRF state machine
(`DashLive.Csrf`).  Core tactics only.
-/

/-! ## guard chains -/
namespace DashLive.Auth

theorem mem_allRoles (ρ : Role) : ρ ∈ allRoles := by
  cases ρ <;> decide

theorem mem_bools (b : Bool) : b ∈ bools := by
  cases b <;> decide

theorem mem_allRequests (r : Request) : r ∈ allRequests := by
  obtain ⟨a, b, c, d, e, f, g⟩ := r
  simp only [allRequests, List.mem_flatMap, List.mem_map]
  exact ⟨a, mem_bools a, b, mem_bools b, c, mem_bools c, d, mem_bools d, e, mem_bools e,
    f, mem_bools f, g, mem_bools g, rfl⟩

theorem evalChain_cons (g : Guard) (gs : List Guard) (ρ : Role) (r : Request) :
    evalChain (g :: gs) ρ r =
      (match guardVerdict g ρ r with
       | .pass => evalChain gs ρ r
       | v => v) := rfl

/-- a chain passes exactly when every guard passes -/
theorem evalChain_pass_iff (gs : List Guard) (ρ : Role) (r : Request) :
    evalChain gs ρ r = .pass ↔ ∀ g ∈ gs, guardVerdict g ρ r = .pass := by
  induction gs with
  | nil => simp [evalChain]
  | cons g gs ih =>
    rw [evalChain_cons]
    cases h : guardVerdict g ρ r with
    | pass => simp [ih, h]
    | stop s => simp [h]
    | block => simp [h]

theorem evalChain_append (as bs : List Guard) (ρ : Role) (r : Request) :
    evalChain (as ++ bs) ρ r =
      (match evalChain as ρ r with
       | .pass => evalChain bs ρ r
       | v => v) := by
  induction as with
  | nil => simp [evalChain]
  | cons g gs ih =>
    rw [List.cons_append, evalChain_cons, evalChain_cons]
    cases h : guardVerdict g ρ r with
    | pass => simpa using ih
    | stop s => rfl
    | block => rfl

/-- the literal decorator nest computes the same thing as the chain in execution order -/
theorem decorate_eval {α : Type} (gs : List Guard) (body : View α) (ρ : Role) (r : Request) :
    decorate gs body ρ r =
      (match evalChain gs ρ r with
       | .pass => body ρ r
       | .stop s => .stopped s
       | .block => .blocked) := by
  induction gs with
  | nil => rfl
  | cons g gs ih =>
    show wrap g (decorate gs body) ρ r = _
    rw [evalChain_cons]
    unfold wrap
    cases h : guardVerdict g ρ r with
    | pass => simpa using ih
    | stop s => rfl
    | block => rfl

theorem decorate_append {α : Type} (as bs : List Guard) (body : View α) :
    decorate (as ++ bs) body = decorate as (decorate bs body) := by
  unfold decorate
  rw [List.foldr_append]

/-- `as_view`'s loop makes the **last** class decorator the outermost one -/
theorem asView_eq_decorate_reverse {α : Type} (cds : List Guard) (v : View α) :
    asView cds v = decorate cds.reverse v := by
  unfold asView decorate
  rw [List.foldr_reverse]

theorem view_eq_decorate_chain {α : Type} (row : Row) (body : View α) :
    row.view body = decorate row.chain body := by
  unfold Row.view Row.chain
  rw [asView_eq_decorate_reverse, decorate_append, decorate_append]

end DashLive.Auth

/-! ## CSRF state machine -/
namespace DashLive.Csrf

theorem check_accepted_iff (c : Cfg) (st : St) (svc : Str) (ck : Option Str) (o t : Str) :
    (check c st svc ck o t).2 = .accepted ↔
      ∃ k, ck = some k ∧ k ≠ [] ∧ t ∉ st.used ∧
        t.drop saltLen = c.mac (message c.strictOrigin k svc o (t.take saltLen)) := by
  unfold check
  cases ck with
  | none => simp
  | some k =>
    by_cases hk : k = []
    · simp [hk]
    · by_cases hu : t ∈ st.used
      · simp [hk, hu]
      · by_cases hs : t.drop saltLen = c.mac (message c.strictOrigin k svc o (t.take saltLen))
        · simp [hk, hu, hs]
        · simp [hk, hu, hs]

/-- consumed tokens stay consumed through a check -/
theorem check_used_mono (c : Cfg) (st : St) (svc : Str) (ck : Option Str) (o t x : Str)
    (h : x ∈ st.used) : x ∈ (check c st svc ck o t).1.used := by
  unfold check
  cases ck with
  | none => simpa using h
  | some k =>
    by_cases hk : k = []
    · simpa [hk] using h
    · by_cases hu : t ∈ st.used
      · simpa [hk, hu] using h
      · by_cases hs : t.drop saltLen = c.mac (message c.strictOrigin k svc o (t.take saltLen))
        · simp [hk, hu, hs, h]
        · simp [hk, hu, hs, h]

/-- an accepted token has been recorded -/
theorem check_accepted_records (c : Cfg) (st : St) (svc : Str) (ck : Option Str) (o t : Str)
    (h : (check c st svc ck o t).2 = .accepted) : t ∈ (check c st svc ck o t).1.used := by
  obtain ⟨k, rfl, hk, hu, hs⟩ := (check_accepted_iff c st svc ck o t).1 h
  unfold check
  simp [hk, hu, hs]

/-- a token with a wrong signature has been recorded too (the code records first) -/
theorem check_badSignature_records (c : Cfg) (st : St) (svc : Str) (ck : Option Str) (o t : Str)
    (h : (check c st svc ck o t).2 = .badSignature) : t ∈ (check c st svc ck o t).1.used := by
  unfold check at h ⊢
  cases ck with
  | none => simp at h
  | some k =>
    by_cases hk : k = []
    · simp [hk] at h
    · by_cases hu : t ∈ st.used
      · simp [hk, hu] at h
      · by_cases hs : t.drop saltLen = c.mac (message c.strictOrigin k svc o (t.take saltLen))
        · simp [hk, hu, hs] at h
        · simp [hk, hu, hs]

/-- a consumed token is never accepted -/
theorem check_of_used (c : Cfg) (st : St) (svc : Str) (ck : Option Str) (o t : Str)
    (h : t ∈ st.used) : (check c st svc ck o t).2 ≠ .accepted := by
  intro hacc
  obtain ⟨_, _, _, hu, _⟩ := (check_accepted_iff c st svc ck o t).1 hacc
  exact hu h

theorem acceptedCount_cons (t : Str) (p : Ev × Option Result) (h : List (Ev × Option Result)) :
    acceptedCount t (p :: h) =
      (if (p.1.token? == some t && p.2 == some Result.accepted) = true then 1 else 0)
        + acceptedCount t h := by
  unfold acceptedCount
  rw [List.filter_cons]
  split <;> simp <;> omega

theorem run_cons (c : Cfg) (st : St) (e : Ev) (es : List Ev) :
    run c st (e :: es) = (e, (step c st e).2) :: run c (step c st e).1 es := rfl

/-- once consumed, a token is not accepted again as long as nothing is pruned -/
theorem acceptedCount_zero_of_used (c : Cfg) (t : Str) :
    ∀ (evs : List Ev) (st : St), (∀ e ∈ evs, e.isPrune = false) → t ∈ st.used →
      acceptedCount t (run c st evs) = 0 := by
  intro evs
  induction evs with
  | nil => intro st _ _; rfl
  | cons e es ih =>
    intro st hnp hu
    have hes : ∀ e' ∈ es, e'.isPrune = false := fun e' h' => hnp e' (List.mem_cons_of_mem _ h')
    rw [run_cons, acceptedCount_cons]
    cases e with
    | prune => exact absurd (hnp Ev.prune (List.mem_cons_self ..)) (by simp [Ev.isPrune])
    | check svc ck o t' =>
      have hu' : t ∈ (step c st (Ev.check svc ck o t')).1.used := by
        simp only [step]
        exact check_used_mono c st svc ck o t' t hu
      rw [ih _ hes hu']
      by_cases heq : t' = t
      · subst heq
        have := check_of_used c st svc ck o t' hu
        simp [step, Ev.token?, this]
      · simp [Ev.token?, heq]

end DashLive.Csrf
