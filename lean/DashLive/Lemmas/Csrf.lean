import DashLive.Model.Auth
import DashLive.Model.Csrf
import DashLive.Model.Life
/-!
Helper lemmas for C15: guard chains (`DashLive.Auth`) and the CSRF state machine
(`DashLive.Csrf`).  Core tactics only.
-/

/-! ## guard chains -/
namespace DashLive.Auth

theorem mem_bools (b : Bool) : b ∈ bools := by
  cases b <;> decide

theorem mem_idents (u : Ident) : u ∈ idents := by
  cases u <;> decide

theorem mem_tokens (t : Option Ident) : t ∈ tokens := by
  cases t with
  | none => simp [tokens]
  | some u => simp [tokens, mem_idents u]

theorem forallCreds_spec (p : Request → Bool) (h : forallCreds p = true)
    (s : Ident) (t : Option Ident) (rf : Bool) (e : Ident) : p (credRequest s t rf e) = true := by
  simp only [forallCreds, List.all_eq_true] at h
  exact h s (mem_idents s) t (mem_tokens t) rf (mem_bools rf) e (mem_idents e)

theorem existsCred_spec (p : Request → Bool) (h : existsCred p = true) : ∃ r, p r = true := by
  simp only [existsCred, List.any_eq_true] at h
  obtain ⟨s, _, t, _, rf, _, e, _, hp⟩ := h
  exact ⟨_, hp⟩

theorem evalChain_cons (g : Guard) (gs : List Guard) (r : Request) :
    evalChain (g :: gs) r =
      (match guardVerdict g r with
       | .pass => evalChain gs r
       | v => v) := rfl

/-- a chain passes exactly when every guard passes -/
theorem evalChain_pass_iff (gs : List Guard) (r : Request) :
    evalChain gs r = .pass ↔ ∀ g ∈ gs, guardVerdict g r = .pass := by
  induction gs with
  | nil => simp [evalChain]
  | cons g gs ih =>
    rw [evalChain_cons]
    cases h : guardVerdict g r with
    | pass => simp [ih, h]
    | stop s => simp [h]
    | block => simp [h]

/-- monotonicity: a guard that lets `r` through lets the permissive request with the same
credentials and target through (ajax, an existing target and a valid CSRF token never make a
guard refuse) -/
theorem guard_pass_mono (g : Guard) (r : Request) (h : guardVerdict g r = .pass) :
    guardVerdict g r.permissive = .pass := by
  obtain ⟨s, t, rf, c, d, e, f, k⟩ := r
  cases g with
  | loginRequired html admin perm =>
    simp only [guardVerdict, Request.permissive, credRequest] at h ⊢
    split at h
    · cases c <;> cases html <;> simp [needsLogin] at h
    · split at h
      · cases c <;> cases html <;> simp [needsLogin] at h
      · split at h
        · cases c <;> cases html <;> simp [needsLogin] at h
        · simp [*]
  | jwtRequired a b => simpa [guardVerdict, Request.permissive, credRequest] using h
  | jwtLoginRequired a b => simpa [guardVerdict, Request.permissive, credRequest] using h
  | csrfDecorator svc n o => simp [guardVerdict, Request.permissive, credRequest]
  | csrfBody svc => simp [guardVerdict, Request.permissive, credRequest]
  | loader w => simp [guardVerdict, Request.permissive, credRequest]
  | selfOrAdmin j => simpa [guardVerdict, Request.permissive, credRequest] using h
  | spa => simp [guardVerdict, Request.permissive, credRequest]
  | other n => rfl

theorem evalChain_pass_mono (gs : List Guard) (r : Request) (h : evalChain gs r = .pass) :
    evalChain gs r.permissive = .pass :=
  (evalChain_pass_iff gs _).2 fun g hg => guard_pass_mono g r ((evalChain_pass_iff gs r).1 h g hg)

theorem mayChange_permissive (k : Kind) (r : Request) : mayChange k r.permissive = mayChange k r := by
  cases k <;> rfl

/-- two requests on which every guard of the chain answers alike get the same verdict -/
theorem evalChain_congr (gs : List Guard) (r r' : Request)
    (h : ∀ g ∈ gs, guardVerdict g r = guardVerdict g r') : evalChain gs r = evalChain gs r' := by
  induction gs with
  | nil => rfl
  | cons g gs ih =>
    rw [evalChain_cons, evalChain_cons, h g (List.mem_cons_self ..),
      ih (fun g' hg' => h g' (List.mem_cons_of_mem _ hg'))]

/-- the literal decorator nest computes the same thing as the chain in execution order -/
theorem decorate_eval {α : Type} (gs : List Guard) (body : View α) (r : Request) :
    decorate gs body r =
      (match evalChain gs r with
       | .pass => body r
       | .stop s => .stopped s
       | .block => .blocked) := by
  induction gs with
  | nil => rfl
  | cons g gs ih =>
    show wrap g (decorate gs body) r = _
    rw [evalChain_cons]
    unfold wrap
    cases h : guardVerdict g r with
    | pass => simpa using ih
    | stop s => rfl
    | block => rfl

theorem decorate_append {α : Type} (as bs : List Guard) (body : View α) :
    decorate (as ++ bs) body = decorate as (decorate bs body) := by
  unfold decorate
  rw [List.foldr_append]

/-- `as_view`'s loop makes the **last** class decorator the outermost one -/
theorem asView_eq_decorate_reverse {α : Type} (cds : List Guard) (v : View α) :
    asView cds v = decorate cds.reverse v := by
  unfold asView decorate
  rw [List.foldr_reverse]

theorem view_eq_decorate_chain {α : Type} (row : Row) (body : View α) :
    row.view body = decorate row.chain body := by
  unfold Row.view Row.chain
  rw [asView_eq_decorate_reverse, decorate_append, decorate_append]

end DashLive.Auth

/-! ## CSRF state machine -/
namespace DashLive.Csrf

theorem check_accepted_iff (c : Cfg) (st : St) (svc : Str) (ck : Option Str) (o t : Str) :
    (check c st svc ck o t).2 = .accepted ↔
      ∃ k, ck = some k ∧ k ≠ [] ∧ t ∉ st.tokens ∧
        t.drop saltLen = c.mac (message c.strictOrigin k svc o (t.take saltLen)) := by
  unfold check
  cases ck with
  | none => simp
  | some k =>
    by_cases hk : k = []
    · simp [hk]
    · by_cases hu : t ∈ st.tokens
      · simp [hk, hu]
      · by_cases hs : t.drop saltLen = c.mac (message c.strictOrigin k svc o (t.take saltLen))
        · simp [hk, hu, hs]
        · simp [hk, hu, hs]

/-- a check never removes a record (nor changes the clock): records only grow -/
theorem check_records_mono (c : Cfg) (st : St) (svc : Str) (ck : Option Str) (o t : Str)
    (p : Str × Nat) (h : p ∈ st.used) : p ∈ (check c st svc ck o t).1.used := by
  unfold check
  cases ck with
  | none => simpa using h
  | some k =>
    by_cases hk : k = []
    · simpa [hk] using h
    · by_cases hu : t ∈ st.tokens
      · simpa [hk, hu] using h
      · by_cases hs : t.drop saltLen = c.mac (message c.strictOrigin k svc o (t.take saltLen))
        · simp [hk, hu, hs, h]
        · simp [hk, hu, hs, h]

theorem mem_tokens_iff (st : St) (x : Str) : x ∈ st.tokens ↔ ∃ e, (x, e) ∈ st.used := by
  unfold St.tokens
  simp [List.mem_map]

/-- consumed tokens stay consumed through a check -/
theorem check_used_mono (c : Cfg) (st : St) (svc : Str) (ck : Option Str) (o t x : Str)
    (h : x ∈ st.tokens) : x ∈ (check c st svc ck o t).1.tokens := by
  obtain ⟨e, he⟩ := (mem_tokens_iff st x).1 h
  exact (mem_tokens_iff _ x).2 ⟨e, check_records_mono c st svc ck o t _ he⟩

/-- an accepted token has been recorded -/
theorem check_accepted_records (c : Cfg) (st : St) (svc : Str) (ck : Option Str) (o t : Str)
    (h : (check c st svc ck o t).2 = .accepted) : t ∈ (check c st svc ck o t).1.tokens := by
  obtain ⟨k, rfl, hk, hu, hs⟩ := (check_accepted_iff c st svc ck o t).1 h
  have hu' : t ∉ List.map Prod.fst st.used := hu
  unfold check
  simp [hk, hu', hs, St.tokens]

/-- a token with a wrong signature has been recorded too (the code records first) -/
theorem check_badSignature_records (c : Cfg) (st : St) (svc : Str) (ck : Option Str) (o t : Str)
    (h : (check c st svc ck o t).2 = .badSignature) : t ∈ (check c st svc ck o t).1.tokens := by
  unfold check at h ⊢
  cases ck with
  | none => simp at h
  | some k =>
    by_cases hk : k = []
    · simp [hk] at h
    · by_cases hu : t ∈ st.tokens
      · simp [hk, hu] at h
      · by_cases hs : t.drop saltLen = c.mac (message c.strictOrigin k svc o (t.take saltLen))
        · simp [hk, hu, hs] at h
        · have hu' : t ∉ List.map Prod.fst st.used := hu
          simp [hk, hu', hs, St.tokens]

/-- a consumed token is never accepted – whatever the clock reads and whatever `expires` its
record carries (the re-use lookup is by token string only) -/
theorem check_of_used (c : Cfg) (st : St) (svc : Str) (ck : Option Str) (o t : Str)
    (h : t ∈ st.tokens) : (check c st svc ck o t).2 ≠ .accepted := by
  intro hacc
  obtain ⟨_, _, _, hu, _⟩ := (check_accepted_iff c st svc ck o t).1 hacc
  exact hu h

/-- the verdict of a check does not depend on the clock -/
theorem check_clock_irrelevant (c : Cfg) (st : St) (n : Nat) (svc : Str) (ck : Option Str) (o t : Str) :
    (check c { st with now := n } svc ck o t).2 = (check c st svc ck o t).2 := by
  have htok : ({ st with now := n } : St).tokens = st.tokens := rfl
  unfold check
  cases ck with
  | none => rfl
  | some k =>
    by_cases hk : k = []
    · simp [hk]
    · by_cases hu : t ∈ st.tokens
      · simp [hk, htok, hu]
      · by_cases hs : t.drop saltLen = c.mac (message c.strictOrigin k svc o (t.take saltLen))
        · simp [hk, htok, hu, hs]
        · simp [hk, htok, hu, hs]

/-- every step that is not a prune keeps every record -/
theorem step_records_mono (c : Cfg) (st : St) (e : Ev) (he : e.isPrune = false)
    (p : Str × Nat) (h : p ∈ st.used) : p ∈ (step c st e).1.used := by
  cases e with
  | check svc ck o t => simp only [step]; exact check_records_mono c st svc ck o t p h
  | prune => simp [Ev.isPrune] at he
  | pruneExpired => simp [Ev.isPrune] at he
  | tick n => simpa [step] using h
  | request => simpa [step] using h

theorem step_tokens_mono (c : Cfg) (st : St) (e : Ev) (he : e.isPrune = false)
    (x : Str) (h : x ∈ st.tokens) : x ∈ (step c st e).1.tokens := by
  obtain ⟨ex, hx⟩ := (mem_tokens_iff st x).1 h
  exact (mem_tokens_iff _ x).2 ⟨ex, step_records_mono c st e he _ hx⟩

theorem acceptedCount_cons (t : Str) (p : Ev × Option Result) (h : List (Ev × Option Result)) :
    acceptedCount t (p :: h) =
      (if (p.1.token? == some t && p.2 == some Result.accepted) = true then 1 else 0)
        + acceptedCount t h := by
  unfold acceptedCount
  rw [List.filter_cons]
  split <;> simp <;> omega

theorem run_cons (c : Cfg) (st : St) (e : Ev) (es : List Ev) :
    run c st (e :: es) = (e, (step c st e).2) :: run c (step c st e).1 es := rfl

theorem step_result_none (c : Cfg) (st : St) (e : Ev) (h : e.token? = none) :
    (step c st e).2 = none := by
  cases e <;> simp_all [step, Ev.token?]

/-- once consumed, a token is not accepted again as long as nothing is pruned – whatever clock
jumps and other requests are interleaved -/
theorem acceptedCount_zero_of_used (c : Cfg) (t : Str) :
    ∀ (evs : List Ev) (st : St), (∀ e ∈ evs, e.isPrune = false) → t ∈ st.tokens →
      acceptedCount t (run c st evs) = 0 := by
  intro evs
  induction evs with
  | nil => intro st _ _; rfl
  | cons e es ih =>
    intro st hnp hu
    have hes : ∀ e' ∈ es, e'.isPrune = false := fun e' h' => hnp e' (List.mem_cons_of_mem _ h')
    have he : e.isPrune = false := hnp e (List.mem_cons_self ..)
    rw [run_cons, acceptedCount_cons, ih _ hes (step_tokens_mono c st e he t hu)]
    cases e with
    | check svc ck o t' =>
      by_cases heq : t' = t
      · subst heq
        have := check_of_used c st svc ck o t' hu
        simp [step, Ev.token?, this]
      · simp [Ev.token?, heq]
    | prune => simp [Ev.token?]
    | pruneExpired => simp [Ev.token?]
    | tick n => simp [Ev.token?]
    | request => simp [Ev.token?]

end DashLive.Csrf

/-! ## credential lifecycle -/
namespace DashLive.Life

theorem mem_revokeAll {rows : List Row} {u : Nat} {r : Row} (h : r ∈ revokeAll rows u) :
    ∃ r0 ∈ rows, r.jti = r0.jti ∧ r.owner = r0.owner ∧ r.typ = r0.typ ∧ r.expires = r0.expires ∧
      (r0.revoked = true → r.revoked = true) ∧ (r0.owner = u → r.revoked = true) := by
  unfold revokeAll at h
  obtain ⟨r0, h0, rfl⟩ := List.mem_map.1 h
  refine ⟨r0, h0, ?_⟩
  by_cases ho : r0.owner = u <;> simp [ho]

theorem mem_revokeAccess {rows : List Row} {j u : Nat} {r : Row} (h : r ∈ revokeAccess rows j u) :
    (r = { jti := j, owner := u, typ := .access, expires := none, revoked := true }) ∨
    ∃ r0 ∈ rows, r.jti = r0.jti ∧ r.owner = r0.owner ∧ r.typ = r0.typ ∧ r.expires = r0.expires ∧
      (r0.revoked = true → r.revoked = true) ∧ (r0.jti = j → r0.typ = .access → r.revoked = true) := by
  unfold revokeAccess at h
  split at h
  · obtain ⟨r0, h0, rfl⟩ := List.mem_map.1 h
    right
    refine ⟨r0, h0, ?_⟩
    by_cases hc : (r0.jti == j && r0.typ == TokType.access) = true
    · simp [hc]
    · simp only [hc]
      simp only [Bool.and_eq_true, beq_iff_eq, not_and] at hc
      refine ⟨rfl, rfl, rfl, rfl, id, ?_⟩
      intro h1 h2
      exact absurd h2 (hc h1)
  · rcases List.mem_cons.1 h with rfl | h'
    · left; rfl
    · right
      exact ⟨r, h', rfl, rfl, rfl, rfl, id, by
        intro h1 h2
        rename_i hn
        exact absurd (List.any_eq_true.2 ⟨r, h', by simp [h1, h2]⟩) hn⟩


theorem step_nextJti_mono (st : St) (e : Ev) : st.nextJti ≤ (step st e).1.nextJti := by
  cases e <;> simp only [step] <;> (try split) <;> simp <;> omega

theorem step_users_subset (st : St) (e : Ev) (u : Nat) (h : (step st e).1.users.contains u = true) :
    st.users.contains u = true := by
  cases e <;> simp only [step] at h <;> (try split at h) <;> simp_all

/-- where the rows after a step come from: an old row (revocation only ever switched on), the
refresh row of a new login (fresh `jti`), or an access revocation row -/
theorem step_rows (st : St) (e : Ev) (r : Row) (h : r ∈ (step st e).1.rows) :
    (∃ r0 ∈ st.rows, r.jti = r0.jti ∧ r.owner = r0.owner ∧ r.typ = r0.typ ∧ r.expires = r0.expires ∧
        (r0.revoked = true → r.revoked = true)) ∨
    (r.typ = .refresh ∧ st.nextJti ≤ r.jti) ∨
    (r.typ = .access ∧ r.revoked = true ∧ r.expires = none) := by
  have old : r ∈ st.rows → (∃ r0 ∈ st.rows, r.jti = r0.jti ∧ r.owner = r0.owner ∧ r.typ = r0.typ ∧
      r.expires = r0.expires ∧ (r0.revoked = true → r.revoked = true)) :=
    fun hr => ⟨r, hr, rfl, rfl, rfl, rfl, id⟩
  cases e with
  | login u =>
    simp only [step] at h
    split at h
    · rcases List.mem_cons.1 h with rfl | h'
      · right; left; exact ⟨rfl, by simp⟩
      · left; exact old h'
    · left; exact old h
  | refreshAccess t =>
    simp only [step] at h
    split at h <;> exact Or.inl (old h)
  | apiLogout t =>
    simp only [step] at h
    split at h
    · rcases mem_revokeAccess h with rfl | ⟨r1, h1, e1, e2, e3, e4, e5, _⟩
      · right; right; exact ⟨rfl, rfl, rfl⟩
      · obtain ⟨r0, h0, f1, f2, f3, f4, f5, _⟩ := mem_revokeAll h1
        left
        exact ⟨r0, h0, e1.trans f1, e2.trans f2, e3.trans f3, e4.trans f4, fun hr => e5 (f5 hr)⟩
    · left; exact old h
  | htmlLogout c =>
    simp only [step] at h
    split at h
    · obtain ⟨r0, h0, f1, f2, f3, f4, f5, _⟩ := mem_revokeAll h
      left; exact ⟨r0, h0, f1, f2, f3, f4, f5⟩
    · left; exact old h
  | deleteUser u =>
    simp only [step] at h
    left; exact old (List.mem_filter.1 h).1
  | restart =>
    simp only [step] at h
    left; exact old (List.mem_filter.1 h).1
  | tick n => left; exact old h

/-- a token none of whose rows (of its own type) is un-revoked, and that has a row or is a
refresh token, is refused -/
theorem not_accepted_of_rows_revoked (st : St) (t : Tok) (want : TokType)
    (hall : ∀ r ∈ st.rows, r.jti = t.jti → r.typ = t.typ → r.revoked = true)
    (hex : t.typ = .refresh ∨ ∃ r ∈ st.rows, r.jti = t.jti ∧ r.typ = t.typ) :
    tokAccepted st t want = false := by
  have hrev : isRevoked st t = true := by
    unfold isRevoked
    cases hf : st.rows.find? (fun r => r.jti == t.jti && r.typ == t.typ) with
    | some r =>
      have hm := List.mem_of_find?_eq_some hf
      have hp := List.find?_some hf
      simp only [Bool.and_eq_true, beq_iff_eq] at hp
      exact hall r hm hp.1 hp.2
    | none =>
      rcases hex with hty | ⟨r, hr, h1, h2⟩
      · simp [hty]
      · have := List.find?_eq_none.1 hf r hr
        simp [h1, h2] at this
  unfold tokAccepted
  simp [hrev]


/-- invariant behind the logout theorems: every refresh row with the token's `jti` is revoked,
and the `jti` is older than every future one -/
def Voided (s : St) (t' : Tok) : Prop :=
  t'.jti < s.nextJti ∧ ∀ r ∈ s.rows, r.jti = t'.jti → r.typ = .refresh → r.revoked = true

theorem voided_step (s : St) (t' : Tok) (e : Ev) (h : Voided s t') : Voided (step s e).1 t' := by
  refine ⟨Nat.lt_of_lt_of_le h.1 (step_nextJti_mono s e), ?_⟩
  intro r hr hj ht
  rcases step_rows s e r hr with ⟨r0, h0, e1, _, e3, _, e5⟩ | ⟨_, hn⟩ | ⟨ha, _, _⟩
  · exact e5 (h.2 r0 h0 (e1 ▸ hj) (e3 ▸ ht))
  · have := h.1; omega
  · rw [ha] at ht; cases ht

theorem voided_final (t' : Tok) : ∀ (evs : List Ev) (s : St), Voided s t' → Voided (final s evs) t' := by
  intro evs
  induction evs with
  | nil => intro s h; exact h
  | cons e es ih => intro s h; exact ih _ (voided_step s t' e h)

theorem voided_refused (s : St) (t' : Tok) (hty : t'.typ = .refresh) (h : Voided s t') (want : TokType) :
    tokAccepted s t' want = false :=
  not_accepted_of_rows_revoked s t' want (fun r hr hj ht => h.2 r hr hj (ht.trans hty)) (Or.inl hty)

theorem users_final (u : Nat) : ∀ (evs : List Ev) (s : St), s.users.contains u = false →
    (final s evs).users.contains u = false := by
  intro evs
  induction evs with
  | nil => intro s h; exact h
  | cons e es ih =>
    intro s h
    apply ih
    cases hc : (step s e).1.users.contains u with
    | false => rfl
    | true => rw [step_users_subset s e u hc] at h; cases h



/-- invariant for the access token presented to the API logout: its account is gone, or it has a
revocation row and every ACCESS row with its `jti` is revoked and cannot be pruned -/
def AccessVoided (s : St) (t : Tok) : Prop :=
  s.users.contains t.owner = false ∨
    ((∃ r ∈ s.rows, r.jti = t.jti ∧ r.typ = .access ∧ r.owner = t.owner) ∧
     ∀ r ∈ s.rows, r.jti = t.jti → r.typ = .access → r.revoked = true ∧ r.expires = none)

theorem mem_revokeAll_of_mem {rows : List Row} {u : Nat} {r0 : Row} (h : r0 ∈ rows) :
    ∃ r ∈ revokeAll rows u, r.jti = r0.jti ∧ r.typ = r0.typ ∧ r.owner = r0.owner := by
  refine ⟨_, List.mem_map.2 ⟨r0, h, rfl⟩, ?_⟩
  by_cases ho : r0.owner = u <;> simp [ho]

theorem mem_revokeAccess_of_mem {rows : List Row} {j u : Nat} {r0 : Row} (h : r0 ∈ rows) :
    ∃ r ∈ revokeAccess rows j u, r.jti = r0.jti ∧ r.typ = r0.typ ∧ r.owner = r0.owner := by
  unfold revokeAccess
  split
  · refine ⟨_, List.mem_map.2 ⟨r0, h, rfl⟩, ?_⟩
    by_cases hc : (r0.jti == j && r0.typ == TokType.access) = true <;> simp [hc]
  · exact ⟨r0, List.mem_cons_of_mem _ h, rfl, rfl, rfl⟩

theorem accessVoided_step (s : St) (t : Tok) (e : Ev) (h : AccessVoided s t) :
    AccessVoided (step s e).1 t := by
  rcases h with h | ⟨⟨r0, h0, j0, t0, o0⟩, hall⟩
  · left
    cases hc : (step s e).1.users.contains t.owner with
    | false => rfl
    | true => rw [step_users_subset s e _ hc] at h; cases h
  · have hall' : ∀ r ∈ (step s e).1.rows, r.jti = t.jti → r.typ = .access →
        r.revoked = true ∧ r.expires = none := by
      intro r hr hj ht
      rcases step_rows s e r hr with ⟨r1, h1, e1, _, e3, e4, e5⟩ | ⟨hrf, _⟩ | ⟨_, hrv, hex⟩
      · have := hall r1 h1 (e1 ▸ hj) (e3 ▸ ht)
        exact ⟨e5 this.1, e4.trans this.2⟩
      · rw [hrf] at ht; cases ht
      · exact ⟨hrv, hex⟩
    have hexp : r0.expires = none := (hall r0 h0 j0 t0).2
    cases e with
    | login u =>
      right
      refine ⟨?_, hall'⟩
      simp only [step]
      split
      · exact ⟨r0, List.mem_cons_of_mem _ h0, j0, t0, o0⟩
      · exact ⟨r0, h0, j0, t0, o0⟩
    | refreshAccess t2 =>
      right
      refine ⟨?_, hall'⟩
      simp only [step]
      split <;> exact ⟨r0, h0, j0, t0, o0⟩
    | apiLogout t2 =>
      right
      refine ⟨?_, hall'⟩
      simp only [step]
      split
      · obtain ⟨r1, h1, a1, a2, a3⟩ := mem_revokeAll_of_mem (u := t2.owner) h0
        obtain ⟨r2, h2, b1, b2, b3⟩ := mem_revokeAccess_of_mem (j := t2.jti) (u := t2.owner) h1
        exact ⟨r2, h2, b1.trans (a1.trans j0), b2.trans (a2.trans t0), b3.trans (a3.trans o0)⟩
      · exact ⟨r0, h0, j0, t0, o0⟩
    | htmlLogout c =>
      right
      refine ⟨?_, hall'⟩
      simp only [step]
      split
      · obtain ⟨r1, h1, a1, a2, a3⟩ := mem_revokeAll_of_mem (u := c.owner) h0
        exact ⟨r1, h1, a1.trans j0, a2.trans t0, a3.trans o0⟩
      · exact ⟨r0, h0, j0, t0, o0⟩
    | deleteUser u =>
      by_cases hu : u = t.owner
      · left
        subst hu
        simp [step]
      · right
        refine ⟨?_, hall'⟩
        simp only [step]
        refine ⟨r0, List.mem_filter.2 ⟨h0, ?_⟩, j0, t0, o0⟩
        simp [o0]; exact fun h => hu h.symm
    | restart =>
      right
      refine ⟨?_, hall'⟩
      simp only [step]
      exact ⟨r0, List.mem_filter.2 ⟨h0, by simp [hexp]⟩, j0, t0, o0⟩
    | tick n => right; exact ⟨⟨r0, h0, j0, t0, o0⟩, hall'⟩

theorem accessVoided_final (t : Tok) : ∀ (evs : List Ev) (s : St), AccessVoided s t →
    AccessVoided (final s evs) t := by
  intro evs
  induction evs with
  | nil => intro s h; exact h
  | cons e es ih => intro s h; exact ih _ (accessVoided_step s t e h)


end DashLive.Life
