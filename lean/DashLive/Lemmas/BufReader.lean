import DashLive.Model.BufReader
/-! Helper lemmas for the C20 refinement proof. -/
namespace DashLive.BufReader

/-- every cached bucket holds exactly what the file holds at that position -/
def CacheOk (c : Cfg) (bufs : List (Nat × Bytes)) : Prop :=
  ∀ e ∈ bufs, e.2 = fileRead c.file (e.1 + c.offset) c.bufsize

theorem cacheOk_nil (c : Cfg) : CacheOk c [] := by
  intro e he; cases he

theorem lookup_of_cacheOk {c : Cfg} {bufs : List (Nat × Bytes)} (h : CacheOk c bufs)
    {bucket : Nat} {d : Bytes} (hl : lookup bufs bucket = some d) :
    d = fileRead c.file (bucket + c.offset) c.bufsize := by
  unfold lookup at hl
  cases hf : bufs.find? (fun e => e.1 == bucket) with
  | none => simp [hf] at hl
  | some e =>
    simp [hf] at hl
    have hm := List.mem_of_find?_eq_some hf
    have hp := List.find?_some hf
    simp at hp
    have := h e hm
    subst hl; rw [this, hp]

theorem cacheOk_eraseIdx {c : Cfg} {bufs : List (Nat × Bytes)} (h : CacheOk c bufs) (i : Nat) :
    CacheOk c (bufs.eraseIdx i) := by
  intro e he
  exact h e (List.mem_of_mem_eraseIdx he)

theorem cache_ok {c : Cfg} {bufs : List (Nat × Bytes)} (h : CacheOk c bufs) (bucket : Nat) :
    CacheOk c (cache c bufs bucket) := by
  unfold cache
  split
  · exact h
  · intro e he
    simp only [List.mem_append, List.mem_singleton] at he
    rcases he with he | he
    · split at he
      · exact cacheOk_eraseIdx h _ e he
      · exact h e he
    · subst he; rfl

theorem lookup_append_self (bufs : List (Nat × Bytes)) (bucket : Nat) (d : Bytes)
    (hn : lookup bufs bucket = none) : lookup (bufs ++ [(bucket, d)]) bucket = some d := by
  unfold lookup at *
  simp only [Option.map_eq_none_iff] at hn
  simp [List.find?_append, hn]

theorem lookup_eraseIdx_none (bufs : List (Nat × Bytes)) (bucket i : Nat)
    (hn : lookup bufs bucket = none) : lookup (bufs.eraseIdx i) bucket = none := by
  unfold lookup at *
  simp only [Option.map_eq_none_iff, List.find?_eq_none] at *
  intro x hx
  exact hn x (List.mem_of_mem_eraseIdx hx)

theorem lookup_cache {c : Cfg} {bufs : List (Nat × Bytes)} (h : CacheOk c bufs) (bucket : Nat) :
    lookup (cache c bufs bucket) bucket = some (fileRead c.file (bucket + c.offset) c.bufsize) := by
  unfold cache
  cases hl : lookup bufs bucket with
  | some d =>
    simp only [Option.isSome_some, if_true]
    rw [hl, lookup_of_cacheOk h hl]
  | none =>
    simp only [Option.isSome_none, Bool.false_eq_true, if_false]
    apply lookup_append_self
    split
    · exact lookup_eraseIdx_none _ _ _ hl
    · exact hl

/-- the cache never holds more than `maxbuf` entries (the code's `assert`),
provided it did not before and `maxbuf ≥ 1`; eviction index must be in range,
which the real LRU scan guarantees (it picks an existing key). -/
theorem cache_length {c : Cfg} {bufs : List (Nat × Bytes)} (bucket : Nat)
    (hmax : 1 ≤ c.maxbuf) (hlen : bufs.length ≤ c.maxbuf)
    (hev : ∀ b : List (Nat × Bytes), b ≠ [] → c.evict b < b.length) :
    (cache c bufs bucket).length ≤ c.maxbuf := by
  unfold cache
  split
  · exact hlen
  · simp only [List.length_append, List.length_singleton]
    split
    · rename_i heq
      simp at heq
      have hne : bufs ≠ [] := by
        intro h0; subst h0; simp at heq; omega
      have := hev bufs hne
      rw [List.length_eraseIdx_of_lt this]; omega
    · rename_i hneq
      simp at hneq; omega

theorem take_drop_glue (l : Bytes) (a k1 k2 : Nat) :
    (l.drop a).take k1 ++ (l.drop (a + k1)).take k2 = (l.drop a).take (k1 + k2) := by
  rw [List.take_add, List.drop_drop]

theorem peekLoop_spec (c : Cfg) (hbs : 0 < c.bufsize) :
    ∀ (fuel : Nat) (bufs : List (Nat × Bytes)) (bucket off todo : Nat) (acc : Bytes),
      CacheOk c bufs → off < c.bufsize → todo ≤ fuel →
      CacheOk c (peekLoop c fuel bufs bucket off todo acc).1 ∧
      ∃ K, todo ≤ K ∧ (peekLoop c fuel bufs bucket off todo acc).2
              = acc ++ (c.file.drop (bucket + off + c.offset)).take K := by
  intro fuel
  induction fuel with
  | zero =>
    intro bufs bucket off todo acc hok _ htodo
    refine ⟨hok, 0, by omega, ?_⟩
    simp [peekLoop]
  | succ fuel ih =>
    intro bufs bucket off todo acc hok hoff htodo
    unfold peekLoop
    by_cases h0 : todo = 0
    · simp only [h0, if_true]
      exact ⟨hok, 0, by omega, by simp⟩
    · simp only [h0, if_false]
      have hok' := cache_ok hok bucket
      have hl := lookup_cache hok bucket
      have hsz : 1 ≤ min todo (c.bufsize - off) := by omega
      have := ih (cache c bufs bucket) (bucket + c.bufsize) 0
        (todo - min todo (c.bufsize - off))
        (acc ++ ((lookup (cache c bufs bucket) bucket).getD []).drop off) hok' hbs (by omega)
      obtain ⟨h1, K, hK, h2⟩ := this
      refine ⟨h1, (c.bufsize - off) + K, by omega, ?_⟩
      rw [h2, hl]
      simp only [Option.getD_some, fileRead, List.append_assoc, List.append_cancel_left_eq]
      rw [List.drop_take, List.drop_drop]
      have e1 : bucket + c.offset + off = bucket + off + c.offset := by omega
      have e2 : bucket + c.bufsize + 0 + c.offset = bucket + off + c.offset + (c.bufsize - off) := by
        omega
      rw [e1, e2]
      exact take_drop_glue _ _ _ _

end DashLive.BufReader
