import DashLive.Model.Xml
import DashLive.Lemmas.IsoText
/-! Lexical lemmas for C05: the texts written by `'%d'`, `toIsoDuration` and
`to_iso_datetime` (C19's model) are accepted by the XSD recognisers of
`Model/Xml.lean`.  Core Lean only. -/
namespace DashLive.Xml
open DashLive.IsoText

theorem allDigits_of {l : Text} (h : AllDigits l) (hne : l ≠ []) : allDigits l = true := by
  unfold allDigits
  have : l.isEmpty = false := by cases l with
    | nil => exact absurd rfl hne
    | cons => rfl
  rw [this]
  simp only [Bool.not_false, Bool.true_and, List.all_eq_true]
  exact h

theorem isXsUnsigned_dec (n : Nat) : isXsUnsigned (dec n) = true :=
  allDigits_of (allDigits_dec n) (dec_ne_nil n)

/-! ## durations -/

theorem dropField_hit (u : Char) (hu : u.isDigit = false) {ds : Text} (hd : AllDigits ds) (hne : ds ≠ [])
    (rest : Text) : dropField u (ds ++ u :: rest) = rest := by
  unfold dropField
  rw [dropWhile_run u rest hd hu, takeWhile_run u rest hd hu]
  have : ds.isEmpty = false := by cases ds with
    | nil => exact absurd rfl hne
    | cons => rfl
  simp [this]

theorem dropField_miss (u c : Char) (hc : c.isDigit = false) (hcu : c ≠ u) {ds : Text} (hd : AllDigits ds)
    (rest : Text) : dropField u (ds ++ c :: rest) = ds ++ c :: rest := by
  unfold dropField
  rw [dropWhile_run c rest hd hc]
  simp [hcu]

theorem dropField_nodigit (u c : Char) (hc : c.isDigit = false) (hcu : c ≠ u) (rest : Text) :
    dropField u (c :: rest) = c :: rest := by
  have := dropField_miss u c hc hcu (ds := []) (by intro x hx; cases hx) rest
  simpa using this

theorem isDecimal_sec (s ms : Nat) (hms : ms < 1000) : isDecimal (dec s ++ fracPart ms) = true := by
  have hd : ∀ x ∈ dec s, (x != '.') = true := fun x hx => ne_dot_of_isDigit (allDigits_dec s x hx)
  unfold isDecimal fracPart
  by_cases h0 : ms > 0
  · obtain ⟨hne, _, hdig, _⟩ := stripZeros_pad3 h0 hms
    simp only [h0, if_true]
    rw [takeWhile_run '.' _ hd (by decide), dropWhile_run '.' _ hd (by decide)]
    simp only [allDigits_of (allDigits_dec s) (dec_ne_nil s), allDigits_of hdig hne, Bool.and_self]
  · simp only [h0, if_false, List.append_nil]
    rw [takeWhile_all hd, dropWhile_all hd]
    simp only [allDigits_of (allDigits_dec s) (dec_ne_nil s), Bool.and_self]

/-- the seconds tail `<s>(.<fff>)?S` -/
def secTail (s ms : Nat) : Text := dec s ++ (fracPart ms ++ ['S'])

theorem secTail_ok (s ms : Nat) (hms : ms < 1000) :
    (secTail s ms).getLast? = some 'S' ∧ isDecimal (secTail s ms).dropLast = true := by
  have : secTail s ms = (dec s ++ fracPart ms) ++ ['S'] := by simp [secTail, List.append_assoc]
  rw [this]
  refine ⟨by simp, ?_⟩
  rw [List.dropLast_concat]
  exact isDecimal_sec s ms hms

theorem secTail_head (s ms : Nat) :
    ∃ c rest, secTail s ms = dec s ++ c :: rest ∧ (c = '.' ∨ c = 'S') := tail_form s ms

theorem secTail_ne_nil (s ms : Nat) : secTail s ms ≠ [] := by
  unfold secTail
  intro h
  have := List.append_eq_nil_iff.mp h
  exact dec_ne_nil s this.1

theorem isXsDuration_hms (hrs mins s ms : Nat) (hms : ms < 1000) :
    isXsDuration (hmsText hrs mins s ms) = true := by
  have hH : 'H'.isDigit = false := by decide
  have hM : 'M'.isDigit = false := by decide
  obtain ⟨c, rest, hc, hcs⟩ := secTail_head s ms
  have hcd : c.isDigit = false := by rcases hcs with rfl | rfl <;> decide
  have hcH : c ≠ 'H' := by rcases hcs with rfl | rfl <;> decide
  have hcM : c ≠ 'M' := by rcases hcs with rfl | rfl <;> decide
  have hform : hmsText hrs mins s ms = 'P' :: 'T' ::
      ((if hrs ≠ 0 then dec hrs ++ ['H'] else []) ++
       ((if hrs ≠ 0 ∨ mins ≠ 0 then dec mins ++ ['M'] else []) ++ secTail s ms)) := by
    simp only [hmsText, secTail, List.append_assoc, List.cons_append, List.nil_append]
  rw [hform]
  unfold isXsDuration
  simp only []
  rw [dropField_nodigit 'D' 'T' (by decide) (by decide)]
  simp only []
  by_cases h1 : hrs = 0
  · by_cases h2 : mins = 0
    · -- only seconds
      simp only [h1, h2, ne_eq, not_true_eq_false, or_self, if_false, List.nil_append]
      rw [hc, dropField_miss 'H' c hcd hcH (allDigits_dec s), dropField_miss 'M' c hcd hcM (allDigits_dec s),
        ← hc]
      cases h : secTail s ms with
      | nil => exact absurd h (secTail_ne_nil s ms)
      | cons a l =>
        obtain ⟨g1, g2⟩ := secTail_ok s ms hms
        rw [h] at g1 g2
        simp only [g1, g2, decide_true, Bool.and_self]
    · -- minutes and seconds
      simp only [h1, h2, ne_eq, not_true_eq_false, not_false_eq_true, or_true, if_true, if_false,
        List.nil_append, List.append_assoc, List.cons_append]
      rw [dropField_miss 'H' 'M' hM (by decide) (allDigits_dec mins),
        dropField_hit 'M' hM (allDigits_dec mins) (dec_ne_nil mins)]
      cases h : secTail s ms with
      | nil => exact absurd h (secTail_ne_nil s ms)
      | cons a l =>
        obtain ⟨g1, g2⟩ := secTail_ok s ms hms
        rw [h] at g1 g2
        simp only [g1, g2, decide_true, Bool.and_self]
  · -- hours, minutes and seconds
    simp only [h1, ne_eq, not_false_eq_true, true_or, if_true, List.append_assoc, List.cons_append,
      List.nil_append]
    rw [dropField_hit 'H' hH (allDigits_dec hrs) (dec_ne_nil hrs),
      dropField_hit 'M' hM (allDigits_dec mins) (dec_ne_nil mins)]
    cases h : secTail s ms with
    | nil => exact absurd h (secTail_ne_nil s ms)
    | cons a l =>
      obtain ⟨g1, g2⟩ := secTail_ok s ms hms
      rw [h] at g1 g2
      simp only [g1, g2, decide_true, Bool.and_self]

theorem isXsDuration_back (secs ms : Nat) (hms : ms ≤ 1000) :
    isXsDuration (isoDurationBack secs ms) = true := by
  have : isoDurationBack secs ms =
      hmsText ((if ms ≥ 1000 then secs + 1 else secs) / 3600)
        ((if ms ≥ 1000 then secs + 1 else secs) % 3600 / 60)
        ((if ms ≥ 1000 then secs + 1 else secs) % 3600 % 60)
        (if ms ≥ 1000 then ms - 1000 else ms) := by
    simp only [isoDurationBack, hmsText, fracPart]
  rw [this]
  exact isXsDuration_hms _ _ _ _ (by split <;> omega)

end DashLive.Xml
