import DashLive.Model.Xml
import DashLive.Lemmas.IsoText
/-! Lexical lemmas for C05: the texts written by `'%d'`, `toIsoDuration` and
`to_iso_datetime` (C19's model) are accepted by the XSD recognisers of
`Model/Xml.lean`.  Core Lean only. -/
namespace DashLive.Xml
open DashLive.IsoText

theorem allDigits_of {l : Text} (h : AllDigits l) (hne : l ≠ []) : allDigits l = true := by
  unfold allDigits
  have : l.isEmpty = false := by cases l with
    | nil => exact absurd rfl hne
    | cons => rfl
  rw [this]
  simp only [Bool.not_false, Bool.true_and, List.all_eq_true]
  exact h

theorem isXsUnsigned_dec (n : Nat) : isXsUnsigned (dec n) = true :=
  allDigits_of (allDigits_dec n) (dec_ne_nil n)

/-! ## durations -/

theorem dropField_hit (u : Char) (hu : u.isDigit = false) {ds : Text} (hd : AllDigits ds) (hne : ds ≠ [])
    (rest : Text) : dropField u (ds ++ u :: rest) = rest := by
  unfold dropField
  rw [dropWhile_run u rest hd hu, takeWhile_run u rest hd hu]
  have : ds.isEmpty = false := by cases ds with
    | nil => exact absurd rfl hne
    | cons => rfl
  simp [this]

theorem dropField_miss (u c : Char) (hc : c.isDigit = false) (hcu : c ≠ u) {ds : Text} (hd : AllDigits ds)
    (rest : Text) : dropField u (ds ++ c :: rest) = ds ++ c :: rest := by
  unfold dropField
  rw [dropWhile_run c rest hd hc]
  simp [hcu]

theorem dropField_nodigit (u c : Char) (hc : c.isDigit = false) (hcu : c ≠ u) (rest : Text) :
    dropField u (c :: rest) = c :: rest := by
  have := dropField_miss u c hc hcu (ds := []) (by intro x hx; cases hx) rest
  simpa using this

theorem isDecimal_sec (s ms : Nat) (hms : ms < 1000) : isDecimal (dec s ++ fracPart ms) = true := by
  have hd : ∀ x ∈ dec s, (x != '.') = true := fun x hx => ne_dot_of_isDigit (allDigits_dec s x hx)
  unfold isDecimal fracPart
  by_cases h0 : ms > 0
  · obtain ⟨hne, _, hdig, _⟩ := stripZeros_pad3 h0 hms
    simp only [h0, if_true]
    rw [takeWhile_run '.' _ hd (by decide), dropWhile_run '.' _ hd (by decide)]
    simp only [allDigits_of (allDigits_dec s) (dec_ne_nil s), allDigits_of hdig hne, Bool.and_self]
  · simp only [h0, if_false, List.append_nil]
    rw [takeWhile_all hd, dropWhile_all hd]
    simp only [allDigits_of (allDigits_dec s) (dec_ne_nil s), Bool.and_self]

/-- the seconds tail `<s>(.<fff>)?S` -/
def secTail (s ms : Nat) : Text := dec s ++ (fracPart ms ++ ['S'])

theorem secTail_ok (s ms : Nat) (hms : ms < 1000) :
    (secTail s ms).getLast? = some 'S' ∧ isDecimal (secTail s ms).dropLast = true := by
  have : secTail s ms = (dec s ++ fracPart ms) ++ ['S'] := by simp [secTail, List.append_assoc]
  rw [this]
  refine ⟨by simp, ?_⟩
  rw [List.dropLast_concat]
  exact isDecimal_sec s ms hms

theorem secTail_head (s ms : Nat) :
    ∃ c rest, secTail s ms = dec s ++ c :: rest ∧ (c = '.' ∨ c = 'S') := tail_form s ms

theorem secTail_ne_nil (s ms : Nat) : secTail s ms ≠ [] := by
  unfold secTail
  intro h
  have := List.append_eq_nil_iff.mp h
  exact dec_ne_nil s this.1

theorem isXsDuration_hms (hrs mins s ms : Nat) (hms : ms < 1000) :
    isXsDuration (hmsText hrs mins s ms) = true := by
  have hH : 'H'.isDigit = false := by decide
  have hM : 'M'.isDigit = false := by decide
  obtain ⟨c, rest, hc, hcs⟩ := secTail_head s ms
  have hcd : c.isDigit = false := by rcases hcs with rfl | rfl <;> decide
  have hcH : c ≠ 'H' := by rcases hcs with rfl | rfl <;> decide
  have hcM : c ≠ 'M' := by rcases hcs with rfl | rfl <;> decide
  have hform : hmsText hrs mins s ms = 'P' :: 'T' ::
      ((if hrs ≠ 0 then dec hrs ++ ['H'] else []) ++
       ((if hrs ≠ 0 ∨ mins ≠ 0 then dec mins ++ ['M'] else []) ++ secTail s ms)) := by
    simp only [hmsText, secTail, List.append_assoc, List.cons_append, List.nil_append]
  rw [hform]
  unfold isXsDuration
  simp only []
  rw [dropField_nodigit 'D' 'T' (by decide) (by decide)]
  simp only []
  by_cases h1 : hrs = 0
  · by_cases h2 : mins = 0
    · -- only seconds
      simp only [h1, h2, ne_eq, not_true_eq_false, or_self, if_false, List.nil_append]
      rw [hc, dropField_miss 'H' c hcd hcH (allDigits_dec s), dropField_miss 'M' c hcd hcM (allDigits_dec s),
        ← hc]
      cases h : secTail s ms with
      | nil => exact absurd h (secTail_ne_nil s ms)
      | cons a l =>
        obtain ⟨g1, g2⟩ := secTail_ok s ms hms
        rw [h] at g1 g2
        simp only [g1, g2, decide_true, Bool.and_self]
    · -- minutes and seconds
      simp only [h1, h2, ne_eq, not_true_eq_false, not_false_eq_true, or_true, if_true, if_false,
        List.nil_append, List.append_assoc, List.cons_append]
      rw [dropField_miss 'H' 'M' hM (by decide) (allDigits_dec mins),
        dropField_hit 'M' hM (allDigits_dec mins) (dec_ne_nil mins)]
      cases h : secTail s ms with
      | nil => exact absurd h (secTail_ne_nil s ms)
      | cons a l =>
        obtain ⟨g1, g2⟩ := secTail_ok s ms hms
        rw [h] at g1 g2
        simp only [g1, g2, decide_true, Bool.and_self]
  · -- hours, minutes and seconds
    simp only [h1, ne_eq, not_false_eq_true, true_or, if_true, List.append_assoc, List.cons_append,
      List.nil_append]
    rw [dropField_hit 'H' hH (allDigits_dec hrs) (dec_ne_nil hrs),
      dropField_hit 'M' hM (allDigits_dec mins) (dec_ne_nil mins)]
    cases h : secTail s ms with
    | nil => exact absurd h (secTail_ne_nil s ms)
    | cons a l =>
      obtain ⟨g1, g2⟩ := secTail_ok s ms hms
      rw [h] at g1 g2
      simp only [g1, g2, decide_true, Bool.and_self]

theorem isXsDuration_back (secs ms : Nat) (hms : ms ≤ 1000) :
    isXsDuration (isoDurationBack secs ms) = true := by
  have : isoDurationBack secs ms =
      hmsText ((if ms ≥ 1000 then secs + 1 else secs) / 3600)
        ((if ms ≥ 1000 then secs + 1 else secs) % 3600 / 60)
        ((if ms ≥ 1000 then secs + 1 else secs) % 3600 % 60)
        (if ms ≥ 1000 then ms - 1000 else ms) := by
    simp only [isoDurationBack, hmsText, fracPart]
  rw [this]
  exact isXsDuration_hms _ _ _ _ (by split <;> omega)

/-! ## date-times -/

theorem digitChar_isDigit {a : Nat} (h : a < 10) : (Nat.digitChar a).isDigit = true := by
  match a, h with
  | 0, _ | 1, _ | 2, _ | 3, _ | 4, _ | 5, _ | 6, _ | 7, _ | 8, _ | 9, _ => rfl
  | n + 10, h => omega

theorem digitChar_val {a : Nat} (h : a < 10) : (Nat.digitChar a).toNat - 48 = a := by
  match a, h with
  | 0, _ | 1, _ | 2, _ | 3, _ | 4, _ | 5, _ | 6, _ | 7, _ | 8, _ | 9, _ => rfl
  | n + 10, h => omega

theorem twoDigits_digits {a b : Nat} (ha : a < 10) (hb : b < 10) (r : Text) :
    twoDigits (Nat.digitChar a :: Nat.digitChar b :: r) = some (a * 10 + b, r) := by
  simp only [twoDigits, digitChar_isDigit ha, digitChar_isDigit hb, digitChar_val ha, digitChar_val hb,
    Bool.and_self, if_true]

theorem twoDigits_pad2 {n : Nat} (h : n < 100) (r : Text) : twoDigits (pad 2 n ++ r) = some (n, r) := by
  rw [pad2_eq h]
  simp only [List.cons_append, List.nil_append]
  rw [twoDigits_digits (by omega) (by omega)]
  congr 2
  omega

theorem expectChar_cons (c : Char) (r : Text) : expectChar c (c :: r) = some r := by
  simp [expectChar]

theorem daysInMonth_le (y m : Nat) : daysInMonth y m ≤ 31 := by
  unfold daysInMonth
  split
  · split <;> omega
  · split <;> omega

/-- the offsets xs:dateTime can express: none (written `Z`) or at most ±14:00 -/
def offsetXsd (o : Option Int) : Bool :=
  match o with
  | none => true
  | some x => x.natAbs ≤ 840

theorem isTz_tzText (off : Option Int) (h : offsetXsd off = true) : isTz (tzText off) = true := by
  unfold tzText
  cases off with
  | none => rfl
  | some o =>
    by_cases h0 : o = 0
    · simp only [h0, if_true]; rfl
    · simp only [h0, if_false]
      have hb : o.natAbs ≤ 840 := by simpa [offsetXsd] using h
      rw [offText_eq (by omega)]
      have hs : ((if o < 0 then '-' else '+') = '+' ∨ (if o < 0 then '-' else '+') = '-') := by
        split
        · exact Or.inr rfl
        · exact Or.inl rfl
      have e1 := twoDigits_digits (a := o.natAbs / 60 / 10) (b := o.natAbs / 60 % 10) (by omega) (by omega)
        [':', Nat.digitChar (o.natAbs % 60 / 10), Nat.digitChar (o.natAbs % 60 % 10)]
      have e2 := twoDigits_digits (a := o.natAbs % 60 / 10) (b := o.natAbs % 60 % 10) (by omega) (by omega) []
      have hcond : (decide (o.natAbs / 60 / 10 * 10 + o.natAbs / 60 % 10 < 14) &&
            decide (o.natAbs % 60 / 10 * 10 + o.natAbs % 60 % 10 < 60) ||
          decide (o.natAbs / 60 / 10 * 10 + o.natAbs / 60 % 10 = 14) &&
            decide (o.natAbs % 60 / 10 * 10 + o.natAbs % 60 % 10 = 0)) = true := by
        simp only [Bool.or_eq_true, Bool.and_eq_true, decide_eq_true_eq]
        omega
      rcases hs with hs | hs <;> rw [hs] <;>
        simp only [isTz, isTzOffset, e1, e2, expectChar_cons, hcond, List.isEmpty_cons, Bool.and_false,
          decide_true, Bool.true_or, Bool.or_true, Bool.and_self]

theorem isXsDateTime_render (d : DateTime) (hv : d.valid = true) (ho : offsetXsd d.offset = true) :
    isXsDateTime (bodyText d ++ tzText d.offset) = true := by
  simp only [DateTime.valid, Bool.and_eq_true, decide_eq_true_eq] at hv
  obtain ⟨⟨⟨⟨⟨⟨⟨⟨⟨hy1, hy2⟩, hm1⟩, hm2⟩, hd1⟩, hd2⟩, hh⟩, hmi⟩, hs⟩, hus⟩ := hv
  have hd3 := daysInMonth_le d.year d.month
  have hlen : (pad 4 d.year).length = 4 := length_pad (by decide) (by omega)
  have hform : bodyText d ++ tzText d.offset = pad 4 d.year ++ ('-' :: (pad 2 d.month ++ ('-' ::
      (pad 2 d.day ++ ('T' :: (pad 2 d.hour ++ (':' :: (pad 2 d.minute ++ (':' :: (pad 2 d.second ++
      ((if d.micro ≠ 0 then '.' :: pad 6 d.micro else []) ++ tzText d.offset))))))))))) := by
    simp only [bodyText, List.append_assoc, List.cons_append]
  rw [hform]
  unfold isXsDateTime
  simp only []
  rw [List.take_left' hlen, List.drop_left' hlen, expectChar_cons]
  simp only []
  rw [twoDigits_pad2 (by omega)]
  simp only []
  rw [expectChar_cons]
  simp only []
  rw [twoDigits_pad2 (by omega)]
  simp only []
  rw [expectChar_cons]
  simp only []
  rw [twoDigits_pad2 (by omega)]
  simp only []
  rw [expectChar_cons]
  simp only []
  rw [twoDigits_pad2 (by omega)]
  simp only []
  rw [expectChar_cons]
  simp only []
  rw [twoDigits_pad2 (by omega)]
  simp only []
  have hyd : (pad 4 d.year).all Char.isDigit = true := by
    rw [List.all_eq_true]; exact allDigits_pad 4 d.year
  have hconds : (decide ((pad 4 d.year).length = 4) && (pad 4 d.year).all Char.isDigit) = true := by
    simp [hlen, hyd]
  have hrange : (decide (1 ≤ d.month) && decide (d.month ≤ 12) && decide (1 ≤ d.day) && decide (d.day ≤ 31)
      && decide (d.hour < 24) && decide (d.minute < 60) && decide (d.second < 60)) = true := by
    simp only [Bool.and_eq_true, decide_eq_true_eq]
    omega
  obtain ⟨c, rest, htz, hc⟩ := tzText_head d.offset
  have hcd : c.isDigit = false := by
    simp only [isSecChar, Bool.or_eq_false_iff] at hc; exact hc.1
  have hcdot : c ≠ '.' := by
    intro h; subst h; simp [isSecChar] at hc
  have htzok := isTz_tzText d.offset ho
  rw [hconds, hrange]
  simp only [Bool.true_and]
  by_cases hus0 : d.micro = 0
  · simp only [hus0, ne_eq, not_true_eq_false, if_false, List.nil_append]
    rw [htz] at htzok ⊢
    split
    · rename_i heq; cases heq; exact absurd rfl hcdot
    · exact htzok
  · simp only [hus0, ne_eq, not_false_eq_true, if_true, List.cons_append]
    rw [htz, takeWhile_run c rest (allDigits_pad 6 d.micro) hcd, dropWhile_run c rest (allDigits_pad 6 d.micro) hcd,
      ← htz, htzok, allDigits_of (allDigits_pad 6 d.micro) (pad_ne_nil 6 d.micro)]
    rfl

end DashLive.Xml
