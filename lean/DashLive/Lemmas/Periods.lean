import DashLive.Model.Periods
import DashLive.Lemmas.Segments
import DashLive.Lemmas.Avail
import DashLive.Props.C02
/-! Helper lemmas for C12 (`Model/Periods.lean`): the VOD loop, the live loop as a walk
along the global period sequence (`startG` of `Lemmas/Segments.lean` with the period
durations as the list and their sum as the loop length), id rendering, and the
nearest-start reading of `get_segment_index` inside one loop of the media. -/
namespace DashLive.Periods
open DashLive.Segments

/-! ### small list facts -/

theorem getD_dur (ps : List PeriodDef) (i : Nat) :
    (ps.getD i { pid := [], dur := 0 }).dur = durAt (durations ps) i := by
  unfold durAt durations
  rw [List.getD_eq_getElem?_getD, List.getD_eq_getElem?_getD, List.getElem?_map]
  cases ps[i]? <;> rfl

theorem durations_length (ps : List PeriodDef) : (durations ps).length = ps.length := by
  simp [durations]

/-! ### `create_all_vod_periods` -/

theorem vodLoop_length (ps : List PeriodDef) : ∀ s, (vodLoop ps s).1.length = ps.length := by
  induction ps with
  | nil => intro s; rfl
  | cons p ps ih => intro s; simp [vodLoop, ih]

theorem vodLoop_end (ps : List PeriodDef) : ∀ s, (vodLoop ps s).2 = s + totalDuration ps := by
  induction ps with
  | nil => intro s; simp [vodLoop, totalDuration, durations]
  | cons p ps ih =>
    intro s
    simp only [vodLoop, ih]
    simp only [totalDuration, durations, List.map_cons, List.sum_cons]
    omega

theorem vodLoop_getElem (ps : List PeriodDef) :
    ∀ s i (h : i < (vodLoop ps s).1.length) (h' : i < ps.length),
      (vodLoop ps s).1[i] =
        { id := ps[i].pid, start := s + prefixSum (durations ps) i, dur := ps[i].dur } := by
  induction ps with
  | nil => intro s i h h'; simp at h'
  | cons p ps ih =>
    intro s i h h'
    cases i with
    | zero => simp [vodLoop, prefixSum]
    | succ i =>
      have hi : i < ps.length := by simpa using h'
      have := ih (s + p.dur) i (by rw [vodLoop_length]; exact hi) hi
      simp only [vodLoop, List.getElem_cons_succ, this]
      simp only [durations, prefixSum, List.map_cons, List.take_succ_cons, List.sum_cons]
      congr 1
      omega

/-! ### the global period sequence -/

/-- with the loop length equal to the sum of the durations there is no drift: every
position starts exactly where the previous one ends, across loop boundaries too -/
theorem startG_succ_sum (durs : List Nat) (g : Nat) (hn : 0 < durs.length) :
    startG durs durs.sum (g + 1) = startG durs durs.sum g + durG durs g := by
  by_cases h : g % durs.length + 1 = durs.length
  · rw [startG_succ_of_eq _ g hn h]
    have hl := prefixSum_last (durs := durs) (m := g % durs.length) h
    unfold startG durG
    rw [Nat.add_mul]
    omega
  · have hlt : g % durs.length + 1 < durs.length := by
      have := Nat.mod_lt g hn; omega
    exact startG_succ_of_lt _ g hlt

theorem startG_mono_sum (durs : List Nat) (hn : 0 < durs.length) {g g' : Nat} (h : g ≤ g') :
    startG durs durs.sum g ≤ startG durs durs.sum g' := by
  induction g' with
  | zero => have : g = 0 := by omega
            subst this; exact Nat.le_refl _
  | succ k ih =>
    by_cases he : g = k + 1
    · subst he; exact Nat.le_refl _
    · have := ih (by omega)
      rw [startG_succ_sum durs k hn]
      omega

theorem startG_loop_start (durs : List Nat) (R nl : Nat) (hn : 0 < durs.length) :
    startG durs R (nl * durs.length) = nl * R ∧ (nl * durs.length) % durs.length = 0 ∧
      (nl * durs.length) / durs.length = nl := by
  have h0 : (nl * durs.length) % durs.length = 0 := Nat.mul_mod_left _ _
  have h1 : (nl * durs.length) / durs.length = nl := Nat.mul_div_cancel _ hn
  refine ⟨?_, h0, h1⟩
  unfold startG
  rw [h0, h1, prefixSum_zero]
  omega

theorem startG_ge_loops (durs : List Nat) (R g : Nat) : g / durs.length * R ≤ startG durs R g := by
  unfold startG; omega

/-- the period the live loop emits for position `g` of the endless sequence -/
def pos (ps : List PeriodDef) (g : Nat) : OutPeriod :=
  { id := renderId (ps.getD (g % ps.length) { pid := [], dur := 0 }).pid (g / ps.length)
    start := startG (durations ps) (totalDuration ps) g
    dur := (ps.getD (g % ps.length) { pid := [], dur := 0 }).dur }

theorem pos_dur (ps : List PeriodDef) (g : Nat) : (pos ps g).dur = durG (durations ps) g := by
  unfold pos durG
  rw [getD_dur, durations_length]

/-- how the Python state `(start, index, num_loops)` moves from position `g` to `g + 1` -/
theorem next_state (ps : List PeriodDef) (g : Nat) (hn : 0 < ps.length) :
    (g % ps.length + 1) % ps.length = (g + 1) % ps.length ∧
    (if (g + 1) % ps.length = 0 then g / ps.length + 1 else g / ps.length) = (g + 1) / ps.length ∧
    startG (durations ps) (totalDuration ps) g + (ps.getD (g % ps.length) { pid := [], dur := 0 }).dur
      = startG (durations ps) (totalDuration ps) (g + 1) := by
  have hl := durations_length ps
  refine ⟨by rw [Nat.add_mod g 1, Nat.add_mod (g % ps.length) 1, Nat.mod_mod], ?_, ?_⟩
  · by_cases h : g % ps.length + 1 = ps.length
    · obtain ⟨h1, h2⟩ := succ_mod_of_eq hn h
      simp [h1, h2]
    · have hlt : g % ps.length + 1 < ps.length := by
        have := Nat.mod_lt g hn; omega
      obtain ⟨h1, h2⟩ := succ_mod_of_lt hlt
      rw [h1, h2]
      simp
  · rw [getD_dur]
    unfold totalDuration
    rw [startG_succ_sum _ g (by omega)]
    unfold durG
    rw [hl]

/-- **the live loop is a walk along the global sequence**: started in the state of position
`g`, a terminating run returns exactly the positions `s … e − 1`, where `e` is the first
position that starts after `E` and `s` the first whose end reaches `F`. -/
theorem liveLoop_char (ps : List PeriodDef) (E F : Nat) (hn : 0 < ps.length) :
    ∀ fuel g l,
      liveLoop ps E F fuel (startG (durations ps) (totalDuration ps) g) (g % ps.length) (g / ps.length) = some l →
      ∃ s e, g ≤ s ∧ s ≤ e ∧ l = (List.range' s (e - s)).map (pos ps) ∧
        (∀ x, g ≤ x → x < e → startG (durations ps) (totalDuration ps) x ≤ E) ∧
        E < startG (durations ps) (totalDuration ps) e ∧
        (∀ x, g ≤ x → x < s → startG (durations ps) (totalDuration ps) (x + 1) < F) ∧
        (∀ x, s ≤ x → x < e → F ≤ startG (durations ps) (totalDuration ps) (x + 1)) := by
  intro fuel
  induction fuel with
  | zero => intro g l h; simp [liveLoop] at h
  | succ f ih =>
    intro g l h
    obtain ⟨n1, n2, n3⟩ := next_state ps g hn
    unfold liveLoop at h
    by_cases hle : startG (durations ps) (totalDuration ps) g ≤ E
    · simp only [hle, if_true, n1, n2, n3] at h
      cases hrec : liveLoop ps E F f (startG (durations ps) (totalDuration ps) (g + 1))
          ((g + 1) % ps.length) ((g + 1) / ps.length) with
      | none => rw [hrec] at h; simp at h
      | some rest =>
        rw [hrec] at h
        obtain ⟨s', e', hs1, hs2, hl, c1, c2, c3, c4⟩ := ih (g + 1) rest hrec
        have hmono : startG (durations ps) (totalDuration ps) (g + 1) ≤
            startG (durations ps) (totalDuration ps) (g + 1 + 1) := by
          unfold totalDuration
          exact startG_mono_sum _ (by rw [durations_length]; exact hn) (by omega)
        by_cases hk : startG (durations ps) (totalDuration ps) (g + 1) ≥ F
        · simp only [hk, if_true, Option.some.injEq] at h
          have hs' : s' = g + 1 := by
            by_cases hq : s' = g + 1
            · exact hq
            · have := c3 (g + 1) (Nat.le_refl _) (by omega)
              omega
          subst hs'
          refine ⟨g, e', Nat.le_refl _, by omega, ?_, ?_, c2, ?_, ?_⟩
          · rw [← h, hl]
            have : e' - g = (e' - (g + 1)) + 1 := by omega
            rw [this, List.range'_succ, List.map_cons]
            rfl
          · intro x hx1 hx2
            by_cases hx : x = g
            · subst hx; exact hle
            · exact c1 x (by omega) hx2
          · intro x hx1 hx2; omega
          · intro x hx1 hx2
            by_cases hx : x = g
            · subst hx; exact hk
            · exact c4 x (by omega) hx2
        · simp only [hk, if_false, Option.some.injEq] at h
          refine ⟨s', e', by omega, hs2, by rw [← h, hl], ?_, c2, ?_, c4⟩
          · intro x hx1 hx2
            by_cases hx : x = g
            · subst hx; exact hle
            · exact c1 x (by omega) hx2
          · intro x hx1 hx2
            by_cases hx : x = g
            · subst hx; omega
            · exact c3 x (by omega) hx2
    · simp only [hle, if_false, Option.some.injEq] at h
      refine ⟨g, g, Nat.le_refl _, Nat.le_refl _, ?_, ?_, by omega, ?_, ?_⟩
      · rw [← h]; simp
      · intro x h1 h2; omega
      · intro x h1 h2; omega
      · intro x h1 h2; omega

/-- **termination**: with a positive total duration the loop leaves at the latest at the
first period of loop `E / D + 1`, so `liveFuel` iterations are enough from any position. -/
theorem liveLoop_terminates (ps : List PeriodDef) (E F : Nat) (hn : 0 < ps.length)
    (hD : 0 < totalDuration ps) :
    ∀ fuel g, (E / totalDuration ps + 1) * ps.length + 1 ≤ g + fuel → 1 ≤ fuel →
      ∃ l, liveLoop ps E F fuel (startG (durations ps) (totalDuration ps) g) (g % ps.length) (g / ps.length)
        = some l := by
  intro fuel
  induction fuel with
  | zero => intro g _ h; omega
  | succ f ih =>
    intro g hf _
    obtain ⟨n1, n2, n3⟩ := next_state ps g hn
    unfold liveLoop
    by_cases hle : startG (durations ps) (totalDuration ps) g ≤ E
    · simp only [hle, if_true, n1, n2, n3]
      have hg : g < (E / totalDuration ps + 1) * ps.length := by
        by_cases hq : g < (E / totalDuration ps + 1) * ps.length
        · exact hq
        · have h1 : E / totalDuration ps + 1 ≤ g / ps.length :=
            (Nat.le_div_iff_mul_le hn).mpr (by omega)
          have h2 := startG_ge_loops (durations ps) (totalDuration ps) g
          rw [durations_length] at h2
          have h3 := (div_mul_le_lt E (totalDuration ps) hD).2
          have h4 : (E / totalDuration ps + 1) * totalDuration ps ≤ g / ps.length * totalDuration ps :=
            Nat.mul_le_mul_right _ h1
          omega
      obtain ⟨rest, hrest⟩ := ih (g + 1) (by omega) (by omega)
      rw [hrest]
      by_cases hk : startG (durations ps) (totalDuration ps) (g + 1) ≥ F
      · simp only [hk, if_true]; exact ⟨_, rfl⟩
      · simp only [hk, if_false]; exact ⟨_, rfl⟩
    · exact ⟨[], by simp only [hle, if_false]⟩

/-- with zero total duration (and at least one period) the loop never leaves: whatever the
fuel, it is exhausted.  (The Python does not get this far: the loop count division raises
`ZeroDivisionError` first – `livePeriods` returns `.zeroDivision`.) -/
theorem liveLoop_zero_diverges (ps : List PeriodDef) (E F : Nat) (hn : 0 < ps.length)
    (hD : totalDuration ps = 0) :
    ∀ fuel g, liveLoop ps E F fuel (startG (durations ps) (totalDuration ps) g) (g % ps.length) (g / ps.length)
      = none := by
  intro fuel
  induction fuel with
  | zero => intro g; rfl
  | succ f ih =>
    intro g
    obtain ⟨n1, n2, n3⟩ := next_state ps g hn
    have hz : ∀ x, startG (durations ps) (totalDuration ps) x = 0 := by
      intro x
      have h1 : prefixSum (durations ps) (x % (durations ps).length) ≤ (durations ps).sum :=
        prefixSum_le_sum _ _
      unfold totalDuration at hD
      unfold startG totalDuration
      rw [hD] at h1 ⊢
      omega
    unfold liveLoop
    simp only [n1, n2, n3, ih (g + 1)]
    rw [hz g]
    simp

/-! ### ids -/

theorem split_at_last {α : Type} {c : α} : ∀ (a a' b b' : List α), c ∉ b → c ∉ b' →
    a ++ c :: b = a' ++ c :: b' → a = a' ∧ b = b' := by
  intro a a' b b' hb hb' h
  rcases List.append_eq_append_iff.mp h with ⟨t, h1, h2⟩ | ⟨t, h1, h2⟩
  · cases t with
    | nil => simp at h1 h2; exact ⟨h1.symm, h2⟩
    | cons x t =>
      simp only [List.cons_append, List.cons.injEq] at h2
      exact absurd (by rw [h2.2]; simp) hb
  · cases t with
    | nil => simp at h1 h2; exact ⟨h1, h2.symm⟩
    | cons x t =>
      simp only [List.cons_append, List.cons.injEq] at h2
      exact absurd (by rw [h2.2]; simp) hb'

theorem toDigits_inj {m n : Nat} (h : Nat.toDigits 10 m = Nat.toDigits 10 n) : m = n := by
  have h1 := Nat.ofDigitChars_ten_toDigits (n := m)
  have h2 := Nat.ofDigitChars_ten_toDigits (n := n)
  rw [h] at h1
  omega

/-- `pid_loop` determines both the pid and the loop number -/
theorem renderId_inj {p q : List Char} {m n : Nat} (h : renderId p m = renderId q n) : p = q ∧ m = n := by
  unfold renderId at h
  obtain ⟨h1, h2⟩ := split_at_last p q _ _ Nat.underscore_not_in_toDigits Nat.underscore_not_in_toDigits h
  exact ⟨h1, toDigits_inj h2⟩

/-! ### contiguous lists cover an interval -/

theorem exists_between (f : Nat → Nat) (t : Nat) : ∀ d s e, e = s + d → f s ≤ t → t < f e →
    ∃ x, s ≤ x ∧ x < e ∧ f x ≤ t ∧ t < f (x + 1) := by
  intro d
  induction d with
  | zero => intro s e he h1 h2; subst he; omega
  | succ d ih =>
    intro s e he h1 h2
    by_cases hm : t < f (s + 1)
    · exact ⟨s, Nat.le_refl _, by omega, h1, hm⟩
    · obtain ⟨x, a, b, c, d'⟩ := ih (s + 1) e (by omega) (by omega) h2
      exact ⟨x, by omega, b, c, d'⟩

/-! ### `get_segment_index` inside the first loop of the media -/

/-- distance between two tick values -/
def dist (a b : Nat) : Nat := (a - b) + (b - a)

/-- the search stays inside the first loop exactly when the offset is inside the reference
duration and not later than the middle of the last segment -/
theorem index_lt_iff (durs : List Nat) (R tc : Nat) (hR : 0 < R) (hn : 0 < durs.length) :
    index durs R tc < durs.length ↔
      tc < R ∧ tc ≤ prefixSum durs (durs.length - 1) + durAt durs (durs.length - 1) / 2 := by
  obtain ⟨a, b, c, d⟩ := index_spec durs R tc hR hn
  constructor
  · intro h
    have hlt : tc < R := by
      by_cases hq : tc < R
      · exact hq
      · have h1 : 1 ≤ tc / R := (Nat.le_div_iff_mul_le hR).mpr (by omega)
        have h2 : 1 * durs.length ≤ tc / R * durs.length := Nat.mul_le_mul_right _ h1
        omega
    refine ⟨hlt, ?_⟩
    unfold before startG durG at c
    rw [Nat.mod_eq_of_lt h, Nat.div_eq_of_lt h] at c
    by_cases hq : index durs R tc = durs.length - 1
    · rw [hq] at c
      omega
    · have hm := prefixSum_mono durs (j := index durs R tc + 1) (k := durs.length - 1) (by omega)
      rw [prefixSum_succ h] at hm
      omega
  · intro ⟨hlt, hlast⟩
    have hz : tc / R = 0 := Nat.div_eq_of_lt hlt
    by_cases hq : index durs R tc < durs.length
    · exact hq
    · have hb := d (durs.length - 1) (by rw [hz]; omega) (by omega)
      unfold before startG durG at hb
      rw [Nat.mod_eq_of_lt (by omega), Nat.div_eq_of_lt (by omega)] at hb
      omega

/-! ### the loop as the Python starts it -/

theorem livePeriodsFrom_state (ps : List PeriodDef) (E F nl : Nat) (hn : 0 < ps.length) :
    livePeriodsFrom ps E F nl =
      liveLoop ps E F (liveFuel ps E) (startG (durations ps) (totalDuration ps) (nl * ps.length))
        ((nl * ps.length) % ps.length) ((nl * ps.length) / ps.length) := by
  obtain ⟨h1, h2, h3⟩ := startG_loop_start (durations ps) (totalDuration ps) nl
    (by rw [durations_length]; exact hn)
  rw [durations_length] at h1 h2 h3
  unfold livePeriodsFrom
  rw [h1, h2, h3, Nat.mul_comm]

theorem livePeriodsFrom_terminates (ps : List PeriodDef) (E F nl : Nat) (hD : 0 < totalDuration ps) :
    ∃ l, livePeriodsFrom ps E F nl = some l := by
  have hn : 0 < ps.length := by
    cases ps with
    | nil => simp [totalDuration, durations] at hD
    | cons p ps => simp
  rw [livePeriodsFrom_state ps E F nl hn]
  exact liveLoop_terminates ps E F hn hD _ _ (by unfold liveFuel; omega) (by unfold liveFuel; omega)

theorem pos_of_total_pos {ps : List PeriodDef} (hD : 0 < totalDuration ps) : 0 < ps.length := by
  cases ps with
  | nil => simp [totalDuration, durations] at hD
  | cons p ps => simp

/-- the list a terminating run returns, in terms of positions of the global sequence -/
theorem livePeriodsFrom_char (ps : List PeriodDef) (E F nl : Nat) (l : List OutPeriod)
    (hn : 0 < ps.length) (h : livePeriodsFrom ps E F nl = some l) :
    ∃ s e, nl * ps.length ≤ s ∧ s ≤ e ∧ l = (List.range' s (e - s)).map (pos ps) ∧
      (∀ x, nl * ps.length ≤ x → x < e → startG (durations ps) (totalDuration ps) x ≤ E) ∧
      E < startG (durations ps) (totalDuration ps) e ∧
      (∀ x, nl * ps.length ≤ x → x < s → startG (durations ps) (totalDuration ps) (x + 1) < F) ∧
      (∀ x, s ≤ x → x < e → F ≤ startG (durations ps) (totalDuration ps) (x + 1)) := by
  rw [livePeriodsFrom_state ps E F nl hn] at h
  exact liveLoop_char ps E F hn _ _ l h

/-- the number of listed Periods is bounded by what the guard of e70c912 computes (with the
exact floor): at most `len · (1 + ⌊(E − nl·D) / D⌋)` -/
theorem livePeriodsFrom_length (ps : List PeriodDef) (E F nl : Nat) (l : List OutPeriod)
    (hD : 0 < totalDuration ps) (hnl : nl * totalDuration ps ≤ E)
    (h : livePeriodsFrom ps E F nl = some l) :
    l.length ≤ ps.length * (1 + (E - nl * totalDuration ps) / totalDuration ps) := by
  have hn := pos_of_total_pos hD
  obtain ⟨s, e, hs1, hs2, hl, c1, _, _, _⟩ := livePeriodsFrom_char ps E F nl l hn h
  have hlen : l.length = e - s := by rw [hl]; simp
  -- the last emitted position lies in a loop that starts at or before E
  have hdiv : (E - nl * totalDuration ps) / totalDuration ps = E / totalDuration ps - nl := by
    rw [Nat.mul_comm]; exact Nat.sub_mul_div _ _ _
  have he : e ≤ (E / totalDuration ps + 1) * ps.length := by
    by_cases hq : e ≤ (E / totalDuration ps + 1) * ps.length
    · exact hq
    · have hx := c1 ((E / totalDuration ps + 1) * ps.length)
        (by have : nl ≤ E / totalDuration ps := (Nat.le_div_iff_mul_le hD).mpr hnl
            have := Nat.mul_le_mul_right ps.length this
            rw [Nat.add_mul]; omega)
        (by omega)
      have hge := startG_ge_loops (durations ps) (totalDuration ps) ((E / totalDuration ps + 1) * ps.length)
      rw [durations_length, Nat.mul_div_cancel _ hn] at hge
      have := (div_mul_le_lt E (totalDuration ps) hD).2
      omega
  have hnle : nl ≤ E / totalDuration ps := (Nat.le_div_iff_mul_le hD).mpr hnl
  rw [hlen, hdiv]
  have : ps.length * (1 + (E / totalDuration ps - nl)) = (E / totalDuration ps + 1) * ps.length - nl * ps.length := by
    have e1 : 1 + (E / totalDuration ps - nl) = E / totalDuration ps + 1 - nl := by omega
    rw [e1, Nat.mul_comm, Nat.sub_mul]
  rw [this]
  omega

theorem range_map_getElem (ps : List PeriodDef) (s m i : Nat)
    (h : i < ((List.range' s m).map (pos ps)).length) :
    ((List.range' s m).map (pos ps))[i] = pos ps (s + i) := by
  simp [List.getElem_map, List.getElem_range']

/-! ### media requests of a period -/

/-- the index calculation for a `$Number$` request, in terms of the position `index` selects -/
theorem mpsIndex_number (durs : List Nat) (R sn tc : Nat) (num : Int) (hR : 0 < R)
    (hn : 0 < durs.length) :
    mpsIndex durs R sn tc (.number num) =
      if durs.length ≤ index durs R tc then .notFound
      else if num < sn then .notFound
      else if (index durs R tc : Int) + 1 + (num - sn) > durs.length then .notFound
      else .ok ((index durs R tc : Int) + 1 + (num - sn)) (-(prefixSum durs (index durs R tc) : Int)) num := by
  unfold mpsIndex
  simp only [getSegmentIndex_eq durs R tc hn]
  by_cases hq : durs.length ≤ index durs R tc
  · have h1 : 1 ≤ index durs R tc / durs.length := (Nat.le_div_iff_mul_le hn).mpr (by omega)
    have h2 : 1 * R ≤ index durs R tc / durs.length * R := Nat.mul_le_mul_right _ h1
    have h3 : index durs R tc / durs.length * R > 0 := by omega
    simp only [h3, if_true, hq]
  · have hlt : index durs R tc < durs.length := by omega
    have hz : index durs R tc / durs.length * R = 0 := by
      rw [Nat.div_eq_of_lt hlt]; omega
    have hs : startG durs R (index durs R tc) = prefixSum durs (index durs R tc) := by
      unfold startG; rw [Nat.div_eq_of_lt hlt, Nat.mod_eq_of_lt hlt]; omega
    simp only [hz, hs, hq, if_false, Nat.mod_eq_of_lt hlt, gt_iff_lt, Nat.lt_irrefl]
    push_cast
    rfl

/-- the position selected for the start of a stored segment inside the first loop is that
segment (under the C02 hypotheses H1, H2) -/
theorem index_at_start (durs : List Nat) (R g : Nat) (hn : 0 < durs.length) (hg : g < durs.length)
    (h1 : StartsInsideLoop durs R) (h2 : PositiveDurs durs) :
    index durs R (prefixSum durs g) = g := by
  have hR : 0 < R := by have := h1 0 hn; omega
  have hs : startG durs R g = prefixSum durs g := by
    unfold startG; rw [Nat.div_eq_of_lt hg, Nat.mod_eq_of_lt hg]; omega
  have h := C02_time_resolves durs R g hn h1 h2
  rw [hs, getSegmentIndex_eq durs R _ hn] at h
  simp only [Prod.mk.injEq] at h
  obtain ⟨a, _, c⟩ := h
  rw [Nat.div_eq_of_lt hg, Nat.mod_eq_of_lt hg] at *
  have hd : index durs R (prefixSum durs g) / durs.length = 0 := by
    rw [Nat.zero_mul] at c
    rcases Nat.mul_eq_zero.mp c with h | h
    · exact h
    · omega
  have := Nat.div_add_mod (index durs R (prefixSum durs g)) durs.length
  rw [hd] at this
  omega

/-- the index calculation for a `$Time$` request (fix 488ab59) -/
theorem mpsIndex_time (durs : List Nat) (R sn tc t : Nat) (hR : 0 < R) (hn : 0 < durs.length) :
    mpsIndex durs R sn tc (.time t) =
      if durs.length ≤ index durs R tc then .notFound
      else if durs.length ≤ index durs R (prefixSum durs (index durs R tc) + t) then .notFound
      else .ok ((index durs R (prefixSum durs (index durs R tc) + t) : Int) + 1)
        (-(prefixSum durs (index durs R tc) : Int))
        ((sn : Int) + (index durs R (prefixSum durs (index durs R tc) + t) : Int) - (index durs R tc : Int)) := by
  unfold mpsIndex
  simp only [getSegmentIndex_eq durs R _ hn]
  by_cases hq : durs.length ≤ index durs R tc
  · have h1 : 1 ≤ index durs R tc / durs.length := (Nat.le_div_iff_mul_le hn).mpr (by omega)
    have h2 : 1 * R ≤ index durs R tc / durs.length * R := Nat.mul_le_mul_right _ h1
    have h3 : index durs R tc / durs.length * R > 0 := by omega
    simp only [h3, if_true, hq]
  · have hlt : index durs R tc < durs.length := by omega
    have hz : index durs R tc / durs.length * R = 0 := by
      rw [Nat.div_eq_of_lt hlt]; omega
    have hs : startG durs R (index durs R tc) = prefixSum durs (index durs R tc) := by
      unfold startG; rw [Nat.div_eq_of_lt hlt, Nat.mod_eq_of_lt hlt]; omega
    simp only [hz, hs, hq, if_false, gt_iff_lt, Nat.lt_irrefl]
    by_cases hq2 : durs.length ≤ index durs R (prefixSum durs (index durs R tc) + t)
    · have h1 : 1 ≤ index durs R (prefixSum durs (index durs R tc) + t) / durs.length :=
        (Nat.le_div_iff_mul_le hn).mpr (by omega)
      have h2 := Nat.mul_le_mul_right R h1
      have h3 : 0 < index durs R (prefixSum durs (index durs R tc) + t) / durs.length * R := by omega
      simp only [h3, if_true, hq2]
    · have hlt2 : index durs R (prefixSum durs (index durs R tc) + t) < durs.length := by omega
      have hz2 : index durs R (prefixSum durs (index durs R tc) + t) / durs.length * R = 0 := by
        rw [Nat.div_eq_of_lt hlt2]; omega
      simp only [hz2, hq2, if_false, Nat.lt_irrefl, Nat.mod_eq_of_lt hlt, Nat.mod_eq_of_lt hlt2]
      congr 1
      · push_cast; omega

/-! ### the SegmentTimeline of a Period -/

/-- the plain sequence of durations the `while` loop of `generate_period_timeline` walks over -/
def ptRaw (durs : List Nat) (lim : Nat) : Nat → Nat → Nat → List Int
  | 0, _, _ => []
  | f+1, m, pos =>
    if m < durs.length ∧ pos * 1000000 < lim then
      (durAt durs m : Int) :: ptRaw durs lim f (m + 1) (pos + durAt durs m)
    else []

/-- invariant of the loop once a node is being filled -/
theorem ptLoop_mid (durs : List Nat) (lim : Nat) :
    ∀ fuel m pos (cur : SNode) (acc : List SNode) (t0 : Int) (dc : Int), cur.dur = some dc →
      expandFrom t0 (ptLoop durs lim fuel m pos cur acc)
        = expandFrom t0 (acc ++ [cur])
          ++ accumulate (endTime t0 (acc ++ [cur])) (ptRaw durs lim fuel m pos) := by
  intro fuel
  induction fuel with
  | zero =>
    intro m pos cur acc t0 dc hc
    simp [ptLoop, ptRaw, accumulate, outputNode, hc]
  | succ f ih =>
    intro m pos cur acc t0 dc hc
    unfold ptLoop ptRaw
    by_cases hlt : m < durs.length ∧ pos * 1000000 < lim
    · simp only [hlt, and_self, if_true]
      have hnone : cur.dur.isNone = false := by simp [hc]
      simp only [hnone, Bool.false_eq_true, if_false]
      by_cases hsame : some (durAt durs m : Int) ≠ cur.dur
      · simp only [if_pos hsame]
        have := ih (m + 1) (pos + durAt durs m)
          { SNode.fresh with dur := some (durAt durs m : Int), count := SNode.fresh.count + 1 }
          (outputNode acc cur) t0 (durAt durs m : Int) rfl
        rw [this]
        simp only [outputNode, hc, Option.isSome_some, if_true, accumulate]
        rw [expandFrom_append, expandFrom_append, endTime_append, endTime_append]
        simp [expandFrom, endTime, SNode.fresh, List.range_succ]
        rw [endTime_append]
        simp [endTime]
      · simp only [if_neg hsame]
        have hceq : cur.dur = some (durAt durs m : Int) := by
          by_cases h : some (durAt durs m : Int) = cur.dur
          · exact h.symm
          · exact absurd h hsame
        have := ih (m + 1) (pos + durAt durs m)
          { cur with dur := some (durAt durs m : Int), count := cur.count + 1 }
          acc t0 (durAt durs m : Int) rfl
        rw [this]
        have hcur : ({ cur with dur := some (durAt durs m : Int), count := cur.count + 1 } : SNode)
            = { cur with count := cur.count + 1 } := by
          cases cur; simp_all
        rw [hcur, expandFrom_append, expandFrom_append, endTime_append, endTime_append,
          expandFrom_single_succ _ _ _ hceq, endTime_single_succ _ _ _ hceq]
        simp only [accumulate, List.append_assoc, List.singleton_append]
        congr 2
        simp only [endTime, hceq, Option.getD_some]
    · simp only [hlt, if_false, accumulate, List.append_nil, outputNode, hc, Option.isSome_some, if_true]

/-- **the `<S>` list means the walked durations**, accumulated from the position the walk
starts at -/
theorem ptLoop_expand (durs : List Nat) (lim fuel m pos : Nat) :
    expand (ptLoop durs lim fuel m pos SNode.fresh [])
      = accumulate (pos : Int) (ptRaw durs lim fuel m pos) := by
  unfold expand
  cases fuel with
  | zero => simp [ptLoop, ptRaw, accumulate, outputNode, SNode.fresh, expandFrom]
  | succ f =>
    unfold ptLoop ptRaw
    by_cases hlt : m < durs.length ∧ pos * 1000000 < lim
    · simp only [hlt, and_self, if_true]
      have := ptLoop_mid durs lim f (m + 1) (pos + durAt durs m)
        { start := some (pos : Int), dur := some (durAt durs m : Int), count := 1 } [] 0
        (durAt durs m : Int) rfl
      simp only [SNode.fresh] at *
      simp only [Option.isNone_none, if_true]
      rw [this]
      simp [expandFrom, endTime, accumulate, List.range_succ]
    · simp [hlt, accumulate, outputNode, SNode.fresh, expandFrom]

theorem accumulate_length (t : Int) (l : List Int) : (accumulate t l).length = l.length := by
  induction l generalizing t with
  | nil => rfl
  | cons d ds ih => simp [accumulate, ih]

/-- **what the walk lists**: entry `j` is stored segment `m + j`, at the position it has
counted from the start of the walk; every listed segment exists and starts before the limit;
and (with enough fuel) the walk only stops at the end of the media or at the limit. -/
theorem ptRaw_spec (durs : List Nat) (lim : Nat) :
    ∀ (fuel m pos : Nat),
      (∀ j (h : j < (accumulate (pos : Int) (ptRaw durs lim fuel m pos)).length),
        (accumulate (pos : Int) (ptRaw durs lim fuel m pos))[j] =
          ((pos : Int) + prefixSum durs (m + j) - prefixSum durs m, (durAt durs (m + j) : Int)) ∧
        m + j < durs.length ∧
        ((pos : Int) + prefixSum durs (m + j) - prefixSum durs m) * 1000000 < lim) ∧
      (durs.length + 1 ≤ m + fuel → m ≤ durs.length →
        (m + (ptRaw durs lim fuel m pos).length = durs.length ∨
         (m + (ptRaw durs lim fuel m pos).length < durs.length ∧
          (lim : Int) ≤ ((pos : Int) + prefixSum durs (m + (ptRaw durs lim fuel m pos).length)
            - prefixSum durs m) * 1000000))) := by
  intro fuel
  induction fuel with
  | zero =>
    intro m pos
    refine ⟨?_, ?_⟩
    · intro j h; simp [ptRaw, accumulate] at h
    · intro h1 h2; omega
  | succ f ih =>
    intro m pos
    unfold ptRaw
    by_cases hlt : m < durs.length ∧ pos * 1000000 < lim
    · simp only [hlt, and_self, if_true, accumulate, List.length_cons]
      obtain ⟨ia, ib⟩ := ih (m + 1) (pos + durAt durs m)
      have hps := prefixSum_succ (durs := durs) (k := m) hlt.1
      have hcast : ((pos + durAt durs m : Nat) : Int) = (pos : Int) + (durAt durs m : Int) := by push_cast; rfl
      rw [hcast] at ia
      refine ⟨?_, ?_⟩
      · intro j h
        cases j with
        | zero =>
          simp only [List.getElem_cons_zero, Nat.add_zero]
          refine ⟨by congr 1; omega, hlt.1, ?_⟩
          have : ((pos : Int) + prefixSum durs m - prefixSum durs m) = pos := by omega
          rw [this]
          exact_mod_cast hlt.2
        | succ j =>
          simp only [List.getElem_cons_succ]
          have hj : j < (accumulate ((pos : Int) + (durAt durs m : Int))
              (ptRaw durs lim f (m + 1) (pos + durAt durs m))).length := by
            simpa using h
          obtain ⟨e1, e2, e3⟩ := ia j hj
          have hidx : m + 1 + j = m + (j + 1) := by omega
          rw [hidx] at e1 e2 e3
          refine ⟨?_, e2, ?_⟩
          · rw [e1]; congr 1; omega
          · have : (pos : Int) + prefixSum durs (m + (j + 1)) - prefixSum durs m
                = (pos : Int) + (durAt durs m : Int) + prefixSum durs (m + (j + 1)) - prefixSum durs (m + 1) := by
              omega
            rw [this]; exact e3
      · intro h1 h2
        have := ib (by omega) (by omega)
        have hidx : m + 1 + (ptRaw durs lim f (m + 1) (pos + durAt durs m)).length
            = m + ((ptRaw durs lim f (m + 1) (pos + durAt durs m)).length + 1) := by omega
        rw [hidx] at this
        rcases this with h | ⟨h, h'⟩
        · left; exact h
        · right
          refine ⟨h, ?_⟩
          have e : ((pos + durAt durs m : Nat) : Int) + prefixSum durs (m + ((ptRaw durs lim f (m + 1) (pos + durAt durs m)).length + 1))
              - prefixSum durs (m + 1)
              = (pos : Int) + prefixSum durs (m + ((ptRaw durs lim f (m + 1) (pos + durAt durs m)).length + 1))
                - prefixSum durs m := by
            push_cast; omega
          rw [e] at h'
          exact h'
    · simp only [hlt, if_false, accumulate, List.length_nil, Nat.add_zero]
      refine ⟨?_, ?_⟩
      · intro j h; simp at h
      · intro h1 h2
        by_cases hm : m = durs.length
        · left; exact hm
        · right
          refine ⟨by omega, ?_⟩
          have hp : ¬ pos * 1000000 < lim := fun h => hlt ⟨by omega, h⟩
          have : ((pos : Int) + prefixSum durs m - prefixSum durs m) = pos := by omega
          rw [this]
          exact_mod_cast Nat.le_of_not_lt hp

/-- the SegmentTimeline of a Period, expanded: the source segments from the selected one -/
theorem periodTimeline_expand (durs : List Nat) (R ts tc durUs : Nat) (hn : 0 < durs.length)
    (hin : index durs R tc < durs.length) :
    expand (periodTimeline durs R ts tc durUs)
      = accumulate ((0 : Nat) : Int) (ptRaw durs (durUs * ts) (durs.length + 1) (index durs R tc) 0) := by
  unfold periodTimeline
  simp only [getSegmentIndex_eq durs R tc hn]
  have hz : ¬ (index durs R tc / durs.length * R > 0) := by
    rw [Nat.div_eq_of_lt hin]; omega
  simp only [hz, if_false, Nat.mod_eq_of_lt hin, Nat.add_sub_cancel]
  exact ptLoop_expand durs (durUs * ts) (durs.length + 1) (index durs R tc) 0

/-- quantised durations are whole milliseconds -/
theorem quantise_dvd (us : Nat) : 1000 ∣ quantise us := by
  unfold quantise; exact Nat.dvd_mul_left 1000 _

theorem quantise_near (us : Nat) : us ≤ quantise us + 499 ∧ quantise us ≤ us + 500 := by
  unfold quantise; omega

theorem presented_durations_dvd (ps : List PeriodDef) :
    ∀ d, d ∈ durations (presented ps) → 1000 ∣ d := by
  intro d hd
  unfold durations presented at hd
  simp only [List.map_map, List.mem_map, Function.comp] at hd
  obtain ⟨p, _, rfl⟩ := hd
  exact quantise_dvd _

theorem sum_dvd (l : List Nat) (k : Nat) (h : ∀ d, d ∈ l → k ∣ d) : k ∣ l.sum := by
  induction l with
  | nil => simp
  | cons a l ih =>
    rw [List.sum_cons]
    exact Nat.dvd_add (h a (by simp)) (ih fun d hd => h d (by simp [hd]))

theorem prefixSum_dvd (l : List Nat) (k i : Nat) (h : ∀ d, d ∈ l → k ∣ d) : k ∣ prefixSum l i := by
  unfold prefixSum
  exact sum_dvd _ k fun d hd => h d (List.mem_of_mem_take hd)

theorem startG_dvd (l : List Nat) (k g : Nat) (h : ∀ d, d ∈ l → k ∣ d) : k ∣ startG l l.sum g := by
  unfold startG
  exact Nat.dvd_add (Nat.dvd_mul_left_of_dvd (sum_dvd l k h) _) (prefixSum_dvd l k _ h)

end DashLive.Periods
