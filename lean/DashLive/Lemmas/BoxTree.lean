import DashLive.Lemmas.Box
/-! Box trees: encoded sizes, parse ∘ encode = id, the payload-agnostic walker. -/
namespace DashLive.Boxes
open DashLive.Bytes

theorem hdrLen_ge (t : BoxType) (l : Bool) (h : t.Wf) : 8 ≤ hdrLen t l := by
  rw [hdrLen_wf t l h]; omega

theorem encBox_leaf_length (t : BoxType) (l : Bool) (p : Payload) :
    (encBox (.leaf t l p)).length = hdrLen t l + (encPayload p).length := by
  simp [encBox, encHeader_length t l _]

theorem encBox_node_length (t : BoxType) (l : Bool) (cs : List Box) :
    (encBox (.node t l cs)).length = hdrLen t l + (encBoxes cs).length := by
  simp [encBox, encHeader_length t l _]

theorem BoxWf.typ_wf {ctx : SencCtx} {b : Box} (h : BoxWf ctx b) :
    match b with
    | .leaf t _ _ => t.Wf
    | .node t _ _ => t.Wf := by
  cases b <;> simp only [BoxWf] at h <;> exact h.1

theorem encBox_length_ge {ctx : SencCtx} {b : Box} (h : BoxWf ctx b) : 8 ≤ (encBox b).length := by
  cases b with
  | leaf t l p =>
    simp only [BoxWf] at h
    rw [encBox_leaf_length t l p]; have := hdrLen_ge t l h.1; omega
  | node t l cs =>
    simp only [BoxWf] at h
    rw [encBox_node_length t l cs]; have := hdrLen_ge t l h.1; omega

theorem count_pos (b : Box) : 1 ≤ b.count := by
  cases b <;> simp [Box.count]

/-- one decoding step on the encoding of a well-formed box followed by anything -/
theorem decHeader_encBox (ctx : SencCtx) (tl : Nat) (b : Box) (tail : Bytes) (h : BoxWf ctx b) :
    match b with
    | .leaf t l p =>
      decHeader tl (encBox b ++ tail) =
        some ({ typ := t, large := l, toEnd := false, size := hdrLen t l + (encPayload p).length },
              encPayload p ++ tail)
    | .node t l cs =>
      decHeader tl (encBox b ++ tail) =
        some ({ typ := t, large := l, toEnd := false, size := hdrLen t l + (encBoxes cs).length },
              encBoxes cs ++ tail) := by
  cases b with
  | leaf t l p =>
    simp only [BoxWf] at h
    simp only [encBox, List.append_assoc]
    exact decHeader_encHeader tl t l _ _ h.1 h.2.2.2
  | node t l cs =>
    simp only [BoxWf] at h
    simp only [encBox, List.append_assoc]
    exact decHeader_encHeader tl t l _ _ h.1 h.2.2.2

theorem tree_roundtrip_fuel (ctx : SencCtx) :
    ∀ (fuel : Nat) (tl : Nat) (cs : List Box), BoxesWf ctx cs → countBoxes cs ≤ fuel →
      decBoxes ctx tl fuel (encBoxes cs) = some cs := by
  intro fuel
  induction fuel with
  | zero =>
    intro tl cs _ hc
    cases cs with
    | nil => simp [decBoxes, encBoxes]
    | cons b tl =>
      have := count_pos b
      simp only [countBoxes] at hc
      omega
  | succ fuel ih =>
    intro tail cs hwf hc
    cases cs with
    | nil => simp [decBoxes, encBoxes]
    | cons b tl =>
      simp only [BoxesWf] at hwf
      obtain ⟨hb, htl⟩ := hwf
      simp only [countBoxes] at hc
      have hcb := count_pos b
      have hlen := encBox_length_ge hb
      have hne : (encBox b ++ encBoxes tl).isEmpty = false := by
        cases hx : encBox b ++ encBoxes tl with
        | nil =>
          have := congrArg List.length hx
          simp only [List.length_append, List.length_nil] at this
          omega
        | cons _ _ => rfl
      have htail := ih tail tl htl (by omega)
      have hdr := decHeader_encBox ctx tail b (encBoxes tl) hb
      cases b with
      | leaf t l p =>
        simp only [BoxWf] at hb
        obtain ⟨ht, hk, hp, _⟩ := hb
        simp only at hdr
        have hl : (encBox (.leaf t l p) ++ encBoxes tl).length
            = hdrLen t l + (encPayload p).length + (encBoxes tl).length := by
          rw [List.length_append, encBox_leaf_length t l p]
        simp only [encBoxes, decBoxes, hne, Bool.false_eq_true, if_false, hdr, Header.hdrSize, hl]
        have c1 : ¬ (hdrLen t l + (encPayload p).length < hdrLen t l ∨
            hdrLen t l + (encPayload p).length + (encBoxes tl).length
              < hdrLen t l + (encPayload p).length) := by omega
        simp only [c1, if_false, Nat.add_sub_cancel_left, List.take_left', List.drop_left',
          hk, decPayload_encPayload ctx _ p hp, Option.map_some, htail]
      | node t l cs =>
        simp only [BoxWf] at hb
        obtain ⟨ht, hk, hcs, _⟩ := hb
        simp only at hdr
        simp only [Box.count] at hc
        have hch := ih ((encBoxes tl).length + tail) cs hcs (by omega)
        have hl : (encBox (.node t l cs) ++ encBoxes tl).length
            = hdrLen t l + (encBoxes cs).length + (encBoxes tl).length := by
          rw [List.length_append, encBox_node_length t l cs]
        simp only [encBoxes, decBoxes, hne, Bool.false_eq_true, if_false, hdr, Header.hdrSize, hl]
        have c1 : ¬ (hdrLen t l + (encBoxes cs).length < hdrLen t l ∨
            hdrLen t l + (encBoxes cs).length + (encBoxes tl).length
              < hdrLen t l + (encBoxes cs).length) := by omega
        simp only [c1, if_false, Nat.add_sub_cancel_left, List.take_left', List.drop_left',
          hk, if_true, hch, Option.map_some, htail]

theorem count_le_length (ctx : SencCtx) : ∀ (fuel : Nat) (cs : List Box), countBoxes cs ≤ fuel →
    BoxesWf ctx cs → 8 * countBoxes cs ≤ (encBoxes cs).length := by
  intro fuel
  induction fuel with
  | zero =>
    intro cs hc _
    cases cs with
    | nil => simp [countBoxes]
    | cons b tl => have := count_pos b; simp only [countBoxes] at hc; omega
  | succ fuel ih =>
    intro cs hc hwf
    cases cs with
    | nil => simp [countBoxes]
    | cons b tl =>
      simp only [BoxesWf] at hwf
      simp only [countBoxes] at hc ⊢
      have hcb := count_pos b
      have h2 := ih tl (by omega) hwf.2
      simp only [encBoxes, List.length_append]
      cases b with
      | leaf t l p =>
        have := encBox_length_ge hwf.1
        simp only [Box.count] at *
        omega
      | node t l cs =>
        have hb := hwf.1
        simp only [BoxWf] at hb
        simp only [Box.count] at hc ⊢
        have h3 := ih cs (by omega) hb.2.2.1
        rw [encBox_node_length t l cs]
        have := hdrLen_ge t l hb.1
        omega

/-- parse ∘ encode = id on well-formed trees, with the fuel `decFile` uses -/
theorem decFile_encBoxes (ctx : SencCtx) (cs : List Box) (h : BoxesWf ctx cs) :
    decFile ctx (encBoxes cs) = some cs := by
  unfold decFile
  apply tree_roundtrip_fuel ctx _ 0 cs h
  have := count_le_length ctx (countBoxes cs) cs (Nat.le_refl _) h
  omega

end DashLive.Boxes
