import DashLive.Model.ClearKey
/-!
Helper lemmas for C11 about `Model/ClearKey.lean`: the base64 alphabet, the
sextet arithmetic, `b64urlDecode ∘ b64urlEncode = id`, and facts about the key
lookup of the licence handler.  Core tactics only.
-/
namespace DashLive.ClearKey

theorem stdVal_stdChar (n : Nat) (h : n < 64) : stdVal (stdChar n) = some n := by
  unfold stdChar stdVal
  by_cases h1 : n < 26
  · simp only [h1, if_true]
    have : 65 ≤ 65 + n ∧ 65 + n ≤ 90 := by omega
    simp only [this, and_self, if_true]; congr 1; omega
  · by_cases h2 : n < 52
    · simp only [h1, h2, if_true, if_false]
      have a : ¬ (65 ≤ 97 + (n - 26) ∧ 97 + (n - 26) ≤ 90) := by omega
      have b : 97 ≤ 97 + (n - 26) ∧ 97 + (n - 26) ≤ 122 := by omega
      simp only [a, b, and_self, if_true, if_false]; congr 1; omega
    · by_cases h3 : n < 62
      · simp only [h1, h2, h3, if_true, if_false]
        have a : ¬ (65 ≤ 48 + (n - 52) ∧ 48 + (n - 52) ≤ 90) := by omega
        have b : ¬ (97 ≤ 48 + (n - 52) ∧ 48 + (n - 52) ≤ 122) := by omega
        have c : 48 ≤ 48 + (n - 52) ∧ 48 + (n - 52) ≤ 57 := by omega
        simp only [a, b, c, and_self, if_true, if_false]; congr 1; omega
      · by_cases h4 : n = 62
        · subst h4; decide
        · have : n = 63 := by omega
          subst this; decide

/-- the characters `stdChar` produces -/
theorem stdChar_range (n : Nat) :
    (65 ≤ stdChar n ∧ stdChar n ≤ 90) ∨ (97 ≤ stdChar n ∧ stdChar n ≤ 122)
      ∨ (48 ≤ stdChar n ∧ stdChar n ≤ 57) ∨ stdChar n = 43 ∨ stdChar n = 47 := by
  unfold stdChar
  split
  · omega
  · split
    · omega
    · split
      · omega
      · split <;> omega

/-- every character of the unpadded encoding is `stdChar` of a sextet -/
def IsStd (c : Nat) : Prop := ∃ n, n < 64 ∧ c = stdChar n

theorem encBody_std : ∀ b : Bytes, ∀ c ∈ encBody b, IsStd c
  | [] => by simp [encBody]
  | [a] => by
    intro c hc
    simp only [encBody, List.mem_cons, List.not_mem_nil, or_false] at hc
    have := a.toNat_lt
    rcases hc with rfl | rfl
    · exact ⟨_, by omega, rfl⟩
    · exact ⟨_, by omega, rfl⟩
  | [a, b] => by
    intro c hc
    simp only [encBody, List.mem_cons, List.not_mem_nil, or_false] at hc
    have := a.toNat_lt; have := b.toNat_lt
    rcases hc with rfl | rfl | rfl
    · exact ⟨_, by omega, rfl⟩
    · exact ⟨_, by omega, rfl⟩
    · exact ⟨_, by omega, rfl⟩
  | a :: b :: c :: rest => by
    intro x hx
    simp only [encBody, List.mem_cons] at hx
    have := a.toNat_lt; have := b.toNat_lt; have := c.toNat_lt
    rcases hx with rfl | rfl | rfl | rfl | hx
    · exact ⟨_, by omega, rfl⟩
    · exact ⟨_, by omega, rfl⟩
    · exact ⟨_, by omega, rfl⟩
    · exact ⟨_, by omega, rfl⟩
    · exact encBody_std rest x hx

theorem ofNat_toNat' (a : UInt8) (n : Nat) (h : n = a.toNat) : UInt8.ofNat n = a := by
  subst h; simp

theorem decBody_encBody : ∀ b : Bytes, decBody (encBody b) = some b
  | [] => by simp [encBody, decBody]
  | [a] => by
    have := a.toNat_lt
    simp only [encBody, decBody, stdVal_stdChar _ (by omega : a.toNat / 4 < 64),
      stdVal_stdChar _ (by omega : a.toNat % 4 * 16 < 64)]
    congr 2
    exact ofNat_toNat' a _ (by omega)
  | [a, b] => by
    have := a.toNat_lt; have := b.toNat_lt
    simp only [encBody, decBody, stdVal_stdChar _ (by omega : a.toNat / 4 < 64),
      stdVal_stdChar _ (by omega : a.toNat % 4 * 16 + b.toNat / 16 < 64),
      stdVal_stdChar _ (by omega : b.toNat % 16 * 4 < 64)]
    rw [ofNat_toNat' a _ (by omega), ofNat_toNat' b _ (by omega)]
  | a :: b :: c :: rest => by
    have := a.toNat_lt; have := b.toNat_lt; have := c.toNat_lt
    simp only [encBody, decBody, stdVal_stdChar _ (by omega : a.toNat / 4 < 64),
      stdVal_stdChar _ (by omega : a.toNat % 4 * 16 + b.toNat / 16 < 64),
      stdVal_stdChar _ (by omega : b.toNat % 16 * 4 + c.toNat / 64 < 64),
      stdVal_stdChar _ (by omega : c.toNat % 64 < 64), decBody_encBody rest]
    rw [ofNat_toNat' a _ (by omega), ofNat_toNat' b _ (by omega), ofNat_toNat' c _ (by omega)]

theorem encBody_length : ∀ b : Bytes,
    (encBody b).length = 4 * (b.length / 3) + (if b.length % 3 = 0 then 0 else b.length % 3 + 1)
  | [] => by simp [encBody]
  | [a] => by simp [encBody]
  | [a, b] => by simp [encBody]
  | a :: b :: c :: rest => by
    simp only [encBody, List.length_cons, encBody_length rest]
    have h1 : (rest.length + 1 + 1 + 1) / 3 = rest.length / 3 + 1 := by omega
    have h2 : (rest.length + 1 + 1 + 1) % 3 = rest.length % 3 := by omega
    rw [h1, h2]; omega
/-- `+`→`-` then `/`→`_` on one character -/
def rEnc (c : Nat) : Nat := if (if c = 43 then 45 else c) = 47 then 95 else (if c = 43 then 45 else c)
/-- `-`→`+` then `_`→`/` on one character -/
def rDec (c : Nat) : Nat := if (if c = 45 then 43 else c) = 95 then 47 else (if c = 45 then 43 else c)

theorem replace_enc (t : Text) : replaceChar 47 95 (replaceChar 43 45 t) = t.map rEnc := by
  simp [replaceChar, rEnc, List.map_map, Function.comp_def]

theorem replace_dec (t : Text) : replaceChar 95 47 (replaceChar 45 43 t) = t.map rDec := by
  simp [replaceChar, rDec, List.map_map, Function.comp_def]

theorem rEnc_std {c : Nat} (h : IsStd c) :
    rDec (rEnc c) = c ∧ rEnc c ≠ 61 ∧ rEnc c ≠ 43 ∧ rEnc c ≠ 47 := by
  obtain ⟨n, _, rfl⟩ := h
  have hr := stdChar_range n
  generalize stdChar n = c at hr ⊢
  by_cases h43 : c = 43
  · subst h43; decide
  · by_cases h47 : c = 47
    · subst h47; decide
    · have e : rEnc c = c := by simp [rEnc, h43, h47]
      have h45 : c ≠ 45 := by omega
      have h95 : c ≠ 95 := by omega
      rw [e]
      exact ⟨by simp [rDec, h45, h95], by omega, h43, h47⟩

theorem padOf_map (n : Nat) : (padOf n).map rEnc = padOf n := by
  unfold padOf; split
  · rfl
  · split <;> rfl

theorem padOf_filter (n : Nat) : (padOf n).filter (· ≠ 61) = [] := by
  unfold padOf; split
  · rfl
  · split <;> rfl

/-- the url-safe encoding is the unpadded standard encoding with `+ /` renamed -/
theorem b64urlEncode_eq (b : Bytes) : b64urlEncode b = (encBody b).map rEnc := by
  unfold b64urlEncode b64encode
  rw [replace_enc, List.map_append, List.filter_append, padOf_map, padOf_filter, List.append_nil]
  apply List.filter_eq_self.mpr
  intro c hc
  obtain ⟨x, hx, rfl⟩ := List.mem_map.mp hc
  have := (rEnc_std (encBody_std b x hx)).2.1
  simpa using this

theorem map_rDec_rEnc (b : Bytes) : ((encBody b).map rEnc).map rDec = encBody b := by
  rw [List.map_map]
  conv => rhs; rw [← List.map_id (encBody b)]
  apply List.map_congr_left
  intro c hc
  exact (rEnc_std (encBody_std b c hc)).1

theorem encBody_ne61 (b : Bytes) : ∀ c ∈ encBody b, (c ≠ 61) = true := by
  intro c hc
  obtain ⟨n, _, rfl⟩ := encBody_std b c hc
  have := stdChar_range n
  simp; omega

theorem b64decode_padded (b : Bytes) (p : Text) (hp : p = [] ∨ p = [61] ∨ p = [61, 61])
    (hl : ((encBody b).length + p.length) % 4 = 0) :
    b64decode (encBody b ++ p) = .ok b := by
  have htw : (encBody b ++ p).takeWhile (· ≠ 61) = encBody b := by
    rw [List.takeWhile_append_of_pos (fun c hc => by simpa using encBody_ne61 b c hc)]
    rcases hp with rfl | rfl | rfl <;> simp
  have hdw : (encBody b ++ p).dropWhile (· ≠ 61) = p := by
    rw [List.dropWhile_append_of_pos (fun c hc => by simpa using encBody_ne61 b c hc)]
    rcases hp with rfl | rfl | rfl <;> simp
  unfold b64decode
  simp only [htw, hdw]
  have h1 : p.any (· ≠ 61) = false := by rcases hp with rfl | rfl | rfl <;> simp
  have h2 : (encBody b).any (fun c => (stdVal c).isNone) = false := by
    rw [List.any_eq_false]
    intro c hc
    obtain ⟨n, hn, rfl⟩ := encBody_std b c hc
    simp [stdVal_stdChar n hn]
  have h3 : ¬ p.length > 2 := by rcases hp with rfl | rfl | rfl <;> simp
  have hl' : (encBody b ++ p).length % 4 = 0 := by simpa using hl
  simp only [h1, h2, Bool.false_or, decide_eq_true_eq, h3, if_false, hl', ne_eq,
    not_true_eq_false, decBody_encBody]

theorem b64urlEncode_no_eq (b : Bytes) : (b64urlEncode b).any (· = 61) = false := by
  rw [b64urlEncode_eq, List.any_eq_false]
  intro c hc
  obtain ⟨x, hx, rfl⟩ := List.mem_map.mp hc
  have := (rEnc_std (encBody_std b x hx)).2.1
  simpa using this

/-- **decode ∘ encode = id** for the handler's base64url helpers -/
theorem b64urlDecode_b64urlEncode (b : Bytes) : b64urlDecode (b64urlEncode b) = .ok b := by
  unfold b64urlDecode
  rw [b64urlEncode_no_eq]
  simp only [Bool.false_eq_true, if_false]
  rw [b64urlEncode_eq, replace_dec, map_rDec_rEnc]
  have hlen := encBody_length b
  by_cases h0 : b.length % 3 = 0
  · have h4 : (encBody b).length % 4 = 0 := by rw [hlen]; split <;> omega
    have n2 : ¬ (encBody b).length % 4 = 2 := by omega
    have n3 : ¬ (encBody b).length % 4 = 3 := by omega
    simp only [n2, n3, if_false]
    have := b64decode_padded b [] (Or.inl rfl) (by simpa using h4)
    simpa using this
  · by_cases h1 : b.length % 3 = 1
    · have h4 : (encBody b).length % 4 = 2 := by rw [hlen]; split <;> omega
      simp only [h4, if_true]
      exact b64decode_padded b [61, 61] (Or.inr (Or.inr rfl)) (by simp; omega)
    · have h2 : b.length % 3 = 2 := by omega
      have h4 : (encBody b).length % 4 = 3 := by rw [hlen]; split <;> omega
      have n2 : ¬ (encBody b).length % 4 = 2 := by omega
      rw [if_neg n2, if_pos h4]
      exact b64decode_padded b [61] (Or.inr (Or.inl rfl)) (by simp; omega)

theorem b64urlEncode_injective {a b : Bytes} (h : b64urlEncode a = b64urlEncode b) : a = b := by
  have ha := b64urlDecode_b64urlEncode a
  rw [h, b64urlDecode_b64urlEncode b] at ha
  injection ha with ha
  exact ha.symm

end DashLive.ClearKey
