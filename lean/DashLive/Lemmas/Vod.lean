import DashLive.Lemmas.Timeline
import DashLive.Model.Indexing
/-! Lemmas for C06: the VOD timeline enumerates the stored segments exactly once;
indexing tiles a contiguous box sequence. -/
namespace DashLive.Segments

theorem rawLoop_at_end (durs : List Nat) (drift e : Int) (fuel m : Nat) :
    rawLoop durs drift e fuel e m = [] := by
  cases fuel with
  | zero => rfl
  | succ f => unfold rawLoop; simp

theorem advDur_zero (durs : List Nat) (m : Nat) : advDur durs 0 m = (durAt durs m : Int) := by
  unfold advDur; split <;> simp

theorem rawLoop_vod (durs : List Nat) (hpos : ∀ m, m < durs.length → 1 ≤ durAt durs m) :
    ∀ k j fuel, j + k = durs.length → 0 < k → k ≤ fuel →
      rawLoop durs 0 (durs.sum : Int) fuel (prefixSum durs j : Int) j
        = (List.range' j k).map (fun i => (durAt durs i : Int)) := by
  intro k
  induction k with
  | zero => intro j fuel _ h; omega
  | succ k ih =>
    intro j fuel hjk _ hf
    obtain ⟨f, rfl⟩ : ∃ f, fuel = f + 1 := ⟨fuel - 1, by omega⟩
    have hj : j < durs.length := by omega
    have hd := hpos j hj
    have hps := prefixSum_succ hj
    have hle := prefixSum_le_sum durs (j + 1)
    have hlt : (prefixSum durs j : Int) < (durs.sum : Int) := by
      have : prefixSum durs j < durs.sum := by omega
      exact_mod_cast this
    unfold rawLoop
    simp only [hlt, if_true, advDur_zero, List.range'_succ, List.map_cons]
    have hsum : (prefixSum durs j : Int) + (durAt durs j : Int) = (prefixSum durs (j + 1) : Int) := by
      rw [hps]; push_cast; rfl
    rw [hsum]
    by_cases hk : k = 0
    · subst hk
      have hlast : prefixSum durs (j + 1) = durs.sum := by
        have : j + 1 = durs.length := by omega
        rw [this, prefixSum_length]
      rw [hlast, rawLoop_at_end]
      simp
    · have hnext : nextM durs.length j = j + 1 := by unfold nextM; split <;> omega
      rw [hnext, ih (j + 1) f (by omega) (by omega) (by omega)]

theorem range'_map_durAt (durs : List Nat) :
    (List.range' 0 durs.length).map (fun i => (durAt durs i : Int)) = durs.map (fun (d : Nat) => (d : Int)) := by
  apply List.ext_getElem
  · simp
  · intro i h1 h2
    simp only [List.getElem_map, List.getElem_range', Nat.zero_add, Nat.one_mul]
    rw [durAt_of_lt (by simpa using h1)]

theorem accumulate_length (t : Int) (ds : List Int) : (accumulate t ds).length = ds.length := by
  induction ds generalizing t with
  | nil => rfl
  | cons d ds ih => simp [accumulate, ih]

/-- accumulating the stored durations from `P_j` gives `(P_i, d_i)` for `i = j, j+1, …` -/
theorem accumulate_durs (durs : List Nat) :
    ∀ k j, j + k = durs.length →
      accumulate (prefixSum durs j : Int) ((List.range' j k).map (fun i => (durAt durs i : Int)))
        = (List.range' j k).map (fun i => ((prefixSum durs i : Int), (durAt durs i : Int))) := by
  intro k
  induction k with
  | zero => intro j _; simp [accumulate]
  | succ k ih =>
    intro j hjk
    have hj : j < durs.length := by omega
    simp only [List.range'_succ, List.map_cons, accumulate]
    have hs : (prefixSum durs j : Int) + (durAt durs j : Int) = (prefixSum durs (j + 1) : Int) := by
      rw [prefixSum_succ hj]; push_cast; rfl
    rw [hs, ih (j + 1) (by omega)]

end DashLive.Segments

namespace DashLive.Indexing

/-- boxes laid out back to back from `a` to `b` -/
def BoxTile : List Box → Nat → Nat → Prop
  | [], a, b => a = b
  | x :: rest, a, b => x.pos = a ∧ BoxTile rest (x.pos + x.size) b

/-- segments laid out back to back from `a` to `b` (file order) -/
def Tile : List Seg → Nat → Nat → Prop
  | [], a, b => a = b
  | s :: rest, a, b => s.pos = a ∧ Tile rest (s.pos + s.size) b

/-- the same for the accumulator (most recent first) -/
def RevTile : List Seg → Nat → Nat → Prop
  | [], a, b => a = b
  | s :: rest, a, b => s.pos + s.size = b ∧ RevTile rest a s.pos

theorem tile_append {l : List Seg} {a m b : Nat} {s : Seg} (h : Tile l a m) (hs : s.pos = m)
    (he : s.pos + s.size = b) : Tile (l ++ [s]) a b := by
  induction l generalizing a with
  | nil => simp only [Tile] at h; simp only [List.nil_append, Tile]; exact ⟨by omega, he⟩
  | cons x xs ih => simp only [Tile, List.cons_append] at *; exact ⟨h.1, ih h.2⟩

theorem revTile_reverse {acc : List Seg} {a b : Nat} (h : RevTile acc a b) : Tile acc.reverse a b := by
  induction acc generalizing b with
  | nil => simpa [RevTile, Tile] using h
  | cons s rest ih =>
    simp only [RevTile] at h
    rw [List.reverse_cons]
    exact tile_append (ih h.2) rfl h.1

/-- every box is one the indexing loop knows how to attribute -/
def Known (boxes : List Box) : Prop := ∀ b ∈ boxes, b.kind ≠ .other

theorem step_tile {acc : List Seg} {a m : Nat} {b : Box} (hacc : RevTile acc a m) (hne : acc ≠ [])
    (hb : b.pos = m) (hk : b.kind ≠ .other) :
    RevTile (step acc b) a (b.pos + b.size) ∧ step acc b ≠ [] := by
  unfold step
  by_cases h1 : (b.kind == .ftyp || b.kind == .moof) = true
  · simp only [h1, if_true]
    exact ⟨⟨rfl, by rw [hb]; exact hacc⟩, by simp⟩
  · simp only [h1]
    have h2 : extends_ b.kind = true := by
      unfold extends_
      cases hkind : b.kind <;> simp_all
    simp only [h2, if_true]
    cases acc with
    | nil => exact absurd rfl hne
    | cons last rest =>
      simp only [RevTile] at hacc ⊢
      refine ⟨⟨?_, hacc.2⟩, by simp⟩
      simp only
      omega

theorem foldl_tile (boxes : List Box) :
    ∀ (acc : List Seg) (a m e : Nat), RevTile acc a m → acc ≠ [] → BoxTile boxes m e → Known boxes →
      RevTile (boxes.foldl step acc) a e ∧ boxes.foldl step acc ≠ [] := by
  induction boxes with
  | nil => intro acc a m e h hne hb _; simp only [BoxTile] at hb; subst hb; exact ⟨h, hne⟩
  | cons b rest ih =>
    intro acc a m e h hne hb hk
    simp only [BoxTile] at hb
    simp only [List.foldl_cons]
    obtain ⟨h1, h2⟩ := step_tile h hne hb.1 (hk b (List.mem_cons_self))
    exact ih _ a _ e h1 h2 hb.2 (fun x hx => hk x (List.mem_cons_of_mem _ hx))

end DashLive.Indexing

namespace DashLive.Indexing

theorem foldl_loadStep_durs (dflt : Nat) (frags : List Frag) (s : LoadSt) :
    (frags.foldl (loadStep dflt) s).durs = s.durs ++ frags.map (fragDur dflt) := by
  induction frags generalizing s with
  | nil => simp
  | cons f fs ih => simp [List.foldl_cons, ih, loadStep]

theorem foldl_loadStep_startNumber (dflt : Nat) (frags : List Frag) (s : LoadSt) (k : Nat)
    (h : s.startNumber = some k) : (frags.foldl (loadStep dflt) s).startNumber = some k := by
  induction frags generalizing s with
  | nil => simpa
  | cons f fs ih => simp only [List.foldl_cons]; apply ih; simp [loadStep, h]

theorem foldl_loadStep_repStart (dflt : Nat) (frags : List Frag) (s : LoadSt) (k : Nat)
    (h : s.repStart = some k) : (frags.foldl (loadStep dflt) s).repStart = some k := by
  induction frags generalizing s with
  | nil => simpa
  | cons f fs ih => simp only [List.foldl_cons]; apply ih; simp [loadStep, h]

/-- a file whose `tfdt` boxes are consistent with its sample durations: fragment `k`
carries `t0 + Σ_{i<k} dur_i` -/
def ConsistentFrom (dflt : Nat) : Nat → List Frag → Prop
  | _, [] => True
  | t, f :: fs => f.tfdt = some t ∧ ConsistentFrom dflt (t + fragDur dflt f) fs

/-- for a consistent file the loop's `segment_start_time` after the last fragment is the
decode time of that fragment, and `segment_end_time` is the end of the media -/
theorem foldl_loadStep_consistent (dflt : Nat) :
    ∀ (frags : List Frag) (s : LoadSt) (t : Nat), frags ≠ [] → ConsistentFrom dflt t frags →
      (frags.foldl (loadStep dflt) s).segStart
        = t + ((frags.dropLast).map (fragDur dflt)).sum ∧
      (frags.foldl (loadStep dflt) s).segEnd = t + (frags.map (fragDur dflt)).sum := by
  intro frags
  induction frags with
  | nil => intro s t h; exact absurd rfl h
  | cons f fs ih =>
    intro s t _ hc
    simp only [ConsistentFrom] at hc
    simp only [List.foldl_cons]
    cases fs with
    | nil => simp [loadStep, hc.1]
    | cons g gs =>
      obtain ⟨h1, h2⟩ := ih (loadStep dflt s f) (t + fragDur dflt f) (by simp) hc.2
      rw [h1, h2]
      simp only [List.dropLast_cons_cons, List.map_cons, List.sum_cons]
      omega

end DashLive.Indexing
