import DashLive.Model.Calendar
/-!
# Structural facts of the calendar walk (used by C08)

The order facts `yearStartDay d ≤ monthStartDay d ≤ d` for **every** day number,
and sufficiency of the two fuel bounds (the walk always stops on a real date).
-/
namespace DashLive.Calendar

theorem yearLen_ge (y : Nat) : 365 ≤ yearLen y := by
  unfold yearLen; split <;> omega

theorem yearLen_le (y : Nat) : yearLen y ≤ 366 := by
  unfold yearLen; split <;> omega

theorem peelYears_snd_le (fuel y d : Nat) : (peelYears fuel y d).2 ≤ d := by
  induction fuel generalizing y d with
  | zero => simp [peelYears]
  | succ f ih =>
    unfold peelYears
    split
    · exact Nat.le_refl _
    · exact Nat.le_trans (ih _ _) (Nat.sub_le _ _)

theorem peelMonths_snd_le (fuel y m d : Nat) : (peelMonths fuel y m d).2 ≤ d := by
  induction fuel generalizing m d with
  | zero => simp [peelMonths]
  | succ f ih =>
    unfold peelMonths
    split
    · exact Nat.le_refl _
    · exact Nat.le_trans (ih _ _) (Nat.sub_le _ _)

theorem dayOfYear_le (d : Nat) : dayOfYear d ≤ d := peelYears_snd_le _ _ _

theorem dayOfMonth_le_dayOfYear (d : Nat) : dayOfMonth d ≤ dayOfYear d :=
  peelMonths_snd_le _ _ _ _

theorem dayOfMonth_le (d : Nat) : dayOfMonth d ≤ d :=
  Nat.le_trans (dayOfMonth_le_dayOfYear d) (dayOfYear_le d)

/-- the first of the month is not after the day itself -/
theorem monthStartDay_le (d : Nat) : monthStartDay d ≤ d := Nat.sub_le _ _

/-- 1 January is not after the day itself -/
theorem yearStartDay_le (d : Nat) : yearStartDay d ≤ d := Nat.sub_le _ _

/-- 1 January is not after the first of the month -/
theorem yearStartDay_le_monthStartDay (d : Nat) : yearStartDay d ≤ monthStartDay d := by
  unfold yearStartDay monthStartDay
  have := dayOfMonth_le_dayOfYear d
  omega

/-- fuel sufficiency of the year walk: the remainder is a day *of that year* -/
theorem peelYears_lt (fuel y d : Nat) (h : d ≤ 365 * fuel) :
    (peelYears fuel y d).2 < yearLen (peelYears fuel y d).1 := by
  induction fuel generalizing y d with
  | zero =>
    have := yearLen_ge y
    simp only [peelYears]; omega
  | succ f ih =>
    unfold peelYears
    split
    · assumption
    · apply ih
      have := yearLen_ge y
      omega

theorem dayOfYear_lt (d : Nat) : dayOfYear d < yearLen (yearAndDoy d).1 := by
  unfold dayOfYear yearAndDoy
  exact peelYears_lt d 1970 d (by omega)

/-- days from the first of month `m` to the end of the year, `n` months -/
def daysLeft (y : Nat) : Nat → Nat → Nat
  | _, 0 => 0
  | m, n + 1 => monthLen y m + daysLeft y (m + 1) n

theorem daysLeft_year (y : Nat) : daysLeft y 1 12 = yearLen y := by
  cases hl : isLeap y <;> simp [daysLeft, monthLen, yearLen, hl]

theorem peelMonths_lt (y fuel m d : Nat) (hm : m + fuel = 13) (h : d < daysLeft y m fuel) :
    m ≤ (peelMonths fuel y m d).1 ∧ (peelMonths fuel y m d).1 ≤ 12 ∧
    (peelMonths fuel y m d).2 < monthLen y (peelMonths fuel y m d).1 := by
  induction fuel generalizing m d with
  | zero => simp [daysLeft] at h
  | succ f ih =>
    unfold peelMonths
    split
    · refine ⟨Nat.le_refl _, by omega, by assumption⟩
    · have hd : d - monthLen y m < daysLeft y (m + 1) f := by
        simp only [daysLeft] at h; omega
      obtain ⟨h1, h2, h3⟩ := ih (m + 1) (d - monthLen y m) (by omega) hd
      exact ⟨by omega, h2, h3⟩

/-- fuel sufficiency of the month walk: twelve steps always reach a month
1…12 whose length exceeds the remainder -/
theorem monthAndDom_lt (y doy : Nat) (h : doy < yearLen y) :
    1 ≤ (monthAndDom y doy).1 ∧ (monthAndDom y doy).1 ≤ 12 ∧
    (monthAndDom y doy).2 < monthLen y (monthAndDom y doy).1 := by
  unfold monthAndDom
  exact peelMonths_lt y 12 1 doy (by omega) (by rw [daysLeft_year]; exact h)

/-- every day number is a real civil date: month 1…12, day within the month -/
theorem civil_valid (d : Nat) :
    1 ≤ (civil d).2.1 ∧ (civil d).2.1 ≤ 12 ∧
    1 ≤ (civil d).2.2 ∧ (civil d).2.2 ≤ monthLen (civil d).1 (civil d).2.1 := by
  have h := monthAndDom_lt (yearAndDoy d).1 (yearAndDoy d).2 (dayOfYear_lt d)
  simp only [civil]
  omega

end DashLive.Calendar
