import DashLive.Lemmas.Segments
/-! `generateSegmentTimeline`: the run-length encoded `<S>` list expands to a
contiguous slice of the global segment sequence. -/
namespace DashLive.Segments

/-- advertised duration of stored segment `m` (0-based) -/
def advDur (durs : List Nat) (drift : Int) (m : Nat) : Int :=
  (durAt durs m : Int) + (if m + 1 = durs.length then drift else 0)

def nextM (n m : Nat) : Nat := if m + 1 ≥ n then 0 else m + 1

theorem nextM_lt {n m : Nat} (hn : 0 < n) : nextM n m < n := by
  unfold nextM; split <;> omega

/-- the plain sequence of durations the `while dur < end` loop iterates over -/
def rawLoop (durs : List Nat) (drift end_ : Int) : Nat → Int → Nat → List Int
  | 0, _, _ => []
  | f+1, dur, m =>
    if dur < end_ then
      advDur durs drift m :: rawLoop durs drift end_ f (dur + advDur durs drift m) (nextM durs.length m)
    else []

/-- `(t, d)` pairs of consecutive segments starting at `t` -/
def accumulate : Int → List Int → List (Int × Int)
  | _, [] => []
  | t, d :: ds => (t, d) :: accumulate (t + d) ds

/-- end time of an `<S>` list that starts (when the first node has no `t`) at `t` -/
def endTime : Int → List SNode → Int
  | t, [] => t
  | t, s :: rest => endTime (s.start.getD t + s.count * s.dur.getD 0) rest

theorem expandFrom_append (t : Int) (a b : List SNode) :
    expandFrom t (a ++ b) = expandFrom t a ++ expandFrom (endTime t a) b := by
  induction a generalizing t with
  | nil => simp [expandFrom, endTime]
  | cons s rest ih => simp [expandFrom, endTime, ih]

theorem endTime_append (t : Int) (a b : List SNode) :
    endTime t (a ++ b) = endTime (endTime t a) b := by
  induction a generalizing t with
  | nil => simp [endTime]
  | cons s rest ih => simp [endTime, ih]

theorem expandFrom_single_succ (t : Int) (s : SNode) (d : Int) (hd : s.dur = some d) :
    expandFrom t [{ s with count := s.count + 1 }]
      = expandFrom t [s] ++ [(s.start.getD t + s.count * d, d)] := by
  simp [expandFrom, hd, List.range_succ]

theorem endTime_single_succ (t : Int) (s : SNode) (d : Int) (hd : s.dur = some d) :
    endTime t [{ s with count := s.count + 1 }] = endTime t [s] + d := by
  simp only [endTime, hd, Option.getD_some]
  push_cast
  rw [Int.add_mul, Int.one_mul]
  omega

/-- Generalised invariant of the loop once the first iteration is over
(`dur ≠ 0`): the finished nodes plus the current node, followed by the raw
remainder. -/
theorem tlLoop_mid (durs : List Nat) (drift segStart end_ : Int)
    (hpos : ∀ m, m < durs.length → 0 < advDur durs drift m) :
    ∀ fuel (dur : Int) m (cur : SNode) (acc : List SNode) (t0 : Int) (dc : Int),
      m < durs.length → 0 < dur → cur.dur = some dc →
      expandFrom t0 (tlLoop durs drift segStart end_ fuel dur m cur acc)
        = expandFrom t0 (acc ++ [cur])
          ++ accumulate (endTime t0 (acc ++ [cur])) (rawLoop durs drift end_ fuel dur m) := by
  intro fuel
  induction fuel with
  | zero =>
    intro dur m cur acc t0 dc _ _ hc
    simp [tlLoop, rawLoop, accumulate, outputNode, hc]
  | succ f ih =>
    intro dur m cur acc t0 dc hm hdur hc
    have hnl : 0 < durs.length := by omega
    unfold tlLoop rawLoop
    by_cases hlt : dur < end_
    · simp only [hlt, if_true]
      have hne : dur ≠ 0 := by omega
      rw [if_neg hne]
      have hd : (durAt durs m : Int) + (if m + 1 = durs.length then drift else 0) = advDur durs drift m := rfl
      rw [hd]
      have hnext : (if m + 1 ≥ durs.length then 0 else m + 1) = nextM durs.length m := rfl
      rw [hnext]
      have hp := hpos m hm
      by_cases hsame : some (advDur durs drift m) ≠ cur.dur
      · -- a new node is started
        simp only [if_pos hsame]
        have := ih (dur + advDur durs drift m) (nextM durs.length m)
          { SNode.fresh with dur := some (advDur durs drift m), count := SNode.fresh.count + 1 }
          (outputNode acc cur) t0 (advDur durs drift m) (nextM_lt hnl) (by omega) rfl
        rw [this]
        simp only [outputNode, hc, Option.isSome_some, if_true, accumulate]
        rw [expandFrom_append, expandFrom_append, endTime_append, endTime_append]
        simp [expandFrom, endTime, SNode.fresh, List.range_succ]
        rw [endTime_append]
        simp [endTime]
      · -- the current node is extended
        simp only [if_neg hsame]
        have hceq : cur.dur = some (advDur durs drift m) := by
          by_cases h : some (advDur durs drift m) = cur.dur
          · exact h.symm
          · exact absurd h hsame
        have := ih (dur + advDur durs drift m) (nextM durs.length m)
          { cur with dur := some (advDur durs drift m), count := cur.count + 1 }
          acc t0 (advDur durs drift m) (nextM_lt hnl) (by omega) rfl
        rw [this]
        have hcur : ({ cur with dur := some (advDur durs drift m), count := cur.count + 1 } : SNode)
            = { cur with count := cur.count + 1 } := by
          cases cur; simp_all
        rw [hcur, expandFrom_append, expandFrom_append, endTime_append, endTime_append,
          expandFrom_single_succ _ _ _ hceq, endTime_single_succ _ _ _ hceq]
        simp only [accumulate, List.append_assoc, List.singleton_append]
        congr 2
        simp only [endTime, hceq, Option.getD_some]
    · simp only [hlt, if_false, accumulate, List.append_nil, outputNode, hc, Option.isSome_some, if_true]

/-- **timeline = raw loop**: with positive advertised durations, what the `<S>`
list means (DASH expansion) is exactly the sequence of durations the loop walked
over, accumulated from `segStart`. -/
theorem tlLoop_expand (durs : List Nat) (drift segStart end_ : Int)
    (hpos : ∀ m, m < durs.length → 0 < advDur durs drift m) (fuel m : Nat) (hm : m < durs.length) :
    expand (tlLoop durs drift segStart end_ fuel 0 m SNode.fresh [])
      = accumulate segStart (rawLoop durs drift end_ fuel 0 m) := by
  unfold expand
  cases fuel with
  | zero => simp [tlLoop, rawLoop, accumulate, outputNode, SNode.fresh, expandFrom]
  | succ f =>
    unfold tlLoop rawLoop
    by_cases hlt : (0 : Int) < end_
    · simp only [hlt, if_true]
      have hd : (durAt durs m : Int) + (if m + 1 = durs.length then drift else 0) = advDur durs drift m := rfl
      rw [hd]
      have hnext : (if m + 1 ≥ durs.length then 0 else m + 1) = nextM durs.length m := rfl
      rw [hnext]
      have hp := hpos m hm
      have hnl : 0 < durs.length := by omega
      have := tlLoop_mid durs drift segStart end_ hpos f (0 + advDur durs drift m)
        (nextM durs.length m)
        { start := some segStart, dur := some (advDur durs drift m), count := 1 } [] 0
        (advDur durs drift m) (nextM_lt hnl) (by omega) rfl
      simp only [SNode.fresh] at *
      rw [this]
      simp [expandFrom, endTime, accumulate, List.range_succ]
    · simp [hlt, accumulate, outputNode, SNode.fresh, expandFrom]

/-! ### the raw loop walks the global sequence -/

theorem nextM_mod {n g : Nat} (hn : 0 < n) : nextM n (g % n) = (g + 1) % n := by
  unfold nextM
  by_cases h : g % n + 1 ≥ n
  · have he : g % n + 1 = n := by have := Nat.mod_lt g hn; omega
    simp [h, (succ_mod_of_eq hn he).1]
  · have hlt : g % n + 1 < n := by omega
    simp [h, (succ_mod_of_lt hlt).1]

theorem advDur_eq_durG' (durs : List Nat) (R g : Nat) :
    advDur durs ((R : Int) - (durs.sum : Int)) (g % durs.length) = durG' durs R g := by
  unfold advDur durG' durG; rfl

/-- slice of the global sequence: positions `g, g+1, …` as `(start, advertised duration)` -/
def sliceG (durs : List Nat) (R : Nat) : Nat → Nat → List (Int × Int)
  | _, 0 => []
  | g, k+1 => ((startG durs R g : Int), durG' durs R g) :: sliceG durs R (g + 1) k

theorem rawLoop_slice (durs : List Nat) (R : Nat) (end_ : Int) (hn : 0 < durs.length) :
    ∀ fuel (dur : Int) g,
      accumulate (startG durs R g : Int)
        (rawLoop durs ((R : Int) - (durs.sum : Int)) end_ fuel dur (g % durs.length))
      = sliceG durs R g (rawLoop durs ((R : Int) - (durs.sum : Int)) end_ fuel dur (g % durs.length)).length := by
  intro fuel
  induction fuel with
  | zero => intro dur g; simp [rawLoop, accumulate, sliceG]
  | succ f ih =>
    intro dur g
    unfold rawLoop
    by_cases hlt : dur < end_
    · simp only [hlt, if_true, accumulate, List.length_cons, sliceG]
      rw [advDur_eq_durG', nextM_mod hn]
      have hs := startG_succ durs R g hn
      rw [← hs]
      have := ih (dur + durG' durs R g) (g + 1)
      rw [this]
    · simp [hlt, accumulate, sliceG]

/-- sum of the raw durations reaches the end of the window when fuel suffices -/
theorem rawLoop_covers (durs : List Nat) (drift end_ : Int)
    (hpos : ∀ m, m < durs.length → 0 < advDur durs drift m) :
    ∀ (fuel : Nat) (dur : Int) m, m < durs.length → end_ - dur ≤ (fuel : Int) →
      end_ ≤ dur + (rawLoop durs drift end_ fuel dur m).sum := by
  intro fuel
  induction fuel with
  | zero => intro dur m _ h; simp [rawLoop]; omega
  | succ f ih =>
    intro dur m hm h
    unfold rawLoop
    by_cases hlt : dur < end_
    · simp only [hlt, if_true, List.sum_cons]
      have hp := hpos m hm
      have := ih (dur + advDur durs drift m) (nextM durs.length m) (nextM_lt (by omega)) (by omega)
      omega
    · simp only [hlt, if_false, List.sum_nil]; omega

/-- … and not by more than the last duration (the loop stops as soon as it is reached) -/
theorem rawLoop_minimal (durs : List Nat) (drift end_ : Int) :
    ∀ fuel (dur : Int) m, (rawLoop durs drift end_ fuel dur m) ≠ [] →
      dur + ((rawLoop durs drift end_ fuel dur m).dropLast).sum < end_ := by
  intro fuel
  induction fuel with
  | zero => intro dur m h; simp [rawLoop] at h
  | succ f ih =>
    intro dur m h
    unfold rawLoop at h ⊢
    by_cases hlt : dur < end_
    · simp only [hlt, if_true] at h ⊢
      by_cases hr : rawLoop durs drift end_ f (dur + advDur durs drift m) (nextM durs.length m) = []
      · rw [hr]; simp; exact hlt
      · rw [List.dropLast_cons_of_ne_nil hr, List.sum_cons]
        have := ih (dur + advDur durs drift m) (nextM durs.length m) hr
        omega
    · simp [hlt] at h

end DashLive.Segments
