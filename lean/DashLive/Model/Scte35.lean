import DashLive.Model.Crc32
import DashLive.Model.Events
/-
Model of the SCTE-35 splice_info_section code of dash-live (property C14):

* `dashlive/mpeg/section_table.py:31-67`   `MpegSectionTable.parse / encode`
* `dashlive/scte35/binarysignal.py:63-131` `BinarySignal.parse_payload / encode_fields`
* `dashlive/scte35/splice_insert.py`       `SpliceInsert.parse / encode`
* `dashlive/scte35/splice_time.py`, `break_duration.py` (after fix 1b69328)
* `dashlive/scte35/descriptors.py`         `SpliceDescriptor.parse / encode`,
  `AvailDescriptor`, `SegmentationDescriptor` (program_segmentation_flag = 1),
  `TimeDescriptor`
* `dashlive/server/events/scte35_events.py:61-104` `create_binary_signal`
  (after fix da23ed5)

Not modelled (differential-tested / ledger only): `splice_schedule` (type 4),
private commands (0xFF), `DtmfDescriptor`, `AudioDescriptor`,
`UnknownSpliceDescriptor`, component-level segmentation descriptors.

Every encoder appends to the shared `bitstring.BitArray` of the
`BitsFieldWriter`s; encoders that back-patch a length (`SpliceDescriptor.encode`,
`BinarySignal.encode_fields`, `MpegSectionTable.encode`) take the buffer written
so far (`w`) and return the new buffer, exactly like the Python; encoders that
only append return the appended bits.  Import-free (core Lean only).
-/
namespace DashLive.Scte35
open DashLive.Bits

/-! ### splice_time(), break_duration() -/

structure SpliceTime where
  pts : Option Nat
  deriving Repr, DecidableEq

/-- `SpliceTime.encode` (splice_time.py:40-48) -/
def SpliceTime.enc (t : SpliceTime) : Bits :=
  match t.pts with
  | none => putBits 1 0 ++ putBits 7 0x7F
  | some p => putBits 1 1 ++ putBits 6 0x3F ++ putBits 33 p

/-- `SpliceTime.parse` (splice_time.py:27-38) -/
def SpliceTime.parse (r : Rd) : Option (SpliceTime × Rd) := do
  let (f, r) ← r.getBool
  if f then
    let (_, r) ← r.get 6
    let (p, r) ← r.get 33
    some (⟨some p⟩, r)
  else
    let (_, r) ← r.get 7
    some (⟨none⟩, r)

structure BreakDuration where
  autoReturn : Bool
  duration   : Nat
  deriving Repr, DecidableEq

def BreakDuration.enc (b : BreakDuration) : Bits :=
  putBits 1 b.autoReturn.toNat ++ putBits 6 0x3F ++ putBits 33 b.duration

def BreakDuration.parse (r : Rd) : Option (BreakDuration × Rd) := do
  let (a, r) ← r.getBool
  let (_, r) ← r.get 6
  let (d, r) ← r.get 33
  some (⟨a, d⟩, r)

/-! ### splice_insert() -/

structure Component where
  tag  : Nat
  time : SpliceTime
  deriving Repr, DecidableEq

def Component.enc (c : Component) : Bits := putBits 8 c.tag ++ c.time.enc

def Component.parse (r : Rd) : Option (Component × Rd) := do
  let (t, r) ← r.get 8
  let (st, r) ← SpliceTime.parse r
  some (⟨t, st⟩, r)

def parseComponents : Nat → Rd → Option (List Component × Rd)
  | 0, r => some ([], r)
  | n+1, r => do
    let (c, r) ← Component.parse r
    let (cs, r) ← parseComponents n r
    some (c :: cs, r)

/-- a `SpliceInsert` object.  `program_splice_flag` is `spliceTime.isSome`
(`self.program_splice_flag = self.splice_time is not None`), `duration_flag` is
`breakDuration.isSome`.  A cancelled event carries only `eventId`; its other
fields hold the class defaults (`cancelled`). -/
structure SpliceInsert where
  eventId         : Nat
  cancel          : Bool
  outOfNetwork    : Bool
  immediate       : Bool
  spliceTime      : Option SpliceTime
  components      : List Component
  breakDuration   : Option BreakDuration
  uniqueProgramId : Nat
  availNum        : Nat
  availsExpected  : Nat
  deriving Repr, DecidableEq

/-- what `SpliceInsert(**parse(...))` holds for a cancelled event -/
def SpliceInsert.cancelled (eventId : Nat) : SpliceInsert :=
  { eventId, cancel := true, outOfNetwork := true, immediate := false, spliceTime := none,
    components := [], breakDuration := none, uniqueProgramId := 0, availNum := 0,
    availsExpected := 0 }

/-- `SpliceInsert.encode` (splice_insert.py:96-121) -/
def SpliceInsert.enc (s : SpliceInsert) : Bits :=
  putBits 32 s.eventId ++ putBits 1 s.cancel.toNat ++ putBits 7 0x7F ++
  if s.cancel then [] else
    putBits 1 s.outOfNetwork.toNat ++ putBits 1 s.spliceTime.isSome.toNat ++
    putBits 1 s.breakDuration.isSome.toNat ++ putBits 1 s.immediate.toNat ++ putBits 4 0x0F ++
    (match s.spliceTime with
      | some t => if s.immediate then [] else t.enc
      | none => putBits 8 s.components.length ++ s.components.flatMap Component.enc) ++
    (match s.breakDuration with
      | some b => b.enc
      | none => []) ++
    putBits 16 s.uniqueProgramId ++ putBits 8 s.availNum ++ putBits 8 s.availsExpected

/-- `SpliceInsert.parse` (splice_insert.py:63-94, after fix 1b69328) -/
def SpliceInsert.parse (r : Rd) : Option (SpliceInsert × Rd) := do
  let (eventId, r) ← r.get 32
  let (cancel, r) ← r.getBool
  let (_, r) ← r.get 7
  if cancel then some (SpliceInsert.cancelled eventId, r) else
  let (oon, r) ← r.getBool
  let (psf, r) ← r.getBool
  let (df, r) ← r.getBool
  let (imm, r) ← r.getBool
  let (_, r) ← r.get 4
  let (st, r) ← (if psf && !imm then (SpliceTime.parse r).map (fun x => (some x.1, x.2))
                 else some (none, r))
  let (comps, r) ← (if !psf then do
                      let (n, r) ← r.get 8
                      parseComponents n r
                    else some ([], r))
  let (bd, r) ← (if df then (BreakDuration.parse r).map (fun x => (some x.1, x.2))
                 else some (none, r))
  let (upid, r) ← r.get 16
  let (an, r) ← r.get 8
  let (ae, r) ← r.get 8
  some ({ eventId, cancel := false, outOfNetwork := oon, immediate := imm, spliceTime := st,
          components := comps, breakDuration := bd, uniqueProgramId := upid, availNum := an,
          availsExpected := ae }, r)

/-! ### splice descriptors -/

/-- `SegmentationDescriptor` with `program_segmentation_flag = 1`.  When
`cancel` is set only `eventId` is coded (the other fields hold `cancelledSeg`'s
defaults); when `deliveryNotRestricted` the four restriction fields hold the
values `parse_fields` fills in (true, true, true, 3). -/
structure SegDesc where
  eventId               : Nat
  cancel                : Bool
  deliveryNotRestricted : Bool
  webDeliveryAllowed    : Bool
  noRegionalBlackout    : Bool
  archiveAllowed        : Bool
  deviceRestrictions    : Nat
  duration              : Option Nat      -- 40 bits
  upidType              : Nat
  upid                  : List Nat        -- bytes
  typeId                : Nat
  segmentNum            : Nat
  segmentsExpected      : Nat
  subSegmentNum         : Nat
  subSegmentsExpected   : Nat
  deriving Repr, DecidableEq

def SegDesc.cancelled (eventId : Nat) : SegDesc :=
  { eventId, cancel := true, deliveryNotRestricted := true, webDeliveryAllowed := true,
    noRegionalBlackout := true, archiveAllowed := true, deviceRestrictions := 3, duration := none,
    upidType := 0x0F, upid := [], typeId := 0, segmentNum := 0, segmentsExpected := 0,
    subSegmentNum := 0, subSegmentsExpected := 0 }

/-- `segmentation_type in {0x34, 0x36, 0x38, 0x3A}` -/
def hasSubSegments (t : Nat) : Bool := t == 0x34 || t == 0x36 || t == 0x38 || t == 0x3A

inductive Descriptor where
  | avail (identifier providerAvailId : Nat)
  | segmentation (identifier : Nat) (d : SegDesc)
  | time (identifier taiSeconds taiNs utcOffset : Nat)
  deriving Repr, DecidableEq

def Descriptor.tag : Descriptor → Nat
  | .avail .. => 0
  | .segmentation .. => 2
  | .time .. => 3

def Descriptor.identifier : Descriptor → Nat
  | .avail i _ => i
  | .segmentation i _ => i
  | .time i _ _ _ => i

/-- `SegmentationDescriptor.encode_fields` (descriptors.py:211-248) -/
def SegDesc.encFields (d : SegDesc) : Bits :=
  putBits 32 d.eventId ++ putBits 1 d.cancel.toNat ++ putBits 7 0x7F ++
  if d.cancel then [] else
    putBits 1 1 ++ putBits 1 d.duration.isSome.toNat ++ putBits 1 d.deliveryNotRestricted.toNat ++
    (if d.deliveryNotRestricted then putBits 5 0x1F
     else putBits 1 d.webDeliveryAllowed.toNat ++ putBits 1 d.noRegionalBlackout.toNat ++
          putBits 1 d.archiveAllowed.toNat ++ putBits 2 d.deviceRestrictions) ++
    (match d.duration with
      | some x => putBits 40 x
      | none => []) ++
    putBits 8 d.upidType ++ putBits 8 d.upid.length ++ putBytes d.upid ++
    putBits 8 d.typeId ++ putBits 8 d.segmentNum ++ putBits 8 d.segmentsExpected ++
    (if hasSubSegments d.typeId then putBits 8 d.subSegmentNum ++ putBits 8 d.subSegmentsExpected
     else [])

/-- `encode_fields` of the three descriptor classes -/
def Descriptor.encFields : Descriptor → Bits
  | .avail _ p => putBits 32 p
  | .segmentation _ d => d.encFields
  | .time _ s n o => putBits 48 s ++ putBits 32 n ++ putBits 16 o

/-- `SpliceDescriptor.encode(dest=w)` (descriptors.py:66-77): tag, a zero
placeholder for `length`, identifier, the fields; then `length` is computed
from the writer position and written over the placeholder. -/
def Descriptor.enc (w : Bits) (d : Descriptor) : Bits :=
  let w := w ++ putBits 8 d.tag
  let pos := w.length
  let w := w ++ putBits 8 0
  let w := w ++ putBits 32 d.identifier
  let w := w ++ d.encFields
  let length := (w.length - pos - 8) / 8
  overwrite w pos 8 length

/-- `SegmentationDescriptor.parse_fields` (descriptors.py:163-209);
`none` also stands for the component form (`program_segmentation_flag = 0`),
which the real parser cannot read -/
def SegDesc.parseFields (r : Rd) : Option (SegDesc × Rd) := do
  let (eventId, r) ← r.get 32
  let (cancel, r) ← r.getBool
  let (_, r) ← r.get 7
  if cancel then some (SegDesc.cancelled eventId, r) else
  let (psf, r) ← r.getBool
  let (df, r) ← r.getBool
  let (dnr, r) ← r.getBool
  let ((web, blk, arch, devr), r) ← (if dnr then do
        let (_, r) ← r.get 5
        some ((true, true, true, 3), r)
      else do
        let (a, r) ← r.getBool
        let (b, r) ← r.getBool
        let (c, r) ← r.getBool
        let (d, r) ← r.get 2
        some ((a, b, c, d), r))
  if !psf then none else
  let (dur, r) ← (if df then (r.get 40).map (fun x => (some x.1, x.2)) else some (none, r))
  let (ut, r) ← r.get 8
  let (ul, r) ← r.get 8
  let (upid, r) ← r.getBytes ul
  let (ty, r) ← r.get 8
  let (sn, r) ← r.get 8
  let (se, r) ← r.get 8
  let ((ssn, sse), r) ← (if hasSubSegments ty then do
        let (a, r) ← r.get 8
        let (b, r) ← r.get 8
        some ((a, b), r)
      else some ((0, 0), r))
  some ({ eventId, cancel := false, deliveryNotRestricted := dnr, webDeliveryAllowed := web,
          noRegionalBlackout := blk, archiveAllowed := arch, deviceRestrictions := devr,
          duration := dur, upidType := ut, upid, typeId := ty, segmentNum := sn,
          segmentsExpected := se, subSegmentNum := ssn, subSegmentsExpected := sse }, r)

/-- `SpliceDescriptor.parse` (descriptors.py:48-64): returns the descriptor and
its `length` field -/
def Descriptor.parse (r : Rd) : Option ((Descriptor × Nat) × Rd) := do
  let (tag, r) ← r.get 8
  let (length, r) ← r.get 8
  let (ident, r) ← r.get 32
  if tag = 0 then
    let (p, r) ← r.get 32
    some ((.avail ident p, length), r)
  else if tag = 2 then
    let (d, r) ← SegDesc.parseFields r
    some ((.segmentation ident d, length), r)
  else if tag = 3 then
    let (s, r) ← r.get 48
    let (n, r) ← r.get 32
    let (o, r) ← r.get 16
    some ((.time ident s n o, length), r)
  else none

/-- `while r.bytepos() < endpos: descriptors.append(SpliceDescriptor.parse(r))`
(binarysignal.py:86-89) -/
def parseDescriptors : Nat → Nat → Rd → Option (List (Descriptor × Nat) × Rd)
  | 0, _, _ => none
  | fuel+1, endpos, r =>
    if r.bytepos < endpos then do
      let (d, r) ← Descriptor.parse r
      let (ds, r) ← parseDescriptors fuel endpos r
      some (d :: ds, r)
    else some ([], r)

/-! ### splice_info_section() -/

inductive Command where
  | null
  | insert (s : SpliceInsert)
  | timeSignal (t : SpliceTime)
  deriving Repr, DecidableEq

/-- `splice_command_type` chosen by `encode_fields` (binarysignal.py:95-102) -/
def Command.type : Command → Nat
  | .null => 0
  | .insert _ => 5
  | .timeSignal _ => 6

def Command.enc : Command → Bits
  | .null => []
  | .insert s => s.enc
  | .timeSignal t => t.enc

/-- a `BinarySignal` object (at most one of `splice_insert` / `time_signal` set) -/
structure Signal where
  tableId                : Nat
  sectionSyntaxIndicator : Bool
  privateIndicator       : Bool
  sapType                : Nat
  protocolVersion        : Nat
  encryptedPacket        : Bool
  encryptionAlgorithm    : Nat
  ptsAdjustment          : Nat
  cwIndex                : Nat
  tier                   : Nat
  command                : Command
  descriptors            : List Descriptor
  deriving Repr, DecidableEq

/-- `BinarySignal.encode_fields(w)` (binarysignal.py:94-124) -/
def Signal.encFields (s : Signal) (w : Bits) : Bits :=
  let w := w ++ putBits 8 s.protocolVersion
  let w := w ++ putBits 1 s.encryptedPacket.toNat
  let w := w ++ putBits 6 s.encryptionAlgorithm
  let w := w ++ putBits 33 s.ptsAdjustment
  let w := w ++ putBits 8 s.cwIndex
  let w := w ++ putBits 12 s.tier
  let pos := w.length
  let w := w ++ putBits 12 0
  let w := w ++ putBits 8 s.command.type
  let w := w ++ s.command.enc
  let spliceCommandLength := (w.length - pos - 20) / 8
  let w := overwrite w pos 12 spliceCommandLength
  let pos := w.length
  let w := w ++ putBits 16 0
  let w := s.descriptors.foldl Descriptor.enc w
  let descriptorLoopLength := (w.length - pos - 16) / 8
  overwrite w pos 16 descriptorLoopLength

/-- `MpegSectionTable.encode()` up to `data = w.toBytes()` (section_table.py:48-60) -/
def Signal.encBody (s : Signal) : Bits :=
  let w : Bits := putBits 8 s.tableId
  let w := w ++ putBits 1 s.sectionSyntaxIndicator.toNat
  let w := w ++ putBits 1 s.privateIndicator.toNat
  let w := w ++ putBits 2 s.sapType
  let pos := w.length
  let w := w ++ putBits 12 0
  let w := s.encFields w
  let sectionLength := 4 + (w.length - pos - 12) / 8
  overwrite w pos 12 sectionLength

/-- `MpegSectionTable.encode()`: the body followed by its CRC-32/MPEG-2
(`w.write(32, 'crc32', value=crc.final())` – the 32 register bits, MSB first) -/
def Signal.encode (s : Signal) : Bits :=
  let data := s.encBody
  data ++ Crc32.crcBits data

/-- what `BinarySignal.parse` returns besides the signal's own fields -/
structure Parsed where
  sig                  : Signal
  sectionLength        : Nat
  spliceCommandLength  : Nat
  spliceCommandType    : Nat
  descriptorLoopLength : Nat
  descriptorLengths    : List Nat
  crc                  : Nat
  crcValid             : Bool
  deriving Repr, DecidableEq

/-- `MpegSectionTable.parse` + `BinarySignal.parse_payload`
(section_table.py:32-43, binarysignal.py:63-92) up to and including
`r.read(32, 'crc')`; returns the reader so that `Signal.parse` can compute
`crc_valid` over the bytes consumed.  `none` = an exception (`ReadError`, or a
command/descriptor type outside the model). -/
def Signal.parseRd (r : Rd) : Option (Parsed × Rd) := do
  let (tableId, r) ← r.get 8
  let (ssi, r) ← r.getBool
  let (pi, r) ← r.getBool
  let (sap, r) ← r.get 2
  let (sectionLength, r) ← r.get 12
  let (pv, r) ← r.get 8
  let (enc, r) ← r.getBool
  let (alg, r) ← r.get 6
  let (adj, r) ← r.get 33
  let (cw, r) ← r.get 8
  let (tier, r) ← r.get 12
  let (cmdLen, r) ← r.get 12
  let (cmdType, r) ← r.get 8
  let (cmd, r) ← (if cmdType = 4 ∨ cmdType = 0xFF then none
                  else if cmdType = 5 then (SpliceInsert.parse r).map (fun x => (Command.insert x.1, x.2))
                  else if cmdType = 6 then (SpliceTime.parse r).map (fun x => (Command.timeSignal x.1, x.2))
                  else some (Command.null, r))
  let (loopLen, r) ← r.get 16
  let endpos := r.bytepos + loopLen
  let (ds, r) ← parseDescriptors (r.rest.length + 1) endpos r
  let r ← (if enc then (r.get 32).map (·.2) else some r)
  let (crc, r) ← r.get 32
  some ({ sig := { tableId, sectionSyntaxIndicator := ssi, privateIndicator := pi, sapType := sap,
                   protocolVersion := pv, encryptedPacket := enc, encryptionAlgorithm := alg,
                   ptsAdjustment := adj, cwIndex := cw, tier, command := cmd,
                   descriptors := ds.map (·.1) },
          sectionLength, spliceCommandLength := cmdLen, spliceCommandType := cmdType,
          descriptorLoopLength := loopLen, descriptorLengths := ds.map (·.2), crc,
          crcValid := false }, r)

/-- `BinarySignal.parse(src, size)`: the fields plus (section_table.py:44-46)
`crc_valid = Crc32Mpeg2(data[position : r.bytepos()]) == 0` – the CRC of every
byte consumed, the `crc` field included. -/
def Signal.parse (data : Bits) : Option Parsed :=
  (Signal.parseRd ⟨0, data⟩).map fun x =>
    { x.1 with crcValid := Crc32.crc32 (data.take x.2.pos) == 0 }

/-! ### `Scte35Events.create_binary_signal` -/

/-- `create_binary_signal(event_id, presentation_time)` (scte35_events.py:61-104,
after fix da23ed5) for a schedule `s` and `program_id`.  `none` stands for the
`ValueError` bitstring raises at `encode()` when a value is negative or does not
fit its field (and for the `ZeroDivisionError` of `timescale = 0`). -/
def createBinarySignal (s : Events.Sched) (programId eventId pt : Int) : Option Signal :=
  let pts := Int.fmod (Events.pydiv (pt * 90000) s.timescale) (2 ^ 33)    -- `& 0x1FFFFFFFF`
  let duration := Events.pydiv (s.duration * 90000) s.timescale
  let autoReturn := Int.fmod eventId 2 == 0                               -- `(event_id & 1) == 0`
  let numbered := s.count > 0 ∧ Events.pydiv s.count 2 < 255
  let availNum : Int := if numbered then 1 + Events.pydiv eventId 2 else 0
  let availsExpected : Int := if numbered then 1 + Events.pydiv s.count 2 else 0
  if s.timescale = 0 ∨ eventId < 0 ∨ eventId ≥ 2 ^ 32 ∨ duration < 0 ∨ duration ≥ 2 ^ 33 ∨ programId < 0 ∨
     programId ≥ 2 ^ 16 ∨ availNum ≥ 256 then none
  else
    let seg : SegDesc :=
      { eventId := availNum.toNat, cancel := false, deliveryNotRestricted := true,
        webDeliveryAllowed := true, noRegionalBlackout := true, archiveAllowed := true,
        deviceRestrictions := 3, duration := some 0, upidType := 0x0F, upid := [],
        typeId := 0x34 + (Int.fmod eventId 2).toNat, segmentNum := 0, segmentsExpected := 0,
        subSegmentNum := 0, subSegmentsExpected := 0 }
    some
      { tableId := 0xFC, sectionSyntaxIndicator := false, privateIndicator := false,
        sapType := 0, protocolVersion := 0, encryptedPacket := false, encryptionAlgorithm := 0,
        ptsAdjustment := 0, cwIndex := 0xFF, tier := 0xFFF,
        command := .insert
          { eventId := eventId.toNat, cancel := false, outOfNetwork := true, immediate := false,
            spliceTime := some ⟨some pts.toNat⟩, components := [],
            breakDuration := some ⟨autoReturn, duration.toNat⟩,
            uniqueProgramId := programId.toNat, availNum := availNum.toNat,
            availsExpected := availsExpected.toNat },
        descriptors := [.segmentation 0x43554549 seg] }

/-- `get_emsg_event_payload` / the binary of `get_manifest_event_payload` -/
def scte35Payload (s : Events.Sched) (programId eventId pt : Int) : Option Bits :=
  (createBinarySignal s programId eventId pt).map Signal.encode

end DashLive.Scte35
