import DashLive.Model.Options
/-!
# Which exceptions the option layer can raise, and what the handlers make of them (C16)

Built on the codec model of C07 (`DashLive.Options.fromString`, which follows every
registered `from_string` line by line) and on the generated registry table.

Anchors (all in `/repo`, after the `fix:` commits e0c6070, e4f8a3e, 8c4223f, a33d2de):

* `dashlive/server/options/dash_option.py:176-236`, `drm_options.py:73-96`,
  `http_error.py:17-28`, `manifest_options.py:45-54`, `events/base.py:50-70` – the raising
  points of the codecs: `int(x, 10)`, `float(x)`, the tuple unpacking of `val.split('=')`,
  `DrmLocation(loc)` (ValueError) vs `DrmLocation.from_string` (KeyError), `.lower()` on
  something that is not a `str`, `from_isodatetime`
* `dashlive/server/options/repository.py:206-240` – `convert_options` (swallows `KeyError`)
* `dashlive/server/requesthandler/base.py:88-189` – `calculate_options` +
  `check_option_values` (every check raises `ValueError`)
* `dashlive/server/requesthandler/drm_context.py:63-80` – the `assert` on the DRM name
* `dashlive/server/requesthandler/time_source_context.py:28-54` – the `raise ValueError`
  for an unknown method, *after* the handlers' guarded block
* the handlers: `manifest_requests.py:119-176` (ServeManifest), `:207-250`
  (ServeMultiPeriodManifest), `:295-375` (ServePatch); `media_requests.py:404-447`
  (LiveMedia.get), `:98-137`, `:139-300` (init / media segment), `:491-553` (multi-period);
  `utctime.py:36-45`

Only the *class* of a date-time text matters here (`IsoClass`): what `from_isodatetime`
returned (aware / naive date-time, duration, time of day) or that it raised.  The parser
itself is C19's subject; here it is a parameter (`DTCodec IsoClass`), `parse = none` being
`ValueError` (after e0c6070 / this property's `date_time.py` fixes `OverflowError` of
`timedelta` / `datetime` is re-raised as `ValueError`).
-/
namespace DashLive.OptionErrors
open DashLive.Options

/-- Python exception classes that occur in the anchored code -/
inductive Exc where
  | valueError
  | keyError
  | typeError
  | attributeError
  | overflowError
  | assertionError
  | zeroDivisionError
  | indexError
  | templateError
  | structError
deriving DecidableEq, Repr

def Exc.ofErr : Err → Exc
  | .valueError => .valueError
  | .keyError => .keyError

/-- what `from_isodatetime` returned for a non-empty text -/
inductive IsoClass where
  /-- `datetime` with tzinfo; `offsetOk` = |utcoffset| < 24 h -/
  | aware (offsetOk : Bool)
  /-- `datetime` without tzinfo (`2024-03-05`, `2024-03-05T10:20:30`) -/
  | naive
  /-- `timedelta` (`PT5S`) -/
  | duration
  /-- `datetime.time` (`10:20:30Z`) -/
  | timeOfDay
deriving DecidableEq, Repr

/-! ## type-confused arguments

`flask.request.args` only holds `str` values, so an HTTP request always reaches a
`from_string` with a `str`.  What the codecs do with anything else is recorded here
because it is the reason the hypothesis "the argument is a string" cannot be dropped
(`Props/C16.lean: confused_escapes`). -/

/-- a Python object handed to a `from_string` -/
inductive PyArg where
  | str (s : Bytes)
  | none
  | int (isZero : Bool)
  | float (isZero : Bool)
  | bool (b : Bool)
  | bytes
  | list
  | dict
deriving DecidableEq, Repr

/-- `value.lower() …` first (`bool_from_string`, `string_or_none`, `list_without_none`,
`unquoted_url…`, `_drm_selection_from_string`, `_errors_from_string`): `AttributeError`
unless the object has `.lower()` (`bytes` has); what follows for `bytes` -/
def lowerFirst (afterBytes : Option Exc) : PyArg → Option Exc
  | .str _ => none
  | .bytes => afterBytes
  | _ => some .attributeError

/-- `value in {None, '', 'none'}` first (`int_or_none…`, `float_or_none…`): unhashable
objects raise `TypeError`; `None` is accepted; then `conv` decides -/
def inSetFirst (conv : PyArg → Option Exc) : PyArg → Option Exc
  | .str _ => none
  | .none => none
  | .list => some .typeError
  | .dict => some .typeError
  | a => conv a

/-- `int(value, 10)` with a non-string: `TypeError` ("can't convert non-string with
explicit base"); `bytes` are converted like text (`b'x'` → `ValueError`) -/
def intConv : PyArg → Option Exc
  | .bytes => some .valueError
  | .str _ => none
  | _ => some .typeError

/-- `float(value)`: numbers and `bool` convert -/
def floatConv : PyArg → Option Exc
  | .bytes => some .valueError
  | _ => none

/-- `ast_from_string`: `value in SPECIAL_AST_VALUES` (a set: unhashable → `TypeError`),
then `from_isodatetime`: `if not date_time: return None`, then `date_time[0]` -/
def astConfused : PyArg → Option Exc
  | .str _ => none
  | .none => none
  | .int z => if z then none else some .typeError
  | .float z => if z then none else some .typeError
  | .bool b => if b then some .typeError else none
  | _ => some .typeError

/-- the exception a registered `from_string` raises for an argument that is not a
`str` (`none` = it returns a value) -/
def confused (k : Kind) (a : PyArg) : Option Exc :=
  match k with
  | .bool => lowerFirst none a
  | .strOrNone => lowerFirst none a
  | .listJoin => lowerFirst (some .typeError) a          -- `value.split(',')` on bytes
  | .quotedUrl => lowerFirst (some .typeError) a         -- `unquote_plus(bytes)`
  | .drmSelection => lowerFirst (some .typeError) a      -- `value.startswith('none')`
  | .errorList => lowerFirst (some .typeError) a
  | .intOrNone => inSetFirst intConv a
  | .intOrDefault _ => inSetFirst intConv a
  | .posIntOrDefault _ => inSetFirst intConv a
  | .floatOrNone => inSetFirst floatConv a
  | .strRaw => none                                      -- `str(val)`
  | .astDateTime => astConfused a
  | .dtOrNone => inSetFirst astConfused a

/-! ## `float(text)` – which texts convert -/

def lowerEq (s : Bytes) (t : String) : Bool := lower s == ascii t

/-- digits with single underscores between digits (as `pyDigits`), value ignored -/
def digitRun (s : Bytes) : Bool := (pyDigits s).isSome

/-- `D[.[D]] | .D` -/
def mantissaOk (s : Bytes) : Bool :=
  match splitOn 46 s with
  | [i] => digitRun i
  | [i, f] => (digitRun i && (f == [] || digitRun f)) || (i == [] && digitRun f)
  | _ => false

def dropSign (s : Bytes) : Bytes :=
  match s with
  | b :: r => if b = 43 ∨ b = 45 then r else s
  | [] => s

/-- exponent part after `e`/`E` -/
def exponentOk (s : Bytes) : Bool := digitRun (dropSign s)

def isE (b : UInt8) : Bool := b == 101 || b == 69

/-- CPython `float(str)` on ASCII text: surrounding white space, a sign, then `inf`,
`infinity`, `nan` (any case) or a decimal number with optional exponent.  Never
`OverflowError` (`1e400` is `inf`). -/
def pyFloatOk (s : Bytes) : Bool :=
  let t := dropSign (strip s)
  if lowerEq t "inf" || lowerEq t "infinity" || lowerEq t "nan" then true
  else
    let m := t.takeWhile (fun b => !isE b)
    match t.dropWhile (fun b => !isE b) with
    | [] => mantissaOk m
    | _ :: e => mantissaOk m && exponentOk e

/-! ## the codecs with the exception class attached -/

section codecs
variable {DT : Type} (C : DTCodec DT)

/-- a registered `from_string` applied to a `str`.  `floatOrNone` is restated with the
full `float()` grammar (the value is not tracked: nothing in this property depends on
it); everything else is C07's `fromString`. -/
def fromStringX (k : Kind) (s : Bytes) : Except Exc (Val DT) :=
  match k with
  | .floatOrNone =>
    if isNoneCS s then .ok .none
    else if pyFloatOk s then .ok (.tenths 0)
    else .error .valueError
  | k =>
    match fromString C k s with
    | .ok v => .ok v
    | .error e => .error (Exc.ofErr e)

/-- a registered `from_string` applied to any object -/
def fromStringAny (k : Kind) (a : PyArg) : Except Exc (Option (Val DT)) :=
  match a with
  | .str s => (fromStringX C k s).map some
  | a =>
    match confused k a with
    | some e => .error e
    | none => .ok none

/-- one iteration of the loop of `convert_options` (repository.py:220-239) -/
def convertStepX (tbl : List OptionRow) (acc : Nat → Val DT) (kv : Bytes × Bytes) :
    Except Exc (Nat → Val DT) :=
  match findRow tbl kv.1 with
  | none => .ok acc                       -- `param_map[key]` → KeyError, logged, skipped
  | some i =>
    match tbl[i]? with
    | none => .ok acc
    | some r =>
      match fromStringX C r.kind kv.2 with
      | .ok v => .ok (setField acc i v)
      | .error .keyError => .ok acc       -- `except KeyError: continue`
      | .error e => .error e              -- everything else propagates

/-- `OptionsRepository.convert_cgi_options(args, defaults)` -/
def convertX (tbl : List OptionRow) (dflt : Nat → Val DT) :
    List (Bytes × Bytes) → Except Exc (Nat → Val DT)
  | [] => .ok dflt
  | kv :: r =>
    match convertStepX C tbl dflt kv with
    | .error e => .error e
    | .ok acc => convertX tbl acc r

end codecs

/-- a date-time codec that refuses every text (for statements that do not depend on it) -/
def nullCodec : DTCodec Unit := { parse := fun _ => none, render := fun _ => [] }

/-! ## `check_option_values` (base.py:120-189) -/

/-- value of the option with cgi name `name` -/
def field {DT : Type} (tbl : List OptionRow) (o : Nat → Val DT) (name : String) : Val DT :=
  match findRow tbl (ascii name) with
  | some i => o i
  | none => .none

/-- largest number of seconds of a time span option (`MAX_TIME_SPAN`) -/
def maxTimeSpan : Int := 100 * 366 * 24 * 3600
/-- `MAX_EVENT_COUNT` -/
def maxEventCount : Int := 10000

def utcMethods : List Bytes :=
  ["direct", "head", "http-ntp", "iso", "ntp", "sntp", "xsd"].map ascii

def eventTypes : List String := ["ping", "scte35"]

/-- the position of an injected error must be `int`, `datetime` or `time` -/
def positionOk : Pos IsoClass → Bool
  | .num _ => true
  | .at .duration => false
  | .at (.aware false) => false      -- `pos.utcoffset()` raises (823dec5)
  | .at _ => true
  | .nothing => false

def timeSpanOk (v : Val IsoClass) : Bool :=
  match v with
  | .int z => decide (z.natAbs ≤ maxTimeSpan.natAbs)
  | _ => true

section check
variable (C : DTCodec IsoClass)

/-- one `vcorrupt` item: `int(item, 10)`, else `from_isodatetime(item)` -/
def corruptItem (item : Bytes) : Except Exc (Pos IsoClass) :=
  match pyInt item with
  | some z => .ok (.num z)
  | none =>
    match parseDT C item with
    | .error e => .error (Exc.ofErr e)
    | .ok (some d) => .ok (.at d)
    | .ok none => .ok .nothing

def errPositions (v : Val IsoClass) : List (Pos IsoClass) :=
  match v with
  | .errs l => l.map (·.2)
  | _ => []

def listItems (v : Val IsoClass) : List Bytes :=
  match v with
  | .list l => l
  | _ => []

/-- value of `<event>__<key>` -/
def eventField (tbl : List OptionRow) (o : Nat → Val IsoClass) (name : Bytes) (key : String) : Val IsoClass :=
  field tbl o (String.ofList (name.map fun b => Char.ofNat b.toNat) ++ "__" ++ key)

def intIs (v : Val IsoClass) (p : Int → Bool) : Bool :=
  match v with
  | .int z => p z
  | _ => true

/-- the checks on a selected event type (base.py:168-185): count, timescale, duration,
emsg version -/
def eventParamsOk (tbl : List OptionRow) (o : Nat → Val IsoClass) (name : Bytes) : Bool :=
  intIs (eventField tbl o name "count") (fun z => decide (z ≤ maxEventCount)) &&
  intIs (eventField tbl o name "timescale") (fun z => decide (1 ≤ z)) &&
  intIs (eventField tbl o name "duration") (fun z => decide (0 ≤ z)) &&
  -- `start < 0 and not inband` is refused (23db72d)
  (intIs (eventField tbl o name "start") (fun z => decide (0 ≤ z)) ||
    (match eventField tbl o name "inband" with
     | .bool b => b
     | _ => true)) &&
  intIs (eventField tbl o name "version") (fun z => decide (z = 0 ∨ z = 1))

/-- `availabilityStartTime`: `None` → the default, a special name stays, an aware
date-time must have a usable offset, a naive one becomes UTC, anything else is refused -/
def astCheck (dfltAst : Val IsoClass) (v : Val IsoClass) : Except Exc (Val IsoClass) :=
  match v with
  | .none => .ok dfltAst
  | .str s => .ok (.str s)
  | .dt (.aware true) => .ok (.dt (.aware true))
  | .dt (.aware false) => .error .valueError       -- `ast.utcoffset()` raises
  | .dt .naive => .ok (.dt (.aware true))
  | _ => .error .valueError

/-- every selected DRM name is a `DrmSystem` -/
def drmNamesOk (tbl : List OptionRow) (o : Nat → Val IsoClass) : Bool :=
  match field tbl o "drm" with
  | .drm l => l.all (fun e => drmNames.contains e.1)
  | _ => true

/-- `utcMethod` is `None` or one of the choices -/
def utcMethodOk (tbl : List OptionRow) (o : Nat → Val IsoClass) : Bool :=
  match field tbl o "time" with
  | .str s => utcMethods.contains s
  | _ => true

def errorPositions (tbl : List OptionRow) (o : Nat → Val IsoClass) : List (Pos IsoClass) :=
  errPositions (field tbl o "aerr") ++ errPositions (field tbl o "merr") ++
    errPositions (field tbl o "terr") ++ errPositions (field tbl o "verr")

def eventsOk (tbl : List OptionRow) (o : Nat → Val IsoClass) : Bool :=
  (listItems (field tbl o "events")).all fun name =>
    !(eventTypes.map ascii).contains name || eventParamsOk tbl o name

/-- `MAX_TIME_SHIFT_BUFFER_DEPTH` -/
def maxTimeShiftBufferDepth : Int := 5000000

def spansOk (tbl : List OptionRow) (o : Nat → Val IsoClass) : Bool :=
  timeSpanOk (field tbl o "drift") && timeSpanOk (field tbl o "leeway") &&
    timeSpanOk (field tbl o "mup") && timeSpanOk (field tbl o "depth") &&
    intIs (field tbl o "depth") (fun z => decide (z ≤ maxTimeShiftBufferDepth))

def setStart (tbl : List OptionRow) (o : Nat → Val IsoClass) (ast : Val IsoClass) : Nat → Val IsoClass :=
  match findRow tbl (ascii "start") with
  | some i => setField o i ast
  | none => o

/-- `MAX_LICENSE_URL_LENGTH`: the longest license URL a PlayReady Object can carry -/
def maxLicenseUrlLength : Nat := 4096

/-- `check_license_url` on the registered `<drm>__la_url` options (part of
`check_option_values`) -/
def licenseUrlsOk (tbl : List OptionRow) (o : Nat → Val IsoClass) : Bool :=
  ["clearkey__la_url", "marlin__la_url", "playready__la_url"].all fun n =>
    match field tbl o n with
    | .str s => decide (s.length ≤ maxLicenseUrlLength)
    | _ => true

/-- `check_license_url` on the raw `<drm>_la_url` request parameters `DrmContext` reads
itself (before the conversion) -/
def rawLicenseUrlsOk (q : List (Bytes × Bytes)) : Bool :=
  q.all fun kv =>
    !(["clearkey_la_url", "marlin_la_url", "playready_la_url"].map ascii).contains kv.1 ||
      decide (kv.2.length ≤ maxLicenseUrlLength)

/-- `check_option_values`; every refusal is a `ValueError` -/
def checkValues (tbl : List OptionRow) (dfltAst : Val IsoClass) (o : Nat → Val IsoClass) :
    Except Exc (Nat → Val IsoClass) :=
  if !drmNamesOk tbl o then .error .valueError else
  if !utcMethodOk tbl o then .error .valueError else
  match astCheck dfltAst (field tbl o "start") with
  | .error e => .error e
  | .ok ast =>
    match (listItems (field tbl o "vcorrupt")).mapM (corruptItem C) with
    | .error e => .error e
    | .ok cps =>
      if !(errorPositions tbl o ++ cps).all positionOk then .error .valueError else
      if !eventsOk tbl o then .error .valueError else
      if !spansOk tbl o then .error .valueError
      else .ok (setStart tbl o ast)

/-- `RequestHandlerBase.calculate_options` without restrictions (as `UTCTimeHandler`,
`LiveMedia`, `ServeMps*` call it): the raw license URL parameters, convert, then check
(the registered license URL options, then `check_option_values`) -/
def calcOptions (tbl : List OptionRow) (dflt : Nat → Val IsoClass) (q : List (Bytes × Bytes)) :
    Except Exc (Nat → Val IsoClass) :=
  bif !rawLicenseUrlsOk q then .error .valueError else
  match convertX C tbl dflt q with
  | .error e => .error e
  | .ok o =>
    bif !licenseUrlsOk tbl o then .error .valueError
    else checkValues C tbl (field tbl dflt "start") o

end check

/-! ## the sites that used to fail *behind* the guarded block (D6) -/

/-- `DrmContext.generate_drm_location_tuples`: `assert drm_name in DrmSystem.values()` -/
def drmTuples (sel : List (Bytes × LocSet)) : Except Exc (List Bytes) :=
  sel.mapM fun e => if drmNames.contains e.1 then .ok e.1 else .error .assertionError

/-- `TimeSourceContext.__init__`: the `else: raise ValueError` of the method chain
(raised from `ManifestContext.__init__`, i.e. outside the handlers' `try`) -/
def timeSource (method : Bytes) : Except Exc Unit :=
  if utcMethods.contains method then .ok () else .error .valueError

/-! ## the handlers' mapping -/

/-- what a call the model does not look into did -/
inductive Call where
  | ok
  /-- raised the exception the caller catches for it (`ManifestNotAvailable`, the
  `ValueError` of a segment lookup, …) -/
  | refused
  /-- raised something else -/
  | raised (e : Exc)
deriving DecidableEq, Repr

/-- status of a response when an exception escapes the view: Flask's 500 -/
def escapes (_e : Exc) : Nat := 500

/-- the `try: calculate_options(...) except ValueError: 400` block every handler has -/
def guarded {α : Type} (r : Except Exc α) : Except Nat α :=
  match r with
  | .ok a => .ok a
  | .error .valueError => .error 400
  | .error e => .error (escapes e)

/-- the facts a manifest-type request depends on besides its query -/
structure ManifestWorld where
  /-- `uses_stream` / `uses_multi_period_stream` found the row -/
  streamFound : Bool
  /-- `uses_manifest`: the name is in `manifest_map` and the mode is allowed -/
  manifestOk : Bool
  /-- `stream_not_ready` / `multi_period_stream_not_ready` is `None` -/
  ready : Bool
  /-- ServePatch only: the manifest has the `patch` and `segmentTimeline` features and
  supports live mode; and `datetime.fromtimestamp(publish)` is in range -/
  patchOk : Bool
  publishOk : Bool
  /-- `options.patch` requested for a manifest without SegmentTimeline -/
  patchWithoutTimeline : Bool
  /-- `ManifestContext(...)` -/
  context : Call
  /-- `manifest_not_ready(dash)` is `None` -/
  contextReady : Bool
  /-- `check_for_synthetic_manifest_error` (computed by `Inject.checkLoop`) -/
  injected : Option Nat
  /-- `flask.render_template` -/
  render : Call
deriving Repr

inductive ManifestKind where
  | single | multi | patch
deriving DecidableEq, Repr

/-- ServeManifest.get / ServeMultiPeriodManifest.get / ServePatch.get -/
def manifestStatus (k : ManifestKind) (w : ManifestWorld) (parse : Except Exc Unit) : Nat :=
  if !w.streamFound then 404 else
  if !w.manifestOk then 404 else
  if !w.ready then 404 else
  if k = .patch && !w.patchOk then 400 else
  match guarded parse with
  | .error st => st
  | .ok () =>
    if k = .single && w.patchWithoutTimeline then 400 else
    if k = .patch && !w.publishOk then 404 else
    match w.context with
    | .raised e => escapes e
    | .refused => 404
    | .ok =>
      if !w.contextReady then 404 else
      match (if k = .single then w.injected else none) with
      | some code => code
      | none =>
        match w.render with
        | .ok => 200
        | .refused => 404
        | .raised e => escapes e

/-- the facts a media-segment request depends on besides its query -/
structure MediaWorld where
  /-- `uses_stream` + `uses_media_file` / the Period and MediaFile lookups -/
  found : Bool
  /-- `representation is not None` -/
  indexed : Bool
  /-- `stream.timing_reference is not None` -/
  timingRef : Bool
  /-- the file is encrypted but `drmSelection` is empty -/
  encryptedWithoutDrm : Bool
  /-- content type is audio, video or text -/
  knownContentType : Bool
  /-- the request is for `init` -/
  isInit : Bool
  /-- `int(segment_num, 10)` succeeded (the route regex guarantees it) -/
  numberOk : Bool
  /-- `check_for_synthetic_http_error` (computed by `Inject.checkLoop`) -/
  injected : Option Nat
  /-- `calculate_media_segment_index`: `.refused` = ValueError / OverflowError / index
  outside the media → 404 -/
  lookup : Call
  /-- `load_fragment`, DRM context, box edits, `atom.encode()` -/
  build : Call
  /-- `create_emsg_boxes`: `.refused` = ValueError (too many events) → 400 -/
  events : Call
  /-- `get_http_range`: 200 / 206 / 416, or ValueError → 400 -/
  range : Except Unit Nat
deriving Repr

/-- LiveMedia.get → generate_init_segment / generate_media_segment -/
def mediaStatus (w : MediaWorld) (parse : Except Exc Unit) : Nat :=
  if !w.found then 404 else
  if !w.indexed then 404 else
  match guarded parse with
  | .error st => st
  | .ok () =>
    if !w.timingRef then 404 else
    if w.encryptedWithoutDrm then 404 else
    if !w.knownContentType then 404 else
    if !w.isInit && !w.numberOk then 404 else
    match w.injected with
    | some code => code
    | none =>
      if w.isInit then
        (match w.build with
         | .ok => 200
         | .refused => 404
         | .raised e => escapes e)
      else
        match w.lookup with
        | .raised e => escapes e
        | .refused => 404
        | .ok =>
          match w.build with
          | .raised e => escapes e
          | .refused => 404
          | .ok =>
            match w.events with
            | .raised e => escapes e
            | .refused => 400
            | .ok =>
              match w.range with
              | .error () => 400
              | .ok st => st

/-! ### the VOD first/last gate (`LiveMedia.calculate_media_segment_index`,
media_requests.py:455-495, `Representation.calculate_first_and_last_segment_number` and
`calculate_segment_number_and_time`, representation.py:497-525, and the index check of
`generate_media_segment`, media_requests.py:175-176) -/

/-- how a VOD media request addresses its segment -/
inductive Addr where
  | number (n : Int)
  | time (t : Nat)
deriving DecidableEq, Repr

/-- the segment number of the request: `$Time$` → `(t + sd/4) // sd + start_number` -/
def vodSegNum (sd sn : Nat) : Addr → Int
  | .number n => n
  | .time t => ((t + sd / 4) / sd : Nat) + (sn : Int)

/-- `mod_segment = 1 + seg_num - start_number` -/
def vodModSegment (sd sn : Nat) (a : Addr) : Int := 1 + vodSegNum sd sn a - sn

/-- the lookup of a VOD request on a file with `n` media segments: `.refused` = the
`ValueError` that becomes 404 (outside `first … last`, or index outside `1 … n`) -/
def vodLookup (sd sn n : Nat) (a : Addr) : Call :=
  let num := vodSegNum sd sn a
  let first : Int := sn
  let last : Int := (n : Int) + sn - 1
  if num < first ∨ num > last then .refused
  else if vodModSegment sd sn a < 1 ∨ vodModSegment sd sn a > n then .refused
  else .ok

/-- UTCTimeHandler.get: `calculate_options('live', args)` and nothing that can fail -/
def timeStatus (parse : Except Exc Unit) : Nat :=
  match guarded parse with
  | .error st => st
  | .ok () => 200

/-! ## `/time/http-ntp` (utctime.py:65-75) -/

/-- the two 32-bit fields of the NTP timestamp; `us` = microseconds from
1900-01-01T00:00:00Z to the drift-adjusted clock (`(now - epoch).total_seconds()`, here
exact).  `int()` truncates towards zero, `%` is Python's; `struct.pack('>II', …)` raises
`struct.error` for a value outside `0 … 2³²−1`. -/
def ntpFields (us : Int) : Except Exc (Nat × Nat) :=
  let whole := Int.tdiv us 1000000                     -- `int(seconds)`
  let secs := Int.emod whole 4294967296                -- `% (1 << 32)`
  let frac := Int.tdiv ((us - whole * 1000000) * 4294967296) 1000000   -- `int(fraction * (1 << 32))`
  if frac < 0 ∨ frac ≥ 4294967296 ∨ secs < 0 ∨ secs ≥ 4294967296 then .error .structError
  else .ok (secs.toNat, frac.toNat)

/-- seconds from 1900-01-01 to 2000-03-16T00:00:00Z (= `MAX_TIME_SPAN`, 100 × 366 days) -/
def ntpY2K : Int := 3162240000

/-- the hypothesis of `handler_status_no_5xx_partial`: none of the calls the model does
not look into raised an exception its caller does not catch -/
def Call.quiet : Call → Bool
  | .raised _ => false
  | _ => true

def ManifestWorld.quiet (w : ManifestWorld) : Bool := w.context.quiet && w.render.quiet
def MediaWorld.quiet (w : MediaWorld) : Bool := w.lookup.quiet && w.build.quiet && w.events.quiet

/-- the statuses `get_http_range` produces -/
def rangeStatusOk : Except Unit Nat → Bool
  | .error () => true
  | .ok st => st == 200 || st == 206 || st == 416

end DashLive.OptionErrors
