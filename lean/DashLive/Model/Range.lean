/-
Model of the HTTP `Range` handling of dash-live (property C13):

* `RequestHandlerBase.get_http_range`   dashlive/server/requesthandler/base.py:115-156
  (as repaired by the `fix:` commit for D4 – clamp of last-byte-pos, clamp of a
  suffix longer than the resource, 416 only when no byte is selected)
* the slice of the generated segment     dashlive/server/requesthandler/media_requests.py:277-284
* the on-demand file read                dashlive/server/requesthandler/media_requests.py:64-84

Import-free (core Lean only) so that the line-protocol driver can be compiled.

The header is a *string* (`List Char`), the way WSGI hands it to Flask: every
character is a Latin-1 code point (0..255).  `str.lower`, `str.strip` and the
whitespace/digit classes of `int(x, 10)` are modelled for exactly that range;
code points above 255 (e.g. Arabic-Indic digits, which CPython's `int` accepts)
are outside the model's domain – the functions are still total on them, but
nothing is claimed about agreement with Python there, and the generators of the
correspondence check stay inside Latin-1.

`lim` is `sys.get_int_max_str_digits()` (4300 unless reconfigured): `int()`
raises `ValueError` for a literal with more digits.

The media bytes are an arbitrary `List α` (the functions only move elements
around); the theorems hold for every `α`, the driver runs them on indices.
-/
namespace DashLive.Range

/-! ### Python string primitives on Latin-1 text -/

/-- `str.lower()` of one Latin-1 character: `A-Z` and `À-Þ` except `×` move up by 32 -/
def lowerChar (c : Char) : Char :=
  if (65 ≤ c.toNat ∧ c.toNat ≤ 90) ∨ (192 ≤ c.toNat ∧ c.toNat ≤ 222 ∧ c.toNat ≠ 215)
  then Char.ofNat (c.toNat + 32) else c

/-- `str.lower()` -/
def lower (s : List Char) : List Char := s.map lowerChar

/-- white space as `int()` sees it: ASCII `isspace` plus the Latin-1 characters
`_PyUnicode_TransformDecimalAndSpaceToASCII` turns into a blank (NEL, NBSP) -/
def isSpaceInt (c : Char) : Bool :=
  (9 ≤ c.toNat && c.toNat ≤ 13) || c.toNat == 32 || c.toNat == 133 || c.toNat == 160

/-- white space as `str.strip()` sees it (`str.isspace`): additionally FS, GS, RS, US -/
def isSpaceStr (c : Char) : Bool :=
  isSpaceInt c || (28 ≤ c.toNat && c.toNat ≤ 31)

/-- strip characters satisfying `p` from both ends -/
def stripBy (p : Char → Bool) (s : List Char) : List Char :=
  ((s.dropWhile p).reverse.dropWhile p).reverse

/-- the digits part of an `int` literal: `D ('_'? D)*`.  `prev` = the previous
character was a digit; returns the value and the number of digits. -/
def parseDigits : List Char → Bool → Nat → Nat → Option (Nat × Nat)
  | [], prev, acc, cnt => if prev then some (acc, cnt) else none
  | c :: cs, prev, acc, cnt =>
    if c.isDigit then parseDigits cs true (10 * acc + (c.toNat - '0'.toNat)) (cnt + 1)
    else if c = '_' ∧ prev = true then parseDigits cs false acc cnt
    else none

/-- Python `int(s, 10)` on a Latin-1 string; `none` = `ValueError`.
Grammar: white space, optional sign, digits with single underscores between
them, white space; more than `lim` digits are refused. -/
def pyInt (lim : Nat) (s : List Char) : Option Int :=
  let t := stripBy isSpaceInt s
  let neg := t.head? = some '-'
  let body := if t.head? = some '-' ∨ t.head? = some '+' then t.tail else t
  match parseDigits body false 0 0 with
  | some (v, cnt) => if lim < cnt then none else some (if neg then -(v : Int) else (v : Int))
  | none => none

/-- `s.split('-')` -/
def splitDash : List Char → List (List Char)
  | [] => [[]]
  | c :: cs =>
    if c = '-' then [] :: splitDash cs
    else match splitDash cs with
      | p :: ps => (c :: p) :: ps
      | [] => [[c]]

/-- `'bytes='` -/
def bytesEq : List Char := ['b', 'y', 't', 'e', 's', '=']

/-! ### `get_http_range` – base.py:115-156 -/

/-- the three shapes the parser distinguishes (base.py:134-146) -/
inductive Parsed
  | suffix (amount : Int)            -- `start_str == ''`
  | fromFirst (first : Int)          -- `end_str == ''`
  | firstLast (first last : Int)
  deriving DecidableEq, Repr

/-- lines 118-146 up to the integers; `none` = `ValueError` (lines 123, 125, the
tuple unpacking of line 132, `int()` of lines 135/140/145) -/
def parseRange (lim : Nat) (hdr : List Char) : Option Parsed :=
  let h := stripBy isSpaceStr (lower hdr)                 -- line 119
  if h.take 6 ≠ bytesEq then none                          -- line 122 startswith
  else if ',' ∈ h then none                                -- line 124
  else match splitDash (h.drop 6) with                     -- line 132
    | [s, e] =>
      if s = [] then (pyInt lim e).map Parsed.suffix       -- line 135
      else match pyInt lim s with                          -- line 140
        | none => none
        | some a =>
          if e = [] then some (Parsed.fromFirst a)         -- line 142
          else (pyInt lim e).map (Parsed.firstLast a)      -- line 145
    | _ => none

/-- what `get_http_range` returns when a header is present -/
structure RangeOut where
  start : Int
  stop : Int
  status : Nat
  contentRange : List Char
  deriving DecidableEq, Repr

/-- `str(n)` -/
def natRepr (n : Nat) : List Char := Nat.toDigits 10 n

/-- `str(i)` -/
def intRepr : Int → List Char
  | Int.ofNat n => natRepr n
  | Int.negSucc n => '-' :: natRepr (n + 1)

/-- `f'bytes {start}-{end}/{content_length}'` (line 150) -/
def crSatisfied (start stop : Int) (len : Nat) : List Char :=
  ['b', 'y', 't', 'e', 's', ' '] ++ intRepr start ++ ['-'] ++ intRepr stop ++ ['/'] ++ natRepr len

/-- `f'bytes */{content_length}'` (line 154) -/
def crUnsatisfied (len : Nat) : List Char := ['b', 'y', 't', 'e', 's', ' ', '*', '/'] ++ natRepr len

/-- lines 134-145 of the **repaired** code: `(start, end)` with the clamping of
a suffix longer than the resource and of a last-byte-pos beyond its end -/
def startStop (p : Parsed) (len : Nat) : Int × Int :=
  match p with
  | .suffix amount => (max 0 ((len : Int) - amount), (len : Int) - 1)
  | .fromFirst first => (first, (len : Int) - 1)
  | .firstLast first last => (first, min last ((len : Int) - 1))

/-- lines 134-156 of the **repaired** code: start/end, the 206/416 decision and
the `Content-Range` text -/
def decideRange (p : Parsed) (len : Nat) : RangeOut :=
  let se := startStop p len
  if se.2 < se.1 then
    { start := se.1, stop := se.2, status := 416, contentRange := crUnsatisfied len }
  else
    { start := se.1, stop := se.2, status := 206, contentRange := crSatisfied se.1 se.2 len }

/-- lines 134-146 **before** the repair: no clamping -/
def startStopOld (p : Parsed) (len : Nat) : Int × Int :=
  match p with
  | .suffix amount => ((len : Int) - amount, (len : Int) - 1)
  | .fromFirst first => (first, (len : Int) - 1)
  | .firstLast first last => (first, last)

/-- lines 134-157 **before** the repair (kept only for the negative witnesses
in Props/C13): `end >= content_length or end < start` ⇒ 416 -/
def decideRangeOld (p : Parsed) (len : Nat) : RangeOut :=
  let se := startStopOld p len
  if se.2 ≥ (len : Int) ∨ se.2 < se.1 then
    { start := se.1, stop := se.2, status := 416, contentRange := crUnsatisfied len }
  else
    { start := se.1, stop := se.2, status := 206, contentRange := crSatisfied se.1 se.2 len }

/-- the only exception `get_http_range` raises -/
inductive PyExc | valueError
  deriving DecidableEq, Repr

/-- `get_http_range(content_length)`; `hdr = none` ⇔ no `Range` header (the
`KeyError` branch, line 120: `(None, None, 200, {})` is `ok none`).  `dec` is the
decision stage (`decideRange`, or `decideRangeOld` for the witnesses). -/
def getHttpRangeWith (dec : Parsed → Nat → RangeOut) (lim : Nat) (hdr : Option (List Char))
    (len : Nat) : Except PyExc (Option RangeOut) :=
  match hdr with
  | none => .ok none
  | some h =>
    match parseRange lim h with
    | none => .error .valueError
    | some p => .ok (some (dec p len))

def getHttpRange := getHttpRangeWith decideRange

/-! ### the two consumers -/

/-- `PySlice_AdjustIndices` for step 1: negative indices count from the end,
everything is clamped to `[0, len]` -/
def pyIndex (len : Nat) (i : Int) : Nat :=
  if i < 0 then (if i + (len : Int) < 0 then 0 else (i + (len : Int)).toNat)
  else if (len : Int) < i then len else i.toNat

/-- Python `data[lo:hi]` -/
def pySlice {α : Type} (data : List α) (lo hi : Int) : List α :=
  (data.drop (pyIndex data.length lo)).take (pyIndex data.length hi - pyIndex data.length lo)

/-- `handle.seek(start); handle.read(n)` on a regular file (`n < 0`: to EOF) -/
def fileRead {α : Type} (file : List α) (start : Nat) (n : Int) : List α :=
  if n < 0 then file.drop start else (file.drop start).take n.toNat

/-- an HTTP response as far as C13 observes it.  `Content-Length` is the length
of `body` (Werkzeug computes it).  The text bodies of 400/500 responses are not
modelled (`body = []`). -/
structure Response (α : Type) where
  status : Nat
  body : List α
  contentRange : Option (List Char)
  deriving DecidableEq, Repr

/-- tail of `MediaRequestBase.generate_media_segment`, media_requests.py:271-286:
`data` is the encoded segment -/
def segmentResponseWith {α : Type} (dec : Parsed → Nat → RangeOut) (lim : Nat)
    (hdr : Option (List Char)) (data : List α) : Response α :=
  match getHttpRangeWith dec lim hdr data.length with
  | .error _ => { status := 400, body := [], contentRange := none }              -- line 282-284
  | .ok none => { status := 200, body := data, contentRange := none }
  | .ok (some r) =>                                                              -- line 278-281
    { status := r.status, body := pySlice data r.start (r.stop + 1),
      contentRange := some r.contentRange }

/-- `OnDemandMedia.get`, media_requests.py:64-84: `file` is the stored media file,
`blob.size = file.length`.  A negative seek offset raises `OSError`, which
nothing maps: status 500. -/
def onDemandResponseWith {α : Type} (dec : Parsed → Nat → RangeOut) (lim : Nat)
    (hdr : Option (List Char)) (file : List α) : Response α :=
  match getHttpRangeWith dec lim hdr file.length with
  | .error _ => { status := 400, body := [], contentRange := none }              -- line 68-70
  | .ok none => { status := 400, body := [], contentRange := none }              -- line 71-73
  | .ok (some r) =>
    if r.status = 206 then                                                       -- line 81-83
      if r.start < 0 then { status := 500, body := [], contentRange := none }
      else { status := 206, body := fileRead file r.start.toNat (1 + r.stop - r.start),
             contentRange := some r.contentRange }
    else { status := r.status, body := [], contentRange := some r.contentRange }

def segmentResponse {α : Type} := @segmentResponseWith α decideRange
def onDemandResponse {α : Type} := @onDemandResponseWith α decideRange
def segmentResponseOld {α : Type} := @segmentResponseWith α decideRangeOld
def onDemandResponseOld {α : Type} := @onDemandResponseWith α decideRangeOld

end DashLive.Range
