import DashLive.Model.Calendar
/-!
# Model of `DashTiming.calculate_live_params` (dashlive/mpeg/dash/timing.py:95-164)

All instants are `Int` **microseconds since 1970-01-01T00:00:00Z** (UTC), all
`timedelta`s are `Int` microseconds; `timeShiftBufferDepth`, `minimumUpdatePeriod`
and the option values are whole seconds exactly as in the Python code.

The model follows the code *after* the repairs
`de52307` (negative depth), `7e99581` (explicit start truncated to a whole
second), `abb50c2` (default minimumUpdatePeriod ≥ 1 s) and `f60cf82` (exact
publishTime quantisation).  `calcWith false`
is the code before those commits; it is used only for the recorded witnesses in
`Props/C08.lean`.

Model domain: `0 ≤ now` (the calendar walk is defined on day numbers counted
from 1970-01-01) and `now` carries the UTC time zone, as it does at every call
site (`manifest_context.py:79`, `media_requests.py`, `multi_period_streams.py`).

Float steps of the code and their exact integer reading (valid for
`|elapsedTime| < 2³³ s ≈ 272 years`, where `timedelta.total_seconds()` – a
correctly rounded double of `µs / 10⁶` – still separates neighbouring
microseconds from every whole second):

* `elapsedTime.total_seconds() == 0`            ↦ `e = 0`
* `elapsedTime.total_seconds() < depth`         ↦ `e < depth * 10⁶`
* `int(elapsedTime.total_seconds())`            ↦ `Int.tdiv e 10⁶`
* `(elapsedTime // timedelta(microseconds=1)) // (mup * 1000000)` ↦ `e / (mup * 10⁶)` (floor; exact integer
  arithmetic in the code since `f60cf82`, no float)
* `round(2.0 * segment_duration / timescale)`   ↦ half-to-even rounding of the
  exact quotient (exact for `segment_duration < 2⁵¹`).

No imports beyond `Model/Calendar`: this file is linked into the `driver`.
-/
namespace DashLive.LiveTiming
open DashLive.Calendar

def usPerSec : Int := 1000000
def minuteUs : Int := 60000000
def hourUs : Int := 3600000000
def dayUs : Int := 86400000000

/-- `DashTiming.DEFAULT_TIMESHIFT_BUFFER_DEPTH` (timing.py:52), seconds -/
def defaultDepth : Int := 60

/-- value of the `start` option after `ast_from_string`
(manifest_options.py:46-55): one of the five symbolic names or an explicit
instant.  `utc` is the instant in µs since the epoch, `offsetMin` the UTC offset
of the parsed `datetime` in minutes (`FixedOffsetTimeZone`, whole minutes; it
only affects how the instant is printed). -/
inductive Start where
  | epoch | today | month | year | now
  | explicit (utc : Int) (offsetMin : Int)
  deriving Repr, DecidableEq

def Start.isSymbolic : Start → Bool
  | .explicit _ _ => false
  | _ => true

/-- the two fields of `StreamTimingReference` the live parameters depend on -/
structure Ref where
  segmentDuration : Nat
  timescale : Nat
  deriving Repr, DecidableEq

/-- the option values read by `calculate_live_params` -/
structure Options where
  start : Start
  /-- `options.timeShiftBufferDepth` (seconds) -/
  depth : Option Int := none
  /-- `options.minimumUpdatePeriod` (seconds) -/
  mup : Option Int := none
  /-- `options.leeway` (seconds) -/
  leeway : Option Int := none
  deriving Repr, DecidableEq

/-- the attributes of `DashTiming` set by `calculate_live_params` -/
structure LiveTiming where
  /-- `now` (µs) -/
  now : Int
  /-- `availabilityStartTime` (µs since the epoch) -/
  availabilityStartTime : Int
  /-- UTC offset (minutes) of the `availabilityStartTime`/`publishTime` objects -/
  utcOffsetMin : Int
  /-- `elapsedTime` (µs) -/
  elapsedTime : Int
  /-- `timeShiftBufferDepth` (whole seconds) -/
  timeShiftBufferDepth : Int
  /-- `firstAvailableTime` (µs) -/
  firstAvailableTime : Int
  /-- `publishTime` (µs since the epoch) -/
  publishTime : Int
  /-- `minimumUpdatePeriod` (whole seconds); `none` = manifest updates disabled -/
  minimumUpdatePeriod : Option Int
  /-- `leeway` (µs) -/
  leeway : Int
  deriving Repr, DecidableEq

/-- `dt.replace(microsecond=0)` -/
def floorSec (t : Int) : Int := t - t % usPerSec

/-- UTC day number (days since 1970-01-01) of an instant `0 ≤ t` -/
def dayOf (t : Int) : Nat := (t / dayUs).toNat

/-- `now.replace(hour=0, minute=0, second=0, microsecond=0)` -/
def dayStart (now : Int) : Int := (dayOf now : Int) * dayUs

/-- `now.replace(day=1, hour=0, minute=0, second=0, microsecond=0)` -/
def monthStart (now : Int) : Int := (monthStartDay (dayOf now) : Int) * dayUs

/-- `now.replace(month=1, day=1, hour=0, minute=0, second=0, microsecond=0)` -/
def yearStart (now : Int) : Int := (yearStartDay (dayOf now) : Int) * dayUs

/-- `.hour` of a whole-second UTC instant -/
def hourOf (t : Int) : Int := (t - dayStart t) / hourUs

/-- `.minute` of a whole-second UTC instant -/
def minuteOf (t : Int) : Int := (t - dayStart t) % hourUs / minuteUs

/-- Python's `round(n / d)` for naturals: round half to even -/
def roundHalfEven (n d : Nat) : Nat :=
  let q := n / d
  let r := n % d
  if 2 * r < d then q
  else if d < 2 * r then q + 1
  else if q % 2 = 0 then q else q + 1

/-- timing.py:145-147 `default_mup` (seconds); before `abb50c2` without the `max(1, …)` -/
def defaultMup (repaired : Bool) (r : Ref) : Int :=
  let m : Int := roundHalfEven (2 * r.segmentDuration) r.timescale
  if repaired then max 1 m else m

/-- timing.py:98-100: the option, or the default when it is absent, zero or
(since `de52307`) negative -/
def initialDepth (repaired : Bool) (depth : Option Int) : Int :=
  match depth with
  | none => defaultDepth
  | some d => if d = 0 ∨ (repaired ∧ d < 0) then defaultDepth else d

/-- timing.py:102-128: resolve `options.availabilityStartTime`; `pub0` is
`now.replace(microsecond=0)` (timing.py:77).  Returns the instant and the UTC
offset of the resulting object. -/
def resolveStart (repaired : Bool) (now pub0 : Int) : Start → Int × Int
  | .epoch => (0, 0)
  | .today =>
    let ast := dayStart now
    if hourOf pub0 = 0 ∧ minuteOf pub0 = 0 then (ast - dayUs, 0) else (ast, 0)
  | .month =>
    let ast := monthStart now
    if pub0 - ast < dayUs then (ast - dayUs, 0) else (ast, 0)
  | .year =>
    let ast := yearStart now
    if pub0 - ast < dayUs then (ast - dayUs, 0) else (ast, 0)
  | .now => (pub0 - defaultDepth * usPerSec, 0)
  | .explicit t off => (if repaired then floorSec t else t, off)

/-- timing.py:138-141: a stream that starts exactly now is moved back one day -/
def backOff (ast0 now : Int) : Int × Int :=
  let e0 := now - ast0
  if e0 = 0 then (ast0 - dayUs, dayUs) else (ast0, e0)

/-- timing.py:142-143: a young stream cannot have a buffer deeper than its age -/
def clampDepth (e depth : Int) : Int :=
  if e < depth * usPerSec then Int.tdiv e usPerSec else depth

/-- timing.py:148-152: absent ⇒ default, `≤ 0` ⇒ disabled -/
def effectiveMup (repaired : Bool) (r : Ref) : Option Int → Option Int
  | none => some (defaultMup repaired r)
  | some m => if m ≤ 0 then none else some m

/-- timing.py:157-164: quantise `publishTime` to a whole number of update periods
after `availabilityStartTime`, then drop the microseconds -/
def publish (pub0 ast e : Int) : Option Int → Int
  | none => pub0
  | some p => floorSec (ast + e / (p * usPerSec) * p * usPerSec)

def calcWith (repaired : Bool) (now : Int) (ref : Ref) (o : Options) : LiveTiming :=
  let pub0 := floorSec now
  let depth0 := initialDepth repaired o.depth
  let rs := resolveStart repaired now pub0 o.start
  let be := backOff rs.1 now
  let ast := be.1
  let e := be.2
  let tsbd := clampDepth e depth0
  let mup := effectiveMup repaired ref o.mup
  { now := now
    availabilityStartTime := ast
    utcOffsetMin := rs.2
    elapsedTime := e
    timeShiftBufferDepth := tsbd
    firstAvailableTime := e - tsbd * usPerSec
    publishTime := publish pub0 ast e mup
    minimumUpdatePeriod := mup
    leeway := match o.leeway with
      | none => 0
      | some l => l * usPerSec }

/-- `DashTiming.calculate_live_params` as it is in the tree today -/
def calculateLiveParams (now : Int) (ref : Ref) (o : Options) : LiveTiming :=
  calcWith true now ref o

/-- `ManifestContext.check_stream_has_started` (manifest_context.py:210-219): a live manifest is
refused (`ManifestNotAvailable`, HTTP 404) when `timing.elapsedTime < datetime.timedelta(0)` – a comparison
of timedeltas, i.e. of exact microseconds, no rounding to seconds -/
def started (t : LiveTiming) : Bool := decide (0 ≤ t.elapsedTime)

/-- the timing of the manifest that is served, or `none` when the request is refused because the stream
has not started -/
def serveLive (now : Int) (ref : Ref) (o : Options) : Option LiveTiming :=
  if started (calculateLiveParams now ref o) then some (calculateLiveParams now ref o) else none

/-- what a manifest hands on to the next request (manifest_context.py:329-331 `create_period`): the
*resolved* availabilityStartTime and timeShiftBufferDepth are written back into the options, every
other option – in particular `minimumUpdatePeriod`, given or not, disabled or not – is kept as it was;
`generate_cgi_parameters` then spells this option vector into MPD/Location, MPD/PatchLocation and
the media URLs. -/
def handOn (t : LiveTiming) (o : Options) : Options :=
  { start := .explicit t.availabilityStartTime t.utcOffsetMin
    depth := some t.timeShiftBufferDepth
    mup := o.mup
    leeway := o.leeway }

/-- the document obtained at `now₂` by following a URL written into the manifest of `now₁` -/
def followed (now₁ now₂ : Int) (ref : Ref) (o : Options) : LiveTiming :=
  calculateLiveParams now₂ ref (handOn (calculateLiveParams now₁ ref o) o)

end DashLive.LiveTiming
