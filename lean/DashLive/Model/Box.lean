import DashLive.Model.Boxes.Header
import DashLive.Model.Boxes.Basic
import DashLive.Model.Boxes.Frag
import DashLive.Model.Boxes.Cenc
import DashLive.Model.Boxes.Index
import DashLive.Model.Boxes.Audio
/-!
Box trees of `dashlive/mpeg/mp4.py`.

* `Payload`/`kindOf` – the box registry (`fourcc.BOXES`, mp4.py:71-90): which
  four-character codes are pure containers (`BoxWithChildren`), which have a
  field codec in `Model/Boxes/*.lean`, and which are opaque to the model (all
  other registered classes and `UnknownBox`/`mdat`: payload kept as bytes).
* `Box`, `encBox`, `decBoxes` – `Mp4Atom.encode` (mp4.py:613-677) and
  `Mp4Atom.load` (mp4.py:373-518) with `Options(strict=True)`.
* `walkOk` – a payload-agnostic walker: sizes fit and children fill parents.
* `STree` – the tree with the *stored* `size`/`position` attributes of the Python
  objects, `append_child`/`insert_child`/`remove_child`/`update_size`
  (mp4.py:302-370) and the re-computation of both attributes by `encode`.
* `LBox` – `LazyLoadedBox` (mp4.py:775-889): the bytes of a box until touched.
-/
namespace DashLive.Boxes
open DashLive.Bytes

/-! ### registry -/
inductive Kind
  | container | ftyp | mfhd | tfhd | tfdt | trun | saiz | saio | senc | tenc | pssh | mehd | trex
  | sidx | emsg | dec3 | opaque
  deriving DecidableEq, Repr

def piffUuid : Bytes :=
  [0xa2, 0x39, 0x4f, 0x52, 0x5a, 0x9b, 0x4f, 0x14, 0xa2, 0x44, 0x6c, 0x42, 0x7c, 0x64, 0x8d, 0xf4]

def containerCodes : List Bytes :=
  [ascii "moov", ascii "trak", ascii "traf", ascii "moof", ascii "minf", ascii "mvex",
   ascii "mdia", ascii "schi", ascii "sinf", ascii "stbl", ascii "udta"]

def leafCodes : List (Bytes × Kind) :=
  [(ascii "ftyp", .ftyp), (ascii "styp", .ftyp), (ascii "mfhd", .mfhd), (ascii "tfhd", .tfhd),
   (ascii "tfdt", .tfdt), (ascii "trun", .trun), (ascii "saiz", .saiz), (ascii "saio", .saio),
   (ascii "senc", .senc), (ascii "tenc", .tenc), (ascii "pssh", .pssh), (ascii "mehd", .mehd),
   (ascii "trex", .trex), (ascii "sidx", .sidx), (ascii "emsg", .emsg), (ascii "dec3", .dec3)]

def kindOf : BoxType → Kind
  | .std cc => if containerCodes.contains cc then .container else (leafCodes.lookup cc).getD .opaque
  | .uuid id => if id = piffUuid then .senc else .opaque

inductive Payload
  | ftyp (x : Ftyp) | mfhd (x : Mfhd) | tfhd (x : Tfhd) | tfdt (x : Tfdt) | trun (x : Trun)
  | saiz (x : Saiz) | saio (x : Saio) | senc (x : Senc) | tenc (x : Tenc) | pssh (x : Pssh)
  | mehd (x : Mehd) | trex (x : Trex) | sidx (x : Sidx) | emsg (x : Emsg) | dec3 (x : Dec3)
  | opaque (data : Bytes)
  deriving DecidableEq, Repr

def encPayload : Payload → Bytes
  | .ftyp x => encFtyp x | .mfhd x => encMfhd x | .tfhd x => encTfhd x | .tfdt x => encTfdt x
  | .trun x => encTrun x | .saiz x => encSaiz x | .saio x => encSaio x | .senc x => encSenc x
  | .tenc x => encTenc x | .pssh x => encPssh x | .mehd x => encMehd x | .trex x => encTrex x
  | .sidx x => encSidx x | .emsg x => encEmsg x | .dec3 x => encDec3 x | .opaque d => d

/-- `Box.parse` of the class the registry selects (`none` for a container code) -/
def decPayload (ctx : SencCtx) (k : Kind) (bs : Bytes) : Option Payload :=
  match k with
  | .container => none
  | .ftyp => (decFtyp bs).map .ftyp
  | .mfhd => (decMfhd bs).map .mfhd
  | .tfhd => (decTfhd bs).map .tfhd
  | .tfdt => (decTfdt bs).map .tfdt
  | .trun => (decTrun bs).map .trun
  | .saiz => (decSaiz bs).map .saiz
  | .saio => (decSaio bs).map .saio
  | .senc => (decSenc ctx bs).map .senc
  | .tenc => (decTenc bs).map .tenc
  | .pssh => (decPssh bs).map .pssh
  | .mehd => (decMehd bs).map .mehd
  | .trex => (decTrex bs).map .trex
  | .sidx => (decSidx bs).map .sidx
  | .emsg => (decEmsg bs).map .emsg
  | .dec3 => (decDec3 bs).map .dec3
  | .opaque => some (.opaque bs)

/-- the payload is of the class `k` and its field values are legal -/
def PayloadWf (ctx : SencCtx) (k : Kind) (p : Payload) : Prop :=
  match k, p with
  | .ftyp, .ftyp x => x.Wf | .mfhd, .mfhd x => x.Wf | .tfhd, .tfhd x => x.Wf
  | .tfdt, .tfdt x => x.Wf | .trun, .trun x => x.Wf | .saiz, .saiz x => x.Wf
  | .saio, .saio x => x.Wf | .senc, .senc x => x.Wf ctx | .tenc, .tenc x => x.Wf
  | .pssh, .pssh x => x.Wf | .mehd, .mehd x => x.Wf | .trex, .trex x => x.Wf
  | .sidx, .sidx x => x.Wf | .emsg, .emsg x => x.Wf | .dec3, .dec3 x => x.Wf
  | .opaque, .opaque _ => True
  | _, _ => False

/-! ### trees -/
inductive Box where
  | leaf (t : BoxType) (large : Bool) (p : Payload)
  | node (t : BoxType) (large : Bool) (children : List Box)
  deriving Repr

mutual
/-- `Mp4Atom.encode`: header with the size written last, fields, children -/
def encBox : Box → Bytes
  | .leaf t l p => encHeader t l (hdrLen t l + (encPayload p).length) ++ encPayload p
  | .node t l cs => encHeader t l (hdrLen t l + (encBoxes cs).length) ++ encBoxes cs
def encBoxes : List Box → Bytes
  | [] => []
  | b :: bs => encBox b ++ encBoxes bs
end

mutual
/-- number of boxes in a tree (the fuel `decBoxes` needs) -/
def Box.count : Box → Nat
  | .leaf _ _ _ => 1
  | .node _ _ cs => 1 + countBoxes cs
def countBoxes : List Box → Nat
  | [] => 0
  | b :: bs => b.count + countBoxes bs
end

/-- `Mp4Atom.load` over the bytes of one container payload (or of the file):
header, payload of `size - header_size` bytes, children of containers
recursively, then the next sibling.  Strict: sizes must fit exactly.  `tail` =
bytes of the file behind `bs` (for `size == 0` headers). -/
def decBoxes (ctx : SencCtx) (tail : Nat) : Nat → Bytes → Option (List Box)
  | 0, bs => if bs.isEmpty then some [] else none
  | fuel+1, bs =>
    if bs.isEmpty then some [] else
    match decHeader tail bs with
    | none => none
    | some (h, afterHdr) =>
      if h.size < h.hdrSize ∨ bs.length < h.size then none else
      let payload := afterHdr.take (h.size - h.hdrSize)
      let rest := afterHdr.drop (h.size - h.hdrSize)
      let box : Option Box :=
        if kindOf h.typ = .container then
          (decBoxes ctx (rest.length + tail) fuel payload).map (Box.node h.typ h.large)
        else (decPayload ctx (kindOf h.typ) payload).map (Box.leaf h.typ h.large)
      match box, decBoxes ctx tail fuel rest with
      | some b, some tl => some (b :: tl)
      | _, _ => none

/-- parse a whole input -/
def decFile (ctx : SencCtx) (bs : Bytes) : Option (List Box) := decBoxes ctx 0 bs.length bs

mutual
def BoxWf (ctx : SencCtx) : Box → Prop
  | .leaf t l p => t.Wf ∧ kindOf t ≠ .container ∧ PayloadWf ctx (kindOf t) p ∧
      sizeOk l (hdrLen t l + (encPayload p).length)
  | .node t l cs => t.Wf ∧ kindOf t = .container ∧ BoxesWf ctx cs ∧
      sizeOk l (hdrLen t l + (encBoxes cs).length)
def BoxesWf (ctx : SencCtx) : List Box → Prop
  | [] => True
  | b :: bs => BoxWf ctx b ∧ BoxesWf ctx bs
end

/-! ### payload-agnostic walker -/
/-- every header's size fits in what is left, payloads of containers consist of
boxes that fill them exactly -/
def walkOkT (tail : Nat) : Nat → Bytes → Bool
  | 0, bs => bs.isEmpty
  | fuel+1, bs =>
    if bs.isEmpty then true else
    match decHeader tail bs with
    | none => false
    | some (h, afterHdr) =>
      if h.size < h.hdrSize ∨ bs.length < h.size then false else
      let payload := afterHdr.take (h.size - h.hdrSize)
      let rest := afterHdr.drop (h.size - h.hdrSize)
      (if kindOf h.typ = .container then walkOkT (rest.length + tail) fuel payload else true) &&
        walkOkT tail fuel rest

/-- the walker over a whole file -/
def walkOk (fuel : Nat) (bs : Bytes) : Bool := walkOkT 0 fuel bs

/-! ### trees with the stored `size` / `position` attributes -/
structure Meta where
  size : Nat
  position : Nat
  deriving DecidableEq, Repr

inductive STree where
  | leaf (t : BoxType) (large : Bool) (m : Meta) (p : Payload)
  | node (t : BoxType) (large : Bool) (m : Meta) (children : List STree)
  deriving Repr

def STree.meta : STree → Meta
  | .leaf _ _ m _ => m
  | .node _ _ m _ => m
def STree.size (t : STree) : Nat := t.meta.size

def STree.addSize (delta : Int) : STree → STree
  | .leaf t l m p => .leaf t l { m with size := (m.size + delta).toNat } p
  | .node t l m cs => .node t l { m with size := (m.size + delta).toNat } cs

mutual
def STree.erase : STree → Box
  | .leaf t l _ p => .leaf t l p
  | .node t l _ cs => .node t l (eraseAll cs)
def eraseAll : List STree → List Box
  | [] => []
  | c :: cs => c.erase :: eraseAll cs
end

def insertAt {α : Type} (l : List α) (i : Nat) (a : α) : List α := l.take i ++ a :: l.drop i

/-- an edit of the children list of one node, with the `delta` it hands to
`update_size` (`if child.size: self.update_size(±child.size)`) -/
inductive ChildEdit
  | append (child : STree)
  | insert (idx : Nat) (child : STree)      -- `list.insert`: an index past the end appends
  | remove (idx : Nat)
  deriving Repr

def ChildEdit.apply (cs : List STree) : ChildEdit → Option (List STree × Int)
  | .append c => some (cs ++ [c], (c.size : Int))
  | .insert i c => some (insertAt cs i c, (c.size : Int))
  | .remove i =>
    match cs[i]? with
    | some c => some (cs.eraseIdx i, -(c.size : Int))
    | none => none                            -- `IndexError`

inductive Edit
  | child (path : List Nat) (e : ChildEdit)
  | setTfdt (path : List Nat) (v : Nat)       -- `tfdt.base_media_decode_time = v`
  | setPayload (path : List Nat) (p : Payload) -- any other field assignment (no `update_size`)
  deriving Repr

/-- apply `f` to the node reached by `path`; `f` returns the new node and the
`delta` of `update_size`, which is added to the stored size of every ancestor
(`self.size += delta; self.parent.update_size(delta)`, mp4.py:362-366) -/
def STree.editAt (f : STree → Option (STree × Int)) : List Nat → STree → Option (STree × Int)
  | [], t => f t
  | i :: path, .node t l m cs =>
    match cs[i]? with
    | none => none
    | some c =>
      match STree.editAt f path c with
      | none => none
      | some (c', delta) =>
        some (.node t l { m with size := (m.size + delta).toNat } (cs.set i c'), delta)
  | _ :: _, .leaf _ _ _ _ => none

def Edit.apply (root : STree) : Edit → Option STree
  | .child path e =>
    (root.editAt (fun n => match n with
      | .node t l m cs =>
        match e.apply cs with
        | some (cs', delta) => some (.node t l { m with size := (m.size + delta).toNat } cs', delta)
        | none => none
      | .leaf _ _ _ _ => none) path).map (·.1)
  | .setTfdt path v =>
    (root.editAt (fun n => match n with
      | .leaf t l m (.tfdt x) =>
        let (x', delta) := tfdtAssign x v
        some (.leaf t l { m with size := m.size + delta } (.tfdt x'), (delta : Int))
      | _ => none) path).map (·.1)
  | .setPayload path p =>
    (root.editAt (fun n => match n with
      | .leaf t l m _ => some (.leaf t l m p, 0)
      | .node _ _ _ _ => none) path).map (·.1)

/-- a failing edit (bad path/index: a Python exception) leaves the tree as it was -/
def applyEdits (root : STree) : List Edit → STree
  | [] => root
  | e :: es => applyEdits ((e.apply root).getD root) es

mutual
/-- `encode` at output offset `pos`: the bytes, and the tree with `position` and
`size` re-computed (`self.position = out.tell()` … `self.size = out.tell() - self.position`) -/
def STree.encodeAt (pos : Nat) : STree → Bytes × STree
  | .leaf t l _ p =>
    let bytes := encBox (.leaf t l p)
    (bytes, .leaf t l { size := bytes.length, position := pos } p)
  | .node t l _ cs =>
    let (body, cs') := encodeAllAt (pos + hdrLen t l) cs
    let size := hdrLen t l + body.length
    (encHeader t l size ++ body, .node t l { size := size, position := pos } cs')
def encodeAllAt (pos : Nat) : List STree → Bytes × List STree
  | [] => ([], [])
  | c :: cs =>
    let (b, c') := c.encodeAt pos
    let (bs, cs') := encodeAllAt (pos + b.length) cs
    (b ++ bs, c' :: cs')
end

mutual
/-- the stored attributes agree with the bytes: `size` is the encoded length of
the box, `position` its offset, children follow each other from the end of the header -/
def STree.MetaOk (pos : Nat) : STree → Prop
  | .leaf t l m p => m.position = pos ∧ m.size = (encBox (.leaf t l p)).length
  | .node t l m cs => m.position = pos ∧ m.size = (encBox (.node t l (eraseAll cs))).length ∧
      MetaAllOk (pos + hdrLen t l) cs
def MetaAllOk (pos : Nat) : List STree → Prop
  | [] => True
  | c :: cs => c.MetaOk pos ∧ MetaAllOk (pos + (encBox c.erase).length) cs
end

mutual
/-- the stored `size` attributes alone are consistent (what `update_size` maintains) -/
def STree.SizeOk : STree → Prop
  | .leaf t l m p => m.size = (encBox (.leaf t l p)).length
  | .node t l m cs => m.size = (encBox (.node t l (eraseAll cs))).length ∧ SizeAllOk cs
def SizeAllOk : List STree → Prop
  | [] => True
  | c :: cs => c.SizeOk ∧ SizeAllOk cs
end

/-! ### lazily loaded boxes -/
inductive LBox where
  | raw (bytes : Bytes)                 -- `LazyLoadedBox`: `_buffer`, header included
  | leaf (t : BoxType) (large : Bool) (p : Payload)
  | node (t : BoxType) (large : Bool) (children : List LBox)
  deriving Repr

mutual
/-- `LazyLoadedBox.encode` writes `_buffer`; loaded boxes encode as usual -/
def encL : LBox → Bytes
  | .raw b => b
  | .leaf t l p => encBox (.leaf t l p)
  | .node t l cs => encHeader t l (hdrLen t l + (encLs cs).length) ++ encLs cs
def encLs : List LBox → Bytes
  | [] => []
  | c :: cs => encL c ++ encLs cs
end

mutual
/-- `lazy_load()` everywhere: the eager tree a lazy tree stands for -/
def force (ctx : SencCtx) : LBox → Option Box
  | .raw b =>
    match decFile ctx b with
    | some [x] => some x
    | _ => none
  | .leaf t l p => some (.leaf t l p)
  | .node t l cs => (forceAll ctx cs).map (Box.node t l)
def forceAll (ctx : SencCtx) : List LBox → Option (List Box)
  | [] => some []
  | c :: cs =>
    match force ctx c, forceAll ctx cs with
    | some x, some xs => some (x :: xs)
    | _, _ => none
end

mutual
/-- `lt` is a lazily loaded form of the eager tree: any sub-tree may still be
the bytes it was read from -/
inductive Lazy : LBox → Box → Prop
  | raw (x : Box) : Lazy (.raw (encBox x)) x
  | leaf (t : BoxType) (l : Bool) (p : Payload) : Lazy (.leaf t l p) (.leaf t l p)
  | node (t : BoxType) (l : Bool) (cs : List LBox) (xs : List Box) :
      LazyAll cs xs → Lazy (.node t l cs) (.node t l xs)
inductive LazyAll : List LBox → List Box → Prop
  | nil : LazyAll [] []
  | cons (c : LBox) (x : Box) (cs : List LBox) (xs : List Box) :
      Lazy c x → LazyAll cs xs → LazyAll (c :: cs) (x :: xs)
end

end DashLive.Boxes
