/-!
# Model of the DASH option layer (C07; the registry table is reused by C16)

Anchors (all in `/repo`, after the `fix:` commits b9109f8, 53894cd, fd006ec):

* `dashlive/server/options/dash_option.py:176-236`  – the static codec functions
* `dashlive/server/options/manifest_options.py:45-62` – `ast_from_string` / `ast_to_string`
* `dashlive/server/options/drm_options.py:73-112` – `_drm_selection_from_string` / `_to_string`
* `dashlive/server/options/http_error.py:27-54` – `_errors_from_string` / `_errors_to_string`
* `dashlive/server/events/base.py:50-70,80-112` – `int_or_default`, `positive_int_or_default`, `default_to_string`
* `dashlive/server/options/container.py:103-187` – `_convert_sub_options`, `_generate_parameters_dict`
* `dashlive/server/options/repository.py:161-244` – `get_default_options`, `convert_options`
* `dashlive/utils/objects.py:146-165` – `dict_to_cgi_params`
* `dashlive/server/requesthandler/manifest_context.py:486-600` – `calculate_cgi_parameters`
* Werkzeug `Request.args` = `urllib.parse.parse_qsl(query, keep_blank_values=True)` into a `MultiDict`

Text is modelled as `List UInt8` = the UTF-8 bytes of the Python `str` (all
operations of the option layer are ASCII-level: `split(',')`, `lower()` compared
with ASCII literals, `int(…, 10)`, percent escapes).  Date-time text is *not*
modelled here: the pair `from_isodatetime` / `to_iso_datetime` is a parameter
(`DTCodec`), its round-trip law is C19's theorem and appears in C07 as the named
hypothesis `DtTextRoundTrip`.
-/
namespace DashLive.Options

abbrev Bytes := List UInt8

/-- ASCII bytes of a registry string (names, defaults and choices are ASCII;
the generator refuses anything else) -/
def ascii (s : String) : Bytes := s.toList.map (fun c => UInt8.ofNat c.toNat)

/-! ## character classes and small text functions -/

def isDigit (b : UInt8) : Bool := 48 ≤ b && b ≤ 57
def isUpper (b : UInt8) : Bool := 65 ≤ b && b ≤ 90
def isLower (b : UInt8) : Bool := 97 ≤ b && b ≤ 122

def lowerB (b : UInt8) : UInt8 := if isUpper b then b + 32 else b

/-- `str.lower()` on ASCII letters (bytes ≥ 0x80 are left alone) -/
def lower (s : Bytes) : Bytes := s.map lowerB

/-- `Py_ISSPACE`: what `int()`/`float()` strip from ASCII text (`\x1c`–`\x1f`
are *not* stripped: `int('5\x1f', 10)` is a ValueError) -/
def isWs (b : UInt8) : Bool := b == 32 || (9 ≤ b && b ≤ 13)

def strip (s : Bytes) : Bytes := ((s.dropWhile isWs).reverse.dropWhile isWs).reverse

/-- `s.split(sep)` for a one-byte separator (never returns `[]`) -/
def splitOn (sep : UInt8) : Bytes → List Bytes
  | [] => [[]]
  | b :: rest =>
    if b = sep then [] :: splitOn sep rest
    else match splitOn sep rest with
      | [] => [[b]]
      | p :: ps => (b :: p) :: ps

/-- `sep.join(parts)` for a one-byte separator -/
def joinWith (sep : UInt8) : List Bytes → Bytes
  | [] => []
  | [p] => p
  | p :: q :: r => p ++ sep :: joinWith sep (q :: r)

/-- `s.split(sep, 1)`: text before the first `sep`, and the rest if there is one -/
def splitFirst (sep : UInt8) : Bytes → Bytes × Option Bytes
  | [] => ([], none)
  | b :: rest =>
    if b = sep then ([], some rest)
    else let (k, v) := splitFirst sep rest; (b :: k, v)

def startsWith (p : Bytes) (s : Bytes) : Bool := s.take p.length == p

/-! ## decimal numbers -/

def digitB (d : Nat) : UInt8 := UInt8.ofNat (48 + d)

/-- `str(n)` for a natural number -/
def natDec (n : Nat) : Bytes :=
  if n < 10 then [digitB n] else natDec (n / 10) ++ [digitB (n % 10)]
decreasing_by omega

/-- `str(z)` for a Python int -/
def intDec (z : Int) : Bytes := if z < 0 then 45 :: natDec z.natAbs else natDec z.toNat

def digitVal (b : UInt8) : Nat := b.toNat - 48

/-- value of a run of ASCII digits (accumulator version) -/
def digitsVal (acc : Nat) : Bytes → Option Nat
  | [] => some acc
  | b :: r => if isDigit b then digitsVal (acc * 10 + digitVal b) r else none

/-- digits of `int(text, 10)` after sign removal: ASCII digits with single
underscores allowed between digits (`prev` = the previous byte was a digit) -/
def pyDigitsAux (acc : Nat) (prev : Bool) : Bytes → Option Nat
  | [] => if prev then some acc else none
  | b :: r =>
    if isDigit b then pyDigitsAux (acc * 10 + digitVal b) true r
    else if b = 95 ∧ prev = true then pyDigitsAux acc false r
    else none

def pyDigits (s : Bytes) : Option Nat := pyDigitsAux 0 false s

/-- `int(text, 10)`; `none` = ValueError.  ASCII whitespace is stripped, one
sign accepted.  (Non-ASCII digits/whitespace are outside the model.) -/
def pyInt (s : Bytes) : Option Int :=
  match strip s with
  | [] => none
  | b :: r =>
    if b = 45 then (pyDigits r).map (fun n => - Int.ofNat n)
    else if b = 43 then (pyDigits r).map Int.ofNat
    else (pyDigits (b :: r)).map Int.ofNat

/-- `str(x)` of a float that is a non-negative multiple of 0.1 below 10¹⁵,
given as its number of tenths (`20` ↦ `2.0`) -/
def tenthsDec (t : Nat) : Bytes := natDec (t / 10) ++ 46 :: [digitB (t % 10)]

def digitsNE (s : Bytes) : Option Nat := if s = [] then none else digitsVal 0 s

/-- `float(text)` on the plain grammar `D+` | `D+.D` (tenths); everything else
is `none` (= ValueError in the model; exponents, `inf`, `nan`, more fraction
digits are outside the modelled value domain) -/
def pyTenths (s : Bytes) : Option Nat :=
  match splitOn 46 (strip s) with
  | [i] => (digitsNE i).map (· * 10)
  | [i, [d]] => if isDigit d then (digitsNE i).map (fun n => n * 10 + digitVal d) else none
  | _ => none

/-! ## URL escaping (`urllib.parse.quote_plus` / `unquote_plus`) -/

def hexU (n : Nat) : UInt8 := if n < 10 then UInt8.ofNat (48 + n) else UInt8.ofNat (55 + n)

def unhex (b : UInt8) : Option Nat :=
  if isDigit b then some (b.toNat - 48)
  else if 65 ≤ b && b ≤ 70 then some (b.toNat - 55)
  else if 97 ≤ b && b ≤ 102 then some (b.toNat - 87)
  else none

/-- characters `urllib.parse.quote` never escapes -/
def isUnreserved (b : UInt8) : Bool :=
  isDigit b || isUpper b || isLower b || b == 95 || b == 46 || b == 45 || b == 126

def quoteByte (safe : UInt8 → Bool) (b : UInt8) : Bytes :=
  if isUnreserved b || safe b then [b]
  else if b = 32 then [43]
  else [37, hexU (b.toNat / 16), hexU (b.toNat % 16)]

/-- `urllib.parse.quote_plus(text, safe=…)` on the UTF-8 bytes -/
def quotePlus (safe : UInt8 → Bool) : Bytes → Bytes
  | [] => []
  | b :: r => quoteByte safe b ++ quotePlus safe r

/-- `urllib.parse.unquote_plus(text)`: `+` → space, `%XX` → byte, a `%` not
followed by two hex digits stays -/
def unquotePlus : Bytes → Bytes
  | [] => []
  | b :: r =>
    if b = 43 then 32 :: unquotePlus r
    else if b = 37 then
      match r with
      | h :: l :: r' =>
        match unhex h, unhex l with
        | some x, some y => UInt8.ofNat (x * 16 + y) :: unquotePlus r'
        | _, _ => 37 :: unquotePlus (h :: l :: r')
      | [h] => 37 :: unquotePlus [h]
      | [] => [37]
    else b :: unquotePlus r
termination_by l => l.length

/-- `safe=''` (licence URL codec, dash_option.py:233-236) -/
def safeNone : UInt8 → Bool := fun _ => false
/-- `safe=':,'` (dict_to_cgi_params, objects.py:160) -/
def safeQuery : UInt8 → Bool := fun b => b == 58 || b == 44

/-! ## values, kinds, errors -/

/-- a set of `DrmLocation`s (`cenc`, `moov`, `pro`) -/
structure LocSet where
  cenc : Bool
  moov : Bool
  pro : Bool
deriving DecidableEq, Repr

def LocSet.all : LocSet := ⟨true, true, true⟩
def LocSet.empty : LocSet := ⟨false, false, false⟩

/-- position of an injected error: a segment number, a time, or nothing
(`from_isodatetime('')` is `None`) -/
inductive Pos (DT : Type) where
  | num (z : Int)
  | at (d : DT)
  | nothing
deriving DecidableEq, Repr

inductive Val (DT : Type) where
  | none
  | bool (b : Bool)
  | int (z : Int)
  | tenths (t : Nat)
  | str (s : Bytes)
  | list (l : List Bytes)
  | drm (l : List (Bytes × LocSet))
  | dt (d : DT)
  | errs (l : List (Int × Pos DT))
deriving DecidableEq, Repr

/-- exception classes a `from_string` can raise -/
inductive Err where
  | valueError
  | keyError
deriving DecidableEq, Repr

/-- which (`from_string`, `to_string`) pair an option is registered with;
assigned by `harness/gen_options.py` from the identity of the callables -/
inductive Kind where
  | bool              -- bool_from_string / bool_to_string
  | intOrNone         -- int_or_none_from_string / flatten
  | floatOrNone       -- float_or_none_from_string / flatten
  | strOrNone         -- string_or_none / flatten
  | strRaw            -- default_to_string / default_to_string (events/base.py)
  | listJoin          -- list_without_none_from_string / lambda: ','.join
  | drmSelection      -- _drm_selection_from_string / _drm_selection_to_string
  | quotedUrl         -- unquoted_url_or_none_from_string / quoted_url_or_none_to_string
  | astDateTime       -- ast_from_string / ast_to_string
  | dtOrNone          -- datetime_or_none_from_string / datetime_or_none_to_string
  | errorList         -- _errors_from_string / _errors_to_string
  | intOrDefault (k : Int)      -- int_or_default(k) / default_to_string
  | posIntOrDefault (k : Int)   -- positive_int_or_default(k) / default_to_string
deriving DecidableEq, Repr

/-- the ISO-8601 date-time text codec (`from_isodatetime` restricted to
non-empty text / `to_iso_datetime`); `parse = none` is a ValueError -/
structure DTCodec (DT : Type) where
  parse : Bytes → Option DT
  render : DT → Bytes
  /-- what `check_option_values` (requesthandler/base.py:137-152) does with a date-time given as
  availabilityStartTime: `none` = ValueError (a time of day, a UTC offset of 24 h or more),
  `some d'` = accepted, `d'` being `d` made aware (a text without zone is taken as UTC).
  Carriers without naive values (C19's `AwareDT`) use the default. -/
  check : DT → Option DT := some
  /-- `pos.utcoffset()` of an injected-error position that is a date-time or time (base.py, fix
  823dec5): `false` = ValueError (a UTC offset of 24 h or more).  Carriers whose values all have a
  printable offset use the default. -/
  offsetOk : DT → Bool := fun _ => true

/-- C19's law, used here as a named hypothesis -/
def DtTextRoundTrip {DT : Type} (C : DTCodec DT) : Prop := ∀ d, C.parse (C.render d) = some d

section codecs
variable {DT : Type} (C : DTCodec DT)

def tNone : Bytes := ascii "none"

/-- `value.lower() in ['', 'none']` -/
def isNoneCI (s : Bytes) : Bool := lower s == [] || lower s == tNone
/-- `value in {None, '', 'none'}` -/
def isNoneCS (s : Bytes) : Bool := s == [] || s == tNone

def specialAst : List Bytes := [ascii "now", ascii "today", ascii "month", ascii "year", ascii "epoch"]

/-- `from_isodatetime(text)` as used by the option layer: `''` ↦ None -/
def parseDT (s : Bytes) : Except Err (Option DT) :=
  if s = [] then .ok none
  else match C.parse s with
    | some d => .ok (some d)
    | none => .error .valueError

def intOrNone (s : Bytes) : Except Err (Option Int) :=
  if isNoneCS s then .ok none
  else match pyInt s with
    | some z => .ok (some z)
    | none => .error .valueError

def locNames : List (Bytes × LocSet) :=
  [(ascii "cenc", ⟨true, false, false⟩), (ascii "moov", ⟨false, true, false⟩),
   (ascii "pro", ⟨false, false, true⟩)]

def LocSet.union (a b : LocSet) : LocSet := ⟨a.cenc || b.cenc, a.moov || b.moov, a.pro || b.pro⟩

/-- `{DrmLocation(loc) for loc in names}`; an unknown name raises `e` -/
def locSetOf (e : Err) : List Bytes → Except Err LocSet
  | [] => .ok LocSet.empty
  | n :: r =>
    match locNames.lookup n with
    | none => .error e
    | some l => (locSetOf e r).map (LocSet.union l)

def drmNames : List Bytes := [ascii "clearkey", ascii "marlin", ascii "playready"]

/-- one comma separated item of a DRM selection (drm_options.py:86-95) -/
def drmItem (item : Bytes) : Except Err (Bytes × LocSet) :=
  if item.contains 45 then
    match splitOn 45 item with
    | [] => .ok ([], LocSet.all)
    | d :: locs => (locSetOf .valueError locs).map (d, ·)   -- DrmLocation(loc) → ValueError
  else .ok (item, LocSet.all)

/-- drm_options.py:73-96 -/
def drmFromString (s : Bytes) : Except Err (List (Bytes × LocSet)) :=
  let v := lower s
  if startsWith tNone v || v == [] then .ok []
  else if startsWith (ascii "all") v then
    if v.contains 45 then
      -- DrmLocation.from_string(loc): cls[name.upper()] → KeyError
      (locSetOf .keyError ((splitOn 45 v).drop 1)).map (fun l => drmNames.map (·, l))
    else .ok (drmNames.map (·, LocSet.all))
  else (splitOn 44 v).mapM drmItem

def LocSet.names (l : LocSet) : List Bytes :=
  (if l.cenc then [ascii "cenc"] else []) ++ (if l.moov then [ascii "moov"] else []) ++
  (if l.pro then [ascii "pro"] else [])

def drmItemText (e : Bytes × LocSet) : Bytes :=
  if e.2 = LocSet.all then e.1 else joinWith 45 (e.1 :: e.2.names)

/-- `set(result) == ALL_DRM_NAMES` -/
def isAllDrm (texts : List Bytes) : Bool :=
  texts.all (drmNames.contains ·) && drmNames.all (texts.contains ·)

/-- drm_options.py:99-109 -/
def drmToString (v : List (Bytes × LocSet)) : Bytes :=
  let texts := v.map drmItemText
  if isAllDrm texts then ascii "all" else joinWith 44 texts

/-- one `code=pos` item of http_error.py:20-26 -/
def errItem (item : Bytes) : Except Err (Int × Pos DT) :=
  match splitOn 61 item with
  | [code, pos] =>
    match pyInt pos with
    | some p =>
      (match pyInt code with | some c => .ok (c, .num p) | none => .error .valueError)
    | none =>
      match parseDT C pos with
      | .error e => .error e
      | .ok od =>
        match pyInt code with
        | some c => .ok (c, match od with | some d => .at d | none => .nothing)
        | none => .error .valueError
  | _ => .error .valueError     -- tuple unpacking of split('=')

/-- the registered `from_string` of each kind -/
def fromString (k : Kind) (s : Bytes) : Except Err (Val DT) :=
  match k with
  | .bool => .ok (.bool (lower s == ascii "true" || lower s == ascii "1" || lower s == ascii "on"))
  | .intOrNone => (intOrNone s).map (fun o => match o with | some z => .int z | none => .none)
  | .floatOrNone =>
    if isNoneCS s then .ok .none
    else match pyTenths s with
      | some t => .ok (.tenths t)
      | none => .error .valueError
  | .strOrNone => .ok (if isNoneCI s then .none else .str s)
  | .strRaw => .ok (.str s)
  | .listJoin =>
    .ok (.list (if isNoneCI s then [] else (splitOn 44 s).filter (fun i => !isNoneCI i)))
  | .drmSelection => (drmFromString s).map .drm
  | .quotedUrl => .ok (if isNoneCI s then .none else .str (unquotePlus s))
  | .astDateTime =>
    if specialAst.contains s then .ok (.str s)
    else (parseDT C s).map (fun o => match o with | some d => .dt d | none => .none)
  | .dtOrNone =>
    if isNoneCS s then .ok .none
    else (parseDT C s).map (fun o => match o with | some d => .dt d | none => .none)
  | .errorList =>
    if isNoneCI s then .ok (.errs [])
    else ((splitOn 44 s).mapM (errItem C)).map .errs
  | .intOrDefault d => (intOrNone s).map (fun o => .int (o.getD d))
  | .posIntOrDefault d =>
    match intOrNone s with
    | .error e => .error e
    | .ok none => .ok (.int d)
    | .ok (some z) => if z < 1 then .error .valueError else .ok (.int z)

def posText : Pos DT → Bytes
  | .num z => intDec z
  | .at d => C.render d
  | .nothing => []

/-- `_errors_to_string` (http_error.py:41-54) -/
def errText (l : List (Int × Pos DT)) : Bytes :=
  joinWith 44 (l.map fun e => intDec e.1 ++ 61 :: posText C e.2)

/-- `str(opt.to_string(value))`, `none` = Python `None` (dict_to_cgi_params
writes it as an empty parameter).  Ill-typed combinations give `none`; they do
not occur (every value in an `OptionsContainer` comes out of the option's own
`from_string`). -/
def toText (k : Kind) (v : Val DT) : Option Bytes :=
  match k, v with
  | .bool, .bool b => some (if b then [49] else [48])
  | .bool, .none => some [48]
  | .intOrNone, .int z => some (intDec z)
  | .floatOrNone, .tenths t => some (tenthsDec t)
  | .strOrNone, .str s => some s
  | .strRaw, .str s => some s
  | .strRaw, .int z => some (intDec z)
  | .listJoin, .list l => some (joinWith 44 l)
  | .drmSelection, .drm l => some (drmToString l)
  | .quotedUrl, .str s => some (quotePlus safeNone s)
  | .astDateTime, .str s => some s
  | .astDateTime, .none => some []
  | .astDateTime, .dt d => some (C.render d)
  | .dtOrNone, .dt d => some (C.render d)
  | .errorList, .errs l => some (errText C l)
  | .intOrDefault _, .int z => some (intDec z)
  | .posIntOrDefault _, .int z => some (intDec z)
  | _, _ => none

/-- the text of a parameter as `dict_to_cgi_params` sees it (objects.py:157-159) -/
def cgiText (t : Option Bytes) : Bytes := t.getD []

end codecs

/-! ## the registry table -/

/-- one registered `DashOption` (emitted by `harness/gen_options.py`) -/
structure OptionRow where
  /-- `cgi_name` -/
  cgi : String
  /-- `short_name` -/
  short : String
  /-- `prefix` (`""` for top-level options) -/
  pfx : String
  /-- `full_name` -/
  full : String
  /-- `OptionUsage` mask: MANIFEST=1 VIDEO=2 AUDIO=4 TEXT=8 TIME=16 HTML=32 -/
  usage : Nat
  kind : Kind
  /-- the text `get_default_options` feeds to `from_string` (repository.py:169-178) -/
  dflt : String
  /-- `cgi_choices` values (`none` = a Python `None` entry); outer `none` = no choices -/
  choices : Option (List (Option String))
deriving Repr

def uManifest : Nat := 1
def uVideo : Nat := 2
def uAudio : Nat := 4
def uText : Nat := 8
def uTime : Nat := 16
def uHtml : Nat := 32

/-- key of the option inside an `OptionsContainer` (container.py:117, :169) -/
def OptionRow.fieldName (r : OptionRow) : String :=
  if r.pfx = "" then r.full else r.pfx ++ "." ++ r.full

section container
variable {DT : Type} [DecidableEq DT] (C : DTCodec DT)

/-- the options of one request: value of the field of table row `i`, `none` if
the field has been removed (`remove_unused_parameters`) -/
abbrev Opts (DT : Type) := Nat → Option (Val DT)

/-- global default of a row (repository.py:161-188) -/
def defaultVal (r : OptionRow) : Except Err (Val DT) := fromString C r.kind (ascii r.dflt)

/-- `use is not None and (opt.usage & use) == 0` -/
def useMiss (use : Option Nat) (usage : Nat) : Bool :=
  match use with
  | some u => usage &&& u == 0
  | none => false

/-- one iteration of `_generate_parameters_dict` / `_convert_sub_options`
(container.py:117-127, :169-183) -/
def emit (use : Option Nat) (exclude : List String) (removeDefaults : Bool)
    (dflt : Opts DT) (o : Opts DT) (r : OptionRow) (i : Nat) : Option (String × Option Bytes) :=
  match o i with
  | none => none
  | some v =>
    if exclude.contains r.fieldName then none
    else if removeDefaults && dflt i == some v then none
    else if useMiss use r.usage then none
    else some (r.cgi, toText C r.kind v)

def genFrom (use : Option Nat) (exclude : List String) (removeDefaults : Bool)
    (dflt : Opts DT) (o : Opts DT) (i : Nat) : List OptionRow → List (String × Option Bytes)
  | [] => []
  | r :: rs =>
    (match emit C use exclude removeDefaults dflt o r i with
      | some p => [p]
      | none => []) ++ genFrom use exclude removeDefaults dflt o (i + 1) rs

/-- `OptionsContainer.generate_cgi_parameters` (container.py:129-187): the
dictionary as an association list in table order -/
def genParams (tbl : List OptionRow) (use : Option Nat) (exclude : List String)
    (removeDefaults : Bool) (dflt : Opts DT) (o : Opts DT) : List (String × Option Bytes) :=
  genFrom C use exclude removeDefaults dflt o 0 tbl

/-- `params[key] = text` on the association list (manifest_context.py:512,
:522, :532, :543: `vid_cgi_params['verr'] = times` …) -/
def setParam (ps : List (String × Option Bytes)) (k : String) (t : Bytes) :
    List (String × Option Bytes) :=
  ps.filter (fun p => p.1 != k) ++ [(k, some t)]

def applyOverrides (ps : List (String × Option Bytes)) :
    List (String × Bytes) → List (String × Option Bytes)
  | [] => ps
  | (k, t) :: r => applyOverrides (setParam ps k t) r

/-- text `calculate_injected_error_segments` returns (manifest_context.py:590-598)
for already translated entries: `code=segment` or `segment` joined by `,` -/
def injectText (segs : List (Option Int × Int)) : Bytes :=
  joinWith 44 (segs.map fun e =>
    match e.1 with
    | some c => intDec c ++ 61 :: intDec e.2
    | none => intDec e.2)

/-! ## query strings -/

def keyLe (a b : String × Option Bytes) : Bool := decide (a.1 ≤ b.1)

def renderPair (p : String × Option Bytes) : Bytes :=
  ascii p.1 ++ 61 :: quotePlus safeQuery (cgiText p.2)

/-- `dict_to_cgi_params` (objects.py:146-165), including the leading `?` -/
def renderQuery (ps : List (String × Option Bytes)) : Bytes :=
  if ps.isEmpty then [] else 63 :: joinWith 38 ((ps.mergeSort keyLe).map renderPair)

/-- `urllib.parse.parse_qsl(query, keep_blank_values=True)` (query without `?`) -/
def parseQsl (q : Bytes) : List (Bytes × Bytes) :=
  (splitOn 38 q).filterMap fun nv =>
    if nv = [] then none
    else
      let kv := splitFirst 61 nv
      some (unquotePlus kv.1, unquotePlus (kv.2.getD []))

/-- `MultiDict.items()`: the first value of every key -/
def firstOnly : List (Bytes × Bytes) → List (Bytes × Bytes)
  | [] => []
  | p :: r => p :: (firstOnly r).filter (fun q => q.1 != p.1)

/-- the query of a URL as the server sees it: text after the first `?`, up to a `#` -/
def queryOf (url : Bytes) : Bytes :=
  ((splitFirst 63 (splitFirst 35 url).1).2).getD []

/-- `OptionsRepository.get_cgi_map()[key]` -/
def findRow (tbl : List OptionRow) (key : Bytes) : Option Nat :=
  tbl.findIdx? (fun r => ascii r.cgi == key)

def setField (o : Nat → Val DT) (i : Nat) (v : Val DT) : Nat → Val DT :=
  fun j => if j = i then v else o j

/-- one iteration of the loop of `convert_options` (repository.py:223-243) -/
def convertStep (tbl : List OptionRow) (acc : Nat → Val DT) (kv : Bytes × Bytes) :
    Except Err (Nat → Val DT) :=
  match findRow tbl kv.1 with
  | none => .ok acc                       -- unknown parameter: KeyError, logged, skipped
  | some i =>
    match tbl[i]? with
    | none => .ok acc
    | some r =>
      match fromString C r.kind kv.2 with
      | .ok v => .ok (setField acc i v)
      | .error .keyError => .ok acc       -- a KeyError inside from_string is swallowed too
      | .error e => .error e

/-- `OptionsRepository.convert_cgi_options(args, defaults)`: every field starts
at its default (`defaults.clone`) -/
def convertOptions (tbl : List OptionRow) (dflt : Nat → Val DT) :
    List (Bytes × Bytes) → Except Err (Nat → Val DT)
  | [] => .ok dflt
  | kv :: r =>
    match convertStep C tbl dflt kv with
    | .error e => .error e
    | .ok acc => convertOptions tbl acc r

/-- the media handler: `calculate_options(mode, flask.request.args, stream)`
(requesthandler/base.py:84-116) applied to a media URL.  Not modelled: the
value validation `check_option_values` that runs after parsing on the manifest
*and* the media side (it rejects unusable values with a ValueError → 400, and
replaces an empty `start` by the default; it never changes any other value),
`remove_unsupported_features` (manifest side only) and the `mode` field taken
from the URL path – all three are covered by the `opt_e2e` correspondence. -/
def mediaOptions (tbl : List OptionRow) (dflt : Nat → Val DT) (url : Bytes) :
    Except Err (Nat → Val DT) :=
  convertOptions C tbl dflt (firstOnly (parseQsl (queryOf url)))

/-- the query string `calculate_cgi_parameters` + `append_cgi_params` put on
the init/media URLs of media type `use` (manifest_context.py:493-545,
adaptation_set.py:143-149) -/
def mediaQuery (tbl : List OptionRow) (use : Nat) (dflt : Opts DT) (o : Opts DT)
    (overrides : List (String × Bytes)) : Bytes :=
  renderQuery (applyOverrides (genParams C tbl (some use) ["encrypted", "mode"] true dflt o) overrides)

end container

/-! ## what a manifest template and the request handlers do to the options before URLs are built

Anchors: `dashlive/server/requesthandler/base.py:91-190` (`calculate_options`,
`check_option_values`), `dashlive/server/options/container.py:218-262`
(`remove_unsupported_features`, `remove_unused_parameters`),
`dashlive/server/requesthandler/manifest_requests.py:132-153` (`ServeManifest.get`),
`dashlive/server/manifests.py` (`manifest_map`, generated into `Gen/Manifests.lean`),
`dashlive/server/requesthandler/manifest_context.py:288-291` (timing written back). -/

/-- allowed values of a restricted parameter: a set of strings, or a single `str`
(`'acodec': 'mp4a'`), on which Python's `in` is a substring test and `len` counts characters -/
inductive Allowed where
  | set (l : List String)
  | text (s : String)
deriving Repr

/-- one entry of `manifest_map` (emitted by `harness/gen_manifests.py`) -/
structure ManifestRow where
  /-- key of `manifest_map` (`hand_made.mpd`) -/
  key : String
  name : String
  /-- `DashManifest.features`, sorted -/
  features : List String
  /-- `DashManifest.restrictions`: cgi name → allowed values -/
  restrictions : List (String × Allowed)
  segmentTimeline : Bool
deriving Repr

/-- literal name sets and limits of the filters (emitted by `harness/gen_manifests.py`) -/
structure FilterConsts where
  featureControlled : List String
  liveOnly : List String
  drmUnused : List String
  maxTimeSpan : Nat
  /-- `MAX_TIME_SHIFT_BUFFER_DEPTH` (fix bba0bb1) -/
  maxDepth : Nat
  maxEventCount : Nat
  eventTypes : List String
deriving Repr

/-- Python `p in s` on two `str` -/
def isInfix (p : Bytes) : Bytes → Bool
  | [] => p.isEmpty
  | b :: r => startsWith p (b :: r) || isInfix p r

def Allowed.has (a : Allowed) (v : Bytes) : Bool :=
  match a with
  | .set l => l.any (fun x => ascii x == v)
  | .text s => isInfix v (ascii s)

def Allowed.len : Allowed → Nat
  | .set l => l.length
  | .text s => s.length

/-- `list(allowed_values)[0]` when `len(allowed_values) == 1` -/
def Allowed.first : Allowed → Bytes
  | .set l => ascii (l.headD "")
  | .text s => (ascii s).take 1

def setArg (args : List (Bytes × Bytes)) (k v : Bytes) : List (Bytes × Bytes) :=
  args.map (fun p => if p.1 == k then (k, v) else p)

/-- one iteration of the restriction loop (base.py:101-111) -/
def restrictStep (args : List (Bytes × Bytes)) (kr : String × Allowed) : List (Bytes × Bytes) :=
  match args.lookup (ascii kr.1) with
  | none => args
  | some v =>
    if kr.2.has v then args
    else if kr.2.len = 1 then setArg args (ascii kr.1) kr.2.first
    else args.filter (fun p => p.1 != ascii kr.1)

def applyRestrictions (rs : List (String × Allowed)) (args : List (Bytes × Bytes)) : List (Bytes × Bytes) :=
  rs.foldl restrictStep args

section handlers
variable {DT : Type} [DecidableEq DT] (C : DTCodec DT)

/-- index of the field called `name` (`prefix.full_name` for sub-options) -/
def fieldIdx (tbl : List OptionRow) (name : String) : Option Nat :=
  tbl.findIdx? (fun r => r.fieldName == name)

def getField (tbl : List OptionRow) (o : Nat → Val DT) (name : String) : Val DT :=
  match fieldIdx tbl name with
  | some i => o i
  | none => .none

def setFieldByName (tbl : List OptionRow) (o : Nat → Val DT) (name : String) (v : Val DT) : Nat → Val DT :=
  match fieldIdx tbl name with
  | some i => setField o i v
  | none => o

/-- `OptionsRepository.get_default_options()` (repository.py:161-188) -/
def globalDefault (tbl : List OptionRow) (i : Nat) : Val DT :=
  match tbl[i]? with
  | some r => (match defaultVal C r with | .ok v => v | .error _ => .none)
  | none => .none

/-- `defaults.clone(**stream.defaults)` (base.py:97-99): the stream's own defaults win -/
def streamDefaults (g : Nat → Val DT) (sd : List (Nat × Val DT)) : Nat → Val DT :=
  fun i => (sd.lookup i).getD (g i)

/-- an injected-error position must be a segment number or a time with a usable UTC offset
(base.py:158-166) -/
def posOk : Pos DT → Bool
  | .nothing => false
  | .at d => C.offsetOk d
  | .num _ => true

def errsOk (v : Val DT) : Bool :=
  match v with
  | .errs l => l.all (fun e => posOk C e.2)
  | _ => true

/-- a `vcorrupt` item: `int(item, 10)`, else `from_isodatetime(item)` (base.py:153-157) -/
def corruptItemOk (item : Bytes) : Bool :=
  match pyInt item with
  | some _ => true
  | none =>
    match parseDT C item with
    | .ok (some d) => C.offsetOk d
    | _ => false

def truthy (v : Val DT) : Bool :=
  match v with
  | .bool b => b
  | .none => false
  | _ => true

def intOf (v : Val DT) : Option Int :=
  match v with
  | .int z => some z
  | _ => none

/-- the per-event checks (base.py:162-190) -/
def eventOk (K : FilterConsts) (tbl : List OptionRow) (o : Nat → Val DT) (name : Bytes) : Bool :=
  match K.eventTypes.find? (fun e => ascii e == name) with
  | none => true                 -- unknown event names are ignored by the EventFactory
  | some e =>
    let f (k : String) := intOf (getField tbl o (e ++ "." ++ k))
    (match f "count" with | some z => decide (z ≤ (K.maxEventCount : Int)) | none => true) &&
    (match f "timescale" with | some z => decide (1 ≤ z) | none => true) &&
    (match f "duration" with | some z => decide (0 ≤ z) | none => true) &&
    -- an out-of-band event must not start before the presentation (fix 23db72d)
    (match f "start" with
     | some z => decide (0 ≤ z) || truthy (getField tbl o (e ++ "." ++ "inband"))
     | none => true) &&
    (match f "version" with | some z => z == 0 || z == 1 | none => true)

def spanOk (K : FilterConsts) (v : Val DT) : Bool :=
  match v with
  | .int z => decide (z.natAbs ≤ K.maxTimeSpan)
  | _ => true

/-- base.py:131-133: every selected DRM system is a known one -/
def drmNamesOk (tbl : List OptionRow) (o : Nat → Val DT) : Bool :=
  match getField tbl o "drmSelection" with
  | .drm l => l.all (fun e => drmNames.contains e.1)
  | _ => true

/-- base.py:134-137: the UTC timing method is one of `UTCMethod.cgi_choices` -/
def utcMethodOk (tbl : List OptionRow) (o : Nat → Val DT) : Bool :=
  match getField tbl o "utcMethod" with
  | .str s =>
    (match fieldIdx tbl "utcMethod" with
     | some i => (match tbl[i]? with
        | some r => (r.choices.getD []).any (fun c => match c with | some t => ascii t == s | none => false)
        | none => false)
     | none => false)
  | _ => true

/-- base.py:138-152: `None` → the global default; a date-time must be a point in time and is made aware -/
def astStep (tbl : List OptionRow) (o : Nat → Val DT) : Except Err (Nat → Val DT) :=
  match fieldIdx tbl "availabilityStartTime" with
  | none => .ok o
  | some i =>
    match o i with
    | .none => .ok (setField o i (globalDefault C tbl i))
    | .dt d =>
      (match C.check d with
       | some d' => .ok (setField o i (.dt d'))
       | none => .error .valueError)
    | _ => .ok o

/-- base.py:153-190: injected-error positions, event limits, time spans -/
def restOk (K : FilterConsts) (tbl : List OptionRow) (o : Nat → Val DT) : Bool :=
  ["audioErrors", "manifestErrors", "textErrors", "videoErrors"].all (fun n => errsOk C (getField tbl o n)) &&
  (match getField tbl o "videoCorruption" with
   | .list l => l.all (corruptItemOk C)
   | _ => true) &&
  (match getField tbl o "eventTypes" with
   | .list l => l.all (eventOk K tbl o)
   | _ => true) &&
  ["clockDrift", "leeway", "minimumUpdatePeriod", "timeShiftBufferDepth"].all
    (fun n => spanOk K (getField tbl o n)) &&
  -- a SegmentTimeline lists every segment of the time shift buffer (fix bba0bb1)
  (match getField tbl o "timeShiftBufferDepth" with
   | .int z => decide (z ≤ (K.maxDepth : Int))
   | _ => true)

/-- `RequestHandlerBase.check_option_values` (base.py:124-190): a ValueError (→ 400) for values
the parser accepts but no response can be produced from; the only change it makes is to
availabilityStartTime (`None` → the global default, a date-time without zone → UTC) -/
def checkOptionValues (K : FilterConsts) (tbl : List OptionRow) (o : Nat → Val DT) :
    Except Err (Nat → Val DT) :=
  if drmNamesOk tbl o && utcMethodOk tbl o then
    match astStep C tbl o with
    | .error e => .error e
    | .ok o' => if restOk C K tbl o then .ok o' else .error .valueError
  else .error .valueError

/-- is the option one that `remove_unsupported_features` resets for a template with these features?
(`todo = {…} - supported_features`, names of top-level fields) -/
def dropsOption (K : FilterConsts) (features : List String) (r : OptionRow) : Bool :=
  r.pfx == "" && K.featureControlled.contains r.full && !features.contains r.full

/-- `OptionsContainer.remove_unsupported_features` (container.py:218-227): a controlled option the
template does not list goes back to its default -/
def removeUnsupported (K : FilterConsts) (tbl : List OptionRow) (features : List String)
    (dflt : Nat → Val DT) (o : Nat → Val DT) : Nat → Val DT :=
  fun i =>
    match tbl[i]? with
    | some r => if dropsOption K features r then dflt i else o i
    | none => o i

/-- `RequestHandlerBase.calculate_options` (base.py:91-118) on already de-duplicated arguments -/
def calculateOptions (K : FilterConsts) (tbl : List OptionRow) (mode : Bytes)
    (args : List (Bytes × Bytes)) (dflt : Nat → Val DT)
    (features : Option (List String)) (restrictions : Option (List (String × Allowed))) :
    Except Err (Nat → Val DT) :=
  let args' := match restrictions with
    | some rs => applyRestrictions rs args
    | none => args
  match convertOptions C tbl dflt args' with
  | .error e => .error e
  | .ok o =>
    -- fix 3a51c23: the values are checked after the unsupported options have been reset
    let o1 := match features with
      | some f => removeUnsupported K tbl f dflt o
      | none => o
    match checkOptionValues C K tbl o1 with
    | .error e => .error e
    | .ok o2 => .ok (setFieldByName tbl o2 "mode" (.str mode))

/-- `OptionsContainer.remove_unused_parameters(mode)` (container.py:229-262).  `remove_field` acts on
the top-level container only.  The DRM branches pass names (`playreadyPiff`, `marlinLicenseUrl` …,
`K.drmUnused`) that no top-level field carries, so they are inert in the code; the model removes a
top-level field with such a name unconditionally, and `table_drm_unused_names_inert` (Props/C07)
shows there is none – if a field is ever given such a name the obligation breaks instead of the
model silently diverging. -/
def removeUnused (K : FilterConsts) (tbl : List OptionRow) (mode : Bytes) (o : Nat → Val DT) : Opts DT :=
  fun i =>
    match tbl[i]? with
    | some r =>
      if r.pfx == "" &&
          ((mode != ascii "live" && K.liveOnly.contains r.full) || K.drmUnused.contains r.full) then none
      else some (o i)
    | none => some (o i)

/-- why a manifest request is refused before rendering -/
inductive Reject where
  | invalidOptions      -- 400 "Invalid CGI parameters"
  | patchNeedsTimeline  -- 400 "manifest … does not SegmentTimeline"
deriving DecidableEq, Repr

/-- manifest_requests.py:142-144: MPD patches only exist for live manifests -/
def forcePatch (tbl : List OptionRow) (mode : Bytes) (o : Nat → Val DT) : Nat → Val DT :=
  if mode != ascii "live" then setFieldByName tbl o "patch" (.bool false) else o

/-- manifest_requests.py:149-152: the template decides whether a segment timeline is written -/
def forceTimeline (tbl : List OptionRow) (m : ManifestRow) (o : Nat → Val DT) : Nat → Val DT :=
  if !m.features.contains "segmentTimeline" then setFieldByName tbl o "segmentTimeline" (.bool false)
  else if m.segmentTimeline || truthy (getField tbl o "patch") then
    setFieldByName tbl o "segmentTimeline" (.bool true)
  else o

/-- the options `ServeManifest.get` hands to `ManifestContext` (manifest_requests.py:132-153) -/
def serveManifestOptions (K : FilterConsts) (tbl : List OptionRow) (m : ManifestRow) (mode : Bytes)
    (args : List (Bytes × Bytes)) (dflt : Nat → Val DT) : Except Reject (Opts DT) :=
  match calculateOptions C K tbl mode args dflt (some m.features) (some m.restrictions) with
  | .error _ => .error .invalidOptions
  | .ok o =>
    if truthy (getField tbl (forcePatch tbl mode o) "patch") && !m.features.contains "segmentTimeline" then
      .error .patchNeedsTimeline
    else .ok (removeUnused K tbl mode (forceTimeline tbl m (forcePatch tbl mode o)))

/-- `opts.availabilityStartTime = timing.availabilityStartTime` and the same for the buffer depth
(manifest_context.py:288-291): an attribute assignment – a removed field stays removed -/
def withTiming (tbl : List OptionRow) (ast depth : Val DT) (o : Opts DT) : Opts DT :=
  fun i =>
    if fieldIdx tbl "availabilityStartTime" = some i then (o i).map (fun _ => ast)
    else if fieldIdx tbl "timeShiftBufferDepth" = some i then (o i).map (fun _ => depth)
    else o i

/-- request arguments of a manifest → the query string on the init/media URLs of media type `use`
(`ServeManifest.get` → `ManifestContext` → `calculate_cgi_parameters` → `append_cgi_params`);
`ast`/`depth`: what `DashTiming` resolved (live only; `none` = not written back), `ovs`: the
translated injection lists -/
def requestMediaQuery (K : FilterConsts) (tbl : List OptionRow) (m : ManifestRow) (mode : Bytes)
    (args : List (Bytes × Bytes)) (dflt : Nat → Val DT) (timing : Option (Val DT × Val DT))
    (use : Nat) (ovs : List (String × Bytes)) : Except Reject Bytes :=
  match serveManifestOptions C K tbl m mode args dflt with
  | .error e => .error e
  | .ok o =>
    let o' := match timing with
      | some t => withTiming tbl t.1 t.2 o
      | none => o
    .ok (mediaQuery C tbl use (fun i => some (dflt i)) o' ovs)

/-- the media handler with its value check: `calculate_options(mode, args, stream)` -/
def mediaOptionsChecked (K : FilterConsts) (tbl : List OptionRow) (mode : Bytes)
    (dflt : Nat → Val DT) (url : Bytes) : Except Err (Nat → Val DT) :=
  calculateOptions C K tbl mode (firstOnly (parseQsl (queryOf url))) dflt none none

end handlers

end DashLive.Options
