/-
Primitive big-endian codecs over `List UInt8` – the byte layer under every
ISO-BMFF box codec (C04; imported by C03/C10/C14 models as well).

Python counterparts: `struct.pack('>B'|'>H'|'>I'|'>Q'|'>i', v)` /
`struct.unpack(...)`, `FieldWriter.write('3I', …)` (24 bit), `src.read(n)`
(fixed-length byte strings) and the NUL-terminated `'S0'` strings of
`dashlive/utils/fio/field_reader.py:62-72` / `field_writer.py:54-55`.

Import-free (core Lean only) so that the compiled driver can link it.
Conventions: an encoder takes the value, a decoder takes the input and returns
`some (value, rest)` or `none` when the input is too short.  `struct.pack`
raises for out-of-range values; the encoders here are only *specified* for
in-range values (`v < 256 ^ n`), which is the hypothesis of every
`dec (enc v ++ rest)` lemma in `Lemmas/Bytes.lean`.
-/
namespace DashLive.Bytes

abbrev Bytes := List UInt8

/-- `n`-byte big-endian encoding of `v` (most significant byte first). -/
def encBE : Nat → Nat → Bytes
  | 0, _ => []
  | n+1, v => UInt8.ofNat (v / 256 ^ n) :: encBE n (v % 256 ^ n)

/-- read an `n`-byte big-endian unsigned integer. -/
def decBE : Nat → Bytes → Option (Nat × Bytes)
  | 0, bs => some (0, bs)
  | _+1, [] => none
  | n+1, b :: bs =>
    match decBE n bs with
    | some (v, rest) => some (b.toNat * 256 ^ n + v, rest)
    | none => none

def encU8  (v : Nat) : Bytes := encBE 1 v
def encU16 (v : Nat) : Bytes := encBE 2 v
def encU24 (v : Nat) : Bytes := encBE 3 v
def encU32 (v : Nat) : Bytes := encBE 4 v
def encU64 (v : Nat) : Bytes := encBE 8 v
def decU8  (bs : Bytes) : Option (Nat × Bytes) := decBE 1 bs
def decU16 (bs : Bytes) : Option (Nat × Bytes) := decBE 2 bs
def decU24 (bs : Bytes) : Option (Nat × Bytes) := decBE 3 bs
def decU32 (bs : Bytes) : Option (Nat × Bytes) := decBE 4 bs
def decU64 (bs : Bytes) : Option (Nat × Bytes) := decBE 8 bs

/-- two's complement image of a signed 32-bit value (`struct.pack('>i', v)`). -/
def i32ToNat (v : Int) : Nat := if v < 0 then (v + 4294967296).toNat else v.toNat
/-- signed reading of an unsigned 32-bit value (`struct.unpack('>i', …)`). -/
def natToI32 (u : Nat) : Int := if u < 2147483648 then (u : Int) else (u : Int) - 4294967296

def encI32 (v : Int) : Bytes := encBE 4 (i32ToNat v)
def decI32 (bs : Bytes) : Option (Int × Bytes) :=
  match decBE 4 bs with
  | some (u, rest) => some (natToI32 u, rest)
  | none => none

/-- `src.read(n)` that must deliver exactly `n` bytes. -/
def takeN (n : Nat) (bs : Bytes) : Option (Bytes × Bytes) :=
  if n ≤ bs.length then some (bs.take n, bs.drop n) else none

/-- `FieldWriter.write('S0', …)`: the bytes of the string followed by NUL.
(Strings are kept as their UTF-8 bytes; they must not contain NUL.) -/
def encCStr (s : Bytes) : Bytes := s ++ [0]

/-- `FieldReader.get('S0', …)`: bytes up to (not including) the first NUL. -/
def decCStr : Bytes → Option (Bytes × Bytes)
  | [] => none
  | b :: bs =>
    if b = 0 then some ([], bs)
    else match decCStr bs with
      | some (s, rest) => some (b :: s, rest)
      | none => none

/-- concatenated encodings of a list of items (`for x in xs: x.encode(dest)`). -/
def encMany {α : Type} (enc : α → Bytes) : List α → Bytes
  | [] => []
  | a :: as => enc a ++ encMany enc as

/-- `for i in range(n): xs.append(parse(src))` -/
def decMany {α : Type} (dec : Bytes → Option (α × Bytes)) : Nat → Bytes → Option (List α × Bytes)
  | 0, bs => some ([], bs)
  | n+1, bs =>
    match dec bs with
    | none => none
    | some (a, rest) =>
      match decMany dec n rest with
      | none => none
      | some (as, rest') => some (a :: as, rest')

/-- sequencing of prefix decoders: run `o`, hand the value and the remaining
input to `f` (used instead of `do`-notation so that proofs rewrite with the
propositional lemma `andThen_some` rather than by unfolding) -/
def andThen {α β : Type} (o : Option (α × Bytes)) (f : α → Bytes → Option β) : Option β :=
  match o with
  | some (a, r) => f a r
  | none => none

/-- bytes of an ASCII literal (for four-character codes in the models) -/
def ascii (s : String) : Bytes := s.toList.map fun c => UInt8.ofNat c.toNat

end DashLive.Bytes
