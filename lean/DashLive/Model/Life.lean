/-!
# Lifecycle of the credentials a login hands out (property C15)

Anchors: `user_management.py:55-87` (`LoginPage.post`: `login_user` → session cookie,
`Token.generate_api_token` → access JWT and refresh JWT + a `Token` row for the refresh token
stamped `expires = now + 7 d`, `token.py:46-50,113-128`), `:89-104` (`LoginPage.delete`, the API
logout: every `Token` row of the user is marked revoked, the presented access token's `jti` is
recorded as a revoked ACCESS row), `:107-116` (`LogoutPage.get`, the HTML logout: every row of
the session's user revoked), `:233-245` (`EditUser.delete`: the `User` row and – `cascade="all,
delete"`, user.py:57 – its `Token` rows go), `:264-283` (`RefreshAccessToken.get`),
`token.py:130-141` (`Token.is_revoked`: the row of the token's own type decides; no row ⇒ a
refresh token counts as revoked, an access token does not), `:145-156` (`prune_database`: rows
with `expires < now` are deleted at server start; rows without `expires` stay), `app.py:152-166`
(`user_lookup_loader`, `token_in_blocklist_loader`).  Lifetimes: Flask-JWT-Extended defaults –
access JWT 15 min, refresh JWT 30 d (the application configures neither); Flask's signed session
cookie is refused when older than `PERMANENT_SESSION_LIFETIME` = 31 d.

Not modelled (trusted): signature checking of JWTs and cookies – a credential here *is* its
claims.  The browser side of logout (the client that logs out drops its cookie) is not
modelled either: a cookie is a value that can be presented again.
-/
namespace DashLive.Life

inductive TokType | access | refresh
  deriving DecidableEq, Repr

/-- a `Token` table row that belongs to a JWT -/
structure Row where
  jti : Nat
  owner : Nat
  typ : TokType
  /-- `None` for the revocation rows the API logout writes -/
  expires : Option Nat
  revoked : Bool
  deriving DecidableEq, Repr

/-- a JWT: its signed claims -/
structure Tok where
  jti : Nat
  owner : Nat
  typ : TokType
  /-- `exp` claim -/
  exp : Nat
  deriving DecidableEq, Repr

/-- a session cookie: the account it names and the timestamp in its signature -/
structure Cookie where
  owner : Nat
  issued : Nat
  deriving DecidableEq, Repr

def accessLife : Nat := 900
def refreshJwtLife : Nat := 30 * 86400
def refreshRowLife : Nat := 7 * 86400
def sessionLife : Nat := 31 * 86400

structure St where
  now : Nat
  rows : List Row
  /-- existing accounts -/
  users : List Nat
  /-- next fresh `jti` (they are uuid4 values in the code: never repeated) -/
  nextJti : Nat
  deriving Repr

/-- `Token.is_revoked` -/
def isRevoked (st : St) (t : Tok) : Bool :=
  match st.rows.find? (fun r => r.jti == t.jti && r.typ == t.typ) with
  | some r => r.revoked
  | none => t.typ == .refresh

/-- `verify_jwt_in_request` for a token of the wanted type: type, `exp`, block-list, user lookup -/
def tokAccepted (st : St) (t : Tok) (want : TokType) : Bool :=
  t.typ == want && decide (st.now < t.exp) && !isRevoked st t && st.users.contains t.owner

/-- flask_login + Flask's session interface: signature age ≤ 31 d, `user_loader` finds the account -/
def cookieAccepted (st : St) (c : Cookie) : Bool :=
  st.users.contains c.owner && decide (st.now ≤ c.issued + sessionLife)

/-- mark every row of `u` revoked -/
def revokeAll (rows : List Row) (u : Nat) : List Row :=
  rows.map fun r => if r.owner == u then { r with revoked := true } else r

/-- record `jti` as a revoked ACCESS row of `u` (update the row if there is one) -/
def revokeAccess (rows : List Row) (jti u : Nat) : List Row :=
  if rows.any (fun r => r.jti == jti && r.typ == .access) then
    rows.map fun r => if r.jti == jti && r.typ == .access then { r with revoked := true } else r
  else { jti := jti, owner := u, typ := .access, expires := none, revoked := true } :: rows

inductive Ev
  /-- `POST /api/login` with the right password -/
  | login (u : Nat)
  /-- `GET /api/refresh/access` with a refresh token -/
  | refreshAccess (t : Tok)
  /-- `DELETE /api/login` with an access token -/
  | apiLogout (t : Tok)
  /-- `GET /logout` with a session cookie -/
  | htmlLogout (c : Cookie)
  /-- an admin's `DELETE /api/users/<u>` -/
  | deleteUser (u : Nat)
  /-- server restart: `prune_database` -/
  | restart
  | tick (now : Nat)
  deriving Repr

/-- what an event hands out -/
inductive Out
  | creds (access refresh : Tok) (cookie : Cookie)
  | access (t : Tok)
  | done
  | refused
  deriving DecidableEq, Repr

def step (st : St) : Ev → St × Out
  | .login u =>
    if st.users.contains u then
      let a : Tok := { jti := st.nextJti, owner := u, typ := .access, exp := st.now + accessLife }
      let r : Tok := { jti := st.nextJti + 1, owner := u, typ := .refresh, exp := st.now + refreshJwtLife }
      let row : Row := { jti := r.jti, owner := u, typ := .refresh,
                         expires := some (st.now + refreshRowLife), revoked := false }
      ({ st with rows := row :: st.rows, nextJti := st.nextJti + 2 },
       .creds a r { owner := u, issued := st.now })
    else (st, .refused)
  | .refreshAccess t =>
    if tokAccepted st t .refresh then
      ({ st with nextJti := st.nextJti + 1 },
       .access { jti := st.nextJti, owner := t.owner, typ := .access, exp := st.now + accessLife })
    else (st, .refused)
  | .apiLogout t =>
    if tokAccepted st t .access then
      ({ st with rows := revokeAccess (revokeAll st.rows t.owner) t.jti t.owner }, .done)
    else (st, .refused)
  | .htmlLogout c =>
    if cookieAccepted st c then ({ st with rows := revokeAll st.rows c.owner }, .done)
    else (st, .done)      -- the page answers a redirect either way; nothing is revoked
  | .deleteUser u =>
    ({ st with users := st.users.filter (· != u), rows := st.rows.filter (·.owner != u) }, .done)
  | .restart =>
    ({ st with rows := st.rows.filter fun r => match r.expires with
                                               | some e => !decide (e < st.now)
                                               | none => true }, .done)
  | .tick n => ({ st with now := n }, .done)

def final : St → List Ev → St
  | st, [] => st
  | st, e :: es => final (step st e).1 es

/-- a refresh token issued before the state's `nextJti` has no live row: it is voided -/
def RefreshVoid (st : St) (u : Nat) (bound : Nat) : Prop :=
  ∀ r ∈ st.rows, r.owner = u → r.typ = .refresh → r.jti < bound → r.revoked = true

end DashLive.Life
