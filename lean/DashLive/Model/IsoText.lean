/-
Model of the ISO-8601 text functions of `dashlive/utils/date_time.py` and
`dashlive/utils/timezone.py` (property C19), as of the repaired tree
(`fix:` commits 4ed7205 – millisecond carry in `toIsoDuration`, 83b2cb3 – exact
fractional seconds in `from_isodatetime`).

Import-free (core Lean only) so that the line-protocol driver can be compiled.

Text is `List Char`.  Python `'%d' % n` is `Nat.toDigits 10 n`, `int(s, 10)` on
a string of ASCII digits is `Nat.ofDigitChars 10 s 0` (both from core, with
their round-trip lemmas).  The two regular expressions `duration_re` and
`date_time_re` are modelled by explicit deterministic recognisers; that a
greedy left-to-right reading is what Python's backtracking matcher returns is
argued in the doc comments and tied to the code by the `isoparse`
correspondence channel (valid, mutated and malformed texts).

Values: a duration is a `Nat` number of microseconds; a date-time is the
record of the fields Python's `datetime` stores (`DateTime`), the UTC offset in
whole minutes (`none` = naive).  Tick conversions work on `Int` microseconds.

Not modelled (see harness/props/c19.py ASSUMPTIONS): non-ASCII digits (Python's
`\d`, `int()` and `float()` accept them), the `strptime` fall-back branches of
`from_isodatetime` (texts without `T`), `OverflowError` of `timedelta`, offsets
that are not whole minutes.
-/
namespace DashLive.IsoText

abbrev Text := List Char

/-! ## digits -/

/-- `'%d' % n` -/
def dec (n : Nat) : Text := Nat.toDigits 10 n

/-- `int(ds, 10)` for a string of ASCII digits (`int('')` never reaches the model
except as "no digits before the point", where the code substitutes `0`) -/
def num (ds : Text) : Nat := Nat.ofDigitChars 10 ds 0

/-- `'%0<k>d' % n` (wider values are printed in full, as Python does) -/
def pad (k n : Nat) : Text := List.replicate (k - (dec n).length) '0' ++ dec n

/-- `while ms and ms[-1] == '0': ms = ms[:-1]` – date_time.py:112-113 -/
def stripZeros (l : Text) : Text := (l.reverse.dropWhile (· == '0')).reverse

/-! ## `toIsoDuration` – date_time.py:83-117 -/

/-- What the float front end (lines 90-95: `float(str)` / `total_seconds()`,
`milli_secs = int((secs - floor(secs)) * 1000 + 0.5)`, `secs = int(floor(secs))`)
must deliver for a value whose fractional part is `fracMicros` µs: the
millisecond count nearest to it, either neighbour on an exact tie.  `ms = 1000`
is allowed (fraction ≥ .9995). -/
def Admissible (fracMicros ms : Nat) : Prop :=
  1000 * ms ≤ fracMicros + 500 ∧ fracMicros ≤ 1000 * ms + 500

instance (f ms : Nat) : Decidable (Admissible f ms) := by unfold Admissible; infer_instance

/-- the exact (round-half-up) front end, used for non-vacuity and by the driver -/
def roundMs (fracMicros : Nat) : Nat := (fracMicros + 500) / 1000

/-- integer back end of `toIsoDuration` – lines 96-117, given `secs = int(floor(secs))`
and `milli_secs` -/
def isoDurationBack (secs0 ms0 : Nat) : Text :=
  -- lines 96-99 (fix 4ed7205): carry a fraction that rounded up to a whole second
  let secs := if ms0 ≥ 1000 then secs0 + 1 else secs0
  let ms := if ms0 ≥ 1000 then ms0 - 1000 else ms0
  let hrs := secs / 3600
  let secs := secs % 3600
  let mins := secs / 60
  let secs := secs % 60
  ['P', 'T']
    ++ (if hrs ≠ 0 then dec hrs ++ ['H'] else [])
    ++ (if hrs ≠ 0 ∨ mins ≠ 0 then dec mins ++ ['M'] else [])
    ++ dec secs
    ++ (if ms > 0 then '.' :: stripZeros (pad 3 ms) else [])
    ++ ['S']

/-- `toIsoDuration` of a value of `v` microseconds with the exact front end -/
def toIsoDuration (v : Nat) : Text := isoDurationBack (v / 1000000) (roundMs (v % 1000000))

/-! ## `from_isodatetime`, duration branch – date_time.py:48-51, 169-192 -/

/-- `$` without MULTILINE: end of text, or just before a final newline -/
def atEnd (s : Text) : Bool := s == [] || s == ['\n']

/-- one optional group `((?P<x>\d+)<term>)?`.  `\d+` is followed by a literal
that is not a digit, so only the maximal run of digits can match; skipping a
group that matches locally can never lead to a match of the rest (see the note
in the file header), hence the deterministic reading. -/
def optField (term : Char → Bool) (s : Text) : Option Nat × Text :=
  match s.takeWhile Char.isDigit, s.dropWhile Char.isDigit with
  | d :: ds, c :: rest => if term c then (some (num (d :: ds)), rest) else (none, s)
  | _, _ => (none, s)

def isSecChar (c : Char) : Bool := c.isDigit || c == '.'

/-- Python `round()`-style division: nearest, ties to even (what
`timedelta(seconds=<float>)` does with the sub-microsecond part) -/
def divRoundHalfEven (n d : Nat) : Nat :=
  let q := n / d
  let r := n % d
  if 2 * r < d then q else if 2 * r > d then q + 1 else if q % 2 = 0 then q else q + 1

/-- microseconds of the fraction digits `f` (the digits after the point) -/
def fracMicrosRound (f : Text) : Nat :=
  if f.length ≤ 6 then num f * 10 ^ (6 - f.length)
  else divRoundHalfEven (num f) (10 ^ (f.length - 6))

/-- `float(text)` for `text ∈ [\d.]+`, as exact microseconds; `none` = `ValueError`
(no digit at all, or more than one point) -/
def secondsMicros (t : Text) : Option Nat :=
  let w := t.takeWhile (· != '.')
  match t.dropWhile (· != '.') with
  | [] => if w = [] then none else some (num w * 1000000)
  | _ :: f =>
    if f.contains '.' then none
    else if w = [] ∧ f = [] then none
    else some (num w * 1000000 + fracMicrosRound f)

/-- the tail `((?P<seconds>[\d.]+)S?)?$` of `duration_re` and `float(seconds)`:
microseconds of the seconds field (0 when absent); `none` = no match / `ValueError` -/
def parseSecondsPart (s7 : Text) : Option Nat :=
  let run := s7.takeWhile isSecChar
  let s8 := s7.dropWhile isSecChar
  -- the `S` is only consumed after a non-empty run
  let s9 := if run = [] then s8 else match s8 with
    | 'S' :: r => r
    | r => r
  if !atEnd s9 then none
  else if run = [] then some 0
  else secondsMicros run

/-- duration branch of `from_isodatetime` (text starts with `P`); result in µs,
`none` = `ValueError`.  Lines 169-192. -/
def parseDuration (s : Text) : Option Nat :=
  match s with
  | 'P' :: s1 =>
    let (y, s2) := optField (· == 'Y') s1
    let (mo, s3) := optField (· == 'M') s2
    let (d, s4) := optField (· == 'D') s3
    match s4 with
    | 'T' :: s5 =>
      let (h, s6) := optField (fun c => c == 'H' || c == ':') s5
      let (mi, s7) := optField (fun c => c == 'M' || c == ':') s6
      let whole := y.getD 0 * (3600 * 24 * 365) + mo.getD 0 * (3600 * 24 * 30)
        + d.getD 0 * (3600 * 24) + h.getD 0 * 3600 + mi.getD 0 * 60
      (parseSecondsPart s7).map (fun us => whole * 1000000 + us)
    | _ => none
  | _ => none

/-! ## date-times -/

/-- the fields of a Python `datetime`; `offset` = `utcoffset()` in minutes -/
structure DateTime where
  year : Nat
  month : Nat
  day : Nat
  hour : Nat
  minute : Nat
  second : Nat
  micro : Nat
  offset : Option Int
deriving DecidableEq, Repr

def isLeap (y : Nat) : Bool := y % 4 == 0 && (y % 100 != 0 || y % 400 == 0)

def daysInMonth (y m : Nat) : Nat :=
  if m == 2 then (if isLeap y then 29 else 28)
  else if m == 4 || m == 6 || m == 9 || m == 11 then 30 else 31

/-- the range checks of the `datetime.datetime(...)` constructor (`ValueError` otherwise) -/
def DateTime.valid (d : DateTime) : Bool :=
  1 ≤ d.year && d.year ≤ 9999 && 1 ≤ d.month && d.month ≤ 12 &&
  1 ≤ d.day && d.day ≤ daysInMonth d.year d.month &&
  d.hour < 24 && d.minute < 60 && d.second < 60 && d.micro < 1000000

/-- `utcoffset()` must be strictly between −24 h and +24 h for `isoformat()` to work -/
def DateTime.offsetOk (d : DateTime) : Bool :=
  match d.offset with
  | none => true
  | some o => o.natAbs < 1440

/-- `datetime.isoformat()` (whole-minute offsets) -/
def isoformat (d : DateTime) : Text :=
  pad 4 d.year ++ '-' :: pad 2 d.month ++ '-' :: pad 2 d.day ++ 'T' :: pad 2 d.hour
    ++ ':' :: pad 2 d.minute ++ ':' :: pad 2 d.second
    ++ (if d.micro ≠ 0 then '.' :: pad 6 d.micro else [])
    ++ (match d.offset with
        | none => []
        | some o => (if o < 0 then '-' else '+') :: pad 2 (o.natAbs / 60) ++ ':' :: pad 2 (o.natAbs % 60))

/-- `re.sub('[+-]00:00$', 'Z', rv)` – date_time.py:80 -/
def subZ (s : Text) : Text :=
  let n := s.length
  let tail := s.drop (n - 6)
  if n ≥ 6 ∧ (tail = ['+', '0', '0', ':', '0', '0'] ∨ tail = ['-', '0', '0', ':', '0', '0'])
  then s.take (n - 6) ++ ['Z'] else s

/-- `to_iso_datetime` – date_time.py:69-81 -/
def toIsoDateTime (d : DateTime) : Text :=
  match d.offset with
  | none => isoformat d ++ ['Z']
  | some _ => subZ (isoformat d)

/-- `(\d+)` – at least one digit, maximal -/
def takeNat (s : Text) : Option (Nat × Text) :=
  match s.takeWhile Char.isDigit with
  | [] => none
  | d :: ds => some (num (d :: ds), s.dropWhile Char.isDigit)

def expect (c : Char) (s : Text) : Option Text :=
  match s with
  | x :: r => if x = c then some r else none
  | [] => none

/-- `(\d+)<sep>` – one numeric group of `date_time_re` and the literal after it -/
def field (sep : Char) (s : Text) : Option (Nat × Text) :=
  match takeNat s with
  | some (n, r) => (expect sep r).map (fun r' => (n, r'))
  | none => none

/-- `(?P<tzinfo>(Z|([+-]\d+:\d+)))?` followed by `parse_timezone` /
`FixedOffsetTimeZone.__init__` (timezone.py:45-58); `none` offset = group absent -/
def parseTz (s : Text) : Option Int × Text :=
  match s with
  | [] => (none, s)
  | sg :: r =>
    if sg = 'Z' then (some 0, r)
    else if sg = '+' ∨ sg = '-' then
      match field ':' r with
      | some (h, r2) =>
        match takeNat r2 with
        | some (m, r3) =>
          let off : Int := (h * 60 + m : Nat)
          (some (if sg = '-' then -off else off), r3)
        | none => (none, s)
      | none => (none, s)
    else (none, s)

/-- the `second` group after fix 83b2cb3 – date_time.py:202-211: `(second, microsecond)` -/
def parseSecond (v : Text) : Option (Nat × Nat) :=
  if v.contains '.' then
    let whole := v.takeWhile (· != '.')
    let frac := (v.dropWhile (· != '.')).drop 1
    if frac.contains '.' ∨ (whole = [] ∧ frac = []) then none
    else some (num whole, num ((frac ++ List.replicate 6 '0').take 6))
  else some (num v, 0)

/-- the tail `(?P<second>[\d.]+)(?P<tzinfo>…)?$` of `date_time_re` and its
conversion: `(second, microsecond, offset)` -/
def parseSecTz (s : Text) : Option (Nat × Nat × Option Int) :=
  let run := s.takeWhile isSecChar
  let s1 := s.dropWhile isSecChar
  if run = [] then none else
  let (off, s2) := parseTz s1
  if !atEnd s2 then none else
  (parseSecond run).map (fun (sec, us) => (sec, us, off))

/-- date-time branch of `from_isodatetime` – date_time.py:42-46, 193-214 -/
def parseDateTime (s : Text) : Option DateTime :=
  (field '-' s).bind fun (year, s) =>
  (field '-' s).bind fun (month, s) =>
  (field 'T' s).bind fun (day, s) =>
  (field ':' s).bind fun (hour, s) =>
  (field ':' s).bind fun (minute, s) =>
  (parseSecTz s).bind fun (second, micro, off) =>
  let d : DateTime := { year, month, day, hour, minute, second, micro, offset := off }
  if d.valid then some d else none

/-- result of `from_isodatetime` -/
inductive IsoValue where
  | nothing                      -- `None` (empty input)
  | duration (micros : Nat)      -- `datetime.timedelta`
  | datetime (d : DateTime)      -- `datetime.datetime`
  | other                        -- the `strptime` fall-backs (no `T` in the text): not modelled
deriving DecidableEq, Repr

/-- `from_isodatetime` – date_time.py:163-221; outer `none` = `ValueError` -/
def fromIsoDateTime (s : Text) : Option IsoValue :=
  if s = [] then some .nothing
  else if s.head? = some 'P' then (parseDuration s).map .duration
  else if s.contains 'T' then (parseDateTime s).map .datetime
  else some .other

/-- days from 1970-01-01 to the civil date (proleptic Gregorian) – only used to
state "same instant" and cross-checked against Python by the `isodt` channel -/
def daysFromCivil (y m d : Nat) : Int :=
  let y' : Int := if m ≤ 2 then (y : Int) - 1 else y
  let era : Int := y' / 400
  let yoe : Int := y' - era * 400
  let mp : Int := if m > 2 then (m : Int) - 3 else (m : Int) + 9
  let doy : Int := (153 * mp + 2) / 5 + d - 1
  let doe : Int := yoe * 365 + yoe / 4 - yoe / 100 + doy
  era * 146097 + doe - 719468

/-- the instant a date-time denotes: microseconds since 1970-01-01T00:00:00Z
(a naive value is read as UTC, which is what `to_iso_datetime` writes) -/
def DateTime.instant (d : DateTime) : Int :=
  (((daysFromCivil d.year d.month d.day * 24 + d.hour) * 60 + d.minute - d.offset.getD 0) * 60
    + d.second) * 1000000 + d.micro

/-! ## tick conversions – date_time.py:234-270 (timedelta = `Int` microseconds) -/

def tdDays (us : Int) : Int := Int.fdiv us 86400000000
def tdSeconds (us : Int) : Int := Int.fdiv (Int.fmod us 86400000000) 1000000
def tdMicros (us : Int) : Int := Int.fmod us 1000000

/-- `timecode_to_timedelta` – lines 256-261 -/
def timecodeToTimedelta (timecode timescale : Int) : Int :=
  Int.fdiv (timecode * 1000000) timescale

/-- `timedelta_to_timecode` – lines 263-270 -/
def timedeltaToTimecode (delta timescale : Int) : Int :=
  timescale * tdDays delta * 86400 + timescale * tdSeconds delta
    + Int.fdiv (timescale * tdMicros delta) 1000000

/-- `multiply_timedelta` – lines 234-243 -/
def multiplyTimedelta (delta num : Int) : Int :=
  num * tdSeconds delta + num * tdDays delta * 86400 + Int.fdiv (num * tdMicros delta) 1000000

/-- `scale_timedelta` – lines 245-254: the numerator (an integer-valued float in
Python); the function returns `numerator / float(denom)` -/
def scaleTimedeltaNumer (delta num : Int) : Int := multiplyTimedelta delta num

end DashLive.IsoText
