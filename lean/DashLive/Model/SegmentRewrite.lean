/-
Layout-level model of the media-segment rewrite performed by
`MediaRequestBase.generate_media_segment`
(dashlive/server/requesthandler/media_requests.py:138-282, after commit dc8b6d6)
together with `PlayReady.update_traf_if_required` (dashlive/drm/playready.py:356-370)
and the two-pass encoder of dashlive/mpeg/mp4.py (`Mp4Atom.encode` 613-664,
`Wrapper.encode` 727-738, `post_encode_all` 670-677, `tfhd.encode_box_fields`
2095-2109, `tfdt.__setattr__` 2203-2212, `saio.encode_box_fields/post_encode`
2595-2650, `trun.post_encode` 2782-2816).

Import-free (core Lean only) so that the line-protocol driver links.

Abstraction: every box is *(type, size)*; boxes that the handler copies verbatim
are `Opq`; the children of the (single) `traf` that the handler or the encoder
re-computes are typed (`TBox`) and their size is a function of their fields – the
size the Python `encode_box_fields` produces.  Box payload semantics beyond
sizes, counts and the offset fields are not modelled (emsg payloads: C14; senc /
PIFF sample entries are copied opaquely, only their lengths matter).

The stored segment is what `load_fragment` parses: the window
`[segment.pos, segment.pos+segment.size)` of the file read through
`BufferedReader`, so every parse-time `position` is relative to the first byte
of the segment.  The served segment is a byte string of its own starting at 0.
-/
namespace DashLive.SegmentRewrite

abbrev Bytes := List UInt8

/-- a box that is written exactly as stored (`_encoded` / `LazyLoadedBox._buffer`) -/
structure Opq where
  typ : String
  size : Nat
deriving Repr, DecidableEq, Inhabited

/-- children of `traf` -/
inductive TBox where
  /-- `tfhd`: is the 64-bit base_data_offset field present, number of the other optional 32-bit fields -/
  | tfhd (basePresent : Bool) (nOpt : Nat)
  /-- `tfdt`: version, base_media_decode_time -/
  | tfdt (version : Nat) (time : Nat)
  /-- `trun`: data_offset_present, first_sample_flags_present, number of per-sample 32-bit fields,
      the (resolved) sample sizes, data_offset -/
  | trun (dop fsf : Bool) (perSample : Nat) (sizes : List Nat) (dataOffset : Int)
  /-- `saio`: version, flags&1 (aux_info_type present), offsets -/
  | saio (version : Nat) (aux : Bool) (offsets : List Nat)
  /-- `senc`: flags&1 (algorithm/iv/kid override, 20 bytes), length of every sample entry -/
  | senc (override : Bool) (entries : List Nat)
  /-- PIFF sample-encryption `uuid` box cloned from the senc (only produced by the rewrite) -/
  | piff (override : Bool) (entries : List Nat)
  /-- anything else (saiz, sbgp, sgpd, a stored uuid box …): copied verbatim -/
  | other (typ : String) (size : Nat)
deriving Repr, DecidableEq, Inhabited

def b2n (b : Bool) (n : Nat) : Nat := if b then n else 0

/-- encoded size of a typed box (8-byte header; 24 for the uuid box) -/
def TBox.size : TBox → Nat
  | .tfhd bp n => 16 + b2n bp 8 + 4 * n                         -- mp4.py:2095-2109
  | .tfdt v _ => if v = 1 then 20 else 16                        -- mp4.py:2214-2219
  | .trun dop fsf per sizes _ =>                                 -- mp4.py:2768-2780, 2696-2709
      16 + b2n dop 4 + b2n fsf 4 + 4 * per * sizes.length
  | .saio v aux offs =>                                          -- mp4.py:2595-2617
      16 + b2n aux 8 + (if v = 0 then 4 else 8) * offs.length
  | .senc ovr es => 16 + b2n ovr 20 + es.sum                     -- mp4.py:2503-2512
  | .piff ovr es => 32 + b2n ovr 20 + es.sum                     -- same, 16 more for the usertype
  | .other _ s => s

def TBox.name : TBox → String
  | .tfhd .. => "tfhd" | .tfdt .. => "tfdt" | .trun .. => "trun" | .saio .. => "saio"
  | .senc .. => "senc" | .piff .. => "uuid" | .other t _ => t

def isTfhd : TBox → Bool | .tfhd .. => true | _ => false
def isTfdt : TBox → Bool | .tfdt .. => true | _ => false
def isTrun : TBox → Bool | .trun .. => true | _ => false
def isSaio : TBox → Bool | .saio .. => true | _ => false
def isSenc : TBox → Bool | .senc .. => true | _ => false
def isPiff : TBox → Bool | .piff .. => true | _ => false
def isSaiz : TBox → Bool | .other t _ => t == "saiz" | _ => false

/-- the stored media segment as `load_fragment` sees it -/
structure Seg where
  pre      : List Opq        -- top-level boxes in front of the moof (styp, sidx, emsg, free …)
  moofPre  : List Opq        -- children of moof in front of the traf (mfhd)
  traf     : List TBox       -- children of the traf
  moofPost : List Opq        -- children of moof after the traf
  mdatHdr  : Nat             -- header size of the mdat box (8 or 16)
  payload  : Bytes           -- mdat payload
  post     : List Opq        -- top-level boxes after the mdat (styp / sidx of the next segment)

/-- what the request contributes -/
structure Opts where
  newTime   : Nat            -- tfdt.base_media_decode_time after `+= origin_time` (line 208)
  newEmsg   : List Nat       -- sizes of the emsg boxes the event generators return (lines 230-246)
  encrypted : Bool           -- representation.encrypted (line 247)
  piffs     : Nat            -- number of drmSelection entries whose update_traf_if_required inserts a PIFF box
  bugSaio   : Bool           -- `bugs=saio` (mp4.Options.has_bug('saio'))

/-! ### the edits of `generate_media_segment` -/

/-- `traf.insert_child(traf.index('tfhd') + 1, tfdt)` (lines 200-201) -/
def insertAfterTfhd (b : TBox) : List TBox → List TBox
  | [] => []
  | x :: r => if isTfhd x then x :: b :: r else x :: insertAfterTfhd b r

/-- `tfdt.base_media_decode_time += origin_time` on the first tfdt (line 208) with
the version-0 → version-1 growth of `tfdt.__setattr__` (mp4.py:2203-2207) -/
def setTfdt (newTime : Nat) : List TBox → List TBox
  | [] => []
  | .tfdt v _ :: r => .tfdt (if v = 0 ∧ 2 ^ 32 ≤ newTime then 1 else v) newTime :: r
  | x :: r => x :: setTfdt newTime r

/-- `traf.trun.flags |= data_offset_present` (first trun) -/
def forceDop : List TBox → List TBox
  | [] => []
  | .trun _ fsf per sz d :: r => .trun true fsf per sz d :: r
  | x :: r => x :: forceDop r

def firstSenc : List TBox → Option (Bool × List Nat)
  | [] => none
  | .senc o e :: _ => some (o, e)
  | _ :: r => firstSenc r

/-- `traf.insert_child(traf.index('saiz'), piff)` (playready.py:366-368) -/
def insertBeforeSaiz (b : TBox) : List TBox → List TBox
  | [] => []
  | x :: r => if isSaiz x then b :: x :: r else x :: insertBeforeSaiz b r

/-- one `PlayReady.update_traf_if_required` call that is entitled to insert -/
def insertPiff (t : List TBox) : List TBox :=
  match firstSenc t with
  | none => t
  | some (o, e) => insertBeforeSaiz (.piff o e) t

def insertPiffs : Nat → List TBox → List TBox
  | 0, t => t
  | n + 1, t => insertPiffs n (insertPiff t)

/-- `saio.offsets = None` (lines 256-261) followed by what `encode_box_fields`
leaves in the list: one offset (value filled in later) – the senc has samples -/
def resetSaio : List TBox → List TBox
  | [] => []
  | .saio v a _ :: r => .saio v a [0] :: r
  | x :: r => x :: resetSaio r

/-- `del atom.sidx`: the first top-level sidx (lines 223-228) -/
def eraseSidx : List Opq → List Opq
  | [] => []
  | x :: r => if x.typ == "sidx" then r else x :: eraseSidx r

def anySidx (l : List Opq) : Bool := l.any (fun x => x.typ == "sidx")

def hasTfdt (t : List TBox) : Bool := t.any isTfdt
def hasSenc (t : List TBox) : Bool := t.any isSenc
def hasSaio (t : List TBox) : Bool := t.any isSaio

/-- traf children after lines 186-208: tfdt inserted when absent, time set -/
def trafTimed (o : Opts) (t : List TBox) : List TBox :=
  setTfdt o.newTime (if hasTfdt t then t else insertAfterTfhd (.tfdt 0 0) t)

/-- did `tfdt.__setattr__` grow the box (and shift the later siblings by 4)? -/
def grew (o : Opts) (t : List TBox) : Bool :=
  match (if hasTfdt t then t else insertAfterTfhd (.tfdt 0 0) t).find? isTfdt with
  | some (.tfdt v _) => v == 0 && decide (2 ^ 32 ≤ o.newTime)
  | _ => false

/-- `traf_modified` as it stands at line 256 -/
def trafModified (o : Opts) (t : List TBox) : Bool :=
  if o.encrypted then decide (0 < o.piffs) && hasSenc t else !hasTfdt t

/-- is `saio.offsets` reset (lines 256-261)? -/
def saioReset (o : Opts) (t : List TBox) : Bool :=
  trafModified o t && hasSaio t && hasSenc t

/-- all edits of the traf children before `atom.encode` -/
def trafEdited (o : Opts) (t : List TBox) : List TBox :=
  let t1 := trafTimed o t
  let t2 := if o.encrypted then insertPiffs o.piffs t1 else t1
  let t3 := forceDop t2
  if saioReset o t then resetSaio t3 else t3

/-! ### pass 1 of `encode`: positions and sizes -/

structure Placed where
  typ : String
  pos : Nat
  size : Nat
deriving Repr, DecidableEq, Inhabited

/-- boxes written one after the other starting at `out.tell() = start` -/
def place (start : Nat) : List (String × Nat) → List Placed
  | [] => []
  | (t, s) :: r => ⟨t, start, s⟩ :: place (start + s) r

/-- `out.tell()` after writing the boxes -/
def tellAfter (start : Nat) : List (String × Nat) → Nat
  | [] => start
  | (_, s) :: r => tellAfter (start + s) r

def opqs (l : List Opq) : List (String × Nat) := l.map fun x => (x.typ, x.size)
def tboxes (l : List TBox) : List (String × Nat) := l.map fun x => (x.name, x.size)

/-- total size of the boxes in front of the first box satisfying `p` -/
def offsetOf (p : TBox → Bool) : List TBox → Nat
  | [] => 0
  | x :: r => if p x then 0 else x.size + offsetOf p r

/-- does the first `p` box come before the first `q` box? -/
def before (p q : TBox → Bool) : List TBox → Bool
  | [] => false
  | x :: r => if p x then true else if q x then false else before p q r

def opqTotal (l : List Opq) : Nat := (l.map (·.size)).sum
def tboxTotal (l : List TBox) : Nat := (l.map (·.size)).sum

/-- offset of the first sample entry inside a senc box: `senc.samples[0].offset` (mp4.py:2425) -/
def sencRel : List TBox → Nat
  | [] => 0
  | .senc o _ :: _ => 16 + b2n o 20
  | _ :: r => sencRel r

def trunOffset : List TBox → Int
  | [] => 0
  | .trun _ _ _ _ d :: _ => d
  | _ :: r => trunOffset r

def trunFsf : List TBox → Bool
  | [] => false
  | .trun _ f _ _ _ :: _ => f
  | _ :: r => trunFsf r

def trunSizes : List TBox → List Nat
  | [] => []
  | .trun _ _ _ s _ :: _ => s
  | _ :: r => trunSizes r

def saioOffsets : List TBox → Option (List Nat)
  | [] => none
  | .saio _ _ o :: _ => some o
  | _ :: r => saioOffsets r

def sencEntries : List TBox → Option (List Nat)
  | [] => none
  | .senc _ e :: _ => some e
  | _ :: r => sencEntries r

def setTrunOffset (d : Int) : List TBox → List TBox
  | [] => []
  | .trun dop fsf per sz _ :: r => .trun dop fsf per sz d :: r
  | x :: r => x :: setTrunOffset d r

def setSaioOffsets (o : List Nat) : List TBox → List TBox
  | [] => []
  | .saio v a _ :: r => .saio v a o :: r
  | x :: r => x :: setSaioOffsets o r

/-- the served segment -/
structure Out where
  top       : List Placed      -- top-level boxes
  moofPos   : Nat
  moofSize  : Nat
  moofKids  : List Placed      -- children of moof
  trafPos   : Nat
  trafSize  : Nat
  trafKids  : List Placed      -- children of traf
  traf      : List TBox        -- the same children with their final field values
  base      : Nat              -- tfhd.base_data_offset after encoding (written when the field is present)
  mdatPos   : Nat
  mdatSize  : Nat
  payloadStart : Nat
  payload   : Bytes
  total     : Nat              -- length of the response body
  patches   : List (Nat × Nat) -- pass 2 in-place rewrites: (position, number of bytes)
deriving Repr

/-- the whole rewrite -/
def rewrite (o : Opts) (s : Seg) : Out :=
  -- edits --------------------------------------------------------------
  let pre1 := eraseSidx s.pre                                        -- del atom.sidx
  let post1 := if anySidx s.pre then s.post else eraseSidx s.post
  let pre2 := pre1 ++ o.newEmsg.map (fun n => ⟨"emsg", n⟩)            -- emsg boxes before the moof
  let t := trafEdited o s.traf
  -- pass 1: Wrapper.encode → child.encode for every top-level box ---------
  let moofPos := tellAfter 0 (opqs pre2)
  let trafPos := tellAfter (moofPos + 8) (opqs s.moofPre)
  let trafEnd := tellAfter (trafPos + 8) (tboxes t)
  let trafSize := trafEnd - trafPos                                  -- size := out.tell() - position
  let moofEnd := tellAfter trafEnd (opqs s.moofPost)
  let moofSize := moofEnd - moofPos
  let mdatPos := moofEnd
  let mdatSize := s.mdatHdr + s.payload.length                       -- written from `_encoded`
  let base := moofPos                                                -- tfhd.encode_box_fields: moof.position
  -- saio.encode_box_fields when offsets is None (mp4.py:2600-2611)
  let storedTrafPos := opqTotal s.pre + 8 + opqTotal s.moofPre
  let staleSenc := storedTrafPos + 8 + offsetOf isSenc s.traf +
    (if grew o s.traf && before isTfdt isSenc (trafTimed o s.traf) then 4 else 0)
  let finalSenc := trafPos + 8 + offsetOf isSenc t
  let sencSeen := if before isSenc isSaio t then finalSenc else staleSenc
  let reset := saioReset o s.traf
  let pass1 : Option (List Nat) :=
    if reset then some [(((sencSeen + sencRel t : Nat) : Int) - (base : Int)).toNat]
    else saioOffsets t
  -- pass 2: post_encode_all ------------------------------------------------
  -- trun.post_encode (mp4.py:2782-2816)
  let mdatStart := moofPos + moofSize + s.mdatHdr
  let d0 := trunOffset t
  let trunPos := trafPos + 8 + offsetOf isTrun t
  let moved := decide ((base : Int) + d0 ≠ (mdatStart : Int))
  let d1 : Int := if moved then (mdatStart : Int) - (base : Int) else d0
  let trunPatch := if moved then [(trunPos + 12, 8 + b2n (trunFsf t) 4)] else []
  -- saio.post_encode (mp4.py:2635-2650)
  let want := finalSenc + sencRel t - base
  let saioPos := trafPos + 8 + offsetOf isSaio t
  let saioSize := ((t.find? isSaio).map TBox.size).getD 0
  let (final, saioPatch) : Option (List Nat) × List (Nat × Nat) :=
    match pass1 with
    | some [x] =>
      if hasSenc t && decide (x ≠ want) && !o.bugSaio then (some [want], [(saioPos, saioSize)])
      else (some [x], [])
    | other => (other, [])
  let t' := setTrunOffset d1 (match final with | some l => setSaioOffsets l t | none => t)
  let top := opqs pre2 ++ [("moof", moofSize), ("mdat", mdatSize)] ++ opqs post1
  { top := place 0 top
    moofPos := moofPos, moofSize := moofSize
    moofKids := place (moofPos + 8) (opqs s.moofPre ++ [("traf", trafSize)] ++ opqs s.moofPost)
    trafPos := trafPos, trafSize := trafSize
    trafKids := place (trafPos + 8) (tboxes t')
    traf := t'
    base := base
    mdatPos := mdatPos, mdatSize := mdatSize
    payloadStart := mdatPos + s.mdatHdr
    payload := s.payload
    total := tellAfter 0 top
    patches := trunPatch ++ saioPatch }

/-! ### what `Representation.load` indexes: one traf with one tfhd, one trun … -/

def count (p : TBox → Bool) (t : List TBox) : Nat := (t.filter p).length

/-- shape of a stored segment inside the model's domain (decidable) -/
def shapeOk (s : Seg) : Bool :=
  count isTfhd s.traf == 1 && count isTrun s.traf == 1 &&
  decide (count isTfdt s.traf ≤ 1) && decide (count isSaio s.traf ≤ 1) &&
  decide (count isSenc s.traf ≤ 1) && count isPiff s.traf == 0 &&
  -- a senc has samples and is accompanied by a saiz (senc.REQUIRED_PEERS)
  (match sencEntries s.traf with
   | some e => !e.isEmpty && s.traf.any isSaiz
   | none => true)

end DashLive.SegmentRewrite
