/-
Layout-level model of the media-segment rewrite performed by
`MediaRequestBase.generate_media_segment`
(dashlive/server/requesthandler/media_requests.py:138-282, after commit dc8b6d6)
together with `PlayReady.update_traf_if_required` (dashlive/drm/playready.py:356-370)
and the two-pass encoder of dashlive/mpeg/mp4.py (`Mp4Atom.encode` 613-664,
`Wrapper.encode` 727-738, `post_encode_all` 670-677, `tfhd.encode_box_fields`
2095-2109, `tfdt.__setattr__` 2203-2212, `saio.encode_box_fields/post_encode`
2595-2650, `trun.post_encode` 2782-2816).

Import-free (core Lean only) so that the line-protocol driver links.

Abstraction: every box is *(type, size)*; boxes that the handler copies verbatim
are `Opq`; the children of the (single) `traf` that the handler or the encoder
re-computes are typed (`TBox`) and their size is a function of their fields – the
size the Python `encode_box_fields` produces.  Box payload semantics beyond
sizes, counts and the offset fields are not modelled (emsg payloads: C14; senc /
PIFF sample entries are copied opaquely, only their lengths matter).

The stored segment is what `load_fragment` parses: the window
`[segment.pos, segment.pos+segment.size)` of the file read through
`BufferedReader`, so every parse-time `position` is relative to the first byte
of the segment.  The served segment is a byte string of its own starting at 0.
-/
namespace DashLive.SegmentRewrite

abbrev Bytes := List UInt8

/-- a box that is written exactly as stored (`_encoded` / `LazyLoadedBox._buffer`) -/
structure Opq where
  typ : String
  size : Nat
deriving Repr, DecidableEq, Inhabited

/-- children of `traf` -/
inductive TBox where
  /-- `tfhd`: is the 64-bit base_data_offset field present, number of the other optional 32-bit fields -/
  | tfhd (basePresent : Bool) (nOpt : Nat)
  /-- `tfdt`: version, base_media_decode_time -/
  | tfdt (version : Nat) (time : Nat)
  /-- `trun`: data_offset_present, first_sample_flags_present, number of per-sample 32-bit fields,
      the (resolved) sample sizes, data_offset -/
  | trun (dop fsf : Bool) (perSample : Nat) (sizes : List Nat) (dataOffset : Int)
  /-- `saio`: version, flags&1 (aux_info_type present), offsets -/
  | saio (version : Nat) (aux : Bool) (offsets : List Nat)
  /-- `senc`: flags&1 (algorithm/iv/kid override, 20 bytes), length of every sample entry -/
  | senc (override : Bool) (entries : List Nat)
  /-- PIFF sample-encryption `uuid` box cloned from the senc (only produced by the rewrite) -/
  | piff (override : Bool) (entries : List Nat)
  /-- anything else (saiz, sbgp, sgpd, a stored uuid box …): copied verbatim -/
  | other (typ : String) (size : Nat)
deriving Repr, DecidableEq, Inhabited

def b2n (b : Bool) (n : Nat) : Nat := if b then n else 0

/-- encoded size of a typed box (8-byte header; 24 for the uuid box) -/
def TBox.size : TBox → Nat
  | .tfhd bp n => 16 + b2n bp 8 + 4 * n                         -- mp4.py:2095-2109
  | .tfdt v _ => if v = 1 then 20 else 16                        -- mp4.py:2214-2219
  | .trun dop fsf per sizes _ =>                                 -- mp4.py:2768-2780, 2696-2709
      16 + b2n dop 4 + b2n fsf 4 + 4 * per * sizes.length
  | .saio v aux offs =>                                          -- mp4.py:2595-2617
      16 + b2n aux 8 + (if v = 0 then 4 else 8) * offs.length
  | .senc ovr es => 16 + b2n ovr 20 + es.sum                     -- mp4.py:2503-2512
  | .piff ovr es => 32 + b2n ovr 20 + es.sum                     -- same, 16 more for the usertype
  | .other _ s => s

def TBox.name : TBox → String
  | .tfhd .. => "tfhd" | .tfdt .. => "tfdt" | .trun .. => "trun" | .saio .. => "saio"
  | .senc .. => "senc" | .piff .. => "uuid" | .other t _ => t

def isTfhd : TBox → Bool | .tfhd .. => true | _ => false
def isTfdt : TBox → Bool | .tfdt .. => true | _ => false
def isTrun : TBox → Bool | .trun .. => true | _ => false
def isSaio : TBox → Bool | .saio .. => true | _ => false
def isSenc : TBox → Bool | .senc .. => true | _ => false
def isPiff : TBox → Bool | .piff .. => true | _ => false
def isSaiz : TBox → Bool | .other t _ => t == "saiz" | _ => false

/-- the stored media segment as `load_fragment` sees it -/
structure Seg where
  pre      : List Opq        -- top-level boxes in front of the moof (styp, sidx, emsg, free …)
  moofPre  : List Opq        -- children of moof in front of the traf (mfhd)
  traf     : List TBox       -- children of the traf
  moofPost : List Opq        -- children of moof after the traf
  mdatHdr  : Nat             -- header size of the mdat box (8 or 16)
  payload  : Bytes           -- mdat payload
  post     : List Opq        -- top-level boxes after the mdat (styp / sidx of the next segment)

/-- what the request contributes -/
structure Opts where
  newTime   : Nat            -- tfdt.base_media_decode_time after `+= origin_time` (line 208)
  newEmsg   : List Nat       -- sizes of the emsg boxes the event generators return (lines 230-246)
  encrypted : Bool           -- representation.encrypted (line 247)
  piffs     : Nat            -- number of drmSelection entries whose update_traf_if_required inserts a PIFF box
  bugSaio   : Bool           -- `bugs=saio` (mp4.Options.has_bug('saio'))

/-! ### list plumbing

`modFirst f` rewrites the first child on which `f` answers (`traf.tfdt`,
`traf.trun`, `traf.find_child('saio')` … all pick the first child of a type);
`insertAt p after b` is `insert_child(index(p) [+1], b)`; `firstSome g` reads a
field of the first child on which `g` answers. -/

def modFirst (f : TBox → Option TBox) : List TBox → List TBox
  | [] => []
  | x :: r => match f x with
    | some y => y :: r
    | none => x :: modFirst f r

/-- insert `b` directly before (`after = false`) or after (`after = true`) the
first child satisfying `p`; no such child: unchanged (Python raises ValueError →
500; outside `shapeOk`) -/
def insertAt (p : TBox → Bool) (after : Bool) (b : TBox) : List TBox → List TBox
  | [] => []
  | x :: r => if p x then (if after then x :: b :: r else b :: x :: r) else x :: insertAt p after b r

def firstSome {α : Type} (g : TBox → Option α) : List TBox → Option α
  | [] => none
  | x :: r => match g x with
    | some a => some a
    | none => firstSome g r

/-! ### the edits of `generate_media_segment` -/

/-- `traf.insert_child(traf.index('tfhd') + 1, tfdt)` (lines 200-201) -/
def insertAfterTfhd (b : TBox) : List TBox → List TBox := insertAt isTfhd true b

/-- `tfdt.base_media_decode_time += origin_time` on the first tfdt (line 208) with
the version-0 → version-1 growth of `tfdt.__setattr__` (mp4.py:2203-2207) -/
def fSetTfdt (newTime : Nat) : TBox → Option TBox
  | .tfdt v _ => some (.tfdt (if v = 0 ∧ 2 ^ 32 ≤ newTime then 1 else v) newTime)
  | _ => none
def setTfdt (newTime : Nat) : List TBox → List TBox := modFirst (fSetTfdt newTime)

/-- `traf.trun.flags |= data_offset_present` (first trun) -/
def fForceDop : TBox → Option TBox
  | .trun _ fsf per sz d => some (.trun true fsf per sz d)
  | _ => none
def forceDop : List TBox → List TBox := modFirst fForceDop

def gSenc : TBox → Option (Bool × List Nat)
  | .senc o e => some (o, e)
  | _ => none
def firstSenc : List TBox → Option (Bool × List Nat) := firstSome gSenc

/-- `traf.insert_child(traf.index('saiz'), piff)` (playready.py:366-368) -/
def insertBeforeSaiz (b : TBox) : List TBox → List TBox := insertAt isSaiz false b

/-- one `PlayReady.update_traf_if_required` call that is entitled to insert -/
def insertPiff (t : List TBox) : List TBox :=
  match firstSenc t with
  | none => t
  | some (o, e) => insertBeforeSaiz (.piff o e) t

def insertPiffs : Nat → List TBox → List TBox
  | 0, t => t
  | n + 1, t => insertPiffs n (insertPiff t)

/-- `saio.offsets = None` (lines 256-261) followed by what `encode_box_fields`
leaves in the list: exactly one offset (the senc has samples); its value is
filled in by `setSaio1` once the positions are known -/
def fResetSaio : TBox → Option TBox
  | .saio v a _ => some (.saio v a [0])
  | _ => none
def resetSaio : List TBox → List TBox := modFirst fResetSaio

/-- `del atom.sidx`: the first top-level sidx (lines 223-228) -/
def eraseSidx : List Opq → List Opq
  | [] => []
  | x :: r => if x.typ == "sidx" then r else x :: eraseSidx r

def anySidx (l : List Opq) : Bool := l.any (fun x => x.typ == "sidx")

def hasTfdt (t : List TBox) : Bool := t.any isTfdt
def hasSenc (t : List TBox) : Bool := t.any isSenc
def hasSaio (t : List TBox) : Bool := t.any isSaio

/-- traf children after lines 186-208: tfdt inserted when absent, time set -/
def trafTimed (o : Opts) (t : List TBox) : List TBox :=
  setTfdt o.newTime (if hasTfdt t then t else insertAfterTfhd (.tfdt 0 0) t)

def gTfdtVersion : TBox → Option Nat
  | .tfdt v _ => some v
  | _ => none

/-- did `tfdt.__setattr__` grow the box (and shift the later siblings by 4)? -/
def grew (o : Opts) (t : List TBox) : Bool :=
  match firstSome gTfdtVersion (if hasTfdt t then t else insertAfterTfhd (.tfdt 0 0) t) with
  | some v => v == 0 && decide (2 ^ 32 ≤ o.newTime)
  | none => false

/-- `traf_modified` as it stands at line 256 -/
def trafModified (o : Opts) (t : List TBox) : Bool :=
  if o.encrypted then decide (0 < o.piffs) && hasSenc t else !hasTfdt t

/-- is `saio.offsets` reset (lines 256-261)? -/
def saioReset (o : Opts) (t : List TBox) : Bool :=
  trafModified o t && hasSaio t && hasSenc t

/-- all edits of the traf children before `atom.encode` -/
def trafEdited (o : Opts) (t : List TBox) : List TBox :=
  let t1 := trafTimed o t
  let t2 := if o.encrypted then insertPiffs o.piffs t1 else t1
  let t3 := forceDop t2
  if saioReset o t then resetSaio t3 else t3

/-! ### pass 1 of `encode`: positions and sizes -/

structure Placed where
  typ : String
  pos : Nat
  size : Nat
deriving Repr, DecidableEq, Inhabited

/-- boxes written one after the other starting at `out.tell() = start` -/
def place (start : Nat) : List (String × Nat) → List Placed
  | [] => []
  | (t, s) :: r => ⟨t, start, s⟩ :: place (start + s) r

/-- `out.tell()` after writing the boxes -/
def tellAfter (start : Nat) : List (String × Nat) → Nat
  | [] => start
  | (_, s) :: r => tellAfter (start + s) r

def opqs (l : List Opq) : List (String × Nat) := l.map fun x => (x.typ, x.size)
def tboxes (l : List TBox) : List (String × Nat) := l.map fun x => (x.name, x.size)

/-- total size of the boxes in front of the first box satisfying `p` -/
def offsetOf (p : TBox → Bool) : List TBox → Nat
  | [] => 0
  | x :: r => if p x then 0 else x.size + offsetOf p r

/-- does the first `p` box come before the first `q` box? -/
def before (p q : TBox → Bool) : List TBox → Bool
  | [] => false
  | x :: r => if p x then true else if q x then false else before p q r

def opqTotal (l : List Opq) : Nat := (l.map (·.size)).sum

def gSencRel : TBox → Option Nat
  | .senc o _ => some (16 + b2n o 20)
  | _ => none
/-- offset of the first sample entry inside the senc box: `senc.samples[0].offset` (mp4.py:2425) -/
def sencRel (t : List TBox) : Nat := (firstSome gSencRel t).getD 0

def gTrunOffset : TBox → Option Int
  | .trun _ _ _ _ d => some d
  | _ => none
def trunOffset (t : List TBox) : Int := (firstSome gTrunOffset t).getD 0

def gTrunFsf : TBox → Option Bool
  | .trun _ f _ _ _ => some f
  | _ => none
def trunFsf (t : List TBox) : Bool := (firstSome gTrunFsf t).getD false

def gTrunDop : TBox → Option Bool
  | .trun d _ _ _ _ => some d
  | _ => none
def trunDop (t : List TBox) : Bool := (firstSome gTrunDop t).getD false

def gTrunSizes : TBox → Option (List Nat)
  | .trun _ _ _ s _ => some s
  | _ => none
def trunSizes (t : List TBox) : List Nat := (firstSome gTrunSizes t).getD []

def gSaioOffsets : TBox → Option (List Nat)
  | .saio _ _ o => some o
  | _ => none
def saioOffsets : List TBox → Option (List Nat) := firstSome gSaioOffsets

def gSencEntries : TBox → Option (List Nat)
  | .senc _ e => some e
  | _ => none
def sencEntries : List TBox → Option (List Nat) := firstSome gSencEntries

def gSaioSize : TBox → Option Nat
  | .saio v a o => some (TBox.size (.saio v a o))
  | _ => none

/-- value `saio.encode_box_fields` writes in pass 1 when `offsets is None` (mp4.py:2600-2611) -/
def fSetSaio1 (p1 : Nat) : TBox → Option TBox
  | .saio v a [_] => some (.saio v a [p1])
  | .saio v a l => some (.saio v a l)
  | _ => none

/-- `saio.post_encode` (mp4.py:2635-2650): a single offset that differs from the
position of the first senc sample entry is rewritten in place – unless `bugs=saio` -/
def fPostSaio (want : Nat) (hasSenc bug : Bool) : TBox → Option TBox
  | .saio v a [x] => some (.saio v a [if hasSenc && decide (x ≠ want) && !bug then want else x])
  | .saio v a l => some (.saio v a l)
  | _ => none

/-- `trun.post_encode` (mp4.py:2782-2816): data_offset is recomputed against the
final position of the mdat payload when it does not address it -/
def fPostTrun (base mdatStart : Nat) : TBox → Option TBox
  | .trun dop fsf per sz d =>
      some (.trun dop fsf per sz (if (base : Int) + d ≠ (mdatStart : Int) then (mdatStart : Int) - (base : Int) else d))
  | _ => none

/-- the served segment -/
structure Out where
  top       : List Placed      -- top-level boxes
  moofPos   : Nat
  moofSize  : Nat
  moofKids  : List Placed      -- children of moof
  trafPos   : Nat
  trafSize  : Nat
  trafKids  : List Placed      -- children of traf
  traf      : List TBox        -- the same children with their final field values
  base      : Nat              -- tfhd.base_data_offset after encoding (written when the field is present)
  mdatPos   : Nat
  mdatSize  : Nat
  payloadStart : Nat
  payload   : Bytes
  total     : Nat              -- length of the response body
  patches   : List (Nat × Nat) -- pass 2 in-place rewrites: (position, number of bytes)
deriving Repr

/-- the whole rewrite -/
def rewrite (o : Opts) (s : Seg) : Out :=
  -- edits --------------------------------------------------------------
  let pre1 := eraseSidx s.pre                                        -- del atom.sidx
  let post1 := if anySidx s.pre then s.post else eraseSidx s.post
  let pre2 := pre1 ++ o.newEmsg.map (fun n => ⟨"emsg", n⟩)            -- emsg boxes before the moof
  let t := trafEdited o s.traf
  -- pass 1: Wrapper.encode → child.encode for every top-level box ---------
  let moofPos := tellAfter 0 (opqs pre2)
  let trafPos := tellAfter (moofPos + 8) (opqs s.moofPre)
  let trafEnd := tellAfter (trafPos + 8) (tboxes t)
  let trafSize := trafEnd - trafPos                                  -- size := out.tell() - position
  let moofEnd := tellAfter trafEnd (opqs s.moofPost)
  let moofSize := moofEnd - moofPos
  let mdatPos := moofEnd
  let mdatSize := s.mdatHdr + s.payload.length                       -- written from `_encoded`
  let base := moofPos                                                -- tfhd.encode_box_fields: moof.position
  -- saio.encode_box_fields when offsets is None (mp4.py:2600-2611): the senc has its final
  -- position when it was written before the saio, else its parse-time position (+4 when the
  -- tfdt in front of it grew)
  let storedTrafPos := opqTotal s.pre + 8 + opqTotal s.moofPre
  let staleSenc := storedTrafPos + 8 + offsetOf isSenc s.traf +
    (if grew o s.traf && before isTfdt isSenc (trafTimed o s.traf) then 4 else 0)
  let finalSenc := trafPos + 8 + offsetOf isSenc t
  let sencSeen := if before isSenc isSaio t then finalSenc else staleSenc
  let p1 := (((sencSeen + sencRel t : Nat) : Int) - (base : Int)).toNat      -- `if pos < 0: pos = 0`
  let t1 := if saioReset o s.traf then modFirst (fSetSaio1 p1) t else t
  -- pass 2: post_encode_all ------------------------------------------------
  let mdatStart := moofPos + moofSize + s.mdatHdr
  let want := finalSenc + sencRel t - base
  let t2 := modFirst (fPostSaio want (hasSenc t) o.bugSaio) t1
  let t3 := modFirst (fPostTrun base mdatStart) t2
  let trunPos := trafPos + 8 + offsetOf isTrun t
  let trunPatch := if trunOffset t3 ≠ trunOffset t then [(trunPos + 12, 8 + b2n (trunFsf t) 4)] else []
  let saioPos := trafPos + 8 + offsetOf isSaio t
  let saioPatch := if saioOffsets t2 ≠ saioOffsets t1 then [(saioPos, (firstSome gSaioSize t).getD 0)] else []
  let top := opqs pre2 ++ [("moof", moofSize), ("mdat", mdatSize)] ++ opqs post1
  { top := place 0 top
    moofPos := moofPos, moofSize := moofSize
    moofKids := place (moofPos + 8) (opqs s.moofPre ++ [("traf", trafSize)] ++ opqs s.moofPost)
    trafPos := trafPos, trafSize := trafSize
    trafKids := place (trafPos + 8) (tboxes t3)
    traf := t3
    base := base
    mdatPos := mdatPos, mdatSize := mdatSize
    payloadStart := mdatPos + s.mdatHdr
    payload := s.payload
    total := tellAfter 0 top
    patches := trunPatch ++ saioPatch }

/-! ### what `Representation.load` indexes: one traf with one tfhd, one trun … -/

def count (p : TBox → Bool) (t : List TBox) : Nat := (t.filter p).length

/-- shape of a stored segment inside the model's domain (decidable) -/
def shapeOk (s : Seg) : Bool :=
  count isTfhd s.traf == 1 && count isTrun s.traf == 1 &&
  decide (count isTfdt s.traf ≤ 1) && decide (count isSaio s.traf ≤ 1) &&
  decide (count isSenc s.traf ≤ 1) && count isPiff s.traf == 0 &&
  -- a senc has samples and is accompanied by a saiz (senc.REQUIRED_PEERS)
  (match sencEntries s.traf with
   | some e => !e.isEmpty && s.traf.any isSaiz
   | none => true)

end DashLive.SegmentRewrite
