/-
Model of the repeating timed-event generator of dash-live (property C14):

* `dashlive/server/events/repeating_event_base.py`
  `RepeatingEventBase.create_emsg_boxes` (lines 63-137, after the `fix:` commits
  a993bc6 and 8c4223f) and `create_manifest_context` (lines 39-57),
* the `emsg` box layout of `dashlive/mpeg/mp4.py:2986-3034`
  (`EventMessageBox.parse` / `encode_box_fields`, versions 0 and 1).

Import-free (core Lean only) so that the line-protocol driver can be compiled.

Python `int` is modelled by `Int`; `//` by `Int.fdiv` (floor division, exactly
Python's for every sign of the operands).  The `while` loop is modelled with
fuel; `emsg_terminates` (Props/C14) shows that the fuel `emsgFuel` handed to it
by `createEmsg` is always sufficient.
-/
namespace DashLive.Events

/-- Python `a // b` -/
def pydiv (a b : Int) : Int := Int.fdiv a b

/-- the fields of a `RepeatingEventBase` object (`EventBase.DEFAULT_VALUES`) that
the generator reads.  All are Python ints taken from CGI options. -/
structure Sched where
  start     : Int
  interval  : Int
  count     : Int      -- `count <= 0` means "unbounded"
  duration  : Int
  timescale : Int
  version   : Int      -- emsg version
  inband    : Bool
  deriving Repr, DecidableEq

/-- what `create_emsg_boxes` reads of the media segment: `moof.traf.tfdt.
base_media_decode_time` (after the origin of the loop has been added by
`generate_media_segment`) and `representation.segments[mod_segment].duration` -/
structure Seg where
  tfdt : Int
  dur  : Int
  deriving Repr, DecidableEq

/-- line 76: `seg_start = (seg_start * self.timescale) // representation.timescale` -/
def segStart (s : Sched) (repTs : Int) (g : Seg) : Int :=
  pydiv (g.tfdt * s.timescale) repTs

/-- lines 73, 77: `seg_end = ((tfdt + duration) * self.timescale) // representation.timescale` -/
def segEnd (s : Sched) (repTs : Int) (g : Seg) : Int :=
  pydiv ((g.tfdt + g.dur) * s.timescale) repTs

/-- one emitted event: `(event_id, presentation_time)` at the moment the
`EventMessageBox` is created -/
structure Ev where
  id : Int
  pt : Int
  deriving Repr, DecidableEq

/-- the `while presentation_time < seg_end:` loop, lines 106-136.
`none` = the fuel ran out. -/
def emsgLoop (s : Sched) (segStart segEnd : Int) : Nat → Int → Int → Option (List Ev)
  | 0, _, _ => none
  | fuel+1, id, pt =>
    if ¬ (pt < segEnd) then some []                       -- loop condition
    else if s.count > 0 ∧ id ≥ s.count then some []        -- lines 107-109 (fix a993bc6)
    else if pt < segStart then                             -- lines 110-113 skip forward
      emsgLoop s segStart segEnd fuel (id + 1) (pt + s.interval)
    else                                                   -- lines 114-132 emit
      if s.count > 0 ∧ id + 1 ≥ s.count then some [⟨id, pt⟩]   -- lines 133-135
      else (emsgLoop s segStart segEnd fuel (id + 1) (pt + s.interval)).map (⟨id, pt⟩ :: ·)

inductive Res (α : Type) where
  | ok (v : α)
  | valueError        -- `raise ValueError` (interval < 1)
  | assertionError    -- `assert (event_id >= 0)`
  | outOfFuel
  deriving Repr, DecidableEq

/-- `RepeatingEventBase.MAX_EVENTS_PER_SEGMENT` (line 36) -/
def maxEventsPerSegment : Int := 10000

/-- `create_emsg_boxes` up to the list of `(event_id, presentation_time)` pairs,
given the segment interval `[a, b)` already converted to the event timebase. -/
def emsgEvents (s : Sched) (a b : Int) (fuel : Nat) : Res (List Ev) :=
  if !s.inband then .ok []                                  -- lines 65-66
  else if s.interval < 1 then .valueError                   -- lines 67-70 (fix a993bc6)
  else if pydiv (b - a) s.interval > maxEventsPerSegment then .valueError   -- lines 82-85 (fix 8c4223f)
  else if s.start ≥ b then .ok []                           -- lines 90-91
  else if s.count > 0 ∧ s.start + s.count * s.interval < a then .ok []   -- lines 93-97
  else
    let e0 := if a > s.start then pydiv (a - s.start) s.interval else 0  -- lines 99-102
    if e0 < 0 then .assertionError                          -- line 103
    else
      match emsgLoop s a b fuel e0 (s.start + e0 * s.interval) with  -- line 104
      | none => .outOfFuel
      | some l => .ok l

/-- the fuel `createEmsg` gives the loop: `(seg_end − start) // interval + 2`
iterations (each iteration advances `event_id` by one; see `emsg_terminates`) -/
def emsgFuel (s : Sched) (b : Int) : Nat := ((b - s.start) / s.interval).toNat + 2

/-- the fields of one `EventMessageBox` that depend on the schedule (the others –
`scheme_id_uri`, `value`, `flags = 0` – are constants of the event class) -/
structure Emsg where
  version       : Int
  timescale     : Int
  eventDuration : Int
  eventId       : Int
  /-- `presentation_time_delta` (version 0) -/
  delta         : Option Int
  /-- `presentation_time` (version ≠ 0) -/
  pt            : Option Int
  deriving Repr, DecidableEq

/-- lines 117-131: the keyword arguments of `EventMessageBox(**kwargs)` -/
def mkEmsg (s : Sched) (a : Int) (e : Ev) : Emsg :=
  { version := s.version, timescale := s.timescale, eventDuration := s.duration,
    eventId := e.id,
    delta := if s.version = 0 then some (e.pt - a) else none,
    pt := if s.version = 0 then none else some e.pt }

/-- `create_emsg_boxes(moof=…, mod_segment=…, representation=…)` -/
def createEmsg (s : Sched) (repTs : Int) (g : Seg) : Res (List Emsg) :=
  let a := segStart s repTs g
  let b := segEnd s repTs g
  match emsgEvents s a b (emsgFuel s b) with
  | .ok l => .ok (l.map (mkEmsg s a))
  | .valueError => .valueError
  | .assertionError => .assertionError
  | .outOfFuel => .outOfFuel

/-! ### out-of-band: `create_manifest_context`, lines 39-57 -/

/-- one `stream.events` entry: `id`, `presentationTime`, `duration` -/
structure OobEv where
  id : Int
  pt : Int
  duration : Int
  deriving Repr, DecidableEq

/-- `for idx in range(self.count): … presentation_time += self.interval` -/
def oobLoop (s : Sched) : Nat → Int → Int → List OobEv
  | 0, _, _ => []
  | n+1, idx, pt => ⟨idx, pt, s.duration⟩ :: oobLoop s n (idx + 1) (pt + s.interval)

def manifestEvents (s : Sched) : List OobEv :=
  if !s.inband ∧ s.count > 0 then oobLoop s s.count.toNat 0 s.start else []

/-! ### the `emsg` box codec (FullBox header + version 0 / 1 fields)

Byte-level layout of `EventMessageBox.encode_box_fields` / `parse`; local to C14
(C04 owns the general box model).  Strings are given as their UTF-8 bytes and
must not contain a NUL (they are written NUL terminated – `'S0'`). -/

abbrev Bytes := List UInt8

/-- big-endian, `n` bytes, value reduced modulo `256^n` -/
def beBytes : Nat → Nat → Bytes
  | 0, _ => []
  | n+1, v => beBytes n (v / 256) ++ [UInt8.ofNat (v % 256)]

def beNat : Bytes → Nat
  | l => l.foldl (fun acc b => acc * 256 + b.toNat) 0

structure EmsgBox where
  version  : Nat
  flags    : Nat
  scheme   : Bytes
  value    : Bytes
  timescale : Nat
  /-- `presentation_time_delta` (v0) or `presentation_time` (v1) -/
  time     : Nat
  duration : Nat
  id       : Nat
  data     : Bytes
  deriving Repr, DecidableEq

/-- payload after the 8-byte box header (`version`, `flags`, then the fields) -/
def encodeEmsgPayload (b : EmsgBox) : Bytes :=
  [UInt8.ofNat b.version] ++ beBytes 3 b.flags ++
  (if b.version = 0 then
     b.scheme ++ [0] ++ b.value ++ [0] ++ beBytes 4 b.timescale ++ beBytes 4 b.time ++
     beBytes 4 b.duration ++ beBytes 4 b.id
   else
     beBytes 4 b.timescale ++ beBytes 8 b.time ++ beBytes 4 b.duration ++ beBytes 4 b.id ++
     b.scheme ++ [0] ++ b.value ++ [0]) ++
  b.data

/-- `size(4) 'emsg' payload` -/
def encodeEmsg (b : EmsgBox) : Bytes :=
  let p := encodeEmsgPayload b
  beBytes 4 (p.length + 8) ++ [0x65, 0x6d, 0x73, 0x67] ++ p

/-- read a NUL-terminated string: `(string, rest after the NUL)` -/
def readCStr : Bytes → Option (Bytes × Bytes)
  | [] => none
  | c :: rest =>
    if c = 0 then some ([], rest)
    else match readCStr rest with
      | some (s, r) => some (c :: s, r)
      | none => none

def takeN (n : Nat) (l : Bytes) : Option (Bytes × Bytes) :=
  if l.length < n then none else some (l.take n, l.drop n)

/-- `EventMessageBox.parse` on a whole box (`size 'emsg' …`) -/
def parseEmsg (l : Bytes) : Option EmsgBox := do
  let (sz, l) ← takeN 4 l
  let (ty, l) ← takeN 4 l
  if ty ≠ [0x65, 0x6d, 0x73, 0x67] then none else
  if beNat sz ≠ l.length + 8 then none else
  let (v, l) ← takeN 1 l
  let (fl, l) ← takeN 3 l
  let version := beNat v
  if version = 0 then
    let (scheme, l) ← readCStr l
    let (value, l) ← readCStr l
    let (ts, l) ← takeN 4 l
    let (t, l) ← takeN 4 l
    let (d, l) ← takeN 4 l
    let (i, l) ← takeN 4 l
    some { version, flags := beNat fl, scheme, value, timescale := beNat ts, time := beNat t,
           duration := beNat d, id := beNat i, data := l }
  else if version = 1 then
    let (ts, l) ← takeN 4 l
    let (t, l) ← takeN 8 l
    let (d, l) ← takeN 4 l
    let (i, l) ← takeN 4 l
    let (scheme, l) ← readCStr l
    let (value, l) ← readCStr l
    some { version, flags := beNat fl, scheme, value, timescale := beNat ts, time := beNat t,
           duration := beNat d, id := beNat i, data := l }
  else none

/-! ### the integer event options: text → `int`

`EventBase.int_or_default_from_string(default)` and `positive_int_or_default_from_string(default)`
(dashlive/server/events/base.py:52-71) parse every integer event option
(`<event>__start`, `interval`, `count`, `duration`, `timescale`, `version`, `program_id`) with
`DashOption.int_or_none_from_string` = `None` for `''` / `'none'`, else `int(value, 10)`.
`pyInt` is CPython's `int(str, 10)` on ASCII text: surrounding white space is ignored, one
optional sign, decimal digits with single underscores between digits; anything else (a decimal
point, an exponent, a hex prefix) is a `ValueError`.  The value is exact for every magnitude. -/

/-- white space `int()` strips (ASCII: space, \t \n \v \f \r and the separators 0x1c-0x1f) -/
def isPyWs (c : Char) : Bool :=
  c == ' ' || (9 ≤ c.toNat && c.toNat ≤ 13) || (28 ≤ c.toNat && c.toNat ≤ 31)

def digitVal (c : Char) : Option Nat :=
  if '0' ≤ c ∧ c ≤ '9' then some (c.toNat - 48) else none

/-- decimal digits with single underscores *between* digits; `prev` = the previous character
was a digit -/
def readDigits : List Char → Nat → Bool → Option Nat
  | [], acc, prev => if prev then some acc else none
  | c :: cs, acc, prev =>
    if c = '_' then (if prev then readDigits cs acc false else none)
    else match digitVal c with
      | some d => readDigits cs (acc * 10 + d) true
      | none => none

/-- `int(text, 10)`; `none` = `ValueError` -/
def pyInt (text : List Char) : Option Int :=
  let t := ((text.dropWhile isPyWs).reverse.dropWhile isPyWs).reverse
  match t with
  | [] => none
  | c :: ds =>
    if c = '-' then (readDigits ds 0 false).map fun n => -(n : Int)
    else if c = '+' then (readDigits ds 0 false).map fun n => (n : Int)
    else (readDigits (c :: ds) 0 false).map fun n => (n : Int)

/-- `int_or_default_from_string(dflt)` (`positive = false`) and
`positive_int_or_default_from_string(dflt)` (`positive = true`, used for `interval`) -/
def parseEventInt (dflt : Int) (positive : Bool) (text : List Char) : Res Int :=
  if text = [] ∨ text = ['n', 'o', 'n', 'e'] then .ok dflt
  else match pyInt text with
    | none => .valueError
    | some v => if positive ∧ v < 1 then .valueError else .ok v

/-- the canonical decimal text of an integer (Python `str(z)`): `Nat.toDigits 10`, with a
leading `-` for a negative number -/
def decimalOf (z : Int) : List Char :=
  if z < 0 then '-' :: Nat.toDigits 10 z.natAbs else Nat.toDigits 10 z.toNat

/-! ### Specification: the schedule

Event `k ≥ 0` of a schedule has presentation time `start + k·interval`; it exists
iff `count ≤ 0` (unbounded) or `k < count`. -/

def evTime (s : Sched) (k : Int) : Int := s.start + k * s.interval

/-- index of the first event whose time is `≥ x`: `0` if `x ≤ start`, otherwise
`⌈(x − start) / interval⌉` -/
def firstIdx (s : Sched) (x : Int) : Int :=
  if x ≤ s.start then 0 else (x - s.start + s.interval - 1) / s.interval

/-- `count` cut-off applied to an index bound -/
def cap (s : Sched) (k : Int) : Int := if s.count > 0 then min k s.count else k

/-- `lo, lo+1, …` (`n` of them) -/
def idsFrom (lo : Int) : Nat → List Int
  | 0 => []
  | n+1 => lo :: idsFrom (lo + 1) n

/-- the integers of `[lo, hi)` in increasing order -/
def idRange (lo hi : Int) : List Int := idsFrom lo (hi - lo).toNat

/-- **the scheduled events whose time lies in `[a, b)`**, in order
(characterised by `mem_scheduled`/`scheduled_sorted` in Props/C14) -/
def scheduled (s : Sched) (a b : Int) : List Ev :=
  (idRange (cap s (firstIdx s a)) (cap s (firstIdx s b))).map (fun k => ⟨k, evTime s k⟩)

end DashLive.Events
