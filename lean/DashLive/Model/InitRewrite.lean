import DashLive.Model.PlayReady
import DashLive.Model.ClearKey
/-
Model of init-segment generation for property C10:

* `dashlive/server/options/drm_options.py:85-110` `_drm_selection_from_string`
* `dashlive/server/requesthandler/drm_context.py:43-80` (`DrmContext`, iteration in
  sorted name order, `generate_drm_location_tuples`)
* the `moov` hooks of each DRM's `generate_manifest_context`
  (`Model/PlayReady.lean` `playreadyHooks`, `Model/ClearKey.lean` `clearkeyHooks`,
  `marlinHooks`)
* `dashlive/server/requesthandler/media_requests.py:98-136` `generate_init_segment`
  (as repaired by the `fix:` commit for C10: `del atom.moov.mvex.mehd`)
* `dashlive/mpeg/mp4.py` `append_child` / `remove_child` / `encode` (302-370, 613-664):
  a box whose subtree was not touched is written from its original bytes, a touched
  container is re-written as header + children with its size recomputed from what
  was actually written.

Import-free apart from the two DRM model files.

The box tree has opaque leaves: `leaf typ payload` (everything after the 8-byte
header is carried as bytes) and plain containers `node typ children` (`moov`,
`mvex` – containers without fields of their own).  The PRO bytes inside the
PlayReady pssh are a parameter (supplied by the real `generate_pro`; their
structure is C11's subject).
-/
namespace DashLive.InitRewrite
open DashLive.PlayReady (Bytes Loc Hooks be32)

/-! ### DRM selection → per-system contexts -/

inductive Sys | clearkey | marlin | playready
  deriving DecidableEq, Repr

/-- `DrmSystem.values()` – sorted lower-case names; also the iteration order of
`DrmContextIterator` (`keys.sort()`) -/
def Sys.all : List Sys := [.clearkey, .marlin, .playready]

def Sys.ofString : String → Option Sys
  | "clearkey" => some .clearkey
  | "marlin" => some .marlin
  | "playready" => some .playready
  | _ => none

def Loc.ofString : String → Option Loc
  | "cenc" => some .cenc
  | "moov" => some .moov
  | "pro" => some .pro
  | _ => none

/-- `ALL_DRM_LOCATIONS` -/
def Loc.all : List Loc := [.cenc, .moov, .pro]

abbrev Selection := List (Sys × List Loc)

/-- `_drm_selection_from_string`.  `none` = the value names an unknown DRM system
(`assert` in `generate_drm_location_tuples`) or an unknown location (`ValueError` /
`KeyError`) – outside the modelled domain. -/
def parseSelectionWith (allLocs : List Loc) (value : String) : Option Selection :=
  let value := value.toLower
  if value.startsWith "none" || value == "" then some []
  else if value.startsWith "all" then
    if value.contains '-' then
      match ((value.splitOn "-").drop 1).mapM Loc.ofString with
      | some locs => some (Sys.all.map fun s => (s, locs))
      | none => none
    else some (Sys.all.map fun s => (s, allLocs))
  else
    (value.splitOn ",").mapM fun item =>
      if item.contains '-' then
        match item.splitOn "-" with
        | drm :: locs =>
          match Sys.ofString drm, locs.mapM Loc.ofString with
          | some s, some ls => some (s, ls)
          | _, _ => none
        | [] => none
      else (Sys.ofString item).map fun s => (s, allLocs)

/-- the parser with the module constant `ALL_DRM_LOCATIONS` as it is at import time
(`parseSelectionWith` takes the value the shared set has when the request is served) -/
def parseSelection (value : String) : Option Selection := parseSelectionWith Loc.all value

/-! #### what a manifest hands on: `_drm_selection_to_string` (drm_options.py:113-126) -/

/-- a location set as the serialiser writes it: `sorted(loc.to_json() for loc in locations)` –
the members in alphabetical order (= constructor order), each once -/
def normLocs (locs : List Loc) : List Loc := Loc.all.filter (locs.contains ·)

/-- one item of the serialised value: a bare name (`locations == ALL_DRM_LOCATIONS`) or
`name-loc-loc…` -/
abbrev Item := Sys × Option (List Loc)

/-- the serialised `drm` value, as tokens: `all`, or the comma separated items -/
inductive Printed
  | all
  | items (l : List Item)
  deriving DecidableEq, Repr

def isFull (locs : List Loc) : Bool := Loc.all.all (locs.contains ·)

/-- `_drm_selection_to_string`: every entry becomes a bare name when its locations are all
locations, else name + sorted locations; `all` when the set of results is exactly the three
bare names -/
def printSelection (sel : Selection) : Printed :=
  let items : List Item := sel.map fun (s, locs) => if isFull locs then (s, none) else (s, some (normLocs locs))
  if items.all (·.2.isNone) && Sys.all.all (fun s => items.any (·.1 == s)) then .all else .items items

/-- `_drm_selection_from_string` on the serialised tokens (the string level – `,` / `-`
joining and splitting – is tied by the `drmsel` channel) -/
def readPrinted : Printed → Selection
  | .all => Sys.all.map fun s => (s, Loc.all)
  | .items l => l.map fun (s, locs) => (s, locs.getD Loc.all)

/-- `DrmContext.__init__`: `manifest_context[drm_name] = …` in selection order, so the
last entry for a system wins -/
def lookupLast (sel : Selection) (s : Sys) : Option (List Loc) :=
  (sel.reverse.find? (·.1 == s)).map (·.2)

/-- the hooks of one system for the given locations; `version` = `playready__version` ×10 -/
def hooksOf (version : Option Nat) (lastAlgIsAesCtr : Bool) (nkeys : Nat) (s : Sys)
    (locs : List Loc) : Hooks :=
  match s with
  | .clearkey => ClearKey.clearkeyHooks locs
  | .marlin => ClearKey.marlinHooks
  | .playready => PlayReady.playreadyHooks version lastAlgIsAesCtr nkeys locs

/-- the contexts `for drm in drms:` iterates over, in order -/
def contexts (version : Option Nat) (lastAlgIsAesCtr : Bool) (nkeys : Nat) (sel : Selection) :
    List (Sys × Hooks) :=
  Sys.all.filterMap fun s =>
    (lookupLast sel s).map fun locs => (s, hooksOf version lastAlgIsAesCtr nkeys s locs)

/-- the fields of one `pssh` box (`ContentProtectionSpecificBox(version, flags=0, …)`) -/
structure PsshSpec where
  version : Nat
  sys : Bytes
  kids : List Bytes
  data : Bytes
  deriving DecidableEq, Repr

/-- the box's bytes -/
def PsshSpec.bytes (p : PsshSpec) : Bytes := PlayReady.encodePssh p.version p.sys p.kids p.data

/-- `drm.moov(representation.default_kid)` for a system whose context has a `moov` hook.
`kids` = the key ids of `models.Key.get_kids(representation.kids)` in dictionary order,
`pro` = the bytes of `generate_pro`.  ClearKey (`ClearKey.generate_pssh`): version 1, every
key id, no data.  PlayReady (`PlayReady.generate_pssh`): version 0 without key ids for
fewer than two keys, else version 1 with every key id; data = the PRO.  Marlin: no hook. -/
def psshFor (kids : List Bytes) (pro : Bytes) : Sys → Option PsshSpec
  | .clearkey => some ⟨1, ClearKey.psshSystemId, kids, []⟩
  | .playready =>
    if kids.length < 2 then some ⟨0, PlayReady.playreadySystemId, [], pro⟩
    else some ⟨1, PlayReady.playreadySystemId, kids, pro⟩
  | .marlin => none

/-- the pssh boxes `generate_init_segment` appends (lines 113-119), in order -/
def initPsshs (encrypted : Bool) (version : Option Nat) (lastAlgIsAesCtr : Bool)
    (sel : Selection) (kids : List Bytes) (pro : Bytes) : List PsshSpec :=
  if !encrypted then [] else
  (contexts version lastAlgIsAesCtr kids.length sel).filterMap fun (s, h) =>
    if h.moov then psshFor kids pro s else none

/-! ### box tree -/

inductive Box
  | leaf (typ : Bytes) (payload : Bytes)
  | node (typ : Bytes) (children : List Box)
  deriving Repr

def Box.typ : Box → Bytes
  | .leaf t _ => t
  | .node t _ => t

mutual
/-- `Mp4Atom.encode`: size (32 bit big endian) ‖ type ‖ payload; a container's payload
is the concatenation of its children's encodings and its size is what was written -/
def Box.encode : Box → Bytes
  | .leaf t p => be32 (8 + p.length) ++ t ++ p
  | .node t cs => be32 (8 + (encodeList cs).length) ++ t ++ encodeList cs
def encodeList : List Box → Bytes
  | [] => []
  | b :: bs => b.encode ++ encodeList bs
end

def moovType : Bytes := [0x6d, 0x6f, 0x6f, 0x76]
def mvexType : Bytes := [0x6d, 0x76, 0x65, 0x78]
def mehdType : Bytes := [0x6d, 0x65, 0x68, 0x64]

/-- `del parent.<name>` (`Mp4Atom.__delattr__`): remove the first direct child of that
type; the caller swallows the `AttributeError` when there is none -/
def removeFirst (t : Bytes) : List Box → List Box
  | [] => []
  | b :: bs => if b.typ = t then bs else b :: removeFirst t bs

/-- `parent.<name>` (`Mp4Atom.__getattr__`) followed by an in-place edit: the first
direct child of that type is replaced by `f child` -/
def modifyFirst (t : Bytes) (f : Box → Box) : List Box → List Box
  | [] => []
  | b :: bs => if b.typ = t then f b :: bs else b :: modifyFirst t f bs

/-- `box.append_child(x)` for each `x` -/
def appendChildren (extra : List Box) : Box → Box
  | .node t cs => .node t (cs ++ extra)
  | b => b

/-- `del mvex.mehd` -/
def dropMehdFrom : Box → Box
  | .node t cs => .node t (removeFirst mehdType cs)
  | b => b

/-- `del atom.moov.mvex.mehd` applied to the `moov` box -/
def dropMehd : Box → Box
  | .node t cs => .node t (modifyFirst mvexType dropMehdFrom cs)
  | b => b

/-- a `pssh` box as a leaf of the tree: type `pssh`, payload = version/flags … data -/
def PsshSpec.box (p : PsshSpec) : Box :=
  .leaf PlayReady.psshType (PlayReady.psshBody p.version p.sys p.kids p.data)

/-- the edits of `generate_init_segment` on the `moov` box: append the boxes, then (live)
delete `mvex/mehd` -/
def rewriteMoov (extra : List Box) (live : Bool) (moov : Box) : Box :=
  let m := appendChildren extra moov
  if live then dropMehd m else m

/-- `generate_init_segment`: top-level boxes of the stored init segment → boxes of the
response (`atom.moov` = the first top-level `moov`) -/
def generateInit (top : List Box) (extra : List Box) (live : Bool) : List Box :=
  modifyFirst moovType (rewriteMoov extra live) top

/-- the response body for a request: selection → pssh boxes → edited tree → bytes -/
def initBytes (top : List Box) (psshs : List PsshSpec) (live : Bool) : Bytes :=
  encodeList (generateInit top (psshs.map PsshSpec.box) live)

/-! ### requests served one after the other by one process

What the handlers share between requests and the model has to account for: the module
level set `ALL_DRM_LOCATIONS` of `drm_options.py`, which the parser hands out *by reference*
for every bare DRM name and for `all`.  Every handler reads it; none writes it (the
`init_history` channel snapshots it, and every other module-level constant of the option
layer, around every request). -/

/-- process-wide state that outlives a request -/
structure Shared where
  allLocs : List Loc
  deriving DecidableEq, Repr

/-- the state after import -/
def Shared.init : Shared := ⟨Loc.all⟩

/-- an init-segment request: stored boxes, track properties, query parameters -/
structure InitReq where
  top : List Box
  encrypted : Bool
  version : Option Nat
  lastAlgIsAesCtr : Bool
  drm : String
  kids : List Bytes
  pro : Bytes
  live : Bool

/-- the response to one init request given the shared state (`none`: selection outside the
modelled parser domain) -/
def serveInit (s : Shared) (r : InitReq) : Option Bytes :=
  (parseSelectionWith s.allLocs r.drm).map fun sel =>
    initBytes r.top (initPsshs r.encrypted r.version r.lastAlgIsAesCtr sel r.kids r.pro) r.live

/-- any request: an init request, or something else (manifest of any mode, media segment,
licence request …) whose response is not C10's subject -/
inductive Req
  | init (r : InitReq)
  | other

/-- serving one request: the shared state is read, never written -/
def serve (s : Shared) : Req → Option Bytes × Shared
  | .init r => (serveInit s r, s)
  | .other => (none, s)

/-- serving a history -/
def serveAll (s : Shared) : List Req → List (Option Bytes) × Shared
  | [] => ([], s)
  | q :: qs =>
    let r := serve s q
    let rest := serveAll r.2 qs
    (r.1 :: rest.1, rest.2)

/-! ### an independent reader of box sequences (ISO/IEC 14496-12 §4.2) -/

/-- parse a byte string as a sequence of boxes; boxes whose type satisfies `isContainer`
are parsed recursively.  `none` when a size field is smaller than a header, runs past
the end of the enclosing box, or bytes are left over.  `fuel` bounds the recursion
(any value > the number of bytes suffices). -/
def parseBoxes (isContainer : Bytes → Bool) : Nat → Bytes → Option (List Box)
  | 0, _ => none
  | _ + 1, [] => some []
  | fuel + 1, bs =>
    if bs.length < 8 then none else
    let size := PlayReady.be32val bs
    let t := (bs.drop 4).take 4
    if size < 8 || size > bs.length then none else
    let payload := (bs.drop 8).take (size - 8)
    match parseBoxes isContainer fuel (bs.drop size) with
    | none => none
    | some rest =>
      if isContainer t then
        match parseBoxes isContainer fuel payload with
        | none => none
        | some cs => some (.node t cs :: rest)
      else some (.leaf t payload :: rest)

end DashLive.InitRewrite
