import DashLive.Model.PlayReady
import DashLive.Model.ClearKey
/-
Model of the WRMHEADER text for property C11:

* `PlayReady.generate_wrmheader` (dashlive/drm/playready.py:170-234): the template
  context (little-endian key ids, checksums, `cfgs`, `expand_la_url`), the choice
  of the header version (lines 214-229 with `minimum_header_version`, 378-395), the
  whitespace clean-up `re.sub(r'[\r\n]', '', xml)`, `re.sub(r'>\s+<', '><', xml)`;
* the Jinja rendering of `templates/drm/wrmheader4x.xml` as an interpreter over the
  segment lists that `harness/gen_wrmheader.py` regenerates from the template files
  into `Gen/WrmHeader.lean` on every run: `{{ x }}` is autoescaped (markupsafe: the
  templates are `*.xml`; after `fix:` bf7d1d2 the licence URL is escaped exactly once),
  `|base64` is `base64.b64encode`;
* a minimal reader `parseWrmHeader` (tags / text / attributes / entity decoding) used
  by the round-trip theorems – independent of the renderer.

Import-free apart from the two DRM model files.  Text is a list of code points.
-/
namespace DashLive.WrmHeader
open DashLive.PlayReady (Bytes)

abbrev Text := List Nat

/-! ### template segments and context -/

/-- a template piece without nesting -/
inductive Atom
  | lit (t : Text)
  | defaultKid | checksum | laUrl
  | kidValue | kidChecksum | kidAlg
  | eltTag | eltAttrs | eltValue
  | firstLit (t : Text)        -- `{% if loop.first %}text{% endif %}`
  | lastLit (t : Text)         -- `{% if loop.last %}text{% endif %}`
  deriving DecidableEq, Repr

inductive Seg
  | atom (a : Atom)
  | ifChecksum (thn els : List Atom)
  | forKids (body : List Atom)
  | forCustom (body : List Atom)
  deriving DecidableEq, Repr

/-- one entry of the template variable `kids` (`kid` already in little-endian order) -/
structure KidEntry where
  kid : Bytes
  alg : Text
  checksum : Bytes
  deriving DecidableEq, Repr

/-- one `CustomAttribute(tag, value, attributes)` -/
structure Custom where
  tag : Text
  attrs : List (Text × Text)
  value : Text
  deriving DecidableEq, Repr

/-- the template context built by `generate_wrmheader` -/
structure Ctx where
  defaultKid : Bytes
  checksum : Bytes
  kids : List KidEntry
  laUrl : Text
  custom : List Custom
  deriving DecidableEq, Repr

/-! ### filters -/

/-- `markupsafe.escape` (Jinja autoescape) -/
def escapeChar (c : Nat) : Text :=
  if c = 38 then [38, 97, 109, 112, 59]          -- &amp;
  else if c = 60 then [38, 108, 116, 59]         -- &lt;
  else if c = 62 then [38, 103, 116, 59]         -- &gt;
  else if c = 34 then [38, 35, 51, 52, 59]       -- &#34;
  else if c = 39 then [38, 35, 51, 57, 59]       -- &#39;
  else [c]

def escape (t : Text) : Text := t.flatMap escapeChar

/-- the `base64` filter: `base64.b64encode` (standard alphabet, padded) -/
def b64 (b : Bytes) : Text := ClearKey.b64encode b

/-- lexicographic `<` on code points (Python `str` ordering) -/
def textLt : Text → Text → Bool
  | [], [] => false
  | [], _ :: _ => true
  | _ :: _, [] => false
  | a :: as, b :: bs => if a < b then true else if b < a then false else textLt as bs

def insertAttr (x : Text × Text) : List (Text × Text) → List (Text × Text)
  | [] => [x]
  | y :: ys => if textLt x.1 y.1 then x :: y :: ys else y :: insertAttr x ys

/-- the `sortedAttributes` filter (template_tags.py:206-220): ` k="v"` for the keys in sorted order -/
def sortedAttributes (attrs : List (Text × Text)) : Text :=
  (attrs.foldr insertAttr []).flatMap fun (k, v) => [32] ++ k ++ [61, 34] ++ v ++ [34]

/-! ### the interpreter -/

/-- loop variables: the current `kid`, the current custom attribute with `loop.first/last` -/
structure Env where
  kid : Option KidEntry := none
  elt : Option Custom := none
  first : Bool := false
  last : Bool := false

def renderAtom (ctx : Ctx) (env : Env) : Atom → Text
  | .lit t => t
  | .defaultKid => b64 ctx.defaultKid
  | .checksum => b64 ctx.checksum
  | .laUrl => escape ctx.laUrl
  | .kidValue => match env.kid with | some k => b64 k.kid | none => []
  | .kidChecksum => match env.kid with | some k => b64 k.checksum | none => []
  | .kidAlg => match env.kid with | some k => escape k.alg | none => []
  | .eltTag => match env.elt with | some e => escape e.tag | none => []
  | .eltAttrs => match env.elt with | some e => sortedAttributes e.attrs | none => []
  | .eltValue => match env.elt with | some e => escape e.value | none => []
  | .firstLit t => if env.first then t else []
  | .lastLit t => if env.last then t else []

def renderAtoms (ctx : Ctx) (env : Env) (as : List Atom) : Text := as.flatMap (renderAtom ctx env)

/-- `{% for elt in customAttributes %}` with `loop.first` / `loop.last` -/
def renderCustom (ctx : Ctx) (body : List Atom) : Bool → List Custom → Text
  | _, [] => []
  | first, e :: es =>
    renderAtoms ctx { elt := some e, first := first, last := es.isEmpty } body
      ++ renderCustom ctx body false es

def renderSeg (ctx : Ctx) : Seg → Text
  | .atom a => renderAtom ctx {} a
  | .ifChecksum thn els =>
    -- `{% if checksum %}`: a `bytes` value is true iff it is not empty
    if ctx.checksum ≠ [] then renderAtoms ctx {} thn else renderAtoms ctx {} els
  | .forKids body => ctx.kids.flatMap fun k => renderAtoms ctx { kid := some k } body
  | .forCustom body => renderCustom ctx body true ctx.custom

/-- `render_template(template_name, **context)` -/
def renderRaw (tmpl : List Seg) (ctx : Ctx) : Text := tmpl.flatMap (renderSeg ctx)

/-! ### whitespace clean-up – playready.py:228-229 -/

/-- Python's `\s` for `str` patterns -/
def isWs (c : Nat) : Bool :=
  (9 ≤ c && c ≤ 13) || (28 ≤ c && c ≤ 32) || c = 133 || c = 160 || c = 5760
    || (8192 ≤ c && c ≤ 8202) || c = 8232 || c = 8233 || c = 8239 || c = 8287 || c = 12288

/-- one character of `re.sub(r'>\s+<', '><', …)`: state = whitespace seen since a `>`
(`none`: not after a `>`); result = characters to emit, new state -/
def sqStep (st : Option Text) (c : Nat) : Text × Option Text :=
  match st with
  | none => if c = 62 then ([62], some []) else ([c], none)
  | some w =>
    if isWs c then ([], some (w ++ [c]))
    else if c = 60 then ([60], none)             -- `>` whitespace* `<`  →  `><`
    else if c = 62 then (w ++ [62], some [])
    else (w ++ [c], none)

def sqRun : Option Text → Text → Text × Option Text
  | st, [] => ([], st)
  | st, c :: cs =>
    let r := sqStep st c
    let r' := sqRun r.2 cs
    (r.1 ++ r'.1, r'.2)

def squeeze (t : Text) : Text :=
  let r := sqRun none t
  r.1 ++ r.2.getD []

/-- `xml = re.sub(r'[\r\n]', '', xml); xml = re.sub(r'>\s+<', '><', xml)` -/
def cleanup (t : Text) : Text := squeeze (t.filter fun c => c != 10 && c != 13)

/-- the text `generate_wrmheader` encodes, for a given template -/
def wrmText (tmpl : List Seg) (ctx : Ctx) : Text := cleanup (renderRaw tmpl ctx)

/-! ### building the context – playready.py:176-212 -/

structure KeyInfo where
  kid : Bytes
  key : Bytes
  alg : Text
  computed : Bool
  deriving DecidableEq, Repr

/-- decimal digits of a natural number (`f'sl:{self.security_level}'`) -/
def decimal (n : Nat) : Text := (Nat.toDigits 10 n).map Char.toNat

def hexDigit (n : Nat) : Nat := if n < 10 then 48 + n else 87 + n

/-- `KeyMaterial.hex` -/
def hexOf (b : Bytes) : Text := b.flatMap fun x => [hexDigit (x.toNat / 16), hexDigit (x.toNat % 16)]

/-- one `(kid:…,persist:false,sl:…[,contentkey:…])` group (lines 187-194) -/
def cfgOf (sl : Nat) (k : KeyInfo) : Text :=
  [40, 107, 105, 100, 58] ++ b64 (PlayReady.leGuidBytes k.kid)
    ++ [44, 112, 101, 114, 115, 105, 115, 116, 58, 102, 97, 108, 115, 101, 44, 115, 108, 58]
    ++ decimal sl
    ++ (if k.computed then [] else [44, 99, 111, 110, 116, 101, 110, 116, 107, 101, 121, 58] ++ b64 k.key)
    ++ [41]

def joinComma : List Text → Text
  | [] => []
  | [x] => x
  | x :: xs => x ++ [44] ++ joinComma xs

/-- `PlayReady.expand_la_url` (after `fix:` af2fd45): one left-to-right pass of
`re.sub(r'\{(cfgs|default_kid|kids)\}', …)` – exactly these place holders are replaced, every
other brace stays as it is, inserted text is not scanned again.  `none` = the URL contains
`{kids}` (replaced by the `repr` of a list of `bytes`: not modelled). -/
def formatUrl (cfgs defaultKidHex : Text) : Nat → Text → Option Text
  | 0, _ => none
  | _, [] => some []
  | fuel + 1, 123 :: 99 :: 102 :: 103 :: 115 :: 125 :: rest =>
    (formatUrl cfgs defaultKidHex fuel rest).map (cfgs ++ ·)
  | fuel + 1, 123 :: 100 :: 101 :: 102 :: 97 :: 117 :: 108 :: 116 :: 95 :: 107 :: 105 :: 100 :: 125 :: rest =>
    (formatUrl cfgs defaultKidHex fuel rest).map (defaultKidHex ++ ·)
  | _ + 1, 123 :: 107 :: 105 :: 100 :: 115 :: 125 :: _ => none
  | fuel + 1, c :: rest => (formatUrl cfgs defaultKidHex fuel rest).map (c :: ·)

/-- `PlayReady.TEST_LA_URL` -/
def testLaUrl : Text :=
  [104, 116, 116, 112, 115, 58, 47, 47, 116, 101, 115, 116, 46, 112, 108, 97, 121, 114, 101, 97, 100, 121, 46,
   109, 105, 99, 114, 111, 115, 111, 102, 116, 46, 99, 111, 109, 47, 115, 101, 114, 118, 105, 99, 101, 47, 114,
   105, 103, 104, 116, 115, 109, 97, 110, 97, 103, 101, 114, 46, 97, 115, 109, 120, 63, 99, 102, 103, 61, 123,
   99, 102, 103, 115, 125]

/-- the context of lines 176-212.  `Enc` = AES-128-ECB of one block, `keys` in dictionary
order, `defaultKid` = the (big-endian) key id `default_kid.lower()` names, `la` = the licence
URL template (`none` → `TEST_LA_URL`).  `none`: default key id not among the keys
(`KeyError`) or a licence URL with the unmodelled `{kids}` place holder. -/
def buildCtx (Enc : Bytes → Bytes → Bytes) (sl : Nat) (keys : List KeyInfo) (defaultKid : Bytes)
    (la : Option Text) (custom : List Custom) : Option Ctx :=
  match keys.find? (·.kid = defaultKid) with
  | none => none
  | some dk =>
    let cfgs := joinComma (keys.map (cfgOf sl))
    let la := la.getD testLaUrl
    match formatUrl cfgs (hexOf dk.kid) (la.length + 1) la with
    | none => none
    | some url =>
      some { defaultKid := PlayReady.leGuidBytes dk.kid
             checksum := (Enc dk.key (PlayReady.leGuidBytes dk.kid)).take 8
             kids := keys.map fun k =>
               { kid := PlayReady.leGuidBytes k.kid, alg := k.alg
                 checksum := (Enc k.key (PlayReady.leGuidBytes k.kid)).take 8 }
             laUrl := url
             custom := custom }

/-! ### choice of the header version – playready.py:214-229, 378-395 -/

/-- `minimum_header_version(keys)`; `version` = `self.version` ×10, `lastAlgIsAesCtr` = the
`ALG` of the last key is `AESCTR` (true for no keys) -/
def minimumHeaderVersion (version : Option Nat) (lastAlgIsAesCtr : Bool) (nkeys : Nat) : Nat :=
  if !lastAlgIsAesCtr then 43
  else if nkeys = 1 then
    (match version with
     | some v => if v ≥ 20 then 41 else 40
     | none => 40)
  else 42

/-- lines 214-226: the header version `generate_wrmheader` renders (×10).  `none` =
`ValueError` (the minimum header version is not supported by the PlayReady version, or an
explicit header version that has no template). -/
def chooseHeaderVersion (version headerVersion : Option Nat) (lastAlgIsAesCtr : Bool) (nkeys : Nat) :
    Option Nat :=
  match headerVersion with
  | some hv => if hv = 40 || hv = 41 || hv = 42 || hv = 43 then some hv else none
  | none =>
    let hv := minimumHeaderVersion version lastAlgIsAesCtr nkeys
    match version with
    | none => some hv
    | some v =>
      if (hv = 43 && v < 40) || (hv = 42 && v < 30) || (hv = 41 && v < 20) then none else some hv

/-! ### a minimal reader of the WRMHEADER text -/

inductive Tok
  | tag (body : Text)      -- between `<` and `>`
  | text (t : Text)        -- between tags (still escaped)
  deriving DecidableEq, Repr

inductive TkSt
  | idle
  | inTag (buf : Text)
  | inText (buf : Text)
  deriving DecidableEq, Repr

def tkStep (st : TkSt) (c : Nat) : List Tok × TkSt :=
  match st with
  | .idle => if c = 60 then ([], .inTag []) else ([], .inText [c])
  | .inTag b => if c = 62 then ([.tag b], .idle) else ([], .inTag (b ++ [c]))
  | .inText b => if c = 60 then ([.text b], .inTag []) else ([], .inText (b ++ [c]))

def tkRun : TkSt → Text → List Tok × TkSt
  | st, [] => ([], st)
  | st, c :: cs =>
    let r := tkStep st c
    let r' := tkRun r.2 cs
    (r.1 ++ r'.1, r'.2)

/-- tags and text runs of a document (an unfinished tag at the end is dropped) -/
def tokenize (t : Text) : List Tok :=
  let r := tkRun .idle t
  r.1 ++ (match r.2 with | .inText b => [.text b] | _ => [])

/-- element name of a tag body -/
def tagName (body : Text) : Text := body.takeWhile (· != 32)

inductive AtSt
  | skip                          -- between attributes
  | name (buf : Text)             -- reading an attribute name
  | eq (name : Text)              -- after `name=`
  | val (name buf : Text)         -- inside `"…"`
  deriving DecidableEq, Repr

def atStep (st : AtSt) (c : Nat) : List (Text × Text) × AtSt :=
  match st with
  | .skip => if isWs c then ([], .skip) else ([], .name [c])
  | .name b => if c = 61 then ([], .eq b) else if isWs c then ([], .skip) else ([], .name (b ++ [c]))
  | .eq n => if c = 34 then ([], .val n []) else ([], .skip)
  | .val n b => if c = 34 then ([(n, b)], .skip) else ([], .val n (b ++ [c]))

def atRun : AtSt → Text → List (Text × Text) × AtSt
  | st, [] => ([], st)
  | st, c :: cs =>
    let r := atStep st c
    let r' := atRun r.2 cs
    (r.1 ++ r'.1, r'.2)

/-- `name="value"` pairs of a tag body (values still escaped) -/
def attrs (body : Text) : List (Text × Text) := (atRun .skip (body.dropWhile (· != 32))).1

def attrLookup (n : Text) (as : List (Text × Text)) : Option Text :=
  (as.find? (·.1 = n)).map (·.2)

/-- XML entity decoding of the five entities `markupsafe` produces -/
def unescape : Text → Text
  | 38 :: 97 :: 109 :: 112 :: 59 :: r => 38 :: unescape r
  | 38 :: 108 :: 116 :: 59 :: r => 60 :: unescape r
  | 38 :: 103 :: 116 :: 59 :: r => 62 :: unescape r
  | 38 :: 35 :: 51 :: 52 :: 59 :: r => 34 :: unescape r
  | 38 :: 35 :: 51 :: 57 :: 59 :: r => 39 :: unescape r
  | c :: r => c :: unescape r
  | [] => []

/-- text content of the first element whose tag is exactly `<n>` (no attributes):
the text token that follows it, or the empty text -/
def elemText (n : Text) : List Tok → Option Text
  | [] => none
  | .tag b :: rest =>
    if b = n then
      (match rest with
       | .text t :: _ => some t
       | _ => some [])
    else elemText n rest
  | .text _ :: rest => elemText n rest

def b64dec (t : Text) : Option Bytes :=
  match ClearKey.b64decode t with
  | .ok b => some b
  | _ => none

structure KidInfo where
  value : Bytes                 -- the decoded KID (little-endian GUID)
  checksum : Option Bytes
  algid : Option Text
  deriving DecidableEq, Repr

structure WrmInfo where
  version : Option Text
  kids : List KidInfo
  laUrl : Option Text
  deriving DecidableEq, Repr

def kidName : Text := [75, 73, 68]
def checksumName : Text := [67, 72, 69, 67, 75, 83, 85, 77]
def valueName : Text := [86, 65, 76, 85, 69]
def algidName : Text := [65, 76, 71, 73, 68]
def laUrlName : Text := [76, 65, 95, 85, 82, 76]
def wrmheaderName : Text := [87, 82, 77, 72, 69, 65, 68, 69, 82]
def versionName : Text := [118, 101, 114, 115, 105, 111, 110]

/-- a `<KID ALGID=… CHECKSUM=… VALUE=…>` tag (header versions 4.1-4.3);
`none`: not such a tag; `some none`: such a tag whose base64 does not decode -/
def kidOfTag : Tok → Option (Option KidInfo)
  | .text _ => none
  | .tag body =>
    if tagName body ≠ kidName then none else
    let as := attrs body
    match attrLookup valueName as with
    | none => none
    | some v =>
      match b64dec v, (attrLookup checksumName as).map b64dec with
      | some kid, none => some (some ⟨kid, none, (attrLookup algidName as).map unescape⟩)
      | some kid, some (some cs) => some (some ⟨kid, some cs, (attrLookup algidName as).map unescape⟩)
      | _, _ => some none

def allSome {α} : List (Option α) → Option (List α)
  | [] => some []
  | none :: _ => none
  | some x :: xs => (allSome xs).map (x :: ·)

/-- `<KID>base64</KID>` with sibling `<CHECKSUM>` / `<ALGID>` elements (header version 4.0) -/
def kidOfElements (toks : List Tok) : Option (List KidInfo) :=
  match elemText kidName toks with
  | none => some []
  | some t =>
    match b64dec t, (elemText checksumName toks).map b64dec with
    | some kid, none => some [⟨kid, none, (elemText algidName toks).map unescape⟩]
    | some kid, some (some cs) => some [⟨kid, some cs, (elemText algidName toks).map unescape⟩]
    | _, _ => none

/-- the `version` attribute of a `<WRMHEADER …>` tag -/
def versionOf : Tok → Option Text
  | .tag b => if tagName b = wrmheaderName then attrLookup versionName (attrs b) else none
  | .text _ => none

/-- the reader: version attribute of `<WRMHEADER …>`, key ids with checksum and algorithm,
licence URL (entity-decoded).  `none`: a base64 value does not decode. -/
def parseWrmHeader (t : Text) : Option WrmInfo :=
  let toks := tokenize t
  let version := toks.findSome? versionOf
  let tagged := toks.filterMap kidOfTag
  let kids := if tagged.isEmpty then kidOfElements toks else allSome tagged
  match kids with
  | none => none
  | some ks => some ⟨version, ks, (elemText laUrlName toks).map unescape⟩

end DashLive.WrmHeader
