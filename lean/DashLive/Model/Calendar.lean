/-!
# Proleptic Gregorian calendar as a *subtractive walk* (DESIGN.md §5)

`dashlive/mpeg/dash/timing.py:105-119` resolves the symbolic start values with
`now.replace(hour=0, …)`, `now.replace(day=1, …)` and `now.replace(month=1, day=1, …)`.
All three are functions of the UTC *day number* `d` (days since 1970-01-01) only.
They are modelled by peeling whole years, then whole months, off the day number:

* `yearAndDoy d  = (y, doy)`  – calendar year and 0-based day of the year,
* `monthAndDom y doy = (m, dom)` – month 1…12 and 0-based day of the month,
* `yearStartDay d = d - doy`, `monthStartDay d = d - dom`.

`yearStartDay d ≤ monthStartDay d ≤ d` therefore hold by construction for every
`d` (proved in `Lemmas/Calendar.lean`).  That the walk is Python's proleptic
Gregorian calendar (`datetime.date.fromordinal`) is a correspondence obligation
(channel `calendar`, every day 1970-01-01 … 2243-12-31 on each run).

No imports: this file is linked into the `driver` executable.
-/
namespace DashLive.Calendar

/-- Gregorian leap year rule -/
def isLeap (y : Nat) : Bool := y % 4 == 0 && (y % 100 != 0 || y % 400 == 0)

def yearLen (y : Nat) : Nat := if isLeap y then 366 else 365

/-- length of month `m` (1 = January … 12 = December) of year `y` -/
def monthLen (y m : Nat) : Nat :=
  if m == 2 then (if isLeap y then 29 else 28)
  else if m == 4 || m == 6 || m == 9 || m == 11 then 30
  else 31

/-- peel whole years: `d` days after 1 January of year `y` ↦ (year, day of year).
`fuel` bounds the number of years peeled (sufficient when `d ≤ 365 * fuel`,
`Lemmas/Calendar.lean: peelYears_lt`). -/
def peelYears : Nat → Nat → Nat → Nat × Nat
  | 0, y, d => (y, d)
  | fuel + 1, y, d =>
    if d < yearLen y then (y, d) else peelYears fuel (y + 1) (d - yearLen y)

/-- peel whole months: `d` days after the first of month `m` of year `y` ↦ (month, day of month) -/
def peelMonths : Nat → Nat → Nat → Nat → Nat × Nat
  | 0, _, m, d => (m, d)
  | fuel + 1, y, m, d =>
    if d < monthLen y m then (m, d) else peelMonths fuel y (m + 1) (d - monthLen y m)

/-- (year, 0-based day of year) of day number `d` (days since 1970-01-01) -/
def yearAndDoy (d : Nat) : Nat × Nat := peelYears d 1970 d

/-- (month 1…12, 0-based day of month) of the `doy`-th day of year `y` -/
def monthAndDom (y doy : Nat) : Nat × Nat := peelMonths 12 y 1 doy

/-- 0-based day of the year of day number `d` -/
def dayOfYear (d : Nat) : Nat := (yearAndDoy d).2

/-- 0-based day of the month of day number `d` -/
def dayOfMonth (d : Nat) : Nat := (monthAndDom (yearAndDoy d).1 (yearAndDoy d).2).2

/-- day number of 1 January of the year containing day `d`
(`now.replace(month=1, day=1, hour=0, …)`) -/
def yearStartDay (d : Nat) : Nat := d - dayOfYear d

/-- day number of the first of the month containing day `d`
(`now.replace(day=1, hour=0, …)`) -/
def monthStartDay (d : Nat) : Nat := d - dayOfMonth d

/-- civil date (year, month, day-of-month 1…31) of day number `d` -/
def civil (d : Nat) : Nat × Nat × Nat :=
  let yd := yearAndDoy d
  let md := monthAndDom yd.1 yd.2
  (yd.1, md.1, md.2 + 1)

end DashLive.Calendar
