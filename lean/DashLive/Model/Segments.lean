/-
Shared model of the segment arithmetic of `dashlive/mpeg/dash/representation.py`,
`dashlive/mpeg/dash/reference.py` and the segment-index part of
`dashlive/server/requesthandler/media_requests.py` (DESIGN.md §7.0).
Used by C01, C02, C06, C09.  Import-free (core Lean only).

Notation (DESIGN.md §7): a representation has timescale `ts`, media-segment
durations `durs = [d₁ … dₙ]` (`Representation.segments[1:]`), `sd` =
`segment_duration`, `sn` = `start_number`, `st` = `start_time`; the stream's
timing reference expressed in the representation's timescale is
`R = media_duration_using_timescale(ts)`; `drift = R − Σ durs`.
Indices into `durs` are 0-based here (`m = mod_segment − 1`).
-/
namespace DashLive.Segments

/-- duration of stored media segment `k` (0-based); 0 outside the list -/
def durAt (durs : List Nat) (k : Nat) : Nat := durs.getD k 0

/-- decode position of stored segment `k` relative to the first: `Σ_{i<k} dᵢ`
(`Segment.start`, representation.py:139-142) -/
def prefixSum (durs : List Nat) (k : Nat) : Nat := (durs.take k).sum

/-- `StreamTimingReference.media_duration_using_timescale` (reference.py:19-23) -/
def refDuration (refDur refTs ts : Nat) : Nat := refDur * ts / refTs

/-! ### `Representation.get_segment_index` (representation.py:577-598) -/

/-- the `while` loop; state `(m, seg_start_tc, origin_time)` with `m = mod_segment − 1` -/
def gsiLoop (durs : List Nat) (R tc : Nat) : Nat → Nat → Nat → Nat → Nat × Nat × Nat
  | 0, m, s, o => (m, s, o)
  | fuel+1, m, s, o =>
    if s + durAt durs m / 2 < tc then
      if m + 1 ≥ durs.length then gsiLoop durs R tc fuel 0 (o + R) (o + R)
      else gsiLoop durs R tc fuel (m + 1) (s + durAt durs m) o
    else (m, s, o)

/-- returns `(mod_segment (1-based), seg_start_tc, origin_time)`; the walk visits at
most one full loop plus the first segment of the next, so `n + 1` iterations
suffice (theorem `gsi_fuel_suffices`). -/
def getSegmentIndex (durs : List Nat) (R tc : Nat) : Nat × Nat × Nat :=
  let o := tc / R * R
  let r := gsiLoop durs R tc (durs.length + 1) 0 o o
  (r.1 + 1, r.2.1, r.2.2)

/-! ### the global segment sequence (specification side)

Position `g` of the endless looped presentation is loop `g / n`, stored segment
`g % n`. -/

def startG (durs : List Nat) (R g : Nat) : Nat :=
  g / durs.length * R + prefixSum durs (g % durs.length)

def durG (durs : List Nat) (g : Nat) : Nat := durAt durs (g % durs.length)

/-- duration the *timeline* advertises: the last segment of each loop is
stretched by `drift = R − Σ durs` (representation.py:430-432) -/
def durG' (durs : List Nat) (R g : Nat) : Int :=
  (durG durs g : Int) +
    (if g % durs.length + 1 = durs.length then (R : Int) - (durs.sum : Int) else 0)

/-! ### `generateSegmentTimeline` (representation.py:401-446) -/

/-- one `<S>` element: `t` (only on the first), `d`, and `count = r + 1` -/
structure SNode where
  start : Option Int
  dur : Option Int
  count : Nat
  deriving DecidableEq, Repr

def SNode.fresh : SNode := { start := none, dur := none, count := 0 }

def outputNode (acc : List SNode) (s : SNode) : List SNode :=
  if s.dur.isSome then acc ++ [s] else acc

/-- the `while dur < end` loop.  `m` is `mod_segment − 1`, `acc` the finished
nodes, `cur` the node being filled. -/
def tlLoop (durs : List Nat) (drift : Int) (segStart : Int) (end_ : Int) :
    Nat → Int → Nat → SNode → List SNode → List SNode
  | 0, _, _, cur, acc => outputNode acc cur
  | fuel+1, dur, m, cur, acc =>
    if dur < end_ then
      let d : Int := (durAt durs m : Int) + (if m + 1 = durs.length then drift else 0)
      let (cur', acc') :=
        if dur = 0 then ({ cur with start := some segStart }, acc)
        else if some d ≠ cur.dur then (SNode.fresh, outputNode acc cur)
        else (cur, acc)
      let cur'' := { cur' with dur := some d, count := cur'.count + 1 }
      let m' := if m + 1 ≥ durs.length then 0 else m + 1
      tlLoop durs drift segStart end_ fuel (dur + d) m' cur'' acc'
    else outputNode acc cur

/-- live timeline: starts at the segment found for `timeline_start = tc(firstAvailableTime)`
and runs for `timeShiftBufferDepth * timescale` ticks.  `fuel` is supplied by the caller
(the loop adds ≥ 1 tick per iteration when every advertised duration is positive, so
`end` iterations suffice – lemma `tl_fuel`). -/
def timelineLive (durs : List Nat) (R ts : Nat) (tcF : Nat) (tsbd : Nat) (fuel : Nat) : List SNode :=
  let r := getSegmentIndex durs R tcF
  let drift : Int := (R : Int) - (durs.sum : Int)
  tlLoop durs drift (r.2.1 : Int) ((tsbd * ts : Nat) : Int) fuel 0 (r.1 - 1) SNode.fresh []

/-- VOD timeline: from segment 1 at time 0, no drift, until the track's own media
duration (`end = self.mediaDuration`, after the `fix:` for D18; before it the loop ran
to the reference duration and could wrap) -/
def timelineVod (durs : List Nat) (fuel : Nat) : List SNode :=
  tlLoop durs 0 0 (durs.sum : Int) fuel 0 0 SNode.fresh []

/-- DASH meaning of a `SegmentTimeline`: the list of `(t, d)` of every segment;
`t` continues from the previous end when absent -/
def expandFrom : Int → List SNode → List (Int × Int)
  | _, [] => []
  | t, s :: rest =>
    let t0 := s.start.getD t
    let d := s.dur.getD 0
    let here := (List.range s.count).map fun (i : Nat) => (t0 + (i : Int) * d, d)
    here ++ expandFrom (t0 + s.count * d) rest

def expand (l : List SNode) : List (Int × Int) := expandFrom 0 l

/-! ### first/last segment number and the availability gate -/

/-- the live window the handlers receive from `DashTiming` (all µs except `tsbd`):
`E` = elapsedTime, `tsbd` = timeShiftBufferDepth (whole seconds), `leeway`.
`firstAvailableTime = E − tsbd·10⁶` (timing.py:146-147). -/
structure Win where
  E : Nat
  tsbd : Nat
  leeway : Nat
  deriving Repr

def Win.F (w : Win) : Int := (w.E : Int) - (w.tsbd : Int) * 1000000

/-- `timedelta_to_timecode` for a non-negative delta given in µs (date_time.py:256-263):
exact integer arithmetic, equals `⌊us·ts/10⁶⌋`. -/
def tdToTc (us ts : Nat) : Nat :=
  let days := us / 86400000000
  let rem := us % 86400000000
  ts * days * 86400 + ts * (rem / 1000000) + ts * (rem % 1000000) / 1000000

/-- `int(scale_timedelta(E, ts, sd))` (date_time.py:239-249) for exact arithmetic:
`⌊⌊E·ts/10⁶⌋ / sd⌋`.  (The Python goes through a float division; the
correspondence check validates the integer model while `E·ts/10⁶ < 2⁵³`.) -/
def scaleTd (us ts sd : Nat) : Nat :=
  let days := us / 86400000000
  let rem := us % 86400000000
  (ts * days * 86400 + ts * (rem / 1000000) + ts * (rem % 1000000) / 1000000) / sd

/-- `calculate_first_and_last_segment_number`, live branch (representation.py:470-482) -/
def firstLastLive (ts sd sn : Nat) (w : Win) : Int × Int :=
  let last : Int := (sn : Int) + (scaleTd w.E ts sd : Int)
  let first : Int := last - 1 - ((ts * w.tsbd / sd : Nat) : Int) - 1
  (max (sn : Int) first, last)

/-- VOD branch (representation.py:468-469) -/
def firstLastVod (n sn : Nat) : Int × Int := ((sn : Int), (n : Int) + sn - 1)

inductive Req
  | time (t : Nat)
  | number (n : Int)
  deriving Repr, DecidableEq

/-- result of the handler's index calculation: `ok mod_segment origin_time seg_num` or 404 -/
inductive Res
  | ok (modSeg : Nat) (origin : Nat) (segNum : Int)
  | notFound
  deriving Repr, DecidableEq

/-- `LiveMedia.calculate_media_segment_index` for `mode = live`
(media_requests.py:434-474 + representation.py:499-537), including the `fix:`
for D8 (a number derived from `$Time$` gets `start_number` added before the
`first..last` gate).  `conv` is `timescale_to_timedelta` (float division, result
in µs) – a parameter, see `ConvSpec` in Lemmas/Segments.lean.
A negative timecode (`$Number$` below `start_number`) always ends in 404: either
the availability test refuses it or `calculate_segment_from_timecode` raises. -/
def liveIndex (conv : Nat → Int) (durs : List Nat) (ts sd sn R : Nat) (w : Win) (rq : Req) : Res :=
  let fl := firstLastLive ts sd sn w
  -- timecode and segment_num (representation.py:511-519, media_requests.py:451-454)
  let tc : Int := match rq with
    | .time t => (t : Int)
    | .number n => (n - sn) * sd
  let num : Int := match rq with
    | .time t => ((t / sd : Nat) : Int) + sn
    | .number n => n
  if tc < 0 then .notFound else
  let segDelta : Int := conv tc.toNat
  let fta : Int := w.F - w.leeway
  if segDelta < fta ∨ segDelta > (w.E : Int) then .notFound
  else if durs.length < 2 then .notFound  -- "At least 2 media segments are required"
  else
    let r := getSegmentIndex durs R tc.toNat
    if num < fl.1 ∨ num > fl.2 then .notFound
    else .ok r.1 r.2.2 num

/-- `calculate_segment_number_and_time` + gate for `mode = vod`
(representation.py:492-497, media_requests.py:459-470) -/
def vodIndex (n sd sn : Nat) (rq : Req) : Res :=
  let num : Int := match rq with
    | .time t => (((t + sd / 4) / sd : Nat) : Int) + sn
    | .number k => k
  let fl := firstLastVod n sn
  if num < fl.1 ∨ num > fl.2 then .notFound
  else .ok (1 + num - sn).toNat 0 num

/-- decode time written into the served segment (media_requests.py:186-208):
stored `tfdt` (or the synthesised `Σ durations before`) plus `origin_time`.
`stored k` is the `base_media_decode_time` of stored segment `k` (0-based) when the
file has a tfdt box. -/
def servedTfdt (durs : List Nat) (stored : Option (Nat → Nat)) (modSeg origin : Nat) : Nat :=
  (match stored with
   | some f => f (modSeg - 1)
   | none => prefixSum durs (modSeg - 1)) + origin

/-- `moof.mfhd.sequence_number = seg_num & 0xFFFFFFFF` (media_requests.py, after the `fix:` 5803dd6: a
32-bit field; Python's `&` on an int of any sign is the remainder modulo 2³²) -/
def servedSeq (segNum : Int) : Int := segNum % 4294967296

end DashLive.Segments
