/-
Model of the dash-live *management store* for property C17: the object graph
kept in the database (Stream, MediaFile, Blob, Key, mediafile↔key links,
MultiPeriodStream, Period, AdaptationSet, MediaFileError rows), each stream's
timing reference, and the set of blob files on disk, together with the
management API calls that change them.

Import-free (core Lean only) so that the line-protocol driver can be compiled.

What is modelled, and where it comes from (all paths below `dashlive/server`):

* tables are lists of rows in insertion order; a new primary key is
  `max(existing keys) + 1` (SQLite `INTEGER PRIMARY KEY` without AUTOINCREMENT:
  keys of deleted rows at the top of the range are re-used);
* ownership / cascade rules of the ORM declarations
  (`models/stream.py:56` media_files, `:59` periods; `models/mediafile.py:54-55`
  blob, `:76` secondary `mediafile_keys`, `:78-79` errors;
  `models/multi_period_stream.py:35-36` periods; `models/period.py:43-44`
  adaptation_sets);
* `Stream.add_file` (`models/stream.py` replace-on-same-name, refusal of names
  owned elsewhere), `MediaFile.parse_media_file` (`models/mediafile.py:206-279`),
  `MediaFile.modify_media_file` (`:281-350`) + `utils/files.py`
  `generate_new_filename`;
* the handlers of `requesthandler/streams.py`, `media_management.py`,
  `keypairs.py`, `multi_period_streams.py` including their failure results,
  abstracted to `ok` / `nf` (404: the addressed object does not exist) /
  `rej` (every other refusal or failure: 4xx, 200 with an error list, 5xx from a
  violated database constraint).  A refused request leaves the database
  unchanged (no commit / rollback), but may already have touched the disk.

What a blob file *contains* is abstracted to what the indexer will find in it
(`Content`): whether it can be indexed at all, track id, content type,
encryption and key ids, and whether the language tag is invalid.

Not modelled: authentication/CSRF (C15), column values that no reference or
constraint depends on (URLs, bitrate, codec strings, key material, period
start/duration), SQLAlchemy's unit of work and SQLite themselves – the
refinement `abs(real) = step(abs(real before))` is checked after every step of
every history by the `store_hist` correspondence channel.
-/
namespace DashLive.Store

/-- what the bytes of a blob file are, as far as indexing is concerned -/
structure Content where
  idx     : Bool          -- a fragmented MP4 with ≥ 2 media segments
  ctype   : Nat           -- 0 video, 1 audio, 2 text
  track   : Nat
  enc     : Bool
  kids    : List String   -- key ids (hex) in the order the indexer meets them
  badlang : Bool          -- language tag is not valid BCP-47
  deriving DecidableEq, Repr

/-- the columns `parse_media_file` fills in -/
structure Rep where
  track : Nat
  ctype : Nat
  enc   : Bool
  deriving DecidableEq, Repr

structure Stream where
  pk    : Nat
  dir   : String
  title : String
  tref  : Option String     -- `timing_ref['media_name']`
  deriving DecidableEq, Repr

structure Blob where
  pk       : Nat
  filename : String
  deriving DecidableEq, Repr

structure MediaFile where
  pk     : Nat
  name   : String
  stream : Nat              -- `stream_pk`
  blob   : Nat              -- `blob_pk`
  rep    : Option Rep       -- `none`: not indexed
  errs   : List Nat         -- reasons of the MediaFileError rows
  deriving DecidableEq, Repr

structure Key where
  pk       : Nat
  kid      : String
  computed : Bool
  deriving DecidableEq, Repr

structure Mps where
  pk    : Nat
  name  : String
  title : String
  deriving DecidableEq, Repr

structure Period where
  pk       : Nat
  pid      : String
  parent   : Nat            -- `parent_pk`
  stream   : Nat            -- `stream_pk`
  ordering : Nat
  deriving DecidableEq, Repr

structure Adp where
  pk     : Nat
  period : Nat              -- `period_pk`
  track  : Nat
  deriving DecidableEq, Repr

structure DiskFile where
  dir      : String
  filename : String
  content  : Content
  deriving DecidableEq, Repr

structure St where
  streams : List Stream
  files   : List MediaFile
  blobs   : List Blob
  keys    : List Key
  links   : List (Nat × Nat)      -- (media_pk, key_pk)
  mps     : List Mps
  periods : List Period
  adps    : List Adp
  disk    : List DiskFile
  deriving DecidableEq, Repr

def init : St :=
  { streams := [], files := [], blobs := [], keys := [], links := [], mps := [],
    periods := [], adps := [], disk := [] }

inductive Res | ok | nf | rej
  deriving DecidableEq, Repr

/-- one Period of the JSON body of the multi-period API -/
structure PSpec where
  pk       : Option Nat
  pid      : String
  stream   : Nat
  ordering : Nat
  tracks   : List Nat
  /-- the Period (start snapped to a segment boundary, plus its duration) ends inside the stream it
  plays: `period.start + period.duration <= stream.duration()`.  Period start and duration are
  columns nothing refers to, so the model keeps only this verdict; the harness computes it from the
  stream's timing reference. -/
  fits     : Bool := true
  deriving DecidableEq, Repr

inductive Op
  | addStream (dir title : String)
  | editStream (spk : Nat) (dir title tref : String)      -- `tref = ""`: no timing reference
  | delStream (spk : Nat)
  | setDefaults (spk : Nat) (valid : Bool)                -- `valid`: every submitted option value is legal
  | upload (spk : Nat) (stem suffix : String) (c : Content)
  | index (mfid : Nat)
  | editMedia (spk mfid track : Nat)
  | delMedia (spk mfid : Nat)
  | addKey (kid : String) (computed : Bool)
  | editKey (kpk : Nat) (computed : Bool)
  | delKey (kpk : Nat)
  | addMps (name title : String) (periods : List PSpec)
  | editMps (urlName : String) (bodyPk : Option Nat) (name title : String) (periods : List PSpec)
  | delMps (name : String)
  deriving Repr

/-! ### primary keys -/

def maxPk : List Nat → Nat
  | [] => 0
  | a :: l => max a (maxPk l)

/-- SQLite rowid allocation: one more than the largest key in use -/
def fresh (pks : List Nat) : Nat := maxPk pks + 1

/-- executable "no duplicates" (database UNIQUE constraints) -/
def nodupB {α} [BEq α] : List α → Bool
  | [] => true
  | a :: l => !l.contains a && nodupB l

/-! ### lookups -/

def findStream (s : St) (k : Nat) : Option Stream := s.streams.find? (·.pk == k)
def findFile (s : St) (k : Nat) : Option MediaFile := s.files.find? (·.pk == k)
def findKey (s : St) (k : Nat) : Option Key := s.keys.find? (·.pk == k)
def findBlob (s : St) (k : Nat) : Option Blob := s.blobs.find? (·.pk == k)
def findMps (s : St) (n : String) : Option Mps := s.mps.find? (·.name == n)

def onDisk (d : List DiskFile) (dir fn : String) : Option DiskFile :=
  d.find? (fun x => x.dir == dir && x.filename == fn)

def rmDisk (d : List DiskFile) (dir fn : String) : List DiskFile :=
  d.filter (fun x => !(x.dir == dir && x.filename == fn))

/-- `FileStorage.save` / writing a new file: replaces a file of the same path -/
def writeDisk (d : List DiskFile) (dir fn : String) (c : Content) : List DiskFile :=
  rmDisk d dir fn ++ [{ dir := dir, filename := fn, content := c }]

/-! ### cascades -/

/-- `session.delete(mf)`: the row, its blob (mediafile.py:54-55 cascade), its
key links (secondary table) – nothing on disk -/
def dropFile (s : St) (f : MediaFile) : St :=
  { s with files := s.files.filter (·.pk != f.pk),
           blobs := s.blobs.filter (·.pk != f.blob),
           links := s.links.filter (·.1 != f.pk) }

/-- `session.delete(stream)`: media files → blobs, links (stream.py:56), and the
periods that play it → their adaptation sets (stream.py:59, period.py:43-44) -/
def dropStream (s : St) (k : Nat) : St :=
  let gone := s.files.filter (·.stream == k)
  let goneP := s.periods.filter (·.stream == k)
  { s with streams := s.streams.filter (·.pk != k),
           files := s.files.filter (·.stream != k),
           blobs := s.blobs.filter (fun b => !gone.any (·.blob == b.pk)),
           links := s.links.filter (fun l => !gone.any (·.pk == l.1)),
           periods := s.periods.filter (·.stream != k),
           adps := s.adps.filter (fun a => !goneP.any (·.pk == a.period)) }

/-- `session.delete(key)`: the row and its links -/
def dropKey (s : St) (k : Nat) : St :=
  { s with keys := s.keys.filter (·.pk != k), links := s.links.filter (·.2 != k) }

/-- `session.delete(mps)`: periods (multi_period_stream.py:35-36) → adaptation sets -/
def dropMps (s : St) (k : Nat) : St :=
  let goneP := s.periods.filter (·.parent == k)
  { s with mps := s.mps.filter (·.pk != k),
           periods := s.periods.filter (·.parent != k),
           adps := s.adps.filter (fun a => !goneP.any (·.pk == a.period)) }

/-! ### indexing (`parse_media_file`, success path, mediafile.py:257-279) -/

/-- `for kid in rep.kids`: link the key of each kid, creating a computed key when
there is none (mediafile.py:264-272) -/
def linkKids (keys : List Key) (links : List (Nat × Nat)) (mf : Nat) :
    List String → List Key × List (Nat × Nat)
  | [] => (keys, links)
  | kid :: rest =>
    match keys.find? (·.kid == kid) with
    | some k =>
      linkKids keys (if links.contains (mf, k.pk) then links else links ++ [(mf, k.pk)]) mf rest
    | none =>
      let k : Key := { pk := fresh (keys.map (·.pk)), kid := kid, computed := true }
      linkKids (keys ++ [k]) (links ++ [(mf, k.pk)]) mf rest

/-- reason code of ErrorReason.INVALID_LANGUAGE_TAG -/
def errBadLang : Nat := 3

/-- a successful `parse_media_file` of content `c` for media file `mfid` -/
def applyIndex (s : St) (mfid : Nat) (c : Content) : St :=
  let r := linkKids s.keys (s.links.filter (·.1 != mfid)) mfid c.kids
  { s with
    files := s.files.map (fun f =>
      if f.pk == mfid then
        { f with rep := some { track := c.track, ctype := c.ctype, enc := c.enc },
                 errs := if c.badlang then [errBadLang] else [] }
      else f),
    keys := r.1, links := r.2 }

/-! ### file names (`utils/files.py`, `pathlib`) -/

def pad2 (k : Nat) : String := if k < 10 then "0" ++ toString k else toString k

/-- `Path(name).stem`, `Path(name).suffix` -/
def splitExt (fn : String) : String × String :=
  match (fn.splitOn ".").reverse with
  | [] => (fn, "")
  | [_] => (fn, "")
  | last :: revInit => (".".intercalate revInit.reverse, "." ++ last)

def candidate (stem suffix : String) : Nat → String
  | 0 => stem ++ suffix
  | k + 1 => stem ++ "_" ++ pad2 (k + 1) ++ suffix

/-- `generate_new_filename`: the first of `stem.suf`, `stem_01.suf`, … that is not
on disk in `dir`; `fuel` bounds the search (one more than the files on disk) -/
def newName (d : List DiskFile) (dir stem suffix : String) : Nat → Nat → String
  | 0, k => candidate stem suffix k
  | fuel + 1, k =>
    if (onDisk d dir (candidate stem suffix k)).isSome then newName d dir stem suffix fuel (k + 1)
    else candidate stem suffix k

/-! ### multi-period streams (`process_period`, multi_period_streams.py:75-158) -/

/-- create the AdaptationSet rows the request names and the period lacks -/
def syncTracks (adps : List Adp) (ppk : Nat) : List Nat → List Adp
  | [] => adps
  | t :: ts =>
    if adps.any (fun a => a.period == ppk && a.track == t) then syncTracks adps ppk ts
    else syncTracks (adps ++ [{ pk := fresh (adps.map (·.pk)), period := ppk, track := t }]) ppk ts

/-- the Period row a spec addresses: by primary key when the request gives one,
else by `pid` among the Periods of the multi-period stream
(multi_period_streams.py:86-89) -/
def findPeriod (s : St) (mpsPk : Nat) (sp : PSpec) : Option Period :=
  match sp.pk with
  | some p => s.periods.find? (·.pk == p)
  | none => s.periods.find? (fun q => q.pid == sp.pid && q.parent == mpsPk)

/-- update the addressed Period row, or create one (multi_period_streams.py:90-92,
106-122); returns the Period's primary key and the new table -/
def upsertPeriod (s : St) (mpsPk : Nat) (sp : PSpec) : Option Period → Nat × List Period
  | some q => (q.pk, s.periods.map (fun x =>
      if x.pk == q.pk then { x with pid := sp.pid, stream := sp.stream, ordering := sp.ordering }
      else x))
  | none =>
    (fresh (s.periods.map (·.pk)),
     s.periods ++ [{ pk := fresh (s.periods.map (·.pk)), pid := sp.pid, parent := mpsPk,
                     stream := sp.stream, ordering := sp.ordering }])

/-- One Period of a request.  `none`: the request is refused (unknown stream, no
usable timing reference).  Otherwise the state with the Period created/updated
and the missing AdaptationSet rows created, and the primary keys of the
AdaptationSet rows of that Period the request no longer names
(`unused_tracks`, deleted by the caller: `session.delete` is flushed later). -/
def processPeriod (s : St) (mpsPk : Nat) (sp : PSpec) : Option (St × List Nat) :=
  match findStream s sp.stream with
  | none => none
  | some st =>
    match st.tref with
    | none => none
    | some n =>
      match s.files.find? (fun f => f.name == n && f.stream == st.pk) with
      | none => none
      | some tf =>
        if tf.rep.isNone then none else
        if !sp.fits then none else       -- "Period … ends after the end of stream …"
        let r := upsertPeriod s mpsPk sp (findPeriod s mpsPk sp)
        let adps1 := syncTracks s.adps r.1 sp.tracks
        let doomed := (adps1.filter (fun a => a.period == r.1 && !sp.tracks.contains a.track)).map (·.pk)
        some ({ s with periods := r.2, adps := adps1 }, doomed)

def dropAdps (s : St) (doomed : List Nat) : St :=
  { s with adps := s.adps.filter (fun a => !doomed.contains a.pk) }

/-- the UNIQUE constraints a flush can still violate (everything else is
excluded by an explicit check in the handler): Stream.directory,
mp_stream.name, period(parent_pk, pid), adaptation_set(period_pk, track_id) -/
def uniqOK (s : St) : Bool :=
  nodupB (s.streams.map (·.dir)) && nodupB (s.mps.map (·.name)) &&
  nodupB (s.periods.map (fun p => (p.parent, p.pid))) &&
  nodupB (s.adps.map (fun a => (a.period, a.track)))

/-- all Periods of a request, in order.  `defer = false` (`AddStream.put`, autoflush
active): the deletions of one Period are flushed before the next Period is
processed.  `defer = true` (`EditStream.post` runs under `no_autoflush`): every
INSERT is flushed before any DELETE, so new primary keys are allocated above the
rows that are about to be deleted.  A UNIQUE constraint violated by the rows of
one Period fails the request (IntegrityError at the flush). -/
def processPeriods (defer : Bool) (s : St) (mpsPk : Nat) : List PSpec → List Nat → Option St
  | [], doomed => some (dropAdps s doomed)
  | sp :: rest, doomed =>
    match processPeriod s mpsPk sp with
    | none => none
    | some (s', d) =>
      if !uniqOK s' then none
      else if defer then processPeriods defer s' mpsPk rest (doomed ++ d)
      else processPeriods defer (dropAdps s' d) mpsPk rest doomed

/-- commit `s'`, or fail with an IntegrityError and keep `s` -/
def commit (s s' : St) : St × Res := if uniqOK s' then (s', .ok) else (s, .rej)

/-! ### the operations -/

/-- `st = Stream.get(directory=…); if st: session.delete(st); session.flush()` – a stream
that already uses the directory is deleted, with everything it owns (since /repo 9090ca4) -/
def dropDir (s : St) (dir : String) : St :=
  match s.streams.find? (·.dir == dir) with
  | some st => dropStream s st.pk
  | none => s

def appendStream (s : St) (dir title : String) : St :=
  { s with streams := s.streams ++
      [{ pk := fresh (s.streams.map (·.pk)), dir := dir, title := title, tref := none }] }

/-- `AddStream.add_stream` (streams.py, PUT and the HTML form POST of /streams/add): a new
stream; a stream of the same directory is replaced -/
def addStream (s : St) (dir title : String) : St × Res :=
  (appendStream (dropDir s dir) dir title, .ok)

/-- `EditStream.post` (streams.py:294-341) -/
def editStream (s : St) (spk : Nat) (dir title tref : String) : St × Res :=
  match findStream s spk with
  | none => (s, .nf)
  | some st =>
    let dir' := if s.files.any (·.stream == spk) then st.dir else dir
    let upd (t : Option String) : St × Res :=
      commit s { s with streams := s.streams.map (fun x =>
        if x.pk == spk then { x with dir := dir', title := title, tref := t } else x) }
    if tref == "" then upd none
    else
      match s.files.find? (fun f => f.name == tref && f.stream == spk) with
      | none => (s, .rej)
      | some mf => upd (if mf.rep.isSome then some mf.name else none)

/-- `EditStreamDefaults.post` (streams.py): the saved option defaults are a JSON
column of the Stream row that no reference or constraint depends on, so the
modelled state does not change; an illegal option value is refused (400) -/
def setDefaults (s : St) (spk : Nat) (valid : Bool) : St × Res :=
  match findStream s spk with
  | none => (s, .nf)
  | some _ => (s, if valid then .ok else .rej)

/-- `EditStream.delete` / `DeleteStream.delete_model` (streams.py:343-356, 444-452) -/
def delStream (s : St) (spk : Nat) : St × Res :=
  match findStream s spk with
  | none => (s, .nf)
  | some _ => (dropStream s spk, .ok)

/-- `Stream.add_file` refuses a name that belongs to a media file of another
stream, or whose blob file name belongs to another media file (stream.py add_file) -/
def uploadRefused (s : St) (spk : Nat) (fn : String) (mf : Option MediaFile) : Bool :=
  let foreign : Bool := match mf with
    | some f => f.stream != spk
    | none => false
  let blobOwner : Option MediaFile :=
    match s.blobs.find? (·.filename == fn) with
    | none => none
    | some b => s.files.find? (·.blob == b.pk)
  let taken : Bool := match blobOwner with
    | none => false
    | some o => match mf with
      | some f => o.pk != f.pk
      | none => true
  foreign || taken

/-- `if mf: mf.delete()` – the rows of the replaced file -/
def dropOpt (s : St) : Option MediaFile → St
  | some f => dropFile s f
  | none => s

/-- `if mf: mf.delete_file()` – the replaced file on disk -/
def diskAfterDrop (s : St) (st : Stream) : Option MediaFile → List DiskFile
  | some f => (match findBlob s f.blob with
    | some b => rmDisk s.disk st.dir b.filename
    | none => s.disk)
  | none => s.disk

/-- `blob = Blob.get_one(filename=…); if blob: blob.delete()` – an ownerless blob row of that name -/
def dropOrphan (blobs : List Blob) (fn : String) : List Blob :=
  match blobs.find? (·.filename == fn) with
  | some b => blobs.filter (·.pk != b.pk)
  | none => blobs

/-- the rest of `Stream.add_file` for an accepted upload into stream `st`;
`mf` is the media file of that name (`MediaFile.get(name=stem)`) -/
def uploadAccepted (s : St) (st : Stream) (stem suffix : String) (c : Content)
    (mf : Option MediaFile) : St :=
  let fn := stem ++ suffix
  let s1 := dropOpt s mf
  let disk1 := diskAfterDrop s st mf
  let blobs2 := dropOrphan s1.blobs fn
  let disk2 := if (s1.blobs.find? (·.filename == fn)).isSome then rmDisk disk1 st.dir fn else disk1
  let bpk := fresh (blobs2.map (·.pk))
  let fpk := fresh (s1.files.map (·.pk))
  { s1 with disk := writeDisk disk2 st.dir fn c,
            blobs := blobs2 ++ [{ pk := bpk, filename := fn }],
            files := s1.files ++ [{ pk := fpk, name := stem, stream := st.pk, blob := bpk,
                                    rep := none, errs := [] }] }

/-- `UploadHandler.post` → `Stream.add_file` (media_management.py:64-110, stream.py add_file) -/
def upload (s : St) (spk : Nat) (stem suffix : String) (c : Content) : St × Res :=
  match findStream s spk with
  | none => (s, .nf)
  | some st =>
    let mf := s.files.find? (·.name == stem)
    if uploadRefused s spk (stem ++ suffix) mf then (s, .rej)
    else (uploadAccepted s st stem suffix c mf, .ok)

/-- the file on disk that belongs to a media file -/
def blobOnDisk (s : St) (f : MediaFile) : Option (Stream × Blob × DiskFile) :=
  match findStream s f.stream with
  | none => none
  | some st =>
    match findBlob s f.blob with
    | none => none
    | some b =>
      match onDisk s.disk st.dir b.filename with
      | none => none
      | some d => some (st, b, d)

/-- `IndexMediaFile.get` (media_management.py:341-377): only a successful parse is committed -/
def index (s : St) (mfid : Nat) : St × Res :=
  match findFile s mfid with
  | none => (s, .nf)
  | some f =>
    match blobOnDisk s f with
    | none => (s, .rej)
    | some (_, _, d) => if d.content.idx then (applyIndex s mfid d.content, .ok) else (s, .rej)

/-- the database side of a successful `modify_media_file` (mediafile.py:334-350):
a new blob row `nn`, the media file re-pointed to it and re-indexed from the new
content, the old blob row deleted (`auto_delete`) -/
def editMediaApply (s : St) (f : MediaFile) (nn : String) (c' : Content) : St :=
  let bpk := fresh (s.blobs.map (·.pk))
  let s1 : St := { s with
    blobs := s.blobs ++ [{ pk := bpk, filename := nn }],
    files := s.files.map (fun x => if x.pk == f.pk then { x with blob := bpk } else x) }
  let s2 := applyIndex s1 f.pk c'
  { s2 with blobs := s2.blobs.filter (·.pk != f.blob) }

/-- `EditMedia.post` → `modify_media_file` (media_management.py:234-284, mediafile.py:281-350) -/
def editMedia (s : St) (spk mfid track : Nat) : St × Res :=
  match findStream s spk with
  | none => (s, .nf)
  | some _ =>
    match findFile s mfid with
    | none => (s, .nf)
    | some f =>
      match f.rep with
      | none => (s, .rej)
      | some r =>
        if r.track == track then (s, .ok) else
        match blobOnDisk s f with
        | none => (s, .rej)
        | some (st, b, d) =>
          if !d.content.idx then (s, .rej) else
          let ext := splitExt b.filename
          let nn := newName s.disk st.dir ext.1 ext.2 (s.disk.length + 1) 0
          let c' : Content := { d.content with track := track }
          let disk' := writeDisk s.disk st.dir nn c'
          -- the new file is written before the INSERT of its blob row can fail (UNIQUE filename)
          if s.blobs.any (·.filename == nn) then ({ s with disk := disk' }, .rej)
          else ({ editMediaApply s f nn c' with disk := disk' }, .ok)

/-- `MediaInfo.delete` / `DeleteMedia.delete_model` (media_management.py:167-189, 318-326) -/
def delMedia (s : St) (spk mfid : Nat) : St × Res :=
  match findStream s spk with
  | none => (s, .nf)
  | some _ =>
    match findFile s mfid with
    | none => (s, .nf)
    | some f =>
      let s1 := { s with streams := s.streams.map (fun x =>
        if x.pk == f.stream && x.tref == some f.name then { x with tref := none } else x) }
      (dropFile s1 f, .ok)

/-- `KeyHandler.put` (keypairs.py:113-151) -/
def addKey (s : St) (kid : String) (computed : Bool) : St × Res :=
  if s.keys.any (·.kid == kid) then (s, .rej)
  else ({ s with keys := s.keys ++
      [{ pk := fresh (s.keys.map (·.pk)), kid := kid, computed := computed }] }, .ok)

/-- `KeyHandler.post` for an existing key (keypairs.py:81-111) -/
def editKey (s : St) (kpk : Nat) (computed : Bool) : St × Res :=
  match findKey s kpk with
  | none => (s, .nf)
  | some _ =>
    ({ s with keys := s.keys.map (fun k => if k.pk == kpk then { k with computed := computed } else k) }, .ok)

/-- `DeleteKeyHandler.delete` (keypairs.py:195-212) -/
def delKey (s : St) (kpk : Nat) : St × Res :=
  match findKey s kpk with
  | none => (s, .nf)
  | some _ => (dropKey s kpk, .ok)

/-- `MultiPeriodStream.validate_values` (multi_period_stream.py:96-130) for the
names and titles the harness sends (allowed characters only) -/
def mpsValid (s : St) (bodyPk : Option Nat) (name title : String) : Bool :=
  if name.length < 3 then false
  else if title.length < 3 then false
  else match findMps s name with
    | none => true
    | some m => match bodyPk with
      | none => false
      | some p => m.pk == p

/-- `AddStream.put` (multi_period_streams.py:220-264) -/
def addMps (s : St) (name title : String) (ps : List PSpec) : St × Res :=
  if !mpsValid s none name title then (s, .rej)
  else
    let k := fresh (s.mps.map (·.pk))
    let s1 := { s with mps := s.mps ++ [{ pk := k, name := name, title := title }] }
    match processPeriods false s1 k ps [] with
    | none => (s, .rej)
    | some s2 => commit s s2

/-- `EditStream.post` (multi_period_streams.py:313-358) -/
def editMps (s : St) (urlName : String) (bodyPk : Option Nat) (name title : String)
    (ps : List PSpec) : St × Res :=
  match findMps s urlName with
  | none => (s, .nf)
  | some m =>
    if !mpsValid s bodyPk name title then (s, .rej)
    else
      let s1 := { s with mps := s.mps.map (fun x =>
        if x.pk == m.pk then { x with name := name, title := title } else x) }
      match processPeriods true s1 m.pk ps [] with
      | none => (s, .rej)
      | some s2 => commit s s2

/-- `EditStream.delete` (multi_period_streams.py:330-336) -/
def delMps (s : St) (name : String) : St × Res :=
  match findMps s name with
  | none => (s, .nf)
  | some m => (dropMps s m.pk, .ok)

def step (s : St) : Op → St × Res
  | .addStream d t => addStream s d t
  | .editStream k d t r => editStream s k d t r
  | .delStream k => delStream s k
  | .setDefaults k v => setDefaults s k v
  | .upload k st su c => upload s k st su c
  | .index m => index s m
  | .editMedia k m t => editMedia s k m t
  | .delMedia k m => delMedia s k m
  | .addKey kid c => addKey s kid c
  | .editKey k c => editKey s k c
  | .delKey k => delKey s k
  | .addMps n t ps => addMps s n t ps
  | .editMps u b n t ps => editMps s u b n t ps
  | .delMps n => delMps s n

/-- state reached after a history -/
def exec : St → List Op → St
  | s, [] => s
  | s, op :: ops => exec (step s op).1 ops

/-- states and results along a history (what the driver prints) -/
def run : St → List Op → List (St × Res)
  | _, [] => []
  | s, op :: ops => let r := step s op; r :: run r.1 ops

end DashLive.Store
