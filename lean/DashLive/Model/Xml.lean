/-
Model of the escaping / lexical layer of the manifest templates (property C05).

* `xmlSafe` – `dashlive/server/template_tags.py:195-206` as of the repaired tree
  (`fix:` commit 2a0f3a5: `& < > " '` are replaced, the ampersand first), followed
  line by line: five successive `str.replace` calls.
* `autoEscape` – what Jinja's autoescaping (`markupsafe.escape`) writes for a `str`;
  it is on for the `.xml` templates (patches, segment, drm, events) and off for
  the `.mpd` templates.
* a minimal XML tokenizer: a character-level state machine (`step`) recognising
  element start / end / empty tags with attributes in single or double quotes,
  character data with entity / character references, comments, processing
  instructions and CDATA sections.  `tags` keeps character data and attribute
  values; `skeleton` is the same machine with `keep := false`: character data is
  not recorded and attribute values are recorded as empty – "the token structure
  except for character data".
* the site table types (`Site`, `Ctx`, `Kind`, `Filter`) of the generated
  `Gen/TemplateSites.lean` and the decidable adequacy check `Site.adequate`.
* decidable recognisers of the XSD lexical spaces used by the property
  (`isXsDuration`, `isXsDateTime`, `isXsUnsigned`).

Import-free except for `DashLive.Model.IsoText` (C19's text renderers).

Not modelled: DOCTYPE declarations (none of the templates has one – the tokenizer
rejects them), the XML declaration's pseudo-attributes (lexed as a PI), name
characters outside ASCII are all accepted, the rule that `]]>` must not occur in
character data, namespace prefix binding, the content of references beyond the
five predefined entities and numeric references.
-/
import DashLive.Model.IsoText
namespace DashLive.Xml

abbrev Text := List Char

/-! ## escaping -/

/-- `str.replace(c, r)` for a one-character pattern -/
def replaceChar (c : Char) (r : Text) (s : Text) : Text :=
  s.flatMap fun x => if x = c then r else [x]

/-- `xmlSafe` – template_tags.py:195-206 (value `None` is the empty string) -/
def xmlSafe (s : Text) : Text :=
  replaceChar '\'' "&apos;".toList <|
  replaceChar '"' "&quot;".toList <|
  replaceChar '>' "&gt;".toList <|
  replaceChar '<' "&lt;".toList <|
  replaceChar '&' "&amp;".toList s

/-- the single-pass view of `xmlSafe` (proved equal in `Lemmas/Xml.lean`) -/
def escChar (c : Char) : Text :=
  if c = '&' then "&amp;".toList
  else if c = '<' then "&lt;".toList
  else if c = '>' then "&gt;".toList
  else if c = '"' then "&quot;".toList
  else if c = '\'' then "&apos;".toList
  else [c]

/-- `markupsafe.escape` on a `str` (Jinja autoescape) -/
def autoChar (c : Char) : Text :=
  if c = '&' then "&amp;".toList
  else if c = '<' then "&lt;".toList
  else if c = '>' then "&gt;".toList
  else if c = '"' then "&#34;".toList
  else if c = '\'' then "&#39;".toList
  else [c]

def autoEscape (s : Text) : Text := s.flatMap autoChar

/-- `xmlSafe` before commit 2a0f3a5 (only `&`), kept for the counter-examples -/
def xmlSafeOld (s : Text) : Text := replaceChar '&' "&amp;".toList s

/-! ## tokenizer -/

inductive Tok where
  | text (s : Text)
  | open_ (name : Text) (attrs : List (Text × Text))
  | empty (name : Text) (attrs : List (Text × Text))
  | close (name : Text)
  | comment (s : Text)
  | pi (s : Text)
  | cdata (s : Text)
deriving DecidableEq, Repr

/-- lexer modes; every buffer is kept reversed (most recent character first) -/
inductive Mode where
  /-- character data; `ref` = the characters of a reference after its `&` -/
  | content (txt : Text) (ref : Option Text)
  | lt
  | name (n : Text)
  | inTag (n : Text) (as : List (Text × Text)) (sp : Bool)
  | attrName (n : Text) (as : List (Text × Text)) (an : Text)
  | afterAttrName (n : Text) (as : List (Text × Text)) (an : Text)
  | beforeValue (n : Text) (as : List (Text × Text)) (an : Text)
  | value (q : Char) (n : Text) (as : List (Text × Text)) (an : Text) (v : Text) (ref : Option Text)
  | slash (n : Text) (as : List (Text × Text))
  | closeName (n : Text)
  | closeSpace (n : Text)
  | bang (seen : Text)
  | comment (body : Text) (dashes : Nat)
  | pi (body : Text) (q : Bool)
  | cdata (body : Text) (br : Nat)
deriving DecidableEq, Repr

structure St where
  mode : Mode
  out : List Tok
deriving DecidableEq, Repr

def isWs (c : Char) : Bool := c = ' ' || c = '\t' || c = '\n' || c = '\r'

def isNameStart (c : Char) : Bool := c.isAlpha || c = '_' || c = ':' || c.toNat ≥ 128

def isNameChar (c : Char) : Bool := isNameStart c || c.isDigit || c = '-' || c = '.'

def isHex (c : Char) : Bool :=
  c.isDigit || ('a' ≤ c && c ≤ 'f') || ('A' ≤ c && c ≤ 'F')

/-- the body of a reference (between `&` and `;`): a predefined entity or a numeric reference -/
def validRef (r : Text) : Bool :=
  r = "amp".toList || r = "lt".toList || r = "gt".toList || r = "quot".toList || r = "apos".toList ||
  (match r with
   | '#' :: 'x' :: d :: ds => (d :: ds).all isHex
   | '#' :: d :: ds => (d :: ds).all Char.isDigit
   | _ => false)

def isRefChar (c : Char) : Bool := c.isAlphanum || c = '#'

/-- consume one character of a reference; `none` = malformed, `some none` = reference complete -/
def refStep (acc : Text) (c : Char) : Option (Option Text) :=
  if c = ';' then (if validRef acc.reverse then some none else none)
  else if isRefChar c then some (some (c :: acc))
  else none

def push (keep : Bool) (c : Char) (buf : Text) : Text := if keep then c :: buf else buf

def pushAll (keep : Bool) (cs : Text) (buf : Text) : Text := if keep then cs ++ buf else buf

/-- the characters of a completed reference `&acc;` in reversed order -/
def refChars (acc : Text) : Text := ';' :: (acc ++ ['&'])

def flushText (keep : Bool) (txt : Text) (out : List Tok) : List Tok :=
  if keep && !txt.isEmpty then Tok.text txt.reverse :: out else out

def mkAttrs (as : List (Text × Text)) : List (Text × Text) := as.reverse

def prefixOfAny (s : Text) : Bool := s.isPrefixOf "--".toList || s.isPrefixOf "[CDATA[".toList

/-- one character of input; `none` = not well-formed -/
def step (keep : Bool) (st : St) (c : Char) : Option St :=
  match st.mode with
  | .content txt none =>
    if c = '<' then some ⟨.lt, flushText keep txt st.out⟩
    else if c = '&' then some ⟨.content txt (some []), st.out⟩
    else some ⟨.content (push keep c txt) none, st.out⟩
  | .content txt (some acc) =>
    match refStep acc c with
    | none => none
    | some none => some ⟨.content (pushAll keep (refChars acc) txt) none, st.out⟩
    | some (some acc') => some ⟨.content txt (some acc'), st.out⟩
  | .lt =>
    if c = '/' then some ⟨.closeName [], st.out⟩
    else if c = '!' then some ⟨.bang [], st.out⟩
    else if c = '?' then some ⟨.pi [] false, st.out⟩
    else if isNameStart c then some ⟨.name [c], st.out⟩
    else none
  | .name n =>
    if isNameChar c then some ⟨.name (c :: n), st.out⟩
    else if isWs c then some ⟨.inTag n [] true, st.out⟩
    else if c = '>' then some ⟨.content [] none, Tok.open_ n.reverse [] :: st.out⟩
    else if c = '/' then some ⟨.slash n [], st.out⟩
    else none
  | .inTag n as sp =>
    if isWs c then some ⟨.inTag n as true, st.out⟩
    else if c = '>' then some ⟨.content [] none, Tok.open_ n.reverse (mkAttrs as) :: st.out⟩
    else if c = '/' then some ⟨.slash n as, st.out⟩
    else if isNameStart c && sp then some ⟨.attrName n as [c], st.out⟩
    else none
  | .attrName n as an =>
    if isNameChar c then some ⟨.attrName n as (c :: an), st.out⟩
    else if c = '=' then some ⟨.beforeValue n as an, st.out⟩
    else if isWs c then some ⟨.afterAttrName n as an, st.out⟩
    else none
  | .afterAttrName n as an =>
    if isWs c then some st
    else if c = '=' then some ⟨.beforeValue n as an, st.out⟩
    else none
  | .beforeValue n as an =>
    if isWs c then some st
    else if c = '"' || c = '\'' then
      (if as.any (fun p => p.1 = an.reverse) then none       -- duplicate attribute name
       else some ⟨.value c n as an [] none, st.out⟩)
    else none
  | .value q n as an v none =>
    if c = q then some ⟨.inTag n ((an.reverse, v.reverse) :: as) false, st.out⟩
    else if c = '<' then none
    else if c = '&' then some ⟨.value q n as an v (some []), st.out⟩
    else some ⟨.value q n as an (push keep c v) none, st.out⟩
  | .value q n as an v (some acc) =>
    match refStep acc c with
    | none => none
    | some none => some ⟨.value q n as an (pushAll keep (refChars acc) v) none, st.out⟩
    | some (some acc') => some ⟨.value q n as an v (some acc'), st.out⟩
  | .slash n as =>
    if c = '>' then some ⟨.content [] none, Tok.empty n.reverse (mkAttrs as) :: st.out⟩ else none
  | .closeName n =>
    if (if n.isEmpty then isNameStart c else isNameChar c) then some ⟨.closeName (c :: n), st.out⟩
    else if n.isEmpty then none
    else if isWs c then some ⟨.closeSpace n, st.out⟩
    else if c = '>' then some ⟨.content [] none, Tok.close n.reverse :: st.out⟩
    else none
  | .closeSpace n =>
    if isWs c then some st
    else if c = '>' then some ⟨.content [] none, Tok.close n.reverse :: st.out⟩
    else none
  | .bang seen =>
    let s := seen ++ [c]
    if s = "--".toList then some ⟨.comment [] 0, st.out⟩
    else if s = "[CDATA[".toList then some ⟨.cdata [] 0, st.out⟩
    else if prefixOfAny s then some ⟨.bang s, st.out⟩
    else none
  | .comment body dashes =>
    if dashes ≥ 2 then
      (if c = '>' then some ⟨.content [] none, Tok.comment body.reverse :: st.out⟩ else none)
    else if c = '-' then some ⟨.comment body (dashes + 1), st.out⟩
    else some ⟨.comment (push keep c (pushAll keep (List.replicate dashes '-') body)) 0, st.out⟩
  | .pi body q =>
    if q && c = '>' then some ⟨.content [] none, Tok.pi body.reverse :: st.out⟩
    else if c = '?' then some ⟨.pi (if q then push keep '?' body else body) true, st.out⟩
    else some ⟨.pi (push keep c (if q then push keep '?' body else body)) false, st.out⟩
  | .cdata body br =>
    if br ≥ 2 && c = '>' then some ⟨.content [] none, Tok.cdata body.reverse :: st.out⟩
    else if c = ']' then
      (if br ≥ 2 then some ⟨.cdata (push keep ']' body) br, st.out⟩ else some ⟨.cdata body (br + 1), st.out⟩)
    else some ⟨.cdata (push keep c (pushAll keep (List.replicate br ']') body)) 0, st.out⟩

def init : St := ⟨.content [] none, []⟩

def run (keep : Bool) (st : St) (cs : Text) : Option St := cs.foldlM (step keep) st

/-- end of input: only character data (with no reference pending) may be open -/
def finish (keep : Bool) (st : St) : Option (List Tok) :=
  match st.mode with
  | .content txt none => some (flushText keep txt st.out).reverse
  | _ => none

/-- the tokens of a document; `none` = lexically malformed -/
def tags (doc : Text) : Option (List Tok) := (run true init doc).bind (finish true)

/-- the token structure with character data dropped and attribute values blanked -/
def skeleton (doc : Text) : Option (List Tok) := (run false init doc).bind (finish false)

/-- the lexer mode after reading `pre` (structure view) -/
def modeAfter (pre : Text) : Option Mode := (run false init pre).map (·.mode)

/-- `pre` ends in character data (outside any markup, no reference pending):
the *text* context of an interpolation site -/
def InText (pre : Text) : Prop := ∃ txt, modeAfter pre = some (.content txt none)

/-- `pre` ends inside an attribute value quoted with `q`: the *attribute* context -/
def InAttr (q : Char) (pre : Text) : Prop :=
  ∃ n as an v, modeAfter pre = some (.value q n as an v none)

instance (pre : Text) : Decidable (InText pre) :=
  match h : modeAfter pre with
  | some (.content txt none) => isTrue ⟨txt, h⟩
  | some (.content _ (some _)) | some .lt | some (.name _) | some (.inTag ..) | some (.attrName ..)
  | some (.afterAttrName ..) | some (.beforeValue ..) | some (.value ..) | some (.slash ..)
  | some (.closeName _) | some (.closeSpace _) | some (.bang _) | some (.comment ..) | some (.pi ..)
  | some (.cdata ..) | none => isFalse (by intro ⟨t, ht⟩; rw [h] at ht; cases ht)

instance (q : Char) (pre : Text) : Decidable (InAttr q pre) :=
  match h : modeAfter pre with
  | some (.value q' n as an v none) =>
    if hq : q' = q then isTrue ⟨n, as, an, v, by rw [h, hq]⟩
    else isFalse (by intro ⟨n', as', an', v', ht⟩; rw [h] at ht; cases ht; exact hq rfl)
  | some (.value _ _ _ _ _ (some _)) | some (.content ..) | some .lt | some (.name _) | some (.inTag ..)
  | some (.attrName ..) | some (.afterAttrName ..) | some (.beforeValue ..) | some (.slash ..)
  | some (.closeName _) | some (.closeSpace _) | some (.bang _) | some (.comment ..) | some (.pi ..)
  | some (.cdata ..) | none => isFalse (by intro ⟨_, _, _, _, ht⟩; rw [h] at ht; cases ht)

/-! ## nesting (a function of the structure only) -/

/-- start / end tags balance with matching names, there is exactly one root element and no
character data other than white space outside it -/
def wellNested (toks : List Tok) : Bool :=
  let rec go : List Tok → List Text → Nat → Option Nat
    | [], [], roots => some roots
    | [], _ :: _, _ => none
    | .open_ n _ :: r, stack, roots => go r (n :: stack) (if stack.isEmpty then roots + 1 else roots)
    | .empty _ _ :: r, stack, roots => go r stack (if stack.isEmpty then roots + 1 else roots)
    | .close n :: r, top :: stack, roots => if n = top then go r stack roots else none
    | .close _ :: _, [], _ => none
    | .cdata _ :: r, stack, roots => if stack.isEmpty then none else go r stack roots
    | .text s :: r, stack, roots => if stack.isEmpty && !s.all isWs then none else go r stack roots
    | _ :: r, stack, roots => go r stack roots
  go toks [] 0 = some 1

/-! ## the interpolation-site table -/

inductive Ctx where
  | text | attrDq | attrSq | other
deriving DecidableEq, Repr

inductive Kind where
  | untrusted | duration | dateTime | uint | enumCode | media | fraction | base64 | hex | uuid | markup
deriving DecidableEq, Repr

inductive Filter where
  | isoDuration | isoDateTime | xmlSafe | safe | base64 | uuid | trueFalse | frameRateFraction
  | join | default | sortedAttributes | length | toJson | other
deriving DecidableEq, Repr

structure Site where
  file : String
  line : Nat
  ctx : Ctx
  expr : String
  filters : List Filter
  autoescape : Bool
  kind : Kind
deriving Repr

/-- how often the value written at a site is escaped: once by an `xmlSafe` that ends
the chain, once by autoescaping unless the chain marks the value `safe` -/
def Site.escapes (s : Site) : Nat :=
  (if s.filters.getLast? = some .xmlSafe then 1 else 0)
  + (if s.autoescape && !(s.filters.contains .safe) then 1 else 0)

/-- the escaping function that is applied at the site (meaningful when `escapes = 1`) -/
def Site.escape (s : Site) : Text → Text :=
  if s.filters.getLast? = some .xmlSafe then xmlSafe else autoEscape

/-- A site that writes an untrusted string sits in character data or in a quoted
attribute value and escapes it exactly once (`xmlSafe` and autoescaping both
escape `&`, `<`, `>` and both quote characters, so either is adequate for all
three contexts; twice would write `&amp;lt;` for `<`).  `xmlSafe` may only be
the last filter, and nothing may be marked `safe`. -/
def Site.adequate (s : Site) : Bool :=
  s.kind != .untrusted ||
    ((s.ctx = .text || s.ctx = .attrDq || s.ctx = .attrSq) && s.escapes = 1
      && !(s.filters.dropLast.contains .xmlSafe) && !(s.filters.contains .safe))

/-- a site that is neither in character data nor in a quoted value may only write
text fixed by the code -/
def Site.placed (s : Site) : Bool :=
  s.ctx != .other || s.kind = .enumCode || s.kind = .markup

/-! ## XSD lexical spaces -/

def allDigits (l : Text) : Bool := !l.isEmpty && l.all Char.isDigit

/-- xs:unsignedInt / xs:unsignedLong without sign: `\d+` -/
def isXsUnsigned (t : Text) : Bool := allDigits t

/-- `\d+(\.\d+)?` -/
def isDecimal (t : Text) : Bool :=
  allDigits (t.takeWhile (· != '.')) && (match t.dropWhile (· != '.') with
    | [] => true
    | _ :: f => allDigits f)

/-- an optional `\d+<unit>` field: rest of the text after it (unchanged when absent) -/
def dropField (unit : Char) (t : Text) : Text :=
  match t.dropWhile Char.isDigit with
  | c :: r => if c = unit && !(t.takeWhile Char.isDigit).isEmpty then r else t
  | [] => t

/-- non-negative xs:duration without a date part beyond days:
`P(\d+D)?(T(\d+H)?(\d+M)?(\d+(\.\d+)?S)?)?` with at least one field, and at least
one time field after a `T` -/
def isXsDuration (t : Text) : Bool :=
  match t with
  | 'P' :: r =>
    let r1 := dropField 'D' r
    (match r1 with
     | [] => r1 != r
     | 'T' :: r2 =>
       let r3 := dropField 'H' r2
       let r4 := dropField 'M' r3
       (match r4 with
        | [] => r4 != r2
        | _ => r4.getLast? = some 'S' && isDecimal r4.dropLast)
     | _ => false)
  | _ => false

def twoDigits (t : Text) : Option (Nat × Text) :=
  match t with
  | a :: b :: r => if a.isDigit && b.isDigit then some ((a.toNat - 48) * 10 + (b.toNat - 48), r) else none
  | _ => none

def expectChar (c : Char) (t : Text) : Option Text :=
  match t with
  | x :: r => if x = c then some r else none
  | [] => none

/-- `[+-]hh:mm`, at most ±14:00 (XML Schema part 2, 3.2.7.3) -/
def isTzOffset (s : Char) (r : Text) : Bool :=
  (s = '+' || s = '-') &&
  (match twoDigits r with
   | some (h, r1) =>
     (match expectChar ':' r1 with
      | some r2 => (match twoDigits r2 with
        | some (m, []) => (h < 14 && m < 60) || (h = 14 && m = 0)
        | _ => false)
      | none => false)
   | none => false)

/-- the time-zone suffix `(Z|[+-]hh:mm)?` -/
def isTz (t : Text) : Bool :=
  match t with
  | [] => true
  | s :: r => (s = 'Z' && r.isEmpty) || isTzOffset s r

/-- xs:dateTime with a non-negative four-digit year: `yyyy-mm-ddThh:mm:ss(\.\d+)?(Z|[+-]hh:mm)?`,
month 1-12, day 1-31, hour < 24, minute < 60, second < 60 -/
def isXsDateTime (t : Text) : Bool :=
  let y := t.take 4
  y.length = 4 && y.all Char.isDigit &&
  (match expectChar '-' (t.drop 4) with
   | none => false
   | some r =>
   match twoDigits r with
   | none => false
   | some (mo, r) =>
   match expectChar '-' r with
   | none => false
   | some r =>
   match twoDigits r with
   | none => false
   | some (d, r) =>
   match expectChar 'T' r with
   | none => false
   | some r =>
   match twoDigits r with
   | none => false
   | some (h, r) =>
   match expectChar ':' r with
   | none => false
   | some r =>
   match twoDigits r with
   | none => false
   | some (mi, r) =>
   match expectChar ':' r with
   | none => false
   | some r =>
   match twoDigits r with
   | none => false
   | some (s, r) =>
     1 ≤ mo && mo ≤ 12 && 1 ≤ d && d ≤ 31 && h < 24 && mi < 60 && s < 60 &&
     (match r with
      | '.' :: f => allDigits (f.takeWhile Char.isDigit) && isTz (f.dropWhile Char.isDigit)
      | _ => isTz r))

end DashLive.Xml
