/-!
# Error injection: the session counter state machine, time → segment translation,
and the request-data dependent loop of `get_segment_index` (C16)

Anchors (all in `/repo`, after the `fix:` commits 3f03c07, e4f8a3e, a1efbe1):

* `dashlive/server/requesthandler/media_requests.py:347-368` – `check_for_synthetic_http_error`
* `dashlive/server/requesthandler/manifest_requests.py:181-214` – `check_for_synthetic_manifest_error`
* `dashlive/server/requesthandler/base.py:260-272` – `increment_error_counter`,
  `reset_error_counter` (the counter lives in the Flask session cookie, one entry per
  `error-<usage>-<code>`; since 3f03c07 a reset removes the entry)
* `dashlive/server/requesthandler/manifest_context.py:578-615` – `calculate_injected_error_segments`
* `dashlive/mpeg/dash/representation.py:577-598` – `get_segment_index`

Import-free (core Lean only): compiled into the line-protocol driver.
-/
namespace DashLive.Inject

/-- the `usage` part of the counter key: `'manifest'` or the media file's content type -/
inductive Usage where
  | manifest | audio | video | text
deriving DecidableEq, Repr

/-- where an injected error is addressed: a segment number / update count, or a time of
day (`pos.hour`, `pos.minute`, `pos.second` are all that is read of a date-time) in seconds -/
inductive Pos where
  | num (z : Int)
  | tod (secs : Nat)
deriving DecidableEq, Repr

/-- the error counters of one client session; an absent key reads as 0 -/
abbrev Store := Usage → Int → Nat

def Store.empty : Store := fun _ _ => 0

def Store.set (st : Store) (u : Usage) (c : Int) (v : Nat) : Store :=
  fun u' c' => if u' = u ∧ c' = c then v else st u' c'

/-- `increment_error_counter`: returns the new value -/
def incr (st : Store) (u : Usage) (c : Int) : Nat × Store :=
  (st u c + 1, st.set u c (st u c + 1))

/-- `reset_error_counter` -/
def reset (st : Store) (u : Usage) (c : Int) : Store := st.set u c 0

/-- the `for item in errs` loop shared by both checks; `hit pos` is the handler's test
whether the request is at the addressed position.  Returns the synthetic status (if
any) and the new session. -/
def checkLoop (u : Usage) (hit : Pos → Bool) (failures : Option Int) :
    List (Int × Pos) → Store → Option Int × Store
  | [], st => (none, st)
  | (code, pos) :: rest, st =>
    if !hit pos then checkLoop u hit failures rest st            -- `continue`
    else
      match failures with
      | some n =>
        if code ≥ 500 then
          -- `self.increment_error_counter(usage, code) > options.failureCount`
          let r := incr st u code
          if (r.1 : Int) > n then checkLoop u hit failures rest (reset r.2 u code)
          else (some code, r.2)
        else (some code, st)
      | none => (some code, st)

/-- `pos != seg_num` of the media check: a number equals the requested segment number;
a time never equals a number, and a `$Time$` request has `seg_num = None` -/
def mediaHit (seg : Option Int) : Pos → Bool
  | .num z => seg == some z
  | .tod _ => false

/-- the clock facts the manifest check reads -/
structure Clock where
  /-- `options.availabilityStartTime` is a `datetime` (live manifests only) -/
  live : Bool
  /-- seconds since midnight of `availabilityStartTime` in its own time zone -/
  astTod : Nat
  /-- `now - availabilityStartTime` in microseconds -/
  elapsed : Int
  /-- `minimumUpdatePeriod` of the manifest in seconds (0 when updates are disabled) -/
  mup : Nat
deriving Repr

/-- manifest check: a number is compared with `options.updateCount`; a time addresses the
window `[tm, tm + mup]` where `tm` is `availabilityStartTime` with the time of day replaced -/
def manifestHit (update : Option Int) (k : Clock) : Pos → Bool
  | .num z => update == some z
  | .tod s =>
    k.live &&
      decide (((s : Int) - k.astTod) * 1000000 ≤ k.elapsed ∧
              k.elapsed ≤ ((s : Int) - k.astTod + k.mup) * 1000000)

/-! ## requests and request sequences -/

/-- the injection options of one request -/
structure Spec where
  verr : List (Int × Pos) := []
  aerr : List (Int × Pos) := []
  terr : List (Int × Pos) := []
  merr : List (Int × Pos) := []
  /-- `failures=` -/
  failures : Option Int := none
deriving Repr

def Spec.errsFor (q : Spec) : Usage → List (Int × Pos)
  | .video => q.verr
  | .audio => q.aerr
  | .text => q.terr
  | .manifest => q.merr

/-- one request: a media segment (`usage` = content type, `seg` = `None` for `$Time$`
addressing) or a manifest (`usage = manifest`, `seg` = `options.updateCount`) -/
structure Req where
  usage : Usage
  spec : Spec
  seg : Option Int
  clock : Clock := ⟨false, 0, 0, 0⟩
deriving Repr

/-- the check of one request -/
def step (r : Req) (st : Store) : Option Int × Store :=
  match r.usage with
  | .manifest => checkLoop .manifest (manifestHit r.seg r.clock) r.spec.failures r.spec.merr st
  | u => checkLoop u (mediaHit r.seg) r.spec.failures (r.spec.errsFor u) st

/-- a sequence of requests of one client (one cookie jar) -/
def run : List Req → Store → List (Option Int)
  | [], _ => []
  | r :: rs, st => (step r st).1 :: run rs (step r st).2

def finalStore : List Req → Store → Store
  | [], st => st
  | r :: rs, st => finalStore rs (step r st).2

/-! ## `calculate_injected_error_segments` -/

/-- `int(scale_timedelta(tm - availabilityStartTime, timescale, segment_duration))`:
`delta` in seconds (may be negative); `int()` truncates towards zero -/
def dropSeg (timescale segDur : Nat) (delta : Int) : Int := Int.tdiv (timescale * delta) segDur

/-- one translated entry: `none` = dropped (`tm < earliest_available`).  `depth` =
`timeShiftBufferDepth` in seconds. -/
def translate (k : Clock) (depth : Nat) (timescale segDur : Nat) : Int × Pos → Option (Int × Int)
  | (code, .num z) => some (code, z)
  | (code, .tod s) =>
    if !k.live then none                     -- VOD: a time selects nothing (a1efbe1)
    else
      let delta : Int := (s : Int) - k.astTod
      -- `tm < now - timeShiftBufferDepth`
      if delta * 1000000 < k.elapsed - (depth : Int) * 1000000 then none
      else some (code, dropSeg timescale segDur delta)

def injectedSegments (k : Clock) (depth timescale segDur : Nat) (errs : List (Int × Pos)) :
    List (Int × Int) :=
  errs.filterMap (translate k depth timescale segDur)

/-! ## `Representation.get_segment_index` with an explicit "still running" result -/

def durAt (durs : List Nat) (k : Nat) : Nat := durs.getD k 0

/-- the `while` loop; state `(m, seg_start_tc, origin_time)` with `m = mod_segment − 1`;
`none` = the fuel is used up and the loop is still running -/
def gsiLoop (durs : List Nat) (R tc : Nat) : Nat → Nat → Nat → Nat → Option (Nat × Nat × Nat)
  | 0, _, _, _ => none
  | fuel+1, m, s, o =>
    if s + durAt durs m / 2 < tc then
      if m + 1 ≥ durs.length then gsiLoop durs R tc fuel 0 (o + R) (o + R)
      else gsiLoop durs R tc fuel (m + 1) (s + durAt durs m) o
    else some (m, s, o)

inductive GsiResult where
  | found (modSegment segStart origin : Nat)
  /-- `assert ref_duration_tc > 0` -/
  | assertionError
  | running
deriving DecidableEq, Repr

/-- `get_segment_index(timecode)`; `fuel` iterations of the loop are allowed -/
def getSegmentIndex (durs : List Nat) (R tc fuel : Nat) : GsiResult :=
  if R = 0 then .assertionError
  else
    let o := tc / R * R
    match gsiLoop durs R tc fuel 0 o o with
    | some r => .found (r.1 + 1) r.2.1 r.2.2
    | none => .running

/-! ## count-driven loops of the MP4 parser (`dashlive/mpeg/mp4.py`, `for … in range(count)`) -/

/-- what `harness/gen_parser_loops.py` reads from the source of one loop.
`cap`: constant of an `if count > CONST: raise` in front of the loop; `countMax`: largest value
of the field the count is read from; `minBytes`: bytes every iteration reads through a read
that raises at the end of the input (0: every read of the body is conditional). -/
structure ParserLoop where
  cls : String
  fn : String
  idx : Nat
  count : String
  cap : Option Nat
  countMax : Nat
  minBytes : Nat
deriving Repr, DecidableEq

/-- the loop on an input with `rem` bytes left: an iteration that finds fewer than `k` bytes
raises (and is the last one); → number of iterations started -/
def countLoop (k : Nat) : Nat → Nat → Nat
  | 0, _ => 0
  | count + 1, rem => if rem < k then 1 else 1 + countLoop k count (rem - k)

/-- the guard in front of the loop, then the loop -/
def ParserLoop.run (l : ParserLoop) (count rem : Nat) : Nat :=
  match l.cap with
  | some c => if count > c then 0 else countLoop l.minBytes count rem
  | none => countLoop l.minBytes count rem

/-- the bound on the number of iterations the source supports: the cap, a count field of at
most 16 bits, or the input length; `none` = nothing bounds the loop but a 32/64-bit field -/
def ParserLoop.bound (l : ParserLoop) (len : Nat) : Option Nat :=
  match l.cap with
  | some c => some c
  | none =>
    if l.countMax ≤ 65535 then some l.countMax
    else if l.minBytes > 0 then some (len / l.minBytes + 1)
    else none

end DashLive.Inject
