/-
Model of the segment-extent logic of `Representation.load`
(dashlive/mpeg/dash/representation.py:166-230) and of `generateSegmentList`
(:386-399): which byte ranges of a stored file become the init segment and the
media segments of an on-demand (`SegmentList` / `SegmentBase`) manifest.
Import-free.
-/
namespace DashLive.Indexing

/-- top-level box kinds the indexing loop distinguishes -/
inductive Kind
  | ftyp | moof | sidx | moov | mdat | free | other
  deriving DecidableEq, Repr

structure Box where
  kind : Kind
  pos : Nat
  size : Nat
  deriving Repr, DecidableEq

/-- a stored segment: position and size (`Segment.pos`, `Segment.size`) -/
structure Seg where
  pos : Nat
  size : Nat
  deriving Repr, DecidableEq

def extends_ (k : Kind) : Bool :=
  k == .sidx || k == .moov || k == .mdat || k == .free

/-- one iteration of `for atom in atoms` (only the extent bookkeeping).  The
accumulator holds the segments found so far, **most recent first** (`rv.segments[-1]`
is the head). -/
def step (acc : List Seg) (b : Box) : List Seg :=
  if b.kind == .ftyp || b.kind == .moof then { pos := b.pos, size := b.size } :: acc
  else if extends_ b.kind then
    match acc with
    | [] => []
    | last :: rest => { pos := last.pos, size := b.pos - last.pos + b.size } :: rest
  else acc

/-- `rv.segments` after the loop, in file order -/
def index (boxes : List Box) : List Seg := (boxes.foldl step []).reverse

/-- `generateSegmentList`: inclusive byte ranges `pos .. pos+size-1`; the first is the
initialization range -/
def ranges (segs : List Seg) : List (Nat × Nat) := segs.map fun s => (s.pos, s.pos + s.size - 1)

end DashLive.Indexing
