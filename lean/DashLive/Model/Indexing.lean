/-
Model of the segment-extent logic of `Representation.load`
(dashlive/mpeg/dash/representation.py:166-230) and of `generateSegmentList`
(:386-399): which byte ranges of a stored file become the init segment and the
media segments of an on-demand (`SegmentList` / `SegmentBase`) manifest.
Import-free.
-/
namespace DashLive.Indexing

/-- top-level box kinds the indexing loop distinguishes -/
inductive Kind
  | ftyp | moof | sidx | moov | mdat | free | other
  deriving DecidableEq, Repr

structure Box where
  kind : Kind
  pos : Nat
  size : Nat
  deriving Repr, DecidableEq

/-- a stored segment: position and size (`Segment.pos`, `Segment.size`) -/
structure Seg where
  pos : Nat
  size : Nat
  deriving Repr, DecidableEq

def extends_ (k : Kind) : Bool :=
  k == .sidx || k == .moov || k == .mdat || k == .free

/-- one iteration of `for atom in atoms` (only the extent bookkeeping).  The
accumulator holds the segments found so far, **most recent first** (`rv.segments[-1]`
is the head). -/
def step (acc : List Seg) (b : Box) : List Seg :=
  if b.kind == .ftyp || b.kind == .moof then { pos := b.pos, size := b.size } :: acc
  else if extends_ b.kind then
    match acc with
    | [] => []
    | last :: rest => { pos := last.pos, size := b.pos - last.pos + b.size } :: rest
  else acc

/-- `rv.segments` after the loop, in file order -/
def index (boxes : List Box) : List Seg := (boxes.foldl step []).reverse

/-- `generateSegmentList`: inclusive byte ranges `pos .. pos+size-1`; the first is the
initialization range -/
def ranges (segs : List Seg) : List (Nat × Nat) := segs.map fun s => (s.pos, s.pos + s.size - 1)

end DashLive.Indexing

/-! ### durations, start time, start number (`Representation.load`, representation.py:181-249) -/
namespace DashLive.Indexing

/-- what the loop reads from one `moof`: `mfhd.sequence_number`, `tfdt` (if present) and the
per-sample durations of the `trun` (0 = absent → `trex.default_sample_duration`) -/
structure Frag where
  seq : Nat
  tfdt : Option Nat
  sampleDurs : List Nat
  deriving Repr, DecidableEq

/-- loop state: (segment_start_time, segment_end_time, representation_start_time,
start_number, durations so far) -/
structure LoadSt where
  segStart : Nat := 0
  segEnd : Nat := 0
  repStart : Option Nat := none
  startNumber : Option Nat := none
  durs : List Nat := []
  deriving Repr, DecidableEq

def fragDur (dflt : Nat) (f : Frag) : Nat :=
  (f.sampleDurs.map fun d => if d = 0 then dflt else d).sum

/-- one `moof` iteration (lines 181-205) -/
def loadStep (dflt : Nat) (s : LoadSt) (f : Frag) : LoadSt :=
  let dur := fragDur dflt f
  let start := match f.tfdt with
    | none => s.segEnd
    | some t => t
  let end0 := match f.tfdt with
    | none => s.segEnd
    | some t => t
  { segStart := start
    segEnd := end0 + dur
    repStart := match s.repStart with | none => some start | some r => some r
    startNumber := match s.startNumber with | none => some f.seq | some n => some n
    durs := s.durs ++ [dur] }

structure RepInfo where
  durs : List Nat
  startNumber : Nat          -- default 1 when there is no fragment
  startTime : Nat
  mediaDuration : Option Nat
  segmentDuration : Option Nat
  deriving Repr, DecidableEq

/-- the values `Representation.load` leaves in the object (lines 231-249): the duration
estimate divides the *start time of the last fragment* by the number of fragments minus one -/
def loadRep (dflt : Nat) (frags : List Frag) : RepInfo :=
  let s := frags.foldl (loadStep dflt) {}
  let n := frags.length
  { durs := s.durs
    startNumber := s.startNumber.getD 1
    startTime := s.repStart.getD 0
    mediaDuration := if n + 1 > 2 then some s.durs.sum else none
    segmentDuration := if n + 1 > 2 then some (s.segStart / (n - 1)) else none }

end DashLive.Indexing
