/-!
# Model of dash-live's CSRF token protocol (property C15)

Anchors: `dashlive/server/requesthandler/csrf.py:92-126` (`generate_token`),
`:128-189` (`check`), `dashlive/server/models/token.py:84-92` (salt length 8, `Token`
rows of type CSRF are the consumed tokens; each record is stamped `expires = now + 20 min`,
`KEY_LIFETIMES[CSRF]`, csrf.py:166), `:145-156` (`prune_database`: deletes every row with
`expires < now`, and every CSRF row when `all_csrf`; its only caller is `create_app`,
`app.py:188`, with `all_csrf=True`, i.e. at every server start – `Gen.Routes.pruneSites`).

Time: the state carries the clock (seconds) and every replay record its expiry.  The token
itself carries no timestamp, so the record is the only thing that stops a second use; the
clock matters only through `pruneExpired`.

Strings are `List Char`.  The MAC – `str(base64.b64encode(hmac_sha1(secret, ·)))` – is an
abstract function `mac`; HMAC itself is not modelled.  HMAC's `update` calls concatenate,
so the authenticated message is `cookie ++ service ++ [origin] ++ salt` with no separators –
the model keeps exactly that.

Transport encoding: `generate_token` returns `urllib.parse.quote(token)` and the first thing
`check` does with the submitted text is `token = urllib.parse.unquote(csrf_token)` (csrf.py:146);
every later step – the re-use lookup, the recorded `jti`, salt and signature – works on that
decoded token.  `unquote` is a parameter of the model (`Cfg.unquote`); nothing is assumed about
it except that it is a function.  `check` below is the code after the decoding step,
`checkWire` is the whole of `CsrfProtection.check`; the driver instantiates `unquote` with
`pctDecode` (percent-decoding of ASCII escapes), validated by the csrf_seq channel.
-/
namespace DashLive.Csrf

abbrev Str := List Char

/-- `Token.CSRF_SALT_LENGTH` (token.py:88) -/
def saltLen : Nat := 8

structure Cfg where
  /-- message ↦ rendered signature -/
  mac : Str → Str
  /-- `DASH.STRICT_CSRF_ORIGIN` (csrf.py:101, 171) -/
  strictOrigin : Bool
  /-- `urllib.parse.unquote`: submitted (wire) text ↦ token -/
  unquote : Str → Str := id

/-- what `sig.update(...)` is fed, in order (csrf.py:103-115 and 172-180) -/
def message (strict : Bool) (cookie service origin salt : Str) : Str :=
  cookie ++ service ++ (if strict then origin else []) ++ salt

/-- `generate_token`: `salt[:8] + mac(cookie ‖ service ‖ [origin] ‖ salt[:8])` -/
def issue (c : Cfg) (service cookie origin salt : Str) : Str :=
  let s := salt.take saltLen
  s ++ c.mac (message c.strictOrigin cookie service origin s)

inductive Result
  /-- `check` returns normally -/
  | accepted
  /-- "csrf cookie not present" / "csrf cookie not valid" (csrf.py:134-151) – raised before anything is recorded -/
  | noCookie
  /-- "Re-use of csrf_token" (csrf.py:163-165) -/
  | reuse
  /-- "signatures do not match" (csrf.py:182-184) -/
  | badSignature
  deriving DecidableEq, Repr

/-- `KEY_LIFETIMES[TokenType.CSRF]` = 20 minutes (token.py:52), in seconds -/
def recordLifetime : Nat := 1200

/-- the `Token` rows of type CSRF – (token string, `expires`) for every token `check` has got as
far as recording – and the clock `datetime.now()` reads -/
structure St where
  used : List (Str × Nat)
  now : Nat := 0
  deriving Repr

def St.empty : St := { used := [], now := 0 }

/-- the recorded token strings (`jti` column) -/
def St.tokens (st : St) : List Str := st.used.map Prod.fst

/-- `CsrfProtection.check(service, token)` for a request carrying `cookie` and `origin`.
Order as in the code: cookie tests, re-use lookup (by `jti` only – the lookup does not look at
`expires`), **record the token with `expires = now + 20 min` (and commit)**, only then split off
the salt and compare signatures – so a token with a wrong signature is consumed too. -/
def check (c : Cfg) (st : St) (service : Str) (cookie : Option Str) (origin token : Str) : St × Result :=
  match cookie with
  | none => (st, .noCookie)
  | some ck =>
    if ck = [] then (st, .noCookie)
    else if token ∈ st.tokens then (st, .reuse)
    else
      let st' : St := { st with used := (token, st.now + recordLifetime) :: st.used }
      let salt := token.take saltLen
      let sig := token.drop saltLen
      if sig = c.mac (message c.strictOrigin ck service origin salt) then (st', .accepted)
      else (st', .badSignature)

/-- the whole of `CsrfProtection.check(service, csrf_token)`: decode the submitted text first
(csrf.py:146), then everything else – in particular the consumed-token identity is the
**decoded** token, so every spelling of one token shares one replay record -/
def checkWire (c : Cfg) (st : St) (service : Str) (cookie : Option Str) (origin wire : Str) : St × Result :=
  check c st service cookie origin (c.unquote wire)

/-- `Token.prune_database(all_csrf=True)` as `create_app` calls it at every server start:
every CSRF row is deleted -/
def prune (st : St) : St := { st with used := [] }

/-- `Token.prune_database(all_csrf=False)`: `delete … where expires < now` – records that are
still live (`now ≤ expires`) stay.  No request handler calls it (`Gen.Routes.pruneSites`,
theorem `no_handler_prunes`); it is modelled because the function exists. -/
def pruneExpired (st : St) : St := { st with used := st.used.filter fun p => !(p.2 < st.now) }

inductive Ev
  | check (service : Str) (cookie : Option Str) (origin token : Str)
  /-- server restart -/
  | prune
  /-- `prune_database(all_csrf=False)` -/
  | pruneExpired
  /-- the clock reads `now` from here on (any value: jumps forward across the record and token
  lifetimes, or backwards) -/
  | tick (now : Nat)
  /-- any other request of any user – login, logout, token refresh, page views, state changes:
  none of them touches a CSRF replay record -/
  | request
  deriving Repr

/-- the event deletes replay records -/
def Ev.isPrune : Ev → Bool
  | .prune => true
  | .pruneExpired => true
  | _ => false

/-- the token a `check` event presents -/
def Ev.token? : Ev → Option Str
  | .check _ _ _ t => some t
  | _ => none

/-- result of one event (`none` unless it is a check) -/
def step (c : Cfg) (st : St) : Ev → St × Option Result
  | .check svc ck o t => let (st', res) := check c st svc ck o t; (st', some res)
  | .prune => (prune st, none)
  | .pruneExpired => (pruneExpired st, none)
  | .tick n => ({ st with now := n }, none)
  | .request => (st, none)

/-- run a history from a state; one output per event -/
def run (c : Cfg) : St → List Ev → List (Ev × Option Result)
  | _, [] => []
  | st, e :: es => let (st', res) := step c st e; (e, res) :: run c st' es

/-- the state after a history -/
def final (c : Cfg) : St → List Ev → St
  | st, [] => st
  | st, e :: es => final c (step c st e).1 es

/-- a history as it arrives on the wire: `check` events carry the submitted text -/
inductive WireEv
  | check (service : Str) (cookie : Option Str) (origin wire : Str)
  | prune
  | pruneExpired
  | tick (now : Nat)
  | request
  deriving Repr

def WireEv.isPrune : WireEv → Bool
  | .prune => true
  | .pruneExpired => true
  | _ => false

/-- what `CsrfProtection.check` makes of a wire event -/
def WireEv.decode (c : Cfg) : WireEv → Ev
  | .check svc ck o w => .check svc ck o (c.unquote w)
  | .prune => .prune
  | .pruneExpired => .pruneExpired
  | .tick n => .tick n
  | .request => .request

/-- run a wire history: every event is decoded, then handled as above
(`step c st (e.decode c)` is `checkWire` for a check event) -/
def runWire (c : Cfg) (st : St) (evs : List WireEv) : List (Ev × Option Result) :=
  run c st (evs.map (WireEv.decode c))

/-- percent-decoding as the driver instantiates `unquote`: `%XY` with two hex digits (either
case) becomes the character with that code, anything else is kept.  (Python additionally
UTF-8-decodes escapes ≥ 0x80; the harness only uses ASCII escapes.) -/
def hexVal (c : Char) : Option Nat :=
  if '0' ≤ c ∧ c ≤ '9' then some (c.toNat - '0'.toNat)
  else if 'a' ≤ c ∧ c ≤ 'f' then some (c.toNat - 'a'.toNat + 10)
  else if 'A' ≤ c ∧ c ≤ 'F' then some (c.toNat - 'A'.toNat + 10)
  else none

def pctDecode : Str → Str
  | [] => []
  | '%' :: a :: b :: rest =>
    match hexVal a, hexVal b with
    | some x, some y => Char.ofNat (x * 16 + y) :: pctDecode rest
    | _, _ => '%' :: pctDecode (a :: b :: rest)
  | ch :: rest => ch :: pctDecode rest

/-- how often `t` was accepted in an annotated history -/
def acceptedCount (t : Str) (h : List (Ev × Option Result)) : Nat :=
  (h.filter fun p => p.1.token? == some t && p.2 == some Result.accepted).length

end DashLive.Csrf
