import DashLive.Model.Segments
/-
Model of MPD patch documents: `ServePatch.get` (manifest_requests.py) renders
templates/patches/hand_made.xml with the same `ManifestContext` functions as the full manifest
at request time; the PatchLocation URL carries `int(publishTime.timestamp())`
(manifest_context.py:113-128).  Import-free apart from the segment model.
-/
namespace DashLive.Segments

/-- the parts of a live manifest a patch replaces -/
structure Doc where
  mpdId : String
  publishTime : Int                         -- µs since the epoch
  patchLocation : String
  timelines : List ((String × String) × List SNode)   -- (period id, adaptation set id) ↦ timeline
  deriving DecidableEq

/-- a patch document: ids + the three kinds of `replace` operation of templates/patches/hand_made.xml -/
structure Patch where
  mpdId : String
  originalPublishTime : Int
  publishTime : Int
  newPublishTime : Int
  newPatchLocation : String
  newTimelines : List ((String × String) × List SNode)
  deriving DecidableEq

/-- `ServePatch.get` at clock T₂ for the publish time carried by the PatchLocation URL:
`int(publishTime.timestamp())` seconds, turned back into an instant -/
def servePatch (docNow : Doc) (publishSeconds : Int) : Patch :=
  { mpdId := docNow.mpdId
    originalPublishTime := publishSeconds * 1000000
    publishTime := docNow.publishTime
    newPublishTime := docNow.publishTime
    newPatchLocation := docNow.patchLocation
    newTimelines := docNow.timelines }

/-- one `<replace sel=".../SegmentTimeline[1]">`: the timeline with that key is replaced -/
def replaceTl (newTls : List ((String × String) × List SNode))
    (kv : (String × String) × List SNode) : (String × String) × List SNode :=
  match newTls.lookup kv.1 with
  | some tl => (kv.1, tl)
  | none => kv

/-- RFC 5261-style application of the patch's `replace` operations -/
def applyPatch (p : Patch) (d : Doc) : Doc :=
  { d with
    publishTime := p.newPublishTime
    patchLocation := p.newPatchLocation
    timelines := d.timelines.map (replaceTl p.newTimelines) }

/-- seconds carried by the PatchLocation URL (manifest_context.py:121) -/
def publishSeconds (d : Doc) : Int := d.publishTime / 1000000


end DashLive.Segments
