/-
Model of `dashlive/utils/buffered_reader.py` (class `BufferedReader`) for the
configuration property C20 quantifies over: an underlying file, a window
`(offset, size)` with an *explicit* size, a buffer size and a cache limit.

Import-free (core Lean only) so that the line-protocol driver can be compiled.

The Python object is modelled as an immutable state `St` plus a configuration
`Cfg`; every method becomes a function returning the new state and the value the
method returns.  The underlying file object is modelled by `fileRead`:
`reader.seek(p); reader.read(k)` returns `(file.drop p).take k` (short at EOF).

Eviction: the real code removes the cached bucket with the smallest
`time.time()` stamp.  The model removes the bucket chosen by an arbitrary
function `Cfg.evict` of the cache contents, so that every theorem covers the
timestamp LRU and any other policy (including ties between equal timestamps).
-/
namespace DashLive.BufReader

abbrev Bytes := List UInt8

structure Cfg where
  file    : Bytes
  offset  : Nat
  size    : Nat            -- explicit window size (`size=` argument)
  bufsize : Nat            -- `buffersize`
  maxbuf  : Nat            -- `max_buffers`
  /-- which cached entry (index into the cache list) `cache()` evicts when full -/
  evict   : List (Nat × Bytes) → Nat

structure St where
  pos     : Nat
  buffers : List (Nat × Bytes)   -- bucket start (window relative) ↦ data

def init : St := { pos := 0, buffers := [] }

/-- `reader.seek(p); reader.read(k)` on the underlying file -/
def fileRead (file : Bytes) (p k : Nat) : Bytes := (file.drop p).take k

def lookup (bufs : List (Nat × Bytes)) (bucket : Nat) : Option Bytes :=
  (bufs.find? (fun e => e.1 == bucket)).map (·.2)

/-- `BufferedReader.cache(bucket)` – lines 114-135.  `num_buffers` is the length
of the list (the code keeps the two in step; the `assert` is theorem
`cache_bounded`). -/
def cache (c : Cfg) (bufs : List (Nat × Bytes)) (bucket : Nat) : List (Nat × Bytes) :=
  if (lookup bufs bucket).isSome then bufs
  else
    let bufs' := if bufs.length == c.maxbuf then bufs.eraseIdx (c.evict bufs) else bufs
    bufs' ++ [(bucket, fileRead c.file (bucket + c.offset) c.bufsize)]

/-- the `while todo:` loop of `peek` – lines 103-109.  `fuel` bounds the number
of iterations (each iteration removes at least one byte from `todo`). -/
def peekLoop (c : Cfg) : Nat → List (Nat × Bytes) → Nat → Nat → Nat → Bytes →
    List (Nat × Bytes) × Bytes
  | 0, bufs, _, _, _, acc => (bufs, acc)
  | fuel+1, bufs, bucket, off, todo, acc =>
    if todo = 0 then (bufs, acc) else
      let bufs' := cache c bufs bucket
      let sz := min todo (c.bufsize - off)
      let data := (lookup bufs' bucket).getD []
      peekLoop c fuel bufs' (bucket + c.bufsize) 0 (todo - sz) (acc ++ data.drop off)

/-- `BufferedReader.peek(size)` (size > 0) – lines 89-112 -/
def peek (c : Cfg) (s : St) (n : Nat) : St × Bytes :=
  let n' := min n (c.size - s.pos)
  if n' = 0 then (s, []) else
    let bucket := s.pos / c.bufsize * c.bufsize
    let off := s.pos - bucket
    let (bufs, data) := peekLoop c n' s.buffers bucket off n' []
    ({ s with buffers := bufs }, data)

/-- `BufferedReader.read(n)` for `n ≠ -1` – lines 137-147.  `n` is an `Int`
because Python accepts negative counts (they return the empty string). -/
def readN (c : Cfg) (s : St) (n : Int) : St × Bytes :=
  let m : Int := min n ((c.size : Int) - s.pos)
  if m ≤ 0 then (s, []) else
    let k := m.toNat
    let (s', b) := peek c s k
    ({ s' with pos := s'.pos + k }, b.take k)

/-- `BufferedReader.readall()` with a known size, as repaired by the `fix:`
commit for C20 (D5): `return self.read(self.size - self.pos)`.  (With
`pos ≤ size` the argument is never `-1`, so there is no recursion.) -/
def readAll (c : Cfg) (s : St) : St × Bytes :=
  readN c s ((c.size : Int) - s.pos)

/-- the *unrepaired* `readall()` (kept for the negative witness in Props/C20):
`reader.seek(pos); rv = reader.read()` -/
def readAllOld (c : Cfg) (s : St) : St × Bytes :=
  let rv := c.file.drop s.pos
  ({ s with pos := s.pos + rv.length }, rv)

inductive Whence | set | cur | end_
  deriving DecidableEq, Repr

/-- `BufferedReader.seek(offset, whence)` with an explicit size – lines 67-81 -/
def seek (c : Cfg) (s : St) (off : Int) (w : Whence) : St × Nat :=
  let p : Int := match w with
    | .set => off
    | .cur => (s.pos : Int) + off
    | .end_ => (c.size : Int) + off
  let p := min (max 0 p) (c.size : Int)
  ({ s with pos := p.toNat }, p.toNat)

inductive Op
  | read (n : Int)        -- `read(n)`, `n = -1` means `readall()`
  | peek (n : Nat)        -- `peek(n)`, `n > 0`
  | seek (off : Int) (w : Whence)
  | tell
  deriving Repr

inductive Out
  | bytes (b : Bytes)
  | pos (p : Nat)
  deriving DecidableEq, Repr

def step (c : Cfg) (s : St) : Op → St × Out
  | .read n =>
    if n = -1 then let (s', b) := readAll c s; (s', .bytes b)
    else let (s', b) := readN c s n; (s', .bytes b)
  | .peek n => let (s', b) := peek c s n; (s', .bytes b)
  | .seek off w => let (s', p) := seek c s off w; (s', .pos p)
  | .tell => (s, .pos s.pos)

def run (c : Cfg) : St → List Op → List Out
  | _, [] => []
  | s, op :: ops => let (s', o) := step c s op; o :: run c s' ops

/-! ### The specification: an in-memory stream over the window's bytes -/

/-- the bytes of the window -/
def window (c : Cfg) : Bytes := (c.file.drop c.offset).take c.size

/-- specification state: just a position in `window` -/
def specStep (c : Cfg) (pos : Nat) : Op → Nat × Out
  | .read n =>
    if n = -1 then
      let b := (window c).drop pos
      (pos + b.length, .bytes b)
    else if n ≤ 0 then (pos, .bytes [])
    else
      let b := ((window c).drop pos).take n.toNat
      (pos + b.length, .bytes b)
  | .peek n => (pos, .bytes (((window c).drop pos).take n))
  | .seek off w =>
    let p : Int := match w with
      | .set => off
      | .cur => (pos : Int) + off
      | .end_ => (c.size : Int) + off
    let p := min (max 0 p) (c.size : Int)
    (p.toNat, .pos p.toNat)
  | .tell => (pos, .pos pos)

/-- what it means for a model output to agree with the specification output:
equal, except that `peek` may return *more* than asked (never less, never
different): the spec's bytes must be a prefix of it. -/
def agrees : Op → Out → Out → Prop
  | .peek _, .bytes got, .bytes want => want <+: got
  | _, got, want => got = want

end DashLive.BufReader
